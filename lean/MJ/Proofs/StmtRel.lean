import MJ.Proofs.CompileRel
/-!
# Statements without back-patching (C03 stage 3)

`relStmt` / `relBlock`: the code of a statement of the fragment with resolved jump targets;
`cStmt_eq_rel`: the back-patching generator of `MJ.Compile` produces exactly this code.
Fragment: text, emit, `set`, set-blocks, filter-blocks, `if`/`elif`/`else`, `with`,
`for … if … else` with unpacking, `break`, `continue`.

`break` is the only construct whose jump is patched *across* statements (the generator records
the jump in the pending entry of the innermost loop and patches it when the loop ends), so the
code of a statement is described relative to a loop context `LoopCtx` (address of the loop's
`Iterate`, address behind the loop, scopes opened inside the loop), and the statement's
unresolved `break` jumps are returned next to the code.
-/
namespace MJ.Compile
open MJ.Eval

/-- `with` bindings of the fragment -/
def simpleBinds : List (Target × Expr) → Bool
  | [] => true
  | (_, e) :: rest => simpleExpr e && simpleBinds rest

/-- block filters of the fragment: positional arguments over simple expressions -/
def simpleFilters : List FilterApp → Bool
  | [] => true
  | (_, args) :: rest => simpleArgs args && simpleFilters rest


mutual
  /-- the stage-3 statement fragment: text, `{{ e }}`, `set` (incl. unpacking), set-blocks and
  filter-blocks, `if` / `elif` / `else`, `with`, `for … if … else` with unpacking and loop filter,
  `break` / `continue` (inside a loop: `inLoop`) -/
  def simpleStmt : Bool → Stmt → Bool
    | _, .text _ => true
    | _, .emit e => simpleExpr e
    | _, .set _ e => simpleExpr e
    | inLoop, .ifS c t f => simpleExpr c && simpleBlock inLoop t && simpleBlock inLoop f
    | inLoop, .withS binds body => simpleBinds binds && simpleBlock inLoop body
    | inLoop, .forS _ iter flt body els =>
      simpleExpr iter && (match flt with | some c => simpleExpr c | none => true) && simpleBlock true body &&
        simpleBlock inLoop els
    | inLoop, .setBlock _ filters body => simpleFilters filters && simpleBlock inLoop body
    | inLoop, .filterBlock filters body => simpleFilters filters && simpleBlock inLoop body
    | inLoop, .breakS => inLoop
    | inLoop, .continueS => inLoop
    | _, _ => false
  def simpleBlock : Bool → List Stmt → Bool
    | _, [] => true
    | inLoop, s :: rest => simpleStmt inLoop s && simpleBlock inLoop rest
end

/-- `with` bindings of the fragment with calls -/
def coreBinds : List (Target × Expr) → Bool
  | [] => true
  | (_, e) :: rest => coreExpr e && coreBinds rest

def coreFilters : List FilterApp → Bool
  | [] => true
  | (_, args) :: rest => coreArgs args && coreFilters rest

def coreDefaults : List Expr → Bool
  | [] => true
  | d :: rest => coreExpr d && coreDefaults rest

mutual
  /-- the statement fragment of the refinement theorem: `simpleStmt` over `coreExpr`, plus macro
  declarations and call blocks (whose bodies are outside every loop: no `break` / `continue`) -/
  def coreStmt : Bool → Stmt → Bool
    | _, .text _ => true
    | _, .emit e => coreExpr e
    | _, .set _ e => coreExpr e
    | inLoop, .ifS c t f => coreExpr c && coreBlock inLoop t && coreBlock inLoop f
    | inLoop, .withS binds body => coreBinds binds && coreBlock inLoop body
    | inLoop, .forS _ iter flt body els =>
      coreExpr iter && (match flt with | some c => coreExpr c | none => true) && coreBlock true body &&
        coreBlock inLoop els
    | inLoop, .setBlock _ filters body => coreFilters filters && coreBlock inLoop body
    | inLoop, .filterBlock filters body => coreFilters filters && coreBlock inLoop body
    | _, .macroS _ _ defaults body _ => coreDefaults defaults && coreBlock false body
    | _, .callBlock (.var _) args _ defaults body _ => coreCallArgs args && coreDefaults defaults && coreBlock false body
    | _, .callBlock _ _ _ _ _ _ => false
    | inLoop, .breakS => inLoop
    | inLoop, .continueS => inLoop
  def coreBlock : Bool → List Stmt → Bool
    | _, [] => true
    | inLoop, s :: rest => coreStmt inLoop s && coreBlock inLoop rest
end

/-- the prologue of a macro (`compile_macro_expression`): the arguments are on the operand stack,
last one on top; `pds` is the list of parameters with their defaults, *last parameter first* -/
def relPrologue : List (String × Option Expr) → Nat → Aux → List Instr × Aux
  | [], _, a => ([], a)
  | (p, none) :: rest, base, a =>
    let rr := relPrologue rest (base + 1) a
    ([.storeLocal p] ++ rr.1, rr.2)
  | (p, some d) :: rest, base, a =>
    let rd := relExpr d (base + 4) a
    let rr := relPrologue rest (base + 4 + rd.1.length + 1) rd.2
    ([.dupTop, .isUndefined, .jumpIfFalse (base + 4 + rd.1.length), .discardTop] ++ rd.1 ++ [.storeLocal p] ++ rr.1, rr.2)

/-- `MACRO_CALLER` iff the macro looks up `caller` -/
def macroFlags (fv : List String) : Nat := if fv.contains "caller" then macroCallerFlag else 0

/-- the `Enclose` instructions of a macro declaration (all free names but `caller`) -/
def relEnclose (fv : List String) : List Instr := (sortNames (fv.filter (· != "caller"))).map Instr.enclose

/-- the code of a macro declaration expression that starts at `j`: the jump over the macro, its
prologue `rp` and body `rb`, `Return`, and the instructions that build the macro value -/
def macroDeclCode (name : String) (params : List String) (fv : List String) (j : Nat) (rp rb : List Instr) :
    List Instr :=
  [.jump (j + 1 + rp.length + rb.length + 1)] ++ rp ++ rb ++ [.return_] ++ relEnclose fv ++
    [.getClosure, .loadConst (.list (params.map Val.str)), .buildMacro name (j + 1) (macroFlags fv)]

mutual
  /-- `compile_assignment` without generator state -/
  def relTarget : Target → List Instr
    | .var x => [.storeLocal x]
    | .tuple ts => .unpackList ts.length :: relTargets ts
  def relTargets : List Target → List Instr
    | [] => []
    | t :: ts => relTarget t ++ relTargets ts
end

def relBinds : List (Target × Expr) → Nat → Aux → List Instr × Aux
  | [], _, a => ([], a)
  | (t, e) :: rest, base, a =>
    let re := relExpr e base a
    let rr := relBinds rest (base + re.1.length + (relTarget t).length) re.2
    (re.1 ++ relTarget t ++ rr.1, rr.2)

def relFilters : List FilterApp → Nat → Aux → List Instr × Aux
  | [], _, a => ([], a)
  | (name, args) :: rest, base, a =>
    let ra := relArgs args base a
    let rr := relFilters rest (base + ra.1.length + 1) (ra.2.filterId name).2
    (ra.1 ++ [.applyFilter name (1 + args.length) (ra.2.filterId name).1] ++ rr.1, rr.2)

/-- the code in front of `PushLoop 1` of a `for`: the iterable, or — with a loop filter — the
first loop that collects the items which pass the filter into a list -/
def relForIter (t : Target) (iter : Expr) (flt : Option Expr) (base : Nat) (a : Aux) : List Instr × Aux :=
  match flt with
  | none => relExpr iter base a
  | some c =>
    let ri := relExpr iter (base + 1) a
    let it1 := base + 1 + ri.1.length + 1
    let rc := relExpr c (base + 1 + ri.1.length + 3 + (relTarget t).length) ri.2
    let p := base + 1 + ri.1.length + 3 + (relTarget t).length + rc.1.length
    ([.loadConst (.int 0)] ++ ri.1 ++ [.pushLoop 0, .iterate (p + 7), .dupTop] ++ relTarget t ++ rc.1 ++
      [.jumpIfFalse (p + 5), .swap, .loadConst (.int 1), .add, .jump (p + 6), .discardTop, .jump it1,
       .popLoopFrame, .buildList none], rc.2)


/-- the innermost enclosing loop of a statement -/
structure LoopCtx where
  /-- address of the loop's `Iterate` (target of `continue`) -/
  iter : Nat
  /-- address behind the loop's back jump (target of `break`) -/
  exit : Nat
  /-- the `with` / capture scopes opened inside the loop, innermost first -/
  scopes : List ScopeKind

def pushScope (k : ScopeKind) : Option LoopCtx → Option LoopCtx
  | none => none
  | some l => some { l with scopes := k :: l.scopes }

def setExit (E : Nat) : Option LoopCtx → Option LoopCtx
  | none => none
  | some l => some { l with exit := E }

theorem setExit_some (E : Nat) (l : LoopCtx) : setExit E (some l) = some ⟨l.iter, E, l.scopes⟩ := rfl
@[simp] theorem pushScope_setExit (k : ScopeKind) (E : Nat) (lc : Option LoopCtx) :
    pushScope k (setExit E lc) = setExit E (pushScope k lc) := by cases lc <;> rfl
@[simp] theorem setExit_setExit (E E' : Nat) (lc : Option LoopCtx) : setExit E (setExit E' lc) = setExit E lc := by
  cases lc <;> rfl
@[simp] theorem isSome_setExit (E : Nat) (lc : Option LoopCtx) : (setExit E lc).isSome = lc.isSome := by
  cases lc <;> rfl
@[simp] theorem isSome_pushScope (k : ScopeKind) (lc : Option LoopCtx) : (pushScope k lc).isSome = lc.isSome := by
  cases lc <;> rfl

/-- `leave_scopes`: what `break` / `continue` emit for the scopes they jump out of -/
def leaveCode : List ScopeKind → List Instr
  | [] => []
  | .with_ :: rest => .popFrame :: leaveCode rest
  | .capture :: rest => .endCapture :: .discardTop :: leaveCode rest

mutual
  /-- code and generator state of a statement, and the addresses of its `break` jumps -/
  def relStmt : Stmt → Nat → Aux → Option LoopCtx → (List Instr × Aux) × List Nat
    | .text t, _, a, _ => (([.emitRaw t], a), [])
    | .emit e, base, a, _ => (((relExpr e base a).1 ++ [.emit], (relExpr e base a).2), [])
    | .set t e, base, a, _ => (((relExpr e base a).1 ++ relTarget t, (relExpr e base a).2), [])
    | .ifS c t [], base, a, lc =>
      let rc := relExpr c base a
      let rt := relBlock t (base + rc.1.length + 1) rc.2 lc
      ((rc.1 ++ [.jumpIfFalse (base + rc.1.length + 1 + rt.1.1.length)] ++ rt.1.1, rt.1.2), rt.2)
    | .ifS c t (f :: fs), base, a, lc =>
      let rc := relExpr c base a
      let rt := relBlock t (base + rc.1.length + 1) rc.2 lc
      let fb := base + rc.1.length + 1 + rt.1.1.length + 1
      let rf := relBlock (f :: fs) fb rt.1.2 lc
      ((rc.1 ++ [.jumpIfFalse fb] ++ rt.1.1 ++ [.jump (fb + rf.1.1.length)] ++ rf.1.1, rf.1.2), rt.2 ++ rf.2)
    | .withS binds body, base, a, lc =>
      let rb := relBinds binds (base + 1) a
      let rr := relBlock body (base + 1 + rb.1.length) rb.2 (pushScope .with_ lc)
      (([.pushWith] ++ rb.1 ++ rr.1.1 ++ [.popFrame], rr.1.2), rr.2)
    | .forS t iter flt body [], base, a, _ =>
      let ri := relForIter t iter flt base a
      let bb := base + ri.1.length + 2 + (relTarget t).length
      -- the length of the body does not depend on the address behind the loop
      let len := (relBlock body bb ri.2 (some ⟨base + ri.1.length + 1, 0, []⟩)).1.1.length
      let rb := relBlock body bb ri.2 (some ⟨base + ri.1.length + 1, bb + len + 1, []⟩)
      ((ri.1 ++ [.pushLoop 1, .iterate (bb + len + 1)] ++ relTarget t ++ rb.1.1 ++
        [.jump (base + ri.1.length + 1), .popLoopFrame], rb.1.2), [])
    | .forS t iter flt body (e0 :: es), base, a, lc =>
      let ri := relForIter t iter flt base a
      let bb := base + ri.1.length + 2 + (relTarget t).length
      let len := (relBlock body bb ri.2 (some ⟨base + ri.1.length + 1, 0, []⟩)).1.1.length
      let rb := relBlock body bb ri.2 (some ⟨base + ri.1.length + 1, bb + len + 1, []⟩)
      let eb := bb + len + 4
      let re := relBlock (e0 :: es) eb rb.1.2 lc
      ((ri.1 ++ [.pushLoop 1, .iterate (bb + len + 1)] ++ relTarget t ++ rb.1.1 ++
        [.jump (base + ri.1.length + 1), .pushDidNotIterate, .popLoopFrame, .jumpIfFalse (eb + re.1.1.length)] ++ re.1.1,
        re.1.2), re.2)
    | .setBlock x filters body, base, a, lc =>
      let rb := relBlock body (base + 1) a (pushScope .capture lc)
      let rf := relFilters filters (base + 1 + rb.1.1.length + 1) rb.1.2
      (([.beginCapture] ++ rb.1.1 ++ [.endCapture] ++ rf.1 ++ [.storeLocal x], rf.2), rb.2)
    | .filterBlock filters body, base, a, lc =>
      let rb := relBlock body (base + 1) a (pushScope .capture lc)
      let rf := relFilters filters (base + 1 + rb.1.1.length + 1) rb.1.2
      (([.beginCapture] ++ rb.1.1 ++ [.endCapture] ++ rf.1 ++ [.emit], rf.2), rb.2)
    | .macroS name params defaults body _, base, a, _ =>
      -- the body of a macro is outside every loop
      let rp := relPrologue (paramDefaults params defaults).reverse (base + 1) a
      let rb := relBlock body (base + 1 + rp.1.length) rp.2 none
      ((macroDeclCode name params (findMacroClosure params defaults body) base rp.1 rb.1.1 ++ [.storeLocal name],
        rb.1.2), [])
    | .callBlock (.var x) args params defaults body _, base, a, _ =>
      let ra := relPosArgs args base a
      let rk := relKwArgs args (base + ra.1.length) ra.2
      let j := base + ra.1.length + rk.1.length + 1
      let rp := relPrologue (paramDefaults params defaults).reverse (j + 1) rk.2
      let rb := relBlock body (j + 1 + rp.1.length) rp.2 none
      ((ra.1 ++ rk.1 ++ [.loadConst (.str "caller")] ++
        macroDeclCode "caller" params (findMacroClosure params defaults body) j rp.1 rb.1.1 ++
        [.buildKwargs ((kwArgs args).length + 1), .callFunction x ((posArgs args).length + 1), .emit], rb.1.2), [])
    | .breakS, base, a, some l =>
      ((leaveCode l.scopes ++ [.jump l.exit], a), [base + (leaveCode l.scopes).length])
    | .continueS, _, a, some l => ((leaveCode l.scopes ++ [.jump l.iter], a), [])
    | _, _, a, _ => (([], a.markOof), [])
  def relBlock : List Stmt → Nat → Aux → Option LoopCtx → (List Instr × Aux) × List Nat
    | [], _, a, _ => (([], a), [])
    | s :: rest, base, a, lc =>
      let rs := relStmt s base a lc
      let rr := relBlock rest (base + rs.1.1.length) rs.1.2 lc
      ((rs.1.1 ++ rr.1.1, rr.1.2), rs.2 ++ rr.2)
end

/-! ## `break` jumps: placeholder code against patched code -/

/-- `LE` is `L0` (placed at `b`) with the `Jump 0` at the addresses `ps` replaced by `Jump E` -/
inductive Patched (E : Nat) : Nat → List Nat → List Instr → List Instr → Prop
  | nil (b : Nat) : Patched E b [] [] []
  | same {b : Nat} {ps : List Nat} {L0 LE : List Instr} (i : Instr) :
      Patched E (b + 1) ps L0 LE → Patched E b ps (i :: L0) (i :: LE)
  | brk {b : Nat} {ps : List Nat} {L0 LE : List Instr} :
      Patched E (b + 1) ps L0 LE → Patched E b (b :: ps) (.jump 0 :: L0) (.jump E :: LE)

theorem Patched.refl (E : Nat) : ∀ (L : List Instr) (b : Nat), Patched E b [] L L
  | [], b => .nil b
  | i :: L, b => .same i (Patched.refl E L (b + 1))

theorem Patched.length_eq {E b ps L0 LE} (h : Patched E b ps L0 LE) : LE.length = L0.length := by
  induction h with
  | nil => rfl
  | same i _ ih => simp [ih]
  | brk _ ih => simp [ih]

theorem Patched.append {E b p1 A0 AE} (h : Patched E b p1 A0 AE) {p2 B0 BE}
    (h2 : Patched E (b + A0.length) p2 B0 BE) : Patched E b (p1 ++ p2) (A0 ++ B0) (AE ++ BE) := by
  induction h with
  | nil b => simpa using h2
  | same i _ ih =>
    refine .same i (ih ?_)
    simpa [Nat.add_assoc, Nat.add_comm 1] using h2
  | brk _ ih =>
    refine .brk (ih ?_)
    simpa [Nat.add_assoc, Nat.add_comm 1] using h2

theorem Patched.pre {E b ps L0 LE} (A : List Instr) (h : Patched E (b + A.length) ps L0 LE) :
    Patched E b ps (A ++ L0) (A ++ LE) := by
  simpa using (Patched.refl E A b).append h

theorem Patched.post {E b ps L0 LE} (A : List Instr) (h : Patched E b ps L0 LE) :
    Patched E b ps (L0 ++ A) (LE ++ A) := by
  simpa using h.append (Patched.refl E A _)

theorem Patched.cast {E b b' ps L0 LE} (h : Patched E b ps L0 LE) (hb : b = b') : Patched E b' ps L0 LE := by
  subst hb; exact h


mutual
/-- the code of a statement depends on the address behind the enclosing loop only in the targets
of its `break` jumps -/
theorem relStmt_patched : ∀ (st : Stmt) (base : Nat) (a : Aux) (lc : Option LoopCtx) (E : Nat),
    Patched E base (relStmt st base a (setExit 0 lc)).2 (relStmt st base a (setExit 0 lc)).1.1
        (relStmt st base a (setExit E lc)).1.1 ∧
      (relStmt st base a (setExit E lc)).1.2 = (relStmt st base a (setExit 0 lc)).1.2 ∧
      (relStmt st base a (setExit E lc)).2 = (relStmt st base a (setExit 0 lc)).2
  | .text t, base, a, lc, E => by simp [relStmt, Patched.refl]
  | .emit e, base, a, lc, E => by simp [relStmt, Patched.refl]
  | .set t e, base, a, lc, E => by simp [relStmt, Patched.refl]
  | .ifS c t [], base, a, lc, E => by
    obtain ⟨h1, h2, h3⟩ := relBlock_patched t (base + (relExpr c base a).1.length + 1) (relExpr c base a).2 lc E
    simp only [relStmt]
    rw [h2, h3, h1.length_eq]
    refine ⟨?_, rfl, rfl⟩
    have := (Patched.pre (b := base) ((relExpr c base a).1 ++ [Instr.jumpIfFalse (base + (relExpr c base a).1.length + 1 +
      (relBlock t (base + (relExpr c base a).1.length + 1) (relExpr c base a).2 (setExit 0 lc)).1.1.length)])
      (h1.cast (by simp only [List.length_append, List.length_cons, List.length_nil]; omega)))
    simpa using this
  | .ifS c t (f :: fs), base, a, lc, E => by
    obtain ⟨h1, h2, h3⟩ := relBlock_patched t (base + (relExpr c base a).1.length + 1) (relExpr c base a).2 lc E
    obtain ⟨k1, k2, k3⟩ := relBlock_patched (f :: fs) (base + (relExpr c base a).1.length + 1 +
      (relBlock t (base + (relExpr c base a).1.length + 1) (relExpr c base a).2 (setExit 0 lc)).1.1.length + 1)
      (relBlock t (base + (relExpr c base a).1.length + 1) (relExpr c base a).2 (setExit 0 lc)).1.2 lc E
    simp only [relStmt]
    rw [h2, h3, h1.length_eq, k2, k3, k1.length_eq]
    refine ⟨?_, rfl, rfl⟩
    have e1 := Patched.pre (b := base) ((relExpr c base a).1 ++ [Instr.jumpIfFalse (base + (relExpr c base a).1.length + 1 +
      (relBlock t (base + (relExpr c base a).1.length + 1) (relExpr c base a).2 (setExit 0 lc)).1.1.length + 1)])
      (h1.cast (by simp only [List.length_append, List.length_cons, List.length_nil]; omega))
    have e2 := e1.append (Patched.pre [Instr.jump (base + (relExpr c base a).1.length + 1 +
      (relBlock t (base + (relExpr c base a).1.length + 1) (relExpr c base a).2 (setExit 0 lc)).1.1.length + 1 +
      (relBlock (f :: fs) (base + (relExpr c base a).1.length + 1 +
      (relBlock t (base + (relExpr c base a).1.length + 1) (relExpr c base a).2 (setExit 0 lc)).1.1.length + 1)
      (relBlock t (base + (relExpr c base a).1.length + 1) (relExpr c base a).2 (setExit 0 lc)).1.2 (setExit 0 lc)).1.1.length)]
      (k1.cast (by simp only [List.length_append, List.length_cons, List.length_nil]; omega)))
    simpa using e2
  | .withS binds body, base, a, lc, E => by
    obtain ⟨h1, h2, h3⟩ := relBlock_patched body (base + 1 + (relBinds binds (base + 1) a).1.length)
      (relBinds binds (base + 1) a).2 (pushScope .with_ lc) E
    simp only [relStmt, pushScope_setExit]
    rw [h2, h3]
    refine ⟨?_, rfl, rfl⟩
    have := (Patched.pre (b := base) ([Instr.pushWith] ++ (relBinds binds (base + 1) a).1) (h1.cast (by simp only [List.length_append, List.length_cons, List.length_nil]; omega))).post [Instr.popFrame]
    simpa using this
  | .forS t iter flt body [], base, a, lc, E => by simp [relStmt, Patched.refl]
  | .forS t iter flt body (e0 :: es), base, a, lc, E => by
    simp only [relStmt]
    obtain ⟨k1, k2, k3⟩ := relBlock_patched (e0 :: es)
      (base + (relForIter t iter flt base a).1.length + 2 + (relTarget t).length +
        (relBlock body (base + (relForIter t iter flt base a).1.length + 2 + (relTarget t).length) (relForIter t iter flt base a).2
          (some ⟨base + (relForIter t iter flt base a).1.length + 1, 0, []⟩)).1.1.length + 4)
      (relBlock body (base + (relForIter t iter flt base a).1.length + 2 + (relTarget t).length) (relForIter t iter flt base a).2
        (some ⟨base + (relForIter t iter flt base a).1.length + 1,
          base + (relForIter t iter flt base a).1.length + 2 + (relTarget t).length +
            (relBlock body (base + (relForIter t iter flt base a).1.length + 2 + (relTarget t).length) (relForIter t iter flt base a).2
              (some ⟨base + (relForIter t iter flt base a).1.length + 1, 0, []⟩)).1.1.length + 1, []⟩)).1.2 lc E
    rw [k2, k3, k1.length_eq]
    refine ⟨?_, rfl, rfl⟩
    refine Patched.pre (b := base) _ (k1.cast ?_)
    have hl := (relBlock_patched body (base + (relForIter t iter flt base a).1.length + 2 + (relTarget t).length)
      (relForIter t iter flt base a).2 (some ⟨base + (relForIter t iter flt base a).1.length + 1, 0, []⟩)
      (base + (relForIter t iter flt base a).1.length + 2 + (relTarget t).length +
        (relBlock body (base + (relForIter t iter flt base a).1.length + 2 + (relTarget t).length) (relForIter t iter flt base a).2
          (some ⟨base + (relForIter t iter flt base a).1.length + 1, 0, []⟩)).1.1.length + 1)).1.length_eq
    simp only [setExit] at hl
    simp only [List.length_append, List.length_cons, List.length_nil]; omega
  | .setBlock x filters body, base, a, lc, E => by
    obtain ⟨h1, h2, h3⟩ := relBlock_patched body (base + 1) a (pushScope .capture lc) E
    simp only [relStmt, pushScope_setExit]
    rw [h2, h3, h1.length_eq]
    refine ⟨?_, rfl, rfl⟩
    have := (Patched.pre (b := base) [Instr.beginCapture] (h1.cast (by simp))).post
      ([Instr.endCapture] ++ (relFilters filters (base + 1 + (relBlock body (base + 1) a (setExit 0 (pushScope .capture lc))).1.1.length + 1)
        (relBlock body (base + 1) a (setExit 0 (pushScope .capture lc))).1.2).1 ++ [Instr.storeLocal x])
    simpa using this
  | .filterBlock filters body, base, a, lc, E => by
    obtain ⟨h1, h2, h3⟩ := relBlock_patched body (base + 1) a (pushScope .capture lc) E
    simp only [relStmt, pushScope_setExit]
    rw [h2, h3, h1.length_eq]
    refine ⟨?_, rfl, rfl⟩
    have := (Patched.pre (b := base) [Instr.beginCapture] (h1.cast (by simp))).post
      ([Instr.endCapture] ++ (relFilters filters (base + 1 + (relBlock body (base + 1) a (setExit 0 (pushScope .capture lc))).1.1.length + 1)
        (relBlock body (base + 1) a (setExit 0 (pushScope .capture lc))).1.2).1 ++ [Instr.emit])
    simpa using this
  | .breakS, base, a, none, E => by simp [relStmt, setExit, Patched.refl]
  | .breakS, base, a, some l, E => by
    simp only [relStmt, setExit]
    refine ⟨?_, trivial, trivial⟩
    exact Patched.pre (b := base) _ (.brk (.nil _))
  | .continueS, base, a, none, E => by simp [relStmt, setExit, Patched.refl]
  | .continueS, base, a, some l, E => by simp [relStmt, setExit, Patched.refl]
  | .macroS .., base, a, lc, E => by simp [relStmt, Patched.refl]
  | .callBlock f .., base, a, lc, E => by cases f <;> simp [relStmt, Patched.refl]
theorem relBlock_patched : ∀ (ss : List Stmt) (base : Nat) (a : Aux) (lc : Option LoopCtx) (E : Nat),
    Patched E base (relBlock ss base a (setExit 0 lc)).2 (relBlock ss base a (setExit 0 lc)).1.1
        (relBlock ss base a (setExit E lc)).1.1 ∧
      (relBlock ss base a (setExit E lc)).1.2 = (relBlock ss base a (setExit 0 lc)).1.2 ∧
      (relBlock ss base a (setExit E lc)).2 = (relBlock ss base a (setExit 0 lc)).2
  | [], base, a, lc, E => by simp [relBlock, Patched.refl]
  | s :: rest, base, a, lc, E => by
    obtain ⟨h1, h2, h3⟩ := relStmt_patched s base a lc E
    obtain ⟨k1, k2, k3⟩ := relBlock_patched rest (base + (relStmt s base a (setExit 0 lc)).1.1.length)
      (relStmt s base a (setExit 0 lc)).1.2 lc E
    simp only [relBlock]
    rw [h2, h3, h1.length_eq, k2, k3]
    exact ⟨h1.append k1, rfl, rfl⟩
end

/-- the length of a block does not depend on the address behind the enclosing loop -/
theorem relBlock_exit_indep (ss : List Stmt) (base : Nat) (a : Aux) (it E : Nat) (sc : List ScopeKind) :
    (relBlock ss base a (some ⟨it, E, sc⟩)).1.1.length = (relBlock ss base a (some ⟨it, 0, sc⟩)).1.1.length ∧
    (relBlock ss base a (some ⟨it, E, sc⟩)).1.2 = (relBlock ss base a (some ⟨it, 0, sc⟩)).1.2 := by
  have h := relBlock_patched ss base a (some ⟨it, 0, sc⟩) E
  simp only [setExit] at h
  exact ⟨h.1.length_eq, h.2.1⟩

/-- the address behind a `for` loop (the target of its `break` jumps and of its `Iterate`) -/
def forExit (t : Target) (iter : Expr) (flt : Option Expr) (body : List Stmt) (base : Nat) (a : Aux) : Nat :=
  base + (relForIter t iter flt base a).1.length + 2 + (relTarget t).length +
    (relBlock body (base + (relForIter t iter flt base a).1.length + 2 + (relTarget t).length) (relForIter t iter flt base a).2
      (some ⟨base + (relForIter t iter flt base a).1.length + 1, 0, []⟩)).1.1.length + 1

/-- the body of a `for` loop as it is compiled -/
def forBody (t : Target) (iter : Expr) (flt : Option Expr) (body : List Stmt) (base : Nat) (a : Aux) :
    (List Instr × Aux) × List Nat :=
  relBlock body (base + (relForIter t iter flt base a).1.length + 2 + (relTarget t).length) (relForIter t iter flt base a).2
    (some ⟨base + (relForIter t iter flt base a).1.length + 1, forExit t iter flt body base a, []⟩)

theorem forExit_eq (t : Target) (iter : Expr) (flt : Option Expr) (body : List Stmt) (base : Nat) (a : Aux) :
    forExit t iter flt body base a = base + (relForIter t iter flt base a).1.length + 2 + (relTarget t).length +
      (forBody t iter flt body base a).1.1.length + 1 := by
  simp only [forBody]
  rw [(relBlock_exit_indep _ _ _ _ _ _).1]
  rfl

theorem relStmt_for_nil (t : Target) (iter : Expr) (flt : Option Expr) (body : List Stmt) (base : Nat) (a : Aux)
    (lc : Option LoopCtx) :
    relStmt (.forS t iter flt body []) base a lc =
      (((relForIter t iter flt base a).1 ++ [.pushLoop 1, .iterate (forExit t iter flt body base a)] ++ relTarget t ++
        (forBody t iter flt body base a).1.1 ++ [.jump (base + (relForIter t iter flt base a).1.length + 1), .popLoopFrame],
        (forBody t iter flt body base a).1.2), []) := by
  simp only [relStmt, forBody, forExit]

theorem relStmt_for_cons (t : Target) (iter : Expr) (flt : Option Expr) (body : List Stmt) (e0 : Stmt) (es : List Stmt)
    (base : Nat) (a : Aux) (lc : Option LoopCtx) :
    relStmt (.forS t iter flt body (e0 :: es)) base a lc =
      (((relForIter t iter flt base a).1 ++ [.pushLoop 1, .iterate (forExit t iter flt body base a)] ++ relTarget t ++
        (forBody t iter flt body base a).1.1 ++ [.jump (base + (relForIter t iter flt base a).1.length + 1),
          .pushDidNotIterate, .popLoopFrame,
          .jumpIfFalse (forExit t iter flt body base a + 3 +
            (relBlock (e0 :: es) (forExit t iter flt body base a + 3) (forBody t iter flt body base a).1.2 lc).1.1.length)] ++
        (relBlock (e0 :: es) (forExit t iter flt body base a + 3) (forBody t iter flt body base a).1.2 lc).1.1,
        (relBlock (e0 :: es) (forExit t iter flt body base a + 3) (forBody t iter flt body base a).1.2 lc).1.2),
       (relBlock (e0 :: es) (forExit t iter flt body base a + 3) (forBody t iter flt body base a).1.2 lc).2) := by
  simp only [relStmt, forBody, forExit]

/-! ## the generator state with recorded `break` jumps -/

def CG.addBreak (g : CG) (j : Nat) : CG := { g with pending := CG.addBreakJump j g.pending }
/-- the generator state after the `break` jumps at `ps` were recorded in the innermost loop -/
def CG.withBreaks (g : CG) (ps : List Nat) : CG := ps.foldl CG.addBreak g

@[simp] theorem CG.withBreaks_nil (g : CG) : g.withBreaks [] = g := rfl
theorem CG.withBreaks_cons (g : CG) (j : Nat) (ps : List Nat) :
    g.withBreaks (j :: ps) = (g.addBreak j).withBreaks ps := rfl
@[simp] theorem CG.withBreaks_withBreaks (g : CG) (p1 p2 : List Nat) :
    (g.withBreaks p1).withBreaks p2 = g.withBreaks (p1 ++ p2) := by
  simp [CG.withBreaks, List.foldl_append]

theorem withBreaks_comm (op : CG → CG) (h : ∀ g j, op (CG.addBreak g j) = (op g).addBreak j) :
    ∀ (ps : List Nat) (g : CG), op (g.withBreaks ps) = (op g).withBreaks ps
  | [], _ => rfl
  | j :: ps, g => by rw [CG.withBreaks_cons, withBreaks_comm op h ps, h, ← CG.withBreaks_cons]

@[simp] theorem CG.next_withBreaks : ∀ (ps : List Nat) (g : CG), (g.withBreaks ps).next = g.next
  | [], _ => rfl
  | j :: ps, g => by rw [CG.withBreaks_cons, CG.next_withBreaks ps]; rfl
@[simp] theorem CG.aux_withBreaks : ∀ (ps : List Nat) (g : CG), (g.withBreaks ps).aux = g.aux
  | [], _ => rfl
  | j :: ps, g => by rw [CG.withBreaks_cons, CG.aux_withBreaks ps]; rfl
@[simp] theorem CG.code_withBreaks : ∀ (ps : List Nat) (g : CG), (g.withBreaks ps).code = g.code
  | [], _ => rfl
  | j :: ps, g => by rw [CG.withBreaks_cons, CG.code_withBreaks ps]; rfl

theorem CG.pending_withBreaks : ∀ (ps : List Nat) (g : CG),
    (g.withBreaks ps).pending = ps.foldl (fun P j => CG.addBreakJump j P) g.pending
  | [], _ => rfl
  | j :: ps, g => by rw [CG.withBreaks_cons, CG.pending_withBreaks ps]; rfl

theorem CG.withBreaks_eq (g : CG) (ps : List Nat) :
    g.withBreaks ps = { g with pending := ps.foldl (fun P j => CG.addBreakJump j P) g.pending } := by
  have h1 := CG.code_withBreaks ps g
  have h2 := CG.aux_withBreaks ps g
  have h3 := CG.pending_withBreaks ps g
  cases hg : g.withBreaks ps
  simp_all

theorem foldl_addBreakJump_loop (it : Nat) (P : List Pending) : ∀ (ps js : List Nat),
    ps.foldl (fun P j => CG.addBreakJump j P) (.loop it js :: P) = .loop it (js ++ ps) :: P
  | [], js => by simp
  | j :: ps, js => by simp [CG.addBreakJump, foldl_addBreakJump_loop it P ps]

theorem foldl_addBreakJump_nil : ∀ (ps : List Nat), ps.foldl (fun P j => CG.addBreakJump j P) [] = []
  | [] => rfl
  | j :: ps => by simp [CG.addBreakJump, foldl_addBreakJump_nil ps]

-- the generator operations of the fragment do not look at the recorded jumps
theorem extend_withBreaks (g : CG) (r : List Instr × Aux) (ps : List Nat) :
    (g.withBreaks ps).extend r = (g.extend r).withBreaks ps :=
  withBreaks_comm (·.extend r) (fun _ _ => rfl) ps g

theorem add_withBreaks (g : CG) (i : Instr) (ps : List Nat) :
    (g.withBreaks ps).add i = (g.add i).withBreaks ps :=
  withBreaks_comm (·.add i) (fun _ _ => rfl) ps g

theorem startIf_withBreaks (g : CG) (ps : List Nat) : (g.withBreaks ps).startIf = g.startIf.withBreaks ps :=
  withBreaks_comm (·.startIf) (fun g j => by simp [CG.startIf, CG.addBreak, CG.add, CG.next, CG.addBreakJump]) ps g

theorem patch_addBreak (g : CG) (j i t : Nat) : (g.addBreak j).patch i t = (g.patch i t).addBreak j := by
  simp only [CG.patch, CG.addBreak]
  split <;> rfl

theorem endCondition_addBreak (g : CG) (j t : Nat) :
    (g.addBreak j).endCondition t = (g.endCondition t).addBreak j := by
  cases g with
  | mk code pending aux =>
    cases pending with
    | nil => simp [CG.endCondition, CG.addBreak, CG.addBreakJump, CG.markOof]
    | cons p rest =>
      cases p with
      | branch k =>
        simp only [CG.endCondition, CG.addBreak, CG.addBreakJump]
        have := patch_addBreak { code := code, pending := .branch k :: rest, aux := aux } j k t
        simp only [CG.addBreak, CG.addBreakJump] at this
        rw [this]
      | loop it js => simp [CG.endCondition, CG.addBreak, CG.addBreakJump, CG.markOof]
      | scBool js => simp [CG.endCondition, CG.addBreak, CG.addBreakJump, CG.markOof]
      | scope k => simp [CG.endCondition, CG.addBreak, CG.addBreakJump, CG.markOof]

theorem startElse_withBreaks (g : CG) (ps : List Nat) : (g.withBreaks ps).startElse = g.startElse.withBreaks ps :=
  withBreaks_comm (·.startElse) (fun g j => by
    simp only [CG.startElse]
    have h1 : (g.addBreak j).add (Instr.jump unpatched) = (g.add (Instr.jump unpatched)).addBreak j := rfl
    have h2 : (g.addBreak j).next = g.next := rfl
    rw [h1, h2, endCondition_addBreak]
    simp [CG.addBreak, CG.addBreakJump]) ps g

theorem endIf_withBreaks (g : CG) (ps : List Nat) : (g.withBreaks ps).endIf = g.endIf.withBreaks ps :=
  withBreaks_comm (·.endIf) (fun g j => by
    simp only [CG.endIf]
    have h2 : (g.addBreak j).next = g.next := rfl
    rw [h2, endCondition_addBreak]) ps g

theorem startScope_withBreaks (g : CG) (k : ScopeKind) (ps : List Nat) :
    (g.withBreaks ps).startScope k = (g.startScope k).withBreaks ps :=
  withBreaks_comm (·.startScope k) (fun g j => by simp [CG.startScope, CG.addBreak, CG.addBreakJump]) ps g

theorem endScope_withBreaks (g : CG) (ps : List Nat) : (g.withBreaks ps).endScope = g.endScope.withBreaks ps :=
  withBreaks_comm (·.endScope) (fun g j => by
    cases g with
    | mk code pending aux =>
      cases pending with
      | nil => simp [CG.endScope, CG.addBreak, CG.addBreakJump, CG.markOof]
      | cons p rest => cases p <;> simp [CG.endScope, CG.addBreak, CG.addBreakJump, CG.markOof]) ps g

theorem endIf_noelse (A : List Instr) (P : List Pending) (a : Aux) (C : List Instr × Aux) (n : Nat)
    (hn : n = A.length) :
    (({ code := A ++ Instr.jumpIfFalse unpatched :: [], pending := .branch n :: P, aux := a } : CG).extend C).endIf =
      { code := A ++ Instr.jumpIfFalse (A.length + 1 + C.1.length) :: C.1, pending := P, aux := C.2 } := by
  subst hn
  simp only [CG.endIf, CG.endCondition, CG.extend, CG.next]
  rw [patch_jif _ A C.1 _ unpatched _ (by simp) rfl]
  simp [Nat.add_assoc]; omega

theorem if_block_noelse (g : CG) (Cc Ct : List Instr × Aux) :
    ((g.extend Cc).startIf.extend Ct).endIf =
      g.extend (Cc.1 ++ [Instr.jumpIfFalse (g.next + Cc.1.length + 1 + Ct.1.length)] ++ Ct.1, Ct.2) := by
  rw [startIf_extend, endIf_noelse _ _ _ _ _ (by simp [CG.next])]
  simp [CG.extend, CG.next, Nat.add_assoc]

theorem patch_iterate (g : CG) (A B : List Instr) (n u t : Nat) (hc : g.code = A ++ .iterate u :: B)
    (hn : n = A.length) : g.patch n t = { g with code := A ++ .iterate t :: B } := by
  simp [CG.patch, hc, getElem?_mid A B _ n hn, set_mid A B _ _ n hn]

/-- a `for` loop without filter / else / loop controls around code chunks `Ci` (iterable) and `Cb`
(target + body) -/
theorem for_block (g : CG) (Ci Cb : List Instr × Aux) :
    (((g.extend Ci).startForLoop true).extend Cb).endForLoop false =
      g.extend (Ci.1 ++ [Instr.pushLoop 1, Instr.iterate (g.next + Ci.1.length + 2 + Cb.1.length + 1)] ++ Cb.1 ++
        [Instr.jump (g.next + Ci.1.length + 1), Instr.popLoopFrame], Cb.2) := by
  simp only [CG.startForLoop, CG.endForLoop, CG.extend, CG.add, CG.next, CG.patchAll, List.nil_append,
    List.foldl, if_true, Bool.false_eq_true, if_false]
  rw [patch_iterate _ (g.code ++ Ci.1 ++ [Instr.pushLoop 1]) (Cb.1 ++ [Instr.jump (g.code ++ Ci.1 ++ [Instr.pushLoop 1]).length] ++ [Instr.popLoopFrame])
    _ unpatched _ (by simp) (by simp)]
  simp [Nat.add_assoc]; omega


/-- `for_block` for a loop without the `loop` variable (the filter pre-pass) -/
theorem for_block_novar (g : CG) (Ci Cb : List Instr × Aux) :
    (((g.extend Ci).startForLoop false).extend Cb).endForLoop false =
      g.extend (Ci.1 ++ [Instr.pushLoop 0, Instr.iterate (g.next + Ci.1.length + 2 + Cb.1.length + 1)] ++ Cb.1 ++
        [Instr.jump (g.next + Ci.1.length + 1), Instr.popLoopFrame], Cb.2) := by
  simp only [CG.startForLoop, CG.endForLoop, CG.extend, CG.add, CG.next, CG.patchAll, List.nil_append,
    List.foldl, if_true, Bool.false_eq_true, if_false]
  rw [patch_iterate _ (g.code ++ Ci.1 ++ [Instr.pushLoop 0]) (Cb.1 ++ [Instr.jump (g.code ++ Ci.1 ++ [Instr.pushLoop 0]).length] ++ [Instr.popLoopFrame])
    _ unpatched _ (by simp) (by simp)]
  simp [Nat.add_assoc]; omega

/-- the filter pre-pass of a `for … if cond` loop around the chunks `Ci` (iterable) and `Cx`
(`DupTop`, target, condition) -/
theorem filter_block (g : CG) (Ci Cx : List Instr × Aux) :
    (((((((((g.add (.loadConst (.int 0))).extend Ci).startForLoop false).extend Cx).startIf.add .swap).add
        (.loadConst (.int 1))).add .add).startElse.add .discardTop).endIf.endForLoop false).add (.buildList none) =
      g.extend ([Instr.loadConst (.int 0)] ++ Ci.1 ++
        [Instr.pushLoop 0, Instr.iterate (g.next + 1 + Ci.1.length + 2 + Cx.1.length + 7)] ++ Cx.1 ++
        [Instr.jumpIfFalse (g.next + 1 + Ci.1.length + 2 + Cx.1.length + 5), Instr.swap, Instr.loadConst (.int 1),
         Instr.add, Instr.jump (g.next + 1 + Ci.1.length + 2 + Cx.1.length + 6), Instr.discardTop,
         Instr.jump (g.next + 1 + Ci.1.length + 1), Instr.popLoopFrame, Instr.buildList none], Cx.2) := by
  have e1 : ∀ (h : CG), ((h.add .swap).add (.loadConst (.int 1))).add .add =
      h.extend ([Instr.swap, Instr.loadConst (.int 1), Instr.add], h.aux) := by
    intro h; simp [CG.add, CG.extend]
  rw [e1, CG.add_eq_extend _ .discardTop, if_block, CG.add_eq_extend g, CG.extend_extend]
  simp only [aux_startIf_ext, aux_startElse_ext]
  rw [for_block_novar, CG.add_eq_extend, CG.extend_extend]
  simp [CG.extend, CG.next, CG.startForLoop, CG.add, Nat.add_assoc]; omega

mutual
theorem cTarget_eq_rel : ∀ (t : Target) (g : CG), cTarget t g = g.extend (relTarget t, g.aux)
  | .var x, g => by simp [cTarget, relTarget, CG.add_eq_extend]
  | .tuple ts, g => by
    simp only [cTarget, relTarget]
    rw [cTargets_eq_rel ts, CG.add_eq_extend, CG.extend_extend]
    simp
theorem cTargets_eq_rel : ∀ (ts : List Target) (g : CG), cTargets ts g = g.extend (relTargets ts, g.aux)
  | [], g => by simp [cTargets, relTargets, CG.extend]
  | t :: ts, g => by
    simp only [cTargets, relTargets]
    rw [cTarget_eq_rel t g, cTargets_eq_rel ts, CG.extend_extend]
    simp
end

theorem cBinds_eq_core : ∀ (binds : List (Target × Expr)) (g : CG), coreBinds binds = true →
    cBinds binds g = g.extend (relBinds binds g.next g.aux)
  | [], g, _ => by simp [cBinds, relBinds, CG.extend]
  | (t, e) :: rest, g, h => by
    have hs : coreExpr e = true ∧ coreBinds rest = true := by simpa [coreBinds] using h
    simp only [cBinds, relBinds]
    rw [cExpr_eq_core e g hs.1, cTarget_eq_rel, CG.extend_extend, cBinds_eq_core rest _ hs.2]
    simp [CG.extend_extend, Nat.add_assoc]

theorem cFilters_eq_core : ∀ (fs : List FilterApp) (g : CG), coreFilters fs = true →
    cFilters fs g = g.extend (relFilters fs g.next g.aux)
  | [], g, _ => by simp [cFilters, relFilters, CG.extend]
  | (name, args) :: rest, g, h => by
    have hs : coreArgs args = true ∧ coreFilters rest = true := by simpa [coreFilters] using h
    simp only [cFilters, relFilters]
    rw [cArgs_eq_core args g hs.1]
    have e1 : ((g.extend (relArgs args g.next g.aux)).filterId name).2.add
          (Instr.applyFilter name (1 + args.length) ((g.extend (relArgs args g.next g.aux)).filterId name).1) =
        g.extend ((relArgs args g.next g.aux).1 ++
          [Instr.applyFilter name (1 + args.length) ((relArgs args g.next g.aux).2.filterId name).1],
          ((relArgs args g.next g.aux).2.filterId name).2) := by
      simp [CG.filterId, CG.extend, CG.add]
    rw [e1, cFilters_eq_core rest _ hs.2]
    simp [CG.extend_extend, Nat.add_assoc]

theorem scope_block (g : CG) (k : ScopeKind) (C : List Instr × Aux) :
    ((g.startScope k).extend C).endScope = g.extend C := by
  simp [CG.startScope, CG.endScope, CG.extend]

@[simp] theorem next_startScope (g : CG) (k : ScopeKind) : (g.startScope k).next = g.next := rfl
@[simp] theorem aux_startScope (g : CG) (k : ScopeKind) : (g.startScope k).aux = g.aux := rfl
@[simp] theorem next_add (g : CG) (i : Instr) : (g.add i).next = g.next + 1 := by simp [CG.add, CG.next]
@[simp] theorem aux_add (g : CG) (i : Instr) : (g.add i).aux = g.aux := rfl
@[simp] theorem next_startFor_ext (g : CG) (C : List Instr × Aux) (b : Bool) :
    ((g.extend C).startForLoop b).next = g.next + C.1.length + 2 := by
  simp [CG.startForLoop, CG.extend, CG.add, CG.next, Nat.add_assoc]
@[simp] theorem aux_startFor_ext (g : CG) (C : List Instr × Aux) (b : Bool) :
    ((g.extend C).startForLoop b).aux = C.2 := by
  simp [CG.startForLoop, CG.extend, CG.add]

theorem endFor_else_eq (g : CG) (Ci Cb : List Instr × Aux) :
    (((g.extend Ci).startForLoop true).extend Cb).endForLoop true =
      g.extend (Ci.1 ++ [Instr.pushLoop 1, Instr.iterate (g.next + Ci.1.length + 2 + Cb.1.length + 1)] ++ Cb.1 ++
        [Instr.jump (g.next + Ci.1.length + 1), Instr.pushDidNotIterate, Instr.popLoopFrame], Cb.2) := by
  simp only [CG.startForLoop, CG.endForLoop, CG.extend, CG.add, CG.next, CG.patchAll, List.nil_append,
    List.foldl, if_true]
  rw [patch_iterate _ (g.code ++ Ci.1 ++ [Instr.pushLoop 1])
    (Cb.1 ++ [Instr.jump (g.code ++ Ci.1 ++ [Instr.pushLoop 1]).length] ++ [Instr.pushDidNotIterate] ++ [Instr.popLoopFrame])
    _ unpatched _ (by simp) (by simp)]
  simp [Nat.add_assoc]; omega

theorem next_forElse_startIf (g : CG) (Ci Cb : List Instr × Aux) :
    ((((g.extend Ci).startForLoop true).extend Cb).endForLoop true).startIf.next =
      g.next + Ci.1.length + 2 + Cb.1.length + 4 := by
  rw [endFor_else_eq, next_startIf_ext]; simp; omega
theorem aux_forElse_startIf (g : CG) (Ci Cb : List Instr × Aux) :
    ((((g.extend Ci).startForLoop true).extend Cb).endForLoop true).startIf.aux = Cb.2 := by
  rw [endFor_else_eq, aux_startIf_ext]

/-- a `for` loop with an `else` branch: `Ci` iterable, `Cb` target + body, `Ce` else body -/
theorem for_else_block (g : CG) (Ci Cb Ce : List Instr × Aux) :
    ((((((g.extend Ci).startForLoop true).extend Cb).endForLoop true).startIf).extend Ce).endIf =
      g.extend (Ci.1 ++ [Instr.pushLoop 1, Instr.iterate (g.next + Ci.1.length + 2 + Cb.1.length + 1)] ++ Cb.1 ++
        [Instr.jump (g.next + Ci.1.length + 1), Instr.pushDidNotIterate, Instr.popLoopFrame,
         Instr.jumpIfFalse (g.next + Ci.1.length + 2 + Cb.1.length + 4 + Ce.1.length)] ++ Ce.1, Ce.2) := by
  rw [endFor_else_eq, if_block_noelse]
  simp [CG.extend, CG.next, Nat.add_assoc]; omega

theorem filter_prefix_eq (t : Target) (iter c : Expr) (g : CG) (hi : coreExpr iter = true)
    (hc : coreExpr c = true) :
    (((((((cExpr c (cTarget t (((cExpr iter (g.add (.loadConst (.int 0)))).startForLoop false).add .dupTop))).startIf.add
        .swap).add (.loadConst (.int 1))).add .add).startElse.add .discardTop).endIf.endForLoop false).add
        (.buildList none)) = g.extend (relForIter t iter (some c) g.next g.aux) := by
  rw [cExpr_eq_core iter _ hi, CG.add_eq_extend _ .dupTop, cTarget_eq_rel, cExpr_eq_core c _ hc,
    CG.extend_extend, CG.extend_extend, filter_block]
  simp [relForIter, CG.extend, CG.next, CG.startForLoop, CG.add, Nat.add_assoc]
  have hb : g.code.length + ((relExpr iter (g.code.length + 1) g.aux).fst.length + ((relTarget t).length + 4)) =
      g.code.length + (1 + ((relExpr iter (g.code.length + 1) g.aux).fst.length + (3 + (relTarget t).length))) := by
    omega
  rw [hb]
  simp
  omega


/-! ## loops with `break` jumps -/

theorem patchAll_patched {E b ps L0 LE} (h : Patched E b ps L0 LE) : ∀ (g : CG) (pre post : List Instr),
    b = pre.length → g.code = pre ++ L0 ++ post → g.patchAll ps E = { g with code := pre ++ LE ++ post } := by
  induction h with
  | nil b =>
    intro g pre post _ hc
    cases g; simp_all [CG.patchAll]
  | same i _ ih =>
    intro g pre post hb hc
    have := ih g (pre ++ [i]) post (by simp [hb]) (by simp [hc])
    simpa using this
  | @brk b ps L0 LE _ ih =>
    intro g pre post hb hc
    have h1 : g.patch b E = { g with code := pre ++ Instr.jump E :: (L0 ++ post) } :=
      patch_jump g pre (L0 ++ post) b 0 E (by simp [hc]) hb
    have : g.patchAll (b :: ps) E = (g.patch b E).patchAll ps E := rfl
    rw [this, h1]
    have := ih { g with code := pre ++ Instr.jump E :: (L0 ++ post) } (pre ++ [Instr.jump E]) post (by simp [hb]) (by simp)
    simpa using this

theorem patchAll_append (g : CG) (p1 p2 : List Nat) (t : Nat) :
    g.patchAll (p1 ++ p2) t = (g.patchAll p1 t).patchAll p2 t := by
  simp [CG.patchAll, List.foldl_append]

/-- a `for` loop whose body `Cb0` holds the `break` jumps `ps`: ending the loop patches them -/
theorem for_block_brk (g : CG) (Ci Cb0 : List Instr × Aux) (ps : List Nat) (CbE : List Instr) (d : Bool)
    (hp : Patched (g.next + Ci.1.length + 2 + Cb0.1.length + 1) (g.next + Ci.1.length + 2) ps Cb0.1 CbE) :
    ((((g.extend Ci).startForLoop true).extend Cb0).withBreaks ps).endForLoop d =
      g.extend (Ci.1 ++ [Instr.pushLoop 1, Instr.iterate (g.next + Ci.1.length + 2 + Cb0.1.length + 1)] ++ CbE ++
        (Instr.jump (g.next + Ci.1.length + 1) :: (if d then [Instr.pushDidNotIterate] else []) ++ [Instr.popLoopFrame]),
        Cb0.2) := by
  rw [CG.withBreaks_eq]
  simp only [CG.startForLoop, CG.extend, CG.add, CG.next, foldl_addBreakJump_loop, List.nil_append, if_true]
  simp only [CG.endForLoop, CG.add, CG.next, patchAll_append]
  have hp' : Patched (g.code ++ Ci.1 ++ [Instr.pushLoop 1] ++ [Instr.iterate unpatched] ++ Cb0.1 ++
      [Instr.jump (g.code ++ Ci.1 ++ [Instr.pushLoop 1]).length]).length
      (g.code ++ Ci.1 ++ [Instr.pushLoop 1] ++ [Instr.iterate unpatched]).length ps Cb0.1 CbE := by
    have e1 : (g.code ++ Ci.1 ++ [Instr.pushLoop 1] ++ [Instr.iterate unpatched] ++ Cb0.1 ++
      [Instr.jump (g.code ++ Ci.1 ++ [Instr.pushLoop 1]).length]).length = g.next + Ci.1.length + 2 + Cb0.1.length + 1 := by
      simp [CG.next]; omega
    have e2 : (g.code ++ Ci.1 ++ [Instr.pushLoop 1] ++ [Instr.iterate unpatched]).length = g.next + Ci.1.length + 2 := by
      simp [CG.next]; omega
    rw [e1, e2]; exact hp
  cases d with
  | false =>
    simp only [Bool.false_eq_true, if_false]
    rw [patchAll_patched hp' _ (g.code ++ Ci.1 ++ [Instr.pushLoop 1] ++ [Instr.iterate unpatched])
      ([Instr.jump (g.code ++ Ci.1 ++ [Instr.pushLoop 1]).length] ++ [Instr.popLoopFrame])
      rfl (by simp)]
    simp only [CG.patchAll, List.foldl]
    rw [patch_iterate _ (g.code ++ Ci.1 ++ [Instr.pushLoop 1]) (CbE ++ [Instr.jump (g.code ++ Ci.1 ++ [Instr.pushLoop 1]).length] ++ [Instr.popLoopFrame])
      _ unpatched _ (by simp) (by simp)]
    simp [CG.next, Nat.add_assoc]; omega
  | true =>
    simp only [if_true]
    rw [patchAll_patched hp' _ (g.code ++ Ci.1 ++ [Instr.pushLoop 1] ++ [Instr.iterate unpatched])
      ([Instr.jump (g.code ++ Ci.1 ++ [Instr.pushLoop 1]).length] ++ [Instr.pushDidNotIterate] ++ [Instr.popLoopFrame])
      rfl (by simp)]
    simp only [CG.patchAll, List.foldl]
    rw [patch_iterate _ (g.code ++ Ci.1 ++ [Instr.pushLoop 1])
      (CbE ++ [Instr.jump (g.code ++ Ci.1 ++ [Instr.pushLoop 1]).length] ++ [Instr.pushDidNotIterate] ++ [Instr.popLoopFrame])
      _ unpatched _ (by simp) (by simp)]
    simp [CG.next, Nat.add_assoc]; omega

/-! ## the generator's view of the innermost loop -/

/-- the pending blocks of the generator describe the loop context `lc` -/
def Compat (P : List Pending) : Option LoopCtx → Prop
  | none => True
  | some l => CG.innermostLoopIter P = some l.iter ∧ CG.scopesOfInnermostLoop P = l.scopes

theorem Compat_setExit (P : List Pending) (E : Nat) (lc : Option LoopCtx) : Compat P (setExit E lc) ↔ Compat P lc := by
  cases lc <;> simp [Compat, setExit]

theorem iter_addBreakJump (j : Nat) : ∀ (P : List Pending),
    CG.innermostLoopIter (CG.addBreakJump j P) = CG.innermostLoopIter P
  | [] => rfl
  | .loop _ _ :: _ => rfl
  | .branch _ :: P => by simp [CG.addBreakJump, CG.innermostLoopIter, iter_addBreakJump j P]
  | .scBool _ :: P => by simp [CG.addBreakJump, CG.innermostLoopIter, iter_addBreakJump j P]
  | .scope _ :: P => by simp [CG.addBreakJump, CG.innermostLoopIter, iter_addBreakJump j P]

theorem scopes_addBreakJump (j : Nat) : ∀ (P : List Pending),
    CG.scopesOfInnermostLoop (CG.addBreakJump j P) = CG.scopesOfInnermostLoop P
  | [] => rfl
  | .loop _ _ :: _ => rfl
  | .branch _ :: P => by simp [CG.addBreakJump, CG.scopesOfInnermostLoop, scopes_addBreakJump j P]
  | .scBool _ :: P => by simp [CG.addBreakJump, CG.scopesOfInnermostLoop, scopes_addBreakJump j P]
  | .scope _ :: P => by simp [CG.addBreakJump, CG.scopesOfInnermostLoop, scopes_addBreakJump j P]

@[simp] theorem iter_withBreaks : ∀ (ps : List Nat) (g : CG),
    CG.innermostLoopIter (g.withBreaks ps).pending = CG.innermostLoopIter g.pending
  | [], _ => rfl
  | j :: ps, g => by
    rw [CG.withBreaks_cons, iter_withBreaks ps]; simp [CG.addBreak, iter_addBreakJump]
@[simp] theorem scopes_withBreaks : ∀ (ps : List Nat) (g : CG),
    CG.scopesOfInnermostLoop (g.withBreaks ps).pending = CG.scopesOfInnermostLoop g.pending
  | [], _ => rfl
  | j :: ps, g => by
    rw [CG.withBreaks_cons, scopes_withBreaks ps]; simp [CG.addBreak, scopes_addBreakJump]

@[simp] theorem iter_startIf (g : CG) : CG.innermostLoopIter g.startIf.pending = CG.innermostLoopIter g.pending := by
  simp [CG.startIf, CG.add, CG.innermostLoopIter]
@[simp] theorem scopes_startIf (g : CG) : CG.scopesOfInnermostLoop g.startIf.pending = CG.scopesOfInnermostLoop g.pending := by
  simp [CG.startIf, CG.add, CG.scopesOfInnermostLoop]

theorem pending_endCondition (g : CG) (t : Nat) :
    CG.innermostLoopIter (g.endCondition t).pending = CG.innermostLoopIter g.pending ∧
    CG.scopesOfInnermostLoop (g.endCondition t).pending = CG.scopesOfInnermostLoop g.pending := by
  cases g with
  | mk code pending aux =>
    cases pending with
    | nil => simp [CG.endCondition, CG.markOof]
    | cons p rest =>
      cases p <;> simp [CG.endCondition, CG.markOof, CG.innermostLoopIter, CG.scopesOfInnermostLoop]

@[simp] theorem iter_startElse (g : CG) : CG.innermostLoopIter g.startElse.pending = CG.innermostLoopIter g.pending := by
  simp only [CG.startElse, CG.innermostLoopIter]
  exact (pending_endCondition _ _).1
@[simp] theorem scopes_startElse (g : CG) :
    CG.scopesOfInnermostLoop g.startElse.pending = CG.scopesOfInnermostLoop g.pending := by
  simp only [CG.startElse, CG.scopesOfInnermostLoop]
  exact (pending_endCondition _ _).2

@[simp] theorem iter_startScope (g : CG) (k : ScopeKind) :
    CG.innermostLoopIter (g.startScope k).pending = CG.innermostLoopIter g.pending := by
  simp [CG.startScope, CG.innermostLoopIter]
@[simp] theorem scopes_startScope (g : CG) (k : ScopeKind) :
    CG.scopesOfInnermostLoop (g.startScope k).pending = k :: CG.scopesOfInnermostLoop g.pending := by
  simp [CG.startScope, CG.scopesOfInnermostLoop]
@[simp] theorem pending_add (g : CG) (i : Instr) : (g.add i).pending = g.pending := rfl
@[simp] theorem iter_startForLoop (g : CG) (b : Bool) :
    CG.innermostLoopIter (g.startForLoop b).pending = some (g.next + 1) := by
  simp [CG.startForLoop, CG.add, CG.next, CG.innermostLoopIter]
@[simp] theorem scopes_startForLoop (g : CG) (b : Bool) :
    CG.scopesOfInnermostLoop (g.startForLoop b).pending = [] := by
  simp [CG.startForLoop, CG.add, CG.scopesOfInnermostLoop]

theorem leaveFold_eq : ∀ (sc : List ScopeKind) (g : CG),
    sc.foldl (fun g k => match k with
      | .with_ => g.add .popFrame
      | .capture => (g.add .endCapture).add .discardTop) g = g.extend (leaveCode sc, g.aux)
  | [], g => by simp [leaveCode, CG.extend]
  | .with_ :: rest, g => by
    simp only [List.foldl, leaveCode]; rw [leaveFold_eq rest]; simp [CG.extend, CG.add]
  | .capture :: rest, g => by
    simp only [List.foldl, leaveCode]; rw [leaveFold_eq rest]; simp [CG.extend, CG.add]

theorem leaveScopes_eq (g : CG) :
    g.leaveScopes = g.extend (leaveCode (CG.scopesOfInnermostLoop g.pending), g.aux) :=
  leaveFold_eq _ g

theorem Compat_of_view {P P' : List Pending} {lc : Option LoopCtx}
    (h1 : CG.innermostLoopIter P' = CG.innermostLoopIter P)
    (h2 : CG.scopesOfInnermostLoop P' = CG.scopesOfInnermostLoop P) (h : Compat P lc) : Compat P' lc := by
  cases lc with
  | none => trivial
  | some l => exact ⟨h1.trans h.1, h2.trans h.2⟩

theorem Compat_push {P P' : List Pending} {lc : Option LoopCtx} {k : ScopeKind}
    (h1 : CG.innermostLoopIter P' = CG.innermostLoopIter P)
    (h2 : CG.scopesOfInnermostLoop P' = k :: CG.scopesOfInnermostLoop P) (h : Compat P lc) :
    Compat P' (pushScope k lc) := by
  cases lc with
  | none => trivial
  | some l => exact ⟨h1.trans h.1, by rw [h2, h.2]⟩

theorem Patched.cast2 {E E' b b' ps L0 LE} (h : Patched E b ps L0 LE) (hE : E = E') (hb : b = b') :
    Patched E' b' ps L0 LE := by
  subst hE; subst hb; exact h

/-- the code in front of the loop body (copy of the first part of the `for` case of `cStmt`) -/
def cForPrefix (target : Target) (iter : Expr) (filter : Option Expr) (g : CG) : CG :=
  match filter with
  | some cond =>
    let g := g.add (.loadConst (.int 0))
    let g := (cExpr iter g).startForLoop false
    let g := cTarget target (g.add .dupTop)
    let g := (cExpr cond g).startIf
    let g := ((g.add .swap).add (.loadConst (.int 1))).add .add
    let g := (g.startElse.add .discardTop).endIf
    let g := (g.endForLoop false).add (.buildList none)
    g.startForLoop true
  | none => (cExpr iter g).startForLoop true

theorem cStmt_for (target : Target) (iter : Expr) (filter : Option Expr) (body els : List Stmt) (g : CG) :
    cStmt (.forS target iter filter body els) g =
      (match els with
        | [] => (cBlock body (cTarget target (cForPrefix target iter filter g))).endForLoop false
        | _ :: _ => (cBlock els ((cBlock body (cTarget target (cForPrefix target iter filter g))).endForLoop true).startIf).endIf) := by
  cases filter <;> cases els <;> simp only [cStmt, cForPrefix]

theorem cForPrefix_eq (t : Target) (iter : Expr) (flt : Option Expr) (g : CG) (hi : coreExpr iter = true)
    (hc : ∀ c, flt = some c → coreExpr c = true) :
    cForPrefix t iter flt g = (g.extend (relForIter t iter flt g.next g.aux)).startForLoop true := by
  cases flt with
  | none => simp only [cForPrefix, relForIter]; rw [cExpr_eq_core iter g hi]
  | some c => simp only [cForPrefix]; rw [filter_prefix_eq t iter c g hi (hc c rfl)]


/-! ## macro declarations -/

theorem enclose_fold : ∀ (names : List String) (g : CG),
    names.foldl (fun g n => g.add (.enclose n)) g = g.extend (names.map Instr.enclose, g.aux)
  | [], g => by simp [CG.extend]
  | n :: rest, g => by
    simp only [List.foldl, List.map]
    rw [enclose_fold rest]; simp [CG.extend, CG.add]

/-- the defaults of the parameter list are expressions of the fragment -/
def corePds : List (String × Option Expr) → Bool
  | [] => true
  | (_, none) :: rest => corePds rest
  | (_, some d) :: rest => coreExpr d && corePds rest

theorem prologue_fold : ∀ (pds : List (String × Option Expr)) (g : CG) (b : Nat), b = g.next → corePds pds = true →
    pds.foldl (fun g pd =>
      let g := match pd.2 with
        | some d => (cExpr d ((((g.add .dupTop).add .isUndefined).startIf).add .discardTop)).endIf
        | none => g
      g.add (.storeLocal pd.1)) g = g.extend (relPrologue pds b g.aux)
  | [], g, b, _, _ => by simp [relPrologue, CG.extend]
  | (p, none) :: rest, g, b, hb, h => by
    have hs : corePds rest = true := by simpa [corePds] using h
    subst hb
    simp only [List.foldl, relPrologue]
    rw [prologue_fold rest _ (g.next + 1) (by simp) hs]
    simp [CG.extend, CG.add]
  | (p, some d) :: rest, g, b, hb, h => by
    have hs : coreExpr d = true ∧ corePds rest = true := by simpa [corePds] using h
    subst hb
    simp only [List.foldl, relPrologue]
    have e0 : (g.add Instr.dupTop).add Instr.isUndefined = g.extend ([Instr.dupTop, Instr.isUndefined], g.aux) := by
      simp [CG.add, CG.extend]
    rw [e0]
    have e1 : (cExpr d ((g.extend ([Instr.dupTop, Instr.isUndefined], g.aux)).startIf.add Instr.discardTop)).endIf =
        ((g.extend ([Instr.dupTop, Instr.isUndefined], g.aux)).startIf.extend
          ([Instr.discardTop] ++ (relExpr d (g.next + 4) g.aux).1, (relExpr d (g.next + 4) g.aux).2)).endIf := by
      rw [cExpr_eq_core d _ hs.1]
      simp [CG.extend, CG.add, CG.startIf, CG.next, Nat.add_assoc]
    rw [e1, if_block_noelse]
    rw [prologue_fold rest _ (g.next + 4 + (relExpr d (g.next + 4) g.aux).1.length + 1)
      (by simp [CG.extend, CG.add, CG.next]; omega) hs.2]
    simp [CG.extend, CG.add, CG.next, Nat.add_assoc]
    omega

theorem corePds_reverse_aux : ∀ (l acc : List (String × Option Expr)), corePds l = true → corePds acc = true →
    corePds (l.reverseAux acc) = true
  | [], acc, _, h => h
  | (p, none) :: rest, acc, h1, h2 => by
    simp only [List.reverseAux]
    exact corePds_reverse_aux rest _ (by simpa [corePds] using h1) (by simpa [corePds] using h2)
  | (p, some d) :: rest, acc, h1, h2 => by
    have hs : coreExpr d = true ∧ corePds rest = true := by simpa [corePds] using h1
    simp only [List.reverseAux]
    exact corePds_reverse_aux rest _ hs.2 (by simp [corePds, hs.1, h2])

theorem coreDefaults_getElem? : ∀ (ds : List Expr) (i : Nat) (d : Expr), coreDefaults ds = true → ds[i]? = some d →
    coreExpr d = true
  | [], _, _, _, h => by simp at h
  | d0 :: rest, 0, d, hc, h => by
    simp at h; subst h; have := hc; simp [coreDefaults] at this; exact this.1
  | d0 :: rest, i + 1, d, hc, h => by
    have : coreDefaults rest = true := by have := hc; simp [coreDefaults] at this; exact this.2
    exact coreDefaults_getElem? rest i d this (by simpa using h)

theorem corePds_map (ds : List Expr) (n : Nat) (hd : coreDefaults ds = true) : ∀ (l : List (String × Nat)),
    corePds (l.map fun (x : String × Nat) => (x.1, if n ≤ x.2 then ds[x.2 - n]? else none)) = true
  | [] => rfl
  | (p, i) :: rest => by
    simp only [List.map]
    by_cases hn : n ≤ i
    · simp only [hn, if_true]
      cases hg : ds[i - n]? with
      | none => simp only [corePds]; exact corePds_map ds n hd rest
      | some d => simp only [corePds, coreDefaults_getElem? ds _ d hd hg, Bool.true_and]; exact corePds_map ds n hd rest
    · simp only [hn, if_false, corePds]; exact corePds_map ds n hd rest

theorem corePds_paramDefaults (params : List String) (defaults : List Expr) (hd : coreDefaults defaults = true) :
    corePds (paramDefaults params defaults).reverse = true := by
  unfold paramDefaults
  rw [List.reverse]
  exact corePds_reverse_aux _ [] (corePds_map defaults _ hd _) rfl

theorem cMacroPrologue_eq (params : List String) (defaults : List Expr) (g : CG) (hd : coreDefaults defaults = true) :
    cMacroPrologue (paramDefaults params defaults) g =
      g.extend (relPrologue (paramDefaults params defaults).reverse g.next g.aux) := by
  unfold cMacroPrologue
  exact prologue_fold _ g g.next rfl (corePds_paramDefaults params defaults hd)

/-- `compile_macro_expression` around the prologue `Rp` and the body `Rb`: the jump over the macro is
patched to the instructions that build the macro value -/
theorem macro_decl_block (name : String) (params fv : List String) (g : CG) (Rp Rb : List Instr × Aux) :
    cMacroEpilogue name params fv g.next (((g.add (.jump unpatched)).extend Rp).extend Rb) =
      g.extend (macroDeclCode name params fv g.next Rp.1 Rb.1, Rb.2) := by
  simp only [cMacroEpilogue]
  rw [enclose_fold]
  have hc : ((((((((g.add (Instr.jump unpatched)).extend Rp).extend Rb).add Instr.return_).extend
      (List.map Instr.enclose (sortNames (List.filter (fun x => x != "caller") fv)),
        ((((g.add (Instr.jump unpatched)).extend Rp).extend Rb).add Instr.return_).aux)).add Instr.getClosure).add
      (Instr.loadConst (Val.list (List.map Val.str params)))).add
      (Instr.buildMacro name (g.next + 1) (if fv.contains "caller" = true then macroCallerFlag else 0))).code =
      g.code ++ Instr.jump unpatched :: (Rp.1 ++ Rb.1 ++ [Instr.return_] ++ relEnclose fv ++
        [Instr.getClosure, Instr.loadConst (Val.list (List.map Val.str params)),
         Instr.buildMacro name (g.next + 1) (macroFlags fv)]) := by
    simp [CG.add, CG.extend, relEnclose, macroFlags]
  rw [patch_jump _ g.code _ g.next unpatched _ hc rfl]
  simp [CG.extend, CG.add, CG.next, macroDeclCode, Nat.add_assoc]
  omega

/-- a macro declaration expression (`compile_macro_expression`) compiled at `g0`, given that the
body compiles to its structured code -/
theorem macro_expr_eq (name : String) (params : List String) (defaults : List Expr) (body : List Stmt) (g0 : CG)
    (hd : coreDefaults defaults = true)
    (ih : ∀ g : CG, cBlock body g = g.extend (relBlock body g.next g.aux none).1) :
    cMacroEpilogue name params (findMacroClosure params defaults body) g0.next
        (cBlock body (cMacroPrologue (paramDefaults params defaults) (g0.add (.jump unpatched)))) =
      g0.extend (macroDeclCode name params (findMacroClosure params defaults body) g0.next
        (relPrologue (paramDefaults params defaults).reverse (g0.next + 1) g0.aux).1
        (relBlock body (g0.next + 1 + (relPrologue (paramDefaults params defaults).reverse (g0.next + 1) g0.aux).1.length)
          (relPrologue (paramDefaults params defaults).reverse (g0.next + 1) g0.aux).2 none).1.1,
        (relBlock body (g0.next + 1 + (relPrologue (paramDefaults params defaults).reverse (g0.next + 1) g0.aux).1.length)
          (relPrologue (paramDefaults params defaults).reverse (g0.next + 1) g0.aux).2 none).1.2) := by
  rw [cMacroPrologue_eq params defaults _ hd, ih]
  have e1 : (g0.add (Instr.jump unpatched)).next = g0.next + 1 := by simp [CG.add, CG.next]
  have e2 : (g0.add (Instr.jump unpatched)).aux = g0.aux := rfl
  rw [e1, e2]
  have e3 : ((g0.add (Instr.jump unpatched)).extend
      (relPrologue (paramDefaults params defaults).reverse (g0.next + 1) g0.aux)).next =
      g0.next + 1 + (relPrologue (paramDefaults params defaults).reverse (g0.next + 1) g0.aux).1.length := by
    simp [CG.add, CG.next, CG.extend]; omega
  rw [e3]
  simp only [CG.extend_aux]
  exact macro_decl_block name params _ g0 _ _

/-! ## a block outside every loop records no `break` jumps -/

mutual
theorem relStmt_breaks_nil : ∀ (st : Stmt) (b : Nat) (a : Aux), coreStmt false st = true → (relStmt st b a none).2 = []
  | .text _, _, _, _ => by simp [relStmt]
  | .emit _, _, _, _ => by simp [relStmt]
  | .set _ _, _, _, _ => by simp [relStmt]
  | .ifS c t [], b, a, h => by
    have hs : coreExpr c = true ∧ coreBlock false t = true := by simpa [coreStmt, coreBlock] using h
    simp only [relStmt]; exact relBlock_breaks_nil t _ _ hs.2
  | .ifS c t (f :: fs), b, a, h => by
    have hs : (coreExpr c = true ∧ coreBlock false t = true) ∧ coreBlock false (f :: fs) = true := by
      simpa [coreStmt] using h
    simp only [relStmt]
    rw [relBlock_breaks_nil t _ _ hs.1.2, relBlock_breaks_nil (f :: fs) _ _ hs.2]; rfl
  | .withS binds body, b, a, h => by
    have hs : coreBinds binds = true ∧ coreBlock false body = true := by simpa [coreStmt] using h
    simp only [relStmt, pushScope]; exact relBlock_breaks_nil body _ _ hs.2
  | .forS t iter flt body [], b, a, h => by simp [relStmt]
  | .forS t iter flt body (e0 :: es), b, a, h => by
    have hs : coreBlock false (e0 :: es) = true := by
      have := h; simp only [coreStmt, Bool.and_eq_true] at this; exact this.2
    simp only [relStmt]; exact relBlock_breaks_nil (e0 :: es) _ _ hs
  | .setBlock x fs body, b, a, h => by
    have hs : coreFilters fs = true ∧ coreBlock false body = true := by simpa [coreStmt] using h
    simp only [relStmt, pushScope]; exact relBlock_breaks_nil body _ _ hs.2
  | .filterBlock fs body, b, a, h => by
    have hs : coreFilters fs = true ∧ coreBlock false body = true := by simpa [coreStmt] using h
    simp only [relStmt, pushScope]; exact relBlock_breaks_nil body _ _ hs.2
  | .macroS .., _, _, _ => by simp [relStmt]
  | .callBlock f .., _, _, _ => by cases f <;> simp [relStmt]
  | .breakS, _, _, h => by simp [coreStmt] at h
  | .continueS, _, _, h => by simp [coreStmt] at h
theorem relBlock_breaks_nil : ∀ (ss : List Stmt) (b : Nat) (a : Aux), coreBlock false ss = true → (relBlock ss b a none).2 = []
  | [], _, _, _ => by simp [relBlock]
  | s :: rest, b, a, h => by
    have hs : coreStmt false s = true ∧ coreBlock false rest = true := by simpa [coreBlock] using h
    simp only [relBlock]
    rw [relStmt_breaks_nil s b a hs.1, relBlock_breaks_nil rest _ _ hs.2]; rfl
end

mutual
theorem cStmt_eq_core : ∀ (st : Stmt) (g : CG) (lc : Option LoopCtx), coreStmt lc.isSome st = true →
    Compat g.pending lc →
    cStmt st g = (g.extend (relStmt st g.next g.aux (setExit 0 lc)).1).withBreaks
      (relStmt st g.next g.aux (setExit 0 lc)).2
  | .text t, g, lc, _, _ => by simp [cStmt, relStmt, CG.add_eq_extend]
  | .emit e, g, lc, h, _ => by
    have hs : coreExpr e = true := by simpa [coreStmt] using h
    simp [cStmt, relStmt, cExpr_eq_core e g hs]
  | .set t e, g, lc, h, _ => by
    have hs : coreExpr e = true := by simpa [coreStmt] using h
    simp [cStmt, relStmt, cExpr_eq_core e g hs, cTarget_eq_rel, CG.extend_extend]
  | .ifS c t [], g, lc, h, hc => by
    have hs : coreExpr c = true ∧ coreBlock lc.isSome t = true := by simpa [coreStmt, coreBlock] using h
    simp only [cStmt, relStmt]
    rw [cExpr_eq_core c g hs.1, cBlock_eq_core t _ lc hs.2 (Compat_of_view (by simp) (by simp) hc),
      endIf_withBreaks, if_block_noelse]
    simp [Nat.add_assoc]
  | .ifS c t (f :: fs), g, lc, h, hc => by
    have hs : (coreExpr c = true ∧ coreBlock lc.isSome t = true) ∧ coreBlock lc.isSome (f :: fs) = true := by
      simpa [coreStmt] using h
    simp only [cStmt, relStmt]
    rw [cExpr_eq_core c g hs.1.1, cBlock_eq_core t _ lc hs.1.2 (Compat_of_view (by simp) (by simp) hc),
      startElse_withBreaks,
      cBlock_eq_core (f :: fs) _ lc hs.2 (Compat_of_view (by simp) (by simp) hc),
      extend_withBreaks, CG.withBreaks_withBreaks, endIf_withBreaks]
    simp only [CG.next_withBreaks, CG.aux_withBreaks]
    rw [if_block]
    simp [Nat.add_assoc]
  | .withS binds body, g, lc, h, hc => by
    have hs : coreBinds binds = true ∧ coreBlock (pushScope .with_ lc).isSome body = true := by
      simpa [coreStmt] using h
    simp only [cStmt, relStmt, pushScope_setExit]
    rw [cBinds_eq_core binds _ hs.1,
      cBlock_eq_core body _ (pushScope .with_ lc) hs.2 (Compat_push (by simp) (by simp) hc),
      endScope_withBreaks, add_withBreaks]
    congr 1 <;>
    simp [CG.startScope, CG.endScope, CG.extend, CG.add, CG.next, Nat.add_assoc, Nat.add_comm]
  | .forS t iter flt body [], g, lc, h, hc => by
    have hs : (coreExpr iter = true ∧ (∀ c, flt = some c → coreExpr c = true)) ∧ coreBlock true body = true := by
      cases flt <;> simp [coreStmt, coreBlock] at h <;> simp [h]
    rw [cStmt_for, cForPrefix_eq t iter flt g hs.1.1 hs.1.2]
    simp only
    rw [cTarget_eq_rel,
      cBlock_eq_core body _ (some ⟨g.next + (relForIter t iter flt g.next g.aux).1.length + 1, 0, []⟩) hs.2
        ⟨by simp, by simp⟩]
    simp only [CG.next_extend, next_startFor_ext, aux_startFor_ext, CG.extend_aux, setExit, relStmt]
    have hp := (relBlock_patched body (g.next + (relForIter t iter flt g.next g.aux).1.length + 2 + (relTarget t).length)
      (relForIter t iter flt g.next g.aux).2 (some ⟨g.next + (relForIter t iter flt g.next g.aux).1.length + 1, 0, []⟩)
      (g.next + (relForIter t iter flt g.next g.aux).1.length + 2 + (relTarget t).length +
        (relBlock body (g.next + (relForIter t iter flt g.next g.aux).1.length + 2 + (relTarget t).length)
          (relForIter t iter flt g.next g.aux).2
          (some ⟨g.next + (relForIter t iter flt g.next g.aux).1.length + 1, 0, []⟩)).1.1.length + 1))
    simp only [setExit] at hp
    generalize relForIter t iter flt g.next g.aux = Ri at hp ⊢
    generalize relBlock body (g.next + Ri.1.length + 2 + (relTarget t).length) Ri.2
      (some ⟨g.next + Ri.1.length + 1, 0, []⟩) = R0 at hp ⊢
    generalize relBlock body (g.next + Ri.1.length + 2 + (relTarget t).length) Ri.2
      (some ⟨g.next + Ri.1.length + 1, g.next + Ri.1.length + 2 + (relTarget t).length + R0.1.1.length + 1, []⟩) = RE at hp ⊢
    obtain ⟨hp1, hp2, hp3⟩ := hp
    rw [CG.extend_extend, for_block_brk g Ri _ R0.2 (relTarget t ++ RE.1.1) false
      ((Patched.pre (b := g.next + Ri.1.length + 2) (relTarget t) hp1).cast2
        (by simp only [List.length_append]; omega) rfl)]
    simp [hp2, Nat.add_assoc]
  | .forS t iter flt body (e0 :: es), g, lc, h, hc => by
    have hs : ((coreExpr iter = true ∧ (∀ c, flt = some c → coreExpr c = true)) ∧ coreBlock true body = true) ∧
        coreBlock lc.isSome (e0 :: es) = true := by
      cases flt <;> simp [coreStmt] at h <;> simp [h]
    rw [cStmt_for, cForPrefix_eq t iter flt g hs.1.1.1 hs.1.1.2]
    simp only
    rw [cTarget_eq_rel,
      cBlock_eq_core body _ (some ⟨g.next + (relForIter t iter flt g.next g.aux).1.length + 1, 0, []⟩) hs.1.2
        ⟨by simp, by simp⟩]
    simp only [CG.next_extend, next_startFor_ext, aux_startFor_ext, CG.extend_aux, setExit_some, relStmt]
    have hp := (relBlock_patched body (g.next + (relForIter t iter flt g.next g.aux).1.length + 2 + (relTarget t).length)
      (relForIter t iter flt g.next g.aux).2 (some ⟨g.next + (relForIter t iter flt g.next g.aux).1.length + 1, 0, []⟩)
      (g.next + (relForIter t iter flt g.next g.aux).1.length + 2 + (relTarget t).length +
        (relBlock body (g.next + (relForIter t iter flt g.next g.aux).1.length + 2 + (relTarget t).length)
          (relForIter t iter flt g.next g.aux).2
          (some ⟨g.next + (relForIter t iter flt g.next g.aux).1.length + 1, 0, []⟩)).1.1.length + 1))
    simp only [setExit] at hp
    generalize relForIter t iter flt g.next g.aux = Ri at hp ⊢
    generalize relBlock body (g.next + Ri.1.length + 2 + (relTarget t).length) Ri.2
      (some ⟨g.next + Ri.1.length + 1, 0, []⟩) = R0 at hp ⊢
    generalize relBlock body (g.next + Ri.1.length + 2 + (relTarget t).length) Ri.2
      (some ⟨g.next + Ri.1.length + 1, g.next + Ri.1.length + 2 + (relTarget t).length + R0.1.1.length + 1, []⟩) = RE at hp ⊢
    obtain ⟨hp1, hp2, hp3⟩ := hp
    rw [CG.extend_extend, for_block_brk g Ri _ R0.2 (relTarget t ++ RE.1.1) true
      ((Patched.pre (b := g.next + Ri.1.length + 2) (relTarget t) hp1).cast2
        (by simp only [List.length_append]; omega) rfl),
      cBlock_eq_core (e0 :: es) _ lc hs.2 (Compat_of_view (by simp) (by simp) hc), endIf_withBreaks]
    simp only [next_startIf_ext, aux_startIf_ext]
    rw [if_block_noelse]
    simp [hp1.length_eq, hp2, Nat.add_assoc]
    have hb : g.next + (Ri.1.length + ((relTarget t).length + (R0.1.1.length + 6))) =
        g.next + (Ri.1.length + (2 + ((relTarget t).length + (R0.1.1.length + 4)))) := by omega
    rw [hb]
    have hj : ∀ n, g.next + (Ri.1.length + ((relTarget t).length + (R0.1.1.length + (6 + n)))) =
        g.next + (Ri.1.length + (2 + ((relTarget t).length + (R0.1.1.length + (4 + n))))) := by intro n; omega
    rw [hj]
  | .setBlock x filters body, g, lc, h, hc => by
    have hs : coreFilters filters = true ∧ coreBlock (pushScope .capture lc).isSome body = true := by
      simpa [coreStmt] using h
    simp only [cStmt, relStmt, pushScope_setExit]
    rw [cBlock_eq_core body _ (pushScope .capture lc) hs.2 (Compat_push (by simp) (by simp) hc),
      endScope_withBreaks, add_withBreaks, cFilters_eq_core filters _ hs.1, extend_withBreaks, add_withBreaks]
    simp only [CG.next_withBreaks, CG.aux_withBreaks]
    rw [scope_block]
    congr 1 <;>
    simp [CG.extend, CG.add, CG.next, CG.startScope, Nat.add_assoc, Nat.add_comm, Nat.add_left_comm]
  | .filterBlock filters body, g, lc, h, hc => by
    have hs : coreFilters filters = true ∧ coreBlock (pushScope .capture lc).isSome body = true := by
      simpa [coreStmt] using h
    simp only [cStmt, relStmt, pushScope_setExit]
    rw [cBlock_eq_core body _ (pushScope .capture lc) hs.2 (Compat_push (by simp) (by simp) hc),
      endScope_withBreaks, add_withBreaks, cFilters_eq_core filters _ hs.1, extend_withBreaks, add_withBreaks]
    simp only [CG.next_withBreaks, CG.aux_withBreaks]
    rw [scope_block]
    congr 1 <;>
    simp [CG.extend, CG.add, CG.next, CG.startScope, Nat.add_assoc, Nat.add_comm, Nat.add_left_comm]
  | .macroS name params defaults body uc, g, lc, h, _ => by
    have hs : coreDefaults defaults = true ∧ coreBlock false body = true := by simpa [coreStmt] using h
    have ih : ∀ g' : CG, cBlock body g' = g'.extend (relBlock body g'.next g'.aux none).1 := by
      intro g'
      have hb := cBlock_eq_core body g' none hs.2 trivial
      simp only [setExit] at hb
      rw [hb, relBlock_breaks_nil body _ _ hs.2, CG.withBreaks_nil]
    simp only [cStmt, relStmt]
    rw [macro_expr_eq name params defaults body g hs.1 ih]
    simp [CG.extend, CG.add, CG.withBreaks]
  | .callBlock (.var x) args params defaults body uc, g, lc, h, _ => by
    have hs : (coreCallArgs args = true ∧ coreDefaults defaults = true) ∧ coreBlock false body = true := by
      simpa [coreStmt] using h
    have ih : ∀ g' : CG, cBlock body g' = g'.extend (relBlock body g'.next g'.aux none).1 := by
      intro g'
      have hb := cBlock_eq_core body g' none hs.2 trivial
      simp only [setExit] at hb
      rw [hb, relBlock_breaks_nil body _ _ hs.2, CG.withBreaks_nil]
    simp only [cStmt, relStmt, callKind, callName]
    simp only [beq_self_eq_true, if_true]
    rw [cPosArgs_eq_core args g hs.1.1, cKwArgs_eq_core args _ hs.1.1]
    have e0 : ((g.extend (relPosArgs args g.next g.aux)).extend
        (relKwArgs args (g.extend (relPosArgs args g.next g.aux)).next (g.extend (relPosArgs args g.next g.aux)).aux)).add
        (Instr.loadConst (Val.str "caller")) =
        g.extend ((relPosArgs args g.next g.aux).1 ++
          (relKwArgs args (g.next + (relPosArgs args g.next g.aux).1.length) (relPosArgs args g.next g.aux).2).1 ++
          [Instr.loadConst (Val.str "caller")],
          (relKwArgs args (g.next + (relPosArgs args g.next g.aux).1.length) (relPosArgs args g.next g.aux).2).2) := by
      simp [CG.extend, CG.add, CG.next]
    rw [e0]
    generalize hG : g.extend ((relPosArgs args g.next g.aux).1 ++
          (relKwArgs args (g.next + (relPosArgs args g.next g.aux).1.length) (relPosArgs args g.next g.aux).2).1 ++
          [Instr.loadConst (Val.str "caller")],
          (relKwArgs args (g.next + (relPosArgs args g.next g.aux).1.length) (relPosArgs args g.next g.aux).2).2) = G
    have hGn : G.next = g.next + (relPosArgs args g.next g.aux).1.length +
        (relKwArgs args (g.next + (relPosArgs args g.next g.aux).1.length) (relPosArgs args g.next g.aux).2).1.length + 1 := by
      subst hG; simp [CG.extend, CG.next]; omega
    have hGa : G.aux = (relKwArgs args (g.next + (relPosArgs args g.next g.aux).1.length) (relPosArgs args g.next g.aux).2).2 := by
      subst hG; rfl
    rw [macro_expr_eq "caller" params defaults body G hs.1.2 ih, hGn, hGa]
    subst hG
    simp [CG.extend, CG.add, CG.withBreaks, Nat.add_assoc]
  | .callBlock (.const _) .., _, lc, h, _ => by simp [coreStmt] at h
  | .callBlock (.unop _ _) .., _, lc, h, _ => by simp [coreStmt] at h
  | .callBlock (.binop _ _ _) .., _, lc, h, _ => by simp [coreStmt] at h
  | .callBlock (.cmp _ _) .., _, lc, h, _ => by simp [coreStmt] at h
  | .callBlock (.ife _ _ _) .., _, lc, h, _ => by simp [coreStmt] at h
  | .callBlock (.filter _ _ _) .., _, lc, h, _ => by simp [coreStmt] at h
  | .callBlock (.test _ _ _) .., _, lc, h, _ => by simp [coreStmt] at h
  | .callBlock (.getattr _ _) .., _, lc, h, _ => by simp [coreStmt] at h
  | .callBlock (.getitem _ _) .., _, lc, h, _ => by simp [coreStmt] at h
  | .callBlock (.call _ _) .., _, lc, h, _ => by simp [coreStmt] at h
  | .callBlock (.list _) .., _, lc, h, _ => by simp [coreStmt] at h
  | .callBlock (.map _) .., _, lc, h, _ => by simp [coreStmt] at h
  | .breakS, g, none, h, _ => by simp [coreStmt] at h
  | .breakS, g, some l, _, hc => by
    simp only [cStmt, relStmt, setExit]
    rw [leaveScopes_eq, hc.2]
    simp [CG.withBreaks, CG.addBreak, CG.extend, CG.add, CG.next, Nat.add_assoc]
  | .continueS, g, none, h, _ => by simp [coreStmt] at h
  | .continueS, g, some l, _, hc => by
    simp only [cStmt, relStmt, setExit]
    rw [leaveScopes_eq, hc.2]
    have h1 := hc.1
    simp [h1, CG.extend, CG.add]
theorem cBlock_eq_core : ∀ (ss : List Stmt) (g : CG) (lc : Option LoopCtx), coreBlock lc.isSome ss = true →
    Compat g.pending lc →
    cBlock ss g = (g.extend (relBlock ss g.next g.aux (setExit 0 lc)).1).withBreaks
      (relBlock ss g.next g.aux (setExit 0 lc)).2
  | [], g, lc, _, _ => by simp [cBlock, relBlock, CG.extend]
  | s :: rest, g, lc, h, hc => by
    have hs : coreStmt lc.isSome s = true ∧ coreBlock lc.isSome rest = true := by simpa [coreBlock] using h
    simp only [cBlock, relBlock]
    rw [cStmt_eq_core s g lc hs.1 hc, cBlock_eq_core rest _ lc hs.2 (Compat_of_view (by simp) (by simp) hc),
      extend_withBreaks, CG.withBreaks_withBreaks]
    simp [CG.extend_extend]
end

/-! ## the call-free fragment -/

theorem simple_coreBinds : ∀ (bs : List (Target × Expr)), simpleBinds bs = true → coreBinds bs = true
  | [], _ => rfl
  | (_, e) :: rest, h => by
    simp only [simpleBinds, Bool.and_eq_true] at h; simp only [coreBinds, Bool.and_eq_true]
    exact ⟨simple_core e h.1, simple_coreBinds rest h.2⟩

theorem simple_coreFilters : ∀ (fs : List FilterApp), simpleFilters fs = true → coreFilters fs = true
  | [], _ => rfl
  | (_, args) :: rest, h => by
    simp only [simpleFilters, Bool.and_eq_true] at h; simp only [coreFilters, Bool.and_eq_true]
    exact ⟨simple_coreArgs args h.1, simple_coreFilters rest h.2⟩

mutual
theorem simple_coreStmt : ∀ (l : Bool) (st : Stmt), simpleStmt l st = true → coreStmt l st = true
  | _, .text _, _ => rfl
  | _, .emit e, h => by simp only [simpleStmt] at h; simp only [coreStmt]; exact simple_core e h
  | _, .set _ e, h => by simp only [simpleStmt] at h; simp only [coreStmt]; exact simple_core e h
  | l, .ifS c t f, h => by
    simp only [simpleStmt, Bool.and_eq_true] at h; simp only [coreStmt, Bool.and_eq_true]
    exact ⟨⟨simple_core c h.1.1, simple_coreBlock l t h.1.2⟩, simple_coreBlock l f h.2⟩
  | l, .withS binds body, h => by
    simp only [simpleStmt, Bool.and_eq_true] at h; simp only [coreStmt, Bool.and_eq_true]
    exact ⟨simple_coreBinds binds h.1, simple_coreBlock l body h.2⟩
  | l, .forS _ iter flt body els, h => by
    simp only [simpleStmt, Bool.and_eq_true] at h; simp only [coreStmt, Bool.and_eq_true]
    refine ⟨⟨⟨simple_core iter h.1.1.1, ?_⟩, simple_coreBlock true body h.1.2⟩, simple_coreBlock l els h.2⟩
    cases flt with
    | none => rfl
    | some c => exact simple_core c h.1.1.2
  | l, .setBlock _ fs body, h => by
    simp only [simpleStmt, Bool.and_eq_true] at h; simp only [coreStmt, Bool.and_eq_true]
    exact ⟨simple_coreFilters fs h.1, simple_coreBlock l body h.2⟩
  | l, .filterBlock fs body, h => by
    simp only [simpleStmt, Bool.and_eq_true] at h; simp only [coreStmt, Bool.and_eq_true]
    exact ⟨simple_coreFilters fs h.1, simple_coreBlock l body h.2⟩
  | _, .macroS .., h => by simp [simpleStmt] at h
  | _, .callBlock .., h => by simp [simpleStmt] at h
  | _, .breakS, h => by simpa [simpleStmt, coreStmt] using h
  | _, .continueS, h => by simpa [simpleStmt, coreStmt] using h
theorem simple_coreBlock : ∀ (l : Bool) (ss : List Stmt), simpleBlock l ss = true → coreBlock l ss = true
  | _, [], _ => rfl
  | l, s :: rest, h => by
    simp only [simpleBlock, Bool.and_eq_true] at h; simp only [coreBlock, Bool.and_eq_true]
    exact ⟨simple_coreStmt l s h.1, simple_coreBlock l rest h.2⟩
end

theorem cBlock_eq_rel (ss : List Stmt) (g : CG) (lc : Option LoopCtx) (h : simpleBlock lc.isSome ss = true)
    (hc : Compat g.pending lc) :
    cBlock ss g = (g.extend (relBlock ss g.next g.aux (setExit 0 lc)).1).withBreaks
      (relBlock ss g.next g.aux (setExit 0 lc)).2 :=
  cBlock_eq_core ss g lc (simple_coreBlock _ ss h) hc

end MJ.Compile
