import MJ.Proofs.ExprSim
import MJ.Proofs.EvalFrame
/-!
# Statements without back-patching (C03 stage 3)

`relStmt` / `relBlock`: the code of a statement of the fragment with resolved jump targets;
`cStmt_eq_rel`: the back-patching generator of `MJ.Compile` produces exactly this code.
Fragment: text, emit, `set x = e`, `if`/`elif`/`else`, `with x = e, …`, `for x in e` (no filter, no
`else`, no loop controls).
-/
namespace MJ.Compile
open MJ.Eval

/-- `with` bindings of the fragment: plain names -/
def simpleBinds : List (Target × Expr) → Bool
  | [] => true
  | (.var _, e) :: rest => simpleExpr e && simpleBinds rest
  | (.tuple _, _) :: _ => false

mutual
  /-- the stage-3 statement fragment: text, `{{ e }}`, `set x = e`, `if` / `elif` / `else`,
  `with x = e, …`, `for x in e` (no filter, no `else`, no `break` / `continue`) -/
  def simpleStmt : Stmt → Bool
    | .text _ => true
    | .emit e => simpleExpr e
    | .set (.var _) e => simpleExpr e
    | .ifS c t f => simpleExpr c && simpleBlock t && simpleBlock f
    | .withS binds body => simpleBinds binds && simpleBlock body
    | .forS (.var x) iter none body [] => x != "loop" && simpleExpr iter && simpleBlock body
    | _ => false
  def simpleBlock : List Stmt → Bool
    | [] => true
    | s :: rest => simpleStmt s && simpleBlock rest
end

def relBinds : List (Target × Expr) → Nat → Aux → List Instr × Aux
  | [], _, a => ([], a)
  | (.var x, e) :: rest, base, a =>
    let re := relExpr e base a
    let rr := relBinds rest (base + re.1.length + 1) re.2
    (re.1 ++ [.storeLocal x] ++ rr.1, rr.2)
  | (.tuple _, _) :: _, _, a => ([], a.markOof)

mutual
  def relStmt : Stmt → Nat → Aux → List Instr × Aux
    | .text t, _, a => ([.emitRaw t], a)
    | .emit e, base, a => ((relExpr e base a).1 ++ [.emit], (relExpr e base a).2)
    | .set (.var x) e, base, a => ((relExpr e base a).1 ++ [.storeLocal x], (relExpr e base a).2)
    | .ifS c t [], base, a =>
      let rc := relExpr c base a
      let rt := relBlock t (base + rc.1.length + 1) rc.2
      (rc.1 ++ [.jumpIfFalse (base + rc.1.length + 1 + rt.1.length)] ++ rt.1, rt.2)
    | .ifS c t (f :: fs), base, a =>
      let rc := relExpr c base a
      let rt := relBlock t (base + rc.1.length + 1) rc.2
      let fb := base + rc.1.length + 1 + rt.1.length + 1
      let rf := relBlock (f :: fs) fb rt.2
      (rc.1 ++ [.jumpIfFalse fb] ++ rt.1 ++ [.jump (fb + rf.1.length)] ++ rf.1, rf.2)
    | .withS binds body, base, a =>
      let rb := relBinds binds (base + 1) a
      let rr := relBlock body (base + 1 + rb.1.length) rb.2
      ([.pushWith] ++ rb.1 ++ rr.1 ++ [.popFrame], rr.2)
    | .forS (.var x) iter none body [], base, a =>
      let ri := relExpr iter base a
      let rb := relBlock body (base + ri.1.length + 3) ri.2
      (ri.1 ++ [.pushLoop 1, .iterate (base + ri.1.length + 3 + rb.1.length + 1), .storeLocal x] ++ rb.1 ++
        [.jump (base + ri.1.length + 1), .popLoopFrame], rb.2)
    | _, _, a => ([], a.markOof)
  def relBlock : List Stmt → Nat → Aux → List Instr × Aux
    | [], _, a => ([], a)
    | s :: rest, base, a =>
      let rs := relStmt s base a
      let rr := relBlock rest (base + rs.1.length) rs.2
      (rs.1 ++ rr.1, rr.2)
end

theorem endIf_noelse (A : List Instr) (P : List Pending) (a : Aux) (C : List Instr × Aux) (n : Nat)
    (hn : n = A.length) :
    (({ code := A ++ Instr.jumpIfFalse unpatched :: [], pending := .branch n :: P, aux := a } : CG).extend C).endIf =
      { code := A ++ Instr.jumpIfFalse (A.length + 1 + C.1.length) :: C.1, pending := P, aux := C.2 } := by
  subst hn
  simp only [CG.endIf, CG.endCondition, CG.extend, CG.next]
  rw [patch_jif _ A C.1 _ unpatched _ (by simp) rfl]
  simp [Nat.add_assoc]; omega

theorem if_block_noelse (g : CG) (Cc Ct : List Instr × Aux) :
    ((g.extend Cc).startIf.extend Ct).endIf =
      g.extend (Cc.1 ++ [Instr.jumpIfFalse (g.next + Cc.1.length + 1 + Ct.1.length)] ++ Ct.1, Ct.2) := by
  rw [startIf_extend, endIf_noelse _ _ _ _ _ (by simp [CG.next])]
  simp [CG.extend, CG.next, Nat.add_assoc]

theorem patch_iterate (g : CG) (A B : List Instr) (n u t : Nat) (hc : g.code = A ++ .iterate u :: B)
    (hn : n = A.length) : g.patch n t = { g with code := A ++ .iterate t :: B } := by
  simp [CG.patch, hc, getElem?_mid A B _ n hn, set_mid A B _ _ n hn]

/-- a `for` loop without filter / else / loop controls around code chunks `Ci` (iterable) and `Cb`
(target + body) -/
theorem for_block (g : CG) (Ci Cb : List Instr × Aux) :
    (((g.extend Ci).startForLoop true).extend Cb).endForLoop false =
      g.extend (Ci.1 ++ [Instr.pushLoop 1, Instr.iterate (g.next + Ci.1.length + 2 + Cb.1.length + 1)] ++ Cb.1 ++
        [Instr.jump (g.next + Ci.1.length + 1), Instr.popLoopFrame], Cb.2) := by
  simp only [CG.startForLoop, CG.endForLoop, CG.extend, CG.add, CG.next, CG.patchAll, List.nil_append,
    List.foldl, if_true, Bool.false_eq_true, if_false]
  rw [patch_iterate _ (g.code ++ Ci.1 ++ [Instr.pushLoop 1]) (Cb.1 ++ [Instr.jump (g.code ++ Ci.1 ++ [Instr.pushLoop 1]).length] ++ [Instr.popLoopFrame])
    _ unpatched _ (by simp) (by simp)]
  simp [Nat.add_assoc]; omega


theorem cBinds_eq_rel : ∀ (binds : List (Target × Expr)) (g : CG), simpleBinds binds = true →
    cBinds binds g = g.extend (relBinds binds g.next g.aux)
  | [], g, _ => by simp [cBinds, relBinds, CG.extend]
  | (.var x, e) :: rest, g, h => by
    have hs : simpleExpr e = true ∧ simpleBinds rest = true := by simpa [simpleBinds] using h
    simp only [cBinds, relBinds, cTarget]
    rw [cExpr_eq_rel e g hs.1, CG.extend_add, cBinds_eq_rel rest _ hs.2]
    simp [CG.extend_extend, Nat.add_assoc]
  | (.tuple _, _) :: _, _, h => by simp [simpleBinds] at h

theorem scope_block (g : CG) (k : ScopeKind) (C : List Instr × Aux) :
    ((g.startScope k).extend C).endScope = g.extend C := by
  simp [CG.startScope, CG.endScope, CG.extend]

@[simp] theorem next_startScope (g : CG) (k : ScopeKind) : (g.startScope k).next = g.next := rfl
@[simp] theorem aux_startScope (g : CG) (k : ScopeKind) : (g.startScope k).aux = g.aux := rfl
@[simp] theorem next_add (g : CG) (i : Instr) : (g.add i).next = g.next + 1 := by simp [CG.add, CG.next]
@[simp] theorem aux_add (g : CG) (i : Instr) : (g.add i).aux = g.aux := rfl
@[simp] theorem next_startFor_ext (g : CG) (C : List Instr × Aux) (b : Bool) :
    ((g.extend C).startForLoop b).next = g.next + C.1.length + 2 := by
  simp [CG.startForLoop, CG.extend, CG.add, CG.next, Nat.add_assoc]
@[simp] theorem aux_startFor_ext (g : CG) (C : List Instr × Aux) (b : Bool) :
    ((g.extend C).startForLoop b).aux = C.2 := by
  simp [CG.startForLoop, CG.extend, CG.add]

@[simp] theorem next_startFor_add (g : CG) (C : List Instr × Aux) (b : Bool) (i : Instr) :
    (((g.extend C).startForLoop b).add i).next = g.next + C.1.length + 3 := by
  simp [CG.startForLoop, CG.extend, CG.add, CG.next, Nat.add_assoc]
@[simp] theorem aux_startFor_add (g : CG) (C : List Instr × Aux) (b : Bool) (i : Instr) :
    (((g.extend C).startForLoop b).add i).aux = C.2 := by
  simp [CG.startForLoop, CG.extend, CG.add]

theorem startScope_extend (g : CG) (k : ScopeKind) (C : List Instr × Aux) :
    (g.extend C).startScope k = (g.startScope k).extend C := by
  simp [CG.startScope, CG.extend]

theorem startFor_add_extend (g : CG) (Ci : List Instr × Aux) (i : Instr) (C : List Instr × Aux) :
    ((((g.extend Ci).startForLoop true).add i).extend C) =
      ((g.extend Ci).startForLoop true).extend (i :: C.1, C.2) := by
  simp [CG.extend, CG.add]

mutual
theorem cStmt_eq_rel : ∀ (st : Stmt) (g : CG), simpleStmt st = true →
    cStmt st g = g.extend (relStmt st g.next g.aux)
  | .text t, g, _ => by simp [cStmt, relStmt, CG.add_eq_extend]
  | .emit e, g, h => by
    have hs : simpleExpr e = true := by simpa [simpleStmt] using h
    simp [cStmt, relStmt, cExpr_eq_rel e g hs]
  | .set (.var x) e, g, h => by
    have hs : simpleExpr e = true := by simpa [simpleStmt] using h
    simp [cStmt, relStmt, cTarget, cExpr_eq_rel e g hs]
  | .set (.tuple _) _, _, h => by simp [simpleStmt] at h
  | .ifS c t [], g, h => by
    have hs : simpleExpr c = true ∧ simpleBlock t = true := by simpa [simpleStmt, simpleBlock] using h
    simp only [cStmt, relStmt]
    rw [cExpr_eq_rel c g hs.1, cBlock_eq_rel t _ hs.2, if_block_noelse]
    simp [Nat.add_assoc]
  | .ifS c t (f :: fs), g, h => by
    have hs : (simpleExpr c = true ∧ simpleBlock t = true) ∧ simpleBlock (f :: fs) = true := by
      simpa [simpleStmt] using h
    simp only [cStmt, relStmt]
    rw [cExpr_eq_rel c g hs.1.1, cBlock_eq_rel t _ hs.1.2, cBlock_eq_rel (f :: fs) _ hs.2, if_block]
    simp [Nat.add_assoc]
  | .withS binds body, g, h => by
    have hs : simpleBinds binds = true ∧ simpleBlock body = true := by simpa [simpleStmt] using h
    simp only [cStmt, relStmt]
    rw [cBinds_eq_rel binds _ hs.1, cBlock_eq_rel body _ hs.2]
    simp [CG.startScope, CG.endScope, CG.extend, CG.add, CG.next, Nat.add_assoc, Nat.add_comm, Nat.add_left_comm]
  | .forS (.var x) iter none body [], g, h => by
    have hs : (¬ x = "loop" ∧ simpleExpr iter = true) ∧ simpleBlock body = true := by
      simpa [simpleStmt] using h
    simp only [cStmt, relStmt, cTarget]
    rw [cExpr_eq_rel iter g hs.1.2, cBlock_eq_rel body _ hs.2, next_startFor_add, aux_startFor_add,
      startFor_add_extend, for_block]
    have e : ∀ n m : Nat, g.next + n + 2 + (m + 1) + 1 = g.next + n + 3 + m + 1 := by intros; omega
    simp [e]
  | .forS (.tuple _) _ _ _ _, _, h => by simp [simpleStmt] at h
  | .forS (.var _) _ (some _) _ _, _, h => by simp [simpleStmt] at h
  | .forS (.var _) _ none _ (_ :: _), _, h => by simp [simpleStmt] at h
  | .setBlock .., _, h => by simp [simpleStmt] at h
  | .filterBlock .., _, h => by simp [simpleStmt] at h
  | .macroS .., _, h => by simp [simpleStmt] at h
  | .callBlock .., _, h => by simp [simpleStmt] at h
  | .breakS, _, h => by simp [simpleStmt] at h
  | .continueS, _, h => by simp [simpleStmt] at h
theorem cBlock_eq_rel : ∀ (ss : List Stmt) (g : CG), simpleBlock ss = true →
    cBlock ss g = g.extend (relBlock ss g.next g.aux)
  | [], g, _ => by simp [cBlock, relBlock, CG.extend]
  | s :: rest, g, h => by
    have hs : simpleStmt s = true ∧ simpleBlock rest = true := by simpa [simpleBlock] using h
    simp only [cBlock, relBlock]
    rw [cStmt_eq_rel s g hs.1, cBlock_eq_rel rest _ hs.2]
    simp [CG.extend_extend]
end

end MJ.Compile
