import MJ.Proofs.CmpNumFloat
import MJ.Proofs.CmpNumEq
/-!
# Numbers incl. floats: `==` ⇔ `Equal` (NaN aside) and `==` ⇒ same hash item
-/
namespace MJ.CmpNum
open MJ MJ.Val MJ.Cmp MJ.F64 MJ.CmpEq

/-- within the range of its Rust type, and not a NaN -/
def NumOK (n : N) : Prop :=
  n.WF ∧ (match n with
    | .f64 b => isNaN b = false
    | _ => True)

theorem NumOK.wf {n : N} (h : NumOK n) : n.WF := h.1

theorem intWF_of_ok {n : N} (h : NumOK n) (hf : n.isFloat = false) : IntWF n := ⟨hf, h.1⟩

/-- `==` on a float and an integer of a given type -/
theorem eq_float_int (a : Nat) (ha : isNaN a = false) (x lo hi : Int) (t : IntTy lo hi) (hx : lo ≤ x ∧ x ≤ hi) :
    (match (match checkedF64 x lo hi false with
            | some y => some (Co.f a y)
            | Option.none => Option.none) with
      | some (.f p q) => feq p q
      | some (.i p q) => p == q
      | Option.none => false) = true ↔ F64.key a = x * (scale : Int) := by
  cases hc : checkedF64 x lo hi false with
  | none =>
    simp only [Bool.false_eq_true, false_iff]
    intro hk
    have := (checked_of_exact x lo hi (t.xlog hx) t.hiLog hx t.hiR a hk).1
    rw [hc] at this; cases this
  | some y =>
    obtain ⟨hy, hk⟩ := checked_exact x lo hi (t.xlog hx) t.hiLog t.loR y hc
    show feq a y = true ↔ _
    have ny : isNaN y = false := by rw [hy]; exact (ofInt_spec x (t.xlog hx)).1
    unfold feq
    rw [ha, ny, hk]
    simp

theorem eq_int_float (b : Nat) (hb : isNaN b = false) (x lo hi : Int) (t : IntTy lo hi) (hx : lo ≤ x ∧ x ≤ hi) :
    (match (match checkedF64 x lo hi false with
            | some y => some (Co.f y b)
            | Option.none => Option.none) with
      | some (.f p q) => feq p q
      | some (.i p q) => p == q
      | Option.none => false) = true ↔ x * (scale : Int) = F64.key b := by
  cases hc : checkedF64 x lo hi false with
  | none =>
    simp only [Bool.false_eq_true, false_iff]
    intro hk
    have := (checked_of_exact x lo hi (t.xlog hx) t.hiLog hx t.hiR b hk.symm).1
    rw [hc] at this; cases this
  | some y =>
    obtain ⟨hy, hk⟩ := checked_exact x lo hi (t.xlog hx) t.hiLog t.loR y hc
    show feq y b = true ↔ _
    have ny : isNaN y = false := by rw [hy]; exact (ofInt_spec x (t.xlog hx)).1
    unfold feq
    rw [hb, ny, hk]
    simp

/-- `==` on numbers is equality of the exact values -/
theorem eqN_iff_key (x y : N) (hx : NumOK x) (hy : NumOK y) :
    eqN x y = true ↔ CmpKey.numKey x = CmpKey.numKey y := by
  by_cases fx : x.isFloat = false
  · by_cases fy : y.isFloat = false
    · rw [eqN_int x y (intWF_of_ok hx fx) (intWF_of_ok hy fy)]
      have kx : CmpKey.numKey x = x.int * (scale : Int) := by
        cases x <;> simp only [N.isFloat, reduceCtorEq] at fx <;> rfl
      have ky : CmpKey.numKey y = y.int * (scale : Int) := by
        cases y <;> simp only [N.isFloat, reduceCtorEq] at fy <;> rfl
      rw [kx, ky]
      exact ⟨fun h => by rw [h], mul_scale_inj⟩
    · cases y <;> simp only [N.isFloat, reduceCtorEq, not_true_eq_false, not_false_eq_true] at fy
      rename_i b
      have hb : isNaN b = false := hy.2
      obtain ⟨wx, nx⟩ := hx
      clear nx
      cases x <;> simp only [N.isFloat, reduceCtorEq] at fx <;>
        simp only [N.WF] at wx <;>
        simp only [eqN, coerceN, N.asF64, CmpKey.numKey, N.int]
      · rename_i n; exact eq_int_float b hb n 0 u64Max ty_u64 ⟨by omega, wx⟩
      · rename_i n; exact eq_int_float b hb n i64Min i64Max ty_i64 wx
      · rename_i n; exact eq_int_float b hb n 0 u128Max ty_u128 ⟨by omega, wx⟩
      · rename_i n; exact eq_int_float b hb n i128Min i128Max ty_i128 wx
  · cases x <;> simp only [N.isFloat, reduceCtorEq, not_true_eq_false, not_false_eq_true] at fx
    rename_i a
    have ha : isNaN a = false := hx.2
    obtain ⟨wy, ny⟩ := hy
    cases y <;> simp only [N.WF] at wy <;>
      simp only [eqN, coerceN, N.asF64, CmpKey.numKey, N.int]
    · rename_i n; exact eq_float_int a ha n 0 u64Max ty_u64 ⟨by omega, wy⟩
    · rename_i n; exact eq_float_int a ha n i64Min i64Max ty_i64 wy
    · rename_i n; exact eq_float_int a ha n 0 u128Max ty_u128 ⟨by omega, wy⟩
    · rename_i n; exact eq_float_int a ha n i128Min i128Max ty_i128 wy
    · rename_i b
      have hb : isNaN b = false := ny
      unfold feq; rw [ha, hb]; simp

theorem eqSpec_ok : EqSpec NumOK := by
  intro x y hx hy
  rw [eqN_iff_key x y hx hy, numSpec_wf x y hx.1 hy.1, Int.compare_eq_eq]

/-! ## hashing -/

theorem bits_of_sign_mag (a : Nat) (ha : a < P64) : a = (if sign a then P63 else 0) + mag a := by
  unfold sign mag
  rw [Nat.mod_eq_of_lt ha]
  unfold P63 P64 at *
  by_cases h : 9223372036854775808 ≤ a
  · simp only [h, decide_true, if_true]; omega
  · simp only [h, decide_false, Bool.false_eq_true, if_false]; omega

/-- two bit patterns with the same non-zero value are the same pattern -/
theorem bits_eq_of_key_eq (a b : Nat) (ha : a < P64) (hb : b < P64) (h : F64.key a = F64.key b)
    (hnz : F64.key a ≠ 0) : a = b := by
  have hm := mag_eq_of_key_eq h
  have hs : sign a = sign b := by
    unfold F64.key scaled at h hnz
    rw [hm] at h hnz
    cases ha' : sign a <;> cases hb' : sign b <;> simp only [ha', hb', Bool.false_eq_true, if_false, if_true] at h hnz ⊢ <;> omega
  rw [bits_of_sign_mag a ha, bits_of_sign_mag b hb, hm, hs]

/-- a float whose value is an integer in the `i64` range hashes like that integer -/
theorem hkeyN_float_i64 (a : Nat) (z : Int) (hk : F64.key a = z * (scale : Int))
    (hz : i64Min ≤ z ∧ z ≤ i64Max) : hkeyN (.f64 a) = .i64 z := by
  have hlog : z.natAbs.log2 < 1000 := ty_i64.xlog hz
  obtain ⟨n1, f1, k1⟩ := ofInt_spec z hlog
  have hr : rndI z = z := by
    have p := rndI_above z a (Int.le_of_eq hk.symm)
    have q := rndI_below z a (Int.le_of_eq hk)
    rw [hk] at p q
    have := mul_scale_le.mp p; have := mul_scale_le.mp q; omega
  rw [hr] at k1
  obtain ⟨e1, e2⟩ := nan_fin_of_key_eq (hk.trans k1.symm)
  have hcast : castInt i64Min i64Max a = z := by
    rw [castInt_of_int_valued i64Min i64Max a z (by rw [e1]; exact n1) (by rw [e2]; exact f1) hk]
    rw [if_neg (by omega), if_neg (by omega)]
  obtain ⟨nm, _, km⟩ := ofInt_spec i64Max (by decide)
  have rmax : rndI i64Max = i64Max + 1 := by decide
  have h1 : feq (ofInt z) a = true := by
    unfold feq; rw [n1, e1, n1, k1, hk]; simp
  have h2 : flt a (ofInt i64Max) = true := by
    unfold flt; rw [e1, n1, nm, km, rmax, hk]
    simp only [Bool.not_false, Bool.true_and, decide_eq_true_eq]
    rw [mul_scale_lt]; omega
  unfold hkeyN N.toI64 N.tryInt f64ToI64
  simp only [hcast, h1, h2, Bool.and_self, if_true]
  rw [if_pos hz]

/-- any other float feeds its bit pattern -/
theorem hkeyN_float_other (a : Nat) (h : ∀ z : Int, i64Min ≤ z ∧ z ≤ i64Max → F64.key a ≠ z * (scale : Int)) :
    hkeyN (.f64 a) = .bits (some a) := by
  have hnone : f64ToI64 a = Option.none := by
    unfold f64ToI64
    simp only
    split
    · rename_i hc
      exfalso
      simp only [Bool.and_eq_true] at hc
      obtain ⟨c1, c2⟩ := hc
      -- c := the saturated cast lies in the i64 range
      have hcr : i64Min ≤ castInt i64Min i64Max a ∧ castInt i64Min i64Max a ≤ i64Max := by
        unfold castInt
        have : i64Min ≤ i64Max := by decide
        split
        · decide
        · split
          · split <;> omega
          · simp only; split
            · omega
            · split <;> omega
      generalize castInt i64Min i64Max a = c at *
      obtain ⟨n1, f1, k1⟩ := ofInt_spec c (ty_i64.xlog hcr)
      obtain ⟨nm, _, km⟩ := ofInt_spec i64Max (by decide)
      obtain ⟨_, _, kmin⟩ := ofInt_spec i64Min (by decide)
      have rmax : rndI i64Max = i64Max + 1 := by decide
      have rmin : rndI i64Min = i64Min := by decide
      unfold feq at c1
      simp only [n1, Bool.not_false, Bool.true_and, Bool.and_eq_true, decide_eq_true_eq] at c1
      obtain ⟨na, hkey⟩ := c1
      unfold flt at c2
      simp only [nm, Bool.not_false, Bool.and_eq_true, decide_eq_true_eq] at c2
      have hlt := c2.2
      rw [← hkey, k1, km, rmax, mul_scale_lt] at hlt
      have hlow : i64Min ≤ rndI c := by
        have := rndI_below c (ofInt i64Min) (by rw [kmin, rmin, mul_scale_le]; exact hcr.1)
        rw [kmin, rmin, mul_scale_le] at this; exact this
      exact h (rndI c) ⟨hlow, by omega⟩ (by rw [← hkey, k1])
    · rfl
  unfold hkeyN N.toI64 N.tryInt
  simp only [hnone, N.asF64]

/-- the hash item of a number is determined by its exact value -/
theorem hashSpec_ok : HashSpec NumOK := by
  intro x y hx hy he
  have hk := (eqN_iff_key x y hx hy).mp he
  by_cases fx : x.isFloat = false
  · by_cases fy : y.isFloat = false
    · exact hashSpec_int x y (intWF_of_ok hx fx) (intWF_of_ok hy fy) he
    · cases y <;> simp only [N.isFloat, reduceCtorEq, not_true_eq_false, not_false_eq_true] at fy
      rename_i b
      have wb : b < P64 := hy.1
      have kx : CmpKey.numKey x = x.int * (scale : Int) := by
        cases x <;> simp only [N.isFloat, reduceCtorEq] at fx <;> rfl
      rw [kx] at hk
      have hk' : F64.key b = x.int * (scale : Int) := hk.symm
      rw [hkeyN_int x (intWF_of_ok hx fx)]
      by_cases hr : i64Min ≤ x.int ∧ x.int ≤ i64Max
      · rw [if_pos hr, hkeyN_float_i64 b x.int hk' hr]
      · rw [if_neg hr, hkeyN_float_other b (fun z hz hkz => hr (by rw [hk'] at hkz; rw [mul_scale_inj hkz]; exact hz))]
        congr 2
        -- `x as f64` is the very bit pattern `b`
        have hx128 : x.int.natAbs.log2 < 1000 := by
          apply log2_small
          have w := hx.1
          cases x <;> simp only [N.isFloat, reduceCtorEq] at fx <;>
            simp only [N.WF, N.int, u64Max, i64Min, i64Max, u128Max, i128Min, i128Max] at w ⊢ <;> omega
        obtain ⟨_, _, k1⟩ := ofInt_spec x.int hx128
        have hrr : rndI x.int = x.int := by
          have p := rndI_above x.int b (Int.le_of_eq hk'.symm)
          have q := rndI_below x.int b (Int.le_of_eq hk')
          rw [hk'] at p q
          have := mul_scale_le.mp p; have := mul_scale_le.mp q; omega
        rw [hrr] at k1
        have hnz : x.int ≠ 0 := by
          intro h0; apply hr; rw [h0]; decide
        have hlt : ofInt x.int < P64 := by
          have h1 := (ofNat_spec x.int.natAbs hx128).1
          unfold ofInt; split
          · have : infMag < P63 := infMag_lt_P63
            unfold P63 P64 at *; omega
          · have : infMag < P63 := infMag_lt_P63
            unfold P63 P64 at *; omega
        apply bits_eq_of_key_eq _ _ hlt wb (k1.trans hk'.symm)
        rw [k1]
        intro h0
        have : x.int * (scale : Int) = 0 * (scale : Int) := by rw [h0]; simp
        exact hnz (mul_scale_inj this)
  · cases x <;> simp only [N.isFloat, reduceCtorEq, not_true_eq_false, not_false_eq_true] at fx
    rename_i a
    have wa : a < P64 := hx.1
    by_cases fy : y.isFloat = false
    · have ky : CmpKey.numKey y = y.int * (scale : Int) := by
        cases y <;> simp only [N.isFloat, reduceCtorEq] at fy <;> rfl
      rw [ky] at hk
      have hk' : F64.key a = y.int * (scale : Int) := hk
      rw [hkeyN_int y (intWF_of_ok hy fy)]
      by_cases hr : i64Min ≤ y.int ∧ y.int ≤ i64Max
      · rw [if_pos hr, hkeyN_float_i64 a y.int hk' hr]
      · rw [if_neg hr, hkeyN_float_other a (fun z hz hkz => hr (by rw [hk'] at hkz; rw [mul_scale_inj hkz]; exact hz))]
        congr 2
        have hy128 : y.int.natAbs.log2 < 1000 := by
          apply log2_small
          have w := hy.1
          cases y <;> simp only [N.isFloat, reduceCtorEq] at fy <;>
            simp only [N.WF, N.int, u64Max, i64Min, i64Max, u128Max, i128Min, i128Max] at w ⊢ <;> omega
        obtain ⟨_, _, k1⟩ := ofInt_spec y.int hy128
        have hrr : rndI y.int = y.int := by
          have p := rndI_above y.int a (Int.le_of_eq hk'.symm)
          have q := rndI_below y.int a (Int.le_of_eq hk')
          rw [hk'] at p q
          have := mul_scale_le.mp p; have := mul_scale_le.mp q; omega
        rw [hrr] at k1
        have hnz : y.int ≠ 0 := by
          intro h0; apply hr; rw [h0]; decide
        have hlt : ofInt y.int < P64 := by
          have h1 := (ofNat_spec y.int.natAbs hy128).1
          unfold ofInt; split
          · have : infMag < P63 := infMag_lt_P63
            unfold P63 P64 at *; omega
          · have : infMag < P63 := infMag_lt_P63
            unfold P63 P64 at *; omega
        symm
        apply bits_eq_of_key_eq _ _ hlt wa (k1.trans hk'.symm)
        rw [k1]
        intro h0
        have : y.int * (scale : Int) = 0 * (scale : Int) := by rw [h0]; simp
        exact hnz (mul_scale_inj this)
    · cases y <;> simp only [N.isFloat, reduceCtorEq, not_true_eq_false, not_false_eq_true] at fy
      rename_i b
      have wb : b < P64 := hy.1
      have hk' : F64.key a = F64.key b := hk
      by_cases hz : ∃ z : Int, (i64Min ≤ z ∧ z ≤ i64Max) ∧ F64.key a = z * (scale : Int)
      · obtain ⟨z, hz1, hz2⟩ := hz
        rw [hkeyN_float_i64 a z hz2 hz1, hkeyN_float_i64 b z (hk'.symm.trans hz2) hz1]
      · have ha' : ∀ z : Int, i64Min ≤ z ∧ z ≤ i64Max → F64.key a ≠ z * (scale : Int) :=
          fun z h1 h2 => hz ⟨z, h1, h2⟩
        rw [hkeyN_float_other a ha', hkeyN_float_other b (fun z h1 h2 => ha' z h1 (hk'.trans h2))]
        congr 2
        apply bits_eq_of_key_eq a b wa wb hk'
        intro h0
        exact ha' 0 (by decide) (by rw [h0]; simp)

end MJ.CmpNum
