import MJ.Proofs.LexerFind
/-! The declarative specification of the start-marker search ("leftmost start, then longest
pattern, line statement prefix only at line start") determines the search: any function that meets
it is `findLL`. -/
namespace MJ.Lexer

/-- reversed source prefix at offset `i` of `rest` -/
def preAt (pre rest : List Char) (i : Nat) : List Char := (rest.take i).reverse ++ pre

/-- `find` returns the leftmost offset at which some start delimiter matches (`matchAt` = the
    longest one there, a line statement prefix counting only at line start), or `none` when there
    is no such offset -/
def LeftmostLongest (d : Delims) (find : FindStart) : Prop :=
  ∀ pre rest,
    match find pre rest with
    | none => ∀ i, i < rest.length → matchAt d (preAt pre rest i) (rest.drop i) = none
    | some (i, m, n) =>
      i < rest.length ∧ matchAt d (preAt pre rest i) (rest.drop i) = some (m, n) ∧
        ∀ j, j < i → matchAt d (preAt pre rest j) (rest.drop j) = none

theorem preAt_succ (pre : List Char) (c : Char) (r : List Char) (i : Nat) :
    preAt pre (c :: r) (i + 1) = preAt (c :: pre) r i := by
  simp [preAt]

theorem findLL_leftmostLongest (d : Delims) : LeftmostLongest d (findLL d) := by
  intro pre rest
  induction rest generalizing pre with
  | nil => simp [findLL]
  | cons c r ih =>
    rw [findLL]
    cases hm : matchAt d pre (c :: r) with
    | some mn =>
      obtain ⟨m, n⟩ := mn
      simp only []
      refine ⟨by simp, by simpa [preAt] using hm, by intro j hj; omega⟩
    | none =>
      simp only []
      have := ih (c :: pre)
      cases hf : findLL d (c :: pre) r with
      | none =>
        rw [hf] at this
        simp only [shift]
        intro i hi
        cases i with
        | zero => simpa [preAt] using hm
        | succ i =>
          rw [preAt_succ]
          exact this i (by simpa using hi)
      | some x =>
        obtain ⟨i, m, n⟩ := x
        rw [hf] at this
        simp only [shift]
        obtain ⟨h1, h2, h3⟩ := this
        refine ⟨by simpa using h1, by rw [preAt_succ]; exact h2, ?_⟩
        intro j hj
        cases j with
        | zero => simpa [preAt] using hm
        | succ j =>
          rw [preAt_succ]
          exact h3 j (by omega)

/-- the specification is functional -/
theorem leftmostLongest_unique {d : Delims} {find : FindStart} (h : LeftmostLongest d find) :
    find = findLL d := by
  funext pre rest
  have h1 := h pre rest
  have h2 := findLL_leftmostLongest d pre rest
  cases hf : find pre rest with
  | none =>
    rw [hf] at h1
    cases hg : findLL d pre rest with
    | none => rfl
    | some x =>
      obtain ⟨i, m, n⟩ := x
      rw [hg] at h2
      have := h1 i h2.1
      rw [h2.2.1] at this; cases this
  | some x =>
    obtain ⟨i, m, n⟩ := x
    rw [hf] at h1
    cases hg : findLL d pre rest with
    | none =>
      rw [hg] at h2
      have := h2 i h1.1
      rw [h1.2.1] at this; cases this
    | some y =>
      obtain ⟨i', m', n'⟩ := y
      rw [hg] at h2
      have hi : i = i' := by
        rcases Nat.lt_trichotomy i i' with hlt | heq | hgt
        · have := h2.2.2 i hlt; rw [h1.2.1] at this; cases this
        · exact heq
        · have := h1.2.2 i' hgt; rw [h2.2.1] at this; cases this
      subst hi
      have := h1.2.1
      rw [h2.2.1] at this
      cases this
      rfl

end MJ.Lexer
