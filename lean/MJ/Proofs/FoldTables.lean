import MJ.Model.Fold
import MJ.Gen.Tables
/-!
# C04: the model's operator tables are the ones in the source

`lib/tables/c04.py` regenerates, on every run, the operator tables of the folder (`eval_binop`,
`eval_compare`, the unary arm of `as_const`), of the code generator (`compile_bin_op`, `sc_bool`,
`emit_compare`, `compare_op`) and of the VM (`func_binop!`/`op_binop!` instructions, the arms of
`CompareAndPreserve`) into `MJ.Gen`.  Here the tags of those tables are given their meaning and the
model's functions are proved to be *equal to the interpreted tables*: an arm that changes in the
source changes the table and these theorems stop compiling.
-/
namespace MJ.Fold.Tables
open MJ.Fold

def lookup (t : List (String × List String)) (k : String) : List String :=
  ((t.find? (·.1 == k)).map (·.2)).getD []

/-- single-word tags (instruction / `CompareOp` names) -/
def lookup1 (t : List (String × List String)) (k : String) : String :=
  match lookup t k with
  | [x] => x
  | _ => "?"

/-- the Rust name of a model operator -/
def rustBin : BinOp → String
  | .eq => "Eq" | .ne => "Ne" | .lt => "Lt" | .le => "Lte" | .gt => "Gt" | .ge => "Gte"
  | .and => "ScAnd" | .or => "ScOr" | .add => "Add" | .sub => "Sub" | .mul => "Mul" | .div => "Div"
  | .fdiv => "FloorDiv" | .rem => "Rem" | .pow => "Pow" | .cat => "Concat" | .in_ => "In"

def rustCmp : CmpOp → String
  | .eq => "Eq" | .ne => "Ne" | .lt => "Lt" | .le => "Lte" | .gt => "Gt" | .ge => "Gte"
  | .in_ => "In" | .notIn => "NotIn"

/-- all model operators, in the order of the Rust enums -/
def allBinOps : List BinOp :=
  [.eq, .ne, .lt, .le, .gt, .ge, .and, .or, .add, .sub, .mul, .div, .fdiv, .rem, .pow, .cat, .in_]
def allCmpOps : List CmpOp := [.eq, .ne, .lt, .le, .gt, .ge, .in_, .notIn]

section
variable (P : Prims)

/-- `a ⋈ b` on `Value` for the operator token `⋈` -/
def relOf (tok : String) : Option (V → V → Bool) :=
  match tok with
  | "==" => some P.eq
  | "!=" => some fun a b => !P.eq a b
  | "<" => some (ltV P)
  | "<=" => some (leV P)
  | ">" => some (gtV P)
  | ">=" => some (geV P)
  | _ => none

/-- `ops::<name>` -/
def opsOf (name : String) : Option (V → V → Except Err V) :=
  match name with
  | "add" => some P.add
  | "sub" => some P.sub
  | "mul" => some P.mul
  | "div" => some P.div
  | "int_div" => some P.fdiv
  | "rem" => some P.rem
  | "pow" => some P.pow
  | "contains" => some P.contains
  | _ => none

/-- meaning of a right-hand side of `eval_binop` / `eval_compare` -/
def interpFold (tag : List String) (l r : V) : Option V :=
  match tag with
  | ["ops", name, "lr"] => (opsOf P name).bind fun f => Except.toOpt (f l r)
  | ["ops", name, "rl"] => (opsOf P name).bind fun f => Except.toOpt (f r l)
  | ["concat", "lr"] => some (P.concat l r)
  | ["cmp", tok] => (relOf P tok).map fun f => .bool (f l r)
  | ["sel", "l?r", "l"] => some (if P.isTrue l then r else l)
  | ["sel", "l?l", "r"] => some (if P.isTrue l then l else r)
  | ["notcontains", "rl"] => (Except.toOpt (P.contains r l)).map fun v => .bool (!P.isTrue v)
  | _ => none

variable (m : Mode)

/-- meaning of a VM instruction applied to the two popped operands (`a` pushed first), through the
    `func_binop!`/`op_binop!` table; `StringConcat` and `In` have hand-written handlers -/
def interpInstr (instr : String) (a b : V) : Option (Except Err V) :=
  if instr = "StringConcat" then
    some (match assertDefined m a with
      | .error e => .error e
      | .ok _ => match assertDefined m b with
        | .error e => .error e
        | .ok _ => .ok (P.concat a b))
  else if instr = "In" then some (inInstr P m a b)
  else match lookup MJ.Gen.vmBinopTable instr with
    | ["func", name] => (opsOf P name).map fun f => f a b
    | ["op", tok] => (relOf P tok).map fun f => opBinop m f a b
    | _ => none

/-- `emit_compare`: one instruction, optionally followed by `Not` -/
def interpEmit (tag : List String) (a b : V) : Option (Except Err V) :=
  match tag with
  | [instr] => interpInstr P m instr a b
  | [instr, "Not"] => (interpInstr P m instr a b).map fun r => match r with
    | .error e => .error e
    | .ok v => notInstr P m v
  | _ => none

/-- an arm of `CompareAndPreserve` -/
def interpCap (tag : List String) (a b : V) : Option (Except Err Bool) :=
  match tag with
  | ["op", tok] => (relOf P tok).map fun f =>
    match assertDefined m a with
    | .error e => .error e
    | .ok _ => match assertDefined m b with
      | .error e => .error e
      | .ok _ => .ok (f a b)
  | ["contains", "ba"] => some (
    match assertDefined m b with
    | .error e => .error e
    | .ok _ => match assertDefined m a with
      | .error e => .error e
      | .ok _ => match P.contains b a with
        | .error e => .error e
        | .ok v => .ok (P.isTrue v))
  | ["contains", "ba", "not"] => some (
    match assertDefined m b with
    | .error e => .error e
    | .ok _ => match assertDefined m a with
      | .error e => .error e
      | .ok _ => match P.contains b a with
        | .error e => .error e
        | .ok v => .ok (!P.isTrue v))
  | _ => none

/-! ## the theorems -/

/-- same elements, any order -/
def sameSet (xs ys : List String) : Bool := xs.all (ys.contains ·) && ys.all (xs.contains ·)

/-- the model has exactly the operators of the Rust enums, and the folder tables have a row for
    exactly those operators (so an operator added to the source breaks this theorem) -/
theorem operators_complete :
    sameSet MJ.Gen.binOpKinds (allBinOps.map rustBin) = true ∧
    sameSet MJ.Gen.compareOpKinds (allCmpOps.map rustCmp) = true ∧
    sameSet MJ.Gen.unaryOpKinds ["Not", "Neg"] = true ∧
    sameSet (MJ.Gen.foldBinopTable.map (·.1)) (allBinOps.map rustBin) = true ∧
    sameSet (MJ.Gen.foldCompareTable.map (·.1)) (allCmpOps.map rustCmp) = true ∧
    lookup MJ.Gen.foldUnaryTable "Not" = ["not", "is_true"] ∧ lookup MJ.Gen.foldUnaryTable "Neg" = ["ops", "neg"] := by
  decide

/-- `evalBinop` is `eval_binop` as found in the source -/
theorem evalBinop_from_source (op : BinOp) (l r : V) :
    evalBinop P op l r = interpFold P (lookup MJ.Gen.foldBinopTable (rustBin op)) l r := by
  cases op <;> rfl

/-- `evalCompare` is `eval_compare` as found in the source -/
theorem evalCompare_from_source (op : CmpOp) (l r : V) :
    evalCompare P op l r = interpFold P (lookup MJ.Gen.foldCompareTable (rustCmp op)) l r := by
  cases op <;> rfl

/-- `and`/`or` compile to the jump instructions the model's `evalRt` implements -/
theorem short_circuit_from_source :
    lookup1 MJ.Gen.codegenBinopTable (rustBin .and) = "JumpIfFalseOrPop" ∧
    lookup1 MJ.Gen.codegenBinopTable (rustBin .or) = "JumpIfTrueOrPop" := by
  decide

/-- `binInstr` is the instruction `compile_bin_op` selects, with the meaning the VM gives it -/
theorem binInstr_from_source (op : BinOp) (hand : op ≠ .and) (hor : op ≠ .or) (a b : V) :
    some (binInstr P m op a b) = interpInstr P m (lookup1 MJ.Gen.codegenBinopTable (rustBin op)) a b := by
  cases op <;> first | contradiction | rfl

/-- `finalCompare` is `emit_compare` -/
theorem finalCompare_from_source (op : CmpOp) (a b : V) :
    some (finalCompare P m op a b) = interpEmit P m (lookup MJ.Gen.emitCompareTable (rustCmp op)) a b := by
  cases op <;> rfl

/-- `compareAndPreserve` is `compare_op` followed by the matching arm of `CompareAndPreserve` -/
theorem compareAndPreserve_from_source (op : CmpOp) (a b : V) :
    some (compareAndPreserve P m op a b) =
      interpCap P m (lookup MJ.Gen.vmCompareAndPreserveTable (lookup1 MJ.Gen.compareOpTable (rustCmp op))) a b := by
  cases op <;> rfl

/-! ## the traversal: which expression variants are folded at all -/

/-- the Rust variant a model expression stands for -/
def rustVariant : Expr → String
  | .const _ => "Const" | .var _ => "Var" | .list _ => "List" | .tuple _ => "Tuple" | .map _ => "Map"
  | .not _ | .neg _ => "UnaryOp" | .bin .. => "BinOp" | .cmp .. => "Compare"
  | .getAttr .. => "GetAttr" | .getItem .. => "GetItem" | .slice .. => "Slice" | .ifExpr .. => "IfExpr"
  | .filter .. => "Filter" | .test .. => "Test" | .call .. => "Call"
  | .callx .filter .. => "Filter" | .callx .test .. => "Test" | .callx .. => "Call"

/-- variants the model never folds -/
def unfoldedVariants : List String := ["Var", "Slice", "IfExpr", "Filter", "Test", "GetAttr", "GetItem", "Call"]

/-- variants for which the model has a folding rule -/
def foldRules : List String := ["Const", "List", "Tuple", "Map", "UnaryOp", "BinOp", "Compare"]

/-- Every arm of `Expr::as_const` is a variant the model has a folding rule for (a NEWLY folded
    variant breaks this theorem; an arm that disappears is harmless - the model's folder dispatches
    over the regenerated list and simply stops folding that variant too); constants are always
    loaded (`compile_expr` relies on it: `Expr::Const => unreachable!()`); the model knows every
    variant of `enum Expr`; the code generator evaluates at compile time only in the places the model
    knows (`as_const` first, the `Neg` shortcut, static keyword arguments - the model dispatches over
    this list as well) and calls `as_const` from exactly one place. -/
theorem traversal_from_source :
    MJ.Gen.asConstArms.all (foldRules.contains ·) = true ∧
    MJ.Gen.asConstArms.contains "Const" = true ∧
    sameSet MJ.Gen.exprVariants (foldRules ++ unfoldedVariants) = true ∧
    MJ.Gen.codegenSpecials.all (["fold-first", "neg-const-shortcut", "static-kwargs", "static-kwargs-off-for-caller",
      "caller-forces-kwargs", "caller-appended-last"].contains ·) = true ∧
    MJ.Gen.codegenSpecials.contains "fold-first" = true ∧
    MJ.Gen.codegenAsConstUses = 1 := by
  decide

/-- Who reaches the const-sensitive keyword-argument code, regenerated from `codegen.rs`:
    `compile_call_args` is called with a caller only by `compile_call` (which forwards its own),
    filters, tests and the `loop(...)` fast path pass `None`; `compile_call` gets `Some(caller)` only
    from `compile_call_block`, `None` from expressions and `{% do %}`.  So the call-block form
    modelled by `evalCallBlockC` is the only place where static keyword arguments meet a caller; a
    new call site with a caller breaks this theorem. -/
theorem call_sites_from_source :
    MJ.Gen.callArgsSites.all (fun r => r.2.getLast? == some "None" || (r.1 == "compile_call" && r.2.getLast? == some "caller")) = true ∧
    MJ.Gen.callSites.all (fun r => r.2 == ["None"] || r == ("compile_call_block", ["Some"])) = true ∧
    MJ.Gen.callSites.contains ("compile_call_block", ["Some"]) = true := by
  decide

/-- The sites of `codegen.rs` that can put a value into the instruction stream (`LoadConst`) and the
    sites that look at the literal-ness of an operand (`ast::Expr::Const/List/Tuple/Map` patterns), as
    the model knows them: `constsC` has one rule per `compile_expr`/`compile_call_args` row; the rows of
    `compile_for_loop` (loop filter counter), `compile_macro_expression` (macro object) and `"caller"` are
    statement-level and carry no user literal. -/
def knownLoadConstSites : List (String × String) := [
  ("compile_expr", "v.clone()"),                                          -- fold first
  ("compile_expr", "negated"),                                            -- `Neg` shortcut
  ("compile_expr", "Value::from(())"),                                    -- missing slice bound
  ("compile_expr", "ValueRepr::Undefined(UndefinedType::Silent).into()"), -- missing `else`
  ("compile_call_args", "Kwargs::wrap(collected_kwargs)"),                -- static keyword arguments
  ("compile_call_args", "Value::from(*key)"),                             -- dynamic keyword name
  ("compile_call_args", "Value::from(\"caller\")"),
  ("compile_for_loop", "Value::from(0usize)"),
  ("compile_for_loop", "Value::from(1usize)"),
  ("compile_macro_expression", "Value::from_object( macro_decl .args .iter() .map(|x| match ")]

def knownLiteralMatchSites : List (String × String) := [
  ("compile_expr", "Const:2"),          -- `unreachable!()` arm, `Neg` shortcut
  ("compile_expr", "List:1"), ("compile_expr", "Tuple:1"), ("compile_expr", "Map:1"),   -- the arms that build them
  ("compile_call_args", "Const:2"),     -- static keyword arguments: the test and the collection
  ("compile_assignment", "List:1")]     -- unpacking targets

/-- No other place of the code generator precomputes a value or inspects whether an operand is a
    literal: an operator-specific constant rewriting (a lookup table for `in`, a pre-joined string, …)
    adds a `LoadConst` site or a literal pattern and breaks this theorem. -/
theorem const_sites_from_source :
    MJ.Gen.loadConstSites.all (knownLoadConstSites.contains ·) = true ∧
    MJ.Gen.literalMatchSites.all (knownLiteralMatchSites.contains ·) = true := by
  decide

/-! ## statements: every statement list is compiled, unconditionally -/

/-- the statement-list fields of the AST, each with the loop of `codegen.rs` that compiles it
    (`for node in &<var>.<field> { self.compile_stmt(node); }` in the named function) -/
def stmtLists : List ((String × String) × (String × String)) := [
  (("Template", "children"), ("compile_stmt", "t.children")),
  (("ForLoop", "body"), ("compile_for_loop", "for_loop.body")),
  (("ForLoop", "else_body"), ("compile_for_loop", "for_loop.else_body")),
  (("IfCond", "true_body"), ("compile_if_stmt", "if_cond.true_body")),
  (("IfCond", "false_body"), ("compile_if_stmt", "if_cond.false_body")),
  (("WithBlock", "body"), ("compile_stmt", "with_block.body")),
  (("SetBlock", "body"), ("compile_stmt", "set_block.body")),
  (("Block", "body"), ("compile_block", "block.body")),
  (("AutoEscape", "body"), ("compile_stmt", "auto_escape.body")),
  (("FilterBlock", "body"), ("compile_stmt", "filter_block.body")),
  (("Macro", "body"), ("compile_macro_expression", "macro_decl.body"))]

/-- the conditions in the functions that compile statement lists: emptiness of an `else` list,
    presence of an optional head, loop bookkeeping - none looks at the VALUE of an expression -/
def knownStmtConds : List (String × String) := [
  ("compile_for_loop", "!for_loop.else_body.is_empty()"),
  ("compile_for_loop", "let Some(ref filter_expr) = for_loop.filter_expr"),
  ("compile_if_stmt", "!if_cond.false_body.is_empty()"),
  ("compile_macro_expression", "caller_reference"),
  ("compile_macro_expression", "let Some(&mut Instruction::Jump(ref mut target)) = self.instructions.g"),
  ("compile_macro_expression", "let Some(default) = defaults_iter.next()"),
  ("compile_stmt", "let &mut PendingBlock::Loop"),
  ("compile_stmt", "let PendingBlock::Loop"),
  ("compile_stmt", "let Some(ref filter) = set_block.filter")]

def sameSetP (xs ys : List (String × String)) : Bool := xs.all (ys.contains ·) && ys.all (xs.contains ·)

/-- Every `Vec<Stmt>` field of the AST is compiled by exactly one loop of the canonical shape, there
    is no other call of `compile_stmt`, and no condition around them depends on an expression's value:
    the traversal `registeredBlocks` of the model (every list, always) is the code generator's.  The
    seeded change C04-3 (`if let Some(cond) = if_cond.expr.as_const()` choosing the list) breaks all
    three conjuncts. -/
theorem stmt_traversal_from_source :
    sameSetP MJ.Gen.stmtListFields (stmtLists.map (·.1)) = true ∧
    sameSetP MJ.Gen.stmtCompileLoops (stmtLists.map (·.2)) = true ∧
    MJ.Gen.stmtCompileLoops.length = stmtLists.length ∧
    MJ.Gen.stmtCompileConds.all (knownStmtConds.contains ·) = true := by
  decide

/-- the model's folder dispatches over the table: a node other than a plain constant is folded only
    if the table it is given (for the concrete instance: the arms of `Expr::as_const` regenerated
    from the source) lists its variant -/
theorem asConst_dispatches_over_table (e : Expr) (h : asConst P e ≠ none) :
    rustVariant e = "Const" ∨ P.foldsVariant (rustVariant e) = true := by
  cases e
  case const => exact Or.inl rfl
  case var | getAttr | getItem | slice | ifExpr | filter | test | call | callx =>
    exfalso; apply h; simp [asConst]
  all_goals
    refine Or.inr ?_
    rw [asConst] at h
    unfold gate at h
    split at h
    · simpa [rustVariant] using ‹_›
    · exact absurd rfl h

end
end MJ.Fold.Tables
