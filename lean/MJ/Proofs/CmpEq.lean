import MJ.Proofs.CmpEqLemmas
/-!
# `==` ⇔ `cmp = Equal` and `==` ⇒ equal hash keys (BTreeMap-backed maps)

The structural part, parametric in what is known about numbers (`NumSpec`, `EqSpec`, `HashSpec` on
the numbers satisfying `P`).  Excluded regions are explicit decidable hypotheses:

* `noClash a b`: not (a bool somewhere in one value and a number somewhere in the other) — the
  engine's `true == 1` is `true` while `cmp` and `Hash` keep them apart;
* `allV mapSorted v`: every map inside `v` holds its keys in strictly increasing `cmpV` order, which
  is how a `BTreeMap<Value, _>` holds them.
-/
namespace MJ.CmpEq
open MJ MJ.Val MJ.Cmp MJ.CmpKey Std

/-! ## predicates over all sub-values -/

mutual
/-- `q` holds for the value and everything nested inside it -/
def allV (q : V → Bool) : V → Bool
  | .seq xs => q (.seq xs) && allL q xs
  | .tuple xs => q (.tuple xs) && allL q xs
  | .iter xs => q (.iter xs) && allL q xs
  | .map ps => q (.map ps) && allPL q ps
  | .undef => q .undef
  | .none => q .none
  | .bool b => q (.bool b)
  | .num n => q (.num n)
  | .str s => q (.str s)
  | .bytes s => q (.bytes s)
  | .plain s => q (.plain s)
def allL (q : V → Bool) : List V → Bool
  | [] => true
  | x :: xs => allV q x && allL q xs
def allPL (q : V → Bool) : List (V × V) → Bool
  | [] => true
  | (k, v) :: ps => allV q k && allV q v && allPL q ps
end

def notBool : V → Bool
  | .bool _ => false
  | _ => true
def notNum : V → Bool
  | .num _ => false
  | _ => true
/-- the keys of a map are strictly increasing (`BTreeMap` iteration order) -/
def mapSorted : V → Bool
  | .map ps => decide ((ps.map (·.1)).Pairwise (fun a b => cmpV a b = .lt))
  | _ => true

/-- no bool in one value facing a number in the other -/
def noClash (a b : V) : Bool :=
  (allV notBool a || allV notNum b) && (allV notNum a || allV notBool b)

theorem noClash_symm {a b : V} (h : noClash a b = true) : noClash b a = true := by
  unfold noClash at *
  simp only [Bool.and_eq_true, Bool.or_eq_true] at *
  exact ⟨h.2.symm, h.1.symm⟩

theorem allL_mem {q : V → Bool} : ∀ {xs : List V}, allL q xs = true → ∀ x ∈ xs, allV q x = true
  | [], _, x, hx => by simp at hx
  | y :: ys, h, x, hx => by
    rw [allL, Bool.and_eq_true] at h
    rcases List.mem_cons.mp hx with rfl | hx
    · exact h.1
    · exact allL_mem h.2 x hx

theorem allPL_mem {q : V → Bool} : ∀ {ps : List (V × V)}, allPL q ps = true →
    ∀ p ∈ ps, allV q p.1 = true ∧ allV q p.2 = true
  | [], _, p, hp => by simp at hp
  | (k, v) :: ps, h, p, hp => by
    rw [allPL, Bool.and_eq_true, Bool.and_eq_true] at h
    rcases List.mem_cons.mp hp with rfl | hp
    · exact ⟨h.1.1, h.1.2⟩
    · exact allPL_mem h.2 p hp

theorem AllNumL_mem {P : N → Prop} : ∀ {xs : List V}, AllNumL P xs → ∀ x ∈ xs, AllNum P x
  | [], _, x, hx => by simp at hx
  | y :: ys, h, x, hx => by
    rw [AllNumL] at h
    rcases List.mem_cons.mp hx with rfl | hx
    · exact h.1
    · exact AllNumL_mem h.2 x hx

theorem AllNumPL_mem {P : N → Prop} : ∀ {ps : List (V × V)}, AllNumPL P ps →
    ∀ p ∈ ps, AllNum P p.1 ∧ AllNum P p.2
  | [], _, p, hp => by simp at hp
  | (k, v) :: ps, h, p, hp => by
    rw [AllNumPL] at h
    rcases List.mem_cons.mp hp with rfl | hp
    · exact ⟨h.1, h.2.1⟩
    · exact AllNumPL_mem h.2.2 p hp

/-! ## the numeric parameters -/

/-- on numbers satisfying `P`: `==` exactly when the order says `Equal` -/
def EqSpec (P : N → Prop) : Prop := ∀ x y : N, P x → P y → (eqN x y = true ↔ cmpN x y = .eq)
/-- on numbers satisfying `P`: `==` numbers feed the same item to the hasher -/
def HashSpec (P : N → Prop) : Prop := ∀ x y : N, P x → P y → eqN x y = true → hkeyN x = hkeyN y

/-! ## small facts about `cmpV` -/

theorem cmpV_eq_cls {a b : V} (h : cmpV a b = .eq) : cls a = cls b := by
  apply cls_eq_of_rank_eq
  rw [cmpV.eq_def] at h
  by_cases hr : a.rank = b.rank
  · exact hr
  · rw [if_pos hr] at h
    exact absurd (Nat.compare_eq_eq.mp h) hr

theorem rank_eq_of_cls {a b : V} (h : cls a = cls b) : a.rank = b.rank := by
  rw [rank_cls, rank_cls, h]

theorem cmpBytes_eq_iff (x y : List Nat) : cmpBytes x y = .eq ↔ x = y := by
  unfold cmpBytes
  exact LawfulEqCmp.compare_eq_iff_eq

instance transCmp_on {β γ : Type} (cmp : γ → γ → Ordering) [TransCmp cmp] (f : β → γ) :
    TransCmp (fun a b => cmp (f a) (f b)) where
  eq_swap := OrientedCmp.eq_swap
  isLE_trans := TransCmp.isLE_trans

theorem findB_true_exists (m : Mode) (k v1 : V) (qs : List (V × V)) (h : findB m k v1 qs = true) :
    ∃ q ∈ qs, cmpV k q.1 = .eq ∧ eqV m q.2 v1 = true := by
  obtain ⟨pre, q, post, hq, _, hk, he⟩ := (findB_true_iff m k v1 qs).mp h
  exact ⟨q, by rw [hq]; simp, hk, he⟩

theorem findB_of_unique (m : Mode) (k v1 : V) : ∀ (qs : List (V × V)) (q : V × V), q ∈ qs →
    cmpV k q.1 = .eq → eqV m q.2 v1 = true → (∀ q' ∈ qs, cmpV k q'.1 = .eq → q' = q) →
    findB m k v1 qs = true
  | [], q, hq, _, _, _ => by simp at hq
  | (k', v') :: qs, q, hq, hk, he, hu => by
    rw [findB]
    by_cases h : cmpV k k' = .eq
    · rw [if_pos h]
      have := hu (k', v') List.mem_cons_self h
      rw [← this] at he; exact he
    · rw [if_neg h]
      rcases List.mem_cons.mp hq with rfl | hq'
      · exact absurd hk h
      · exact findB_of_unique m k v1 qs q hq' hk he
          (fun q' hq'' hk' => hu q' (List.mem_cons_of_mem _ hq'') hk')

theorem All2.exists_right {α β : Type} {R : α → β → Prop} {xs : List α} {ys : List β}
    (h : All2 R xs ys) : ∀ x ∈ xs, ∃ y ∈ ys, R x y := by
  induction h with
  | nil => intro x hx; simp at hx
  | cons hr _ ih =>
    intro x hx
    rcases List.mem_cons.mp hx with rfl | hx
    · exact ⟨_, List.mem_cons_self, hr⟩
    · obtain ⟨y, hy, hxy⟩ := ih x hx
      exact ⟨y, List.mem_cons_of_mem _ hy, hxy⟩

/-! ## the main induction -/

section main
variable {P : N → Prop} (hN : NumSpec P) (hE : EqSpec P) (hH : HashSpec P)

/-- what is shown for a pair of values -/
def Goal (a b : V) : Prop :=
  (eqV .btree a b = true ↔ cmpV a b = .eq) ∧ (eqV .btree a b = true → hkey a = hkey b)

/-- the hypotheses on a pair of values (all inherited by corresponding sub-values) -/
structure Hyp (P : N → Prop) (a b : V) : Prop where
  na : AllNum P a
  nb : AllNum P b
  sa : allV mapSorted a = true
  sb : allV mapSorted b = true
  nc : noClash a b = true

theorem Hyp.symm {a b : V} (h : Hyp P a b) : Hyp P b a :=
  ⟨h.nb, h.na, h.sb, h.sa, noClash_symm h.nc⟩

include hN in
theorem cmp_symm_eq {a b : V} (ha : AllNum P a) (hb : AllNum P b) (h : cmpV a b = .eq) : cmpV b a = .eq := by
  rw [cmpV_eq_cmpK hN a b ha hb] at h
  rw [cmpV_eq_cmpK hN b a hb ha]
  exact OrientedCmp.eq_symm h

/-- sequences: from the pointwise statement for the items -/
theorem list_goal (xs ys : List V) (ih : ∀ x ∈ xs, ∀ y ∈ ys, Goal x y) :
    (eqL .btree xs ys = true ↔ cmpL xs ys = .eq) ∧
    (eqL .btree xs ys = true → ∀ i, hkeyL i xs = hkeyL i ys) := by
  rw [eqL_iff, cmpL_eq_iff]
  refine ⟨⟨?_, ?_⟩, ?_⟩
  · intro h; exact h.imp_mem (fun x hx y hy hr => (ih x hx y hy).1.mp hr)
  · intro h; exact h.imp_mem (fun x hx y hy hr => (ih x hx y hy).1.mpr hr)
  · intro h i
    exact hkeyL_congr i xs ys (h.imp_mem (fun x hx y hy hr => (ih x hx y hy).2 hr))

include hN in
/-- maps with strictly increasing keys: from the statement for keys and values -/
theorem map_goal (ps qs : List (V × V))
    (nps : AllNumPL P ps) (nqs : AllNumPL P qs)
    (sps : (ps.map (·.1)).Pairwise (fun a b => cmpV a b = .lt))
    (sqs : (qs.map (·.1)).Pairwise (fun a b => cmpV a b = .lt))
    (ihk : ∀ p ∈ ps, ∀ q ∈ qs, Goal p.1 q.1)
    (ihv : ∀ p ∈ ps, ∀ q ∈ qs, Goal q.2 p.2) :
    ((ps.length = qs.length ∧ eqAll .btree ps qs = true) ↔ cmpPL ps qs = .eq) ∧
    ((ps.length = qs.length ∧ eqAll .btree ps qs = true) → hkeyPL ps = hkeyPL qs) := by
  -- the order on entries: by key, through the explicit key type
  let cmp' : V × V → V × V → Ordering := fun p q => cmpK (key p.1) (key q.1)
  have hcmp' : ∀ p ∈ ps ++ qs, ∀ q ∈ ps ++ qs, cmp' p q = cmpV p.1 q.1 := by
    intro p hp q hq
    have hp' : AllNum P p.1 := by
      rcases List.mem_append.mp hp with h | h
      · exact (AllNumPL_mem nps p h).1
      · exact (AllNumPL_mem nqs p h).1
    have hq' : AllNum P q.1 := by
      rcases List.mem_append.mp hq with h | h
      · exact (AllNumPL_mem nps q h).1
      · exact (AllNumPL_mem nqs q h).1
    exact (cmpV_eq_cmpK hN p.1 q.1 hp' hq').symm
  have sps' : ps.Pairwise (fun a b => cmp' a b = .lt) := by
    rw [List.pairwise_map] at sps
    rw [List.pairwise_iff_forall_sublist] at sps ⊢
    intro a b hab
    have ha : a ∈ ps := hab.subset (by simp)
    have hb : b ∈ ps := hab.subset (by simp)
    rw [hcmp' a (by simp [ha]) b (by simp [hb])]
    exact sps hab
  have sqs' : qs.Pairwise (fun a b => cmp' a b = .lt) := by
    rw [List.pairwise_map] at sqs
    rw [List.pairwise_iff_forall_sublist] at sqs ⊢
    intro a b hab
    have ha : a ∈ qs := hab.subset (by simp)
    have hb : b ∈ qs := hab.subset (by simp)
    rw [hcmp' a (by simp [ha]) b (by simp [hb])]
    exact sqs hab
  -- `==` on maps gives the aligned, pointwise statement
  have fwd : (ps.length = qs.length ∧ eqAll .btree ps qs = true) →
      All2 (fun p q => cmpV p.1 q.1 = .eq ∧ eqV .btree q.2 p.2 = true) ps qs := by
    intro ⟨hlen, hall⟩
    rw [eqAll_btree_iff] at hall
    have hex : ∀ p ∈ ps, ∃ q ∈ qs, cmp' p q = .eq := by
      intro p hp
      obtain ⟨q, hq, hk, _⟩ := findB_true_exists _ _ _ _ (hall p hp)
      exact ⟨q, hq, by rw [hcmp' p (by simp [hp]) q (by simp [hq])]; exact hk⟩
    have hm := (sorted_match cmp' qs ps sps' sqs' hex).2 hlen
    refine hm.imp_mem ?_
    intro p hp q hq hpq
    obtain ⟨q', hq', hk', he'⟩ := findB_true_exists _ _ _ _ (hall p hp)
    have hq'q : cmp' q' q = .eq := by
      have h1 : cmp' p q' = .eq := by rw [hcmp' p (by simp [hp]) q' (by simp [hq'])]; exact hk'
      exact TransCmp.eq_trans (OrientedCmp.eq_symm h1) hpq
    have := sorted_unique cmp' qs sqs' q' q hq' hq hq'q
    subst this
    exact ⟨by rw [← hcmp' p (by simp [hp]) q' (by simp [hq'])]; exact hpq, he'⟩
  refine ⟨⟨?_, ?_⟩, ?_⟩
  · intro h
    rw [cmpPL_eq_iff]
    refine (fwd h).imp_mem ?_
    intro p hp q hq ⟨h1, h2⟩
    refine ⟨h1, ?_⟩
    have := (ihv p hp q hq).1.mp h2
    exact cmp_symm_eq hN (AllNumPL_mem nqs q hq).2 (AllNumPL_mem nps p hp).2 this
  · intro h
    rw [cmpPL_eq_iff] at h
    refine ⟨h.length, ?_⟩
    rw [eqAll_btree_iff]
    intro p hp
    obtain ⟨q, hq, hk, hv⟩ := All2.exists_right h p hp
    apply findB_of_unique .btree p.1 p.2 qs q hq hk
    · apply (ihv p hp q hq).1.mpr
      exact cmp_symm_eq hN (AllNumPL_mem nps p hp).2 (AllNumPL_mem nqs q hq).2 hv
    · intro q' hq' hk'
      apply sorted_unique cmp' qs sqs' q' q hq' hq
      have h1 : cmp' p q' = .eq := by rw [hcmp' p (by simp [hp]) q' (by simp [hq'])]; exact hk'
      have h2 : cmp' p q = .eq := by rw [hcmp' p (by simp [hp]) q (by simp [hq])]; exact hk
      exact TransCmp.eq_trans (OrientedCmp.eq_symm h1) h2
  · intro h
    apply hkeyPL_congr
    refine (fwd h).imp_mem ?_
    intro p hp q hq ⟨h1, h2⟩
    refine ⟨?_, ?_⟩
    · have g := ihk p hp q hq
      exact g.2 (g.1.mpr h1)
    · exact ((ihv p hp q hq).2 h2).symm

theorem rank_seq_iter (xs ys : List V) : (V.seq xs).rank = (V.iter ys).rank := rank_eq_of_cls rfl
theorem rank_seq_tuple (xs ys : List V) : (V.seq xs).rank = (V.tuple ys).rank := rank_eq_of_cls rfl
theorem rank_iter_tuple (xs ys : List V) : (V.iter xs).rank = (V.tuple ys).rank := rank_eq_of_cls rfl

theorem sizeOf_mem_lt {x : V} {xs : List V} (h : x ∈ xs) : sizeOf x < sizeOf xs :=
  List.sizeOf_lt_of_mem h

theorem sizeOf_pair_mem_lt {p : V × V} {ps : List (V × V)} (h : p ∈ ps) :
    sizeOf p.1 < sizeOf ps ∧ sizeOf p.2 < sizeOf ps := by
  have := List.sizeOf_lt_of_mem h
  obtain ⟨k, v⟩ := p
  simp only [Prod.mk.sizeOf_spec] at this
  constructor <;> simp only <;> omega

include hN hE hH in
theorem eq_main : ∀ (n : Nat) (a b : V), sizeOf a + sizeOf b = n → Hyp P a b → Goal a b := by
  intro n
  induction n using Nat.strongRecOn with
  | ind n ih =>
    intro a b hn hyp
    -- the statement for sequence-like pairs
    have seqlike : ∀ xs ys : List V, sizeOf xs + sizeOf ys < n → AllNumL P xs → AllNumL P ys →
        allL mapSorted xs = true → allL mapSorted ys = true →
        ((allL notBool xs = true ∨ allL notNum ys = true) ∧ (allL notNum xs = true ∨ allL notBool ys = true)) →
        (eqL .btree xs ys = true ↔ cmpL xs ys = .eq) ∧
        (eqL .btree xs ys = true → ∀ i, hkeyL i xs = hkeyL i ys) := by
      intro xs ys hsz nx ny sx sy nc
      apply list_goal
      intro x hx y hy
      apply ih (sizeOf x + sizeOf y) (by have := sizeOf_mem_lt hx; have := sizeOf_mem_lt hy; omega) x y rfl
      refine ⟨AllNumL_mem nx x hx, AllNumL_mem ny y hy, allL_mem sx x hx, allL_mem sy y hy, ?_⟩
      unfold noClash
      simp only [Bool.and_eq_true, Bool.or_eq_true]
      exact ⟨nc.1.imp (fun h => allL_mem h x hx) (fun h => allL_mem h y hy),
             nc.2.imp (fun h => allL_mem h x hx) (fun h => allL_mem h y hy)⟩
    obtain ⟨na, nb, sa, sb, nc⟩ := hyp
    unfold noClash at nc
    simp only [Bool.and_eq_true, Bool.or_eq_true] at nc
    cases a <;> cases b
    -- same constructor, scalars
    case undef.undef => simp [Goal, eqV, cmpV, hkey]
    case none.none => simp [Goal, eqV, cmpV, hkey]
    case bool.bool x y =>
      simp only [Goal, eqV, cmpV, hkey, rank_cls, cls, ne_eq, not_true_eq_false, if_false, beq_iff_eq]
      cases x <;> cases y <;> simp [boolN, N.int]
    case num.num x y =>
      simp only [AllNum] at na nb
      simp only [Goal, eqV, cmpV, hkey, rank_cls, cls, ne_eq, not_true_eq_false, if_false]
      exact ⟨hE x y na nb, fun h => by rw [hH x y na nb h]⟩
    case str.str x y =>
      simp only [Goal, eqV, cmpV, hkey, rank_cls, cls, ne_eq, not_true_eq_false, if_false, beq_iff_eq, cmpBytes_eq_iff]
      first | done | exact ⟨trivial, fun h => by rw [h]⟩ | exact fun h => by rw [h]
    case bytes.bytes x y =>
      simp only [Goal, eqV, cmpV, hkey, rank_cls, cls, ne_eq, not_true_eq_false, if_false, beq_iff_eq, cmpBytes_eq_iff]
      first | done | exact ⟨trivial, fun h => by rw [h]⟩ | exact fun h => by rw [h]
    case plain.plain x y =>
      simp only [Goal, eqV, cmpV, hkey, rank_cls, cls, ne_eq, not_true_eq_false, if_false, beq_iff_eq, cmpBytes_eq_iff]
      first | done | exact ⟨trivial, fun _ => trivial⟩ | simp
    -- bool against number: excluded
    case bool.num x y =>
      simp [allV, notBool, notNum] at nc
    case num.bool x y =>
      simp [allV, notBool, notNum] at nc
    -- sequence-like pairs
    case seq.seq xs ys =>
      simp only [AllNum, allV, Bool.and_eq_true] at na nb sa sb nc
      have h := seqlike xs ys (by simp at hn; omega) na nb sa.2 sb.2 ⟨nc.1.imp (·.2) (·.2), nc.2.imp (·.2) (·.2)⟩
      simp only [Goal, eqV, cmpV, hkey, ne_eq, not_true_eq_false, if_false]
      exact ⟨h.1, fun he => by rw [h.2 he 0]⟩
    case seq.iter xs ys =>
      simp only [AllNum, allV, Bool.and_eq_true] at na nb sa sb nc
      have h := seqlike xs ys (by simp at hn; omega) na nb sa.2 sb.2 ⟨nc.1.imp (·.2) (·.2), nc.2.imp (·.2) (·.2)⟩
      simp only [Goal, eqV, cmpV, hkey, rank_cls, cls, ne_eq, not_true_eq_false, if_false]
      exact ⟨h.1, fun he => by rw [h.2 he 0]⟩
    case iter.seq xs ys =>
      simp only [AllNum, allV, Bool.and_eq_true] at na nb sa sb nc
      have h := seqlike xs ys (by simp at hn; omega) na nb sa.2 sb.2 ⟨nc.1.imp (·.2) (·.2), nc.2.imp (·.2) (·.2)⟩
      simp only [Goal, eqV, cmpV, hkey, rank_cls, cls, ne_eq, not_true_eq_false, if_false]
      exact ⟨h.1, fun he => by rw [h.2 he 0]⟩
    case iter.iter xs ys =>
      simp only [AllNum, allV, Bool.and_eq_true] at na nb sa sb nc
      have h := seqlike xs ys (by simp at hn; omega) na nb sa.2 sb.2 ⟨nc.1.imp (·.2) (·.2), nc.2.imp (·.2) (·.2)⟩
      simp only [Goal, eqV, cmpV, hkey, ne_eq, not_true_eq_false, if_false]
      exact ⟨h.1, fun he => by rw [h.2 he 0]⟩
    case tuple.tuple xs ys =>
      simp only [AllNum, allV, Bool.and_eq_true] at na nb sa sb nc
      have h := seqlike xs ys (by simp at hn; omega) na nb sa.2 sb.2 ⟨nc.1.imp (·.2) (·.2), nc.2.imp (·.2) (·.2)⟩
      simp only [Goal, eqV, cmpV, hkey, ne_eq, not_true_eq_false, if_false]
      exact ⟨h.1, fun he => by rw [h.2 he 0]⟩
    -- tuple against list / iterable: never ==, never Equal
    case seq.tuple xs ys => simp [Goal, eqV, cmpV, rank_cls, cls]
    case iter.tuple xs ys => simp [Goal, eqV, cmpV, rank_cls, cls]
    case tuple.seq xs ys => simp [Goal, eqV, cmpV, rank_cls, cls]
    case tuple.iter xs ys => simp [Goal, eqV, cmpV, rank_cls, cls]
    -- maps
    case map.map ps qs =>
      simp only [AllNum, allV, Bool.and_eq_true, mapSorted, decide_eq_true_eq] at na nb sa sb nc
      have hsz : ∀ p ∈ ps, ∀ q ∈ qs, sizeOf p.1 + sizeOf q.1 < n ∧ sizeOf q.2 + sizeOf p.2 < n := by
        intro p hp q hq
        have := sizeOf_pair_mem_lt hp
        have := sizeOf_pair_mem_lt hq
        simp at hn
        constructor <;> omega
      have ncp : ∀ p ∈ ps, ∀ q ∈ qs, noClash p.1 q.1 = true ∧ noClash q.2 p.2 = true := by
        intro p hp q hq
        unfold noClash
        simp only [Bool.and_eq_true, Bool.or_eq_true]
        have a1 := nc.1.imp (fun h => allPL_mem h.2 p hp) (fun h => allPL_mem h.2 q hq)
        have a2 := nc.2.imp (fun h => allPL_mem h.2 p hp) (fun h => allPL_mem h.2 q hq)
        exact ⟨⟨a1.imp (·.1) (·.1), a2.imp (·.1) (·.1)⟩, ⟨a2.symm.imp (·.2) (·.2), a1.symm.imp (·.2) (·.2)⟩⟩
      have h := map_goal hN ps qs na nb sa.1 sb.1
        (fun p hp q hq => ih _ (hsz p hp q hq).1 p.1 q.1 rfl
          ⟨(AllNumPL_mem na p hp).1, (AllNumPL_mem nb q hq).1, (allPL_mem sa.2 p hp).1, (allPL_mem sb.2 q hq).1,
            (ncp p hp q hq).1⟩)
        (fun p hp q hq => ih _ (hsz p hp q hq).2 q.2 p.2 rfl
          ⟨(AllNumPL_mem nb q hq).2, (AllNumPL_mem na p hp).2, (allPL_mem sb.2 q hq).2, (allPL_mem sa.2 p hp).2,
            (ncp p hp q hq).2⟩)
      simp only [Goal, eqV, cmpV, hkey, ne_eq, not_true_eq_false, if_false]
      by_cases hl : ps.length = qs.length
      · simp only [hl, not_true_eq_false, if_false]
        have h1 := h.1; have h2 := h.2
        simp only [hl, true_and] at h1 h2
        exact ⟨h1, fun he => by rw [h2 he]⟩
      · simp only [hl, not_false_eq_true, if_true]
        refine ⟨⟨fun hf => absurd hf (by decide), fun hc => absurd (h.1.mpr hc).1 hl⟩,
          fun hf => absurd hf (by decide)⟩
    -- every other pair: different classes, so neither == nor Equal
    all_goals
      refine ⟨⟨fun he => ?_, fun hc => ?_⟩, fun he => ?_⟩
      · simp [eqV] at he
      · have := cmpV_eq_cls hc; simp [cls] at this
      · simp [eqV] at he

end main

end MJ.CmpEq
