import MJ.Model.SafeProg
import MJ.Proofs.SafeInv
/-! C02: the machine invariant with *flagged* capture buffers, and a Hoare logic for the interpreter
monad.  A buffer flagged `true` must stay free of data-tainted metacharacters (its text becomes a `Safe`
string when the capture ends in a mode other than `None`); a buffer flagged `false` may hold anything:
its text is discarded, becomes the text of a module object, or becomes an unmarked string (capture
that ends in mode `None`). -/
namespace MJ.Safe

def CapsOk : List Bool → List TStr → Prop
  | [], [] => True
  | f :: fl, b :: bs => (f = true → Clean b) ∧ CapsOk fl bs
  | _, _ => False

/-- registers satisfy `Inv`, flagged buffers are clean, the rendered output is clean -/
def StInvF (fl : List Bool) (st : St) : Prop := (∀ v ∈ st.pool, v.Inv) ∧ CapsOk fl st.caps ∧ Clean st.outR

theorem stInvF_init : StInvF [] ({} : St) :=
  ⟨fun v hv => by simp [Array.mem_def] at hv, trivial, Clean.nil⟩

theorem StInvF.out_clean {fl : List Bool} {st : St} (h : StInvF fl st) : Clean st.out := h.2.2.reverse

theorem capsOk_all_true : ∀ (caps : List TStr), CapsOk (caps.map fun _ => true) caps ↔ ∀ b ∈ caps, Clean b
  | [] => by simp [CapsOk]
  | b :: bs => by simp [CapsOk, capsOk_all_true bs]

/-- the unflagged invariant is the flagged one with every buffer flagged -/
theorem stInv_iff_flagged (st : St) : StInv st ↔ StInvF (st.caps.map fun _ => true) st := by
  unfold StInv StInvF
  rw [capsOk_all_true]

theorem StInvF.push {fl : List Bool} {st : St} {v : V} (h : StInvF fl st) (hv : v.Inv) : StInvF fl (st.push v) := by
  obtain ⟨hp, hc, ho⟩ := h
  refine ⟨?_, by simpa [St.push_eq] using hc, by simpa [St.push_eq] using ho⟩
  intro x hx
  simp only [St.push_eq, Array.mem_push] at hx
  rcases hx with hx | rfl
  · exact hp x hx
  · exact hv

/-- text free of data-tainted metacharacters may be written anywhere -/
theorem StInvF.write_clean {fl : List Bool} {st : St} {s : TStr} (h : StInvF fl st) (hs : Clean s) : StInvF fl (st.write s) := by
  obtain ⟨hp, hc, ho⟩ := h
  unfold St.write
  split
  · rename_i heq
    exact ⟨hp, by simpa [heq] using hc, hs.reverse.append ho⟩
  · rename_i b r heq
    refine ⟨hp, ?_, ho⟩
    rw [heq] at hc
    cases fl with
    | nil => simp [CapsOk] at hc
    | cons f fl =>
      simp only [CapsOk] at hc ⊢
      exact ⟨fun hf => hs.reverse.append (hc.1 hf), hc.2⟩

/-- anything may be written into an unflagged buffer -/
theorem StInvF.write_any {fl : List Bool} {st : St} {s : TStr} (h : StInvF (false :: fl) st) : StInvF (false :: fl) (st.write s) := by
  obtain ⟨hp, hc, ho⟩ := h
  unfold St.write
  split
  · rename_i heq
    rw [heq] at hc
    simp [CapsOk] at hc
  · rename_i b r heq
    refine ⟨hp, ?_, ho⟩
    rw [heq] at hc
    simp only [CapsOk] at hc ⊢
    exact ⟨fun hf => (by cases hf), hc.2⟩

theorem argsF_inv {fl : List Bool} {st : St} {is : List Nat} {xs : List V} (h : StInvF fl st) (ha : st.args is = some xs) :
    ∀ x ∈ xs, x.Inv := by
  unfold St.args at ha
  refine mapM_all (P := V.Inv) ha ?_
  intro i _ b hb
  exact h.1 b (pool_mem hb)

/-- how a step may change the flags, and what it needs -/
def StepRel : Step → List Bool → List Bool → Prop
  | .emit m _, fl, fl' => fl' = fl ∧ (m = .html ∨ (m = .none ∧ ∃ r, fl = false :: r))
  | .apply g _, fl, fl' => fl' = fl ∧ InvPreserving g
  | .value v, fl, fl' => fl' = fl ∧ v.Inv
  | .beginCapture, fl, fl' => ∃ c, fl' = c :: fl
  | .endCapture m, fl, fl' => ∃ c, fl = c :: fl' ∧ (m ≠ .none → c = true)
  | .macroReturn m, fl, fl' => ∃ c, fl = c :: fl' ∧ (m ≠ .none → c = true)
  | _, fl, fl' => fl' = fl

theorem endCapture_flag {fl : List Bool} {c : Bool} {st : St} {m : Mode} {buf : TStr} {rest : List TStr}
    (h : StInvF (c :: fl) st) (hm : m ≠ .none → c = true) (heq : st.caps = buf :: rest) :
    StInvF fl ({ st with caps := rest }.push (capturedValue m buf.reverse)) := by
  obtain ⟨hp, hc, ho⟩ := h
  rw [heq] at hc
  simp only [CapsOk] at hc
  have base : StInvF fl { st with caps := rest } := ⟨hp, hc.2, ho⟩
  refine base.push (inv_str fun hs => ?_)
  have : m ≠ .none := by
    intro hmn; subst hmn; simp at hs
  exact (hc.1 (hm this)).reverse

theorem stepF_preserves_inv (s : Step) (fl fl' : List Bool) (st st' : St) (hrel : StepRel s fl fl')
    (h : StInvF fl st) (hr : s.run st = some st') : StInvF fl' st' := by
  cases s with
  | data x => simp only [StepRel] at hrel; subst hrel; simp only [Step.run, Option.some.injEq] at hr; subst hr; exact h.push (inv_str_false _)
  | int n => simp only [StepRel] at hrel; subst hrel; simp only [Step.run, Option.some.injEq] at hr; subst hr; exact h.push (inv_int n)
  | bool b => simp only [StepRel] at hrel; subst hrel; simp only [Step.run, Option.some.injEq] at hr; subst hr; exact h.push (inv_bool b)
  | none => simp only [StepRel] at hrel; subst hrel; simp only [Step.run, Option.some.injEq] at hr; subst hr; exact h.push inv_none
  | undef => simp only [StepRel] at hrel; subst hrel; simp only [Step.run, Option.some.injEq] at hr; subst hr; exact h.push inv_undef
  | mkSeq is =>
    simp only [StepRel] at hrel; subst hrel
    simp only [Step.run, Option.map_eq_some_iff] at hr
    obtain ⟨xs, hxs, rfl⟩ := hr
    exact h.push (inv_seq.mpr (argsF_inv h hxs))
  | mkMap kis =>
    simp only [StepRel] at hrel; subst hrel
    simp only [Step.run, Option.map_eq_some_iff] at hr
    obtain ⟨kvs, hkvs, rfl⟩ := hr
    refine h.push (inv_map.mpr ?_)
    have hall : ∀ kv ∈ kvs, kv.2.Inv := by
      unfold St.kvArgs at hkvs
      refine mapM_all (P := fun kv : String × V => kv.2.Inv) hkvs ?_
      intro ki _ b hb
      simp only [Option.map_eq_some_iff] at hb
      obtain ⟨v, hv, rfl⟩ := hb
      exact h.1 v (pool_mem hv)
    exact foldl_insertKV_inv kvs [] hall (by intro kv hkv; cases hkv)
  | value v => simp only [StepRel] at hrel; obtain ⟨rfl, hv⟩ := hrel; simp only [Step.run, Option.some.injEq] at hr; subst hr; exact h.push hv
  | raw x => simp only [StepRel] at hrel; subst hrel; simp only [Step.run, Option.some.injEq] at hr; subst hr; exact h.write_clean (Clean.ofTmpl x)
  | emit m i =>
    simp only [StepRel] at hrel
    obtain ⟨rfl, hm⟩ := hrel
    simp only [Step.run, Option.map_eq_some_iff] at hr
    obtain ⟨v, hv, rfl⟩ := hr
    rcases hm with rfl | ⟨_, r, rfl⟩
    · exact h.write_clean (writeEscaped_html_clean (h.1 v (pool_mem hv)))
    · exact h.write_any
  | beginCapture =>
    simp only [StepRel] at hrel
    obtain ⟨c, rfl⟩ := hrel
    simp only [Step.run, Option.some.injEq] at hr; subst hr
    exact ⟨h.1, by simp only [CapsOk]; exact ⟨fun _ => Clean.nil, h.2.1⟩, h.2.2⟩
  | endCapture m =>
    simp only [StepRel] at hrel
    obtain ⟨c, rfl, hm⟩ := hrel
    simp only [Step.run] at hr
    split at hr
    · rename_i buf rest heq
      cases hr
      exact endCapture_flag h hm heq
    · cases hr
  | macroReturn m =>
    simp only [StepRel] at hrel
    obtain ⟨c, rfl, hm⟩ := hrel
    simp only [Step.run] at hr
    split at hr
    · rename_i buf rest heq
      cases hr
      exact endCapture_flag h hm heq
    · cases hr
  | apply g is =>
    simp only [StepRel] at hrel
    obtain ⟨rfl, hg⟩ := hrel
    simp only [Step.run] at hr
    split at hr
    · cases hr
    · rename_i xs hxs
      simp only [Option.map_eq_some_iff] at hr
      obtain ⟨r, hgr, rfl⟩ := hr
      exact h.push (hg xs r (argsF_inv h hxs) hgr)

/-! ### Hoare triples over the interpreter monad -/

/-- from a state satisfying the invariant with flags `fl`, a successful run ends in a state satisfying
    it with flags `fl'` -/
def HT {α : Type} (fl fl' : List Bool) (m : M α) : Prop :=
  ∀ st a st', StInvF fl st → m st = some (a, st') → StInvF fl' st'

theorem HT.pure {α : Type} {fl : List Bool} (a : α) : HT fl fl (Pure.pure a : M α) := by
  intro st a' st' h hr
  simp only [Pure.pure, M.pure, Option.some.injEq, Prod.mk.injEq] at hr
  obtain ⟨_, rfl⟩ := hr; exact h

theorem HT.fail {α : Type} {fl fl' : List Bool} : HT fl fl' (failM : M α) := by
  intro st a st' _ hr; simp [failM] at hr

theorem HT.bind {α β : Type} {fl fl1 fl2 : List Bool} {m : M α} {f : α → M β} (hm : HT fl fl1 m)
    (hf : ∀ a, HT fl1 fl2 (f a)) : HT fl fl2 (m >>= f) := by
  intro st b st' h hr
  simp only [Bind.bind, M.bind] at hr
  split at hr
  · cases hr
  · rename_i a st1 h1
    exact hf a st1 b st' (hm st a st1 h h1) hr

theorem HT.stepM {s : Step} {fl fl' : List Bool} (hs : StepRel s fl fl') : HT fl fl' (stepM s) := by
  intro st a st' h hr
  simp only [Safe.stepM, Option.map_eq_some_iff, Prod.mk.injEq] at hr
  obtain ⟨st1, h1, _, rfl⟩ := hr
  exact stepF_preserves_inv s fl fl' st st1 hs h h1

theorem HT.pushM {s : Step} {fl fl' : List Bool} (hs : StepRel s fl fl') : HT fl fl' (pushM s) := by
  intro st a st' h hr
  simp only [Safe.pushM, Option.map_eq_some_iff, Prod.mk.injEq] at hr
  obtain ⟨st1, h1, _, rfl⟩ := hr
  exact stepF_preserves_inv s fl fl' st st1 hs h h1

theorem HT.readM {fl : List Bool} (i : Nat) : HT fl fl (readM i) := by
  intro st a st' h hr
  simp only [Safe.readM, Option.map_eq_some_iff, Prod.mk.injEq] at hr
  obtain ⟨_, _, _, rfl⟩ := hr
  exact h

theorem HT.ite {α : Type} {fl fl' : List Bool} {c : Prop} [Decidable c] {a b : M α} (ha : HT fl fl' a) (hb : HT fl fl' b) :
    HT fl fl' (if c then a else b) := by
  split
  · exact ha
  · exact hb

theorem HT.apply {α : Type} {fl fl' : List Bool} {m : M α} (h : HT fl fl' m) {st st' : St} {a : α} (hs : StInvF fl st)
    (hr : m st = some (a, st')) : StInvF fl' st' := h st a st' hs hr

end MJ.Safe
