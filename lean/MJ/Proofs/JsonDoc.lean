import MJ.Proofs.JsonStr
/-! Whole documents: `read ∘ postprocess ∘ write = id` for every JSON value, every formatter the
engine uses (compact, Jinja separators, pretty with any indent) (C16). -/
namespace MJ.Json

/-! ### whitespace -/

def AllWs (l : List Char) : Prop := ∀ c ∈ l, isWs c = true

theorem allWs_nil : AllWs [] := by simp [AllWs]

theorem allWs_replicate (n : Nat) : AllWs (List.replicate n ' ') := by
  intro c hc
  rw [List.mem_replicate] at hc
  rw [hc.2]; decide

theorem skipWs_append (ws l : List Char) (h : AllWs ws) : skipWs (ws ++ l) = skipWs l := by
  induction ws with
  | nil => rfl
  | cons c cs ih =>
    have hc : isWs c = true := h c (by simp)
    simp only [List.cons_append, skipWs, hc, if_true]
    exact ih (fun x hx => h x (by simp [hx]))

theorem skipWs_cons (c : Char) (l : List Char) (h : isWs c = false) : skipWs (c :: l) = c :: l := by
  simp [skipWs, h]

/-! ### the separators of the three formatters -/

/-- `sep = c :: ws` with `ws` whitespace -/
def sepIs (c : Char) : List Char → Bool
  | d :: ws => d == c && ws.all isWs
  | [] => false

theorem sepIs_spec (c : Char) (sep : List Char) (h : sepIs c sep = true) :
    ∃ ws, sep = c :: ws ∧ AllWs ws := by
  cases sep with
  | nil => simp [sepIs] at h
  | cons d ws =>
    simp only [sepIs, Bool.and_eq_true, beq_iff_eq, List.all_eq_true] at h
    exact ⟨ws, by rw [h.1], h.2⟩

theorem jinja_seps_ok : sepIs ',' MJ.Gen.jinjaArraySep = true ∧ sepIs ',' MJ.Gen.jinjaMemberSep = true ∧
    sepIs ':' MJ.Gen.jinjaKeySep = true := by decide

theorem before_first (st : Style) (lvl : Nat) (arr : Bool) : AllWs (st.before lvl true arr) := by
  cases st with
  | compact => simp [Style.before, AllWs]
  | jinja => simp [Style.before, AllWs]
  | pretty n =>
    simp only [Style.before, if_true]
    intro c hc
    simp only [List.singleton_append, List.mem_cons] at hc
    rcases hc with rfl | hc
    · decide
    · exact allWs_replicate _ c hc

theorem before_next (st : Style) (lvl : Nat) (arr : Bool) :
    ∃ ws, st.before lvl false arr = ',' :: ws ∧ AllWs ws := by
  cases st with
  | compact => exact ⟨[], by simp [Style.before], allWs_nil⟩
  | jinja =>
    cases arr
    · obtain ⟨ws, h1, h2⟩ := sepIs_spec _ _ jinja_seps_ok.2.1
      exact ⟨ws, by simp [Style.before, h1], h2⟩
    · obtain ⟨ws, h1, h2⟩ := sepIs_spec _ _ jinja_seps_ok.1
      exact ⟨ws, by simp [Style.before, h1], h2⟩
  | pretty n =>
    refine ⟨'\n' :: indentOf n lvl, by simp [Style.before], ?_⟩
    intro c hc
    simp only [List.mem_cons] at hc
    rcases hc with rfl | hc
    · decide
    · exact allWs_replicate _ c hc

theorem keySep_spec (st : Style) : ∃ ws, st.keySep = ':' :: ws ∧ AllWs ws := by
  cases st with
  | compact => exact ⟨[], rfl, allWs_nil⟩
  | jinja =>
    obtain ⟨ws, h1, h2⟩ := sepIs_spec _ _ jinja_seps_ok.2.2
    exact ⟨ws, by simp [Style.keySep, h1], h2⟩
  | pretty n =>
    refine ⟨[' '], rfl, ?_⟩
    intro c hc
    simp only [List.mem_singleton] at hc
    rw [hc]; decide

theorem close_ws (st : Style) (lvl : Nat) : AllWs (st.close lvl) := by
  cases st with
  | compact => simp [Style.close, AllWs]
  | jinja => simp [Style.close, AllWs]
  | pretty n =>
    intro c hc
    simp only [Style.close, List.mem_cons] at hc
    rcases hc with rfl | hc
    · decide
    · exact allWs_replicate _ c hc

/-! ### the writer with post-processed strings -/

def writeStrP (t : List (Char × List Char)) (s : List Char) : List Char := '"' :: (postT t (escBody s) ++ ['"'])

mutual
def writeAtP (t : List (Char × List Char)) (st : Style) (lvl : Nat) : J → List Char
  | .null => ['n', 'u', 'l', 'l']
  | .bool true => ['t', 'r', 'u', 'e']
  | .bool false => ['f', 'a', 'l', 's', 'e']
  | .num tok => tok
  | .str s => writeStrP t s
  | .arr [] => ['[', ']']
  | .arr (x :: xs) =>
    '[' :: (st.before (lvl + 1) true true ++ (writeAtP t st (lvl + 1) x ++ (restElemsP t st (lvl + 1) xs ++
      (st.close lvl ++ [']']))))
  | .obj [] => ['{', '}']
  | .obj ((k, v) :: ms) =>
    '{' :: (st.before (lvl + 1) true false ++ (writeStrP t k ++ (st.keySep ++ (writeAtP t st (lvl + 1) v ++
      (restMembersP t st (lvl + 1) ms ++ (st.close lvl ++ ['}']))))))
/-- the elements after the first one, each with its separator -/
def restElemsP (t : List (Char × List Char)) (st : Style) (lvl : Nat) : List J → List Char
  | [] => []
  | x :: xs => st.before lvl false true ++ (writeAtP t st lvl x ++ restElemsP t st lvl xs)
def restMembersP (t : List (Char × List Char)) (st : Style) (lvl : Nat) : List (List Char × J) → List Char
  | [] => []
  | (k, v) :: ms =>
    st.before lvl false false ++ (writeStrP t k ++ (st.keySep ++ (writeAtP t st lvl v ++ restMembersP t st lvl ms)))
end

/-- a non-empty list of elements without the text before the first one -/
def elemsTextP (t : List (Char × List Char)) (st : Style) (lvl : Nat) : List J → List Char
  | [] => []
  | x :: xs => writeAtP t st lvl x ++ restElemsP t st lvl xs

def membersTextP (t : List (Char × List Char)) (st : Style) (lvl : Nat) : List (List Char × J) → List Char
  | [] => []
  | (k, v) :: ms => writeStrP t k ++ (st.keySep ++ (writeAtP t st lvl v ++ restMembersP t st lvl ms))

/-! ### number tokens -/

/-- a number token the reader takes back as it is -/
def tokOK (tok : List Char) : Prop := validNum tok = true ∧ (∀ c ∈ tok, isNumChar c = true) ∧ tok ≠ []

mutual
def NumOK : J → Prop
  | .num tok => tokOK tok
  | .arr xs => NumOKList xs
  | .obj ms => NumOKMembers ms
  | _ => True
def NumOKList : List J → Prop
  | [] => True
  | x :: xs => NumOK x ∧ NumOKList xs
def NumOKMembers : List (List Char × J) → Prop
  | [] => True
  | (_, v) :: ms => NumOK v ∧ NumOKMembers ms
end

/-- what may follow a value: nothing, or a character that cannot continue a number -/
def StopOK : List Char → Prop
  | [] => True
  | c :: _ => isNumChar c = false

theorem spanNum_tok (tok rest : List Char) (h : ∀ c ∈ tok, isNumChar c = true) (hr : StopOK rest) :
    spanNum (tok ++ rest) = (tok, rest) := by
  induction tok with
  | nil =>
    cases rest with
    | nil => rfl
    | cons c r => simp [StopOK] at hr; simp [spanNum, hr]
  | cons c cs ih =>
    have hc := h c (by simp)
    have := ih (fun x hx => h x (by simp [hx]))
    simp [spanNum, hc, this]

theorem stopOK_of_ws (ws l : List Char) (h : AllWs ws) (hl : StopOK l) (hne : ws ≠ [] ∨ True) : StopOK (ws ++ l) := by
  cases ws with
  | nil => simpa using hl
  | cons c cs =>
    have hc : isWs c = true := h c (by simp)
    simp only [List.cons_append, StopOK]
    revert hc
    simp only [isWs, isNumChar, isDigit, Bool.or_eq_true, decide_eq_true_eq, Bool.and_eq_true]
    intro hc
    rcases hc with ((rfl | rfl) | rfl) | rfl <;> decide

/-- the first character of a written value: not whitespace, not a closing bracket, not a comma -/
theorem head_writeAtP (t : List (Char × List Char)) (st : Style) (lvl : Nat) (j : J) (hj : NumOK j) :
    ∃ c tl, writeAtP t st lvl j = c :: tl ∧ isWs c = false ∧ c ≠ ']' ∧ c ≠ '}' := by
  cases j with
  | null => exact ⟨'n', _, rfl, by decide, by decide, by decide⟩
  | bool b => cases b <;> exact ⟨_, _, rfl, by decide, by decide, by decide⟩
  | num tok =>
    simp only [NumOK, tokOK] at hj
    obtain ⟨_, hall, hne⟩ := hj
    cases tok with
    | nil => exact absurd rfl hne
    | cons c cs =>
      have hc := hall c (by simp)
      refine ⟨c, cs, rfl, ?_, ?_, ?_⟩
      · cases hw : isWs c with
        | false => rfl
        | true =>
          exfalso
          revert hc hw
          simp only [isWs, isNumChar, isDigit, Bool.or_eq_true, decide_eq_true_eq, Bool.and_eq_true]
          intro hc hw
          rcases hw with ((rfl | rfl) | rfl) | rfl <;> simp at hc
      · intro h; subst h; simp [isNumChar, isDigit] at hc
      · intro h; subst h; simp [isNumChar, isDigit] at hc
  | str s => exact ⟨'"', _, rfl, by decide, by decide, by decide⟩
  | arr xs => cases xs <;> exact ⟨'[', _, rfl, by decide, by decide, by decide⟩
  | obj ms => cases ms <;> exact ⟨'{', _, rfl, by decide, by decide, by decide⟩

theorem numChar_not_struct (c : Char) (h : isNumChar c = true) : c ≠ '"' ∧ c ≠ '[' ∧ c ≠ '{' := by
  refine ⟨?_, ?_, ?_⟩ <;> (intro e; subst e; simp [isNumChar, isDigit] at h)

theorem stopOK_close (cl rest : List Char) (c : Char) (hcl : AllWs cl) (hc : isNumChar c = false) :
    StopOK (cl ++ c :: rest) :=
  stopOK_of_ws cl (c :: rest) hcl (by simpa [StopOK] using hc) (Or.inr trivial)

mutual
theorem pv : ∀ (j : J) (t : List (Char × List Char)) (st : Style) (lvl : Nat) (ws rest : List Char) (fuel : Nat),
    TableOK t → NumOK j → StopOK rest → AllWs ws → (writeAtP t st lvl j).length ≤ fuel →
    pValue fuel (ws ++ (writeAtP t st lvl j ++ rest)) = some (j, rest)
  | .null, t, st, lvl, ws, rest, fuel, _, _, _, hws, hlen => by
    cases fuel with
    | zero => simp [writeAtP] at hlen
    | succ f => simp [pValue, writeAtP, skipWs_append _ _ hws, skipWs, isWs, isNumChar, isDigit, pLit]
  | .bool b, t, st, lvl, ws, rest, fuel, _, _, _, hws, hlen => by
    cases fuel with
    | zero => cases b <;> simp [writeAtP] at hlen
    | succ f => cases b <;> simp [pValue, writeAtP, skipWs_append _ _ hws, skipWs, isWs, isNumChar, isDigit, pLit]
  | .num tok, t, st, lvl, ws, rest, fuel, _, hj, hrest, hws, hlen => by
    have hj' := hj
    simp only [NumOK, tokOK] at hj
    obtain ⟨hvalid, hall, hne⟩ := hj
    cases tok with
    | nil => exact absurd rfl hne
    | cons c cs =>
      cases fuel with
      | zero => simp [writeAtP] at hlen
      | succ f =>
        have hc := hall c (by simp)
        obtain ⟨q1, q2, q3⟩ := numChar_not_struct c hc
        obtain ⟨c', tl, hhead, hnws, _, _⟩ := head_writeAtP t st lvl (.num (c :: cs)) hj'
        simp only [writeAtP] at hhead
        have hcc : c' = c := by simp at hhead; exact hhead.1.symm
        subst hcc
        simp only [pValue, writeAtP, skipWs_append _ _ hws, List.cons_append, skipWs_cons _ _ hnws]
        simp only [q1, q2, q3, if_false, hc, if_true]
        have hsp := spanNum_tok (c' :: cs) rest hall hrest
        simp only [List.cons_append] at hsp
        rw [hsp]
        simp [hvalid]
  | .str s, t, st, lvl, ws, rest, fuel, ht, _, _, hws, hlen => by
    cases fuel with
    | zero => simp [writeAtP, writeStrP] at hlen
    | succ f =>
      simp only [pValue, writeAtP, writeStrP, skipWs_append _ _ hws, List.cons_append, List.append_assoc,
        List.singleton_append, List.nil_append]
      rw [skipWs_cons _ _ (by decide)]
      simp only [if_true]
      rw [parse_escaped t ht s rest]
  | .arr [], t, st, lvl, ws, rest, fuel, _, _, _, hws, hlen => by
    cases fuel with
    | zero => simp [writeAtP] at hlen
    | succ f =>
      simp only [pValue, writeAtP, skipWs_append _ _ hws, List.cons_append, List.nil_append]
      rw [skipWs_cons _ _ (by decide)]
      simp only [show ('[' = '"') = False by decide, if_false, if_true]
      rw [skipWs_cons _ _ (by decide)]
      simp
  | .arr (x :: xs), t, st, lvl, ws, rest, fuel, ht, hj, hrest, hws, hlen => by
    cases fuel with
    | zero => simp [writeAtP] at hlen
    | succ f =>
      simp only [NumOK] at hj
      have hx : NumOK x := hj.1
      obtain ⟨c2, tl, hhead, hnws, hnb, _⟩ := head_writeAtP t st (lvl + 1) x hx
      simp only [writeAtP, List.length_cons, List.length_append, List.length_nil] at hlen
      have key := pe (x :: xs) t st (lvl + 1) [] rest (st.close lvl) f ht hj hrest allWs_nil (close_ws st lvl)
        (by simp) (by simp only [elemsTextP, List.length_append]; omega)
      simp only [pValue, writeAtP, skipWs_append _ _ hws, List.cons_append, List.append_assoc,
        List.singleton_append, List.nil_append]
      rw [skipWs_cons _ _ (by decide)]
      simp only [show ('[' = '"') = False by decide, if_false, if_true]
      rw [skipWs_append _ _ (before_first st (lvl + 1) true)]
      simp only [elemsTextP, List.nil_append, List.append_assoc] at key
      rw [hhead] at key ⊢
      simp only [List.cons_append] at key ⊢
      rw [skipWs_cons _ _ hnws]
      simp only [hnb, if_false]
      rw [key]
  | .obj [], t, st, lvl, ws, rest, fuel, _, _, _, hws, hlen => by
    cases fuel with
    | zero => simp [writeAtP] at hlen
    | succ f =>
      simp only [pValue, writeAtP, skipWs_append _ _ hws, List.cons_append, List.nil_append]
      rw [skipWs_cons _ _ (by decide)]
      simp only [show ('{' = '"') = False by decide, show ('{' = '[') = False by decide, if_false, if_true]
      rw [skipWs_cons _ _ (by decide)]
      simp
  | .obj ((k, v) :: ms), t, st, lvl, ws, rest, fuel, ht, hj, hrest, hws, hlen => by
    cases fuel with
    | zero => simp [writeAtP] at hlen
    | succ f =>
      simp only [writeAtP, List.length_cons, List.length_append, List.length_nil] at hlen
      have key := pm ((k, v) :: ms) t st (lvl + 1) [] rest (st.close lvl) f ht hj hrest allWs_nil (close_ws st lvl)
        (by simp) (by simp only [membersTextP, List.length_append]; omega)
      simp only [pValue, writeAtP, skipWs_append _ _ hws, List.cons_append, List.append_assoc,
        List.singleton_append, List.nil_append]
      rw [skipWs_cons _ _ (by decide)]
      simp only [show ('{' = '"') = False by decide, show ('{' = '[') = False by decide, if_false, if_true]
      rw [skipWs_append _ _ (before_first st (lvl + 1) false)]
      simp only [membersTextP, writeStrP, List.cons_append, List.nil_append, List.append_assoc] at key ⊢
      rw [skipWs_cons _ _ (by decide)]
      simp only [show ('"' = '}') = False by decide, if_false]
      rw [key]
theorem pe : ∀ (l : List J) (t : List (Char × List Char)) (st : Style) (lvl : Nat) (ws rest cl : List Char) (fuel : Nat),
    TableOK t → NumOKList l → StopOK rest → AllWs ws → AllWs cl → l ≠ [] →
    (elemsTextP t st lvl l).length + 1 ≤ fuel →
    pElems fuel (ws ++ (elemsTextP t st lvl l ++ (cl ++ ']' :: rest))) = some (l, rest)
  | [], _, _, _, _, _, _, _, _, _, _, _, _, hne, _ => absurd rfl hne
  | [x], t, st, lvl, ws, rest, cl, fuel, ht, hj, hrest, hws, hcl, _, hlen => by
    cases fuel with
    | zero => simp at hlen
    | succ f =>
      simp only [NumOKList] at hj
      simp only [elemsTextP, restElemsP, List.append_nil] at hlen ⊢
      have hv := pv x t st lvl ws (cl ++ ']' :: rest) f ht hj.1 (stopOK_close cl rest ']' hcl (by decide)) hws
        (by omega)
      simp only [pElems, hv, skipWs_append _ _ hcl]
      rw [skipWs_cons _ _ (by decide)]
      simp
  | x :: y :: ys, t, st, lvl, ws, rest, cl, fuel, ht, hj, hrest, hws, hcl, _, hlen => by
    cases fuel with
    | zero => simp at hlen
    | succ f =>
      simp only [NumOKList] at hj
      obtain ⟨wsB, hB, hwsB⟩ := before_next st lvl true
      have hE : elemsTextP t st lvl (x :: y :: ys)
          = writeAtP t st lvl x ++ (',' :: (wsB ++ elemsTextP t st lvl (y :: ys))) := by
        simp only [elemsTextP, restElemsP, hB, List.cons_append]
      rw [hE] at hlen ⊢
      simp only [List.length_append, List.length_cons] at hlen
      have hv := pv x t st lvl ws (',' :: (wsB ++ (elemsTextP t st lvl (y :: ys) ++ (cl ++ ']' :: rest)))) f ht hj.1
        (by simp [StopOK, isNumChar, isDigit]) hws (by omega)
      have hrec := pe (y :: ys) t st lvl wsB rest cl f ht hj.2 hrest hwsB hcl (by simp) (by omega)
      simp only [List.append_assoc, List.cons_append] at hv ⊢
      simp only [pElems, hv]
      rw [skipWs_cons _ _ (by decide)]
      simp only [if_true]
      rw [hrec]
theorem pm : ∀ (l : List (List Char × J)) (t : List (Char × List Char)) (st : Style) (lvl : Nat)
    (ws rest cl : List Char) (fuel : Nat),
    TableOK t → NumOKMembers l → StopOK rest → AllWs ws → AllWs cl → l ≠ [] →
    (membersTextP t st lvl l).length + 1 ≤ fuel →
    pMembers fuel (ws ++ (membersTextP t st lvl l ++ (cl ++ '}' :: rest))) = some (l, rest)
  | [], _, _, _, _, _, _, _, _, _, _, _, _, hne, _ => absurd rfl hne
  | [(k, v)], t, st, lvl, ws, rest, cl, fuel, ht, hj, hrest, hws, hcl, _, hlen => by
    cases fuel with
    | zero => simp at hlen
    | succ f =>
      simp only [NumOKMembers] at hj
      obtain ⟨wsK, hK, hwsK⟩ := keySep_spec st
      simp only [membersTextP, restMembersP, writeStrP, hK, List.append_nil, List.length_cons, List.length_append] at hlen ⊢
      have hv := pv v t st lvl wsK (cl ++ '}' :: rest) f ht hj.1 (stopOK_close cl rest '}' hcl (by decide)) hwsK
        (by omega)
      simp only [pMembers, skipWs_append _ _ hws, List.cons_append, List.append_assoc, List.singleton_append,
        List.nil_append]
      rw [skipWs_cons _ _ (by decide)]
      simp only [if_true]
      rw [parse_escaped t ht k]
      simp only []
      rw [skipWs_cons _ _ (by decide)]
      simp only [if_true, hv, skipWs_append _ _ hcl]
      rw [skipWs_cons _ _ (by decide)]
      simp
  | (k, v) :: m2 :: ms, t, st, lvl, ws, rest, cl, fuel, ht, hj, hrest, hws, hcl, _, hlen => by
    cases fuel with
    | zero => simp at hlen
    | succ f =>
      simp only [NumOKMembers] at hj
      obtain ⟨wsK, hK, hwsK⟩ := keySep_spec st
      obtain ⟨wsB, hB, hwsB⟩ := before_next st lvl false
      have hE : membersTextP t st lvl ((k, v) :: m2 :: ms)
          = '"' :: (postT t (escBody k) ++ ('"' :: (':' :: (wsK ++ (writeAtP t st lvl v ++
              (',' :: (wsB ++ membersTextP t st lvl (m2 :: ms)))))))) := by
        obtain ⟨k2, v2⟩ := m2
        simp only [membersTextP, restMembersP, writeStrP, hK, hB, List.cons_append, List.append_assoc,
          List.singleton_append, List.nil_append]
      rw [hE] at hlen ⊢
      simp only [List.length_append, List.length_cons] at hlen
      have hv := pv v t st lvl wsK (',' :: (wsB ++ (membersTextP t st lvl (m2 :: ms) ++ (cl ++ '}' :: rest)))) f ht hj.1
        (by simp [StopOK, isNumChar, isDigit]) hwsK (by omega)
      have hrec := pm (m2 :: ms) t st lvl wsB rest cl f ht hj.2 hrest hwsB hcl (by simp) (by omega)
      simp only [pMembers, skipWs_append _ _ hws, List.cons_append, List.append_assoc]
      rw [skipWs_cons _ _ (by decide)]
      simp only [if_true]
      rw [parse_escaped t ht k]
      simp only []
      rw [skipWs_cons _ _ (by decide)]
      simp only [if_true, hv]
      rw [skipWs_cons _ _ (by decide)]
      simp only [if_true]
      rw [hrec]
end

end MJ.Json
