import MJ.Model.PySlice
/-! Sanity of the CPython transcription: declarative reading of `indices`. -/
namespace MJ.PySlice

theorem lt_div_succ_iff' (j m k : Nat) (hk : 0 < k) : j < m / k + 1 ↔ j * k ≤ m := by
  rw [Nat.lt_succ_iff, Nat.le_div_iff_mul_le hk]

theorem clampPos_nonneg (L : Int) (b : Option Int) (d : Int) (hL : 0 ≤ L) (hd : 0 ≤ d) :
    0 ≤ clampPos L b d := by
  unfold clampPos
  cases b with
  | none => exact hd
  | some s => simp only; split <;> omega

theorem clampPos_le (L : Int) (b : Option Int) (d : Int) (hL : 0 ≤ L) (hd : d ≤ L) :
    clampPos L b d ≤ L := by
  unfold clampPos
  cases b with
  | none => exact hd
  | some s => simp only; split <;> omega

/-- the count formula: `j < n ↔ lo + j*k < hi` -/
theorem count_iff (lo hi : Int) (k j : Nat) (hk : 0 < k) (hlo : 0 ≤ lo) :
    j < (if lo < hi then ((hi - lo - 1) / (k : Int) + 1).toNat else 0) ↔ lo + ((j * k : Nat) : Int) < hi := by
  by_cases h : lo < hi
  · rw [if_pos h]
    obtain ⟨m, hm⟩ : ∃ m : Nat, hi - lo - 1 = (m : Int) := ⟨(hi - lo - 1).toNat, by omega⟩
    rw [hm, ← Int.natCast_ediv]
    have : (((m / k : Nat) : Int) + 1).toNat = m / k + 1 := by generalize m / k = q; omega
    rw [this, lt_div_succ_iff' j m k hk]
    generalize j * k = p
    omega
  · rw [if_neg h]
    generalize j * k = p
    omega

/-- for a positive step the selected positions are exactly the `i` with `lo ≤ i < hi` that are
    congruent to `lo` modulo the step, where lo/hi are Python's clamped bounds -/
theorem mem_indices_pos (len : Nat) (start stop : Option Int) (k : Nat) (hk : 0 < k) (i : Nat) :
    i ∈ indices len start stop (k : Int) ↔
      clampPos len start 0 ≤ (i : Int) ∧ (i : Int) < clampPos len stop len ∧
      ((i : Int) - clampPos len start 0) % (k : Int) = 0 := by
  have hlo := clampPos_nonneg len start 0 (Int.natCast_nonneg _) (by omega)
  unfold indices adjust
  have hk' : ((k : Int) > 0) := by omega
  simp only [hk', if_true]
  generalize clampPos len start 0 = lo at hlo ⊢
  generalize clampPos len stop len = hi
  rw [List.mem_map]
  constructor
  · rintro ⟨j, hj, rfl⟩
    rw [List.mem_range, count_iff lo hi k j hk hlo] at hj
    rw [← Int.natCast_mul]
    refine ⟨by omega, by omega, ?_⟩
    have : ((lo + ((j * k : Nat) : Int)).toNat : Int) - lo = ((j * k : Nat) : Int) := by omega
    rw [this, Int.natCast_mul]
    exact Int.mul_emod_left _ _
  · rintro ⟨h1, h2, h3⟩
    obtain ⟨q, hq⟩ := Int.dvd_of_emod_eq_zero h3
    have hq0 : 0 ≤ q := by
      by_cases h : q < 0
      · have : (k : Int) * q < 0 := Int.mul_neg_of_pos_of_neg hk' h
        omega
      · omega
    refine ⟨q.toNat, ?_, ?_⟩
    · rw [List.mem_range, count_iff lo hi k q.toNat hk hlo, Int.natCast_mul]
      have : ((q.toNat : Nat) : Int) = q := Int.toNat_of_nonneg hq0
      rw [this, Int.mul_comm]; omega
    · have : ((q.toNat : Nat) : Int) = q := Int.toNat_of_nonneg hq0
      rw [this, Int.mul_comm]; omega

/-- positions come out in strictly increasing order for a positive step -/
theorem indices_pos_sorted (len : Nat) (start stop : Option Int) (k : Nat) (hk : 0 < k) :
    (indices len start stop (k : Int)).Pairwise (· < ·) := by
  have hlo := clampPos_nonneg len start 0 (Int.natCast_nonneg _) (by omega)
  unfold indices adjust
  have hk' : ((k : Int) > 0) := by omega
  simp only [hk', if_true]
  generalize clampPos len start 0 = lo at hlo ⊢
  rw [List.pairwise_map]
  apply List.Pairwise.imp _ (List.pairwise_lt_range)
  intro a b hab
  have : (a : Int) * k < (b : Int) * k := Int.mul_lt_mul_of_pos_right (by omega) hk'
  rw [← Int.natCast_mul, ← Int.natCast_mul] at *
  generalize a * k = p at *
  generalize b * k = q at *
  omega

theorem clampNeg_ge (L : Int) (b : Option Int) (d : Int) (hL : 0 ≤ L) (hd : -1 ≤ d) : -1 ≤ clampNeg L b d := by
  unfold clampNeg
  cases b with
  | none => exact hd
  | some s => simp only; split <;> omega

/-- the count formula for a negative step: `j < n ↔ hi - j*k > lo` (hi = start, lo = stop) -/
theorem count_iff_neg (hi lo : Int) (k j : Nat) (hk : 0 < k) :
    j < (if lo < hi then ((hi - lo - 1) / (k : Int) + 1).toNat else 0) ↔ lo < hi - ((j * k : Nat) : Int) := by
  by_cases h : lo < hi
  · rw [if_pos h]
    obtain ⟨m, hm⟩ : ∃ m : Nat, hi - lo - 1 = (m : Int) := ⟨(hi - lo - 1).toNat, by omega⟩
    rw [hm, ← Int.natCast_ediv]
    have : (((m / k : Nat) : Int) + 1).toNat = m / k + 1 := by generalize m / k = q; omega
    rw [this, lt_div_succ_iff' j m k hk]
    generalize j * k = p
    omega
  · rw [if_neg h]
    generalize j * k = p
    omega

/-- for a negative step `-k` the selected positions are exactly the `i` with `stop' < i ≤ start'`
    congruent to `start'` modulo `k`, where start'/stop' are Python's clamped bounds (−1 = before
    the first element) -/
theorem mem_indices_neg (len : Nat) (start stop : Option Int) (k : Nat) (hk : 0 < k) (i : Nat) :
    i ∈ indices len start stop (-(k : Int)) ↔
      clampNeg len stop (-1) < (i : Int) ∧ (i : Int) ≤ clampNeg len start ((len : Int) - 1) ∧
      (clampNeg len start ((len : Int) - 1) - (i : Int)) % (k : Int) = 0 := by
  have hlo := clampNeg_ge len stop (-1) (Int.natCast_nonneg _) (by omega)
  unfold indices adjust
  have hk' : ¬ (-(k : Int) > 0) := by omega
  have hk2 : ((k : Int) > 0) := by omega
  simp only [hk', if_false, Int.neg_neg]
  generalize clampNeg len start ((len : Int) - 1) = hi
  generalize clampNeg len stop (-1) = lo at hlo ⊢
  rw [List.mem_map]
  constructor
  · rintro ⟨j, hj, rfl⟩
    rw [List.mem_range, count_iff_neg hi lo k j hk] at hj
    rw [Int.mul_neg, ← Int.natCast_mul]
    refine ⟨by omega, by omega, ?_⟩
    have : hi - ((hi + -((j * k : Nat) : Int)).toNat : Int) = ((j * k : Nat) : Int) := by omega
    rw [this, Int.natCast_mul]
    exact Int.mul_emod_left _ _
  · rintro ⟨h1, h2, h3⟩
    obtain ⟨q, hq⟩ := Int.dvd_of_emod_eq_zero h3
    have hq0 : 0 ≤ q := by
      by_cases h : q < 0
      · have : (k : Int) * q < 0 := Int.mul_neg_of_pos_of_neg hk2 h
        omega
      · omega
    have hqn : ((q.toNat : Nat) : Int) = q := Int.toNat_of_nonneg hq0
    refine ⟨q.toNat, ?_, ?_⟩
    · rw [List.mem_range, count_iff_neg hi lo k q.toNat hk, Int.natCast_mul, hqn, Int.mul_comm]; omega
    · rw [hqn, Int.mul_neg, Int.mul_comm]; omega

end MJ.PySlice
