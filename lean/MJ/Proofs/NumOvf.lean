import MJ.Proofs.NumRound
/-!
# Overflow of the rounding function: `encodeRat p q` is infinity exactly from `f64::MAX + ulp/2` on

With `encodeRat_nearest` (finite results are round-to-nearest-even) this makes the float `+ - * /`
theorems total: for finite operands the result is either the correctly rounded finite double or,
exactly when the exact result's magnitude reaches the threshold, the infinity of the right sign.
-/
namespace MJ.NumF
open MJ.F64 MJ.NumX

/-- the overflow threshold of binary64 in units of `2^-1074`: `f64::MAX` plus half an ulp,
    `(2^54 - 1) · 2^2044 = 2^1024 - 2^970` scaled; a tie there goes to the even side, infinity -/
def ovfThreshold : Nat := (2 ^ 54 - 1) * 2 ^ 2044

set_option exponentiation.threshold 3000 in
set_option maxRecDepth 100000 in
theorem encodeRat_overflow (p q : Nat) (hq : 0 < q) (h : ovfThreshold * q ≤ p) :
    encodeRat p q = infMag := by
  have hsO : ovfThreshold ≤ p / q := (Nat.le_div_iff_mul_le hq).2 h
  have hT1 : P53 ≤ ovfThreshold := by decide
  have hs : ¬ p / q < P53 := by omega
  have hs0 : p / q ≠ 0 := by unfold P53 at hs; omega
  obtain ⟨hl1, hl2⟩ := log2_bounds hs0
  have hT2 : 2 ^ 2097 ≤ ovfThreshold := by decide
  have hl : 2097 ≤ (p / q).log2 := by
    have h3 : 2 ^ 2097 < 2 ^ ((p / q).log2 + 1) := by omega
    have := (Nat.pow_lt_pow_iff_right (by omega : 1 < 2)).mp h3
    omega
  obtain ⟨hq1, hq2⟩ := q_bounds (by omega : 52 < (p / q).log2) hl1 hl2
  unfold encodeRat
  simp only [hs, if_false]
  have clamp : ∀ X : Nat, infMag ≤ X → (if infMag ≤ X then infMag else X) = infMag := by
    intro X hX; rw [if_pos hX]
  apply clamp
  have hinf : infMag = 2047 * P52 := by decide
  by_cases hbig : 2098 ≤ (p / q).log2
  · -- a binade beyond the last finite one
    have : 2047 * P52 ≤ ((p / q).log2 - 52 + 1) * P52 := Nat.mul_le_mul_right _ (by omega)
    rw [hinf]
    omega
  · -- the last binade, at or above MAX + ulp/2: rounds up to 2^1024
    have hl' : (p / q).log2 = 2097 := by omega
    rw [hl'] at hq1 hq2 hl1 hl2 ⊢
    simp only [show 2097 - 52 = 2045 from rfl, show 2045 - 1 = 2044 from rfl, show 2045 + 1 = 2046 from rfl] at *
    generalize hs' : p / q = s at *
    have hqq : s / 2 ^ 2045 = 2 ^ 53 - 1 := by
      have h1 : 2 ^ 53 - 1 ≤ s / 2 ^ 2045 := by
        rw [Nat.le_div_iff_mul_le (Nat.pow_pos (by omega))]
        have : (2 ^ 53 - 1) * 2 ^ 2045 ≤ ovfThreshold := by decide
        omega
      have : (2 : Nat) * P52 = 2 ^ 53 := by decide
      omega
    have hr2 : 2 ^ 2044 ≤ s % 2 ^ 2045 := by
      have hdm := Nat.div_add_mod s (2 ^ 2045)
      rw [hqq] at hdm
      have : ovfThreshold = 2 ^ 2045 * (2 ^ 53 - 1) + 2 ^ 2044 := by decide
      omega
    rw [hqq]
    have hodd : (2 ^ 53 - 1) % 2 = 1 := by decide
    have hcond : 2 ^ 2044 < s % 2 ^ 2045 ∨ (s % 2 ^ 2045 = 2 ^ 2044 ∧ (p % q ≠ 0 ∨ (2 ^ 53 - 1) % 2 = 1)) := by
      by_cases hgt : 2 ^ 2044 < s % 2 ^ 2045
      · exact Or.inl hgt
      · exact Or.inr ⟨by omega, Or.inr hodd⟩
    rw [if_pos hcond, hinf]
    decide

set_option exponentiation.threshold 3000 in
set_option maxRecDepth 100000 in
theorem encodeRat_finite_below (p q : Nat) (hq : 0 < q) (h : p < ovfThreshold * q) :
    encodeRat p q < infMag := by
  have hsO : p / q < ovfThreshold := (Nat.div_lt_iff_lt_mul hq).2 h
  by_cases hs : p / q < P53
  · rw [encodeRat_lo hs]
    have : P53 + 1 < infMag := by decide
    split <;> omega
  · have hs0 : p / q ≠ 0 := by unfold P53 at hs; omega
    obtain ⟨hl1, hl2⟩ := log2_bounds hs0
    have hl : 52 < (p / q).log2 := by
      have h53 : 2 ^ 53 < 2 ^ ((p / q).log2 + 1) := by
        have : (2 : Nat) ^ 53 = P53 := by decide
        rw [this]; omega
      have := (Nat.pow_lt_pow_iff_right (by omega : 1 < 2)).mp h53
      omega
    have hT : ovfThreshold < 2 ^ 2098 := by decide
    have hu : (p / q).log2 ≤ 2097 := by
      have h3 : 2 ^ (p / q).log2 < 2 ^ 2098 := by omega
      have := (Nat.pow_lt_pow_iff_right (by omega : 1 < 2)).mp h3
      omega
    obtain ⟨hq1, hq2⟩ := q_bounds hl hl1 hl2
    unfold encodeRat
    simp only [hs, if_false]
    have hinf : infMag = 2047 * P52 := by decide
    have clamp : ∀ X : Nat, X < infMag → (if infMag ≤ X then infMag else X) < infMag := by
      intro X hX; rw [if_neg (by omega)]; exact hX
    apply clamp
    by_cases hlast : (p / q).log2 = 2097
    · rw [hlast] at hq1 hq2 hl1 hl2 ⊢
      simp only [show 2097 - 52 = 2045 from rfl, show 2045 - 1 = 2044 from rfl, show 2045 + 1 = 2046 from rfl] at *
      generalize hs' : p / q = s at *
      have hdm := Nat.div_add_mod s (2 ^ 2045)
      have hthr : ovfThreshold = 2 ^ 2045 * (2 ^ 53 - 1) + 2 ^ 2044 := by decide
      have h2P : (2 : Nat) * P52 = 2 ^ 53 := by decide
      by_cases htop : s / 2 ^ 2045 = 2 ^ 53 - 1
      · -- the top significand: below the threshold means below the half-way point, no round-up
        rw [htop] at hdm ⊢
        have hr2 : s % 2 ^ 2045 < 2 ^ 2044 := by omega
        have hcond : ¬ (2 ^ 2044 < s % 2 ^ 2045 ∨ (s % 2 ^ 2045 = 2 ^ 2044 ∧ (p % q ≠ 0 ∨ (2 ^ 53 - 1) % 2 = 1))) := by
          intro hc
          rcases hc with hc | ⟨hc, _⟩ <;> omega
        rw [if_neg hcond, hinf]
        decide
      · have hle : s / 2 ^ 2045 + 1 ≤ 2 ^ 53 - 1 := by omega
        rw [hinf]
        generalize s / 2 ^ 2045 = qq at *
        have h53 : (2 : Nat) ^ 53 - 1 + 1 = 2 * P52 := by decide
        split <;> omega
    · have hk : (p / q).log2 - 52 + 1 ≤ 2045 := by omega
      have : ((p / q).log2 - 52 + 1) * P52 ≤ 2045 * P52 := Nat.mul_le_mul_right _ hk
      rw [hinf]
      generalize (p / q / 2 ^ ((p / q).log2 - 52)) = qq at *
      generalize ((p / q).log2 - 52 + 1) * P52 = A at *
      split <;> omega

/-- **overflow, both ways**: the rounding saturates to infinity exactly when the value is at least
    `f64::MAX` plus half an ulp (where the tie goes to the even neighbour, `2^1024`) -/
theorem encodeRat_overflow_iff (p q : Nat) (hq : 0 < q) :
    encodeRat p q = infMag ↔ ovfThreshold * q ≤ p := by
  constructor
  · intro h
    by_cases hlt : p < ovfThreshold * q
    · have := encodeRat_finite_below p q hq hlt
      omega
    · omega
  · exact encodeRat_overflow p q hq

theorem encodeRat_finite_iff (p q : Nat) (hq : 0 < q) : encodeRat p q < infMag ↔ p < ovfThreshold * q := by
  have h1 := encodeRat_overflow_iff p q hq
  have h2 := encodeRat_le_infMag p q
  constructor
  · intro h
    by_cases hc : ovfThreshold * q ≤ p
    · have := h1.2 hc
      omega
    · omega
  · intro h
    by_cases hc : encodeRat p q = infMag
    · have := h1.1 hc
      omega
    · omega

theorem isFinite_signedBits_iff (neg : Bool) (M : Nat) (hM : M ≤ infMag) :
    isFinite (signedBits neg M) = true ↔ M < infMag :=
  ⟨finite_signedBits hM, fun h => (key_signedBits neg M h).2.1⟩

/-- `a * b` is finite exactly when the exact product is below the overflow threshold; otherwise it
    is the infinity with the product of the signs -/
theorem fmul_finite_iff (a b : Nat) :
    (isFinite (fmul a b) = true ↔ scaled a * scaled b < ovfThreshold * scale) ∧
    (isFinite (fmul a b) = false → fmul a b = signedBits (sign a != sign b) infMag) := by
  unfold fmul
  have hle := encodeRat_le_infMag (scaled a * scaled b) scale
  have hiff := isFinite_signedBits_iff (sign a != sign b) _ hle
  refine ⟨hiff.trans (encodeRat_finite_iff _ _ scale_pos'), ?_⟩
  intro hnf
  have : ¬ encodeRat (scaled a * scaled b) scale < infMag := fun h => by
    rw [hiff.2 h] at hnf; cases hnf
  rw [show encodeRat (scaled a * scaled b) scale = infMag by omega]

/-- `a / b` (`b ≠ 0`) likewise -/
theorem fdiv_finite_iff (a b : Nat) (hb : scaled b ≠ 0) :
    (isFinite (fdiv a b) = true ↔ scaled a * scale < ovfThreshold * scaled b) ∧
    (isFinite (fdiv a b) = false → fdiv a b = signedBits (sign a != sign b) infMag) := by
  unfold fdiv
  have hle := encodeRat_le_infMag (scaled a * scale) (scaled b)
  have hiff := isFinite_signedBits_iff (sign a != sign b) _ hle
  refine ⟨hiff.trans (encodeRat_finite_iff _ _ (by omega)), ?_⟩
  intro hnf
  have : ¬ encodeRat (scaled a * scale) (scaled b) < infMag := fun h => by
    rw [hiff.2 h] at hnf; cases hnf
  rw [show encodeRat (scaled a * scale) (scaled b) = infMag by omega]

set_option exponentiation.threshold 3000 in
set_option maxRecDepth 100000 in
/-- `a + b` is finite exactly when the exact sum is below the threshold in magnitude; otherwise it
    is the infinity with the sign of the exact sum -/
theorem fadd_finite_iff (a b : Nat) :
    (isFinite (fadd a b) = true ↔ (key a + key b).natAbs < ovfThreshold) ∧
    (isFinite (fadd a b) = false → fadd a b = signedBits (decide (key a + key b < 0)) infMag) := by
  unfold fadd
  simp only []
  by_cases hk : key a + key b = 0
  · rw [if_pos hk, hk]
    have h0 : (0 : Nat) < ovfThreshold := by decide
    have f1 : isFinite P63 = true := by decide
    have f2 : isFinite 0 = true := by decide
    constructor
    · constructor
      · intro _; exact h0
      · intro _; split <;> assumption
    · intro hnf
      split at hnf <;> simp_all
  · rw [if_neg hk]
    unfold ofKey
    have hle := encodeRat_le_infMag (key a + key b).natAbs 1
    have hiff := isFinite_signedBits_iff (decide (key a + key b < 0)) _ hle
    have hfi := encodeRat_finite_iff (key a + key b).natAbs 1 (by omega)
    rw [Nat.mul_one] at hfi
    refine ⟨hiff.trans hfi, ?_⟩
    intro hnf
    have : ¬ encodeRat (key a + key b).natAbs 1 < infMag := fun h => by
      rw [hiff.2 h] at hnf; cases hnf
    rw [show encodeRat (key a + key b).natAbs 1 = infMag by omega]

end MJ.NumF
