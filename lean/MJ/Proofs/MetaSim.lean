import MJ.Proofs.MetaClosure
/-! The simulation between run-time name resolution (`exec`) and the analysis (`walk`):
whatever a statement asks the context for is in the report afterwards (or is the name of a
self-referential macro), and the analysis' notion of "assigned" stays justified (C18). -/
namespace MJ.Meta

/-- result `r = (new top frame, look-ups)` of executing a piece of code from frame `top` over
`below`, against the tracker `st'` after walking the same piece; `ex` = exception names -/
structure Sim (top : Frame) (below : List Frame) (r : Frame × List String) (st' : St)
    (ex : List String) : Prop where
  inv : Inv r.1 below st'
  grow : ∀ x ∈ top, x ∈ r.1
  reads : ∀ x ∈ r.2, x ∈ st'.out ∨ x ∈ ex
  unb : ∀ x ∈ r.2, bound top below x = false ∨ x ∈ ex

theorem Sim.nil {top : Frame} {below : List Frame} {st : St} (h : Inv top below st)
    (ex : List String) : Sim top below (top, []) st ex :=
  ⟨h, fun _ hx => hx, fun x hx => (by cases hx), fun x hx => (by cases hx)⟩

theorem Sim.ex_mono {top : Frame} {below : List Frame} {r : Frame × List String} {st : St}
    {ex ex' : List String} (h : Sim top below r st ex) (he : ∀ x ∈ ex, x ∈ ex') :
    Sim top below r st ex' :=
  ⟨h.inv, h.grow, fun x hx => (h.reads x hx).imp id (he x), fun x hx => (h.unb x hx).imp id (he x)⟩

theorem Sim.seq {top : Frame} {below : List Frame} {r1 r2 : Frame × List String} {st1 st2 : St}
    {ex1 ex2 : List String} (h1 : Sim top below r1 st1 ex1) (h2 : Sim r1.1 below r2 st2 ex2)
    (hout : ∀ x ∈ st1.out, x ∈ st2.out) : Sim top below (r2.1, r1.2 ++ r2.2) st2 (ex1 ++ ex2) := by
  refine ⟨h2.inv, fun x hx => h2.grow x (h1.grow x hx), ?_, ?_⟩
  · intro x hx
    simp only [List.mem_append] at hx ⊢
    rcases hx with hx | hx
    · rcases h1.reads x hx with h | h
      · exact Or.inl (hout x h)
      · exact Or.inr (Or.inl h)
    · rcases h2.reads x hx with h | h
      · exact Or.inl h
      · exact Or.inr (Or.inr h)
  · intro x hx
    simp only [List.mem_append] at hx ⊢
    rcases hx with hx | hx
    · exact (h1.unb x hx).imp id Or.inl
    · rcases h2.unb x hx with h | h
      · exact Or.inl (unbound_anti h1.grow h)
      · exact Or.inr (Or.inr h)

/-- same stack, larger report -/
theorem Sim.retarget {top : Frame} {below : List Frame} {r : Frame × List String} {a b : St}
    {ex : List String} (h : Sim top below r a ex) (he : b.assigned = a.assigned)
    (ho : ∀ x ∈ a.out, x ∈ b.out) : Sim top below r b ex :=
  ⟨h.inv.of_assigned_eq he ho, h.grow, fun x hx => (h.reads x hx).imp (ho x) id, h.unb⟩

/-- the analysis pops the scope it pushed for a body that ran in the current frame -/
theorem Sim.scope {top : Frame} {below : List Frame} {r : Frame × List String} {a b : St}
    {ex : List String} (ha : Inv top below a) (hs : Step a.push b) (h : Sim top below r b ex) :
    Sim top below r b.pop ex := by
  obtain ⟨e, o, _⟩ := step_scope hs
  exact ⟨(ha.mono_top h.grow).of_assigned_eq e o, h.grow, h.reads, h.unb⟩

theorem sim_visitVars {top : Frame} {below : List Frame} {st : St} (xs : List String)
    (h : Inv top below st) : Sim top below (top, lookups top below xs) (visitVars st xs) [] := by
  obtain ⟨h1, h2⟩ := inv_visitVars xs h
  exact ⟨h1, fun _ hx => hx, fun x hx => Or.inl (h2 x hx),
    fun x hx => Or.inl ((mem_lookups _ _ _ _).1 hx).2⟩

theorem sim_atoms {top : Frame} {below : List Frame} (as : List TAtom) {st : St}
    (h : Inv top below st) :
    Sim top below (bindAtoms top below as) (as.foldl trackAtom st) [] := by
  induction as generalizing top st with
  | nil => exact Sim.nil h []
  | cons a as ih =>
    cases a with
    | name x =>
      simp only [bindAtoms, List.foldl_cons, trackAtom]
      have := ih (inv_assign x h)
      exact ⟨this.inv, fun y hy => this.grow y (List.mem_cons_of_mem _ hy), this.reads,
        fun y hy => (this.unb y hy).imp
          (unbound_anti (fun z hz => List.mem_cons_of_mem _ hz)) id⟩
    | look e =>
      simp only [bindAtoms, List.foldl_cons, trackAtom]
      have h1 := sim_visitVars (vars e) h
      have h2 := ih h1.inv
      have := Sim.seq h1 h2 (step_trackAtoms _ as).out
      simpa [visitExpr] using this

theorem sim_trackAssign {top : Frame} {below : List Frame} (t : Expr) {st : St}
    (h : Inv top below st) :
    Sim top below (bindAtoms top below (targetAtoms t)) (trackAssign st t) [] :=
  sim_atoms _ h

theorem sim_with {top : Frame} {below : List Frame} (as : List (Expr × Expr)) {st : St}
    (h : Inv top below st) : Sim top below (bindWith top below as) (withAssigns st as) [] := by
  induction as generalizing top st with
  | nil => simpa [bindWith, withAssigns] using Sim.nil h []
  | cons p as ih =>
    obtain ⟨t, e⟩ := p
    simp only [bindWith, withAssigns]
    have h1 := sim_visitVars (vars e) h
    have h2 := sim_trackAssign t h1.inv
    have h12 := Sim.seq h1 h2 (step_trackAssign _ t).out
    have h3 := ih h12.inv
    have := Sim.seq h12 h3 (step_withAssigns _ as).out
    simpa [visitExpr, List.append_assoc] using this

theorem sim_args {top : Frame} {below : List Frame} (as : List String) (ds : List Expr) {st : St}
    (h : Inv top below st) : Sim top below (bindArgs top below as ds) (macroArgs st as ds) [] := by
  induction as generalizing top st ds with
  | nil => simpa [bindArgs, macroArgs] using Sim.nil h []
  | cons a as ih =>
    cases ds with
    | nil =>
      simp only [bindArgs, macroArgs]
      have := ih [] (inv_assign a h)
      exact ⟨this.inv, fun y hy => this.grow y (List.mem_cons_of_mem _ hy), this.reads,
        fun y hy => (this.unb y hy).imp
          (unbound_anti (fun z hz => List.mem_cons_of_mem _ hz)) id⟩
    | cons d ds =>
      simp only [bindArgs, macroArgs]
      have h1 := sim_visitVars (vars d) h
      have h2 := ih ds (inv_assign a h1.inv)
      have h2' : Sim top below (bindArgs (a :: top) below as ds)
          (macroArgs ((visitExpr st d).assign a) as ds) [] :=
        ⟨h2.inv, fun y hy => h2.grow y (List.mem_cons_of_mem _ hy), h2.reads,
          fun y hy => (h2.unb y hy).imp
            (unbound_anti (fun z hz => List.mem_cons_of_mem _ hz)) id⟩
      have := Sim.seq h1 h2' (Step.trans (step_assign _ a) (step_macroArgs _ as ds)).out
      simpa using this

/-- induction hypothesis for a sub-body -/
def BodyOK (body : List Stmt) : Prop :=
  ∀ (st : St) (top : Frame) (below : List Frame) (cs : List Ch), Inv top below st →
    Sim top below (execList top below cs body) (walkList st body) (selfRefsL body)

/-- a body that runs in the current frame while the analysis gives it a scope of its own -/
theorem sim_scoped_body {body : List Stmt} (hb : BodyOK body) {top : Frame} {below : List Frame}
    {a : St} (ha : Inv top below a) (cs : List Ch) :
    Sim top below (execList top below cs body) (walkList a.push body).pop (selfRefsL body) :=
  Sim.scope ha (step_walkList body _) (hb _ _ _ cs ha.push)

theorem pop_out (st : St) : st.pop.out = st.out := rfl

theorem sim_if (e : Expr) (t f : List Stmt) (ht : BodyOK t) (hf : BodyOK f)
    (st : St) (top : Frame) (below : List Frame) (c : Ch) (h : Inv top below st) :
    Sim top below (exec top below c (.ifCond e t f)) (walk st (.ifCond e t f))
      (selfRefs (.ifCond e t f)) := by
  have hv := sim_visitVars (vars e) h
  have hst2 : Step (visitExpr st e) (walkList (visitExpr st e).push t).pop :=
    step_of_scope (step_walkList t _)
  have hst3 : Step (walkList (visitExpr st e).push t).pop
      (walkList (walkList (visitExpr st e).push t).pop.push f).pop :=
    step_of_scope (step_walkList f _)
  obtain ⟨e2, o2, _⟩ := step_scope (step_walkList t (visitExpr st e).push)
  obtain ⟨e3, o3, _⟩ := step_scope (step_walkList f (walkList (visitExpr st e).push t).pop.push)
  simp only [walk, selfRefs]
  by_cases hn : c.n = 0
  · simp only [exec, hn, if_true]
    have hi2 : Inv top below (walkList (visitExpr st e).push t).pop :=
      hv.inv.of_assigned_eq e2 o2
    have h3 := sim_scoped_body hf hi2 c.sub0
    have := Sim.seq hv h3 (Step.trans hst2 hst3).out
    exact this.ex_mono (fun x hx => by simp at hx ⊢; exact Or.inr hx)
  · simp only [exec, hn, if_false]
    have h2 := sim_scoped_body ht hv.inv c.sub0
    have h2' := h2.retarget e3 o3
    have := Sim.seq hv h2' (Step.trans hst2 hst3).out
    exact this.ex_mono (fun x hx => by simp at hx ⊢; exact Or.inl hx)

theorem sim_autoEscape (e : Expr) (body : List Stmt) (hb : BodyOK body)
    (st : St) (top : Frame) (below : List Frame) (c : Ch) (h : Inv top below st) :
    Sim top below (exec top below c (.autoEscape e body)) (walk st (.autoEscape e body))
      (selfRefs (.autoEscape e body)) := by
  have hv := sim_visitVars (vars e) h
  have h2 := sim_scoped_body hb hv.inv c.sub0
  have := Sim.seq hv h2 (step_of_scope (step_walkList body (visitExpr st e).push)).out
  simpa only [walk, exec, selfRefs, List.nil_append, visitExpr] using this

theorem sim_filterBlock (filter : Expr) (body : List Stmt) (hb : BodyOK body)
    (st : St) (top : Frame) (below : List Frame) (c : Ch) (h : Inv top below st) :
    Sim top below (exec top below c (.filterBlock filter body)) (walk st (.filterBlock filter body))
      (selfRefs (.filterBlock filter body)) := by
  have h1 := sim_scoped_body hb h c.sub0
  have h2 := sim_visitVars (vars filter) h1.inv
  have := Sim.seq h1 h2 (step_visitVars _ _).out
  simpa only [walk, exec, selfRefs, List.append_nil, visitExpr] using this

theorem sim_setBlock (target : Expr) (filter : Option Expr) (body : List Stmt) (hb : BodyOK body)
    (st : St) (top : Frame) (below : List Frame) (c : Ch) (h : Inv top below st) :
    Sim top below (exec top below c (.setBlock target filter body))
      (walk st (.setBlock target filter body)) (selfRefs (.setBlock target filter body)) := by
  have h1 := sim_scoped_body hb h c.sub0
  have h2 := sim_visitVars (varsOpt filter) h1.inv
  have h12 := Sim.seq h1 h2 (step_visitVars _ _).out
  have h3 := sim_trackAssign target h12.inv
  have := Sim.seq h12 h3 (step_trackAssign _ target).out
  simpa only [walk, exec, selfRefs, List.append_nil, visitOpt, List.append_assoc] using this

theorem sim_set (target e : Expr)
    (st : St) (top : Frame) (below : List Frame) (c : Ch) (h : Inv top below st) :
    Sim top below (exec top below c (.set target e)) (walk st (.set target e))
      (selfRefs (.set target e)) := by
  have h1 := sim_visitVars (vars e) h
  have h2 := sim_trackAssign target h1.inv
  have := Sim.seq h1 h2 (step_trackAssign _ target).out
  simpa only [walk, exec, selfRefs, List.append_nil, visitExpr] using this

theorem sim_withBlock (assigns : List (Expr × Expr)) (body : List Stmt) (hb : BodyOK body)
    (st : St) (top : Frame) (below : List Frame) (c : Ch) (h : Inv top below st) :
    Sim top below (exec top below c (.withBlock assigns body)) (walk st (.withBlock assigns body))
      (selfRefs (.withBlock assigns body)) := by
  have h1 := sim_with assigns h.push.push_frame
  have h2 := hb _ _ _ c.sub0 h1.inv
  have h12 := Sim.seq h1 h2 (step_walkList body _).out
  obtain ⟨e, o, _⟩ := step_scope
    (Step.trans (step_withAssigns st.push assigns) (step_walkList body _))
  simp only [walk, exec, selfRefs]
  refine ⟨h.of_assigned_eq e o, fun _ hx => hx, ?_, ?_⟩
  · intro x hx
    have := h12.reads x hx
    simpa [pop_out] using this
  · intro x hx
    rcases h12.unb x hx with hu | hu
    · exact Or.inl (by rw [bound_push] at hu; exact hu)
    · exact Or.inr (by simpa using hu)

theorem sim_for (target iter : Expr) (filter : Option Expr) (body els : List Stmt)
    (hb : BodyOK body) (he : BodyOK els)
    (st : St) (top : Frame) (below : List Frame) (c : Ch) (h : Inv top below st) :
    Sim top below (exec top below c (.forLoop target iter filter body els))
      (walk st (.forLoop target iter filter body els))
      (selfRefs (.forLoop target iter filter body els)) := by
  -- tracker states along `track_walk`
  generalize hsB : visitExpr st.push iter = sB
  generalize hsC : trackAssign sB target = sC
  generalize hsD : visitOpt sC filter = sD
  generalize hsF : walkList (sD.assign "loop") body = sF
  generalize hsH : walkList sF.pop.push els = sH
  have hw : walk st (.forLoop target iter filter body els) = sH.pop := by
    simp only [walk, hsB, hsC, hsD, hsF, hsH]
  have stAB : Step st.push sB := hsB ▸ step_visitExpr _ _
  have stBC : Step sB sC := hsC ▸ step_trackAssign _ _
  have stCD : Step sC sD := hsD ▸ step_visitOpt _ _
  have stDF : Step sD sF := hsF ▸ Step.trans (step_assign _ _) (step_walkList _ _)
  have stAF : Step st.push sF := ((stAB.trans stBC).trans stCD).trans stDF
  obtain ⟨eG, oG, _⟩ := step_scope stAF
  have stGH : Step sF.pop.push sH := hsH ▸ step_walkList _ _
  obtain ⟨eH, oH, _⟩ := step_scope stGH
  have hiG : Inv top below sF.pop := h.of_assigned_eq eG oG
  have hfin : Inv top below sH.pop := hiG.of_assigned_eq eH oH
  -- report inclusions up to the final tracker
  have oF : ∀ x ∈ sF.out, x ∈ sH.pop.out := fun x hx => oH x hx
  have oD : ∀ x ∈ sD.out, x ∈ sH.pop.out := fun x hx => oF x (stDF.out x hx)
  have oC : ∀ x ∈ sC.out, x ∈ sH.pop.out := fun x hx => oD x (stCD.out x hx)
  have oB : ∀ x ∈ sB.out, x ∈ sH.pop.out := fun x hx => oC x (stBC.out x hx)
  -- the iterable, evaluated outside
  have hv0 := sim_visitVars (vars iter) h.push
  rw [show visitVars st.push (vars iter) = sB from hsB] at hv0
  have r0_out : ∀ x ∈ lookups top below (vars iter), x ∈ sH.pop.out := fun x hx =>
    oB x ((hv0.reads x hx).resolve_right (by simp))
  have r0_unb : ∀ x ∈ lookups top below (vars iter), bound top below x = false := fun x hx =>
    ((mem_lookups _ _ _ _).1 hx).2
  -- the else body, in the outer frame
  have hElse : ∀ cs, Sim top below (execList top below cs els) sH.pop (selfRefsL els) := by
    intro cs
    have := sim_scoped_body he hiG cs
    rwa [hsH] at this
  have exE : ∀ x ∈ selfRefsL els, x ∈ selfRefsL body ++ selfRefsL els :=
    fun x hx => List.mem_append_right _ hx
  have exB : ∀ x ∈ selfRefsL body, x ∈ selfRefsL body ++ selfRefsL els :=
    fun x hx => List.mem_append_left _ hx
  rw [hw]
  simp only [selfRefs]
  by_cases hn0 : c.n = 0
  · simp only [exec, hn0, if_true]
    have hE := hElse c.sub0
    refine ⟨hE.inv, hE.grow, ?_, ?_⟩
    · intro x hx
      simp only [List.mem_append] at hx
      rcases hx with hx | hx
      · exact Or.inl (r0_out x hx)
      · exact (hE.reads x hx).imp id (exE x)
    · intro x hx
      simp only [List.mem_append] at hx
      rcases hx with hx | hx
      · exact Or.inl (r0_unb x hx)
      · exact (hE.unb x hx).imp id (exE x)
  · -- filter pass: frame without `loop`
    have hiB' : Inv [] (top :: below) sB := hv0.inv.push_frame
    have hft := sim_trackAssign target hiB'
    rw [hsC] at hft
    have hfv := sim_visitVars (varsOpt filter) hft.inv
    rw [show visitVars sC (varsOpt filter) = sD from hsD] at hfv
    have rf_out : ∀ x, (x ∈ (bindAtoms [] (top :: below) (targetAtoms target)).2 ∨
        x ∈ lookups (bindAtoms [] (top :: below) (targetAtoms target)).1 (top :: below)
          (varsOpt filter)) → x ∈ sH.pop.out := by
      intro x hx
      rcases hx with hx | hx
      · exact oC x ((hft.reads x hx).resolve_right (by simp))
      · exact oD x ((hfv.reads x hx).resolve_right (by simp))
    have rf_unb : ∀ x, (x ∈ (bindAtoms [] (top :: below) (targetAtoms target)).2 ∨
        x ∈ lookups (bindAtoms [] (top :: below) (targetAtoms target)).1 (top :: below)
          (varsOpt filter)) → bound top below x = false := by
      intro x hx
      rcases hx with hx | hx
      · have := (hft.unb x hx).resolve_right (by simp)
        rwa [bound_push] at this
      · exact unbound_of_push ((mem_lookups _ _ _ _).1 hx).2
    by_cases hn1 : c.n = 1
    · simp only [exec, hn1, if_true, if_false, Nat.one_ne_zero]
      have hE := hElse c.sub0
      refine ⟨hE.inv, hE.grow, ?_, ?_⟩
      · intro x hx
        simp only [List.mem_append] at hx
        rcases hx with hx | hx | hx
        · exact Or.inl (r0_out x hx)
        · exact Or.inl (rf_out x hx)
        · exact (hE.reads x hx).imp id (exE x)
      · intro x hx
        simp only [List.mem_append] at hx
        rcases hx with hx | hx | hx
        · exact Or.inl (r0_unb x hx)
        · exact Or.inl (rf_unb x hx)
        · exact (hE.unb x hx).imp id (exE x)
    · simp only [exec, hn0, hn1, if_false]
      -- iterations: loop frame with `loop`, target, then the body
      have hiBl : Inv ["loop"] (top :: below) sB := hiB'.mono_top (by simp)
      have hit := sim_trackAssign target hiBl
      rw [hsC] at hit
      have hiD := (inv_visitVars (varsOpt filter) hit.inv).1
      rw [show visitVars sC (varsOpt filter) = sD from hsD] at hiD
      have hloop : bound (bindAtoms ["loop"] (top :: below) (targetAtoms target)).1
          (top :: below) "loop" = true := by
        rw [bound_iff]; exact Or.inl (hit.grow "loop" (by simp))
      have hiE := inv_assign_bound "loop" hiD hloop
      refine ⟨hfin, fun _ hx => hx, ?_, ?_⟩
      · intro x hx
        simp only [List.mem_append] at hx
        rcases hx with hx | hx | hx | hx
        · exact Or.inl (r0_out x hx)
        · exact Or.inl (rf_out x hx)
        · exact Or.inl (oC x ((hit.reads x hx).resolve_right (by simp)))
        · rw [List.mem_flatMap] at hx
          obtain ⟨kid, _, hx⟩ := hx
          have hk := hb _ _ _ kid hiE
          rw [hsF] at hk
          exact (hk.reads x hx).imp (oF x) (exB x)
      · intro x hx
        simp only [List.mem_append] at hx
        rcases hx with hx | hx | hx | hx
        · exact Or.inl (r0_unb x hx)
        · exact Or.inl (rf_unb x hx)
        · exact Or.inl (unbound_of_push (unbound_anti (top := [])
            (fun _ h => by cases h) ((hit.unb x hx).resolve_right (by simp))))
        · rw [List.mem_flatMap] at hx
          obtain ⟨kid, _, hx⟩ := hx
          have hk := hb _ _ _ kid hiE
          rcases hk.unb x hx with hu | hu
          · exact Or.inl (unbound_of_push hu)
          · exact Or.inr (exB x hu)

/-! ### macros -/

theorem isAssigned_assign_imp (st : St) (x y : String)
    (h : (st.assign x).isAssigned y = true) : y = x ∨ st.isAssigned y = true := by
  by_cases hne : st.assigned = []
  · right
    have : (st.assign x).assigned = st.assigned := by simp [St.assign, hne]
    simpa [St.isAssigned, this] using h
  · exact (isAssigned_assign st hne x y).1 h

theorem mem_closureNames {args : List String} {defaults : List Expr} {body : List Stmt}
    {x : String} : x ∈ closureNames args defaults body ↔
      x ∈ findMacroClosure args defaults body ∧ x ≠ "caller" := by
  simp [closureNames]

/-- everything the closure analysis reports is resolved by the frame a macro body starts in -/
theorem macroFrame_bound (args : List String) (defaults : List Expr) (body : List Stmt)
    (x : String) (hx : x ∈ findMacroClosure args defaults body) :
    bound (macroFrame args defaults body) [[]] x = true := by
  rw [bound_iff]
  left
  unfold macroFrame
  by_cases hc : x = "caller"
  · subst hc
    have : callerRef args defaults body = true := by
      simp [callerRef, hx]
    simp [this]
  · exact List.mem_append_right _ (mem_closureNames.2 ⟨hx, hc⟩)

/-- a macro body (prologue + body) run in its own context asks the render context for
nothing except the own names of self-referential macros declared inside it -/
theorem macro_body_reads (args : List String) (defaults : List Expr) (body : List Stmt)
    (hb : BodyOK body) (kid : List Ch) (x : String)
    (hx : x ∈ (bindArgs (macroFrame args defaults body) [[]] args.reverse defaults.reverse).2 ++
      (execList (bindArgs (macroFrame args defaults body) [[]] args.reverse defaults.reverse).1
        [[]] kid body).2) : x ∈ selfRefsL body := by
  have hinit : Inv (macroFrame args defaults body) [[]] St.init := by
    intro y hy; simp [St.init, St.isAssigned] at hy
  have ha := sim_args args.reverse defaults.reverse hinit
  have hbody := hb _ _ _ kid ha.inv
  have hall := Sim.seq ha hbody (step_walkList body _).out
  have hr := hall.reads x hx
  have hu := hall.unb x hx
  simp only [List.nil_append] at hr hu
  rcases hr with hr | hr
  · rcases hu with hu | hu
    · have := macroFrame_bound args defaults body x hr
      rw [hu] at this; cases this
    · exact hu
  · exact hr

/-- look-ups of `Enclose` at a macro declaration -/
theorem enclose_reads (st1 : St) (hne : st1.assigned ≠ [])
    (args : List String) (defaults : List Expr) (body : List Stmt) (x : String)
    (hx : x ∈ closureNames args defaults body) :
    x ∈ (walkList (macroArgs (st1.assign "caller") args.reverse defaults.reverse) body).out
      ∨ st1.isAssigned x = true := by
  obtain ⟨hx1, hx2⟩ := mem_closureNames.1 hx
  rcases closure_in_context (st1.assign "caller") (assign_ne _ hne _) args defaults body x hx1
    with h | h
  · exact Or.inl h
  · rcases isAssigned_assign_imp _ _ _ h with h | h
    · exact absurd h hx2
    · exact Or.inr h

theorem sim_macro (name : String) (args : List String) (defaults : List Expr) (body : List Stmt)
    (hb : BodyOK body)
    (st : St) (top : Frame) (below : List Frame) (c : Ch) (h : Inv top below st) :
    Sim top below (exec top below c (.macro name args defaults body))
      (walk st (.macro name args defaults body)) (selfRefs (.macro name args defaults body)) := by
  generalize hs5 : walkList (macroArgs ((st.assign name).push.assign "caller") args.reverse
    defaults.reverse) body = s5
  have hw : walk st (.macro name args defaults body) = s5.pop := by simp only [walk, hs5]
  have hst : Step (st.assign name).push s5 :=
    hs5 ▸ Step.trans (Step.trans (step_assign _ _) (step_macroArgs _ _ _)) (step_walkList _ _)
  obtain ⟨e5, o5, _⟩ := step_scope hst
  have oSt : ∀ x ∈ st.out, x ∈ s5.pop.out := fun x hx => o5 x ((step_assign st name).out x hx)
  rw [hw]
  simp only [exec, selfRefs]
  refine ⟨(inv_assign name h).of_assigned_eq e5 o5, fun x hx => List.mem_cons_of_mem _ hx, ?_, ?_⟩
  · intro x hx
    rw [List.mem_append] at hx
    rcases hx with hx | hx
    · obtain ⟨hx1, hx2⟩ := (mem_lookups _ _ _ _).1 hx
      have := enclose_reads (st.assign name).push (by simp [St.push]) args defaults body x hx1
      rw [hs5] at this
      rcases this with h1 | h1
      · exact Or.inl h1
      · rw [isAssigned_push] at h1
        rcases isAssigned_assign_imp _ _ _ h1 with h2 | h2
        · subst h2
          right
          simp [hx1]
        · rcases h x h2 with h3 | h3
          · exact Or.inl (oSt x h3)
          · rw [hx2] at h3; cases h3
    · rw [List.mem_flatMap] at hx
      obtain ⟨kid, _, hx⟩ := hx
      exact Or.inr (List.mem_append_right _ (macro_body_reads args defaults body hb kid x hx))
  · intro x hx
    rw [List.mem_append] at hx
    rcases hx with hx | hx
    · exact Or.inl ((mem_lookups _ _ _ _).1 hx).2
    · rw [List.mem_flatMap] at hx
      obtain ⟨kid, _, hx⟩ := hx
      exact Or.inr (List.mem_append_right _ (macro_body_reads args defaults body hb kid x hx))

theorem sim_callBlock (callee : Expr) (cargs : List CallArg) (args : List String)
    (defaults : List Expr) (body : List Stmt) (hb : BodyOK body)
    (st : St) (top : Frame) (below : List Frame) (c : Ch) (h : Inv top below st) :
    Sim top below (exec top below c (.callBlock callee cargs args defaults body))
      (walk st (.callBlock callee cargs args defaults body))
      (selfRefs (.callBlock callee cargs args defaults body)) := by
  have hv := sim_visitVars (varsCall callee cargs) h
  generalize hs1 : visitVars st (varsCall callee cargs) = s1 at hv
  generalize hs5 : walkList (macroArgs (s1.push.assign "caller") args.reverse
    defaults.reverse) body = s5
  have hw : walk st (.callBlock callee cargs args defaults body) = s5.pop := by
    simp only [walk, hs1, hs5]
  have hst : Step s1.push s5 :=
    hs5 ▸ Step.trans (Step.trans (step_assign _ _) (step_macroArgs _ _ _)) (step_walkList _ _)
  obtain ⟨e5, o5, _⟩ := step_scope hst
  rw [hw]
  simp only [exec, selfRefs]
  refine ⟨hv.inv.of_assigned_eq e5 o5, fun x hx => hx, ?_, ?_⟩
  · intro x hx
    rw [List.mem_append, List.mem_append] at hx
    rcases hx with hx | hx | hx
    · exact Or.inl (o5 x ((hv.reads x hx).resolve_right (by simp)))
    · obtain ⟨hx1, hx2⟩ := (mem_lookups _ _ _ _).1 hx
      have := enclose_reads s1.push (by simp [St.push]) args defaults body x hx1
      rw [hs5] at this
      rcases this with h1 | h1
      · exact Or.inl h1
      · rw [isAssigned_push] at h1
        rcases hv.inv x h1 with h3 | h3
        · exact Or.inl (o5 x h3)
        · rw [hx2] at h3; cases h3
    · rw [List.mem_flatMap] at hx
      obtain ⟨kid, _, hx⟩ := hx
      exact Or.inr (macro_body_reads args defaults body hb kid x hx)
  · intro x hx
    rw [List.mem_append, List.mem_append] at hx
    rcases hx with hx | hx | hx
    · exact Or.inl ((mem_lookups _ _ _ _).1 hx).2
    · exact Or.inl ((mem_lookups _ _ _ _).1 hx).2
    · rw [List.mem_flatMap] at hx
      obtain ⟨kid, _, hx⟩ := hx
      exact Or.inr (macro_body_reads args defaults body hb kid x hx)

/-! ### the induction -/

mutual
theorem sim_walk : (s : Stmt) → ∀ (st : St) (top : Frame) (below : List Frame) (c : Ch),
    Inv top below st → Sim top below (exec top below c s) (walk st s) (selfRefs s)
  | .emit e => fun st top below c h => by
      simpa only [walk, exec, selfRefs, visitExpr] using sim_visitVars (vars e) h
  | .raw => fun st top below c h => by
      simpa only [walk, exec, selfRefs] using Sim.nil h []
  | .forLoop target iter filter body els =>
      sim_for target iter filter body els (sim_walkList body) (sim_walkList els)
  | .ifCond e t f => sim_if e t f (sim_walkList t) (sim_walkList f)
  | .withBlock assigns body => sim_withBlock assigns body (sim_walkList body)
  | .set target e => sim_set target e
  | .setBlock target filter body => sim_setBlock target filter body (sim_walkList body)
  | .autoEscape e body => sim_autoEscape e body (sim_walkList body)
  | .filterBlock filter body => sim_filterBlock filter body (sim_walkList body)
  | .macro name args defaults body => sim_macro name args defaults body (sim_walkList body)
  | .callBlock callee cargs args defaults body =>
      sim_callBlock callee cargs args defaults body (sim_walkList body)
  | .doStmt callee cargs => fun st top below c h => by
      simpa only [walk, exec, selfRefs] using sim_visitVars (varsCall callee cargs) h
theorem sim_walkList : (ss : List Stmt) → BodyOK ss
  | [] => fun st top below cs h => by
      simpa only [walkList, execList, selfRefsL] using Sim.nil h []
  | s :: ss => fun st top below cs h => by
      have h1 := sim_walk s st top below (cs.headD Ch.default) h
      have h2 := sim_walkList ss _ _ below cs.tail h1.inv
      simpa only [walkList, execList, selfRefsL] using Sim.seq h1 h2 (step_walkList ss _).out
end

/-! ### the macro-free fragment has no exceptions -/

mutual
theorem noMacro_selfRefs : (s : Stmt) → noMacro s = true → selfRefs s = []
  | .emit _, _ => rfl
  | .raw, _ => rfl
  | .forLoop _ _ _ body els, h => by
      simp only [noMacro, Bool.and_eq_true] at h
      simp [selfRefs, noMacroL_selfRefsL body h.1, noMacroL_selfRefsL els h.2]
  | .ifCond _ t f, h => by
      simp only [noMacro, Bool.and_eq_true] at h
      simp [selfRefs, noMacroL_selfRefsL t h.1, noMacroL_selfRefsL f h.2]
  | .withBlock _ body, h => by
      simp only [noMacro] at h
      simp [selfRefs, noMacroL_selfRefsL body h]
  | .set _ _, _ => rfl
  | .setBlock _ _ body, h => by
      simp only [noMacro] at h
      simp [selfRefs, noMacroL_selfRefsL body h]
  | .autoEscape _ body, h => by
      simp only [noMacro] at h
      simp [selfRefs, noMacroL_selfRefsL body h]
  | .filterBlock _ body, h => by
      simp only [noMacro] at h
      simp [selfRefs, noMacroL_selfRefsL body h]
  | .macro _ _ _ _, h => by simp [noMacro] at h
  | .callBlock _ _ _ _ _, h => by simp [noMacro] at h
  | .doStmt _ _, _ => rfl
theorem noMacroL_selfRefsL : (ss : List Stmt) → noMacroL ss = true → selfRefsL ss = []
  | [], _ => rfl
  | s :: ss, h => by
      simp only [noMacroL, Bool.and_eq_true] at h
      simp [selfRefsL, noMacro_selfRefs s h.1, noMacroL_selfRefsL ss h.2]
end

end MJ.Meta
