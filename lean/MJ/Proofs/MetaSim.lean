import MJ.Proofs.MetaClosure
/-! The simulation between run-time name resolution (`exec`) and the analysis (`walk`, either
mode): whatever a statement asks the context for is reported afterwards (or is promised by an
enclosing recursive loop / a block of the template), and the analysis' notion of "assigned"
stays justified (C18). -/
namespace MJ.Meta

/-- result `r` of executing a piece of code from frame `top` over `below`, against the tracker
`st'` after walking the same piece; `P` = names that an enclosing construct accounts for (the
report of an enclosing recursive loop, the free names of the blocks), `Q` ⊆ `P` = those of
them that may be read although a frame binds them (block bodies run in other frames) -/
structure Sim (top : Frame) (below : List Frame) (r : Res) (st' : St)
    (P Q : String → Prop) : Prop where
  inv : r.stopped = false → Inv r.top below st'
  grow : ∀ x ∈ top, x ∈ r.top
  reads : ∀ x ∈ r.reads, st'.reported x ∨ P x
  unb : ∀ x ∈ r.reads, bound top below x = false ∨ Q x

section
variable {top : Frame} {below : List Frame} {P Q : String → Prop}

theorem Sim.nil {st : St} (h : Inv top below st) (P Q : String → Prop) :
    Sim top below ⟨top, [], false, false⟩ st P Q :=
  ⟨fun _ => h, fun _ hx => hx, fun x hx => (by cases hx), fun x hx => (by cases hx)⟩

theorem Sim.mono {r : Res} {st : St} {P' Q' : String → Prop}
    (h : Sim top below r st P Q) (hp : ∀ x, P x → P' x) (hq : ∀ x, Q x → Q' x) :
    Sim top below r st P' Q' :=
  ⟨h.inv, h.grow, fun x hx => (h.reads x hx).imp id (hp x), fun x hx => (h.unb x hx).imp id (hq x)⟩

/-- sequencing; the second part only runs when the first did not stop -/
theorem Sim.seq {r1 r2 : Res} {st1 st2 : St}
    (h1 : Sim top below r1 st1 P Q) (h2 : Sim r1.top below r2 st2 P Q)
    (hrep : ∀ x, st1.reported x → st2.reported x) :
    Sim top below ⟨r2.top, r1.reads ++ r2.reads, r2.stopped, r2.aborted⟩ st2 P Q := by
  refine ⟨h2.inv, fun x hx => h2.grow x (h1.grow x hx), ?_, ?_⟩
  · intro x hx
    simp only [List.mem_append] at hx
    rcases hx with hx | hx
    · exact (h1.reads x hx).imp (hrep x) id
    · exact h2.reads x hx
  · intro x hx
    simp only [List.mem_append] at hx
    rcases hx with hx | hx
    · exact h1.unb x hx
    · exact (h2.unb x hx).imp (unbound_anti h1.grow) id

/-- control does not go on after the piece (break/continue, or a failure after some of its
look-ups): the tracker walks on, the execution does not -/
theorem Sim.cut {r1 r' : Res} {st1 st2 : St} (h1 : Sim top below r1 st1 P Q)
    (hrep : ∀ x, st1.reported x → st2.reported x) (htop : r'.top = r1.top)
    (hsub : ∀ x ∈ r'.reads, x ∈ r1.reads) (hst : r'.stopped = true) :
    Sim top below r' st2 P Q := by
  refine ⟨fun h => (by rw [hst] at h; cases h), fun x hx => htop ▸ h1.grow x hx, ?_, ?_⟩
  · intro x hx
    exact (h1.reads x (hsub x hx)).imp (hrep x) id
  · intro x hx
    exact h1.unb x (hsub x hx)

/-- look-ups in front of a piece of code that are known to be fine -/
theorem Sim.prepend {r : Res} {st : St} (r0 : List String)
    (h : Sim top below r st P Q)
    (h0 : ∀ x ∈ r0, (st.reported x ∨ P x) ∧ (bound top below x = false ∨ Q x)) :
    Sim top below ⟨r.top, r0 ++ r.reads, r.stopped, r.aborted⟩ st P Q := by
  refine ⟨h.inv, h.grow, ?_, ?_⟩
  · intro x hx
    simp only [List.mem_append] at hx
    rcases hx with hx | hx
    · exact (h0 x hx).1
    · exact h.reads x hx
  · intro x hx
    simp only [List.mem_append] at hx
    rcases hx with hx | hx
    · exact (h0 x hx).2
    · exact h.unb x hx

/-- same stack, larger report -/
theorem Sim.retarget {r : Res} {a b : St}
    (h : Sim top below r a P Q) (he : b.assigned = a.assigned)
    (ho : ∀ x, a.reported x → b.reported x) : Sim top below r b P Q :=
  ⟨fun hs => (h.inv hs).of_assigned_eq he ho, h.grow, fun x hx => (h.reads x hx).imp (ho x) id,
    h.unb⟩

theorem Sim.stopped_retarget {r : Res} {a b : St} (h : Sim top below r a P Q)
    (hs : r.stopped = true) (ho : ∀ x, a.reported x → b.reported x) : Sim top below r b P Q :=
  ⟨fun hn => (by rw [hs] at hn; cases hn), h.grow, fun x hx => (h.reads x hx).imp (ho x) id, h.unb⟩

/-- the analysis pops the scope it pushed for a body that ran in the current frame -/
theorem Sim.scope {r : Res} {a b : St}
    (ha : Inv top below a) (hs : Step a.push b) (h : Sim top below r b P Q) :
    Sim top below r b.pop P Q := by
  obtain ⟨e, o, _⟩ := step_scope hs
  exact ⟨fun _ => (ha.mono_top h.grow).of_assigned_eq e o, h.grow, h.reads, h.unb⟩

theorem sim_visitLeaves {st : St} (ls : List Leaf) (P Q : String → Prop)
    (h : Inv top below st) :
    Sim top below ⟨top, lookups top below (roots ls), false, false⟩ (visitLeaves st ls) P Q := by
  obtain ⟨h1, h2⟩ := inv_visitLeaves ls h
  exact ⟨fun _ => h1, fun _ hx => hx, fun x hx => Or.inl (h2 x hx),
    fun x hx => Or.inl ((mem_lookups _ _ _ _).1 hx).2⟩

/-- facts about the look-ups of an expression list, for `Sim.prepend` -/
theorem lookups_ok {st st' : St} (ls : List Leaf) (P Q : String → Prop)
    (h : Inv top below st) (hrep : ∀ x, (visitLeaves st ls).reported x → st'.reported x) :
    ∀ x ∈ lookups top below (roots ls),
      (st'.reported x ∨ P x) ∧ (bound top below x = false ∨ Q x) :=
  fun x hx => ⟨Or.inl (hrep x ((inv_visitLeaves ls h).2 x hx)),
    Or.inl ((mem_lookups _ _ _ _).1 hx).2⟩

end

/-- pairs (frame, look-ups) of the binding helpers as results -/
def Res.ofPair (p : Frame × List String) : Res := ⟨p.1, p.2, false, false⟩

theorem Sim.under_name {top : Frame} {below : List Frame} {P Q : String → Prop} {r : Res}
    {st : St} (a : String) (h : Sim (a :: top) below r st P Q) : Sim top below r st P Q :=
  ⟨h.inv, fun y hy => h.grow y (List.mem_cons_of_mem _ hy), h.reads,
    fun y hy => (h.unb y hy).imp (unbound_anti (fun _ hz => List.mem_cons_of_mem _ hz)) id⟩

theorem sim_atoms {top : Frame} {below : List Frame} (as : List TAtom) {st : St}
    (P Q : String → Prop) (h : Inv top below st) :
    Sim top below (Res.ofPair (bindAtoms top below as)) (as.foldl trackAtom st) P Q := by
  induction as generalizing top st with
  | nil => exact Sim.nil h P Q
  | cons a as ih =>
    cases a with
    | name x =>
      simp only [bindAtoms, List.foldl_cons, trackAtom]
      exact (ih (inv_assign x h)).under_name x
    | look e =>
      simp only [bindAtoms, List.foldl_cons, trackAtom]
      have h1 := sim_visitLeaves (nvars e) P Q h
      have h2 := ih (h1.inv rfl)
      have := Sim.seq h1 h2 (step_trackAtoms _ as).rep
      simpa [visitExpr, Res.ofPair, vars] using this

theorem sim_trackAssign {top : Frame} {below : List Frame} (t : Expr) {st : St}
    (P Q : String → Prop) (h : Inv top below st) :
    Sim top below (Res.ofPair (bindAtoms top below (targetAtoms t))) (trackAssign st t) P Q :=
  sim_atoms _ P Q h

theorem sim_targets {top : Frame} {below : List Frame} (ts : List Expr) {st : St}
    (P Q : String → Prop) (h : Inv top below st) :
    Sim top below (Res.ofPair (bindTargets top below ts)) (ts.foldl trackAssign st) P Q := by
  induction ts generalizing top st with
  | nil => simpa [bindTargets, Res.ofPair] using Sim.nil h P Q
  | cons t ts ih =>
    simp only [bindTargets, List.foldl_cons]
    have h1 := sim_trackAssign t P Q h
    have h2 := ih (h1.inv rfl)
    have := Sim.seq h1 h2 (step_trackTargets _ ts).rep
    simpa [Res.ofPair] using this

theorem sim_with {top : Frame} {below : List Frame} (as : List (Expr × Expr)) {st : St}
    (P Q : String → Prop) (h : Inv top below st) :
    Sim top below (Res.ofPair (bindWith top below as)) (withAssigns st as) P Q := by
  induction as generalizing top st with
  | nil => simpa [bindWith, withAssigns, Res.ofPair] using Sim.nil h P Q
  | cons p as ih =>
    obtain ⟨t, e⟩ := p
    simp only [bindWith, withAssigns]
    have h1 := sim_visitLeaves (nvars e) P Q h
    have h2 := sim_trackAssign t P Q (h1.inv rfl)
    have h12 := Sim.seq h1 h2 (step_trackAssign _ t).rep
    have h3 := ih (h12.inv rfl)
    have := Sim.seq h12 h3 (step_withAssigns _ as).rep
    simpa [visitExpr, List.append_assoc, Res.ofPair, vars] using this

theorem sim_args {top : Frame} {below : List Frame} (as : List String) (ds : List Expr) {st : St}
    (P Q : String → Prop) (h : Inv top below st) :
    Sim top below (Res.ofPair (bindArgs top below as ds)) (macroArgs st as ds) P Q := by
  induction as generalizing top st ds with
  | nil => simpa [bindArgs, macroArgs, Res.ofPair] using Sim.nil h P Q
  | cons a as ih =>
    cases ds with
    | nil =>
      simp only [bindArgs, macroArgs]
      exact (ih [] (inv_assign a h)).under_name a
    | cons d ds =>
      simp only [bindArgs, macroArgs]
      have h1 := sim_visitLeaves (nvars d) P Q h
      have h2 := (ih ds (inv_assign a (h1.inv rfl))).under_name a
      have := Sim.seq h1 h2 (Step.trans (step_assign _ a) (step_macroArgs _ as ds)).rep
      simpa [Res.ofPair, vars, visitExpr] using this

/-! ### re-entries: recursive loops and blocks -/

/-- a loop frame on top of frames that bind more binds more -/
theorem loop_frame_mono {top top' : Frame} {below below' : List Frame} (f : Frame)
    (hb : ∀ x, bound top below x = true → bound top' below' x = true) (x : String)
    (h : bound f (top :: below) x = true) : bound f (top' :: below') x = true := by
  rw [bound_cons_iff] at *
  exact h.imp id (hb x)

/-- analysis-side ghost of a running recursive loop: the tracker in front of `track_assign`
of the loop target, and the loop filter -/
structure Ghost where
  sB : St
  filter : Option Expr

/-- the tracker at the start of the loop body -/
def Ghost.sE (g : Ghost) (atoms : List TAtom) : St :=
  (visitOpt (atoms.foldl trackAtom g.sB) g.filter).assign "loop"

/-- every running recursive loop can be re-entered from the current frames: its tracker is
justified by a loop frame on top of them, what its body reports is accounted for by `P` -/
def RcOK : RC → List Ghost → Frame → List Frame → (String → Prop) → Prop
  | [], [], _, _, _ => True
  | e :: rc, g :: G, top, below, P =>
      (Inv ["loop"] (top :: below) g.sB ∧
        (∀ x, (walkList (g.sE e.1) e.2).reported x → P x)) ∧
      RcOK rc G top below P
  | _, _, _, _, _ => False

theorem RcOK.mono {rc : RC} {G : List Ghost} {top top' : Frame} {below below' : List Frame}
    {P P' : String → Prop} (h : RcOK rc G top below P)
    (hb : ∀ x, bound top below x = true → bound top' below' x = true)
    (hp : ∀ x, P x → P' x) : RcOK rc G top' below' P' := by
  induction rc generalizing G with
  | nil => cases G <;> simp_all [RcOK]
  | cons e rc ih =>
    cases G with
    | nil => simp [RcOK] at h
    | cons g G =>
      simp only [RcOK] at h ⊢
      obtain ⟨⟨h1, h2⟩, h4⟩ := h
      exact ⟨⟨h1.of_bound (loop_frame_mono _ hb), fun x hx => hp x (h2 x hx)⟩, ih h4⟩

theorem RcOK.drop {rc : RC} {G : List Ghost} {top : Frame} {below : List Frame}
    {P : String → Prop} (h : RcOK rc G top below P) (k : Nat) :
    RcOK (rc.drop k) (G.drop k) top below P := by
  induction k generalizing rc G with
  | zero => simpa using h
  | succ k ih =>
    cases rc with
    | nil => cases G <;> simp_all [RcOK]
    | cons e rc =>
      cases G with
      | nil => simp [RcOK] at h
      | cons g G =>
        simp only [RcOK] at h
        simpa using ih h.2

/-- the ambient exceptions: `Q ⊆ P`, and `Q` accounts for the blocks of the template -/
structure Ctx (bt : BT) (P Q : String → Prop) : Prop where
  qp : ∀ x, Q x → P x
  free : ∀ body ∈ bt, ∀ x ∈ (walkList St.init body).out, Q x

theorem Ctx.mono {bt : BT} {P P' Q : String → Prop} (h : Ctx bt P Q)
    (hqp : ∀ x, Q x → P' x) : Ctx bt P' Q :=
  ⟨hqp, h.free⟩

theorem Ctx.same {bt : BT} {P Q : String → Prop} (h : Ctx bt P Q) : Ctx bt Q Q :=
  ⟨fun _ hx => hx, h.free⟩

/-- the handler only produces look-ups that are accounted for -/
def KOK (K : Reenter) : Prop :=
  ∀ (P Q : String → Prop) (rc : RC) (G : List Ghost) (bt : BT) (top : Frame) (below : List Frame)
    (reqs : List Ch), Ctx bt P Q → RcOK rc G top below P →
    ∀ x ∈ K rc bt top below reqs, P x ∧ (bound top below x = false ∨ Q x)

/-- induction hypothesis for a sub-body -/
def BodyOK (body : List Stmt) : Prop :=
  ∀ (K : Reenter), KOK K → ∀ (P Q : String → Prop) (rc : RC) (G : List Ghost) (bt : BT) (st : St)
    (top : Frame) (below : List Frame) (cs : List Ch),
    Ctx bt P Q → RcOK rc G top below P → Inv top below st →
    Sim top below (execList K rc bt top below cs body) (walkList st body) P Q

/-- entering a loop body (first entry or re-entry): from the tracker in front of the target to
the tracker at the body start, against a loop frame on top of the current frames -/
theorem loop_entry {top : Frame} {below : List Frame} (g : Ghost) (atoms : List TAtom)
    (h : Inv ["loop"] (top :: below) g.sB) :
    Inv (bindAtoms ["loop"] (top :: below) atoms).1 (top :: below) (g.sE atoms) ∧
    (∀ x ∈ (bindAtoms ["loop"] (top :: below) atoms).2,
      (atoms.foldl trackAtom g.sB).reported x ∧ bound top below x = false) := by
  have hit := sim_atoms atoms (fun _ => False) (fun _ => False) h
  have hiD := (inv_visitLeaves (nvarsOpt g.filter) (hit.inv rfl)).1
  have hloop : bound (bindAtoms ["loop"] (top :: below) atoms).1 (top :: below) "loop" = true := by
    rw [bound_iff]; exact Or.inl (hit.grow "loop" (by simp))
  refine ⟨inv_assign_bound "loop" hiD hloop, fun x hx => ?_⟩
  have hr := hit.reads x hx
  have hu := hit.unb x hx
  refine ⟨hr.resolve_right (fun h => h), ?_⟩
  exact unbound_of_push (hu.resolve_right (fun h => h))

section
variable {K : Reenter} (hK : KOK K) {P Q : String → Prop} {rc : RC} {G : List Ghost} {bt : BT}
  {top : Frame} {below : List Frame}
include hK

/-- a body that runs in the current frame while the analysis gives it a scope of its own -/
theorem sim_scoped_body {body : List Stmt} (hb : BodyOK body) (hbt : Ctx bt P Q)
    (hrc : RcOK rc G top below P) {a : St} (ha : Inv top below a) (cs : List Ch) :
    Sim top below (execList K rc bt top below cs body) (walkList a.push body).pop P Q :=
  Sim.scope ha (step_walkList body _) (hb K hK P Q rc G bt _ _ _ cs hbt hrc ha.push)

theorem sim_if (e : Expr) (t f : List Stmt) (ht : BodyOK t) (hf : BodyOK f)
    (st : St) (c : Ch) (hbt : Ctx bt P Q) (hrc : RcOK rc G top below P)
    (h : Inv top below st) :
    Sim top below (exec K rc bt top below c (.ifCond e t f)) (walk st (.ifCond e t f)) P Q := by
  have hv := sim_visitLeaves (nvars e) P Q h
  have hst2 : Step (visitExpr st e) (walkList (visitExpr st e).push t).pop :=
    step_of_scope (step_walkList t _)
  have hst3 : Step (walkList (visitExpr st e).push t).pop
      (walkList (walkList (visitExpr st e).push t).pop.push f).pop :=
    step_of_scope (step_walkList f _)
  obtain ⟨e2, o2, _⟩ := step_scope (step_walkList t (visitExpr st e).push)
  obtain ⟨e3, o3, _⟩ := step_scope (step_walkList f (walkList (visitExpr st e).push t).pop.push)
  have hl := lookups_ok (st' := (walkList (walkList (visitExpr st e).push t).pop.push f).pop)
    (nvars e) P Q h (Step.trans hst2 hst3).rep
  simp only [walk]
  by_cases hn : c.n = 0
  · simp only [exec, hn, if_true]
    have hi2 : Inv top below (walkList (visitExpr st e).push t).pop :=
      (hv.inv rfl).of_assigned_eq e2 o2
    exact Sim.prepend _ (sim_scoped_body hK hf hbt hrc hi2 c.sub0) hl
  · simp only [exec, hn, if_false]
    exact Sim.prepend _ ((sim_scoped_body hK ht hbt hrc (hv.inv rfl) c.sub0).retarget e3 o3) hl

theorem sim_autoEscape (e : Expr) (body : List Stmt) (hb : BodyOK body)
    (st : St) (c : Ch) (hbt : Ctx bt P Q) (hrc : RcOK rc G top below P)
    (h : Inv top below st) :
    Sim top below (exec K rc bt top below c (.autoEscape e body)) (walk st (.autoEscape e body))
      P Q := by
  have hv := sim_visitLeaves (nvars e) P Q h
  have h2 := sim_scoped_body hK hb hbt hrc (hv.inv rfl) c.sub0
  have hl := lookups_ok (st' := (walkList (visitExpr st e).push body).pop)
    (nvars e) P Q h (step_of_scope (step_walkList body (visitExpr st e).push)).rep
  simp only [walk, exec]
  exact Sim.prepend _ h2 hl

theorem sim_filterBlock (filter : Expr) (body : List Stmt) (hb : BodyOK body)
    (st : St) (c : Ch) (hbt : Ctx bt P Q) (hrc : RcOK rc G top below P)
    (h : Inv top below st) :
    Sim top below (exec K rc bt top below c (.filterBlock filter body))
      (walk st (.filterBlock filter body)) P Q := by
  have h1 := sim_scoped_body hK hb hbt hrc h c.sub0
  simp only [walk]
  by_cases hs : (execList K rc bt top below c.sub0 body).stopped = true
  · simp only [exec, hs, if_true]
    exact h1.stopped_retarget hs (step_visitExpr _ filter).rep
  · have hs' : (execList K rc bt top below c.sub0 body).stopped = false := by
      cases hh : (execList K rc bt top below c.sub0 body).stopped <;> simp_all
    simp only [exec, hs', Bool.false_eq_true, if_false]
    have h2 := sim_visitLeaves (nvars filter) P Q (h1.inv hs')
    have := Sim.seq h1 h2 (step_visitLeaves _ _).rep
    simpa only [visitExpr, vars] using this

theorem sim_setBlock (target : Expr) (filter : Option Expr) (body : List Stmt) (hb : BodyOK body)
    (st : St) (c : Ch) (hbt : Ctx bt P Q) (hrc : RcOK rc G top below P)
    (h : Inv top below st) :
    Sim top below (exec K rc bt top below c (.setBlock target filter body))
      (walk st (.setBlock target filter body)) P Q := by
  have h1 := sim_scoped_body hK hb hbt hrc h c.sub0
  simp only [walk]
  by_cases hs : (execList K rc bt top below c.sub0 body).stopped = true
  · simp only [exec, hs, if_true]
    exact h1.stopped_retarget hs
      (Step.trans (step_visitOpt _ filter) (step_trackAssign _ target)).rep
  · have hs' : (execList K rc bt top below c.sub0 body).stopped = false := by
      cases hh : (execList K rc bt top below c.sub0 body).stopped <;> simp_all
    simp only [exec, hs', Bool.false_eq_true, if_false]
    have h2 := sim_visitLeaves (nvarsOpt filter) P Q (h1.inv hs')
    have h12 := Sim.seq h1 h2 (step_visitLeaves _ _).rep
    have h3 := sim_trackAssign target P Q (h12.inv rfl)
    have := Sim.seq h12 h3 (step_trackAssign _ target).rep
    simpa only [visitOpt, varsOpt, List.append_assoc, Res.ofPair] using this

omit hK in
theorem sim_set (target e : Expr)
    (st : St) (c : Ch) (h : Inv top below st) :
    Sim top below (exec K rc bt top below c (.set target e)) (walk st (.set target e)) P Q := by
  have h1 := sim_visitLeaves (nvars e) P Q h
  have h2 := sim_trackAssign target P Q (h1.inv rfl)
  have := Sim.seq h1 h2 (step_trackAssign _ target).rep
  simpa only [walk, exec, visitExpr, vars, Res.ofPair] using this

omit hK in
theorem lookups_push (xs : List String) :
    lookups [] (top :: below) xs = lookups top below xs := by
  simp [lookups, bound_push]

omit hK in
theorem sim_importAs (e target : Expr)
    (st : St) (c : Ch) (h : Inv top below st) :
    Sim top below (exec K rc bt top below c (.importAs e target)) (walk st (.importAs e target))
      P Q := by
  have h1 := sim_visitLeaves (nvars e) P Q h
  have h2 := sim_trackAssign target P Q (h1.inv rfl)
  have := Sim.seq h1 h2 (step_trackAssign _ target).rep
  simpa only [walk, exec, visitExpr, vars, Res.ofPair, lookups_push] using this

omit hK in
theorem sim_fromImport (e : Expr) (targets : List Expr)
    (st : St) (c : Ch) (h : Inv top below st) :
    Sim top below (exec K rc bt top below c (.fromImport e targets))
      (walk st (.fromImport e targets)) P Q := by
  have h1 := sim_visitLeaves (nvars e) P Q h
  have h2 := sim_targets targets P Q (h1.inv rfl)
  have := Sim.seq h1 h2 (step_trackTargets _ targets).rep
  simpa only [walk, exec, visitExpr, vars, Res.ofPair, lookups_push] using this

theorem sim_withBlock (assigns : List (Expr × Expr)) (body : List Stmt) (hb : BodyOK body)
    (st : St) (c : Ch) (hbt : Ctx bt P Q) (hrc : RcOK rc G top below P)
    (h : Inv top below st) :
    Sim top below (exec K rc bt top below c (.withBlock assigns body))
      (walk st (.withBlock assigns body)) P Q := by
  have h1 := sim_with assigns P Q h.push.push_frame
  have hrc' : RcOK rc G (bindWith [] (top :: below) assigns).1 (top :: below) P :=
    hrc.mono (fun x hx => (bound_cons_iff _ _ _ _).2 (Or.inr hx)) (fun _ hp => hp)
  have h2 := hb K hK P Q rc G bt _ _ _ c.sub0 hbt hrc' (h1.inv rfl)
  have h12 := Sim.seq h1 h2 (step_walkList body _).rep
  obtain ⟨e, o, _⟩ := step_scope
    (Step.trans (step_withAssigns st.push assigns) (step_walkList body _))
  simp only [walk, exec]
  refine ⟨fun _ => h.of_assigned_eq e o, fun _ hx => hx, ?_, ?_⟩
  · intro x hx
    exact h12.reads x hx
  · intro x hx
    exact (h12.unb x hx).imp (fun hu => by rw [bound_push] at hu; exact hu) id

theorem sim_for (target iter : Expr) (filter : Option Expr) (recursive : Bool)
    (body els : List Stmt) (hb : BodyOK body) (he : BodyOK els)
    (st : St) (c : Ch) (hbt : Ctx bt P Q) (hrc : RcOK rc G top below P)
    (h : Inv top below st) :
    Sim top below (exec K rc bt top below c (.forLoop target iter filter recursive body els))
      (walk st (.forLoop target iter filter recursive body els)) P Q := by
  -- tracker states along `track_walk`
  generalize hsB : visitExpr st.push iter = sB
  generalize hsC : trackAssign sB target = sC
  generalize hsD : visitOpt sC filter = sD
  generalize hsF : walkList (sD.assign "loop") body = sF
  generalize hsH : walkList sF.pop.push els = sH
  have hw : walk st (.forLoop target iter filter recursive body els) = sH.pop := by
    simp only [walk, hsB, hsC, hsD, hsF, hsH]
  have hgE : (Ghost.mk sB filter).sE (targetAtoms target) = sD.assign "loop" := by
    simp only [Ghost.sE]; rw [← hsD, ← hsC]; rfl
  have stAB : Step st.push sB := hsB ▸ step_visitExpr _ _
  have stBC : Step sB sC := hsC ▸ step_trackAssign _ _
  have stCD : Step sC sD := hsD ▸ step_visitOpt _ _
  have stDF : Step sD sF := hsF ▸ Step.trans (step_assign _ _) (step_walkList _ _)
  have stAF : Step st.push sF := ((stAB.trans stBC).trans stCD).trans stDF
  obtain ⟨eG, oG, _⟩ := step_scope stAF
  have stGH : Step sF.pop.push sH := hsH ▸ step_walkList _ _
  obtain ⟨eH, oH, _⟩ := step_scope stGH
  have hiG : Inv top below sF.pop := h.of_assigned_eq eG oG
  have hfin : Inv top below sH.pop := hiG.of_assigned_eq eH oH
  -- report inclusions up to the final tracker
  have oF : ∀ x, sF.reported x → sH.pop.reported x := fun x hx => oH x hx
  have oD : ∀ x, sD.reported x → sH.pop.reported x := fun x hx => oF x (stDF.rep x hx)
  have oC : ∀ x, sC.reported x → sH.pop.reported x := fun x hx => oD x (stCD.rep x hx)
  have oB : ∀ x, sB.reported x → sH.pop.reported x := fun x hx => oC x (stBC.rep x hx)
  -- the iterable, evaluated outside
  have hiB : Inv top below sB := hsB ▸ (inv_visitLeaves (nvars iter) h.push).1
  have r0_ok := lookups_ok (st' := sH.pop) (nvars iter) P Q
    h.push (fun x hx => oB x (by rw [← hsB]; exact hx))
  -- the else body, in the outer frame
  have hElse : ∀ cs, Sim top below (execList K rc bt top below cs els) sH.pop P Q := by
    intro cs
    have := sim_scoped_body hK he hbt hrc hiG cs
    rwa [hsH] at this
  rw [hw]
  by_cases hn0 : c.n = 0
  · simp only [exec, hn0, if_true]
    exact Sim.prepend _ (hElse c.sub0) r0_ok
  · -- filter pass: frame without `loop`
    have hiB' : Inv [] (top :: below) sB := hiB.push_frame
    have hft := sim_trackAssign target (fun _ => False) (fun _ => False) hiB'
    rw [hsC] at hft
    have hfv := sim_visitLeaves (nvarsOpt filter) (fun _ => False) (fun _ => False) (hft.inv rfl)
    rw [show visitLeaves sC (nvarsOpt filter) = sD from hsD] at hfv
    have rf_ok : ∀ x ∈ (bindAtoms [] (top :: below) (targetAtoms target)).2 ++
        lookups (bindAtoms [] (top :: below) (targetAtoms target)).1 (top :: below)
          (varsOpt filter),
        (sH.pop.reported x ∨ P x) ∧ (bound top below x = false ∨ Q x) := by
      intro x hx
      rw [List.mem_append] at hx
      rcases hx with hx | hx
      · refine ⟨Or.inl (oC x ((hft.reads x hx).resolve_right (fun h => h))), Or.inl ?_⟩
        have := (hft.unb x hx).resolve_right (fun h => h)
        rwa [bound_push] at this
      · refine ⟨Or.inl (oD x ((hfv.reads x hx).resolve_right (fun h => h))), Or.inl ?_⟩
        exact unbound_of_push ((mem_lookups _ _ _ _).1 hx).2
    by_cases hn1 : c.n = 1
    · simp only [exec, hn1, if_true, if_false, Nat.one_ne_zero]
      exact Sim.prepend _ (Sim.prepend _ (hElse c.sub0) rf_ok) r0_ok
    · simp only [exec, hn0, hn1, if_false]
      -- iterations: loop frame with `loop`, target, then the body
      have hiBl : Inv ["loop"] (top :: below) sB := hiB'.mono_top (by simp)
      obtain ⟨hiE, hit2⟩ := loop_entry (Ghost.mk sB filter) (targetAtoms target) hiBl
      rw [hgE] at hiE
      -- what the body may rely on: the enclosing promises plus its own report
      have hbt' : Ctx bt (fun x => P x ∨ sF.reported x) Q :=
        hbt.mono (fun x hq => Or.inl (hbt.qp x hq))
      have hup : ∀ x, bound top below x = true →
          bound (bindAtoms ["loop"] (top :: below) (targetAtoms target)).1 (top :: below) x = true :=
        fun x hx => (bound_cons_iff _ _ _ _).2 (Or.inr hx)
      have hrc0 : RcOK rc G (bindAtoms ["loop"] (top :: below) (targetAtoms target)).1
          (top :: below) (fun x => P x ∨ sF.reported x) :=
        hrc.mono hup (fun _ hp => Or.inl hp)
      have hbody : ∀ kid, Sim (bindAtoms ["loop"] (top :: below) (targetAtoms target)).1
          (top :: below)
          (execList K (if recursive then (targetAtoms target, body) :: rc else rc) bt
            (bindAtoms ["loop"] (top :: below) (targetAtoms target)).1 (top :: below) kid body)
          sF (fun x => P x ∨ sF.reported x) Q := by
        intro kid
        cases recursive with
        | false =>
          have := hb K hK _ _ rc G bt _ _ _ kid hbt' hrc0 hiE
          rw [hsF] at this
          simpa using this
        | true =>
          have hrc1 : RcOK ((targetAtoms target, body) :: rc) (Ghost.mk sB filter :: G)
              (bindAtoms ["loop"] (top :: below) (targetAtoms target)).1 (top :: below)
              (fun x => P x ∨ sF.reported x) := by
            refine ⟨⟨hiBl.of_bound (loop_frame_mono _ hup), ?_⟩, hrc0⟩
            intro x hx
            simp only [hgE, hsF] at hx
            exact Or.inr hx
          have := hb K hK _ _ _ _ bt _ _ _ kid hbt' hrc1 hiE
          rw [hsF] at this
          simpa using this
      refine ⟨fun _ => hfin, fun _ hx => hx, ?_, ?_⟩
      · intro x hx
        simp only [List.mem_append] at hx
        rcases hx with hx | hx | hx | hx
        · exact (r0_ok x hx).1
        · exact (rf_ok x (List.mem_append.2 hx)).1
        · exact Or.inl (oC x (by rw [← hsC]; exact (hit2 x hx).1))
        · rw [List.mem_flatMap] at hx
          obtain ⟨kid, _, hx⟩ := hx
          rcases (hbody kid).reads x hx with hr | hr | hr
          · exact Or.inl (oF x hr)
          · exact Or.inr hr
          · exact Or.inl (oF x hr)
      · intro x hx
        simp only [List.mem_append] at hx
        rcases hx with hx | hx | hx | hx
        · exact (r0_ok x hx).2
        · exact (rf_ok x (List.mem_append.2 hx)).2
        · exact Or.inl (hit2 x hx).2
        · rw [List.mem_flatMap] at hx
          obtain ⟨kid, _, hx⟩ := hx
          exact ((hbody kid).unb x hx).imp unbound_of_push id

/-! ### macros -/

omit hK in
theorem mem_closureNames {args : List String} {defaults : List Expr} {body : List Stmt}
    {x : String} : x ∈ closureNames args defaults body ↔
      x ∈ findMacroClosure args defaults body ∧ x ≠ "caller" := by
  simp [closureNames]

omit hK in
/-- everything the closure analysis reports is resolved by the frame a macro body starts in -/
theorem macroFrame_bound (args : List String) (defaults : List Expr) (body : List Stmt)
    (x : String) (hx : x ∈ findMacroClosure args defaults body) :
    bound (macroFrame args defaults body) [[]] x = true := by
  rw [bound_iff]
  left
  unfold macroFrame
  by_cases hc : x = "caller"
  · subst hc
    have : callerRef args defaults body = true := by
      simp [callerRef, hx]
    simp [this]
  · exact List.mem_append_right _ (mem_closureNames.2 ⟨hx, hc⟩)

/-- closure visibility: a macro body (prologue + body) run in its own context — closure frame,
locals, base context — asks the render context for nothing except what the blocks it renders
ask for; every free name of the body was captured at the declaration -/
theorem macro_body_reads (args : List String) (defaults : List Expr) (body : List Stmt)
    (hb : BodyOK body) (hbt : Ctx bt P Q) (kid : List Ch) (x : String)
    (hx : x ∈ (bindArgs (macroFrame args defaults body) [[]] args.reverse defaults.reverse).2 ++
      (execList K [] bt
        (bindArgs (macroFrame args defaults body) [[]] args.reverse defaults.reverse).1
        [[]] kid body).reads) : Q x := by
  have hinit : Inv (macroFrame args defaults body) [[]] St.init := by
    intro y hy; simp [St.init, St.isAssigned] at hy
  have ha := sim_args args.reverse defaults.reverse Q Q hinit
  have hbody := hb K hK Q Q [] [] bt _ _ _ kid hbt.same (by simp [RcOK]) (ha.inv rfl)
  have hall := Sim.seq ha hbody (step_walkList body _).rep
  have hflat : (walkList (macroArgs St.init args.reverse defaults.reverse) body).nested = none :=
    (Step.trans (step_macroArgs St.init _ _) (step_walkList body _)).nn rfl
  rcases hall.unb x hx with hu | hu
  · rcases hall.reads x hx with hr | hr
    · rw [reported_none hflat] at hr
      have := macroFrame_bound args defaults body x hr
      rw [hu] at this; cases this
    · exact hr
  · exact hu

omit hK in
/-- look-ups of `Enclose` at a macro declaration -/
theorem enclose_reads (st1 : St) (hne : st1.assigned ≠ [])
    (args : List String) (defaults : List Expr) (body : List Stmt) (x : String)
    (hx : x ∈ closureNames args defaults body) :
    (walkList (macroArgs (st1.assign "caller") args.reverse defaults.reverse) body).reported x
      ∨ st1.isAssigned x = true := by
  obtain ⟨hx1, hx2⟩ := mem_closureNames.1 hx
  rcases closure_in_context (st1.assign "caller") (assign_ne _ hne _) args defaults body x hx1
    with h | h
  · exact Or.inl h
  · rcases isAssigned_assign_imp _ _ _ h with h | h
    · exact absurd h hx2
    · exact Or.inr h

theorem sim_macro (name : String) (args : List String) (defaults : List Expr) (body : List Stmt)
    (hb : BodyOK body)
    (st : St) (c : Ch) (hbt : Ctx bt P Q) (h : Inv top below st) :
    Sim top below (exec K rc bt top below c (.macro name args defaults body))
      (walk st (.macro name args defaults body)) P Q := by
  generalize hs5 : walkList (macroArgs (st.push.assign "caller") args.reverse
    defaults.reverse) body = s5
  have hw : walk st (.macro name args defaults body) = s5.pop.assign name := by
    simp only [walk, hs5]
  have hst : Step st.push s5 :=
    hs5 ▸ Step.trans (Step.trans (step_assign _ _) (step_macroArgs _ _ _)) (step_walkList _ _)
  obtain ⟨e5, o5, _⟩ := step_scope hst
  have hi5 : Inv top below s5.pop := h.of_assigned_eq e5 o5
  rw [hw]
  simp only [exec]
  refine ⟨fun _ => inv_assign name hi5, fun x hx => List.mem_cons_of_mem _ hx, ?_, ?_⟩
  · intro x hx
    rw [List.mem_append] at hx
    rcases hx with hx | hx
    · obtain ⟨hx1, hx2⟩ := (mem_lookups _ _ _ _).1 hx
      have := enclose_reads st.push (by simp [St.push]) args defaults body x hx1
      rw [hs5] at this
      rw [assign_reported]
      rcases this with h1 | h1
      · exact Or.inl h1
      · rw [isAssigned_push] at h1
        rcases h x h1 with h3 | h3
        · exact Or.inl (o5 x h3)
        · rw [hx2] at h3; cases h3
    · rw [List.mem_flatMap] at hx
      obtain ⟨kid, _, hx⟩ := hx
      exact Or.inr (hbt.qp x (macro_body_reads hK args defaults body hb hbt kid x hx))
  · intro x hx
    rw [List.mem_append] at hx
    rcases hx with hx | hx
    · exact Or.inl ((mem_lookups _ _ _ _).1 hx).2
    · rw [List.mem_flatMap] at hx
      obtain ⟨kid, _, hx⟩ := hx
      exact Or.inr (macro_body_reads hK args defaults body hb hbt kid x hx)

theorem sim_callBlock (callee : Expr) (cargs : List CallArg) (args : List String)
    (defaults : List Expr) (body : List Stmt) (hb : BodyOK body)
    (st : St) (c : Ch) (hbt : Ctx bt P Q) (h : Inv top below st) :
    Sim top below (exec K rc bt top below c (.callBlock callee cargs args defaults body))
      (walk st (.callBlock callee cargs args defaults body)) P Q := by
  obtain ⟨hi1, hrd⟩ := inv_visitLeaves (nvarsCall callee cargs) h
  generalize hs1 : visitLeaves st (nvarsCall callee cargs) = s1 at hi1 hrd
  generalize hs5 : walkList (macroArgs (s1.push.assign "caller") args.reverse
    defaults.reverse) body = s5
  have hw : walk st (.callBlock callee cargs args defaults body) = s5.pop := by
    simp only [walk, hs1, hs5]
  have hst : Step s1.push s5 :=
    hs5 ▸ Step.trans (Step.trans (step_assign _ _) (step_macroArgs _ _ _)) (step_walkList _ _)
  obtain ⟨e5, o5, _⟩ := step_scope hst
  rw [hw]
  simp only [exec]
  refine ⟨fun _ => hi1.of_assigned_eq e5 o5, fun x hx => hx, ?_, ?_⟩
  · intro x hx
    rw [List.mem_append, List.mem_append] at hx
    rcases hx with hx | hx | hx
    · exact Or.inl (o5 x (hrd x hx))
    · obtain ⟨hx1, hx2⟩ := (mem_lookups _ _ _ _).1 hx
      have := enclose_reads s1.push (by simp [St.push]) args defaults body x hx1
      rw [hs5] at this
      rcases this with h1 | h1
      · exact Or.inl h1
      · rw [isAssigned_push] at h1
        rcases hi1 x h1 with h3 | h3
        · exact Or.inl (o5 x h3)
        · rw [hx2] at h3; cases h3
    · rw [List.mem_flatMap] at hx
      obtain ⟨kid, _, hx⟩ := hx
      exact Or.inr (hbt.qp x (macro_body_reads hK args defaults body hb hbt kid x hx))
  · intro x hx
    rw [List.mem_append, List.mem_append] at hx
    rcases hx with hx | hx | hx
    · exact Or.inl ((mem_lookups _ _ _ _).1 hx).2
    · exact Or.inl ((mem_lookups _ _ _ _).1 hx).2
    · rw [List.mem_flatMap] at hx
      obtain ⟨kid, _, hx⟩ := hx
      exact Or.inr (macro_body_reads hK args defaults body hb hbt kid x hx)

theorem sim_block (name : String) (body : List Stmt) (hb : BodyOK body)
    (st : St) (c : Ch) (hbt : Ctx bt P Q) (h : Inv top below st) :
    Sim top below (exec K rc bt top below c (.block name body)) (walk st (.block name body))
      P Q := by
  have hin : Inv [] (top :: below) { st with assigned := [[]] } := by
    intro y hy; simp [St.isAssigned] at hy
  have hs := hb K hK P Q [] [] bt _ _ _ c.sub0 hbt (by simp [RcOK]) hin
  have hst := step_walkList body { st with assigned := [[]] }
  simp only [walk, exec]
  refine ⟨fun _ => h.of_assigned_eq rfl (fun x hx => hst.rep x hx), fun _ hx => hx, ?_, ?_⟩
  · intro x hx
    exact hs.reads x hx
  · intro x hx
    exact (hs.unb x hx).imp (fun hu => by rw [bound_push] at hu; exact hu) id

end

mutual
theorem sim_walk : (s : Stmt) → ∀ (K : Reenter), KOK K → ∀ (P Q : String → Prop) (rc : RC)
    (G : List Ghost) (bt : BT) (st : St) (top : Frame) (below : List Frame) (c : Ch),
    Ctx bt P Q → RcOK rc G top below P → Inv top below st →
    Sim top below (exec K rc bt top below c s) (walk st s) P Q
  | .emit e => fun K _ P Q rc G bt st top below c _ _ h => by
      simpa only [walk, exec, visitExpr, vars] using sim_visitLeaves (nvars e) P Q h
  | .raw => fun K _ P Q rc G bt st top below c _ _ h => by
      simpa only [walk, exec] using Sim.nil h P Q
  | .forLoop target iter filter recursive body els => fun K hK P Q rc G bt st top below c hbt hrc h =>
      sim_for hK target iter filter recursive body els (sim_walkList body) (sim_walkList els)
        st c hbt hrc h
  | .ifCond e t f => fun K hK P Q rc G bt st top below c hbt hrc h =>
      sim_if hK e t f (sim_walkList t) (sim_walkList f) st c hbt hrc h
  | .withBlock assigns body => fun K hK P Q rc G bt st top below c hbt hrc h =>
      sim_withBlock hK assigns body (sim_walkList body) st c hbt hrc h
  | .set target e => fun K _ P Q rc G bt st top below c _ _ h => sim_set target e st c h
  | .setBlock target filter body => fun K hK P Q rc G bt st top below c hbt hrc h =>
      sim_setBlock hK target filter body (sim_walkList body) st c hbt hrc h
  | .autoEscape e body => fun K hK P Q rc G bt st top below c hbt hrc h =>
      sim_autoEscape hK e body (sim_walkList body) st c hbt hrc h
  | .filterBlock filter body => fun K hK P Q rc G bt st top below c hbt hrc h =>
      sim_filterBlock hK filter body (sim_walkList body) st c hbt hrc h
  | .macro name args defaults body => fun K hK P Q rc G bt st top below c hbt _ h =>
      sim_macro hK name args defaults body (sim_walkList body) st c hbt h
  | .callBlock callee cargs args defaults body => fun K hK P Q rc G bt st top below c hbt _ h =>
      sim_callBlock hK callee cargs args defaults body (sim_walkList body) st c hbt h
  | .doStmt callee cargs => fun K _ P Q rc G bt st top below c _ _ h => by
      simpa only [walk, exec, varsCall] using sim_visitLeaves (nvarsCall callee cargs) P Q h
  | .brk => fun K _ P Q rc G bt st top below c _ _ h => by
      simp only [walk, exec]
      exact ⟨fun hn => (by cases hn), fun _ hx => hx, fun x hx => (by cases hx),
        fun x hx => (by cases hx)⟩
  | .cont => fun K _ P Q rc G bt st top below c _ _ h => by
      simp only [walk, exec]
      exact ⟨fun hn => (by cases hn), fun _ hx => hx, fun x hx => (by cases hx),
        fun x hx => (by cases hx)⟩
  | .block name body => fun K hK P Q rc G bt st top below c hbt _ h =>
      sim_block hK name body (sim_walkList body) st c hbt h
  | .include name => fun K _ P Q rc G bt st top below c _ _ h => by
      -- the included template may leave names behind in the top frame: that only binds more
      have hv := sim_visitLeaves (nvars name) P Q h
      simp only [walk, exec, visitExpr, vars]
      exact ⟨fun _ => (hv.inv rfl).mono_top (fun y hy => List.mem_append_right _ hy),
        fun y hy => List.mem_append_right _ hy, hv.reads, hv.unb⟩
  | .extends name => fun K _ P Q rc G bt st top below c _ _ h => by
      simpa only [walk, exec, visitExpr, vars] using sim_visitLeaves (nvars name) P Q h
  | .importAs e target => fun K _ P Q rc G bt st top below c _ _ h => sim_importAs e target st c h
  | .fromImport e targets => fun K _ P Q rc G bt st top below c _ _ h =>
      sim_fromImport e targets st c h
theorem sim_walkList : (ss : List Stmt) → BodyOK ss
  | [] => fun K _ P Q rc G bt st top below cs _ _ h => by
      simpa only [walkList, execList] using Sim.nil h P Q
  | s :: ss => fun K hK P Q rc G bt st top below cs hbt hrc h => by
      have hq := hK P Q rc G bt top below (cs.headD Ch.default).reqs hbt hrc
      have h1 := sim_walk s K hK P Q rc G bt st top below (cs.headD Ch.default) hbt hrc h
      have hq' : ∀ st' : St, ∀ x ∈ K rc bt top below (cs.headD Ch.default).reqs,
          (st'.reported x ∨ P x) ∧ (bound top below x = false ∨ Q x) :=
        fun _ x hx => ⟨Or.inr (hq x hx).1, (hq x hx).2⟩
      have h1' := Sim.prepend _ h1 (hq' _)
      simp only [walkList, execList]
      by_cases ha : (cs.headD Ch.default).ab = 0
      · simp only [ha, ne_eq, not_true_eq_false, if_false]
        by_cases hs : (exec K rc bt top below (cs.headD Ch.default) s).stopped = true
        · simp only [hs, if_true]
          exact Sim.cut h1' (step_walkList ss _).rep rfl (fun _ hx => hx) rfl
        · have hs' : (exec K rc bt top below (cs.headD Ch.default) s).stopped = false := by
            cases hh : (exec K rc bt top below (cs.headD Ch.default) s).stopped <;> simp_all
          simp only [hs', Bool.false_eq_true, if_false]
          have hrc' := hrc.mono (top' := (exec K rc bt top below (cs.headD Ch.default) s).top)
            (below' := below) (fun x hx => bound_mono h1.grow hx) (fun _ hp => hp)
          have h2 := sim_walkList ss K hK P Q rc G bt _ _ below cs.tail hbt hrc' (h1.inv hs')
          exact Sim.prepend _ (Sim.seq h1 h2 (step_walkList ss _).rep) (hq' _)
      · simp only [ha, ne_eq, not_false_eq_true, if_true]
        exact Sim.cut h1' (step_walkList ss _).rep rfl
          (fun x hx => List.mem_of_mem_take hx) rfl
end

/-- one re-entry request (a running recursive loop, a block of the template) is accounted
for, whatever handler `K` serves the requests nested inside it -/
theorem serve_ok {K : Reenter} (hK : KOK K) (P Q : String → Prop) (rc : RC) (G : List Ghost)
    (bt : BT) (top : Frame) (below : List Frame) (r : Ch) (hbt : Ctx bt P Q)
    (hrc : RcOK rc G top below P) :
    ∀ x ∈ serve K rc bt top below r, P x ∧ (bound top below x = false ∨ Q x) := by
  intro x hx
  unfold serve at hx
  split at hx
  · -- a running recursive loop
    have hd := hrc.drop r.n
    split at hx
    · rename_i atoms body rest heq
      rw [heq] at hd
      cases hG : G.drop r.n with
      | nil => rw [hG] at hd; simp [RcOK] at hd
      | cons g G' =>
        rw [hG] at hd
        obtain ⟨⟨hiB, hrep⟩, _⟩ := hd
        obtain ⟨hiE, hit2⟩ := loop_entry g atoms hiB
        have hup : ∀ y, bound top below y = true →
            bound (bindAtoms ["loop"] (top :: below) atoms).1 (top :: below) y = true :=
          fun y hy => (bound_cons_iff _ _ _ _).2 (Or.inr hy)
        have hrc' : RcOK ((atoms, body) :: rest) (g :: G')
            (bindAtoms ["loop"] (top :: below) atoms).1 (top :: below) P := by
          have := hrc.drop r.n
          rw [heq, hG] at this
          exact this.mono hup (fun _ hp => hp)
        have hsim := sim_walkList body K hK P Q _ _ bt _ _ _ r.sub0 hbt hrc' hiE
        rw [List.mem_append] at hx
        rcases hx with hx | hx
        · have hsC := step_visitOpt (atoms.foldl trackAtom g.sB) g.filter
          have hE : Step (atoms.foldl trackAtom g.sB) (walkList (g.sE atoms) body) :=
            Step.trans (Step.trans hsC (step_assign _ "loop")) (step_walkList body _)
          exact ⟨hrep x (hE.rep x (hit2 x hx).1), Or.inl (hit2 x hx).2⟩
        · exact ⟨(hsim.reads x hx).elim (hrep x) id, (hsim.unb x hx).imp unbound_of_push id⟩
    · cases hx
  · -- a block of the template
    split at hx
    · rename_i body heq
      have hmem : body ∈ bt := List.mem_of_getElem? heq
      have hin : Inv [] (top :: below) St.init := by
        intro y hy; simp [St.init, St.isAssigned] at hy
      have hsim := sim_walkList body K hK P Q [] [] bt _ _ _ r.sub0 hbt (by simp [RcOK]) hin
      have hflat : (walkList St.init body).nested = none := (step_walkList body _).nn rfl
      refine ⟨?_, ?_⟩
      · rcases hsim.reads x hx with hr | hr
        · rw [reported_none hflat] at hr
          exact hbt.qp x (hbt.free body hmem x hr)
        · exact hr
      · exact (hsim.unb x hx).imp (fun hr => by rw [bound_push] at hr; exact hr) id
    · cases hx

/-- re-entries are accounted for, however deeply they nest -/
theorem kok_reenter : ∀ d, KOK (reenter d)
  | 0 => fun _ _ _ _ _ _ _ _ _ _ x hx => by simp [reenter] at hx
  | d + 1 => fun P Q rc G bt top below reqs hbt hrc x hx => by
      simp only [reenter, List.mem_flatMap] at hx
      obtain ⟨r, _, hx⟩ := hx
      exact serve_ok (kok_reenter d) P Q rc G bt top below r hbt hrc x hx

/-! ### the blocks of a template: their free names are reported -/

mutual
theorem blocks_reported : (s : Stmt) → ∀ (st : St), ∀ body ∈ blockBodies s,
    ∀ x ∈ (walkList St.init body).out, (walk st s).reported x
  | .emit _, _, _, hb => by simp [blockBodies] at hb
  | .raw, _, _, hb => by simp [blockBodies] at hb
  | .forLoop target iter filter _ body els, st, b, hb => by
      intro x hx
      simp only [blockBodies, List.mem_append] at hb
      simp only [walk]
      rcases hb with hb | hb
      · have := blocksL_reported body
          ((visitOpt (trackAssign (visitExpr st.push iter) target) filter).assign "loop") b hb x hx
        exact (step_of_scope (step_walkList els _)).rep x this
      · exact blocksL_reported els _ b hb x hx
  | .ifCond c t f, st, b, hb => by
      intro x hx
      simp only [blockBodies, List.mem_append] at hb
      simp only [walk]
      rcases hb with hb | hb
      · have := blocksL_reported t (visitExpr st c).push b hb x hx
        exact (step_of_scope (step_walkList f _)).rep x this
      · exact blocksL_reported f _ b hb x hx
  | .withBlock assigns body, st, b, hb => by
      intro x hx
      simp only [blockBodies] at hb
      simp only [walk]
      exact blocksL_reported body _ b hb x hx
  | .set _ _, _, _, hb => by simp [blockBodies] at hb
  | .setBlock target filter body, st, b, hb => by
      intro x hx
      simp only [blockBodies] at hb
      simp only [walk]
      have := blocksL_reported body st.push b hb x hx
      exact (Step.trans (step_visitOpt _ filter) (step_trackAssign _ target)).rep x this
  | .autoEscape e body, st, b, hb => by
      intro x hx
      simp only [blockBodies] at hb
      simp only [walk]
      exact blocksL_reported body _ b hb x hx
  | .filterBlock filter body, st, b, hb => by
      intro x hx
      simp only [blockBodies] at hb
      simp only [walk]
      have := blocksL_reported body st.push b hb x hx
      exact (step_visitExpr _ filter).rep x this
  | .macro name args defaults body, st, b, hb => by
      intro x hx
      simp only [blockBodies] at hb
      simp only [walk]
      rw [assign_reported]
      exact blocksL_reported body _ b hb x hx
  | .callBlock callee cargs args defaults body, st, b, hb => by
      intro x hx
      simp only [blockBodies] at hb
      simp only [walk]
      exact blocksL_reported body _ b hb x hx
  | .doStmt _ _, _, _, hb => by simp [blockBodies] at hb
  | .brk, _, _, hb => by simp [blockBodies] at hb
  | .cont, _, _, hb => by simp [blockBodies] at hb
  | .block name body, st, b, hb => by
      intro x hx
      simp only [blockBodies, List.mem_cons] at hb
      simp only [walk]
      rcases hb with rfl | hb
      · exact block_free_reported st b x hx
      · exact blocksL_reported body _ b hb x hx
  | .include _, _, _, hb => by simp [blockBodies] at hb
  | .extends _, _, _, hb => by simp [blockBodies] at hb
  | .importAs _ _, _, _, hb => by simp [blockBodies] at hb
  | .fromImport _ _, _, _, hb => by simp [blockBodies] at hb
theorem blocksL_reported : (ss : List Stmt) → ∀ (st : St), ∀ body ∈ blockBodiesL ss,
    ∀ x ∈ (walkList St.init body).out, (walkList st ss).reported x
  | [], _, _, hb => by simp [blockBodiesL] at hb
  | s :: ss, st, b, hb => by
      intro x hx
      simp only [blockBodiesL, List.mem_append] at hb
      simp only [walkList]
      rcases hb with hb | hb
      · exact (step_walkList ss _).rep x (blocks_reported s st b hb x hx)
      · exact blocksL_reported ss _ b hb x hx
end

/-- the free names of the blocks of a template -/
def BlockFree (t : List Stmt) : String → Prop :=
  fun y => ∃ body ∈ blockBodiesL t, y ∈ (walkList St.init body).out

theorem ctx_blockFree (t : List Stmt) : Ctx (blockBodiesL t) (BlockFree t) (BlockFree t) :=
  ⟨fun _ h => h, fun body hb _ hy => ⟨body, hb, hy⟩⟩

/-- the top-level code of a template entered with ANY frames (nothing is assigned in the
tracker yet, so the frames may bind whatever they like), any accounted-for handler, either
mode of the analysis, every execution (failing ones included): every look-up is reported -/
theorem template_sound_in (K : Reenter) (hK : KOK K) (t : List Stmt) (st0 : St)
    (h0 : st0.assigned = [[]]) (top : Frame) (below : List Frame)
    (cs : List Ch) (x : String)
    (hx : x ∈ (execList K [] (blockBodiesL t) top below cs t).reads) :
    (walkList st0 t).reported x := by
  have hinit : Inv top below st0 := by
    intro y hy; simp [St.isAssigned, h0] at hy
  have hsim := sim_walkList t K hK (BlockFree t) (BlockFree t) [] [] (blockBodiesL t) st0 top
    below cs (ctx_blockFree t) (by simp [RcOK]) hinit
  rcases hsim.reads x hx with h | ⟨body, hb, h⟩
  · exact h
  · exact blocksL_reported t st0 body hb x h

/-- the whole template, either mode of the analysis, every execution (failing ones included):
every look-up is reported -/
theorem template_sound (t : List Stmt) (st0 : St) (h0 : st0.assigned = [[]])
    (cs : List Ch) (d : Nat) (x : String) (hx : x ∈ reads t cs d) :
    (walkList st0 t).reported x :=
  template_sound_in (reenter d) (kok_reenter d) t st0 h0 [] [] cs x hx

end MJ.Meta
