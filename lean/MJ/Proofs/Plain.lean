import MJ.Proofs.Scoping
/-!
# Plain data (C03)

The values that flow through expressions of the fragment are *plain data*: `undefined`, `none`,
booleans, integers, strings, lists and maps of plain data — never a macro, a keyword-argument bundle
or another object of the VM.  (Macro values only sit in variables with macro names, `wfExpr`.)
This is what makes the calling convention of `Value::call` harmless inside the fragment: a positional
argument is never taken for the keyword bundle (`callArgs_plain`).
-/
namespace MJ.Eval
open MJ.Compile

mutual
  def plain : Val → Bool
    | .undef => true
    | .none => true
    | .bool _ => true
    | .int _ => true
    | .str _ => true
    | .list xs => plainL xs
    | .map kvs => plainM kvs
    | .macro .. => false
    | .vmMacro .. => false
    | .kwargs _ => false
    | .loopObj _ => false
  def plainL : List Val → Bool
    | [] => true
    | x :: xs => plain x && plainL xs
  def plainM : List (String × Val) → Bool
    | [] => true
    | (_, v) :: rest => plain v && plainM rest
end

theorem plainL_iff : ∀ (xs : List Val), plainL xs = true ↔ ∀ x, x ∈ xs → plain x = true
  | [] => by simp [plainL]
  | x :: xs => by simp [plainL, plainL_iff xs]

theorem plainM_iff : ∀ (kvs : List (String × Val)), plainM kvs = true ↔ ∀ kv, kv ∈ kvs → plain kv.2 = true
  | [] => by simp [plainM]
  | (k, v) :: rest => by simp [plainM, plainM_iff rest]

theorem assocGet_mem' {α : Type} {k : String} : ∀ {l : List (String × α)} {v : α}, assocGet k l = some v → (k, v) ∈ l
  | [], _, h => by simp [assocGet] at h
  | (k', v') :: rest, v, h => by
    simp only [assocGet] at h
    split at h
    · rename_i hk; cases h; subst hk; simp
    · exact List.mem_cons_of_mem _ (assocGet_mem' h)

theorem plainM_get {kvs : List (String × Val)} (h : plainM kvs = true) {k : String} {v : Val}
    (hg : assocGet k kvs = some v) : plain v = true :=
  (plainM_iff kvs).1 h (k, v) (assocGet_mem' hg)

theorem plainM_getD {kvs : List (String × Val)} (h : plainM kvs = true) (k : String) :
    plain ((assocGet k kvs).getD .undef) = true := by
  cases hg : assocGet k kvs with
  | none => rfl
  | some v => exact plainM_get h hg

theorem plain_str_map {α : Type} (f : α → String) (l : List α) : plainL (l.map fun a => Val.str (f a)) = true := by
  rw [plainL_iff]; intro x hx
  obtain ⟨a, _, rfl⟩ := List.mem_map.1 hx; rfl

theorem mapInsert_plain (k : String) (v : Val) (hv : plain v = true) : ∀ (m : List (String × Val)), plainM m = true →
    plainM (mapInsert k v m) = true
  | [], _ => by simp [mapInsert, plainM, hv]
  | (k', v') :: rest, h => by
    have h' : plain v' = true ∧ plainM rest = true := by simpa [plainM] using h
    simp only [mapInsert]
    split
    · simp [plainM, hv, h'.2]
    · split
      · simp [plainM, hv, h'.1, h'.2]
      · simp [plainM, h'.1, mapInsert_plain k v hv rest h'.2]

theorem filter_plainM (p : String × Val → Bool) (m : List (String × Val)) (h : plainM m = true) :
    plainM (m.filter p) = true := by
  rw [plainM_iff] at h ⊢
  intro kv hkv; exact h kv (List.mem_filter.1 hkv).1

theorem insertPairs_plain : ∀ (ps : List (Val × Val)) (acc m : List (String × Val)),
    (∀ p, p ∈ ps → plain p.2 = true) → plainM acc = true → insertPairs ps acc = .ok m → plainM m = true
  | [], acc, m, _, ha, h => by simp [insertPairs] at h; subst h; exact ha
  | (k, v) :: rest, acc, m, hp, ha, h => by
    have hv : plain v = true := hp (k, v) (by simp)
    cases k <;> try (simp [insertPairs] at h; done)
    rename_i ks
    simp only [insertPairs] at h
    refine insertPairs_plain rest _ m (fun p hp' => hp p (by simp [hp'])) ?_ h
    split
    · exact mapInsert_plain ks v hv _ (filter_plainM _ _ ha)
    · exact mapInsert_plain ks v hv _ ha

/-! ## The builtins keep data plain -/

theorem litVal_plain (l : Lit) : plain (litVal l) = true := by cases l <;> rfl

theorem chkInt_plain {i : Int} {v : Val} (h : chkInt i = .ok v) : plain v = true := by
  unfold chkInt at h; split at h
  · cases h; rfl
  · cases h

theorem intOp_plain {f : Int → Int → Res Val} (hf : ∀ x y v, f x y = .ok v → plain v = true) {a b v : Val}
    (h : intOp f a b = .ok v) : plain v = true := by
  unfold intOp at h
  split at h
  · exact hf _ _ _ h
  · cases h

theorem repeatStr_plain {x : String} {n : Int} {v : Val} (h : repeatStr x n = .ok v) : plain v = true := by
  unfold repeatStr at h
  split at h
  · cases h
  · split at h
    · cases h; rfl
    · split at h
      · cases h
      · cases h; rfl

theorem arith_plain {op : BinOp} {a b v : Val} (h : arith op a b = .ok v) : plain v = true := by
  unfold arith at h
  split at h
  · split at h
    · cases h; rfl
    · cases h
    · exact intOp_plain (fun _ _ _ h => chkInt_plain h) h
  · exact intOp_plain (fun _ _ _ h => chkInt_plain h) h
  · split at h <;> first
      | exact repeatStr_plain h
      | (cases h; done)
      | exact intOp_plain (fun _ _ _ h => chkInt_plain h) h
  · refine intOp_plain (fun x y v h => ?_) h
    unfold floordivInt at h; split at h
    · cases h
    · exact chkInt_plain h
  · refine intOp_plain (fun x y v h => ?_) h
    unfold remInt at h; split at h
    · cases h
    · exact chkInt_plain h
  · cases h

theorem negVal_plain {a v : Val} (h : negVal a = .ok v) : plain v = true := by
  cases a <;> simp [negVal] at h
  exact chkInt_plain h

theorem getAttr_plain {a v : Val} {name : String} (ha : plain a = true) (h : getAttr a name = .ok v) : plain v = true := by
  cases a <;> simp [getAttr] at h <;> try (subst h; rfl)
  · rename_i kvs; subst h; exact plainM_getD (by simpa [plain] using ha) name

theorem indexList_mem {α : Type} {xs : List α} {i : Int} {x : α} (h : indexList xs i = some x) : x ∈ xs := by
  unfold indexList at h
  split at h
  · exact List.mem_of_getElem? h
  · split at h
    · exact List.mem_of_getElem? h
    · cases h

theorem getItem_plain {a i v : Val} (ha : plain a = true) (h : getItem a i = .ok v) : plain v = true := by
  unfold getItem at h
  split at h
  · cases h
  · rename_i kvs k; cases h; exact plainM_getD (by simpa [plain] using ha) k
  · rename_i xs n; cases h
    cases hx : indexList xs n with
    | none => rfl
    | some x => exact (plainL_iff xs).1 (by simpa [plain] using ha) x (indexList_mem hx)
  · rename_i s n; cases h
    cases hx : indexList s.toList n with
    | none => rfl
    | some c => rfl
  · cases h
  · cases h
  · cases h; rfl

theorem iterate_plain {a : Val} {xs : List Val} (ha : plain a = true) (h : iterate a = .ok xs) : plainL xs = true := by
  cases a <;> simp [iterate] at h
  · subst h; rfl
  · subst h; rfl
  · subst h; exact plain_str_map _ _
  · subst h; simpa [plain] using ha
  · subst h; exact plain_str_map (fun kv : String × Val => kv.1) _

theorem applyFilter_plain {name : String} {a v : Val} {args : List Val} (ha : plain a = true)
    (hargs : ∀ x, x ∈ args → plain x = true) (h : applyFilter name a args = .ok v) : plain v = true := by
  unfold applyFilter at h
  split at h
  · split at h <;> first | (cases h; rfl) | cases h
  · cases h; rfl
  · cases h; rfl
  · cases h; split <;> first | rfl | exact ha
  · rename_i d; cases h
    have hd := hargs d (by simp)
    split <;> first | exact hd | exact ha
  · rename_i d lax; cases h
    have hd := hargs d (by simp)
    split
    · exact hd
    · split <;> first | exact hd | exact ha
  · cases hi : iterate a with
    | error e => rw [hi] at h; cases h
    | ok xs => rw [hi] at h; cases h; rfl
  · cases hi : iterate a with
    | error e => rw [hi] at h; cases h
    | ok xs => rw [hi] at h; cases h; rfl
  · split at h
    · cases h; rename_i s; cases s.toList.head? <;> rfl
    · rename_i xs; cases h
      cases hx : xs.head? with
      | none => rfl
      | some x => exact (plainL_iff xs).1 (by simpa [plain] using ha) x (List.mem_of_mem_head? hx)
    · rename_i kvs; cases h; cases kvs.head? <;> rfl
    · cases h
  · split at h
    · cases h; rename_i s; cases s.toList.getLast? <;> rfl
    · rename_i xs; cases h
      cases hx : xs.getLast? with
      | none => rfl
      | some x => exact (plainL_iff xs).1 (by simpa [plain] using ha) x (List.mem_of_getLast? hx)
    · cases h
  · cases hi : iterate a with
    | error e => rw [hi] at h; cases h
    | ok xs => rw [hi] at h; cases h; simpa [plain] using iterate_plain ha hi
  all_goals cases h

theorem mem_splitArgs_pos {as : List (Option String × Val)} {x : Val} (h : x ∈ (splitArgs as).1) : x ∈ as.map (·.2) := by
  simp only [splitArgs, List.mem_filterMap] at h
  obtain ⟨a, ha, hm⟩ := h
  obtain ⟨k, v⟩ := a
  cases k with
  | none => simp at hm; subst hm; exact List.mem_map.2 ⟨_, ha, rfl⟩
  | some _ => simp at hm

theorem wfArgs_call {M P A} : ∀ {args : List (Option String × Expr)}, wfArgs M P A args = true → wfCallArgs M P A args = true
  | [], _ => rfl
  | (none, e) :: rest, h => by
    have h' : wfExpr M P A e = true ∧ wfArgs M P A rest = true := by simpa [wfArgs] using h
    simp [wfCallArgs, h'.1, wfArgs_call h'.2]
  | (some _, _) :: _, h => by simp [wfArgs] at h

/-! ## States whose data is plain -/

/-- the render context and every variable that is not a macro name hold plain data -/
def PlainSt (M : List String) (ctx : Scope) (heap : Heap) : Prop :=
  (∀ x v, assocGet x ctx = some v → plain v = true) ∧
  (∀ (id : Nat) (cell : Scope) (x : String) (v : Val), heap[id]? = some cell → x ∉ M → assocGet x cell = some v → plain v = true)

theorem PlainSt.lookupIn {M ctx heap} (h : PlainSt M ctx heap) {x : String} (hx : x ∉ M) {v : Val} :
    ∀ {st : List Nat}, lookupIn heap x st = some v → plain v = true
  | [], hl => by simp [MJ.Eval.lookupIn] at hl
  | id :: rest, hl => by
    simp only [MJ.Eval.lookupIn] at hl
    cases hc : heap[id]? with
    | none => rw [hc] at hl; simp at hl; exact PlainSt.lookupIn h hx hl
    | some cell =>
      rw [hc] at hl
      simp only [Option.bind_some] at hl
      cases hg : assocGet x cell with
      | none => rw [hg] at hl; exact PlainSt.lookupIn h hx hl
      | some w => rw [hg] at hl; cases hl; exact h.2 id cell x _ hc hx hg

theorem PlainSt.lookup {M ctx heap} (h : PlainSt M ctx heap) {x : String} (hx : x ∉ M) (st : List Nat) :
    plain ((lookup ctx heap st x).getD .undef) = true := by
  unfold MJ.Eval.lookup
  cases hl : MJ.Eval.lookupIn heap x st with
  | some v => exact h.lookupIn hx hl
  | none =>
    cases hc : assocGet x ctx with
    | none => simp [hc]; rfl
    | some v => simp [hc]; exact h.1 x v hc

theorem callValue_str {n ctx heap w as v} (h : callValue n ctx heap w as = .ok v) : ∃ s, v = .str s := by
  cases n with
  | zero => simp [callValue] at h
  | succ m =>
    simp only [callValue] at h
    split at h
    · split at h
      · cases h
      · split at h
        · cases h
        · split at h
          · cases h
          · cases h; exact ⟨_, rfl⟩
          · cases h
    · cases h

section
variable {M : List String} {ctx : Scope} {heap : Heap} {st : List Nat} (hp : PlainSt M ctx heap)
include hp

mutual
theorem evalExpr_plain {P A} : ∀ (n : Nat) (e : Expr) (v : Val), wfExpr M P A e = true →
    evalExpr n ctx heap st e = .ok v → plain v = true
  | 0, _, _, _, h => by simp [evalExpr] at h
  | n + 1, e, v, hw, h => by
    cases e with
    | const l => simp [evalExpr] at h; subst h; exact litVal_plain l
    | var x =>
      simp [evalExpr] at h; subst h
      have hx : ¬ x ∈ M := by have := hw; simp [wfExpr] at this; exact this.1
      exact hp.lookup hx st
    | unop op e =>
      cases op
      · simp only [evalExpr, bind, Except.bind] at h
        split at h
        · cases h
        · cases h; rfl
      · simp only [evalExpr, bind, Except.bind] at h
        split at h
        · cases h
        · exact negVal_plain h
    | binop op l r =>
      have hw' : wfExpr M P A l = true ∧ wfExpr M P A r = true := by simpa [wfExpr] using hw
      cases op
      case and =>
        simp only [evalExpr, bind, Except.bind] at h
        split at h
        · cases h
        · rename_i a ha
          split at h
          · exact evalExpr_plain n r v hw'.2 h
          · cases h; exact evalExpr_plain n l _ hw'.1 ha
      case or =>
        simp only [evalExpr, bind, Except.bind] at h
        split at h
        · cases h
        · rename_i a ha
          split at h
          · cases h; exact evalExpr_plain n l _ hw'.1 ha
          · exact evalExpr_plain n r v hw'.2 h
      all_goals
        simp only [evalExpr, bind, Except.bind] at h
        split at h
        · cases h
        · split at h
          · cases h
          · first
              | exact arith_plain h
              | (cases h; rfl)
              | (simp only [Except.map] at h; split at h <;> cases h; rfl)
    | cmp e ops =>
      have hw' : (decide (2 ≤ ops.length) = true ∧ wfExpr M P A e = true) ∧ wfChain M P A ops = true := by
        simpa [wfExpr] using hw
      simp only [evalExpr, bind, Except.bind] at h
      split at h
      · cases h
      · exact evalChain_plain n _ ops v hw'.2 h
    | ife c t f =>
      cases f with
      | none =>
        have hw' : wfExpr M P A c = true ∧ wfExpr M P A t = true := by simpa [wfExpr] using hw
        simp only [evalExpr, bind, Except.bind] at h
        split at h
        · cases h
        · split at h
          · exact evalExpr_plain n t v hw'.2 h
          · cases h; rfl
      | some f =>
        have hw' : (wfExpr M P A c = true ∧ wfExpr M P A t = true) ∧ wfExpr M P A f = true := by simpa [wfExpr] using hw
        simp only [evalExpr, bind, Except.bind] at h
        split at h
        · cases h
        · split at h
          · exact evalExpr_plain n t v hw'.1.2 h
          · exact evalExpr_plain n f v hw'.2 h
    | filter name e args =>
      have hw' : wfExpr M P A e = true ∧ wfArgs M P A args = true := by simpa [wfExpr] using hw
      simp only [evalExpr, bind, Except.bind] at h
      split at h
      · cases h
      · rename_i a ha
        split at h
        · cases h
        · rename_i as has
          split at h
          · exact applyFilter_plain (evalExpr_plain n e a hw'.1 ha)
              (fun x hx => evalArgs_plain n args as (wfArgs_call hw'.2) has x (mem_splitArgs_pos hx)) h
          · cases h
    | test name e args =>
      simp only [evalExpr, bind, Except.bind] at h
      split at h
      · cases h
      · split at h
        · cases h
        · split at h
          · simp only [Except.map] at h; split at h <;> cases h; rfl
          · cases h
    | getattr e name =>
      simp only [evalExpr, bind, Except.bind] at h
      split at h
      · cases h
      · rename_i a ha
        exact getAttr_plain (evalExpr_plain n e a (by simpa [wfExpr] using hw) ha) h
    | getitem e i =>
      have hw' : wfExpr M P A e = true ∧ wfExpr M P A i = true := by simpa [wfExpr] using hw
      simp only [evalExpr, bind, Except.bind] at h
      split at h
      · cases h
      · rename_i a ha
        split at h
        · cases h
        · exact getItem_plain (evalExpr_plain n e a hw'.1 ha) h
    | call f args =>
      cases f <;> try (simp [wfExpr] at hw; done)
      simp only [evalExpr, bind, Except.bind] at h
      split at h
      · split at h
        · cases h
        · obtain ⟨s, rfl⟩ := callValue_str h; rfl
      · cases h
    | list items =>
      simp only [evalExpr, bind, Except.bind] at h
      split at h
      · cases h
      · rename_i vs hvs
        cases h
        exact evalList_plain n items vs (by simpa [wfExpr] using hw) hvs
    | map kvs =>
      simp only [evalExpr, bind, Except.bind] at h
      split at h
      · cases h
      · rename_i ps hps
        split at h
        · cases h
        · rename_i m hm
          cases h
          exact insertPairs_plain ps [] m (evalPairs_plain n kvs ps (by simpa [wfExpr] using hw) hps) rfl hm
theorem evalChain_plain {P A} : ∀ (n : Nat) (a : Val) (ops : List (CmpOp × Expr)) (v : Val), wfChain M P A ops = true →
    evalChain n ctx heap st a ops = .ok v → plain v = true
  | 0, _, _, _, _, h => by simp [evalChain] at h
  | _ + 1, _, [], v, _, h => by simp [evalChain] at h; subst h; rfl
  | n + 1, a, (op, e) :: rest, v, hw, h => by
    have hw' : wfExpr M P A e = true ∧ wfChain M P A rest = true := by simpa [wfChain] using hw
    simp only [evalChain, bind, Except.bind] at h
    split at h
    · cases h
    · split at h
      · cases h
      · split at h
        · exact evalChain_plain n _ rest v hw'.2 h
        · cases h; rfl
/-- all argument values (positional and keyword) -/
theorem evalArgs_plain {P A} : ∀ (n : Nat) (args : Args) (as : List (Option String × Val)), wfCallArgs M P A args = true →
    evalArgs n ctx heap st args = .ok as → ∀ x, x ∈ as.map (·.2) → plain x = true
  | 0, _, _, _, h => by simp [evalArgs] at h
  | _ + 1, [], as, _, h => by simp [evalArgs] at h; subst h; simp
  | n + 1, (k, e) :: rest, as, hw, h => by
    have hw' : wfExpr M P A e = true ∧ wfCallArgs M P A rest = true := by simpa [wfCallArgs] using hw
    simp only [evalArgs, bind, Except.bind] at h
    split at h
    · cases h
    · rename_i v hv
      split at h
      · cases h
      · rename_i vs hvs
        cases h
        intro x hx
        simp only [List.map_cons, List.mem_cons] at hx
        rcases hx with rfl | hx
        · exact evalExpr_plain n e _ hw'.1 hv
        · exact evalArgs_plain n rest vs hw'.2 hvs x hx
theorem evalList_plain {P A} : ∀ (n : Nat) (es : List Expr) (vs : List Val), wfList M P A es = true →
    evalList n ctx heap st es = .ok vs → plain (.list vs) = true
  | 0, _, _, _, h => by simp [evalList] at h
  | _ + 1, [], vs, _, h => by simp [evalList] at h; subst h; rfl
  | n + 1, e :: rest, vs, hw, h => by
    have hw' : wfExpr M P A e = true ∧ wfList M P A rest = true := by simpa [wfList] using hw
    simp only [evalList, bind, Except.bind] at h
    split at h
    · cases h
    · rename_i v hv
      split at h
      · cases h
      · rename_i vs' hvs
        cases h
        have h1 := evalExpr_plain n e v hw'.1 hv
        have h2 := evalList_plain n rest vs' hw'.2 hvs
        simp only [plain] at h2 ⊢
        simp [plainL, h1, h2]
theorem evalPairs_plain {P A} : ∀ (n : Nat) (kvs : List (Expr × Expr)) (ps : List (Val × Val)), wfPairs M P A kvs = true →
    evalPairs n ctx heap st kvs = .ok ps → ∀ p, p ∈ ps → plain p.2 = true
  | 0, _, _, _, h => by simp [evalPairs] at h
  | _ + 1, [], ps, _, h => by simp [evalPairs] at h; subst h; simp
  | n + 1, (k, e) :: rest, ps, hw, h => by
    have hw' : (wfExpr M P A k = true ∧ wfExpr M P A e = true) ∧ wfPairs M P A rest = true := by simpa [wfPairs] using hw
    simp only [evalPairs, bind, Except.bind] at h
    split at h
    · cases h
    · split at h
      · cases h
      · rename_i v hv
        split at h
        · cases h
        · rename_i ps' hps
          cases h
          intro p hp'
          rcases List.mem_cons.1 hp' with rfl | hp'
          · exact evalExpr_plain n e v hw'.1.2 hv
          · exact evalPairs_plain n rest ps' hw'.2 hps p hp'
end
end

theorem applyFilters_plain {M : List String} {ctx : Scope} {heap : Heap} {st : List Nat} (hp : PlainSt M ctx heap) {P A} :
    ∀ (n : Nat) (v : Val) (fs : List FilterApp) (v' : Val), plain v = true → wfFilters M P A fs = true →
      applyFilters n ctx heap st v fs = .ok v' → plain v' = true
  | 0, _, _, _, _, _, h => by simp [applyFilters] at h
  | _ + 1, v, [], v', hv, _, h => by simp [applyFilters] at h; subst h; exact hv
  | n + 1, v, (name, args) :: rest, v', hv, hw, h => by
    have hw' : wfArgs M P A args = true ∧ wfFilters M P A rest = true := by simpa [wfFilters] using hw
    simp only [applyFilters, bind, Except.bind] at h
    split at h
    · cases h
    · rename_i as has
      split at h
      · split at h
        · cases h
        · rename_i v1 hv1
          exact applyFilters_plain hp n v1 rest v'
            (applyFilter_plain hv (fun x hx => evalArgs_plain hp n args as (wfArgs_call hw'.1) has x (mem_splitArgs_pos hx)) hv1)
            hw'.2 h
      · cases h

/-- a plain positional argument is never taken for the keyword-argument bundle -/
theorem callArgs_plain {as : List (Option String × Val)} (h : ∀ v, v ∈ (splitArgs as).1 → plain v = true) :
    callArgs as = ((splitArgs as).1, (splitArgs as).2) := by
  unfold callArgs
  cases hk : (splitArgs as).2 with
  | cons k ks => rfl
  | nil =>
    simp only
    cases hl : (splitArgs as).1.getLast? with
    | none => rfl
    | some lastv =>
      have hm : lastv ∈ (splitArgs as).1 := List.mem_of_getLast? hl
      have := h lastv hm
      cases lastv <;> first | rfl | (simp [plain] at this)

mutual
theorem bindTarget_plain : ∀ (t : Target) (v : Val) (bs : List (String × Val)), plain v = true →
    bindTarget t v = .ok bs → ∀ b, b ∈ bs → plain b.2 = true
  | .var x, v, bs, hv, h => by
    simp [bindTarget] at h; subst h
    intro b hb; simp at hb; subst hb; exact hv
  | .tuple ts, v, bs, hv, h => by
    cases v <;> try (simp [bindTarget] at h; done)
    · rename_i xs
      simp only [bindTarget] at h
      exact bindTargets_plain ts xs bs ((plainL_iff xs).1 (by simpa [plain] using hv)) h
    · rename_i kvs
      simp only [bindTarget] at h
      exact bindTargets_plain ts _ bs ((plainL_iff _).1 (plain_str_map (fun kv : String × Val => kv.1) kvs)) h
theorem bindTargets_plain : ∀ (ts : List Target) (vs : List Val) (bs : List (String × Val)), (∀ v, v ∈ vs → plain v = true) →
    bindTargets ts vs = .ok bs → ∀ b, b ∈ bs → plain b.2 = true
  | [], [], bs, _, h => by simp [bindTargets] at h; subst h; simp
  | [], _ :: _, _, _, h => by simp [bindTargets] at h
  | _ :: _, [], _, _, h => by simp [bindTargets] at h
  | t :: ts, v :: vs, bs, hv, h => by
    simp only [bindTargets] at h
    split at h
    · rename_i b1 hb1
      split at h
      · rename_i b2 hb2
        cases h
        intro b hb
        rcases List.mem_append.1 hb with hb | hb
        · exact bindTarget_plain t v b1 (hv v (by simp)) hb1 b hb
        · exact bindTargets_plain ts vs b2 (fun x hx => hv x (by simp [hx])) hb2 b hb
      · cases h
    · cases h
end

theorem loopVal_plain (l : LoopInfo) (hp : ∀ v, l.prev = some v → plain v = true)
    (hn : ∀ v, l.next = some v → plain v = true) : plain (loopVal l) = true := by
  have h1 : plain (l.next.getD .undef) = true := by
    cases h : l.next with
    | none => rfl
    | some v => exact hn v h
  have h2 : plain (l.prev.getD .undef) = true := by
    cases h : l.prev with
    | none => rfl
    | some v => exact hp v h
  cases hlen : l.length <;> simp [loopVal, plain, plainM, hlen, h1, h2]

theorem loopInfosFrom_plain (len : Option Nat) : ∀ (xs : List Val) (idx : Nat) (prev : Option Val),
    (∀ v, prev = some v → plain v = true) → (∀ x, x ∈ xs → plain x = true) →
    ∀ l, l ∈ loopInfosFrom len idx prev xs → (∀ v, l.prev = some v → plain v = true) ∧ (∀ v, l.next = some v → plain v = true)
  | [], _, _, _, _, l, hl => by simp [loopInfosFrom] at hl
  | x :: rest, idx, prev, hp, hx, l, hl => by
    simp only [loopInfosFrom, List.mem_cons] at hl
    rcases hl with rfl | hl
    · refine ⟨hp, fun v hv => ?_⟩
      simp only at hv
      exact hx v (List.mem_cons_of_mem _ (List.mem_of_mem_head? hv))
    · exact loopInfosFrom_plain len rest (idx + 1) (some x) (fun v hv => by cases hv; exact hx _ (by simp))
        (fun y hy => hx y (by simp [hy])) l hl

theorem loopInfos_plain (sized : Bool) (xs : List Val) (hx : ∀ x, x ∈ xs → plain x = true) :
    ∀ l, l ∈ loopInfos sized xs → plain (loopVal l) = true := by
  intro l hl
  obtain ⟨h1, h2⟩ := loopInfosFrom_plain _ xs 0 none (fun v hv => by cases hv) hx l hl
  exact loopVal_plain l h1 h2

/-! ### Stores -/

theorem assocSet_get {α : Type} (x y : String) (w : α) (c : List (String × α)) {v : α}
    (h : assocGet y (assocSet x w c) = some v) : (y = x ∧ v = w) ∨ assocGet y c = some v := by
  induction c with
  | nil =>
    simp only [assocSet, assocGet] at h
    split at h
    · rename_i hk; cases h; exact Or.inl ⟨hk.symm, rfl⟩
    · cases h
  | cons p rest ih =>
    obtain ⟨k, u⟩ := p
    simp only [assocSet] at h
    split at h
    · rename_i hk
      simp only [assocGet] at h ⊢
      split at h
      · rename_i hy; cases h; exact Or.inl ⟨hy.symm, rfl⟩
      · rename_i hy
        have : ¬ k = y := by rw [hk]; exact hy
        simp [this, h]
    · simp only [assocGet] at h ⊢
      split at h
      · rename_i hy; simp [hy, h]
      · rename_i hy; simp only [hy, if_false]; exact ih h

theorem PlainSt.heapSet {M ctx heap} (h : PlainSt M ctx heap) (cell : Nat) (x : String) (w : Val)
    (hw : x ∉ M → plain w = true) : PlainSt M ctx (heapSet heap cell x w) := by
  refine ⟨h.1, fun id c y v hc hy hg => ?_⟩
  unfold MJ.Eval.heapSet at hc
  cases hcell : heap[cell]? with
  | none => rw [hcell] at hc; exact h.2 id c y v hc hy hg
  | some c0 =>
    rw [hcell] at hc
    simp only at hc
    by_cases hid : id = cell
    · subst hid
      have hlt : id < heap.length := by
        cases hd : decide (id < heap.length) with
        | true => exact of_decide_eq_true hd
        | false =>
          have : heap.length ≤ id := Nat.le_of_not_lt (of_decide_eq_false hd)
          rw [List.getElem?_eq_none this] at hcell; cases hcell
      rw [List.getElem?_set_self hlt] at hc
      cases hc
      rcases assocSet_get x y w c0 hg with ⟨rfl, rfl⟩ | hg'
      · exact hw hy
      · exact h.2 id c0 y v hcell hy hg'
    · rw [List.getElem?_set_ne (Ne.symm hid)] at hc
      exact h.2 id c y v hc hy hg

theorem PlainSt.heapSetAll {M ctx} : ∀ (bs : List (String × Val)) {heap : Heap}, PlainSt M ctx heap → ∀ (cell : Nat),
    (∀ b, b ∈ bs → b.1 ∉ M → plain b.2 = true) → PlainSt M ctx (heapSetAll heap cell bs)
  | [], _, h, _, _ => h
  | (x, w) :: rest, _, h, cell, hb => by
    simp only [MJ.Eval.heapSetAll]
    exact PlainSt.heapSetAll rest (h.heapSet cell x w (hb (x, w) (by simp))) cell (fun b hb' => hb b (by simp [hb']))

theorem PlainSt.push {M ctx heap} (h : PlainSt M ctx heap) (cell : Scope)
    (hc : ∀ x v, x ∉ M → assocGet x cell = some v → plain v = true) : PlainSt M ctx (heap ++ [cell]) := by
  refine ⟨h.1, fun id c y v hg hy ha => ?_⟩
  by_cases hlt : id < heap.length
  · rw [List.getElem?_append_left hlt] at hg
    exact h.2 id c y v hg hy ha
  · have hge : heap.length ≤ id := Nat.le_of_not_lt hlt
    rw [List.getElem?_append_right hge] at hg
    cases hi : id - heap.length with
    | zero => rw [hi] at hg; simp at hg; subst hg; exact hc y v hy ha
    | succ k => rw [hi] at hg; simp at hg

end MJ.Eval
