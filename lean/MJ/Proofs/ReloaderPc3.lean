import MJ.Proofs.ReloaderInv
/-! `Inv` is preserved by the mutex holder's steps, part 3 of 5 (split for parallel builds) -/
namespace MJ.Reloader
variable {σ σ' : State} {c : Active}

theorem inv_pc_creatingReq {rest : List COp} (h : Inv σ) (hc : σ.cur = some c)
    (hpc : c.pc = .creating (.req :: rest)) (hs : stepActive σ c = some σ') : Inv σ' := by inv_pc_tac
theorem inv_pc_creatingFast {b : Bool} {rest : List COp} (h : Inv σ) (hc : σ.cur = some c)
    (hpc : c.pc = .creating (.setFast b :: rest)) (hs : stepActive σ c = some σ') : Inv σ' := by inv_pc_tac
theorem inv_pc_creatingWatch {rest : List COp} (h : Inv σ) (hc : σ.cur = some c)
    (hpc : c.pc = .creating (.watch :: rest)) (hs : stepActive σ c = some σ') : Inv σ' := by inv_pc_tac
theorem inv_pc_creatingPersist {b : Bool} {rest : List COp} (h : Inv σ) (hc : σ.cur = some c)
    (hpc : c.pc = .creating (.persist b :: rest)) (hs : stepActive σ c = some σ') : Inv σ' := by inv_pc_tac

end MJ.Reloader
