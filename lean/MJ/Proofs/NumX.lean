import MJ.Model.NumX
import MJ.Proofs.Num
import MJ.Proofs.NumLex
import MJ.Proofs.NumF
import MJ.Proofs.CmpNum
/-! Helper lemmas for the round-5 extensions of C08 (`MJ/Model/NumX.lean`). -/
namespace MJ.NumX
open MJ.Num MJ.F64 MJ.Val MJ.NumF MJ.NumLex

/-! ## operators as functions of `coerce` -/

theorem binop_eq_opOn (op : Op) (a b : NumRepr) : binop op a b = opOn op (coerce a b) := by
  cases h : coerce a b with
  | none => cases op <;> simp [binop, add, sub, mul, intDiv, rem, pow, opOn, h]
  | some p =>
    obtain ⟨x, y⟩ := p
    cases op <;> simp only [binop, add, sub, mul, intDiv, rem, pow, opOn, h]
    cases powChecked x y <;> rfl

theorem embed_val (a : IOpnd) : (embed a).val = a.val := by
  cases a with
  | int r => rfl
  | bool b => cases b <;> rfl

theorem embed_wf {a : IOpnd} (h : a.WF) : (embed a).WF := by
  cases a with
  | int r => exact h
  | bool b => cases b <;> decide

theorem toI128X_embed (a : IOpnd) : toI128X a = toI128 (embed a) := by
  cases a with
  | int r => rfl
  | bool b => cases b <;> rfl

/-- in `coerce` a `Bool` is indistinguishable from the `u64` 0 / 1 -/
theorem coerceX_embed {a b : IOpnd} (ha : a.WF) (hb : b.WF) :
    coerceX a b = coerce (embed a) (embed b) := by
  have key : ∀ {a b : IOpnd}, a.WF → b.WF →
      (match toI128X a with
        | none => none
        | some x => match toI128X b with
          | none => none
          | some y => some (x, y)) = coerce (embed a) (embed b) := by
    intro a b ha hb
    rw [toI128X_embed, toI128X_embed]
    have hwa := embed_wf ha
    have hwb := embed_wf hb
    by_cases hin : InI128 (embed a).val ∧ InI128 (embed b).val
    · rw [coerce_some hwa hwb hin.1 hin.2, toI128_some hwa hin.1, toI128_some hwb hin.2]
    · rw [coerce_none hwa hwb hin]
      by_cases h1 : InI128 (embed a).val
      · have h2 : ¬ InI128 (embed b).val := fun h => hin ⟨h1, h⟩
        rw [toI128_some hwa h1, toI128_none hwb h2]
      · rw [toI128_none hwa h1]
  cases a with
  | int x =>
    cases b with
    | int y => rfl
    | bool q => exact key (a := .int x) (b := .bool q) ha hb
  | bool p =>
    cases b with
    | int y => exact key (a := .bool p) (b := .int y) ha hb
    | bool q => exact key (a := .bool p) (b := .bool q) ha hb

/-! ## tests -/

theorem tmod_two_ne_zero_iff (v : Int) : Int.tmod v 2 ≠ 0 ↔ v % 2 = 1 := by
  rw [Int.tmod_eq_emod]
  constructor
  · intro h; split at h <;> omega
  · intro h; split <;> omega

theorem tmod_two_eq_zero_iff (v : Int) : Int.tmod v 2 = 0 ↔ v % 2 = 0 := by
  rw [Int.tmod_eq_emod]
  constructor
  · intro h; split at h <;> omega
  · intro h; split <;> omega

/-- the truncated and the Euclidean remainder vanish together -/
theorem tmod_eq_zero_iff_emod (a b : Int) : Int.tmod a b = 0 ↔ a % b = 0 := by
  constructor
  · intro h; exact Int.emod_eq_zero_of_dvd (Int.dvd_of_tmod_eq_zero h)
  · intro h; exact Int.tmod_eq_zero_of_dvd (Int.dvd_of_emod_eq_zero h)

theorem wrappingRem_eq_zero_iff (a b : Int) : wrappingRem a b = 0 ↔ a % b = 0 := by
  unfold wrappingRem
  split
  · rename_i hb
    subst hb
    constructor
    · intro _; rw [Int.emod_neg, Int.emod_one]
    · intro _; rfl
  · exact tmod_eq_zero_iff_emod a b

theorem tryInt_ofRepr {r : NumRepr} (h : r.WF) :
    (ofRepr r).toI128 = if InI128 r.val then some r.val else none := by
  cases r with
  | u64 n =>
    have hn : n < 18446744073709551616 := h
    have hin : InI128 (n : Int) := by unfold InI128; omega
    show (if i128Min ≤ (n : Int) ∧ (n : Int) ≤ i128Max then some (n : Int) else none) = _
    rw [if_pos (by unfold i128Min i128Max; unfold InI128 at hin; omega)]
    exact (if_pos hin).symm
  | i64 i =>
    have hi : -9223372036854775808 ≤ i ∧ i < 9223372036854775808 := h
    have hin : InI128 i := by unfold InI128; omega
    show (if i128Min ≤ i ∧ i ≤ i128Max then some i else none) = _
    rw [if_pos (by unfold i128Min i128Max; unfold InI128 at hin; omega)]
    exact (if_pos hin).symm
  | u128 n =>
    show (if i128Min ≤ (n : Int) ∧ (n : Int) ≤ i128Max then some (n : Int) else none) =
      if InI128 (n : Int) then some (n : Int) else none
    by_cases hin : InI128 (n : Int)
    · rw [if_pos hin, if_pos (by unfold i128Min i128Max; unfold InI128 at hin; omega)]
    · rw [if_neg hin, if_neg (by unfold i128Min i128Max; unfold InI128 at hin; omega)]
  | i128 i =>
    show (if i128Min ≤ i ∧ i ≤ i128Max then some i else none) = if InI128 i then some i else none
    by_cases hin : InI128 i
    · rw [if_pos hin, if_pos (by unfold i128Min i128Max; unfold InI128 at hin; omega)]
    · rw [if_neg hin, if_neg (by unfold i128Min i128Max; unfold InI128 at hin; omega)]



theorem coerceN_mixed {a b : NumRepr} (ha : a.WF) (hb : b.WF) :
    (match (ofRepr a).toI128, (ofRepr b).toI128 with
      | some x, some y => some (Co.i x y)
      | _, _ => Option.none) =
    if InI128 a.val ∧ InI128 b.val then some (.i a.val b.val) else none := by
  rw [tryInt_ofRepr ha, tryInt_ofRepr hb]
  by_cases h1 : InI128 a.val <;> by_cases h2 : InI128 b.val <;> simp [h1, h2]

theorem coerceN_ofRepr {a b : NumRepr} (ha : a.WF) (hb : b.WF) :
    coerceN (ofRepr a) (ofRepr b) =
      if InI128 a.val ∧ InI128 b.val then some (.i a.val b.val) else none := by
  cases a with
  | u64 x =>
    cases b with
    | u64 y =>
      have h1 := wf_u64_in ha
      have h2 := wf_u64_in hb
      show some (Co.i (x : Int) (y : Int)) = _
      rw [if_pos ⟨h1, h2⟩]; rfl
    | i64 y => exact coerceN_mixed ha hb
    | u128 y => exact coerceN_mixed ha hb
    | i128 y => exact coerceN_mixed ha hb
  | i64 x =>
    cases b with
    | i64 y =>
      have h1 := wf_i64_in ha
      have h2 := wf_i64_in hb
      show some (Co.i x y) = _
      rw [if_pos ⟨h1, h2⟩]; rfl
    | u64 y => exact coerceN_mixed ha hb
    | u128 y => exact coerceN_mixed ha hb
    | i128 y => exact coerceN_mixed ha hb
  | u128 x =>
    cases b with
    | u128 y =>
      show (if (x : Int) ≤ i128Max ∧ (y : Int) ≤ i128Max then some (Co.i (x : Int) (y : Int)) else Option.none) =
        if InI128 (x : Int) ∧ InI128 (y : Int) then some (Co.i (x : Int) (y : Int)) else Option.none
      by_cases h : InI128 (x : Int) ∧ InI128 (y : Int)
      · rw [if_pos h, if_pos (by unfold InI128 at h; unfold i128Max; omega)]
      · rw [if_neg h, if_neg (by unfold InI128 at h; unfold i128Max; omega)]
    | u64 y => exact coerceN_mixed ha hb
    | i64 y => exact coerceN_mixed ha hb
    | i128 y => exact coerceN_mixed ha hb
  | i128 x =>
    cases b with
    | i128 y =>
      have h1 : InI128 x := ha
      have h2 : InI128 y := hb
      show some (Co.i x y) = _
      rw [if_pos ⟨h1, h2⟩]; rfl
    | u64 y => exact coerceN_mixed ha hb
    | i64 y => exact coerceN_mixed ha hb
    | u128 y => exact coerceN_mixed ha hb

/-! ## strings -/


theorem digit36_lt_ten {c : Char} {e : Nat} (h : digit36 c = some e) (he : e < 10) : isDigit c = true := by
  by_cases h0 : c = '0'
  · subst h0; decide
  by_cases h1 : c = '1'
  · subst h1; decide
  by_cases h2 : c = '2'
  · subst h2; decide
  by_cases h3 : c = '3'
  · subst h3; decide
  by_cases h4 : c = '4'
  · subst h4; decide
  by_cases h5 : c = '5'
  · subst h5; decide
  by_cases h6 : c = '6'
  · subst h6; decide
  by_cases h7 : c = '7'
  · subst h7; decide
  by_cases h8 : c = '8'
  · subst h8; decide
  by_cases h9 : c = '9'
  · subst h9; decide
  exfalso
  unfold digit36 at h
  rw [if_neg h0, if_neg h1, if_neg h2, if_neg h3, if_neg h4, if_neg h5, if_neg h6, if_neg h7, if_neg h8, if_neg h9] at h
  by_cases ha : c = 'a' ∨ c = 'A'
  · rw [if_pos ha] at h; injection h with h; omega
  rw [if_neg ha] at h
  by_cases hb : c = 'b' ∨ c = 'B'
  · rw [if_pos hb] at h; injection h with h; omega
  rw [if_neg hb] at h
  by_cases hc : c = 'c' ∨ c = 'C'
  · rw [if_pos hc] at h; injection h with h; omega
  rw [if_neg hc] at h
  by_cases hd : c = 'd' ∨ c = 'D'
  · rw [if_pos hd] at h; injection h with h; omega
  rw [if_neg hd] at h
  by_cases he : c = 'e' ∨ c = 'E'
  · rw [if_pos he] at h; injection h with h; omega
  rw [if_neg he] at h
  by_cases hf : c = 'f' ∨ c = 'F'
  · rw [if_pos hf] at h; injection h with h; omega
  rw [if_neg hf] at h
  cases h
theorem isDigit_of_digitVal {c : Char} {d : Nat} (h : digitVal 10 c = some d) : isDigit c = true := by
  unfold digitVal at h
  cases heq : digit36 c with
  | none => rw [heq] at h; cases h
  | some e =>
    rw [heq] at h
    by_cases hlt : e < 10
    · exact digit36_lt_ten heq hlt
    · simp only [hlt, if_false] at h; cases h

theorem parseDigits_all_digits {ds : List Char} {acc n : Nat} (h : parseDigits 10 acc ds = some n) :
    ∀ c ∈ ds, isDigit c = true := by
  induction ds generalizing acc with
  | nil => intro c hc; cases hc
  | cons d ds ih =>
    intro c hc
    simp only [parseDigits] at h
    cases hd : digitVal 10 d with
    | none => rw [hd] at h; cases h
    | some v =>
      rw [hd] at h
      rcases List.mem_cons.1 hc with rfl | hc
      · exact isDigit_of_digitVal hd
      · exact ih h c hc

theorem isDigit_not_sign {c : Char} (h : isDigit c = true) : c ≠ '-' ∧ c ≠ '+' := by
  rcases isDigit_cases h with h | h | h | h | h | h | h | h | h | h <;> subst h <;> decide

/-- spelling of an integer: optional sign, `k` leading zeros, the decimal digits -/
def intText (plus : Bool) (k : Nat) (v : Int) : List Char :=
  (if v < 0 then ['-'] else if plus then ['+'] else []) ++
    (List.replicate k '0' ++ Nat.toDigits 10 v.natAbs)

theorem body_parse (k n : Nat) :
    parseDigits 10 0 (List.replicate k '0' ++ Nat.toDigits 10 n) = some n := by
  rw [parseDigits_zeros (by omega), parseDigits_toDigits (by omega) (by omega)]

theorem body_ne_nil (k n : Nat) : List.replicate k '0' ++ Nat.toDigits 10 n ≠ [] := by
  intro h
  exact toDigits_ne_nil 10 n (List.append_eq_nil_iff.1 h).2

/-- `parseI128` on digits that do not start with a sign -/
theorem parseI128_unsigned {ds : List Char} {n : Nat} (hne : ds ≠ []) (hp : parseDigits 10 0 ds = some n) :
    parseI128 ds = if (n : Int) < 170141183460469231731687303715884105728 then some (n : Int) else none := by
  cases ds with
  | nil => exact absurd rfl hne
  | cons c rest =>
    have hc := isDigit_not_sign (parseDigits_all_digits hp c (List.mem_cons_self ..))
    simp only [parseI128, hc.1, hc.2, or_self, if_false, decide_false, hp, Bool.false_eq_true]
    simp

theorem parseI128_minus {ds : List Char} {n : Nat} (hne : ds ≠ []) (hp : parseDigits 10 0 ds = some n) :
    parseI128 ('-' :: ds) =
      if (n : Int) ≤ 170141183460469231731687303715884105728 then some (-(n : Int)) else none := by
  simp [parseI128, hne, hp]

theorem parseI128_plus {ds : List Char} {n : Nat} (hne : ds ≠ []) (hp : parseDigits 10 0 ds = some n) :
    parseI128 ('+' :: ds) =
      if (n : Int) < 170141183460469231731687303715884105728 then some (n : Int) else none := by
  simp [parseI128, hne, hp]

theorem parseI128_intText (plus : Bool) (k : Nat) (v : Int) :
    parseI128 (intText plus k v) = if InI128 v then some v else none := by
  have hp := body_parse k v.natAbs
  have hne := body_ne_nil k v.natAbs
  unfold intText
  by_cases hv : v < 0
  · rw [if_pos hv]
    show parseI128 ('-' :: (List.replicate k '0' ++ Nat.toDigits 10 v.natAbs)) = _
    rw [parseI128_minus hne hp]
    by_cases hin : InI128 v
    · rw [if_pos hin, if_pos (by unfold InI128 at hin; omega)]
      congr 1; omega
    · rw [if_neg hin, if_neg (by unfold InI128 at hin; omega)]
  · rw [if_neg hv]
    have hcore : (if (v.natAbs : Int) < 170141183460469231731687303715884105728 then some (v.natAbs : Int) else none) =
        if InI128 v then some v else none := by
      by_cases hin : InI128 v
      · rw [if_pos hin, if_pos (by unfold InI128 at hin; omega)]
        congr 1; omega
      · rw [if_neg hin, if_neg (by unfold InI128 at hin; omega)]
    cases plus with
    | true =>
      show parseI128 ('+' :: (List.replicate k '0' ++ Nat.toDigits 10 v.natAbs)) = _
      rw [parseI128_plus hne hp, hcore]
    | false =>
      show parseI128 (List.replicate k '0' ++ Nat.toDigits 10 v.natAbs) = _
      rw [parseI128_unsigned hne hp, hcore]

theorem isIntText_intText (plus : Bool) (k : Nat) (v : Int) : isIntText (intText plus k v) = true := by
  have hp := body_parse k v.natAbs
  have hall := parseDigits_all_digits hp
  generalize hb : List.replicate k '0' ++ Nat.toDigits 10 v.natAbs = body at *
  have hne : body ≠ [] := hb ▸ body_ne_nil k v.natAbs
  have hallb : body.all isDigit = true := List.all_eq_true.2 hall
  unfold intText
  rw [hb]
  cases body with
  | nil => exact absurd rfl hne
  | cons c rest =>
    have hc : isDigit c = true := hall c (List.mem_cons_self ..)
    have hr : rest.all isDigit = true := List.all_eq_true.2 (fun x hx => hall x (List.mem_cons_of_mem _ hx))
    by_cases hv : v < 0
    · rw [if_pos hv]
      show isIntText ('-' :: c :: rest) = true
      simp [isIntText, hc, hr]
    · rw [if_neg hv]
      cases plus with
      | true =>
        show isIntText ('+' :: c :: rest) = true
        simp [isIntText, hc, hr]
      | false =>
        show isIntText (c :: rest) = true
        cases rest with
        | nil => simp [isIntText, hc]
        | cons d rest' => simp [isIntText, hc, hr]


/-! ## powers of 0, 1, -1 -/

theorem neg_one_pow_even (k : Nat) : (-1 : Int) ^ (2 * k) = 1 := by
  rw [Int.pow_mul]; exact Int.one_pow

theorem unit_pow (x : Int) (hx : -1 ≤ x ∧ x ≤ 1) (n : Nat) (hn : 0 < n) :
    x ^ n = if n % 2 = 0 then x * x else x := by
  have hx' : x = -1 ∨ x = 0 ∨ x = 1 := by omega
  rcases hx' with rfl | rfl | rfl
  · obtain ⟨k, hk⟩ : ∃ k, n = 2 * k ∨ n = 2 * k + 1 := ⟨n / 2, by omega⟩
    rcases hk with rfl | rfl
    · rw [neg_one_pow_even, if_pos (by omega)]; rfl
    · rw [Int.pow_succ, neg_one_pow_even, if_neg (by omega)]; rfl
  · rw [Int.zero_pow (by omega)]; split <;> rfl
  · rw [Int.one_pow]; split <;> rfl

/-- an integer of magnitude at most 1 never leaves the `i128` range when raised to a power -/
theorem unit_pow_in (x : Int) (hx : -1 ≤ x ∧ x ≤ 1) (n : Nat) : InI128 (x ^ n) := by
  by_cases hn : n = 0
  · subst hn; simp [InI128]
  · rw [unit_pow x hx n (by omega)]
    unfold InI128
    have hx' : x = -1 ∨ x = 0 ∨ x = 1 := by omega
    rcases hx' with rfl | rfl | rfl <;> split <;> decide

end MJ.NumX
