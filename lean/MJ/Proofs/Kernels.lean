import MJ.Model.Kernels
import MJ.Proofs.SliceLemmas
/-! Helper lemmas for the C01 kernels (`MJ/Model/Kernels.lean`). -/
namespace MJ.Kernels
open MJ Chk

theorem i128_ok (x : Int) (h0 : -(170141183460469231731687303715884105728 : Int) ≤ x)
    (h1 : x < 170141183460469231731687303715884105728) : i128 x = .ok x := by
  unfold i128; rw [if_pos ⟨h0, h1⟩]

theorem u16N_ok (x : Nat) (h1 : x < 65536) : u16N x = .ok x := by
  unfold u16N; rw [if_pos h1]

theorem usizeN_ok (x : Nat) (h1 : x < 18446744073709551616) : usizeN x = .ok x := by
  unfold usizeN; rw [if_pos h1]

theorem usize_ok' (x : Int) (h0 : 0 ≤ x) (h1 : x < 18446744073709551616) : usize x = .ok x.toNat := by
  unfold usize; rw [if_pos ⟨h0, h1⟩]

theorem checkedMul_some {a b r : Nat} (h : checkedMul a b = some r) : r = a * b ∧ a * b < 18446744073709551616 := by
  unfold checkedMul at h
  split at h
  · exact ⟨by simpa using h.symm, by assumption⟩
  · simp at h

/-- the length for a negative step: no `i128` operation overflows and the quotient is what the
    formula says -/
theorem negStepLen_ok (lo hi s : Int) (hlo : InI64 lo) (hhi : InI64 hi) (hs : InI64 s) (hneg : s < 0) :
    negStepLen lo hi s = .ok (if lo ≤ hi then 0 else ((lo - hi - s - 1) / (-s)).toNat) := by
  simp only [InI64] at hlo hhi hs
  unfold negStepLen
  by_cases h : lo ≤ hi
  · simp [h]
  · simp only [h, if_false]
    rw [i128_ok (lo - hi) (by omega) (by omega)]
    simp only [ok_bind]
    rw [i128_ok (lo - hi - s) (by omega) (by omega)]
    simp only [ok_bind]
    rw [i128_ok (lo - hi - s - 1) (by omega) (by omega)]
    simp only [ok_bind]
    rw [i128_ok (-s) (by omega) (by omega)]
    simp only [ok_bind]
    have hd : ¬ (-s = 0) := by omega
    simp only [hd, if_false, pure_eq]
    congr 1
    have hq0 : 0 ≤ (lo - hi - s - 1) / (-s) := Int.ediv_nonneg (by omega) (by omega)
    have hq1 : (lo - hi - s - 1) / (-s) ≤ lo - hi - s - 1 := Int.ediv_le_self _ (by omega)
    -- the quotient is below 2^64: the dividend is < 2^64 + |s| and |s| ≥ 1
    have hq2 : (lo - hi - s - 1) / (-s) < 18446744073709551616 := by
      apply Int.ediv_lt_of_lt_mul (by omega)
      have : (18446744073709551616 : Int) * (-s) = 18446744073709551616 * (-s - 1) + 18446744073709551616 := by
        rw [Int.mul_sub]; omega
      have h2 : 0 ≤ (18446744073709551616 : Int) * (-s - 1) := Int.mul_nonneg (by omega) (by omega)
      have h3 : (-s - 1) ≤ (18446744073709551616 : Int) * (-s - 1) := by
        have := Int.mul_le_mul_of_nonneg_right (show (1 : Int) ≤ 18446744073709551616 by omega) (show (0 : Int) ≤ -s - 1 by omega)
        simpa using this
      omega
    unfold Chk.asUsize
    rw [Int.emod_eq_of_lt hq0 hq2]

theorem toResult_len_le (len : Nat) (first stride : Int) (r : RangeOut)
    (h : (toResult len first stride).res = .ok r) :
    r.len = len ∧ r.first = first ∧ r.stride = stride ∧ len ≤ Gen.rangeLimit ∧
    (toResult len first stride).allocs = [len] := by
  unfold toResult at h ⊢
  split at h
  · simp [err] at h
  · simp at h
    subst h
    refine ⟨rfl, rfl, rfl, by omega, ?_⟩
    rename_i hle
    simp [hle]

theorem toResult_allocs (len : Nat) (first stride : Int) :
    ∀ a ∈ (toResult len first stride).allocs, a ≤ Gen.rangeLimit := by
  unfold toResult
  split
  · simp [err]
  · intro a ha
    simp at ha
    omega

theorem splitNlLens_ne_nil (s : List Char) : splitNlLens s ≠ [] := by
  induction s with
  | nil => simp [splitNlLens]
  | cons c rest ih =>
    unfold splitNlLens
    split
    · simp
    · split <;> simp

theorem splitNlLens_length_pos (s : List Char) : 0 < (splitNlLens s).length := by
  have := splitNlLens_ne_nil s
  cases h : splitNlLens s with
  | nil => exact absurd h this
  | cons _ _ => simp

/-- every round of the `slice` filter's loop indexes `items[start..end]` within bounds -/
theorem sliceColumn_ok (len count : Nat) (hc : 0 < count) (fill : Bool) (s : Nat) (hs : s < count)
    (hl : len < 9223372036854775808) :
    ∃ n, sliceColumn len (len / count) (len % count) fill s = .ok n := by
  unfold sliceColumn
  have hdm : count * (len / count) + len % count = len := Nat.div_add_mod len count
  have h1 : s * (len / count) ≤ count * (len / count) := Nat.mul_le_mul_right _ (by omega)
  have h2 : (s + 1) * (len / count) ≤ count * (len / count) := Nat.mul_le_mul_right _ (by omega)
  have h3 : (s + 1) * (len / count) = s * (len / count) + len / count := by rw [Nat.succ_mul]
  generalize s * (len / count) = p at *
  generalize (s + 1) * (len / count) = q at *
  generalize count * (len / count) = cq at *
  generalize len / count = ips at *
  generalize len % count = extra at *
  have b1 : min s extra + p ≤ min (s + 1) extra + q := by omega
  have b2 : min (s + 1) extra + q ≤ len := by omega
  simp only []
  rw [if_pos ⟨by omega, by omega⟩, if_pos ⟨b1, b2⟩]
  exact ⟨_, rfl⟩

theorem mapM_exists_ok {β γ : Type} (f : β → Chk γ) (l : List β) (h : ∀ b ∈ l, ∃ c, f b = .ok c) :
    ∃ cs, l.mapM f = .ok cs := by
  induction l with
  | nil => exact ⟨[], rfl⟩
  | cons b l ih =>
    obtain ⟨c, hc⟩ := h b (by simp)
    obtain ⟨cs, hcs⟩ := ih (fun b hb => h b (by simp [hb]))
    exact ⟨c :: cs, by rw [List.mapM_cons, hc, hcs]; rfl⟩

theorem advanceChar_ok (p : Pos) (c : Char) (h : p.line ≤ 65535 ∧ p.col ≤ 65535) :
    ∃ q, advanceChar p c = .ok q ∧ q.line ≤ 65535 ∧ q.col ≤ 65535 := by
  unfold advanceChar
  split
  · rw [u16N_ok _ (by omega)]
    exact ⟨⟨min (p.line + 1) 65535, 0⟩, rfl, by simp; omega, by simp⟩
  · rw [u16N_ok _ (by omega)]
    exact ⟨⟨p.line, min (p.col + 1) 65535⟩, rfl, h.1, by simp; omega⟩

theorem advance_ok (text : List Char) : ∀ (p : Pos), p.line ≤ 65535 ∧ p.col ≤ 65535 →
    ∃ q, advance p text = .ok q ∧ q.line ≤ 65535 ∧ q.col ≤ 65535 := by
  induction text with
  | nil => intro p h; exact ⟨p, rfl, h⟩
  | cons c cs ih =>
    intro p h
    obtain ⟨q, hq, hq2⟩ := advanceChar_ok p c h
    obtain ⟨r, hr, hr2⟩ := ih q hq2
    exact ⟨r, by unfold advance; rw [hq]; exact hr, hr2⟩

theorem widen_self_ok (c : Nat) (h : c ≤ 65535) : widen c c = .ok (min (c + 1) 65535) := by
  unfold widen
  rw [if_pos rfl, u16N_ok _ (by omega)]

theorem caretCount_ok (a b : Nat) (hb : b ≤ 65535) : caretCount a b = .ok (b - a) := by
  unfold caretCount
  rw [usizeN_ok _ (by omega)]

theorem lexErrK_of (text : List Char) (q : Pos) (e c : Nat) (h1 : advance ⟨1, 0⟩ text = .ok q)
    (h2 : widen q.col q.col = .ok e) (h3 : caretCount q.col e = .ok c) :
    lexErrK text = .ok { allocs := [q.col, c], res := .ok (q.line, q.col, c) } := by
  unfold lexErrK
  rw [h1]
  simp only
  rw [h2]
  simp only
  rw [h3]

/-- closed form of the lexer-error kernel -/
theorem lexErrK_eq (text : List Char) : ∃ q : Pos, ∃ c : Nat, q.line ≤ 65535 ∧ q.col ≤ 65535 ∧ c ≤ 65535 ∧
    lexErrK text = .ok { allocs := [q.col, c], res := .ok (q.line, q.col, c) } := by
  obtain ⟨q, hq, hq1, hq2⟩ := advance_ok text ⟨1, 0⟩ (by simp)
  have hm : min (q.col + 1) 65535 ≤ 65535 := Nat.min_le_right _ _
  exact ⟨q, _, hq1, hq2, Nat.le_trans (Nat.sub_le _ _) hm,
    lexErrK_of text q _ _ hq (widen_self_ok q.col hq2) (caretCount_ok q.col _ hm)⟩

end MJ.Kernels
