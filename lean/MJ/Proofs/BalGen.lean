import MJ.Model.BalGen
import MJ.Proofs.Bal
/-!
# The model generator emits accepted certificates (helper lemmas for C05)

`Typed P fin b F`: every instruction of the fragment `F`, sitting at offset `b` of the whole stream
`P` (with end state `fin`), passes the checker's per-pc test against the certificate `certOf P fin`.
The main lemma `comp_typed` shows this for the code of every statement by induction on the
statement; `checkCert` of the whole stream follows.
-/
namespace MJ.BalGen
open MJ.Bal

def stateAt (P : ACode) (fin : AbsState) (pc : Nat) : Option AbsState := look (certOf P fin) pc

theorem code_get (P : ACode) (pc : Nat) : (codeOf P)[pc]? = (P[pc]?).map (·.1) := by
  simp [codeOf]

theorem stateAt_of_get {P : ACode} {fin : AbsState} {pc : Nat} {i : Instr} {A : AbsState}
    (h : P[pc]? = some (i, A)) : stateAt P fin pc = some A := by
  have hlt : pc < P.length := by
    rcases Nat.lt_or_ge pc P.length with h' | h'
    · exact h'
    · rw [List.getElem?_eq_none_iff.mpr h'] at h; cases h
  have hget : P[pc] = (i, A) := by
    rw [List.getElem?_eq_getElem hlt] at h
    exact Option.some.inj h
  simp [stateAt, look, certOf, List.getElem?_append_left, hlt, hget]

theorem stateAt_end (P : ACode) (fin : AbsState) : stateAt P fin P.length = some fin := by
  simp [stateAt, look, certOf]

theorem code_of_get {P : ACode} {pc : Nat} {i : Instr} {A : AbsState}
    (h : P[pc]? = some (i, A)) : (codeOf P)[pc]? = some i := by
  simp [code_get, h]

/-- the fragment `F` sits at offset `b` of `P` -/
def Embeds (P : ACode) (b : Nat) (F : ACode) : Prop := ∀ k x, F[k]? = some x → P[b + k]? = some x

theorem embeds_nil (P : ACode) (b : Nat) : Embeds P b [] := by
  intro k x h; simp at h

theorem embeds_append {P : ACode} {b : Nat} {F G : ACode} (h : Embeds P b (F ++ G)) :
    Embeds P b F ∧ Embeds P (b + F.length) G := by
  constructor
  · intro k x hk
    apply h
    have hlt : k < F.length := by
      rcases Nat.lt_or_ge k F.length with h' | h'
      · exact h'
      · rw [List.getElem?_eq_none_iff.mpr h'] at hk; cases hk
    rw [List.getElem?_append_left hlt]; exact hk
  · intro k x hk
    have := h (F.length + k) x (by rw [List.getElem?_append_right (by omega)]; simpa using hk)
    rw [← Nat.add_assoc] at this; exact this

theorem embeds_cons {P : ACode} {b : Nat} {x : Instr × AbsState} {F : ACode} (h : Embeds P b (x :: F)) :
    P[b]? = some x ∧ Embeds P (b + 1) F := by
  constructor
  · simpa using h 0 x (by simp)
  · intro k y hk
    have := h (k + 1) y (by simpa using hk)
    rw [Nat.add_comm k 1, ← Nat.add_assoc] at this; exact this

theorem embeds_self (P : ACode) : Embeds P 0 P := by
  intro k x h; simpa using h

def WS (P : ACode) (fin : AbsState) (A : AbsState) : Prop :=
  wsFrames (codeOf P) (certOf P fin) A.frames A.caps A.escs = true

/-- the checker's per-pc test for one annotated instruction -/
def InstrOk (P : ACode) (fin : AbsState) (pc : Nat) (i : Instr) (A : AbsState) : Prop :=
  WS P fin A ∧
  (∃ es, edges (certOf P fin) pc i A = some es ∧ ∀ x ∈ es, stateAt P fin x.1 = some x.2) ∧
  (∀ o, i = .buildMacro o → stateAt P fin o = some AbsState.init)

def Typed (P : ACode) (fin : AbsState) (b : Nat) (F : ACode) : Prop :=
  ∀ k i A, F[k]? = some (i, A) → InstrOk P fin (b + k) i A

theorem typed_nil (P : ACode) (fin : AbsState) (b : Nat) : Typed P fin b [] := by
  intro k i A h; simp at h

theorem typed_append {P : ACode} {fin : AbsState} {b : Nat} {F G : ACode}
    (hF : Typed P fin b F) (hG : Typed P fin (b + F.length) G) : Typed P fin b (F ++ G) := by
  intro k i A h
  rcases Nat.lt_or_ge k F.length with hk | hk
  · rw [List.getElem?_append_left hk] at h; exact hF k i A h
  · rw [List.getElem?_append_right hk] at h
    have := hG (k - F.length) i A h
    have e : b + F.length + (k - F.length) = b + k := by omega
    rw [e] at this; exact this

theorem typed_cons {P : ACode} {fin : AbsState} {b : Nat} {i : Instr} {A : AbsState} {F : ACode}
    (hx : InstrOk P fin b i A) (hF : Typed P fin (b + 1) F) : Typed P fin b ((i, A) :: F) := by
  intro k j B h
  cases k with
  | zero => simp at h; obtain ⟨rfl, rfl⟩ := h; simpa using hx
  | succ k =>
    simp at h
    have := hF k j B h
    have e : b + 1 + k = b + (k + 1) := by omega
    rw [e] at this; exact this

/-! ### `wsFrames` only improves when more is pushed -/

theorem ws_mono {code : Code} {cert : Cert} {G : List FrameKind} {c e c' e' : Nat}
    (h : wsFrames code cert G c e = true) (hc : c ≤ c') (he : e ≤ e') :
    wsFrames code cert G c' e' = true := by
  induction G with
  | nil => simp [wsFrames]
  | cons g G ih =>
    cases g with
    | withF => simp only [wsFrames] at h ⊢; exact ih h
    | loopF t v r =>
      cases r with
      | false => simp only [wsFrames] at h ⊢; exact ih h
      | true =>
        simp only [wsFrames, Bool.and_eq_true] at h ⊢
        refine ⟨⟨?_, h.1.2⟩, ih h.2⟩
        cases hl : look cert t with
        | none => rw [hl] at h; simp at h
        | some B =>
          rw [hl] at h
          simp only [Bool.and_eq_true, decide_eq_true_eq] at h ⊢
          exact ⟨⟨h.1.1.1.1, by omega⟩, by omega⟩

theorem WS_pushW {P fin A} (h : WS P fin A) : WS P fin (pushW A) := by
  simpa [WS, pushW, wsFrames] using h

theorem WS_pushC {P fin A} (h : WS P fin A) : WS P fin (pushC A) := by
  unfold WS pushC; exact ws_mono h (by simp) (Nat.le_refl _)

theorem WS_pushE {P fin A} (h : WS P fin A) : WS P fin (pushE A) := by
  unfold WS pushE; exact ws_mono h (Nat.le_refl _) (by simp)

theorem WS_init (P fin) : WS P fin AbsState.init := by
  simp [WS, AbsState.init, wsFrames]

theorem WS_pushL {P fin A} {t : Nat} {v r : Bool} (h : WS P fin A)
    (hs : stateAt P fin t = some A) (hc : (codeOf P)[t]? = some (.pushLoop v r)) :
    WS P fin (pushL t v r A) := by
  cases r with
  | false => simpa [WS, pushL, wsFrames] using h
  | true =>
    simp only [WS, pushL, wsFrames, Bool.and_eq_true, decide_eq_true_eq]
    refine ⟨⟨?_, hc⟩, h⟩
    simp only [stateAt] at hs
    rw [hs]
    simp

/-! ### one instruction at a time -/

section instr
variable {P : ACode} {fin : AbsState} {pc : Nat} {A : AbsState}

theorem ok_other (hw : WS P fin A) (hn : stateAt P fin (pc + 1) = some A) :
    InstrOk P fin pc .other A :=
  ⟨hw, ⟨[(pc + 1, A)], rfl, by intro x hx; simp at hx; subst hx; exact hn⟩, by intro o h; cases h⟩

theorem ok_callFunction (hw : WS P fin A) (hn : stateAt P fin (pc + 1) = some A) :
    InstrOk P fin pc .callFunction A :=
  ⟨hw, ⟨[(pc + 1, A)], rfl, by intro x hx; simp at hx; subst hx; exact hn⟩, by intro o h; cases h⟩

theorem ok_fastRecurse (hw : WS P fin A) (hn : stateAt P fin (pc + 1) = some A) :
    InstrOk P fin pc .fastRecurse A := by
  refine ⟨hw, ?_, by intro o h; cases h⟩
  simp only [edges]
  split
  · exact ⟨_, rfl, by intro x hx; simp at hx; subst hx; exact hn⟩
  · exact ⟨_, rfl, by intro x hx; simp at hx⟩

theorem ok_simple {i : Instr} (hi : simpleInstr i = true) (hw : WS P fin A)
    (hn : stateAt P fin (pc + 1) = some A) : InstrOk P fin pc i A := by
  cases i <;> simp [simpleInstr] at hi
  · exact ok_other hw hn
  · exact ok_fastRecurse hw hn
  · exact ok_callFunction hw hn

theorem ok_buildMacro {o : Nat} (hw : WS P fin A) (hn : stateAt P fin (pc + 1) = some A)
    (ho : stateAt P fin o = some AbsState.init) : InstrOk P fin pc (.buildMacro o) A :=
  ⟨hw, ⟨[(pc + 1, A)], rfl, by intro x hx; simp at hx; subst hx; exact hn⟩,
   by intro o' h; cases h; exact ho⟩

theorem ok_pushWith (hw : WS P fin A) (hn : stateAt P fin (pc + 1) = some (pushW A)) :
    InstrOk P fin pc .pushWith A :=
  ⟨hw, ⟨[(pc + 1, pushW A)], rfl, by intro x hx; simp at hx; subst hx; exact hn⟩, by intro o h; cases h⟩

theorem ok_popFrame (hw : WS P fin (pushW A)) (hn : stateAt P fin (pc + 1) = some A) :
    InstrOk P fin pc .popFrame (pushW A) :=
  ⟨hw, ⟨[(pc + 1, A)], rfl, by intro x hx; simp at hx; subst hx; exact hn⟩, by intro o h; cases h⟩

theorem ok_pushLoop {v r : Bool} (hw : WS P fin A) (hn : stateAt P fin (pc + 1) = some (pushL pc v r A)) :
    InstrOk P fin pc (.pushLoop v r) A :=
  ⟨hw, ⟨[(pc + 1, pushL pc v r A)], rfl, by intro x hx; simp at hx; subst hx; exact hn⟩,
   by intro o h; cases h⟩

theorem ok_iterate {t tgt : Nat} {v r : Bool} (hw : WS P fin (pushL t v r A))
    (hn : stateAt P fin (pc + 1) = some (pushL t v r A)) (ht : stateAt P fin tgt = some (pushL t v r A)) :
    InstrOk P fin pc (.iterate tgt) (pushL t v r A) :=
  ⟨hw, ⟨[(pc + 1, pushL t v r A), (tgt, pushL t v r A)], rfl, by
      intro x hx; simp at hx; rcases hx with rfl | rfl
      · exact hn
      · exact ht⟩, by intro o h; cases h⟩

theorem ok_pushDidNotIterate {t : Nat} {v r : Bool} (hw : WS P fin (pushL t v r A))
    (hn : stateAt P fin (pc + 1) = some (pushL t v r A)) :
    InstrOk P fin pc .pushDidNotIterate (pushL t v r A) :=
  ⟨hw, ⟨[(pc + 1, pushL t v r A)], rfl, by intro x hx; simp at hx; subst hx; exact hn⟩,
   by intro o h; cases h⟩

theorem ok_popLoopFrame {t : Nat} {v r : Bool} (hw : WS P fin (pushL t v r A))
    (hn : stateAt P fin (pc + 1) = some A) (ht : stateAt P fin t = some A) :
    InstrOk P fin pc .popLoopFrame (pushL t v r A) := by
  refine ⟨hw, ?_, by intro o h; cases h⟩
  have hl : look (certOf P fin) t = some { frames := A.frames, caps := A.caps, escs := A.escs } := ht
  simp only [edges, pushL, hl, ne_eq, not_true_eq_false, and_false, if_false]
  exact ⟨_, rfl, by intro x hx; simp at hx; subst hx; exact hn⟩

theorem ok_beginCapture (hw : WS P fin A) (hn : stateAt P fin (pc + 1) = some (pushC A)) :
    InstrOk P fin pc .beginCapture A :=
  ⟨hw, ⟨[(pc + 1, pushC A)], rfl, by intro x hx; simp at hx; subst hx; exact hn⟩, by intro o h; cases h⟩

theorem ok_endCapture (hw : WS P fin (pushC A)) (hn : stateAt P fin (pc + 1) = some A) :
    InstrOk P fin pc .endCapture (pushC A) := by
  refine ⟨hw, ?_, by intro o h; cases h⟩
  simp only [edges, pushC, Nat.add_eq_zero_iff, Nat.succ_ne_self, and_false, if_false, Nat.add_sub_cancel]
  exact ⟨_, rfl, by intro x hx; simp at hx; subst hx; exact hn⟩

theorem ok_pushAutoEscape (hw : WS P fin A) (hn : stateAt P fin (pc + 1) = some (pushE A)) :
    InstrOk P fin pc .pushAutoEscape A :=
  ⟨hw, ⟨[(pc + 1, pushE A)], rfl, by intro x hx; simp at hx; subst hx; exact hn⟩, by intro o h; cases h⟩

theorem ok_popAutoEscape (hw : WS P fin (pushE A)) (hn : stateAt P fin (pc + 1) = some A) :
    InstrOk P fin pc .popAutoEscape (pushE A) := by
  refine ⟨hw, ?_, by intro o h; cases h⟩
  simp only [edges, pushE, Nat.add_eq_zero_iff, Nat.succ_ne_self, and_false, if_false, Nat.add_sub_cancel]
  exact ⟨_, rfl, by intro x hx; simp at hx; subst hx; exact hn⟩

theorem ok_jump {t : Nat} (hw : WS P fin A) (ht : stateAt P fin t = some A) :
    InstrOk P fin pc (.jump t) A :=
  ⟨hw, ⟨[(t, A)], rfl, by intro x hx; simp at hx; subst hx; exact ht⟩, by intro o h; cases h⟩

theorem ok_jumpIfFalse {t : Nat} (hw : WS P fin A) (hn : stateAt P fin (pc + 1) = some A)
    (ht : stateAt P fin t = some A) : InstrOk P fin pc (.jumpIfFalse t) A :=
  ⟨hw, ⟨[(pc + 1, A), (t, A)], rfl, by
      intro x hx; simp at hx; rcases hx with rfl | rfl
      · exact hn
      · exact ht⟩, by intro o h; cases h⟩

theorem ok_jumpIfFalseOrPop {t : Nat} (hw : WS P fin A) (hn : stateAt P fin (pc + 1) = some A)
    (ht : stateAt P fin t = some A) : InstrOk P fin pc (.jumpIfFalseOrPop t) A :=
  ⟨hw, ⟨[(pc + 1, A), (t, A)], rfl, by
      intro x hx; simp at hx; rcases hx with rfl | rfl
      · exact hn
      · exact ht⟩, by intro o h; cases h⟩

theorem ok_jumpIfTrueOrPop {t : Nat} (hw : WS P fin A) (hn : stateAt P fin (pc + 1) = some A)
    (ht : stateAt P fin t = some A) : InstrOk P fin pc (.jumpIfTrueOrPop t) A :=
  ⟨hw, ⟨[(pc + 1, A), (t, A)], rfl, by
      intro x hx; simp at hx; rcases hx with rfl | rfl
      · exact hn
      · exact ht⟩, by intro o h; cases h⟩

theorem ok_ret (P : ACode) (fin : AbsState) (pc : Nat) : InstrOk P fin pc .ret AbsState.init :=
  ⟨WS_init P fin, ⟨[], by simp [edges], by intro x hx; simp at hx⟩, by intro o h; cases h⟩

end instr

/-! ### sizes -/

theorem others_length (n : Nat) (σ : AbsState) : (others n σ).length = n := by simp [others]

theorem cleanup_length (sc : List Scope) (σ : AbsState) : (cleanup sc σ).1.length = cleanupLen sc := by
  induction sc generalizing σ with
  | nil => rfl
  | cons s rest ih =>
    cases s <;> simp [cleanup, cleanupLen, ih] <;> omega

theorem comp_length (s : Stmt) : ∀ (Γ : Ctx) (b : Nat) (σ : AbsState),
    (comp Γ b σ s).length = size Γ.scopes Γ.loop.isSome s := by
  induction s with
  | skip => intros; rfl
  | seq a c iha ihc => intro Γ b σ; simp [comp, size, iha, ihc]
  | simple is => intro Γ b σ; simp [comp, size]
  | flat is => intro Γ b σ; simp [comp, size]
  | ifS n t iht => intro Γ b σ; simp [comp, size, others_length, iht]; omega
  | ifElse n t e iht ihe => intro Γ b σ; simp [comp, size, others_length, iht, ihe]; omega
  | forS v r npre nt body ihb => intro Γ b σ; simp [comp, size, others_length, ihb]; omega
  | forElse v r npre nt body e ihb ihe => intro Γ b σ; simp [comp, size, others_length, ihb, ihe]; omega
  | withS n body ihb => intro Γ b σ; simp [comp, size, others_length, ihb]; omega
  | capture body npost ihb => intro Γ b σ; simp [comp, size, others_length, ihb]; omega
  | autoEscape npre body ihb => intro Γ b σ; simp [comp, size, others_length, ihb]; omega
  | macroS nargs body nenc nafter ihb => intro Γ b σ; simp [comp, size, others_length, ihb]; omega
  | importS n m => intro Γ b σ; simp [comp, size, others_length]; omega
  | breakS => intro Γ b σ; simp [comp, size, cleanup_length]
  | continueS =>
    intro Γ b σ
    cases hl : Γ.loop with
    | none => simp [comp, size, cleanup_length, hl]
    | some p => obtain ⟨it, en⟩ := p; simp [comp, size, cleanup_length, hl]

/-! ### straight-line pieces -/

theorem typed_map_simple {P : ACode} {fin : AbsState} {b : Nat} {A : AbsState} (l : List Instr)
    (hl : l.all simpleInstr = true) (hE : Embeds P b (l.map (fun i => (i, A))))
    (hn : stateAt P fin (b + l.length) = some A) (hw : WS P fin A) :
    Typed P fin b (l.map (fun i => (i, A))) := by
  intro k i A' h
  have hk : k < l.length := by
    rcases Nat.lt_or_ge k l.length with h' | h'
    · exact h'
    · rw [List.getElem?_eq_none_iff.mpr (by simpa using h')] at h; cases h
  rw [List.getElem?_map, List.getElem?_eq_getElem hk] at h
  simp only [Option.map_some, Option.some.injEq, Prod.mk.injEq] at h
  obtain ⟨rfl, rfl⟩ := h
  have hs : simpleInstr l[k] = true := by
    rw [List.all_eq_true] at hl
    exact hl _ (List.getElem_mem hk)
  refine ok_simple hs hw ?_
  rcases Nat.lt_or_ge (k + 1) l.length with h1 | h1
  · have := hE (k + 1) (l[k + 1], _) (by rw [List.getElem?_map, List.getElem?_eq_getElem h1]; rfl)
    rw [← Nat.add_assoc] at this
    exact stateAt_of_get this
  · have e : b + k + 1 = b + l.length := by omega
    rw [e]; exact hn

theorem others_eq (n : Nat) (A : AbsState) :
    others n A = (List.replicate n Instr.other).map (fun i => (i, A)) := by
  simp [others]

theorem typed_others {P : ACode} {fin : AbsState} {b n : Nat} {A : AbsState}
    (hE : Embeds P b (others n A)) (hn : stateAt P fin (b + n) = some A) (hw : WS P fin A) :
    Typed P fin b (others n A) := by
  rw [others_eq] at hE ⊢
  exact typed_map_simple _ (by simp [simpleInstr]) hE (by simpa using hn) hw

/-- an expression: every instruction and every jump target inside it carries the same state -/
theorem typed_flat {P : ACode} {fin : AbsState} {b : Nat} {A : AbsState} (l : List Instr)
    (hl : l.all (flatInstr l.length) = true) (hE : Embeds P b (l.map (fun i => (shift b i, A))))
    (hn : stateAt P fin (b + l.length) = some A) (hw : WS P fin A) :
    Typed P fin b (l.map (fun i => (shift b i, A))) := by
  have hst : ∀ j, j ≤ l.length → stateAt P fin (b + j) = some A := by
    intro j hj
    rcases Nat.lt_or_ge j l.length with h1 | h1
    · have := hE j (shift b l[j], A) (by rw [List.getElem?_map, List.getElem?_eq_getElem h1]; rfl)
      exact stateAt_of_get this
    · have e : j = l.length := by omega
      rw [e]; exact hn
  intro k i A' h
  have hk : k < l.length := by
    rcases Nat.lt_or_ge k l.length with h' | h'
    · exact h'
    · rw [List.getElem?_eq_none_iff.mpr (by simpa using h')] at h; cases h
  rw [List.getElem?_map, List.getElem?_eq_getElem hk] at h
  simp only [Option.map_some, Option.some.injEq, Prod.mk.injEq] at h
  obtain ⟨rfl, rfl⟩ := h
  have hs : flatInstr l.length l[k] = true := by
    rw [List.all_eq_true] at hl
    exact hl _ (List.getElem_mem hk)
  have hnext : stateAt P fin (b + k + 1) = some A := by
    have := hst (k + 1) (by omega)
    rw [← Nat.add_assoc] at this; exact this
  cases hi : l[k] <;> rw [hi] at hs <;> simp [flatInstr] at hs <;> simp only [shift]
  · exact ok_other hw hnext
  · exact ok_jump hw (hst _ hs)
  · exact ok_jumpIfFalse hw hnext (hst _ hs)
  · exact ok_jumpIfFalseOrPop hw hnext (hst _ hs)
  · exact ok_jumpIfTrueOrPop hw hnext (hst _ hs)
  · exact ok_fastRecurse hw hnext
  · exact ok_callFunction hw hnext

theorem others_head {P : ACode} {fin : AbsState} {b n : Nat} {A : AbsState}
    (hE : Embeds P b (others n A)) (hn : stateAt P fin (b + n) = some A) :
    stateAt P fin b = some A := by
  cases n with
  | zero => simpa using hn
  | succ n =>
    have := hE 0 (.other, A) (by simp [others, List.replicate_succ])
    exact stateAt_of_get (by simpa using this)

/-! ### leaving scopes -/

theorem WS_applyScopes {P fin} (sc : List Scope) {A : AbsState} (h : WS P fin A) :
    WS P fin (applyScopes sc A) := by
  induction sc with
  | nil => exact h
  | cons s rest ih =>
    cases s
    · exact WS_pushW ih
    · exact WS_pushC ih
    · exact WS_pushE ih

theorem cleanup_snd (sc : List Scope) (σL : AbsState) : (cleanup sc (applyScopes sc σL)).2 = σL := by
  induction sc with
  | nil => rfl
  | cons s rest ih =>
    cases s
    · have hpop : popScope .withS (applyScopes (.withS :: rest) σL) = applyScopes rest σL := rfl
      simp only [cleanup, hpop]; exact ih
    · have hpop : popScope .capture (applyScopes (.capture :: rest) σL) = applyScopes rest σL := by
        simp [popScope, applyScopes, applyScope, pushC]
      simp only [cleanup, hpop]; exact ih
    · have hpop : popScope .autoEscape (applyScopes (.autoEscape :: rest) σL) = applyScopes rest σL := by
        simp [popScope, applyScopes, applyScope, pushE]
      simp only [cleanup, hpop]; exact ih

theorem cleanup_typed {P : ACode} {fin : AbsState} (sc : List Scope) : ∀ (b : Nat) (σL : AbsState),
    WS P fin σL → Embeds P b (cleanup sc (applyScopes sc σL)).1 →
    stateAt P fin (b + cleanupLen sc) = some σL →
    Typed P fin b (cleanup sc (applyScopes sc σL)).1 ∧ (cleanup sc (applyScopes sc σL)).2 = σL ∧
    stateAt P fin b = some (applyScopes sc σL) := by
  induction sc with
  | nil => intro b σL _ _ hn; exact ⟨typed_nil _ _ _, rfl, by simpa [cleanupLen, applyScopes] using hn⟩
  | cons s rest ih =>
    intro b σL hw hE hn
    cases s with
    | withS =>
      have hpop : popScope .withS (applyScopes (.withS :: rest) σL) = applyScopes rest σL := rfl
      simp only [cleanup, hpop] at hE ⊢
      obtain ⟨h0, hE'⟩ := embeds_cons hE
      have hn' : stateAt P fin (b + 1 + cleanupLen rest) = some σL := by
        have e : b + 1 + cleanupLen rest = b + cleanupLen (.withS :: rest) := by simp [cleanupLen]; omega
        rw [e]; exact hn
      obtain ⟨ht, h2, hhead⟩ := ih (b + 1) σL hw hE' hn'
      refine ⟨typed_cons ?_ ht, h2, stateAt_of_get h0⟩
      exact ok_popFrame (A := applyScopes rest σL) (WS_pushW (WS_applyScopes rest hw)) hhead
    | capture =>
      have hpop : popScope .capture (applyScopes (.capture :: rest) σL) = applyScopes rest σL := by
        simp [popScope, applyScopes, applyScope, pushC]
      simp only [cleanup, hpop] at hE ⊢
      obtain ⟨h0, hE1⟩ := embeds_cons hE
      obtain ⟨h1, hE'⟩ := embeds_cons hE1
      have hn' : stateAt P fin (b + 1 + 1 + cleanupLen rest) = some σL := by
        have e : b + 1 + 1 + cleanupLen rest = b + cleanupLen (.capture :: rest) := by simp [cleanupLen]; omega
        rw [e]; exact hn
      obtain ⟨ht, h2, hhead⟩ := ih (b + 1 + 1) σL hw hE' hn'
      refine ⟨typed_cons ?_ (typed_cons ?_ ht), h2, stateAt_of_get h0⟩
      · exact ok_endCapture (A := applyScopes rest σL) (WS_pushC (WS_applyScopes rest hw)) (stateAt_of_get h1)
      · exact ok_other (WS_applyScopes rest hw) hhead
    | autoEscape =>
      have hpop : popScope .autoEscape (applyScopes (.autoEscape :: rest) σL) = applyScopes rest σL := by
        simp [popScope, applyScopes, applyScope, pushE]
      simp only [cleanup, hpop] at hE ⊢
      obtain ⟨h0, hE'⟩ := embeds_cons hE
      have hn' : stateAt P fin (b + 1 + cleanupLen rest) = some σL := by
        have e : b + 1 + cleanupLen rest = b + cleanupLen (.autoEscape :: rest) := by simp [cleanupLen]; omega
        rw [e]; exact hn
      obtain ⟨ht, h2, hhead⟩ := ih (b + 1) σL hw hE' hn'
      refine ⟨typed_cons ?_ ht, h2, stateAt_of_get h0⟩
      exact ok_popAutoEscape (A := applyScopes rest σL) (WS_pushE (WS_applyScopes rest hw)) hhead

/-! ### the first instruction of a statement is annotated with the entry state -/

theorem head_others_cons {P : ACode} {fin : AbsState} {b n : Nat} {A : AbsState} {i : Instr} {G : ACode}
    (hE : Embeds P b (others n A ++ (i, A) :: G)) : stateAt P fin b = some A := by
  obtain ⟨h1, h2⟩ := embeds_append hE
  rw [others_length] at h2
  exact others_head h1 (stateAt_of_get (embeds_cons h2).1)

theorem head_cons {P : ACode} {fin : AbsState} {b : Nat} {A : AbsState} {i : Instr} {G : ACode}
    (hE : Embeds P b ((i, A) :: G)) : stateAt P fin b = some A :=
  stateAt_of_get (embeds_cons hE).1

theorem cleanup_head_state {P : ACode} {fin : AbsState} {b : Nat} (sc : List Scope) (τ : AbsState) (G : ACode)
    (hE : Embeds P b ((cleanup sc τ).1 ++ G)) (hne : sc ≠ []) : stateAt P fin b = some τ := by
  cases sc with
  | nil => exact absurd rfl hne
  | cons s rest =>
    cases s <;> exact head_cons (by simpa [cleanup] using hE)

theorem comp_head (s : Stmt) : ∀ (Γ : Ctx) (b : Nat) (σ : AbsState) (P : ACode) (fin : AbsState),
    Embeds P b (comp Γ b σ s) →
    stateAt P fin (b + size Γ.scopes Γ.loop.isSome s) = some σ →
    stateAt P fin b = some σ := by
  induction s with
  | skip => intro Γ b σ P fin _ hn; simpa [size] using hn
  | seq a c iha ihc =>
    intro Γ b σ P fin hE hn
    simp only [comp] at hE
    obtain ⟨hEa, hEc⟩ := embeds_append hE
    rw [comp_length] at hEc
    refine iha Γ b σ P fin hEa (ihc Γ _ σ P fin hEc ?_)
    simpa [size, Nat.add_assoc] using hn
  | simple is =>
    intro Γ b σ P fin hE hn
    cases is with
    | nil => simpa [size] using hn
    | cons i rest => exact head_cons (by simpa [comp] using hE)
  | flat is =>
    intro Γ b σ P fin hE hn
    cases is with
    | nil => simpa [size] using hn
    | cons i rest => exact head_cons (by simpa [comp] using hE)
  | ifS n t _ => intro Γ b σ P fin hE _; exact head_others_cons (by simpa [comp] using hE)
  | ifElse n t e _ _ =>
    intro Γ b σ P fin hE _
    simp only [comp] at hE
    exact head_others_cons (by simpa using hE)
  | forS v r npre nt body _ =>
    intro Γ b σ P fin hE _
    simp only [comp] at hE
    exact head_others_cons (by simpa using hE)
  | forElse v r npre nt body e _ _ =>
    intro Γ b σ P fin hE _
    simp only [comp] at hE
    exact head_others_cons (by simpa using hE)
  | withS n body _ => intro Γ b σ P fin hE _; exact head_cons (by simpa [comp] using hE)
  | capture body npost _ => intro Γ b σ P fin hE _; exact head_cons (by simpa [comp] using hE)
  | autoEscape npre body _ =>
    intro Γ b σ P fin hE _
    simp only [comp] at hE
    exact head_others_cons (by simpa using hE)
  | macroS nargs body nenc nafter _ => intro Γ b σ P fin hE _; exact head_cons (by simpa [comp] using hE)
  | importS n m => intro Γ b σ P fin hE _; exact head_cons (by simpa [comp] using hE)
  | breakS =>
    intro Γ b σ P fin hE _
    simp only [comp] at hE
    cases hsc : Γ.scopes with
    | nil => rw [hsc] at hE; exact head_cons (by simpa [cleanup] using hE)
    | cons s rest => exact cleanup_head_state Γ.scopes σ _ hE (by rw [hsc]; simp)
  | continueS =>
    intro Γ b σ P fin hE hn
    simp only [comp] at hE
    cases hsc : Γ.scopes with
    | nil =>
      rw [hsc] at hE hn
      cases hl : Γ.loop with
      | none => rw [hl] at hn; simpa [size, cleanupLen] using hn
      | some p => obtain ⟨it, en⟩ := p; rw [hl] at hE; exact head_cons (by simpa [cleanup] using hE)
    | cons s rest => exact cleanup_head_state Γ.scopes σ _ hE (by rw [hsc]; simp)

/-! ### the main lemma -/

/-- what `break` / `continue` rely on: the current state is the state at the loop's `Iterate` with
the open scopes applied, and the pcs they jump to are certified with that loop state -/
def LoopIface (P : ACode) (fin : AbsState) (Γ : Ctx) (σ : AbsState) : Prop :=
  ∃ it en σL, Γ.loop = some (it, en) ∧ σ = applyScopes Γ.scopes σL ∧
    stateAt P fin it = some σL ∧ stateAt P fin en = some σL ∧ WS P fin σL

theorem comp_typed (s : Stmt) : ∀ (Γ : Ctx) (b : Nat) (σ : AbsState) (inLoop : Bool) (P : ACode) (fin : AbsState),
    ok inLoop s = true →
    Embeds P b (comp Γ b σ s) →
    stateAt P fin (b + size Γ.scopes Γ.loop.isSome s) = some σ →
    WS P fin σ →
    (inLoop = true → LoopIface P fin Γ σ) →
    Typed P fin b (comp Γ b σ s) := by
  induction s with
  | skip => intros; exact typed_nil _ _ _
  | seq a c iha ihc =>
    intro Γ b σ inLoop P fin hok hE hn hw hi
    simp only [ok, Bool.and_eq_true] at hok
    simp only [comp] at hE ⊢
    obtain ⟨hEa, hEc⟩ := embeds_append hE
    rw [comp_length] at hEc
    have hn' : stateAt P fin (b + size Γ.scopes Γ.loop.isSome a + size Γ.scopes Γ.loop.isSome c) = some σ := by
      simpa [size, Nat.add_assoc] using hn
    refine typed_append (iha Γ b σ inLoop P fin hok.1 hEa (comp_head c Γ _ σ P fin hEc hn') hw hi) ?_
    rw [comp_length]
    exact ihc Γ _ σ inLoop P fin hok.2 hEc hn' hw hi
  | simple is =>
    intro Γ b σ inLoop P fin hok hE hn hw _
    simp only [ok] at hok
    simp only [comp] at hE ⊢
    exact typed_map_simple is hok hE (by simpa [size] using hn) hw
  | flat is =>
    intro Γ b σ inLoop P fin hok hE hn hw _
    simp only [ok] at hok
    simp only [comp] at hE ⊢
    exact typed_flat is hok hE (by simpa [size] using hn) hw
  | ifS n t iht =>
    intro Γ b σ inLoop P fin hok hE hn hw hi
    simp only [ok] at hok
    simp only [comp] at hE ⊢
    obtain ⟨hE1, hE2⟩ := embeds_append hE
    rw [others_length] at hE2
    obtain ⟨hjf, hE3⟩ := embeds_cons hE2
    have hn' : stateAt P fin (b + n + 1 + size Γ.scopes Γ.loop.isSome t) = some σ := by
      have e : b + n + 1 + size Γ.scopes Γ.loop.isSome t = b + size Γ.scopes Γ.loop.isSome (.ifS n t) := by
        simp [size]; omega
      rw [e]; exact hn
    refine typed_append (typed_others hE1 (stateAt_of_get hjf) hw) ?_
    rw [others_length]
    refine typed_cons (ok_jumpIfFalse hw (comp_head t Γ _ σ P fin hE3 hn') hn') ?_
    exact iht Γ _ σ inLoop P fin hok hE3 hn' hw hi
  | ifElse n t e iht ihe =>
    intro Γ b σ inLoop P fin hok hE hn hw hi
    simp only [ok, Bool.and_eq_true] at hok
    simp only [comp, List.append_assoc, List.cons_append] at hE ⊢
    obtain ⟨hE1, hE2⟩ := embeds_append hE
    rw [others_length] at hE2
    obtain ⟨hjf, hE3⟩ := embeds_cons hE2
    obtain ⟨hEt, hE4⟩ := embeds_append hE3
    rw [comp_length] at hE4
    obtain ⟨hj, hEe⟩ := embeds_cons hE4
    have hpos : b + n + 1 + size Γ.scopes Γ.loop.isSome t + 1 = b + n + 1 + size Γ.scopes Γ.loop.isSome t + 1 := rfl
    have hn' : stateAt P fin (b + n + 1 + size Γ.scopes Γ.loop.isSome t + 1 + size Γ.scopes Γ.loop.isSome e) = some σ := by
      have e' : b + n + 1 + size Γ.scopes Γ.loop.isSome t + 1 + size Γ.scopes Γ.loop.isSome e
          = b + size Γ.scopes Γ.loop.isSome (.ifElse n t e) := by simp [size]; omega
      rw [e']; exact hn
    have hElse := comp_head e Γ _ σ P fin hEe hn'
    refine typed_append (typed_others hE1 (stateAt_of_get hjf) hw) ?_
    rw [others_length]
    refine typed_cons (ok_jumpIfFalse hw (comp_head t Γ _ σ P fin hEt (stateAt_of_get hj)) hElse) ?_
    refine typed_append (iht Γ _ σ inLoop P fin hok.1 hEt (stateAt_of_get hj) hw hi) ?_
    rw [comp_length]
    refine typed_cons (ok_jump hw hn') ?_
    exact ihe Γ _ σ inLoop P fin hok.2 hEe hn' hw hi
  | forS v r npre nt body ihb =>
    intro Γ b σ inLoop P fin hok hE hn hw _
    simp only [ok] at hok
    simp only [comp, List.append_assoc, List.cons_append] at hE ⊢
    obtain ⟨hEp, hE1⟩ := embeds_append hE
    rw [others_length] at hE1
    obtain ⟨hpl, hE2⟩ := embeds_cons hE1
    obtain ⟨hit, hE3⟩ := embeds_cons hE2
    obtain ⟨hEt, hE4⟩ := embeds_append hE3
    rw [others_length] at hE4
    have eb : b + npre + 1 + 1 + nt = b + npre + 2 + nt := by omega
    rw [eb] at hE4
    obtain ⟨hEb, hE5⟩ := embeds_append hE4
    rw [comp_length] at hE5
    obtain ⟨hj, hE6⟩ := embeds_cons hE5
    obtain ⟨hplf, _⟩ := embeds_cons hE6
    -- states
    have sPl := stateAt_of_get (fin := fin) hpl
    have sIt := stateAt_of_get (fin := fin) hit
    have sJ := stateAt_of_get (fin := fin) hj
    have sPlf := stateAt_of_get (fin := fin) hplf
    have wL : WS P fin (pushL (b + npre) v r σ) := WS_pushL hw sPl (code_of_get hpl)
    have sBody := comp_head body _ _ _ P fin hEb sJ
    have sT : stateAt P fin (b + npre + 1 + 1) = some (pushL (b + npre) v r σ) := by
      refine others_head hEt ?_
      rw [eb]; exact sBody
    have eEnd : b + npre + 2 + nt + size [] true body + 1 = b + npre + 2 + nt + size [] true body + 1 := rfl
    have sEnd : stateAt P fin (b + npre + 2 + nt + size [] true body + 1 + 1) = some σ := by
      have e : b + npre + 2 + nt + size [] true body + 1 + 1
          = b + size Γ.scopes Γ.loop.isSome (.forS v r npre nt body) := by simp [size]; omega
      rw [e]; exact hn
    refine typed_append (typed_others hEp sPl hw) ?_
    rw [others_length]
    refine typed_cons (ok_pushLoop hw sIt) ?_
    refine typed_cons (ok_iterate wL sT sPlf) ?_
    refine typed_append (typed_others hEt (by rw [eb]; exact sBody) wL) ?_
    rw [others_length, eb]
    refine typed_append (ihb _ _ _ true P fin hok hEb sJ wL ?_) ?_
    · intro _
      exact ⟨b + npre + 1, b + npre + 2 + nt + size [] true body + 1, pushL (b + npre) v r σ, rfl, rfl, sIt, sPlf, wL⟩
    · rw [comp_length]
      refine typed_cons (ok_jump wL sIt) ?_
      exact typed_cons (ok_popLoopFrame wL sEnd sPl) (typed_nil _ _ _)
  | forElse v r npre nt body e ihb ihe =>
    intro Γ b σ inLoop P fin hok hE hn hw hi
    simp only [ok, Bool.and_eq_true] at hok
    simp only [comp, List.append_assoc, List.cons_append, List.nil_append] at hE ⊢
    obtain ⟨hEp, hE1⟩ := embeds_append hE
    rw [others_length] at hE1
    obtain ⟨hpl, hE2⟩ := embeds_cons hE1
    obtain ⟨hit, hE3⟩ := embeds_cons hE2
    obtain ⟨hEt, hE4⟩ := embeds_append hE3
    rw [others_length] at hE4
    have eb : b + npre + 1 + 1 + nt = b + npre + 2 + nt := by omega
    rw [eb] at hE4
    obtain ⟨hEb, hE5⟩ := embeds_append hE4
    rw [comp_length] at hE5
    simp only [Option.isSome_some] at hE5
    obtain ⟨hj, hE6⟩ := embeds_cons hE5
    obtain ⟨hdn, hE7⟩ := embeds_cons hE6
    obtain ⟨hplf, hE8⟩ := embeds_cons hE7
    obtain ⟨hjf, hE9⟩ := embeds_cons hE8
    have ee : b + npre + 2 + nt + size [] true body + 1 + 1 + 1 + 1
        = b + npre + 2 + nt + size [] true body + 1 + 3 := by omega
    rw [ee] at hE9
    have sPl := stateAt_of_get (fin := fin) hpl
    have sIt := stateAt_of_get (fin := fin) hit
    have sJ := stateAt_of_get (fin := fin) hj
    have sDn := stateAt_of_get (fin := fin) hdn
    have sPlf := stateAt_of_get (fin := fin) hplf
    have sJf := stateAt_of_get (fin := fin) hjf
    have wL : WS P fin (pushL (b + npre) v r σ) := WS_pushL hw sPl (code_of_get hpl)
    have sBody := comp_head body _ _ _ P fin hEb sJ
    have sT : stateAt P fin (b + npre + 1 + 1) = some (pushL (b + npre) v r σ) := by
      refine others_head hEt ?_
      rw [eb]; exact sBody
    have sEnd : stateAt P fin (b + npre + 2 + nt + size [] true body + 1 + 3 + size Γ.scopes Γ.loop.isSome e) = some σ := by
      have e' : b + npre + 2 + nt + size [] true body + 1 + 3 + size Γ.scopes Γ.loop.isSome e
          = b + size Γ.scopes Γ.loop.isSome (.forElse v r npre nt body e) := by simp [size]; omega
      rw [e']; exact hn
    have sElse := comp_head e _ _ _ P fin hE9 sEnd
    refine typed_append (typed_others hEp sPl hw) ?_
    rw [others_length]
    refine typed_cons (ok_pushLoop hw sIt) ?_
    refine typed_cons (ok_iterate wL sT sDn) ?_
    refine typed_append (typed_others hEt (by rw [eb]; exact sBody) wL) ?_
    rw [others_length, eb]
    refine typed_append (ihb _ _ _ true P fin hok.1 hEb sJ wL ?_) ?_
    · intro _
      exact ⟨b + npre + 1, b + npre + 2 + nt + size [] true body + 1, pushL (b + npre) v r σ, rfl, rfl, sIt, sDn, wL⟩
    · rw [comp_length]
      simp only [Option.isSome_some]
      refine typed_cons (ok_jump wL sIt) ?_
      refine typed_cons (ok_pushDidNotIterate wL sPlf) ?_
      refine typed_cons (ok_popLoopFrame wL sJf sPl) ?_
      refine typed_cons (ok_jumpIfFalse hw (by rw [ee]; exact sElse) sEnd) ?_
      rw [ee]
      exact ihe _ _ _ inLoop P fin hok.2 hE9 sEnd hw hi
  | withS n body ihb =>
    intro Γ b σ inLoop P fin hok hE hn hw hi
    simp only [ok] at hok
    simp only [comp, List.append_assoc, List.cons_append] at hE ⊢
    obtain ⟨hpw, hE1⟩ := embeds_cons hE
    obtain ⟨hEo, hE2⟩ := embeds_append hE1
    rw [others_length] at hE2
    obtain ⟨hEb, hE3⟩ := embeds_append hE2
    rw [comp_length] at hE3
    obtain ⟨hpf, _⟩ := embeds_cons hE3
    have n3 := stateAt_of_get (fin := fin) hpf
    have n2 := comp_head body _ _ _ P fin hEb n3
    have n1 := others_head hEo n2
    have n4 : stateAt P fin (b + 1 + n + size (Scope.withS :: Γ.scopes) Γ.loop.isSome body + 1) = some σ := by
      have e : b + 1 + n + size (Scope.withS :: Γ.scopes) Γ.loop.isSome body + 1
          = b + size Γ.scopes Γ.loop.isSome (.withS n body) := by simp [size]; omega
      rw [e]; exact hn
    refine typed_cons (ok_pushWith hw n1) ?_
    refine typed_append (typed_others hEo n2 (WS_pushW hw)) ?_
    rw [others_length]
    refine typed_append (ihb _ _ _ inLoop P fin hok hEb n3 (WS_pushW hw) ?_) ?_
    · intro h
      obtain ⟨it, en, σL, hl, hσ, h1, h2, h3⟩ := hi h
      exact ⟨it, en, σL, hl, by simp [applyScopes, applyScope, ← hσ], h1, h2, h3⟩
    · rw [comp_length]
      exact typed_cons (ok_popFrame (WS_pushW hw) n4) (typed_nil _ _ _)
  | capture body npost ihb =>
    intro Γ b σ inLoop P fin hok hE hn hw hi
    simp only [ok] at hok
    simp only [comp, List.append_assoc, List.cons_append] at hE ⊢
    obtain ⟨hbc, hE1⟩ := embeds_cons hE
    obtain ⟨hEb, hE2⟩ := embeds_append hE1
    rw [comp_length] at hE2
    obtain ⟨hec, hEo⟩ := embeds_cons hE2
    have n2 := stateAt_of_get (fin := fin) hec
    have n1 := comp_head body _ _ _ P fin hEb n2
    have n4 : stateAt P fin (b + 1 + size (Scope.capture :: Γ.scopes) Γ.loop.isSome body + 1 + npost) = some σ := by
      have e : b + 1 + size (Scope.capture :: Γ.scopes) Γ.loop.isSome body + 1 + npost
          = b + size Γ.scopes Γ.loop.isSome (.capture body npost) := by simp [size]; omega
      rw [e]; exact hn
    have n3 := others_head hEo n4
    refine typed_cons (ok_beginCapture hw n1) ?_
    refine typed_append (ihb _ _ _ inLoop P fin hok hEb n2 (WS_pushC hw) ?_) ?_
    · intro h
      obtain ⟨it, en, σL, hl, hσ, h1, h2, h3⟩ := hi h
      exact ⟨it, en, σL, hl, by simp [applyScopes, applyScope, ← hσ], h1, h2, h3⟩
    · rw [comp_length]
      exact typed_cons (ok_endCapture (WS_pushC hw) n3) (typed_others hEo n4 hw)
  | autoEscape npre body ihb =>
    intro Γ b σ inLoop P fin hok hE hn hw hi
    simp only [ok] at hok
    simp only [comp, List.append_assoc, List.cons_append] at hE ⊢
    obtain ⟨hEo, hE1⟩ := embeds_append hE
    rw [others_length] at hE1
    obtain ⟨hpa, hE2⟩ := embeds_cons hE1
    obtain ⟨hEb, hE3⟩ := embeds_append hE2
    rw [comp_length] at hE3
    obtain ⟨hqa, _⟩ := embeds_cons hE3
    have n2 := stateAt_of_get (fin := fin) hqa
    have n1 := comp_head body _ _ _ P fin hEb n2
    have n4 : stateAt P fin (b + npre + 1 + size (Scope.autoEscape :: Γ.scopes) Γ.loop.isSome body + 1) = some σ := by
      have e : b + npre + 1 + size (Scope.autoEscape :: Γ.scopes) Γ.loop.isSome body + 1
          = b + size Γ.scopes Γ.loop.isSome (.autoEscape npre body) := by simp [size]; omega
      rw [e]; exact hn
    refine typed_append (typed_others hEo (stateAt_of_get hpa) hw) ?_
    rw [others_length]
    refine typed_cons (ok_pushAutoEscape hw n1) ?_
    refine typed_append (ihb _ _ _ inLoop P fin hok hEb n2 (WS_pushE hw) ?_) ?_
    · intro h
      obtain ⟨it, en, σL, hl, hσ, h1, h2, h3⟩ := hi h
      exact ⟨it, en, σL, hl, by simp [applyScopes, applyScope, ← hσ], h1, h2, h3⟩
    · rw [comp_length]
      exact typed_cons (ok_popAutoEscape (WS_pushE hw) n4) (typed_nil _ _ _)
  | macroS nargs body nenc nafter ihb =>
    intro Γ b σ inLoop P fin hok hE hn hw _
    simp only [ok] at hok
    simp only [comp, List.append_assoc, List.cons_append] at hE ⊢
    obtain ⟨hj, hE1⟩ := embeds_cons hE
    obtain ⟨hEa, hE2⟩ := embeds_append hE1
    rw [others_length] at hE2
    obtain ⟨hEb, hE3⟩ := embeds_append hE2
    rw [comp_length] at hE3
    obtain ⟨hret, hE4⟩ := embeds_cons hE3
    obtain ⟨hEe, hE5⟩ := embeds_append hE4
    rw [others_length] at hE5
    obtain ⟨hbm, hEf⟩ := embeds_cons hE5
    have nret := stateAt_of_get (fin := fin) hret
    have nbody := comp_head body _ _ _ P fin hEb nret
    have nentry := others_head hEa nbody
    have nbm := stateAt_of_get (fin := fin) hbm
    have nT := others_head hEe nbm
    have nend : stateAt P fin (b + 1 + nargs + size Γ.scopes Γ.loop.isSome body + 1 + nenc + 1 + nafter) = some σ := by
      have e : b + 1 + nargs + size Γ.scopes Γ.loop.isSome body + 1 + nenc + 1 + nafter
          = b + size Γ.scopes Γ.loop.isSome (.macroS nargs body nenc nafter) := by simp [size]; omega
      rw [e]; exact hn
    have nafterS := others_head hEf nend
    refine typed_cons (ok_jump hw nT) ?_
    refine typed_append (typed_others hEa nbody (WS_init P fin)) ?_
    rw [others_length]
    refine typed_append (ihb _ _ _ false P fin hok hEb nret (WS_init P fin) (by intro h; cases h)) ?_
    rw [comp_length]
    refine typed_cons (ok_ret P fin _) ?_
    refine typed_append (typed_others hEe nbm hw) ?_
    rw [others_length]
    exact typed_cons (ok_buildMacro hw nafterS nentry) (typed_others hEf nend hw)
  | importS n m =>
    intro Γ b σ inLoop P fin _ hE hn hw _
    simp only [comp, List.append_assoc, List.cons_append] at hE ⊢
    obtain ⟨hbc, hE1⟩ := embeds_cons hE
    obtain ⟨hpw, hE2⟩ := embeds_cons hE1
    obtain ⟨hEo, hE3⟩ := embeds_append hE2
    rw [others_length] at hE3
    obtain ⟨ho1, hE4⟩ := embeds_cons hE3
    obtain ⟨hec, hE5⟩ := embeds_cons hE4
    obtain ⟨ho2, hE6⟩ := embeds_cons hE5
    obtain ⟨hpf, hEm⟩ := embeds_cons hE6
    have nend : stateAt P fin (b + 1 + 1 + n + 1 + 1 + 1 + 1 + m) = some σ := by
      have e : b + 1 + 1 + n + 1 + 1 + 1 + 1 + m = b + size Γ.scopes Γ.loop.isSome (.importS n m) := by
        simp [size]; omega
      rw [e]; exact hn
    have nm := others_head hEm nend
    have e1 : pushW (pushC σ) = pushC (pushW σ) := rfl
    have wcw : WS P fin (pushW (pushC σ)) := WS_pushW (WS_pushC hw)
    refine typed_cons (ok_beginCapture hw (stateAt_of_get hpw)) ?_
    refine typed_cons (ok_pushWith (WS_pushC hw) (others_head hEo (stateAt_of_get ho1))) ?_
    refine typed_append (typed_others hEo (stateAt_of_get ho1) wcw) ?_
    rw [others_length]
    refine typed_cons (ok_other wcw (stateAt_of_get hec)) ?_
    refine typed_cons ?_ ?_
    · rw [e1]; exact ok_endCapture (by rw [← e1]; exact wcw) (stateAt_of_get ho2)
    refine typed_cons (ok_other (WS_pushW hw) (stateAt_of_get hpf)) ?_
    exact typed_cons (ok_popFrame (WS_pushW hw) nm) (typed_others hEm nend hw)
  | breakS =>
    intro Γ b σ inLoop P fin hok hE hn _ hi
    simp only [ok] at hok
    obtain ⟨it, en, σL, hl, hσ, _, h2, h3⟩ := hi hok
    subst hσ
    simp only [comp, hl] at hE ⊢
    obtain ⟨hEc, hEj⟩ := embeds_append hE
    rw [cleanup_length] at hEj
    obtain ⟨hj, _⟩ := embeds_cons hEj
    have hσL : stateAt P fin (b + cleanupLen Γ.scopes) = some (cleanup Γ.scopes (applyScopes Γ.scopes σL)).2 :=
      stateAt_of_get hj
    -- the state recorded at the jump is the loop state
    have key : ∀ (hx : stateAt P fin (b + cleanupLen Γ.scopes) = some σL),
        Typed P fin b (cleanup Γ.scopes (applyScopes Γ.scopes σL)).1 ∧
        (cleanup Γ.scopes (applyScopes Γ.scopes σL)).2 = σL := by
      intro hx
      obtain ⟨a, b', _⟩ := cleanup_typed (P := P) (fin := fin) Γ.scopes b σL h3 hEc hx
      exact ⟨a, b'⟩
    have h2' : (cleanup Γ.scopes (applyScopes Γ.scopes σL)).2 = σL := cleanup_snd Γ.scopes σL
    rw [h2'] at hσL
    obtain ⟨ht, _⟩ := key hσL
    refine typed_append ht ?_
    rw [cleanup_length, h2']
    exact typed_cons (ok_jump h3 h2) (typed_nil _ _ _)
  | continueS =>
    intro Γ b σ inLoop P fin hok hE hn _ hi
    simp only [ok] at hok
    obtain ⟨it, en, σL, hl, hσ, h1, _, h3⟩ := hi hok
    subst hσ
    simp only [comp, hl] at hE ⊢
    obtain ⟨hEc, hEj⟩ := embeds_append hE
    rw [cleanup_length] at hEj
    obtain ⟨hj, _⟩ := embeds_cons hEj
    have hσL : stateAt P fin (b + cleanupLen Γ.scopes) = some (cleanup Γ.scopes (applyScopes Γ.scopes σL)).2 :=
      stateAt_of_get hj
    have h2' : (cleanup Γ.scopes (applyScopes Γ.scopes σL)).2 = σL := cleanup_snd Γ.scopes σL
    rw [h2'] at hσL
    obtain ⟨ht, _, _⟩ := cleanup_typed (P := P) (fin := fin) Γ.scopes b σL h3 hEc hσL
    refine typed_append ht ?_
    rw [cleanup_length, h2']
    exact typed_cons (ok_jump h3 h1) (typed_nil _ _ _)

/-! ### from the typed stream to `checkCert` -/

theorem mem_macroEntries {l : List Instr} {o : Nat} (h : o ∈ macroEntries l) :
    ∃ k : Nat, l[k]? = some (Instr.buildMacro o) := by
  induction l with
  | nil => simp [macroEntries] at h
  | cons i rest ih =>
    cases i
    case buildMacro o' =>
      simp only [macroEntries, List.mem_cons] at h
      rcases h with rfl | h
      · exact ⟨0, rfl⟩
      · obtain ⟨k, hk⟩ := ih h; exact ⟨k + 1, by simpa using hk⟩
    all_goals
      simp only [macroEntries] at h
      obtain ⟨k, hk⟩ := ih h
      exact ⟨k + 1, by simpa using hk⟩

theorem checkCert_of_typed (P : ACode) (hT : Typed P AbsState.init 0 P)
    (h0 : stateAt P AbsState.init 0 = some AbsState.init) :
    checkCert (codeOf P) (certOf P AbsState.init) = true := by
  unfold checkCert
  rw [Bool.and_eq_true, List.all_eq_true, List.all_eq_true]
  constructor
  · intro e he
    simp only [entries, List.mem_cons] at he
    rcases he with rfl | he
    · simpa [stateAt] using h0
    · have hl : (codeOf P).toList = P.map (·.1) := by simp [codeOf]
      rw [hl] at he
      obtain ⟨k, hk⟩ := mem_macroEntries he
      rw [List.getElem?_map] at hk
      cases hp : P[k]? with
      | none => rw [hp] at hk; cases hk
      | some x =>
        obtain ⟨i, A⟩ := x
        rw [hp] at hk
        simp only [Option.map_some, Option.some.injEq] at hk
        subst hk
        have := (hT k _ A hp).2.2 e rfl
        simpa [stateAt] using this
  · intro pc hpc
    have hsz : (certOf P AbsState.init).size = P.length + 1 := by simp [certOf]
    rw [List.mem_range, hsz] at hpc
    unfold checkPc
    rcases Nat.lt_or_ge pc P.length with hlt | hge
    · have hget : P[pc]? = some P[pc] := List.getElem?_eq_getElem hlt
      obtain ⟨hw, ⟨es, hes, hall⟩, _⟩ := hT pc P[pc].1 P[pc].2 hget
      have hs : look (certOf P AbsState.init) pc = some P[pc].2 := stateAt_of_get hget
      have hc : (codeOf P)[pc]? = some P[pc].1 := code_of_get hget
      simp only [Nat.zero_add] at hes
      rw [hs]
      simp only [hc, hes, Bool.and_eq_true]
      refine ⟨hw, ?_⟩
      rw [List.all_eq_true]
      intro x hx
      have := hall x hx
      simpa [stateAt] using this
    · have e : pc = P.length := by omega
      subst e
      have hs : look (certOf P AbsState.init) P.length = some AbsState.init := stateAt_end P _
      have hc : (codeOf P)[P.length]? = none := by simp [code_get]
      rw [hs]
      simp [hc, wsFrames, AbsState.init]

/-- the model generator emits, for every statement the parser accepts, a certificate that the
verified checker accepts -/
theorem compileTemplate_checked (s : Stmt) (hok : ok false s = true) :
    checkCert (codeOf (compileTemplate s)) (certOf (compileTemplate s) AbsState.init) = true := by
  have hlen : (compileTemplate s).length = size [] false s := comp_length s ⟨none, []⟩ 0 AbsState.init
  have hend : stateAt (compileTemplate s) AbsState.init (0 + size [] false s) = some AbsState.init := by
    rw [Nat.zero_add, ← hlen]; exact stateAt_end _ _
  have hE : Embeds (compileTemplate s) 0 (comp ⟨none, []⟩ 0 AbsState.init s) := embeds_self _
  refine checkCert_of_typed _ ?_ ?_
  · exact comp_typed s ⟨none, []⟩ 0 AbsState.init false _ _ hok hE hend (WS_init _ _) (by intro h; cases h)
  · exact comp_head s ⟨none, []⟩ 0 AbsState.init _ _ hE hend

end MJ.BalGen
