import MJ.Model.Json
/-! The string layer of the JSON text: alphabet of the `tojson` post-processing and
`read ∘ postprocess ∘ escape = id` for every string (C16). -/
namespace MJ.Json

/-- post-processing with an arbitrary replacement table (`[]` = none: JSON auto-escaping) -/
def postT (t : List (Char × List Char)) (s : List Char) : List Char := s.flatMap fun c => replOf c t

theorem htmlSafe_eq_postT (s : List Char) : htmlSafe s = postT MJ.Gen.tojsonReplacements s := rfl

theorem postT_nil (s : List Char) : postT [] s = s := by
  induction s with
  | nil => rfl
  | cons c cs ih =>
    simp only [postT, List.flatMap_cons, replOf] at ih ⊢
    rw [ih]
    rfl

theorem postT_append (t : List (Char × List Char)) (a b : List Char) : postT t (a ++ b) = postT t a ++ postT t b := by
  simp [postT, List.flatMap_append]

/-! ### alphabet -/

def forbidden : List Char := ['<', '>', '&', '\'']

def replClean (t : List (Char × List Char)) : Bool := t.all fun p => p.2.all fun c => !forbidden.contains c
def replCovers (t : List (Char × List Char)) : Bool := forbidden.all fun f => t.any fun p => p.1 == f

theorem replOf_mem (c0 c : Char) (t : List (Char × List Char)) (h : c ∈ replOf c0 t) :
    (∃ p ∈ t, c ∈ p.2) ∨ (c = c0 ∧ ∀ p ∈ t, p.1 ≠ c0) := by
  induction t with
  | nil =>
    simp [replOf] at h
    exact Or.inr ⟨h, by simp⟩
  | cons p ps ih =>
    obtain ⟨k, r⟩ := p
    simp only [replOf] at h
    by_cases hk : k = c0
    · simp only [hk, if_true] at h
      exact Or.inl ⟨(k, r), by simp, h⟩
    · simp only [hk, if_false] at h
      rcases ih h with ⟨p, hp, hc⟩ | ⟨hc, hall⟩
      · exact Or.inl ⟨p, by simp [hp], hc⟩
      · refine Or.inr ⟨hc, ?_⟩
        intro q hq
        simp only [List.mem_cons] at hq
        rcases hq with hq | hq
        · subst hq; exact hk
        · exact hall q hq

theorem postT_alphabet (t : List (Char × List Char)) (hclean : replClean t = true) (hcov : replCovers t = true)
    (s : List Char) (c : Char) (hc : c ∈ postT t s) : c ∉ forbidden := by
  simp only [postT, List.mem_flatMap] at hc
  obtain ⟨c0, _, hc0⟩ := hc
  rcases replOf_mem c0 c t hc0 with ⟨p, hp, hcp⟩ | ⟨heq, hall⟩
  · simp only [replClean, List.all_eq_true] at hclean
    have := hclean p hp c hcp
    simpa using this
  · intro hf
    simp only [replCovers, List.all_eq_true, List.any_eq_true] at hcov
    obtain ⟨p, hp, hpk⟩ := hcov c hf
    have : p.1 = c := by simpa using hpk
    exact hall p hp (by rw [this, heq])

/-! ### facts about the extracted tables (re-checked whenever the sources change) -/

def escAlphabet : List Char :=
  ['\\', 'u', '"', '0', '1', '2', '3', '4', '5', '6', '7', '8', '9', 'a', 'b', 'c', 'd', 'e', 'f', 't', 'n', 'r']

theorem hexLower_mem : ∀ k, k < 16 → hexLower k ∈ escAlphabet := by decide
theorem hexVal_hexLower : ∀ k, k < 16 → hexVal? (hexLower k) = some k := by decide
theorem code_mem : ∀ n, n < 128 → escCode n ≠ 0 → Char.ofNat (escCode n) ∈ escAlphabet := by decide
theorem code_zero : ∀ n, n < 128 → escCode n = 0 → 32 ≤ n ∧ n ≠ 34 ∧ n ≠ 92 := by decide
theorem code_u : ∀ n, n < 128 → escCode n = 117 → n < 32 := by decide
theorem code_short : ∀ n, n < 128 → escCode n ≠ 0 → escCode n ≠ 117 →
    shortUnescape (Char.ofNat (escCode n)) = some (Char.ofNat n) ∧ Char.ofNat (escCode n) ≠ 'u' := by decide
/-- bytes ≥ 0x80 (all bytes of multi-byte UTF-8 sequences) are never escaped: escaping per byte and
per character coincide -/
theorem escape_table_high_plain : ∀ n, n < 256 → 128 ≤ n → escCode n = 0 := by decide +kernel

/-- a replacement is a `\uXXXX` escape of its own key -/
def replDecodes (p : Char × List Char) : Bool :=
  match p.2 with
  | [b, u, h1, h2, h3, h4] =>
    b == '\\' && u == 'u' && hex4? h1 h2 h3 h4 == some p.1.toNat && decide (p.1.toNat < 55296)
  | _ => false

def TableOK (t : List (Char × List Char)) : Prop :=
  (∀ p ∈ t, replDecodes p = true) ∧ (∀ p ∈ t, p.1 ∉ escAlphabet)

theorem tableOK_nil : TableOK [] := ⟨by simp, by simp⟩

theorem replOf_cases (c : Char) (t : List (Char × List Char)) :
    replOf c t = [c] ∨ ∃ p ∈ t, p.1 = c ∧ replOf c t = p.2 := by
  induction t with
  | nil => exact Or.inl rfl
  | cons p ps ih =>
    obtain ⟨k, r⟩ := p
    by_cases hk : k = c
    · exact Or.inr ⟨(k, r), by simp, hk, by simp [replOf, hk]⟩
    · rcases ih with h | ⟨q, hq, hqc, hqr⟩
      · exact Or.inl (by simp [replOf, hk, h])
      · exact Or.inr ⟨q, by simp [hq], hqc, by simp [replOf, hk, hqr]⟩

theorem replOf_not_key (c : Char) (t : List (Char × List Char)) (h : ∀ p ∈ t, p.1 ≠ c) : replOf c t = [c] := by
  rcases replOf_cases c t with h1 | ⟨p, hp, hpc, _⟩
  · exact h1
  · exact absurd hpc (h p hp)

theorem postT_escAlphabet (t : List (Char × List Char)) (ht : TableOK t) (s : List Char)
    (hs : ∀ c ∈ s, c ∈ escAlphabet) : postT t s = s := by
  induction s with
  | nil => rfl
  | cons c cs ih =>
    have hc : replOf c t = [c] := by
      apply replOf_not_key
      intro p hp hpc
      exact ht.2 p hp (by rw [hpc]; exact hs c (by simp))
    have := ih (fun x hx => hs x (by simp [hx]))
    simp only [postT, List.flatMap_cons] at this ⊢
    rw [hc, this]
    rfl

/-! ### reading back -/

theorem parse_raw (c : Char) (tail : List Char) (h1 : c ≠ '"') (h2 : c ≠ '\\') (h3 : ¬ c.toNat < 32) :
    parseStrBody (c :: tail) = consTo c (parseStrBody tail) := by
  rw [parseStrBody.eq_def]
  simp [h1, h2, h3]

theorem parse_u4 (h1 h2 h3 h4 : Char) (n : Nat) (tail : List Char) (hn : hex4? h1 h2 h3 h4 = some n)
    (hlo : n < 55296) :
    parseStrBody ('\\' :: 'u' :: h1 :: h2 :: h3 :: h4 :: tail) = consTo (Char.ofNat n) (parseStrBody tail) := by
  rw [parseStrBody.eq_def]
  have c1 : ¬ (55296 ≤ n ∧ n ≤ 56319) := by omega
  have c2 : ¬ (56320 ≤ n ∧ n ≤ 57343) := by omega
  simp [hn, c1, c2]

theorem parse_short (e ch : Char) (tail : List Char) (he : e ≠ 'u') (hs : shortUnescape e = some ch) :
    parseStrBody ('\\' :: e :: tail) = consTo ch (parseStrBody tail) := by
  rw [parseStrBody.eq_def]
  simp [he, hs]

theorem parse_repl (p : Char × List Char) (hp : replDecodes p = true) (tail : List Char) :
    parseStrBody (p.2 ++ tail) = consTo p.1 (parseStrBody tail) := by
  obtain ⟨k, r⟩ := p
  simp only [replDecodes] at hp
  split at hp
  · rename_i _r b u h1 h2 h3 h4
    simp only [Bool.and_eq_true, beq_iff_eq, decide_eq_true_eq] at hp
    obtain ⟨⟨⟨hb, hu⟩, hhex⟩, hlt⟩ := hp
    subst hb
    subst hu
    simp only [List.cons_append, List.nil_append]
    rw [parse_u4 h1 h2 h3 h4 k.toNat tail hhex hlt]
    simp [Char.ofNat_toNat]
  · simp at hp

theorem toNat_lt_of_ne (c : Char) : c.toNat < 1114112 := by
  have := c.valid
  simp only [Char.toNat]
  rcases c.valid with h | h
  · exact Nat.lt_trans h (by decide)
  · exact h.2

/-- one character: escape, post-process, read back -/
theorem step (t : List (Char × List Char)) (ht : TableOK t) (c : Char) (tail : List Char) :
    parseStrBody (postT t (escChar c) ++ tail) = consTo c (parseStrBody tail) := by
  have raw : (¬ c.toNat < 32) → c ≠ '"' → c ≠ '\\' →
      parseStrBody (postT t [c] ++ tail) = consTo c (parseStrBody tail) := by
    intro h3 h1 h2
    have hp : postT t [c] = replOf c t := by simp [postT]
    rw [hp]
    rcases replOf_cases c t with h | ⟨p, hp, hpc, hpr⟩
    · rw [h]
      exact parse_raw c tail h1 h2 h3
    · rw [hpr, parse_repl p (ht.1 p hp) tail, hpc]
  unfold escChar
  by_cases hlt : c.toNat < 128
  · simp only [hlt, if_true]
    by_cases h0 : escCode c.toNat = 0
    · simp only [h0, if_true]
      obtain ⟨g1, g2, g3⟩ := code_zero c.toNat hlt h0
      apply raw (by omega)
      · intro h; rw [h] at g2; exact g2 rfl
      · intro h; rw [h] at g3; exact g3 rfl
    · simp only [h0, if_false]
      by_cases hu : escCode c.toNat = 117
      · simp only [hu, if_true]
        have hn := code_u c.toNat hlt hu
        have hseq : postT t ['\\', 'u', '0', '0', hexLower (c.toNat / 16), hexLower (c.toNat % 16)]
            = ['\\', 'u', '0', '0', hexLower (c.toNat / 16), hexLower (c.toNat % 16)] := by
          apply postT_escAlphabet t ht
          intro x hx
          simp only [List.mem_cons, List.not_mem_nil, or_false] at hx
          rcases hx with rfl | rfl | rfl | rfl | rfl | rfl
          · decide
          · decide
          · decide
          · decide
          · exact hexLower_mem _ (by omega)
          · exact hexLower_mem _ (by omega)
        rw [hseq]
        have hhex : hex4? '0' '0' (hexLower (c.toNat / 16)) (hexLower (c.toNat % 16)) = some c.toNat := by
          have z : hexVal? '0' = some 0 := by decide
          simp only [hex4?, z, hexVal_hexLower _ (show c.toNat / 16 < 16 by omega),
            hexVal_hexLower _ (show c.toNat % 16 < 16 by omega)]
          congr 1
          omega
        simp only [List.cons_append, List.nil_append]
        rw [parse_u4 _ _ _ _ c.toNat tail hhex (by omega)]
        simp [Char.ofNat_toNat]
      · simp only [hu, if_false]
        obtain ⟨hs, hne⟩ := code_short c.toNat hlt h0 hu
        have hseq : postT t ['\\', Char.ofNat (escCode c.toNat)] = ['\\', Char.ofNat (escCode c.toNat)] := by
          apply postT_escAlphabet t ht
          intro x hx
          simp only [List.mem_cons, List.not_mem_nil, or_false] at hx
          rcases hx with rfl | rfl
          · decide
          · exact code_mem _ hlt h0
        rw [hseq]
        simp only [List.cons_append, List.nil_append]
        rw [parse_short _ _ tail hne hs]
        simp [Char.ofNat_toNat]
  · simp only [hlt, if_false]
    apply raw (by omega)
    · intro h; rw [h] at hlt; exact hlt (by decide)
    · intro h; rw [h] at hlt; exact hlt (by decide)

/-- a whole string body up to the closing quote -/
theorem parse_escaped (t : List (Char × List Char)) (ht : TableOK t) (s rest : List Char) :
    parseStrBody (postT t (escBody s) ++ '"' :: rest) = some (s, rest) := by
  induction s with
  | nil =>
    simp only [escBody, List.flatMap_nil, postT, List.nil_append]
    rw [parseStrBody.eq_def]
    simp
  | cons c cs ih =>
    have : escBody (c :: cs) = escChar c ++ escBody cs := by simp [escBody]
    rw [this, postT_append, List.append_assoc, step t ht c, ih]
    rfl

end MJ.Json
