import MJ.Model.BalPatch
import MJ.Proofs.BalGen
/-!
# The back-patching generator and the size-computing generator emit the same code (C05)

`gen_spec`: started on any instruction buffer and any `pending_block` stack, `BalPatch.gen` appends the
code `BalGen.comp` computes for the context that stack stands for — with the jumps of the `break`s that
belong to the innermost pending loop still pointing at the placeholder — and pushes exactly their
positions onto that loop's `jump_instrs`.  `patch_breaks`: writing the loop end into those positions
(`end_for_loop`) gives `comp`'s code for that loop end.  `genTemplate_eq`: whole templates.
-/
set_option linter.unusedSimpArgs false
namespace MJ.BalPatch
open MJ.Bal MJ.BalGen

/-! ## lists with one element rewritten -/

theorem modAt_length (f : Instr → Instr) : ∀ (l : List Instr) (i : Nat), (modAt f l i).length = l.length := by
  intro l
  induction l with
  | nil => intro i; rfl
  | cons x xs ih => intro i; cases i <;> simp [modAt, ih]

theorem modAt_append_left (f : Instr → Instr) : ∀ (P Q : List Instr) (i : Nat), i < P.length →
    modAt f (P ++ Q) i = modAt f P i ++ Q := by
  intro P
  induction P with
  | nil => intro Q i h; simp at h
  | cons x xs ih =>
    intro Q i h
    cases i with
    | zero => rfl
    | succ n => simp only [List.cons_append, modAt, List.cons.injEq, true_and]; exact ih Q n (by simpa using h)

theorem modAt_append_right (f : Instr → Instr) : ∀ (P Q : List Instr) (k : Nat),
    modAt f (P ++ Q) (P.length + k) = P ++ modAt f Q k := by
  intro P
  induction P with
  | nil => intro Q k; simp
  | cons x xs ih =>
    intro Q k
    have : (x :: xs).length + k = (xs.length + k) + 1 := by simp; omega
    rw [this]
    simp only [List.cons_append, modAt, List.cons.injEq, true_and]
    exact ih Q k

theorem modAt_at (f : Instr → Instr) (P : List Instr) (x : Instr) (Q : List Instr) (i : Nat)
    (h : i = P.length) : modAt f (P ++ x :: Q) i = P ++ f x :: Q := by
  subst h
  have := modAt_append_right f P (x :: Q) 0
  simpa [modAt] using this

/-! ## the context a pending stack stands for -/

/-- `Ctx` of `BalGen.comp` for a pending stack, with `en` as the end of the innermost loop -/
def ctx (ps : List Pending) (en : Nat) : Ctx :=
  ⟨(loopOf ps).map (fun it => (it, en)), scopesOf ps⟩

theorem loopOf_addBreaks (ps : List Pending) (bs : List Nat) : loopOf (addBreaks ps bs) = loopOf ps := by
  induction ps with
  | nil => rfl
  | cons p r ih => cases p <;> simp [addBreaks, loopOf, ih]

theorem scopesOf_addBreaks (ps : List Pending) (bs : List Nat) : scopesOf (addBreaks ps bs) = scopesOf ps := by
  induction ps with
  | nil => rfl
  | cons p r ih => cases p <;> simp [addBreaks, scopesOf, ih]

theorem addBreaks_nil (ps : List Pending) : addBreaks ps [] = ps := by
  induction ps with
  | nil => rfl
  | cons p r ih => cases p <;> simp [addBreaks, ih]

theorem addBreaks_addBreaks (ps : List Pending) (a b : List Nat) :
    addBreaks (addBreaks ps a) b = addBreaks ps (a ++ b) := by
  induction ps with
  | nil => rfl
  | cons p r ih => cases p <;> simp [addBreaks, ih]

theorem ctx_addBreaks (ps : List Pending) (bs : List Nat) (en : Nat) : ctx (addBreaks ps bs) en = ctx ps en := by
  simp [ctx, loopOf_addBreaks, scopesOf_addBreaks]

/-- instructions of `comp` -/
def compI (Γ : Ctx) (b : Nat) (σ : AbsState) (s : Stmt) : List Instr := (comp Γ b σ s).map (·.1)

theorem compI_length (Γ : Ctx) (b : Nat) (σ : AbsState) (s : Stmt) :
    (compI Γ b σ s).length = size Γ.scopes Γ.loop.isSome s := by
  simp [compI, comp_length]

theorem leaveCode_eq (sc : List Scope) : ∀ σ, leaveCode sc = (cleanup sc σ).1.map (·.1) := by
  induction sc with
  | nil => intro σ; rfl
  | cons x r ih => intro σ; cases x <;> simp [leaveCode, cleanup] <;> exact ih _

theorem others_map (n : Nat) (σ : AbsState) : (BalGen.others n σ).map (·.1) = others n := by
  simp [BalGen.others, others]

/-! ## where the `break`s of the current loop are, and what patching them does -/

/-- positions of the jumps of the `break`s that belong to the innermost pending loop -/
def breakIdx (Γ : Ctx) (b : Nat) : Stmt → List Nat
  | .skip => []
  | .seq a c => breakIdx Γ b a ++ breakIdx Γ (b + size Γ.scopes Γ.loop.isSome a) c
  | .simple _ => []
  | .flat _ => []
  | .ifS n t => breakIdx Γ (b + n + 1) t
  | .ifElse n t e =>
    breakIdx Γ (b + n + 1) t ++ breakIdx Γ (b + n + 1 + size Γ.scopes Γ.loop.isSome t + 1) e
  | .forS _ _ _ _ _ => []
  | .forElse _ _ npre nt body e => breakIdx Γ (b + npre + 2 + nt + size [] true body + 1 + 3) e
  | .withS n body => breakIdx { Γ with scopes := .withS :: Γ.scopes } (b + 1 + n) body
  | .capture body _ => breakIdx { Γ with scopes := .capture :: Γ.scopes } (b + 1) body
  | .autoEscape npre body => breakIdx { Γ with scopes := .autoEscape :: Γ.scopes } (b + npre + 1) body
  | .macroS nargs body _ _ => breakIdx Γ (b + 1 + nargs) body
  | .importS _ _ => []
  | .breakS => [b + cleanupLen Γ.scopes]
  | .continueS => []

def patchAll (en : Nat) (l : List Instr) (idx : List Nat) : List Instr :=
  idx.foldl (fun l i => modAt (setLoop en) l i) l

theorem patchAll_append (en : Nat) (l : List Instr) (a b : List Nat) :
    patchAll en l (a ++ b) = patchAll en (patchAll en l a) b := by
  simp [patchAll, List.foldl_append]

theorem compI_seq (Γ : Ctx) (b : Nat) (σ : AbsState) (a c : Stmt) :
    compI Γ b σ (.seq a c) = compI Γ b σ a ++ compI Γ (b + size Γ.scopes Γ.loop.isSome a) σ c := by
  simp [compI, comp]

/-- writing the loop end into the remembered `break` jumps turns the code with placeholders into the
code `BalGen.comp` computes for that loop end -/
theorem patch_breaks (s : Stmt) : ∀ (it : Nat) (sc : List Scope) (b : Nat) (σ : AbsState) (en : Nat)
    (P Q : List Instr), P.length = b →
    patchAll en (P ++ (compI ⟨some (it, 0), sc⟩ b σ s ++ Q)) (breakIdx ⟨some (it, 0), sc⟩ b s)
      = P ++ (compI ⟨some (it, en), sc⟩ b σ s ++ Q) := by
  induction s with
  | skip => intro it sc b σ en P Q _; rfl
  | seq a c iha ihc =>
    intro it sc b σ en P Q hP
    simp only [compI_seq, breakIdx, patchAll_append, List.append_assoc, Option.isSome_some]
    rw [iha it sc b σ en P _ hP]
    have hl : (P ++ compI ⟨some (it, en), sc⟩ b σ a).length = b + size sc true a := by
      simp [compI_length, hP]
    have := ihc it sc (b + size sc true a) σ en (P ++ compI ⟨some (it, en), sc⟩ b σ a) Q hl
    simpa [List.append_assoc] using this
  | simple is => intro it sc b σ en P Q _; rfl
  | flat is => intro it sc b σ en P Q _; rfl
  | ifS n t iht =>
    intro it sc b σ en P Q hP
    simp only [compI, comp, breakIdx, List.map_append, List.map_cons, List.append_assoc, Option.isSome_some,
      List.cons_append]
    have hl : (P ++ ((BalGen.others n σ).map (·.1) ++ [Instr.jumpIfFalse (b + n + 1 + size sc true t)])).length
        = b + n + 1 := by
      simp [others_length, hP]; omega
    have := iht it sc (b + n + 1) σ en _ Q hl
    simpa [compI, List.append_assoc] using this
  | ifElse n t e iht ihe =>
    intro it sc b σ en P Q hP
    simp only [compI, comp, breakIdx, patchAll_append, List.map_append, List.map_cons, List.append_assoc,
      Option.isSome_some, List.cons_append]
    have hl : (P ++ ((BalGen.others n σ).map (·.1) ++
        [Instr.jumpIfFalse (b + n + 1 + size sc true t + 1)])).length = b + n + 1 := by
      simp [others_length, hP]; omega
    have h1 := iht it sc (b + n + 1) σ en _
      (Instr.jump (b + n + 1 + size sc true t + 1 + size sc true e) ::
        ((comp ⟨some (it, 0), sc⟩ (b + n + 1 + size sc true t + 1) σ e).map (·.1) ++ Q)) hl
    simp only [compI, List.append_assoc, List.cons_append, List.nil_append] at h1
    rw [h1]
    have hl2 : (P ++ ((BalGen.others n σ).map (·.1) ++
        Instr.jumpIfFalse (b + n + 1 + size sc true t + 1) ::
          ((comp ⟨some (it, en), sc⟩ (b + n + 1) σ t).map (·.1) ++
            [Instr.jump (b + n + 1 + size sc true t + 1 + size sc true e)]))).length
        = b + n + 1 + size sc true t + 1 := by
      simp [others_length, comp_length, hP]; omega
    have h2 := ihe it sc (b + n + 1 + size sc true t + 1) σ en _ Q hl2
    simpa [compI, List.append_assoc] using h2
  | forS v r npre nt body _ => intro it sc b σ en P Q _; rfl
  | forElse v r npre nt body e _ ihe =>
    intro it sc b σ en P Q hP
    simp only [compI, comp, breakIdx, List.map_append, List.map_cons, List.append_assoc,
      Option.isSome_some, List.cons_append, List.nil_append]
    -- everything in front of the else body does not depend on the enclosing loop
    generalize hpre : (BalGen.others npre σ).map (·.1) ++
        Instr.pushLoop v r :: Instr.iterate (b + npre + 2 + nt + size [] true body + 1) ::
          ((BalGen.others nt (pushL (b + npre) v r σ)).map (·.1) ++
            ((comp ⟨some (b + npre + 1, b + npre + 2 + nt + size [] true body + 1), []⟩ (b + npre + 2 + nt)
                (pushL (b + npre) v r σ) body).map (·.1) ++
              Instr.jump (b + npre + 1) :: Instr.pushDidNotIterate :: Instr.popLoopFrame ::
                [Instr.jumpIfFalse (b + npre + 2 + nt + size [] true body + 1 + 3 + size sc true e)])) = pre
    have hlen : pre.length = npre + 2 + nt + size [] true body + 1 + 3 := by
      subst hpre; simp [others_length, comp_length]; omega
    have h := ihe it sc (b + npre + 2 + nt + size [] true body + 1 + 3) σ en (P ++ pre) Q
      (by simp [hlen, hP]; omega)
    subst hpre
    simpa [compI, List.append_assoc] using h
  | withS n body ih =>
    intro it sc b σ en P Q hP
    simp only [compI, comp, breakIdx, List.map_append, List.map_cons, List.append_assoc,
      Option.isSome_some, List.cons_append, List.nil_append, List.map_nil]
    have h := ih it (.withS :: sc) (b + 1 + n) (pushW σ) en
      (P ++ (Instr.pushWith :: (BalGen.others n (pushW σ)).map (·.1))) (Instr.popFrame :: Q)
      (by simp [others_length, hP]; omega)
    simpa [compI, List.append_assoc] using h
  | capture body npost ih =>
    intro it sc b σ en P Q hP
    simp only [compI, comp, breakIdx, List.map_append, List.map_cons, List.append_assoc,
      Option.isSome_some, List.cons_append, List.nil_append]
    have h := ih it (.capture :: sc) (b + 1) (pushC σ) en
      (P ++ [Instr.beginCapture]) (Instr.endCapture :: ((BalGen.others npost σ).map (·.1) ++ Q))
      (by simp [hP])
    simpa [compI, List.append_assoc] using h
  | autoEscape npre body ih =>
    intro it sc b σ en P Q hP
    simp only [compI, comp, breakIdx, List.map_append, List.map_cons, List.append_assoc,
      Option.isSome_some, List.cons_append, List.nil_append, List.map_nil]
    have h := ih it (.autoEscape :: sc) (b + npre + 1) (pushE σ) en
      (P ++ ((BalGen.others npre σ).map (·.1) ++ [Instr.pushAutoEscape])) (Instr.popAutoEscape :: Q)
      (by simp [others_length, hP]; omega)
    simpa [compI, List.append_assoc] using h
  | macroS nargs body nenc nafter ih =>
    intro it sc b σ en P Q hP
    simp only [compI, comp, breakIdx, List.map_append, List.map_cons, List.append_assoc,
      Option.isSome_some, List.cons_append, List.nil_append]
    have h := ih it sc (b + 1 + nargs) AbsState.init en
      (P ++ (Instr.jump (b + 1 + nargs + size sc true body + 1) :: (BalGen.others nargs AbsState.init).map (·.1)))
      (Instr.ret :: ((BalGen.others nenc σ).map (·.1) ++
        Instr.buildMacro (b + 1) :: ((BalGen.others nafter σ).map (·.1) ++ Q)))
      (by simp [others_length, hP]; omega)
    simpa [compI, List.append_assoc] using h
  | importS n m => intro it sc b σ en P Q _; rfl
  | breakS =>
    intro it sc b σ en P Q hP
    simp only [compI, comp, breakIdx, patchAll, List.foldl_cons, List.foldl_nil, List.map_append, List.map_cons,
      List.map_nil, List.append_assoc]
    have h1 : b + cleanupLen sc = (P ++ (cleanup sc σ).1.map (·.1)).length + 0 := by
      simp [cleanup_length, hP]
    rw [← List.append_assoc P, h1, modAt_append_right]
    simp [modAt, setLoop]
  | continueS => intro it sc b σ en P Q _; rfl

/-! ## the back-patching generator emits the code of `comp` (with the `break`s of the pending loop still open) -/

theorem ctx_branch (j : Nat) (ps : List Pending) (en : Nat) : ctx (.branch j :: ps) en = ctx ps en := rfl

theorem ctx_scope (sc : Scope) (ps : List Pending) (en : Nat) :
    ctx (.scope sc :: ps) en = { ctx ps en with scopes := sc :: (ctx ps en).scopes } := rfl

theorem ctx_loop (it : Nat) (js : List Nat) (ps : List Pending) (en : Nat) :
    ctx (.loop it js :: ps) en = ⟨some (it, en), []⟩ := rfl

theorem ctx_isSome (ps : List Pending) (en : Nat) : (ctx ps en).loop.isSome = (loopOf ps).isSome := by
  simp [ctx]

theorem foldl_modify (f : Instr → Instr) : ∀ (l : List Nat) (g : Gen),
    l.foldl (fun g i => g.modify i f) g = ⟨l.foldl (fun is i => modAt f is i) g.instrs, g.pending⟩ := by
  intro l
  induction l with
  | nil => intro g; rfl
  | cons x xs ih => intro g; simp only [List.foldl_cons]; rw [ih]; simp [Gen.modify]

/-- the shape of the result of `gen` -/
def Spec (s : Stmt) (g : Gen) (σ : AbsState) : Gen :=
  ⟨g.instrs ++ compI (ctx g.pending 0) g.instrs.length σ s,
   addBreaks g.pending (breakIdx (ctx g.pending 0) g.instrs.length s)⟩

/-- `start_if … end_if` around a statement whose code is as specified -/
theorem if_tail (e : Stmt) (σ : AbsState) (ihe : ∀ (g : Gen) (σ : AbsState), gen e g = Spec e g σ) (G : Gen) :
    endIf (gen e (startIf G)) =
      ⟨G.instrs ++ Instr.jumpIfFalse (G.instrs.length + 1 +
            size (ctx G.pending 0).scopes (ctx G.pending 0).loop.isSome e) ::
          compI (ctx G.pending 0) (G.instrs.length + 1) σ e,
        addBreaks G.pending (breakIdx (ctx G.pending 0) (G.instrs.length + 1) e)⟩ := by
  rw [ihe _ σ]
  simp only [Spec, startIf, Gen.add, Gen.push, Gen.next, endIf, endCondition, addBreaks, ctx_branch,
    List.length_append, compI_length, List.length_cons, List.length_nil]
  have := modAt_at (setCond (G.instrs.length + (0 + 1) +
      size (ctx G.pending 0).scopes (ctx G.pending 0).loop.isSome e)) G.instrs (Instr.jumpIfFalse 0)
    (compI (ctx G.pending 0) (G.instrs.length + (0 + 1)) σ e) G.instrs.length rfl
  simp only [List.append_assoc, List.cons_append, List.nil_append, List.singleton_append] at this ⊢
  rw [this]
  simp [setCond]

theorem gen_spec (s : Stmt) : ∀ (g : Gen) (σ : AbsState), gen s g = Spec s g σ := by
  induction s with
  | skip => intro g σ; simp [gen, Spec, compI, comp, breakIdx, addBreaks_nil]
  | seq a c iha ihc =>
    intro g σ
    simp only [gen]
    rw [iha g σ, ihc _ σ]
    simp only [Spec, ctx_addBreaks, addBreaks_addBreaks, compI_seq, breakIdx, List.length_append, compI_length,
      List.append_assoc]
  | simple is =>
    intro g σ
    simp [gen, Spec, Gen.addAll, compI, comp, breakIdx, addBreaks_nil, Function.comp_def]
  | flat is =>
    intro g σ
    simp [gen, Spec, Gen.addAll, Gen.next, compI, comp, breakIdx, addBreaks_nil, Function.comp_def]
  | ifS n t iht =>
    intro g σ
    simp only [gen]
    rw [iht _ σ]
    simp only [Spec, startIf, Gen.addAll, Gen.add, Gen.push, Gen.next, endIf, endCondition, addBreaks, ctx_branch,
      List.length_append, compI_length, others, List.length_replicate, List.length_cons, List.length_nil]
    have hj : g.instrs.length + n = (g.instrs ++ List.replicate n Instr.other).length + 0 := by simp
    simp only [List.append_assoc]
    rw [← List.append_assoc g.instrs, hj, modAt_append_right]
    simp [modAt, setCond, compI, comp, breakIdx, BalGen.others, ctx_isSome]
  | withS n body ih =>
    intro g σ
    simp only [gen]
    rw [ih _ (pushW σ)]
    simp [Spec, startScope, endScope, Gen.addAll, Gen.add, Gen.push, addBreaks, ctx_scope, others,
      compI, comp, breakIdx, BalGen.others, List.append_assoc, Nat.add_assoc, Nat.add_comm 1 n]
  | capture body npost ih =>
    intro g σ
    simp only [gen]
    rw [ih _ (pushC σ)]
    simp [Spec, startScope, endScope, Gen.addAll, Gen.add, Gen.push, addBreaks, ctx_scope, others,
      compI, comp, breakIdx, BalGen.others, List.append_assoc, Nat.add_assoc]
  | autoEscape npre body ih =>
    intro g σ
    simp only [gen]
    rw [ih _ (pushE σ)]
    simp [Spec, startScope, endScope, Gen.addAll, Gen.add, Gen.push, addBreaks, ctx_scope, others,
      compI, comp, breakIdx, BalGen.others, List.append_assoc, Nat.add_assoc]
  | importS n m =>
    intro g σ
    simp [gen, Spec, Gen.addAll, others, compI, comp, breakIdx, BalGen.others, addBreaks_nil, List.append_assoc]
  | breakS =>
    intro g σ
    simp only [gen, leaveScopes, Gen.addAll, Gen.next, Spec, compI, comp, breakIdx, List.map_append,
      List.map_cons, List.map_nil, List.length_append]
    rw [leaveCode_eq _ σ]
    cases h : loopOf g.pending <;> simp [h, ctx, cleanup_length, List.append_assoc]
  | continueS =>
    intro g σ
    simp only [gen, leaveScopes, Gen.addAll, Spec, compI, comp, breakIdx, addBreaks_nil, List.map_append]
    rw [leaveCode_eq _ σ]
    cases h : loopOf g.pending with
    | none => simp [ctx, h]
    | some it => simp [ctx, h, Gen.add, List.append_assoc]
  | ifElse n t e iht ihe =>
    intro g σ
    simp only [gen]
    rw [iht _ σ]
    simp only [Spec, startIf, Gen.addAll, Gen.add, Gen.push, Gen.next, addBreaks, ctx_branch, startElse, endCondition,
      List.length_append, compI_length, others, List.length_replicate, List.length_cons, List.length_nil]
    have h1 : ∀ tg, modAt (setCond tg)
        (g.instrs ++ List.replicate n Instr.other ++ [Instr.jumpIfFalse 0] ++
          compI (ctx g.pending 0) (g.instrs.length + n + (0 + 1)) σ t ++ [Instr.jump 0]) (g.instrs.length + n)
        = (g.instrs ++ List.replicate n Instr.other) ++ Instr.jumpIfFalse tg ::
          (compI (ctx g.pending 0) (g.instrs.length + n + (0 + 1)) σ t ++ [Instr.jump 0]) := by
      intro tg
      have := modAt_at (setCond tg) (g.instrs ++ List.replicate n Instr.other) (Instr.jumpIfFalse 0)
        (compI (ctx g.pending 0) (g.instrs.length + n + (0 + 1)) σ t ++ [Instr.jump 0]) (g.instrs.length + n) (by simp)
      simpa [setCond, List.append_assoc] using this
    rw [h1, ihe _ σ]
    simp only [Spec, endIf, endCondition, addBreaks, ctx_branch, ctx_addBreaks, addBreaks_addBreaks, Gen.next,
      List.length_append, compI_length, List.length_replicate, List.length_cons, List.length_nil]
    have h2 : ∀ tg (E : List Instr), modAt (setCond tg)
        (g.instrs ++ List.replicate n Instr.other ++ Instr.jumpIfFalse
            (g.instrs.length + n + (0 + 1) + size (ctx g.pending 0).scopes (ctx g.pending 0).loop.isSome t + 1) ::
          (compI (ctx g.pending 0) (g.instrs.length + n + (0 + 1)) σ t ++ [Instr.jump 0]) ++ E)
        (g.instrs.length + n + (0 + 1) + size (ctx g.pending 0).scopes (ctx g.pending 0).loop.isSome t)
        = (g.instrs ++ List.replicate n Instr.other ++ Instr.jumpIfFalse
            (g.instrs.length + n + (0 + 1) + size (ctx g.pending 0).scopes (ctx g.pending 0).loop.isSome t + 1) ::
          compI (ctx g.pending 0) (g.instrs.length + n + (0 + 1)) σ t) ++ Instr.jump tg :: E := by
      intro tg E
      have := modAt_at (setCond tg) (g.instrs ++ List.replicate n Instr.other ++ Instr.jumpIfFalse
            (g.instrs.length + n + (0 + 1) + size (ctx g.pending 0).scopes (ctx g.pending 0).loop.isSome t + 1) ::
          compI (ctx g.pending 0) (g.instrs.length + n + (0 + 1)) σ t) (Instr.jump 0) E
          (g.instrs.length + n + (0 + 1) + size (ctx g.pending 0).scopes (ctx g.pending 0).loop.isSome t)
          (by simp [compI_length]; omega)
      simpa [setCond, List.append_assoc] using this
    rw [h2]
    simp [compI, comp, breakIdx, BalGen.others, List.append_assoc, Nat.add_assoc]
    have harith : ∀ x, g.instrs.length + (n + (x + 2)) = g.instrs.length + (n + (1 + (x + 1))) := by
      intro x; omega
    exact ⟨⟨by omega, by rw [harith]⟩, by rw [harith]⟩
  | forS v r npre nt body ih =>
    intro g σ
    simp only [gen]
    rw [ih _ (pushL (g.instrs.length + npre) v r σ)]
    simp only [Spec, startForLoop, Gen.addAll, Gen.add, Gen.push, Gen.next, addBreaks, ctx_loop, endForLoop,
      List.length_append, compI_length, others, List.length_replicate, List.length_cons, List.length_nil,
      List.nil_append, foldl_modify, List.foldl_append, List.foldl_cons, List.foldl_nil, Bool.false_eq_true, if_false,
      Option.isSome_some]
    have hpb := patch_breaks body (g.instrs.length + npre + (0 + 1)) [] (g.instrs.length + npre + (0 + 1) + (0 + 1) + nt)
      (pushL (g.instrs.length + npre) v r σ)
      (g.instrs.length + npre + (0 + 1) + (0 + 1) + nt + size [] true body + (0 + 1))
      (g.instrs ++ List.replicate npre Instr.other ++ [Instr.pushLoop v r] ++ [Instr.iterate 0] ++
        List.replicate nt Instr.other)
      ([Instr.jump (g.instrs.length + npre + (0 + 1))] ++ [Instr.popLoopFrame]) (by simp; omega)
    simp only [patchAll, List.append_assoc] at hpb
    simp only [List.append_assoc]
    rw [hpb]
    simp only [Gen.modify]
    have hm := modAt_at (setLoop (g.instrs.length + npre + (0 + 1) + (0 + 1) + nt + size [] true body + (0 + 1)))
      (g.instrs ++ List.replicate npre Instr.other ++ [Instr.pushLoop v r]) (Instr.iterate 0)
      (List.replicate nt Instr.other ++
        (compI ⟨some (g.instrs.length + npre + (0 + 1),
            g.instrs.length + npre + (0 + 1) + (0 + 1) + nt + size [] true body + (0 + 1)), []⟩
          (g.instrs.length + npre + (0 + 1) + (0 + 1) + nt) (pushL (g.instrs.length + npre) v r σ) body ++
        ([Instr.jump (g.instrs.length + npre + (0 + 1))] ++ [Instr.popLoopFrame])))
      (g.instrs.length + npre + (0 + 1)) (by simp; omega)
    simp only [List.append_assoc, List.cons_append, List.nil_append, List.singleton_append] at hm ⊢
    rw [hm]
    simp [compI, comp, breakIdx, BalGen.others, addBreaks_nil, setLoop, List.append_assoc, Nat.add_assoc]
  | forElse v r npre nt body e ih ihe =>
    intro g σ
    simp only [gen]
    rw [ih _ (pushL (g.instrs.length + npre) v r σ)]
    simp only [Spec, startForLoop, Gen.addAll, Gen.add, Gen.push, Gen.next, addBreaks, ctx_loop, endForLoop,
      List.length_append, compI_length, others, List.length_replicate, List.length_cons, List.length_nil,
      List.nil_append, foldl_modify, List.foldl_append, List.foldl_cons, List.foldl_nil, if_true,
      Option.isSome_some]
    have hpb := patch_breaks body (g.instrs.length + npre + (0 + 1)) [] (g.instrs.length + npre + (0 + 1) + (0 + 1) + nt)
      (pushL (g.instrs.length + npre) v r σ)
      (g.instrs.length + npre + (0 + 1) + (0 + 1) + nt + size [] true body + (0 + 1))
      (g.instrs ++ List.replicate npre Instr.other ++ [Instr.pushLoop v r] ++ [Instr.iterate 0] ++
        List.replicate nt Instr.other)
      ([Instr.jump (g.instrs.length + npre + (0 + 1))] ++ [Instr.pushDidNotIterate] ++ [Instr.popLoopFrame])
      (by simp; omega)
    simp only [patchAll, List.append_assoc] at hpb
    simp only [List.append_assoc]
    rw [hpb]
    simp only [Gen.modify]
    have hm := modAt_at (setLoop (g.instrs.length + npre + (0 + 1) + (0 + 1) + nt + size [] true body + (0 + 1)))
      (g.instrs ++ List.replicate npre Instr.other ++ [Instr.pushLoop v r]) (Instr.iterate 0)
      (List.replicate nt Instr.other ++
        (compI ⟨some (g.instrs.length + npre + (0 + 1),
            g.instrs.length + npre + (0 + 1) + (0 + 1) + nt + size [] true body + (0 + 1)), []⟩
          (g.instrs.length + npre + (0 + 1) + (0 + 1) + nt) (pushL (g.instrs.length + npre) v r σ) body ++
        ([Instr.jump (g.instrs.length + npre + (0 + 1))] ++ ([Instr.pushDidNotIterate] ++ [Instr.popLoopFrame]))))
      (g.instrs.length + npre + (0 + 1)) (by simp; omega)
    simp only [List.append_assoc, List.cons_append, List.nil_append, List.singleton_append] at hm ⊢
    rw [hm, if_tail e σ ihe]
    clear hpb hm
    simp [compI, comp, breakIdx, BalGen.others, setLoop, List.append_assoc, Nat.add_assoc, ctx_isSome,
      compI_length, comp_length]
    have harith : g.instrs.length + (npre + (nt + (size [] true body + 6)))
        = g.instrs.length + (npre + (2 + (nt + (size [] true body + 4)))) := by omega
    exact ⟨⟨by omega, by rw [harith]⟩, by rw [harith]⟩
  | macroS nargs body nenc nafter ih =>
    intro g σ
    simp only [gen]
    rw [ih _ AbsState.init]
    simp only [Spec, Gen.addAll, Gen.add, Gen.next, Gen.modify, List.length_append, compI_length, others,
      List.length_replicate, List.length_cons, List.length_nil]
    have hm := modAt_at (setJump (g.instrs.length + (0 + 1) + nargs +
        size (ctx g.pending 0).scopes (ctx g.pending 0).loop.isSome body + (0 + 1)))
      g.instrs (Instr.jump 0)
      (List.replicate nargs Instr.other ++ (compI (ctx g.pending 0) (g.instrs.length + (0 + 1) + nargs) AbsState.init body ++
        ([Instr.ret] ++ (List.replicate nenc Instr.other ++ [Instr.buildMacro (g.instrs.length + 1)]))))
      g.instrs.length rfl
    simp only [List.append_assoc, List.cons_append, List.nil_append, List.singleton_append] at hm ⊢
    rw [hm]
    simp [compI, comp, breakIdx, BalGen.others, setJump, List.append_assoc, Nat.add_assoc, ctx_isSome,
      Nat.add_comm 1 nargs]

/-- `backpatching_generator_eq_comp`: for every statement the generator that appends instructions and
writes jump targets into them afterwards (`pending_block`) produces exactly the instruction list of
`BalGen.compileTemplate`, and its `pending_block` stack is empty again -/
theorem genTemplate_eq (s : Stmt) :
    genTemplate s = (compileTemplate s).map (·.1) ∧ (gen s ⟨[], []⟩).pending = [] := by
  rw [genTemplate, gen_spec s ⟨[], []⟩ AbsState.init]
  exact ⟨by simp [Spec, compI, compileTemplate, ctx, loopOf, scopesOf], by simp [Spec, addBreaks]⟩

end MJ.BalPatch
