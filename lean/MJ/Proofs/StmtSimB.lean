import MJ.Proofs.StmtRelB
/-!
# Statements compile correctly (C03 stage 3)

Simulation between the reference semantics (`exec`, scopes as heap cells) and the model VM (frames)
for the statements of `simpleStmt`: text, emit, `set`, set/filter blocks, `if`, `with`, `for`,
`break`, `continue`.  The relation `Rel`
pairs the visible cells with the frames (`FramesRel`: same answer for every variable, including
`loop`), the output with the innermost capture buffer.  By induction on the fuel of the reference
execution, for statements, blocks, `with` bindings and loop iterations together (`sim_stmt_all`);
`vm_refines_eval_partial` is the resulting theorem about whole templates.
-/
namespace MJ.Vm
open MJ.Eval MJ.Compile MJ.C03

/-- what one frame answers for a variable -/
def frameLookup (f : Frame) (x : String) : Option Val :=
  match assocGet x f.locals with
  | some v => some v
  | none =>
    match f.loop with
    | some l => if l.withLoopVar && x == "loop" then some (loopVal l.info) else none
    | none => none

theorem lookupFrames_cons (ctx : Scope) (x : String) (f : Frame) (rest : List Frame) :
    lookupFrames ctx x (f :: rest) = match frameLookup f x with
      | some v => v
      | none => lookupFrames ctx x rest := by
  simp only [lookupFrames, frameLookup]
  cases assocGet x f.locals with
  | some v => rfl
  | none =>
    cases f.loop with
    | none => rfl
    | some l => by_cases h : (l.withLoopVar && x == "loop") = true <;> simp [h]

/-- frame `i` of the VM and scope cell `stack[i]` of the reference semantics answer alike -/
def FramesRel (heap : Heap) : List Nat → List Frame → Prop
  | [], [] => True
  | id :: ids, f :: fs => (∃ cell, heap[id]? = some cell ∧ ∀ x, assocGet x cell = frameLookup f x) ∧ FramesRel heap ids fs
  | _, _ => False

theorem FramesRel.envRel {ctx heap} : ∀ {stack frames}, FramesRel heap stack frames → EnvRel ctx heap stack frames := by
  intro stack
  induction stack with
  | nil =>
    intro frames h x
    cases frames with
    | nil => simp [lookupFrames, lookup, lookupIn]
    | cons f fs => simp [FramesRel] at h
  | cons id ids ih =>
    intro frames h x
    cases frames with
    | nil => simp [FramesRel] at h
    | cons f fs =>
      obtain ⟨⟨cell, hc, hag⟩, hrest⟩ := h
      have := ih hrest x
      rw [lookupFrames_cons]
      simp only [lookup, lookupIn, hc, Option.bind_some, hag x] at this ⊢
      cases frameLookup f x with
      | some v => rfl
      | none => simpa [lookup] using this

theorem FramesRel.congr {heap heap' : Heap} : ∀ {ids fs}, (∀ id ∈ ids, heap'[id]? = heap[id]?) →
    FramesRel heap ids fs → FramesRel heap' ids fs := by
  intro ids
  induction ids with
  | nil => intro fs _ h; cases fs <;> simpa [FramesRel] using h
  | cons id rest ih =>
    intro fs hh h
    cases fs with
    | nil => simp [FramesRel] at h
    | cons f fs' =>
      obtain ⟨⟨cell, hc, hag⟩, hrest⟩ := h
      exact ⟨⟨cell, by rw [hh id (by simp)]; exact hc, hag⟩, ih (fun i hi => hh i (by simp [hi])) hrest⟩

/-- the relation between a state of the reference semantics (in scope `stack`) and a VM state -/
structure Rel (σ : State) (stack : List Nat) (s : VmState) : Prop where
  frames : FramesRel σ.heap stack s.frames
  out : ∃ rest, s.outs = σ.out :: rest
  bound : ∀ id ∈ stack, id < σ.heap.length
  nodup : stack.Nodup
  nonempty : ∃ cell rs, stack = cell :: rs

theorem Rel.env {ctx σ stack s} (h : Rel σ stack s) : EnvRel ctx σ.heap stack s.frames := h.frames.envRel


theorem relBinds_oof_mono : ∀ (binds : List (Target × Expr)) (b : Nat) (a : Aux), a.oof = true →
    (relBinds binds b a).2.oof = true
  | [], b, a, h => by simp [relBinds, h]
  | (t, e) :: rest, b, a, h => by
    simp only [relBinds]; exact relBinds_oof_mono rest _ _ (relExpr_oof_mono e b a h)

theorem relFilters_oof_mono : ∀ (fs : List FilterApp) (b : Nat) (a : Aux), a.oof = true →
    (relFilters fs b a).2.oof = true
  | [], b, a, h => by simp [relFilters, h]
  | (name, args) :: rest, b, a, h => by
    simp only [relFilters]
    exact relFilters_oof_mono rest _ _ (by simp [relArgs_oof_mono args b a h])

theorem relForIter_oof_mono (t : Target) (iter : Expr) (flt : Option Expr) (b : Nat) (a : Aux)
    (h : a.oof = true) : (relForIter t iter flt b a).2.oof = true := by
  cases flt with
  | none => exact relExpr_oof_mono iter b a h
  | some c => simp only [relForIter]; exact relExpr_oof_mono c _ _ (relExpr_oof_mono iter _ a h)

mutual
theorem relStmt_oof_mono : ∀ (st : Stmt) (b : Nat) (a : Aux) (lc : Option LoopCtx), a.oof = true →
    (relStmt st b a lc).1.2.oof = true
  | .text t, b, a, lc, h => by simp [relStmt, h]
  | .emit e, b, a, lc, h => by simp [relStmt, relExpr_oof_mono e b a h]
  | .set t e, b, a, lc, h => by simp [relStmt, relExpr_oof_mono e b a h]
  | .ifS c t [], b, a, lc, h => by
    simp only [relStmt]; exact relBlock_oof_mono t _ _ _ (relExpr_oof_mono c b a h)
  | .ifS c t (f :: fs), b, a, lc, h => by
    simp only [relStmt]
    exact relBlock_oof_mono (f :: fs) _ _ _ (relBlock_oof_mono t _ _ _ (relExpr_oof_mono c b a h))
  | .withS binds body, b, a, lc, h => by
    simp only [relStmt]; exact relBlock_oof_mono body _ _ _ (relBinds_oof_mono binds _ a h)
  | .forS t iter flt body [], b, a, lc, h => by
    simp only [relStmt]; exact relBlock_oof_mono body _ _ _ (relForIter_oof_mono t iter flt b a h)
  | .forS t iter flt body (e0 :: es), b, a, lc, h => by
    simp only [relStmt]
    exact relBlock_oof_mono (e0 :: es) _ _ _ (relBlock_oof_mono body _ _ _ (relForIter_oof_mono t iter flt b a h))
  | .setBlock x fs body, b, a, lc, h => by
    simp only [relStmt]; exact relFilters_oof_mono fs _ _ (relBlock_oof_mono body _ a _ h)
  | .filterBlock fs body, b, a, lc, h => by
    simp only [relStmt]; exact relFilters_oof_mono fs _ _ (relBlock_oof_mono body _ a _ h)
  | .macroS .., b, a, lc, h => by simp [relStmt]
  | .callBlock .., b, a, lc, h => by simp [relStmt]
  | .breakS, b, a, none, h => by simp [relStmt]
  | .breakS, b, a, some l, h => by simp [relStmt, h]
  | .continueS, b, a, none, h => by simp [relStmt]
  | .continueS, b, a, some l, h => by simp [relStmt, h]
theorem relBlock_oof_mono : ∀ (ss : List Stmt) (b : Nat) (a : Aux) (lc : Option LoopCtx), a.oof = true →
    (relBlock ss b a lc).1.2.oof = true
  | [], b, a, lc, h => by simp [relBlock, h]
  | s :: rest, b, a, lc, h => by
    simp only [relBlock]; exact relBlock_oof_mono rest _ _ _ (relStmt_oof_mono s b a lc h)
end

theorem oof_false_of_relBlock {ss b a lc} (h : (relBlock ss b a lc).1.2.oof = false) : a.oof = false := by
  cases ha : a.oof with
  | false => rfl
  | true => rw [relBlock_oof_mono ss b a lc ha] at h; cases h


theorem oof_false_of_relBinds {bs b a} (h : (relBinds bs b a).2.oof = false) : a.oof = false := by
  cases ha : a.oof with
  | false => rfl
  | true => rw [relBinds_oof_mono bs b a ha] at h; cases h

theorem oof_false_of_relFilters {fs b a} (h : (relFilters fs b a).2.oof = false) : a.oof = false := by
  cases ha : a.oof with
  | false => rfl
  | true => rw [relFilters_oof_mono fs b a ha] at h; cases h

theorem Rel.store {σ : State} {cell : Nat} {rs : List Nat} {s : VmState} (h : Rel σ (cell :: rs) s)
    (x : String) (v : Val) (s' : VmState) (hf : s'.frames = storeLocal x v s.frames) (ho : s'.outs = s.outs) :
    Rel { σ with heap := heapSet σ.heap cell x v } (cell :: rs) s' := by
  have hcell : cell < σ.heap.length := h.bound cell (by simp)
  cases hfr : s.frames with
  | nil => have := h.frames; rw [hfr] at this; simp [FramesRel] at this
  | cons f fs =>
    have hF := h.frames
    rw [hfr] at hF
    obtain ⟨⟨c, hc, hag⟩, hrest⟩ := hF
    refine ⟨?_, by rw [ho]; exact h.out, ?_, h.nodup, h.nonempty⟩
    · rw [hf, hfr]
      simp only [storeLocal]
      refine ⟨⟨assocSet x v c, ?_, ?_⟩, ?_⟩
      · have := heapSet_getElem?_same σ.heap cell x v hcell
        rw [List.getElem?_eq_getElem hcell] at hc
        simp at hc; subst hc; exact this
      · intro y
        by_cases hy : y = x
        · subst hy; simp [frameLookup, assocGet_assocSet_same]
        · have := hag y
          simp only [frameLookup, assocGet_assocSet_other x y v _ hy] at this ⊢
          exact this
      · refine FramesRel.congr (fun id hid => heapSet_getElem?_ne _ _ _ _ _ ?_) hrest
        intro e; subst e
        have := h.nodup; simp at this; exact this.1 hid
    · intro id hid; simpa [heapSet_length] using h.bound id hid

/-- pushing a fresh cell / frame -/
theorem Rel.push {σ : State} {stack : List Nat} {s : VmState} (h : Rel σ stack s) (cellv : Scope) (f : Frame)
    (hag : ∀ x, assocGet x cellv = frameLookup f x) (s' : VmState) (hf : s'.frames = f :: s.frames)
    (ho : s'.outs = s.outs) :
    Rel { σ with heap := σ.heap ++ [cellv] } (σ.heap.length :: stack) s' := by
  refine ⟨?_, by rw [ho]; exact h.out, ?_, ?_, ⟨_, _, rfl⟩⟩
  · rw [hf]
    refine ⟨⟨cellv, by simp, hag⟩, FramesRel.congr (fun id hid => ?_) h.frames⟩
    simp [List.getElem?_append_left (h.bound id hid)]
  · intro id hid
    simp at hid ⊢
    rcases hid with rfl | hid
    · omega
    · have := h.bound id hid; omega
  · simp only [List.nodup_cons]
    refine ⟨fun hmem => ?_, h.nodup⟩
    have := h.bound _ hmem; omega



theorem heapSetAll_append (h : Heap) (c : Nat) (b1 b2 : List (String × Val)) :
    heapSetAll h c (b1 ++ b2) = heapSetAll (heapSetAll h c b1) c b2 := by
  induction b1 generalizing h with
  | nil => rfl
  | cons p rest ih => obtain ⟨x, v⟩ := p; simp [heapSetAll, ih]

theorem bindTargets_length : ∀ (ts : List Target) (vs : List Val) (bs), bindTargets ts vs = .ok bs →
    vs.length = ts.length
  | [], [], _, _ => rfl
  | [], _ :: _, _, h => by simp [bindTargets] at h
  | _ :: _, [], _, h => by simp [bindTargets] at h
  | t :: ts, v :: vs, bs, h => by
    simp only [bindTargets] at h
    split at h
    · split at h
      · rename_i bs' hbs; simp [bindTargets_length ts vs bs' hbs]
      · simp at h
    · simp at h

/-- change only pc / operand stack of the VM state -/
theorem Rel.same {σ stack s} (h : Rel σ stack s) (s' : VmState) (hf : s'.frames = s.frames) (ho : s'.outs = s.outs) :
    Rel σ stack s' :=
  ⟨by rw [hf]; exact h.frames, by rw [ho]; exact h.out, h.bound, h.nodup, h.nonempty⟩

/-- what executing a piece of code achieves on the VM side, relative to the reference state `σ'` -/
def Done (ctx : Scope) (C : List Instr) (stack : List Nat) (σ' : State) (s : VmState) (endPc : Nat) : Prop :=
  ∃ s', Reach ctx C s s' ∧ s'.pc = endPc ∧ s'.stack = s.stack ∧ Rel σ' stack s' ∧
    s'.outs.tail = s.outs.tail ∧ s'.frames.tail = s.frames.tail ∧
    s'.frames.head?.map (·.loop) = s.frames.head?.map (·.loop)

/-- the same, when the code consumes the top of the operand stack (`v :: st` before, `st` after) -/
def Stored (ctx : Scope) (C : List Instr) (stack : List Nat) (σ' : State) (s : VmState) (st : List Val)
    (endPc : Nat) : Prop :=
  ∃ s', Reach ctx C s s' ∧ s'.pc = endPc ∧ s'.stack = st ∧ Rel σ' stack s' ∧
    s'.outs = s.outs ∧ s'.frames.tail = s.frames.tail ∧
    s'.frames.head?.map (·.loop) = s.frames.head?.map (·.loop)

theorem storeLocal_tail (x : String) (v : Val) (fs : List Frame) : (storeLocal x v fs).tail = fs.tail := by
  cases fs <;> rfl

theorem storeLocal_headLoop (x : String) (v : Val) (fs : List Frame) :
    (storeLocal x v fs).head?.map (·.loop) = fs.head?.map (·.loop) := by
  cases fs <;> rfl

mutual
/-- `compile_assignment` against `bindTarget`: the value on top of the operand stack is stored /
unpacked into the innermost frame exactly as the reference semantics writes the innermost cell -/
theorem sim_target : ∀ (t : Target) (v : Val) (bs : List (String × Val)), bindTarget t v = .ok bs →
    ∀ (ctx : Scope) (C : List Instr) (base : Nat) (s : VmState) (st : List Val) (σ : State) (cell : Nat) (rs : List Nat),
      At C base (relTarget t) → s.pc = base → s.stack = v :: st → Rel σ (cell :: rs) s →
      Stored ctx C (cell :: rs) { σ with heap := heapSetAll σ.heap cell bs } s st (base + (relTarget t).length)
  | .var x, v, bs, hb, ctx, C, base, s, st, σ, cell, rs, hAt, hpc, hst, hrel => by
    simp [bindTarget] at hb; subst hb
    simp only [relTarget] at hAt ⊢
    refine ⟨{ s with pc := base + 1, stack := st, frames := storeLocal x v s.frames },
      Reach.one (i := .storeLocal x) (by rw [hpc]; exact hAt.head) (by simp [MJ.Vm.step, hst, hpc]),
      rfl, rfl, ?_, rfl, storeLocal_tail _ _ _, storeLocal_headLoop _ _ _⟩
    simpa [heapSetAll] using hrel.store x v { s with pc := base + 1, stack := st, frames := storeLocal x v s.frames } rfl rfl
  | .tuple ts, v, bs, hb, ctx, C, base, s, st, σ, cell, rs, hAt, hpc, hst, hrel => by
    simp only [relTarget] at hAt ⊢
    -- the items that are unpacked
    have hitems : ∃ xs, bindTargets ts xs = .ok bs ∧
        MJ.Vm.step ctx (.unpackList ts.length) s = .ok { s with pc := s.pc + 1, stack := xs ++ st } := by
      cases v
      case list xs =>
        simp only [bindTarget] at hb
        refine ⟨xs, hb, ?_⟩
        simp [MJ.Vm.step, hst, bindTargets_length ts xs bs hb]
      case map kvs =>
        simp only [bindTarget] at hb
        refine ⟨_, hb, ?_⟩
        have := bindTargets_length ts _ bs hb
        simp [MJ.Vm.step, hst] at this ⊢
        simp [this]
      all_goals simp [bindTarget] at hb
    obtain ⟨xs, hbs, hstep⟩ := hitems
    have r1 : Reach ctx C s { s with pc := s.pc + 1, stack := xs ++ st } :=
      Reach.one (i := .unpackList ts.length) (by rw [hpc]; exact hAt.head) hstep
    obtain ⟨s2, r2, hpc2, hst2, hrel2, hout2, htl2, hhd2⟩ :=
      sim_targets ts xs bs hbs ctx C (base + 1) { s with pc := s.pc + 1, stack := xs ++ st } st σ cell rs
        hAt.tail (by simp [hpc]) rfl (hrel.same _ rfl rfl)
    exact ⟨s2, r1.trans r2, by simp [hpc2, Nat.add_assoc, Nat.add_comm], hst2, hrel2, hout2, htl2, hhd2⟩
theorem sim_targets : ∀ (ts : List Target) (vs : List Val) (bs : List (String × Val)), bindTargets ts vs = .ok bs →
    ∀ (ctx : Scope) (C : List Instr) (base : Nat) (s : VmState) (st : List Val) (σ : State) (cell : Nat) (rs : List Nat),
      At C base (relTargets ts) → s.pc = base → s.stack = vs ++ st → Rel σ (cell :: rs) s →
      Stored ctx C (cell :: rs) { σ with heap := heapSetAll σ.heap cell bs } s st (base + (relTargets ts).length)
  | [], [], bs, hb, ctx, C, base, s, st, σ, cell, rs, hAt, hpc, hst, hrel => by
    simp [bindTargets] at hb; subst hb
    exact ⟨s, Reach.refl _, by simp [relTargets, hpc], by simpa using hst, by simpa [heapSetAll] using hrel, rfl, rfl, rfl⟩
  | [], _ :: _, bs, hb, _, _, _, _, _, _, _, _, _, _, _, _ => by simp [bindTargets] at hb
  | _ :: _, [], bs, hb, _, _, _, _, _, _, _, _, _, _, _, _ => by simp [bindTargets] at hb
  | t :: ts, v :: vs, bs, hb, ctx, C, base, s, st, σ, cell, rs, hAt, hpc, hst, hrel => by
    simp only [bindTargets] at hb
    split at hb
    · rename_i b1 hb1
      split at hb
      · rename_i b2 hb2
        simp at hb; subst hb
        simp only [relTargets] at hAt ⊢
        obtain ⟨s1, r1, hpc1, hst1, hrel1, hout1, htl1, hhd1⟩ :=
          sim_target t v b1 hb1 ctx C base s (vs ++ st) σ cell rs hAt.left hpc (by simpa using hst) hrel
        obtain ⟨s2, r2, hpc2, hst2, hrel2, hout2, htl2, hhd2⟩ :=
          sim_targets ts vs b2 hb2 ctx C (base + (relTarget t).length) s1 st _ cell rs hAt.right hpc1 hst1 hrel1
        refine ⟨s2, r1.trans r2, by simp [hpc2, Nat.add_assoc], hst2, ?_, hout2.trans hout1, htl2.trans htl1, hhd2.trans hhd1⟩
        simpa [heapSetAll_append] using hrel2
      · simp at hb
    · simp at hb
end



/-! ## `break` / `continue`: what a statement that leaves the loop body early achieves -/

def nWith : List ScopeKind → Nat
  | [] => 0
  | .with_ :: r => nWith r + 1
  | .capture :: r => nWith r

def nCap : List ScopeKind → Nat
  | [] => 0
  | .with_ :: r => nCap r
  | .capture :: r => nCap r + 1

/-- the VM jumped to `tgt` after leaving the scopes `sc` (opened inside the loop body): their
frames and capture buffers are gone, the operand stack is as before -/
def Unw (ctx : Scope) (C : List Instr) (σ' : State) (s : VmState) (tgt : Nat) (sc : List ScopeKind) : Prop :=
  ∃ s', Reach ctx C s s' ∧ s'.pc = tgt ∧ s'.stack = s.stack ∧
    s'.frames.tail = (s.frames.drop (nWith sc)).tail ∧
    s'.frames.head?.map (·.loop) = (s.frames.drop (nWith sc)).head?.map (·.loop) ∧
    s'.outs = (σ'.out :: s.outs.tail).drop (nCap sc)

def jumpTarget : Flow → LoopCtx → Nat
  | .brk, l => l.exit
  | _, l => l.iter

/-- the postcondition of a statement: it ends normally behind its code (`Done`), or it jumps to the
`Iterate` / behind the innermost loop -/
def Post (ctx : Scope) (C : List Instr) (stack : List Nat) (σ' : State) (fl : Flow) (s : VmState) (endPc : Nat)
    (lc : Option LoopCtx) : Prop :=
  if fl = .normal then Done ctx C stack σ' s endPc
  else ∃ l, lc = some l ∧ Unw ctx C σ' s (jumpTarget fl l) l.scopes

theorem drop_frames_eq {fs1 fs : List Frame} (ht : fs1.tail = fs.tail)
    (hh : fs1.head?.map (·.loop) = fs.head?.map (·.loop)) (k : Nat) :
    (fs1.drop k).tail = (fs.drop k).tail ∧ (fs1.drop k).head?.map (·.loop) = (fs.drop k).head?.map (·.loop) := by
  cases k with
  | zero => exact ⟨ht, hh⟩
  | succ k =>
    have e1 : fs1.drop (k + 1) = fs1.tail.drop k := by cases fs1 <;> simp
    have e2 : fs.drop (k + 1) = fs.tail.drop k := by cases fs <;> simp
    rw [e1, e2, ht]; exact ⟨rfl, rfl⟩

/-- prefix a run that keeps operand stack, frame structure and the outer capture buffers -/
theorem Unw.prefix {ctx C σ' s s1 tgt sc} (r : Reach ctx C s s1) (hst : s1.stack = s.stack)
    (ht : s1.frames.tail = s.frames.tail) (hh : s1.frames.head?.map (·.loop) = s.frames.head?.map (·.loop))
    (ho : s1.outs.tail = s.outs.tail) (h : Unw ctx C σ' s1 tgt sc) : Unw ctx C σ' s tgt sc := by
  obtain ⟨s', r', hpc, hst', htl, hhd, hout⟩ := h
  have := drop_frames_eq ht hh (nWith sc)
  exact ⟨s', r.trans r', hpc, hst'.trans hst, htl.trans this.1, hhd.trans this.2, by rw [hout, ho]⟩

def SimStmt (n : Nat) : Prop :=
  ∀ st ctx stack σ σ' fl, exec n ctx stack σ st = .ok (σ', fl) →
    ∀ lc, simpleStmt lc.isSome st = true →
    ∀ C base a s, At C base (relStmt st base a lc).1.1 → (relStmt st base a lc).1.2.oof = false → s.pc = base →
      Rel σ stack s → (∀ l, lc = some l → nCap l.scopes < s.outs.length) →
      Post ctx C stack σ' fl s (base + (relStmt st base a lc).1.1.length) lc

def SimBlock (n : Nat) : Prop :=
  ∀ ss ctx stack σ σ' fl, execBlock n ctx stack σ ss = .ok (σ', fl) →
    ∀ lc, simpleBlock lc.isSome ss = true →
    ∀ C base a s, At C base (relBlock ss base a lc).1.1 → (relBlock ss base a lc).1.2.oof = false → s.pc = base →
      Rel σ stack s → (∀ l, lc = some l → nCap l.scopes < s.outs.length) →
      Post ctx C stack σ' fl s (base + (relBlock ss base a lc).1.1.length) lc

def SimBinds (n : Nat) : Prop :=
  ∀ binds ctx stack heap heap' out, bindWith n ctx heap stack binds = .ok heap' → simpleBinds binds = true →
    ∀ C base a s, At C base (relBinds binds base a).1 → (relBinds binds base a).2.oof = false → s.pc = base →
      Rel { heap := heap, out := out } stack s →
      Done ctx C stack { heap := heap', out := out } s (base + (relBinds binds base a).1.length)

theorem Done.refl {ctx C stack σ s} (h : Rel σ stack s) : Done ctx C stack σ s s.pc :=
  ⟨s, Reach.refl _, rfl, rfl, h, rfl, rfl, rfl⟩

/-- evaluate `e`, then assign to the target: `set t = e` and one `with` binding -/
theorem sim_assign {n ctx cell rs σ e v t bs} (hv : evalExpr n ctx σ.heap (cell :: rs) e = .ok v)
    (hb : bindTarget t v = .ok bs) (hse : simpleExpr e = true) {C base a s}
    (hAt : At C base ((relExpr e base a).1 ++ relTarget t)) (hoof : (relExpr e base a).2.oof = false)
    (hpc : s.pc = base) (hrel : Rel σ (cell :: rs) s) :
    Done ctx C (cell :: rs) { σ with heap := heapSetAll σ.heap cell bs } s
      (base + (relExpr e base a).1.length + (relTarget t).length) := by
  have r1 := relExpr_correct hv hse hAt.left hoof hpc hrel.env
  obtain ⟨s2, r2, hpc2, hst2, hrel2, hout2, htl2, hhd2⟩ :=
    sim_target t v bs hb ctx C (base + (relExpr e base a).1.length)
      { s with pc := base + (relExpr e base a).1.length, stack := v :: s.stack } s.stack σ cell rs
      hAt.right rfl rfl (hrel.same _ rfl rfl)
  exact ⟨s2, r1.trans r2, hpc2, hst2, hrel2, by rw [hout2], htl2, hhd2⟩

theorem sim_binds_step {n} (ihW : SimBinds n) : SimBinds (n + 1) := by
  intro binds ctx stack heap heap' out hev hs C base a s hAt hoof hpc hrel
  cases binds with
  | nil =>
    simp [bindWith] at hev; subst hev
    simp only [relBinds, List.length_nil, Nat.add_zero]
    rw [← hpc]; exact Done.refl hrel
  | cons b rest =>
    obtain ⟨t, e⟩ := b
    have hs' : simpleExpr e = true ∧ simpleBinds rest = true := by simpa [simpleBinds] using hs
    obtain ⟨cell, rs, hstack⟩ := hrel.nonempty
    subst hstack
    simp only [bindWith, topCell] at hev
    split at hev
    · simp at hev
    · rename_i v hv
      split at hev
      · simp at hev
      · rename_i bs hbs
        simp only [relBinds] at hAt hoof ⊢
        have ho1 := oof_false_of_relBinds hoof
        obtain ⟨s1, r1, hpc1, hst1, hrel1, hout1, htl1, hhd1⟩ :=
          sim_assign (σ := { heap := heap, out := out }) hv hbs hs'.1 hAt.left ho1 hpc hrel
        obtain ⟨s2, r2, hpc2, hst2, hrel2, hout2, htl2, hhd2⟩ :=
          ihW rest ctx (cell :: rs) _ heap' out hev hs'.2 C
            (base + (relExpr e base a).1.length + (relTarget t).length) (relExpr e base a).2 s1
            (At.cast hAt.right (by simp [Nat.add_assoc])) hoof hpc1 hrel1
        exact ⟨s2, r1.trans r2,
          by rw [hpc2]; simp only [List.length_append]; omega, hst2.trans hst1, hrel2,
          hout2.trans hout1, htl2.trans htl1, hhd2.trans hhd1⟩

theorem outs_length_of_tail {s1 s : VmState} {σ1 σ : State} {st1 st : List Nat} (h1 : Rel σ1 st1 s1) (h : Rel σ st s)
    (ht : s1.outs.tail = s.outs.tail) : s1.outs.length = s.outs.length := by
  obtain ⟨r1, e1⟩ := h1.out
  obtain ⟨r, e⟩ := h.out
  rw [e1, e] at ht
  simp at ht
  rw [e1, e, ht]; rfl

theorem sim_block_step {n} (ihS : SimStmt n) (ihB : SimBlock n) : SimBlock (n + 1) := by
  intro ss ctx stack σ σ' fl hev lc hs C base a s hAt hoof hpc hrel hcap
  cases ss with
  | nil =>
    simp [execBlock] at hev
    obtain ⟨rfl, rfl⟩ := hev
    simp only [Post, if_true, relBlock, List.length_nil, Nat.add_zero]
    rw [← hpc]; exact Done.refl hrel
  | cons st rest =>
    have hs' : simpleStmt lc.isSome st = true ∧ simpleBlock lc.isSome rest = true := by simpa [simpleBlock] using hs
    simp only [relBlock] at hAt hoof ⊢
    have ho1 := oof_false_of_relBlock hoof
    simp only [execBlock] at hev
    split at hev
    · simp at hev
    · rename_i σ1 h1
      have p1 := ihS st ctx stack σ σ1 .normal h1 lc hs'.1 C base a s hAt.left ho1 hpc hrel hcap
      simp only [Post, if_true] at p1
      obtain ⟨s1, r1, hpc1, hst1, hrel1, hout1, htl1, hhd1⟩ := p1
      have hlen1 := outs_length_of_tail hrel1 hrel hout1
      have p2 := ihB rest ctx stack σ1 σ' fl hev lc hs'.2 C (base + (relStmt st base a lc).1.1.length)
          (relStmt st base a lc).1.2 s1 hAt.right hoof hpc1 hrel1 (by intro l hl; rw [hlen1]; exact hcap l hl)
      by_cases hfl : fl = .normal
      · subst hfl
        simp only [Post, if_true] at p2 ⊢
        obtain ⟨s2, r2, hpc2, hst2, hrel2, hout2, htl2, hhd2⟩ := p2
        exact ⟨s2, r1.trans r2, by rw [hpc2]; simp [Nat.add_assoc], hst2.trans hst1, hrel2,
          hout2.trans hout1, htl2.trans htl1, hhd2.trans hhd1⟩
      · simp only [Post, hfl, if_false] at p2 ⊢
        obtain ⟨l, hl, hu⟩ := p2
        exact ⟨l, hl, hu.prefix r1 hst1 htl1 hhd1 hout1⟩
    · rename_i σ1 fl1 hne h1
      simp at hev
      obtain ⟨rfl, rfl⟩ := hev
      have p1 := ihS st ctx stack σ σ1 fl1 h1 lc hs'.1 C base a s hAt.left ho1 hpc hrel hcap
      have hfl : ¬ fl1 = .normal := fun h => hne (by rw [h])
      simp only [Post, hfl, if_false] at p1 ⊢
      exact p1


end MJ.Vm
