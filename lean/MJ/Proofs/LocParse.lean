import MJ.Model.LocParse
namespace MJ.LocParse
open MJ MJ.Loc

theorem Inv.new (toks : List Span) : Inv (TS.new toks) :=
  ⟨Nat.zero_le _, fun _ => rfl, fun j h => (by cases h)⟩

theorem Inv.next {s : TS} (h : Inv s) : Inv s.next := by
  unfold TS.next
  cases hq : s.toks[s.pos]? with
  | none => simpa [hq] using h
  | some sp =>
    simp only
    have hlt : s.pos < s.toks.length := by
      rcases Nat.lt_or_ge s.pos s.toks.length with h' | h'
      · exact h'
      · rw [List.getElem?_eq_none h'] at hq; cases hq
    refine ⟨hlt, fun h0 => (by simp at h0), ?_⟩
    intro j hj
    simp only at hj
    have : j = s.pos := by omega
    subst this
    exact hq

theorem next_toks (s : TS) : s.next.toks = s.toks := by
  unfold TS.next; split <;> rfl

/-- consuming `k` tokens that exist: position, and `last_span` = the last of them -/
theorem nextN_spec (k : Nat) (s : TS) (hk : s.pos + k ≤ s.toks.length) :
    (nextN k s).toks = s.toks ∧ (nextN k s).pos = s.pos + k ∧
      (k ≥ 1 → s.toks[s.pos + k - 1]? = some (nextN k s).last) := by
  induction k generalizing s with
  | zero => exact ⟨rfl, rfl, fun h => (by omega)⟩
  | succ k ih =>
    have hlt : s.pos < s.toks.length := by omega
    have hq : s.toks[s.pos]? = some s.toks[s.pos] := List.getElem?_eq_getElem hlt
    have hn : s.next = ⟨s.toks, s.pos + 1, s.toks[s.pos]⟩ := by unfold TS.next; rw [hq]
    have := ih s.next (by rw [hn]; simp only; omega)
    simp only [nextN]
    rw [hn] at this ⊢
    simp only at this
    refine ⟨this.1, by rw [this.2.1]; omega, fun _ => ?_⟩
    rcases Nat.eq_zero_or_pos k with rfl | hpos
    · simp [nextN, hq]
    · have h3 := this.2.2 hpos
      rw [show s.pos + (k + 1) - 1 = s.pos + 1 + k - 1 by omega]
      exact h3

end MJ.LocParse
