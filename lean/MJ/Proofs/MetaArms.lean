import MJ.Model.MetaArms
/-! The walkers of `MJ/Model/Meta.lean` are the interpretation of their arm tables (C18). -/
namespace MJ.Meta

theorem walkList_append (st : St) (a b : List Stmt) :
    walkList st (a ++ b) = walkList (walkList st a) b := by
  induction a generalizing st with
  | nil => simp [walkList]
  | cons s ss ih => simp [walkList, ih]

/-- `body.iter().for_each(|x| track_walk(x, state))` -/
theorem each_walk (view : View) (k : Nat) (ss : List Stmt) (s : IState) :
    (ss.map Val.stmt).foldl
      (fun s v => runActs walkList view (Binds.empty.bind (.one k) v) s [.walk (.var k)]) s =
      { s with st := walkList s.st ss } := by
  induction ss generalizing s with
  | nil => simp [walkList]
  | cons x xs ih =>
    simp only [List.map_cons, List.foldl_cons, ih]
    simp [runActs, Act.run, Ref.eval, Binds.bind, Binds.set, walkList]

/-- `for (target, expr) in &assignments { visit expr; track_assign target }` -/
theorem each_pairs (view : View) (ps : List (Expr × Expr)) (s : IState) :
    (ps.map (fun p => Val.pair (.expr p.1) (.expr p.2))).foldl
      (fun s v => runActs walkList view (Binds.empty.bind (.two 1 2) v) s
        [.visit (.var 2), .assignTarget (.var 1)]) s =
      { s with st := withAssigns s.st ps } := by
  induction ps generalizing s with
  | nil => simp [withAssigns]
  | cons p ps ih =>
    obtain ⟨t, e⟩ := p
    simp only [List.map_cons, List.foldl_cons, ih]
    simp [runActs, Act.run, Ref.eval, Binds.bind, Binds.set, withAssigns]

/-- `names.iter().for_each(|(arg, alias)| track_assign(alias.as_ref().unwrap_or(arg)))` -/
theorem each_aliases (view : View) (ts : List Expr) (s : IState) :
    (ts.map (fun t => Val.pair (.expr t) (.optExpr none))).foldl
      (fun s v => runActs walkList view (Binds.empty.bind (.two 1 2) v) s
        [.assignTarget (.alt 2 1)]) s =
      { s with st := ts.foldl trackAssign s.st } := by
  induction ts generalizing s with
  | nil => simp
  | cons t ts ih =>
    simp only [List.map_cons, List.foldl_cons, ih]
    simp [runActs, Act.run, Ref.eval, Binds.bind, Binds.set]

/-- every statement is walked by the operations of its arm, in that order -/
theorem walk_interprets_arm (st : St) (s : Stmt) :
    walk st s = runOps walkList s.view (stmtOps s) st := by
  cases s <;>
    simp [walk, runOps, stmtOps, Stmt.view, Op.run, Act.run, Ref.eval, Val.elems, each_walk,
      each_pairs, each_aliases, walkBody, armEmitExpr, armForLoop, armIfCond, armWithBlock, armSet,
      armAutoEscape, armFilterBlock, armSetBlock, armBlock, armName, armImport, armFromImport,
      armMacro, armCallBlock, armDo, MJ.Meta.visitMacro, visitExpr, MJ.Meta.visitOpt]

/-- `Stmt::Template`: the children in order -/
theorem walkList_interprets_template (st : St) (t : List Stmt) :
    walkList st t =
      runOps walkList (fun f => if f = "children" then .stmts t else .unit) armTemplate st := by
  simp [runOps, armTemplate, walkBody, Op.run, Ref.eval, Val.elems, each_walk]

/-- the row of the table a statement is walked by -/
theorem stmtOps_row (s : Stmt) : ∃ cfg, (s.variant, cfg, Arm.ops (stmtOps s)) ∈ modelWalkArms := by
  cases s <;> simp [Stmt.variant, stmtOps, modelWalkArms]

/-! ### expressions -/

theorem nvarsList_eq (es : List Expr) : nvarsList es = es.flatMap nvars := by
  induction es with
  | nil => simp [nvarsList]
  | cons e es ih => simp [nvarsList, ih]

theorem nvarsArgs_eq (as : List CallArg) : nvarsArgs as = as.flatMap nvarsArg := by
  induction as with
  | nil => simp [nvarsArgs]
  | cons a as ih => simp [nvarsArgs, ih]

theorem zip_evens_odds (view : View) (kvs : List Expr) :
    (zipVals ((evens kvs).map Val.expr) ((odds kvs).map Val.expr)).flatMap
      (fun v => actsLeaves view (Binds.empty.bind (.two 1 2) v)
        [.visit (.var 1), .visit (.var 2)]) = kvs.flatMap nvars := by
  induction kvs using evens.induct with
  | case1 => simp [evens, odds, zipVals]
  | case2 k =>
    simp [evens, odds, zipVals, actsLeaves, Act.leaves, Ref.eval, Binds.bind, Binds.set, nvars]
  | case3 k v rest ih =>
    simp only [evens, odds, List.map_cons, zipVals, List.flatMap_cons, ih]
    simp [actsLeaves, Act.leaves, Ref.eval, Binds.bind, Binds.set]

/-- every expression whose arm is a plain list of operations is visited by those operations:
the leaves in that order -/
theorem nvars_interprets_arm (e : Expr) (os : List Op) (h : exprOps e = some os) :
    nvars e = opsLeaves e.view os := by
  cases e with
  | map kvs =>
    simp only [exprOps, Option.some.injEq] at h
    subst h
    have hk : (Ref.field "keys").eval (Expr.view (.map kvs)) Binds.empty = .exprs (evens kvs) := by
      simp [Ref.eval, Expr.view]
    have hv : (Ref.field "values").eval (Expr.view (.map kvs)) Binds.empty = .exprs (odds kvs) := by
      simp [Ref.eval, Expr.view]
    rw [nvars, nvarsList_eq]
    simp only [opsLeaves, eArmMap, List.flatMap_cons, List.flatMap_nil, List.append_nil, Op.leaves,
      hk, hv, Val.elems]
    exact (zip_evens_odds _ kvs).symm
  | _ =>
    simp only [exprOps, Option.some.injEq, reduceCtorEq] at h <;> subst h <;>
    simp [nvars, opsLeaves, Op.leaves, Act.leaves, actsLeaves, Ref.eval, Val.elems,
      Expr.view, Val.getField, Binds.bind, Binds.set, nvarsList_eq, nvarsArgs_eq, nvarsCall,
      eArmUnary, eArmBinOp, eArmCompare, eArmIfExpr, eArmFilter, eArmTest, eArmGetItem, eArmSlice,
      eArmCall, eArmItems, visitEach, visitArgs, List.flatMap_map]

/-- the two arms with real logic, as the model has them: a variable is one leaf; an attribute
chain that ends in a variable is one leaf (the dotted name), any other attribute look-up visits
the inner expression -/
theorem nvars_logic_arms :
    (∀ id, nvars (.var id) = [(id, [])]) ∧
    (∀ e name, nvars (.getattr e name) =
      match chainOf (.getattr e name) with
      | some l => [l]
      | none => opsLeaves (Expr.view (.getattr e name)) [.act (.visit (.field "expr"))]) := by
  refine ⟨fun id => by simp [nvars], fun e name => ?_⟩
  rw [nvars]
  cases h : chainOf (.getattr e name) <;>
    simp [opsLeaves, Op.leaves, Act.leaves, Ref.eval, Expr.view]

theorem exprOps_row (e : Expr) :
    (∃ os, exprOps e = some os ∧ (e.variant, "", Arm.ops os) ∈ modelExprArms) ∨
    (exprOps e = none ∧ ∃ sk, (e.variant, "", Arm.logic sk) ∈ modelExprArms) := by
  cases e <;> simp [Expr.variant, exprOps, modelExprArms]

/-! ### assignment targets -/

theorem targetAtomsL_eq (es : List Expr) : targetAtomsL es = es.flatMap targetAtoms := by
  induction es with
  | nil => simp [targetAtomsL]
  | cons e es ih => simp [targetAtomsL, ih]

theorem targetAtoms_interprets_arm (e : Expr) :
    targetAtoms e = opsAtoms e.view (targetOps e) := by
  cases e <;>
    simp [targetAtoms, targetOps, opsAtoms, Op.atoms, Act.atoms, Ref.eval, Val.elems, Expr.view,
      tArmVar, tArmItems, tArmGetAttr, targetAtomsL_eq, Binds.bind, Binds.set, List.flatMap_map]

end MJ.Meta
