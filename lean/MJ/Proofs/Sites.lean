import MJ.Model.Sites
import MJ.Model.Loc
/-!
# No-panic lemmas for the site kernels (C01)
-/
namespace MJ.Sites
open MJ Chk

theorem smallStrRoundTrip_ok (cap len : Nat) (hcap : cap < 256) :
    smallStrRoundTrip cap len = .ok (if len ≤ cap then some len else none) := by
  unfold smallStrRoundTrip smallStrTryNew
  by_cases h : len ≤ cap
  · have h8 : len % 256 = len := Nat.mod_eq_of_lt (by omega)
    simp [h, sliceTo, smallStrAsStr, asU8, h8]
  · simp [h]

theorem smallStrFromChar_ok (cap k : Nat) (hk : k ≤ 4) (hcap : 4 ≤ cap) : smallStrFromChar cap k ≠ .panic := by
  unfold smallStrFromChar smallStrTryNew
  have h : k ≤ cap := by omega
  simp [h, sliceTo]

/-! ## `Instructions::get_line` / `get_span` (model: `MJ/Model/Loc.lean`, C13) -/

theorem index_ok {α : Type} (xs : List α) (i : Nat) (h : i < xs.length) : Chk.index xs i ≠ .panic := by
  unfold Chk.index
  simp [List.getElem?_eq_getElem h]

theorem takeWhile_length_le {α : Type} (p : α → Bool) (xs : List α) : (xs.takeWhile p).length ≤ xs.length := by
  induction xs with
  | nil => simp
  | cons x xs ih =>
    simp only [List.takeWhile_cons]
    split <;> simp <;> omega

/-- whatever the table holds (sorted or not): the result of the search is in range for the access that
follows — `Ok(i)` has `i < len`, `Err(i)` has `i ≤ len`, and `Err(0)` returns before the access -/
theorem lookupRun_no_panic {α : Type} (first : α → Nat) (tbl : List α) (idx : Nat) :
    Loc.lookupRun first tbl idx ≠ .panic := by
  unfold Loc.lookupRun Loc.binarySearch
  simp only []
  generalize hi : ((tbl.map first).takeWhile (· < idx)).length = i
  have hle : i ≤ tbl.length := by
    have := takeWhile_length_le (fun x => decide (x < idx)) (tbl.map first)
    simp at this
    omega
  by_cases hk : (tbl.map first)[i]? = some idx
  · have hlt : i < tbl.length := by
      have := (List.getElem?_eq_some_iff.mp hk).1
      simpa using this
    simp only [hk, if_true]
    have := index_ok tbl i hlt
    cases hx : Chk.index tbl i <;> simp_all
  · simp only [hk, if_false]
    cases i with
    | zero => simp
    | succ j =>
      have := index_ok tbl j (by omega)
      cases hx : Chk.index tbl j <;> simp_all

theorem getLine_no_panic (s : Loc.Instrs) (idx : Nat) : s.getLine idx ≠ .panic := by
  unfold Loc.Instrs.getLine
  have := lookupRun_no_panic Loc.LineInfo.first s.lineInfos idx
  cases h : Loc.lookupRun Loc.LineInfo.first s.lineInfos idx with
  | panic => exact absurd h this
  | ok o => cases o <;> simp

theorem getSpan_no_panic (s : Loc.Instrs) (idx : Nat) : s.getSpan idx ≠ .panic := by
  unfold Loc.Instrs.getSpan
  have := lookupRun_no_panic Loc.SpanInfo.first s.spanInfos idx
  cases h : Loc.lookupRun Loc.SpanInfo.first s.spanInfos idx with
  | panic => exact absurd h this
  | ok o => cases o <;> simp

end MJ.Sites
