import MJ.Model.Output
/-!
# Lemmas about the output state machine (C19)

1. `writeAll_spec`: what one `write_all` does to the sink;
2. `feed_spec`: what a sequence of `fmt::Write` calls does to a `WriteWrapper`;
3. `run_sim`: for *any* base writer the evaluation equals feeding it the chunks that the same
   operations hand to a recorder, up to the first `fmt::Error`;
4. `run_erase`: operations inside captures cannot be observed by the base writer.
-/
namespace MJ.Output
open MJ

/-! ## the sink log -/

@[simp] theorem delivered_nil : delivered [] = [] := rfl
@[simp] theorem delivered_cons (c : Call) (cs : List Call) :
    delivered (c :: cs) = c.accepted ++ delivered cs := by simp [delivered]
@[simp] theorem delivered_append (a b : List Call) :
    delivered (a ++ b) = delivered a ++ delivered b := by simp [delivered]

/-- no call of the list ends `write_all` -/
def Clean (cs : List Call) : Prop := ∀ c ∈ cs, c.failure = none

@[simp] theorem clean_nil : Clean [] := by simp [Clean]
theorem clean_cons {c : Call} {cs : List Call} : Clean (c :: cs) ↔ c.failure = none ∧ Clean cs := by
  simp [Clean]
theorem clean_append {a b : List Call} : Clean (a ++ b) ↔ Clean a ∧ Clean b := by
  simp only [Clean, List.mem_append]
  constructor
  · intro h; exact ⟨fun c hc => h c (Or.inl hc), fun c hc => h c (Or.inr hc)⟩
  · rintro ⟨h1, h2⟩ c (hc | hc)
    · exact h1 c hc
    · exact h2 c hc

/-- the list ends with a call that fails with `e`; no earlier call fails -/
def FailsWith (cs : List Call) (e : IoErr) : Prop :=
  ∃ pre last, cs = pre ++ [last] ∧ Clean pre ∧ last.failure = some e

theorem failsWith_cons {c : Call} {cs : List Call} {e : IoErr} (hc : c.failure = none)
    (h : FailsWith cs e) : FailsWith (c :: cs) e := by
  obtain ⟨pre, last, rfl, hp, hl⟩ := h
  exact ⟨c :: pre, last, rfl, clean_cons.2 ⟨hc, hp⟩, hl⟩

theorem failsWith_append {a cs : List Call} {e : IoErr} (ha : Clean a)
    (h : FailsWith cs e) : FailsWith (a ++ cs) e := by
  obtain ⟨pre, last, rfl, hp, hl⟩ := h
  exact ⟨a ++ pre, last, by simp, clean_append.2 ⟨ha, hp⟩, hl⟩

theorem failsWith_not_clean {cs : List Call} {e : IoErr} (h : FailsWith cs e) : ¬ Clean cs := by
  obtain ⟨pre, last, rfl, _, hl⟩ := h
  intro hc
  have := (clean_append.1 hc).2 last (by simp)
  rw [this] at hl
  cases hl

/-- in a log that ends with the only failing call, a failing call is the last one -/
theorem failsWith_last_only {cs : List Call} {e : IoErr} (h : FailsWith cs e) (i : Nat)
    (hi : i < cs.length) (hf : (cs[i]).failure ≠ none) : i + 1 = cs.length := by
  obtain ⟨pre, last, hcs, hpre, _⟩ := h
  subst hcs
  have hlen : (pre ++ [last]).length = pre.length + 1 := by simp
  by_cases hp : i < pre.length
  · exfalso
    apply hf
    have : (pre ++ [last])[i] = pre[i] := List.getElem_append_left hp
    rw [this]
    exact hpre _ (List.getElem_mem hp)
  · omega

/-- ... and its error is the error the log ends with -/
theorem failsWith_unique {cs : List Call} {e e' : IoErr} (h : FailsWith cs e) {c : Call}
    (hc : c ∈ cs) (hf : c.failure = some e') : e' = e := by
  obtain ⟨pre, last, hcs, hpre, hlast⟩ := h
  subst hcs
  rcases List.mem_append.1 hc with hp | hl
  · rw [hpre c hp] at hf; cases hf
  · simp only [List.mem_singleton] at hl
    subst hl
    rw [hlast] at hf
    cases hf
    rfl

/-! ## `write_all` -/

theorem writeAll_spec (script : List Beh) (buf : Bytes) :
    delivered (writeAll script buf).calls <+: buf ∧
    ((writeAll script buf).err = none →
      delivered (writeAll script buf).calls = buf ∧ Clean (writeAll script buf).calls) ∧
    (∀ e, (writeAll script buf).err = some e → FailsWith (writeAll script buf).calls e) := by
  induction script generalizing buf with
  | nil =>
    unfold writeAll
    by_cases hb : buf = []
    · simp [hb]
    · simp [hb, Call.accepted, Clean, Call.failure]
      cases buf with
      | nil => exact absurd rfl hb
      | cons b bs => simp
  | cons beh rest ih =>
    unfold writeAll
    by_cases hb : buf = []
    · simp [hb]
    · simp only [hb, if_false]
      cases hr : beh.apply buf with
      | ok n =>
        cases n with
        | zero =>
          simp only []
          refine ⟨by simp [Call.accepted], by simp, ?_⟩
          intro e he
          simp at he
          exact ⟨[], ⟨buf, .ok 0⟩, rfl, clean_nil, by simp [Call.failure, he]⟩
        | succ n =>
          simp only []
          have hn : n + 1 ≤ buf.length := by
            cases beh <;> simp [Beh.apply] at hr <;> omega
          obtain ⟨h1, h2, h3⟩ := ih (buf.drop (n + 1))
          have hacc : (⟨buf, .ok (n + 1)⟩ : Call).accepted = buf.take (n + 1) := rfl
          have hfail : (⟨buf, .ok (n + 1)⟩ : Call).failure = none := rfl
          refine ⟨?_, ?_, ?_⟩
          · rw [delivered_cons, hacc]
            obtain ⟨t, ht⟩ := h1
            exact ⟨t, by rw [List.append_assoc, ht, List.take_append_drop]⟩
          · intro he
            obtain ⟨hd, hc⟩ := h2 he
            exact ⟨by rw [delivered_cons, hacc, hd, List.take_append_drop], clean_cons.2 ⟨hfail, hc⟩⟩
          · intro e he
            exact failsWith_cons hfail (h3 e he)
      | err e =>
        simp only []
        by_cases hk : e.kind = .interrupted
        · simp only [hk, if_true]
          obtain ⟨h1, h2, h3⟩ := ih buf
          have hacc : (⟨buf, .err e⟩ : Call).accepted = [] := rfl
          have hfail : (⟨buf, .err e⟩ : Call).failure = none := by simp [Call.failure, hk]
          refine ⟨by simpa [hacc] using h1, ?_, ?_⟩
          · intro he
            obtain ⟨hd, hc⟩ := h2 he
            exact ⟨by simpa [hacc] using hd, clean_cons.2 ⟨hfail, hc⟩⟩
          · intro e' he
            exact failsWith_cons hfail (h3 e' he)
        · simp only [hk, if_false]
          refine ⟨by simp [Call.accepted], by simp, ?_⟩
          intro e' he
          simp at he
          subst he
          exact ⟨[], ⟨buf, .err e⟩, rfl, clean_nil, by simp [Call.failure, hk]⟩

/-- `write_all` offers only non-empty buffers and never more than what is left of `buf` -/
theorem writeAll_offers_suffix (script : List Beh) (buf : Bytes) :
    ∀ c ∈ (writeAll script buf).calls, c.offered ≠ [] ∧ c.offered <:+ buf := by
  induction script generalizing buf with
  | nil =>
    unfold writeAll
    by_cases hb : buf = []
    · simp [hb]
    · simp [hb]
  | cons beh rest ih =>
    unfold writeAll
    by_cases hb : buf = []
    · simp [hb]
    · simp only [hb, if_false]
      cases hr : beh.apply buf with
      | ok n =>
        cases n with
        | zero => simp [hb]
        | succ n =>
          simp only [List.mem_cons]
          rintro c (rfl | hc)
          · exact ⟨hb, List.suffix_refl _⟩
          · obtain ⟨h1, h2⟩ := ih _ c hc
            exact ⟨h1, h2.trans (List.drop_suffix _ _)⟩
      | err e =>
        simp only []
        by_cases hk : e.kind = .interrupted
        · simp only [hk, if_true, List.mem_cons]
          rintro c (rfl | hc)
          · exact ⟨hb, List.suffix_refl _⟩
          · exact ih _ c hc
        · simp [hk, hb]

/-! ## a sequence of `fmt::Write` calls -/

/-- feed chunks to a writer until one fails -/
def feed {B : Type} [FmtWrite B] (b : B) : List Chunk → B × Bool
  | [] => (b, true)
  | c :: cs =>
    match put b c with
    | (b', true) => feed b' cs
    | (b', false) => (b', false)

def flat (cs : List Chunk) : Bytes := (cs.map Chunk.bytes).flatten

@[simp] theorem flat_nil : flat [] = [] := rfl
@[simp] theorem flat_cons (c : Chunk) (cs : List Chunk) : flat (c :: cs) = c.bytes ++ flat cs := by
  simp [flat]
@[simp] theorem flat_append (a b : List Chunk) : flat (a ++ b) = flat a ++ flat b := by
  simp [flat]

theorem put_wrapper (w : WriteWrapper) (c : Chunk) : put w c = w.writeBytes c.bytes := by
  cases c <;> rfl

theorem writeBytes_of_none {w : WriteWrapper} (h : w.err = none) (s : Bytes) :
    w.writeBytes s = w.writeBytesOk s := by
  simp [WriteWrapper.writeBytes, h]

/-- a wrapper that holds an error is poisoned: nothing reaches the sink any more -/
theorem writeBytes_of_some {w : WriteWrapper} {e : IoErr} (h : w.err = some e) (s : Bytes) :
    w.writeBytes s = (w, false) := by
  simp [WriteWrapper.writeBytes, h]

/-- the `String` writer never fails and holds everything -/
theorem feed_string (b : Bytes) (cs : List Chunk) : feed b cs = (b ++ flat cs, true) := by
  induction cs generalizing b with
  | nil => simp [feed]
  | cons c cs ih =>
    cases c <;> simp [feed, put, FmtWrite.writeStr, FmtWrite.writeChar, ih, Chunk.bytes]

theorem feed_recorder (b : List Chunk) (cs : List Chunk) : feed b cs = (b ++ cs, true) := by
  induction cs generalizing b with
  | nil => simp [feed]
  | cons c cs ih =>
    cases c <;> simp [feed, put, FmtWrite.writeStr, FmtWrite.writeChar, ih]

theorem feed_null (cs : List Chunk) : feed () cs = ((), true) := by
  induction cs with
  | nil => rfl
  | cons c cs ih => cases c <;> simp [feed, put, FmtWrite.writeStr, FmtWrite.writeChar, ih]

/-- What feeding chunks does to a `WriteWrapper` that has not failed yet. -/
theorem feed_spec (cs : List Chunk) (w : WriteWrapper) (hw : w.err = none) :
    ∃ new, (feed w cs).1.calls = w.calls ++ new ∧ delivered new <+: flat cs ∧
      ((feed w cs).2 = true → (feed w cs).1.err = none ∧ Clean new ∧ delivered new = flat cs) ∧
      ((feed w cs).2 = false → ∃ e, (feed w cs).1.err = some e ∧ FailsWith new e) := by
  induction cs generalizing w with
  | nil => exact ⟨[], by simp [feed, hw]⟩
  | cons c cs ih =>
    obtain ⟨h1, h2, h3⟩ := writeAll_spec w.script c.bytes
    simp only [feed, put_wrapper, writeBytes_of_none hw, WriteWrapper.writeBytesOk]
    cases he : (writeAll w.script c.bytes).err with
    | none =>
      simp only []
      obtain ⟨hd, hc⟩ := h2 he
      obtain ⟨new, e1, e2, e3, e4⟩ := ih
        ({ w with script := (writeAll w.script c.bytes).rest,
                  calls := w.calls ++ (writeAll w.script c.bytes).calls }) hw
      refine ⟨(writeAll w.script c.bytes).calls ++ new, ?_, ?_, ?_, ?_⟩
      · rw [e1]; simp
      · rw [delivered_append, hd, flat_cons]
        obtain ⟨t, ht⟩ := e2
        exact ⟨t, by rw [List.append_assoc, ht]⟩
      · intro hok
        obtain ⟨a1, a2, a3⟩ := e3 hok
        exact ⟨a1, clean_append.2 ⟨hc, a2⟩, by rw [delivered_append, hd, a3, flat_cons]⟩
      · intro hok
        obtain ⟨e, a1, a2⟩ := e4 hok
        exact ⟨e, a1, failsWith_append hc a2⟩
    | some e =>
      simp only []
      refine ⟨(writeAll w.script c.bytes).calls, rfl, ?_, by simp, ?_⟩
      · rw [flat_cons]
        obtain ⟨t, ht⟩ := h1
        exact ⟨t ++ flat cs, by rw [← List.append_assoc, ht]⟩
      · intro _
        exact ⟨e, rfl, h3 e he⟩

/-! ## the evaluation against an arbitrary base writer -/

theorem Out.write_captured {B : Type} [FmtWrite B] (o : Out B) (c : Chunk) (h : o.stack ≠ []) :
    (o.write c).1.w = o.w ∧ (o.write c).2 = true ∧ (o.write c).1.stack.length = o.stack.length := by
  unfold Out.write
  match hs : o.stack with
  | [] => exact absurd hs h
  | some buf :: rest => simp
  | none :: rest => simp [hs]

theorem step_write_rec (c : Chunk) (wr : List Chunk) (wraps : List Wrap) :
    step (.write c) (⟨⟨wr, []⟩, wraps⟩ : St (List Chunk)) = (⟨⟨wr ++ [c], []⟩, wraps⟩, none) := by
  cases c <;> simp [step, Out.write, put, FmtWrite.writeStr, FmtWrite.writeChar]

/-- the recorder only ever appends -/
theorem run_recorder_appends (ops : List Op) (sr : St (List Chunk)) :
    ∃ cs, (run ops sr).1.out.w = sr.out.w ++ cs := by
  induction ops generalizing sr with
  | nil => exact ⟨[], by simp [run]⟩
  | cons op ops ih =>
    obtain ⟨⟨w, stack⟩, wraps⟩ := sr
    cases op with
    | write c =>
      cases stack with
      | nil =>
        simp only [run, step_write_rec]
        obtain ⟨cs, h⟩ := ih ⟨⟨w ++ [c], []⟩, wraps⟩
        exact ⟨c :: cs, by rw [h]; simp⟩
      | cons top rest =>
        cases top <;> simpa [run, step, Out.write] using ih _
    | beginCapture d => simpa [run, step, Out.beginCapture] using ih _
    | endCapture =>
      cases stack with
      | nil => exact ⟨[], by simp [run, step, Out.endCapture]⟩
      | cons top rest => simpa [run, step, Out.endCapture] using ih _
    | enter w => simpa [run, step] using ih _
    | leave => simpa [run, step] using ih _
    | fail id => exact ⟨[], by simp [run, step]⟩
    | panic => exact ⟨[], by simp [run, step]⟩

/-- **Simulation.**  Run the same operations against any base writer `b` and against the
    recorder, from states with the same capture stack and nesting: the base writer ends in the
    state reached by feeding it the recorded chunks up to the first `fmt::Error`; if none fails the
    results coincide, otherwise the evaluation ends with an error (not `Ok`, not a panic). -/
theorem run_sim {B : Type} [FmtWrite B] (ops : List Op) (st : St B) (sr : St (List Chunk))
    (hs : st.out.stack = sr.out.stack) (hw : st.wraps = sr.wraps) :
    ∃ cs, (run ops sr).1.out.w = sr.out.w ++ cs ∧ (run ops st).1.out.w = (feed st.out.w cs).1 ∧
      (((feed st.out.w cs).2 = true ∧ (run ops st).2 = (run ops sr).2) ∨
       ((feed st.out.w cs).2 = false ∧ ∃ e, (run ops st).2 = .ok (.error e))) := by
  induction ops generalizing st sr with
  | nil => exact ⟨[], by simp [run, feed]⟩
  | cons op ops ih =>
    obtain ⟨⟨w, stack⟩, wraps⟩ := st
    obtain ⟨⟨wr, stackr⟩, wrapsr⟩ := sr
    simp only at hs hw
    subst hs hw
    cases op with
    | write c =>
      cases stack with
      | nil =>
        cases hp : put w c with
        | mk w' ok =>
          have hrec := step_write_rec c wr wraps
          cases ok with
          | true =>
            have hst : step (.write c) (⟨⟨w, []⟩, wraps⟩ : St B) = (⟨⟨w', []⟩, wraps⟩, none) := by
              simp [step, Out.write, hp]
            obtain ⟨cs, h1, h2, h3⟩ := ih ⟨⟨w', []⟩, wraps⟩ ⟨⟨wr ++ [c], []⟩, wraps⟩ rfl rfl
            refine ⟨c :: cs, ?_, ?_, ?_⟩
            · simp only [run, hrec]; rw [h1]; simp
            · simp only [run, hst, feed, hp]; exact h2
            · simp only [run, hst, hrec, feed, hp]; exact h3
          | false =>
            have hst : step (.write c) (⟨⟨w, []⟩, wraps⟩ : St B) =
                (⟨⟨w', []⟩, wraps⟩, some (.ok (wrapAll wraps Err.fromFmt))) := by
              simp [step, Out.write, hp]
            obtain ⟨cs, h1⟩ := run_recorder_appends ops ⟨⟨wr ++ [c], []⟩, wraps⟩
            refine ⟨c :: cs, ?_, ?_, ?_⟩
            · simp only [run, hrec]; rw [h1]; simp
            · simp only [run, hst, feed, hp]
            · right; simp only [run, hst, feed, hp]; exact ⟨trivial, _, rfl⟩
      | cons top rest =>
        cases top with
        | none =>
          have h1 : ∀ (B' : Type) [FmtWrite B'] (b : B'),
              step (.write c) (⟨⟨b, none :: rest⟩, wraps⟩ : St B') = (⟨⟨b, none :: rest⟩, wraps⟩, none) := by
            intro B' _ b; simp [step, Out.write]
          simp only [run, h1]
          exact ih _ _ rfl rfl
        | some buf =>
          have h1 : ∀ (B' : Type) [FmtWrite B'] (b : B'),
              step (.write c) (⟨⟨b, some buf :: rest⟩, wraps⟩ : St B') =
                (⟨⟨b, some (buf ++ c.bytes) :: rest⟩, wraps⟩, none) := by
            intro B' _ b; simp [step, Out.write]
          simp only [run, h1]
          exact ih _ _ rfl rfl
    | beginCapture d =>
      simp only [run, step, Out.beginCapture]
      exact ih _ _ rfl rfl
    | endCapture =>
      cases stack with
      | nil => exact ⟨[], by simp [run, step, Out.endCapture, feed]⟩
      | cons top rest =>
        simp only [run, step, Out.endCapture]
        exact ih _ _ rfl rfl
    | enter x =>
      simp only [run, step]
      exact ih _ _ rfl rfl
    | leave =>
      simp only [run, step]
      exact ih _ _ rfl rfl
    | fail id => exact ⟨[], by simp [run, step, feed]⟩
    | panic => exact ⟨[], by simp [run, step, feed]⟩

/-- **Captures are invisible to the base writer.**  Deleting all captured regions changes
    neither what reaches the base writer nor the result. -/
theorem run_erase {B : Type} [FmtWrite B] (ops : List Op) (d : Nat) (st se : St B)
    (hw : st.out.w = se.out.w) (hwr : st.wraps = se.wraps) (hd : st.out.stack.length = d)
    (he : se.out.stack = []) :
    (run (erase d ops) se).1.out.w = (run ops st).1.out.w ∧
    (run (erase d ops) se).2 = (run ops st).2 := by
  induction ops generalizing d st se with
  | nil => simp [erase, run, hw]
  | cons op ops ih =>
    obtain ⟨⟨w, stack⟩, wraps⟩ := st
    obtain ⟨⟨w2, stack2⟩, wraps2⟩ := se
    simp only at hw hwr hd he
    subst hw hwr he hd
    cases op with
    | write c =>
      cases stack with
      | nil =>
        simp only [erase, List.length_nil, if_true, run, step, Out.write]
        by_cases hok : (put w c).2 = true
        · simp only [hok, if_true]
          exact ih 0 ⟨⟨(put w c).1, []⟩, wraps⟩ ⟨⟨(put w c).1, []⟩, wraps⟩ rfl rfl rfl rfl
        · simp [hok]
      | cons top rest =>
        have hne : (top :: rest).length ≠ 0 := by simp
        simp only [erase, hne, if_false]
        cases top with
        | none =>
          simp only [run, step, Out.write]
          exact ih _ ⟨⟨w, none :: rest⟩, wraps⟩ ⟨⟨w, []⟩, wraps⟩ rfl rfl rfl rfl
        | some buf =>
          simp only [run, step, Out.write]
          exact ih _ ⟨⟨w, some (buf ++ c.bytes) :: rest⟩, wraps⟩ ⟨⟨w, []⟩, wraps⟩ rfl rfl (by simp) rfl
    | beginCapture dd =>
      simp only [erase, run, step, Out.beginCapture]
      exact ih _ _ ⟨⟨w, []⟩, wraps⟩ rfl rfl (by simp) rfl
    | endCapture =>
      cases stack with
      | nil => simp [erase, run, step, Out.endCapture]
      | cons top rest =>
        have hne : (top :: rest).length ≠ 0 := by simp
        simp only [erase, hne, if_false, run, step, Out.endCapture]
        exact ih _ ⟨⟨w, rest⟩, wraps⟩ ⟨⟨w, []⟩, wraps⟩ rfl rfl (by simp) rfl
    | enter x =>
      simp only [erase, run, step]
      exact ih _ ⟨⟨w, stack⟩, x :: wraps⟩ ⟨⟨w, []⟩, x :: wraps⟩ rfl rfl rfl rfl
    | leave =>
      simp only [erase, run, step]
      exact ih _ ⟨⟨w, stack⟩, wraps.tail⟩ ⟨⟨w, []⟩, wraps.tail⟩ rfl rfl rfl rfl
    | fail id => simp [erase, run, step]
    | panic => simp [erase, run, step]

/-- the only panic of the output machinery is an `end_capture` without `begin_capture` -/
theorem run_no_panic {B : Type} [FmtWrite B] (ops : List Op) (st : St B)
    (hb : balanced st.out.stack.length ops = true) : (run ops st).2 ≠ .panic := by
  induction ops generalizing st with
  | nil => simp [run]
  | cons op ops ih =>
    obtain ⟨⟨w, stack⟩, wraps⟩ := st
    cases op with
    | write c =>
      simp only [balanced] at hb
      simp only [run, step]
      have hl : (Out.write ⟨w, stack⟩ c).1.stack.length = stack.length := by
        cases stack with
        | nil => simp [Out.write]
        | cons top rest => cases top <;> simp [Out.write]
      by_cases hok : (Out.write ⟨w, stack⟩ c).2 = true
      · simp only [hok, if_true]
        exact ih ⟨(Out.write ⟨w, stack⟩ c).1, wraps⟩ (by simpa [hl] using hb)
      · simp [hok]
    | beginCapture dd =>
      simp only [balanced] at hb
      simp only [run, step, Out.beginCapture]
      exact ih _ (by simpa using hb)
    | endCapture =>
      cases stack with
      | nil => simp [balanced] at hb
      | cons top rest =>
        simp only [List.length_cons, balanced] at hb
        simp only [run, step, Out.endCapture]
        exact ih _ (by simpa using hb)
    | enter x =>
      simp only [balanced] at hb
      simp only [run, step]
      exact ih _ (by simpa using hb)
    | leave =>
      simp only [balanced] at hb
      simp only [run, step]
      exact ih _ (by simpa using hb)
    | fail id => simp [run, step]
    | panic => simp [balanced] at hb

/-! ## the API boundaries in terms of `feed` -/

theorem takeErr_of_some {w : WriteWrapper} {io : IoErr} (h : w.err = some io) (e : Err) :
    w.takeErr e = .writeFailure (some io) := by
  simp [WriteWrapper.takeErr, h, writeFailure]

theorem takeErr_of_none {w : WriteWrapper} (h : w.err = none) (e : Err) : w.takeErr e = e := by
  simp [WriteWrapper.takeErr, h]

theorem check_of_some {w : WriteWrapper} {io : IoErr} (h : w.err = some io) :
    w.check = .error (.writeFailure (some io)) := by
  simp [WriteWrapper.check, h, writeFailure]

theorem check_of_none {w : WriteWrapper} (h : w.err = none) : w.check = .ok () := by
  simp [WriteWrapper.check, h]

/-- the boundary with a held error: whatever the evaluation returned (short of a panic), the
    call returns `WriteFailure` whose source is the held error -/
theorem finish_of_some {w : WriteWrapper} {io : IoErr} (h : w.err = some io)
    (r : Chk (Except Err Unit)) (hr : r ≠ .panic) :
    w.finish r = .ok (.error (.writeFailure (some io))) := by
  cases r with
  | panic => exact absurd rfl hr
  | ok x =>
    cases x with
    | ok u => simp [WriteWrapper.finish, check_of_some h]
    | error e => simp [WriteWrapper.finish, takeErr_of_some h]

theorem finish_of_none {w : WriteWrapper} (h : w.err = none) (r : Chk (Except Err Unit)) :
    w.finish r = r := by
  cases r with
  | panic => rfl
  | ok x =>
    cases x with
    | ok u => simp [WriteWrapper.finish, check_of_none h]
    | error e => simp [WriteWrapper.finish, takeErr_of_none h]

/-- Both renders in terms of the chunk sequence `chunksOf ops`. -/
theorem render_spec (ops : List Op) (script : List Beh) :
    (renderString ops).buf = flat (chunksOf ops) ∧
    (renderTo ops script).calls = (feed (⟨script, [], none⟩ : WriteWrapper) (chunksOf ops)).1.calls ∧
    (((feed (⟨script, [], none⟩ : WriteWrapper) (chunksOf ops)).2 = true ∧
        (feed (⟨script, [], none⟩ : WriteWrapper) (chunksOf ops)).1.err = none ∧
        (renderTo ops script).result = (renderString ops).result) ∨
     ((feed (⟨script, [], none⟩ : WriteWrapper) (chunksOf ops)).2 = false ∧
        ∃ e, (feed (⟨script, [], none⟩ : WriteWrapper) (chunksOf ops)).1.err = some e ∧
          (renderTo ops script).result = .ok (.error (.writeFailure (some e))))) := by
  obtain ⟨cs, hc, hw, hr⟩ :=
    run_sim ops (St.init (⟨script, [], none⟩ : WriteWrapper)) (St.init ([] : List Chunk)) rfl rfl
  obtain ⟨cs', hc', hw', hr'⟩ :=
    run_sim ops (St.init ([] : Bytes)) (St.init ([] : List Chunk)) rfl rfl
  have hcs : cs = chunksOf ops := by simpa [chunksOf, St.init] using hc.symm
  have hcs' : cs' = chunksOf ops := by simpa [chunksOf, St.init] using hc'.symm
  subst hcs
  rw [hcs'] at hw' hr'
  have hstr : (renderString ops).result = (run ops (St.init ([] : List Chunk))).2 := by
    rcases hr' with ⟨_, h⟩ | ⟨h, _⟩
    · exact h
    · simp [St.init, feed_string] at h
  refine ⟨?_, ?_, ?_⟩
  · simp only [renderString]; rw [hw']; simp [St.init, feed_string]
  · simp only [renderTo]; rw [hw]; rfl
  · obtain ⟨new, f1, f2, f3, f4⟩ := feed_spec (chunksOf ops) (⟨script, [], none⟩ : WriteWrapper) rfl
    rcases hr with ⟨hok, hres⟩ | ⟨hok, e0, hres⟩
    · left
      have herr := (f3 hok).1
      refine ⟨hok, herr, ?_⟩
      rw [hstr, ← hres]
      simp only [renderTo]
      have : (run ops (St.init (⟨script, [], none⟩ : WriteWrapper))).1.out.w.err = none := by
        rw [hw]; exact herr
      exact finish_of_none this _
    · right
      obtain ⟨e, herr, _⟩ := f4 hok
      refine ⟨hok, e, herr, ?_⟩
      simp only [renderTo, hres]
      have : (run ops (St.init (⟨script, [], none⟩ : WriteWrapper))).1.out.w.err = some e := by
        rw [hw]; exact herr
      exact finish_of_some this _ (by simp)

/-- the facts about a `renderTo` that all theorems below are read off from -/
theorem render_facts (ops : List Op) (script : List Beh) :
    delivered (renderTo ops script).calls <+: (renderString ops).buf ∧
    ((Clean (renderTo ops script).calls ∧ (renderTo ops script).result = (renderString ops).result ∧
        delivered (renderTo ops script).calls = (renderString ops).buf) ∨
     (∃ e, FailsWith (renderTo ops script).calls e ∧
        (renderTo ops script).result = .ok (.error (.writeFailure (some e))))) := by
  obtain ⟨hbuf, hcalls, hr⟩ := render_spec ops script
  obtain ⟨new, f1, f2, f3, f4⟩ := feed_spec (chunksOf ops) (⟨script, [], none⟩ : WriteWrapper) rfl
  simp only [List.nil_append] at f1
  rw [hbuf, hcalls, f1]
  refine ⟨f2, ?_⟩
  rcases hr with ⟨hok, _, hres⟩ | ⟨hok, e, herr, hres⟩
  · left
    obtain ⟨_, hc, hd⟩ := f3 hok
    exact ⟨hc, hres, hd⟩
  · right
    obtain ⟨e', herr', hf⟩ := f4 hok
    rw [herr] at herr'
    cases herr'
    exact ⟨e, hf, hres⟩

/-! ## benign sink behaviours: short writes and `Interrupted` are absorbed by `write_all` -/

/-- behaviours that `write_all` absorbs: full or short (non-zero) writes and `Interrupted` -/
def Beh.benign : Beh → Bool
  | .all => true
  | .accept k => k != 0
  | .half => true
  | .err e => e.kind == .interrupted

theorem writeAll_benign (script : List Beh) (buf : Bytes) (h : ∀ b ∈ script, b.benign = true) :
    (writeAll script buf).err = none ∧ ∀ b ∈ (writeAll script buf).rest, b.benign = true := by
  induction script generalizing buf with
  | nil => unfold writeAll; by_cases hb : buf = [] <;> simp [hb]
  | cons beh rest ih =>
    have hrest : ∀ b ∈ rest, b.benign = true := fun b hb => h b (List.mem_cons_of_mem _ hb)
    have hbeh : beh.benign = true := h beh (by simp)
    unfold writeAll
    by_cases hb : buf = []
    · simpa [hb] using h
    · simp only [hb, if_false]
      have hlen : 0 < buf.length := by
        cases buf with
        | nil => exact absurd rfl hb
        | cons x xs => simp
      cases hr : beh.apply buf with
      | ok n =>
        cases n with
        | zero =>
          exfalso
          cases beh with
          | all => simp only [Beh.apply, CallRes.ok.injEq] at hr; omega
          | accept k =>
            simp [Beh.benign] at hbeh
            simp only [Beh.apply, CallRes.ok.injEq] at hr; omega
          | half => simp only [Beh.apply, CallRes.ok.injEq] at hr; omega
          | err e => simp [Beh.apply] at hr
        | succ n => exact ih _ hrest
      | err e =>
        have hk : e.kind = .interrupted := by
          cases beh <;> simp [Beh.apply] at hr
          subst hr
          simpa [Beh.benign] using hbeh
        simp only [hk, if_true]
        exact ih _ hrest

theorem feed_benign (cs : List Chunk) (w : WriteWrapper) (h : ∀ b ∈ w.script, b.benign = true)
    (hw : w.err = none) : (feed w cs).2 = true := by
  induction cs generalizing w with
  | nil => rfl
  | cons c cs ih =>
    obtain ⟨h1, h2⟩ := writeAll_benign w.script c.bytes h
    simp only [feed, put_wrapper, writeBytes_of_none hw, WriteWrapper.writeBytesOk, h1]
    exact ih _ h2 hw

end MJ.Output
