import MJ.Proofs.MetaWalk
/-! The dotted names of the nested report are attribute paths of the template (C18). -/
namespace MJ.Meta

def St.nestedList (st : St) : List Leaf := st.nested.getD []

/-- `f` adds at most the leaves `L` to the nested report -/
def Within (L : List Leaf) (f : St → St) : Prop :=
  ∀ st l, l ∈ (f st).nestedList → l ∈ st.nestedList ∨ l ∈ L

theorem Within.id : Within [] (fun st => st) := fun _ _ h => Or.inl h

theorem Within.comp {L1 L2 : List Leaf} {f g : St → St} (hf : Within L1 f) (hg : Within L2 g) :
    Within (L1 ++ L2) (fun st => g (f st)) := by
  intro st l hl
  rcases hg (f st) l hl with h | h
  · rcases hf st l h with h | h
    · exact Or.inl h
    · exact Or.inr (List.mem_append_left _ h)
  · exact Or.inr (List.mem_append_right _ h)

theorem Within.mono {L L' : List Leaf} {f : St → St} (hf : Within L f) (h : ∀ l ∈ L, l ∈ L') :
    Within L' f := fun st l hl => (hf st l hl).imp (fun x => x) (h l)

theorem within_assign (x : String) : Within [] (fun st => st.assign x) := by
  intro st l hl
  left
  simp only at hl
  simpa [St.nestedList, assign_nested] using hl

theorem within_visitLeaf (l : Leaf) : Within [l] (fun st => visitLeaf st l) := by
  intro st l' hl
  simp only at hl
  by_cases ha : st.isAssigned l.1 = true
  · rw [visitLeaf_pos ha] at hl; exact Or.inl hl
  · cases hn : st.nested with
    | none =>
      rw [visitLeaf_flat ha hn] at hl
      simp [St.nestedList, assign_nested, hn] at hl
    | some n =>
      rw [visitLeaf_nested ha hn] at hl
      simp only [St.nestedList, Option.getD_some, List.mem_cons] at hl
      rcases hl with rfl | hl
      · exact Or.inr (by simp)
      · exact Or.inl (by simpa [St.nestedList, hn] using hl)

theorem within_visitLeaves (ls : List Leaf) : Within ls (fun st => visitLeaves st ls) := by
  induction ls with
  | nil => exact Within.id
  | cons l ls ih =>
    have := Within.comp (within_visitLeaf l) ih
    simpa [visitLeaves] using this

theorem within_atoms (as : List TAtom) : Within (atomLeaves as) (fun st => as.foldl trackAtom st) := by
  induction as with
  | nil => exact Within.id
  | cons a as ih =>
    cases a with
    | name x =>
      have := Within.comp (within_assign x) ih
      simpa [atomLeaves, trackAtom] using this
    | look e =>
      have := Within.comp (within_visitLeaves (nvars e)) ih
      simpa [atomLeaves, trackAtom, visitExpr] using this

theorem within_trackAssign (t : Expr) : Within (targetLeaves t) (fun st => trackAssign st t) :=
  within_atoms _

theorem within_targets (ts : List Expr) :
    Within (targetsLeaves ts) (fun st => ts.foldl trackAssign st) := by
  induction ts with
  | nil => exact Within.id
  | cons t ts ih =>
    have := Within.comp (within_trackAssign t) ih
    simpa [targetsLeaves] using this

theorem within_withAssigns (as : List (Expr × Expr)) :
    Within (assignsLeaves as) (fun st => withAssigns st as) := by
  induction as with
  | nil => simpa [withAssigns, assignsLeaves] using Within.id
  | cons p as ih =>
    obtain ⟨t, e⟩ := p
    have := Within.comp (Within.comp (within_visitLeaves (nvars e)) (within_trackAssign t)) ih
    simpa [withAssigns, assignsLeaves, visitExpr, List.append_assoc] using this

theorem within_macroArgs (as : List String) (ds : List Expr) :
    Within (defaultsLeaves as ds) (fun st => macroArgs st as ds) := by
  induction as generalizing ds with
  | nil => simpa [macroArgs, defaultsLeaves] using Within.id
  | cons a as ih =>
    cases ds with
    | nil =>
      have := Within.comp (within_assign a) (ih [])
      simpa [macroArgs, defaultsLeaves] using this
    | cons d ds =>
      have := Within.comp (Within.comp (within_visitLeaves (nvars d)) (within_assign a)) (ih ds)
      simpa [macroArgs, defaultsLeaves, visitExpr] using this

theorem within_scope {L : List Leaf} {f : St → St} (hf : Within L f) :
    Within L (fun st => (f st.push).pop) := fun st l hl => hf st.push l hl

theorem within_block {L : List Leaf} {f : St → St} (hf : Within L f) :
    Within L (fun st => { f { st with assigned := [[]] } with assigned := st.assigned }) :=
  fun st l hl => hf { st with assigned := [[]] } l hl

mutual
theorem within_walk : (s : Stmt) → Within (leaves s) (fun st => walk st s)
  | .emit e => by simpa only [walk, leaves, visitExpr] using within_visitLeaves (nvars e)
  | .raw => by simpa only [walk, leaves] using Within.id
  | .forLoop target iter filter _ body els => by
      have h1 := within_scope (Within.comp (Within.comp (Within.comp (Within.comp
        (within_visitLeaves (nvars iter)) (within_trackAssign target))
        (within_visitLeaves (nvarsOpt filter))) (within_assign "loop")) (within_walkList body))
      have h2 := within_scope (within_walkList els)
      have := Within.comp h1 h2
      simpa only [walk, leaves, visitExpr, visitOpt, List.append_assoc, List.append_nil] using this
  | .ifCond c t f => by
      have := Within.comp (Within.comp (within_visitLeaves (nvars c))
        (within_scope (within_walkList t))) (within_scope (within_walkList f))
      simpa only [walk, leaves, visitExpr, List.append_assoc] using this
  | .withBlock assigns body => by
      have := within_scope (Within.comp (within_withAssigns assigns) (within_walkList body))
      simpa only [walk, leaves] using this
  | .set target e => by
      have := Within.comp (within_visitLeaves (nvars e)) (within_trackAssign target)
      simpa only [walk, leaves, visitExpr] using this
  | .autoEscape e body => by
      have := Within.comp (within_visitLeaves (nvars e)) (within_scope (within_walkList body))
      simpa only [walk, leaves, visitExpr] using this
  | .filterBlock filter body => by
      have := Within.comp (within_scope (within_walkList body)) (within_visitLeaves (nvars filter))
      simpa only [walk, leaves, visitExpr] using this
  | .setBlock target filter body => by
      have := Within.comp (Within.comp (within_scope (within_walkList body))
        (within_visitLeaves (nvarsOpt filter))) (within_trackAssign target)
      simpa only [walk, leaves, visitOpt, List.append_assoc] using this
  | .macro name args defaults body => by
      have := Within.comp (within_scope (Within.comp (Within.comp (within_assign "caller")
        (within_macroArgs args.reverse defaults.reverse)) (within_walkList body)))
        (within_assign name)
      simpa only [walk, leaves, List.nil_append, List.append_nil] using this
  | .callBlock callee cargs args defaults body => by
      have := Within.comp (within_visitLeaves (nvarsCall callee cargs))
        (within_scope (Within.comp (Within.comp (within_assign "caller")
        (within_macroArgs args.reverse defaults.reverse)) (within_walkList body)))
      simpa only [walk, leaves, List.nil_append] using this
  | .doStmt callee cargs => by
      simpa only [walk, leaves] using within_visitLeaves (nvarsCall callee cargs)
  | .brk => by simpa only [walk, leaves] using Within.id
  | .cont => by simpa only [walk, leaves] using Within.id
  | .block _ body => by
      simpa only [walk, leaves] using within_block (within_walkList body)
  | .include name => by simpa only [walk, leaves, visitExpr] using within_visitLeaves (nvars name)
  | .extends name => by simpa only [walk, leaves, visitExpr] using within_visitLeaves (nvars name)
  | .importAs e target => by
      have := Within.comp (within_visitLeaves (nvars e)) (within_trackAssign target)
      simpa only [walk, leaves, visitExpr] using this
  | .fromImport e targets => by
      have := Within.comp (within_visitLeaves (nvars e)) (within_targets targets)
      simpa only [walk, leaves, visitExpr] using this
theorem within_walkList : (ss : List Stmt) → Within (leavesL ss) (fun st => walkList st ss)
  | [] => by simpa only [walkList, leavesL] using Within.id
  | s :: ss => by
      simpa only [walkList, leavesL] using Within.comp (within_walk s) (within_walkList ss)
end

/-- every dotted name of the nested report is an attribute path that occurs in the template -/
theorem nested_subset_leaves (t : List Stmt) : ∀ l ∈ findUndeclaredNested t, l ∈ leavesL t := by
  intro l hl
  rcases within_walkList t St.initNested l hl with h | h
  · simp [St.nestedList, St.initNested] at h
  · exact h

end MJ.Meta
