import MJ.Model.Fold
/-! Helper lemmas for C04 (folder sound w.r.t. run-time semantics, compiled = run-time, hoisting). -/
namespace MJ.Fold

/-- laws of the shared primitives that the folder's duplicated logic relies on -/
structure Prims.Lawful (P : Prims) : Prop extends Prims.Defined P where
  /-- `Value::is_true` of `ValueRepr::Bool(b)` is `b` -/
  isTrue_bool : ∀ b, P.isTrue (.bool b) = b
  /-- `ops::contains` returns `Value::from(bool)` -/
  contains_bool : ∀ a b v, P.contains a b = .ok v → ∃ t, v = .bool t

theorem gate_some {α : Type} {b : Bool} {x : Option α} {v : α} (h : gate b x = some v) : x = some v := by
  unfold gate at h; split at h
  · exact h
  · cases h

theorem toOpt_some {α : Type} {x : Except Err α} {a : α} (h : Except.toOpt x = some a) : x = .ok a := by
  cases x <;> simp [Except.toOpt] at h; subst h; rfl

section
variable (P : Prims) (m : Mode) (ρ : Env)

theorem assertDefined_ok {v : V} (h : v ≠ .undef) : assertDefined m v = .ok () := by
  cases v <;> simp [assertDefined] at *

theorem isTrueM_ok {v : V} (h : v ≠ .undef) : isTrueM P m v = .ok (P.isTrue v) := by
  cases m <;> cases v <;> simp [isTrueM] at *

theorem opBinop_ok (f : V → V → Bool) {a b : V} (ha : a ≠ .undef) (hb : b ≠ .undef) :
    opBinop m f a b = .ok (.bool (f a b)) := by
  simp [opBinop, assertDefined_ok m ha, assertDefined_ok m hb]

theorem inInstr_ok {a b : V} (ha : a ≠ .undef) (hb : b ≠ .undef) :
    inInstr P m a b = P.contains b a := by
  simp [inInstr, assertDefined_ok m ha, assertDefined_ok m hb]

theorem notInstr_ok {v : V} (h : v ≠ .undef) : notInstr P m v = .ok (.bool (!P.isTrue v)) := by
  simp [notInstr, isTrueM_ok P m h]

/-! ### direct constants -/

theorem constValues_sound : ∀ (es : Exprs) (vs : List V), constValues es = some vs →
    evalRtList P m ρ es = .ok vs
  | .nil, vs, h => by simp [constValues] at h; subst h; simp [evalRtList]
  | .cons (.const v) es, vs, h => by
    simp only [constValues, Option.map_eq_some_iff] at h
    obtain ⟨ws, hws, rfl⟩ := h
    simp [evalRtList, evalRt, constValues_sound es ws hws]
  | .cons (.var _) _, _, h | .cons (.list _) _, _, h | .cons (.tuple _) _, _, h
  | .cons (.map _) _, _, h | .cons (.not _) _, _, h | .cons (.neg _) _, _, h
  | .cons (.bin ..) _, _, h | .cons (.cmp ..) _, _, h | .cons (.call ..) _, _, h => by
    simp [constValues] at h

theorem constPairs_sound : ∀ (ps : Pairs) (vs : List (V × V)), constPairs ps = some vs →
    evalRtPairs P m ρ ps = .ok vs
  | .nil, vs, h => by simp [constPairs] at h; subst h; simp [evalRtPairs]
  | .cons k v rest, vs, h => by
    cases k <;> try (simp [constPairs] at h; done)
    cases v <;> try (simp [constPairs] at h; done)
    simp only [constPairs, Option.map_eq_some_iff] at h
    obtain ⟨ws, hws, rfl⟩ := h
    simp [evalRtPairs, evalRt, constPairs_sound rest ws hws]

theorem constKws_sound : ∀ (ks : Kws) (vs : List (String × V)), constKws ks = some vs →
    evalRtKws P m ρ ks = .ok vs
  | .nil, vs, h => by simp [constKws] at h; subst h; simp [evalRtKws]
  | .cons n e rest, vs, h => by
    cases e <;> try (simp [constKws] at h; done)
    simp only [constKws, Option.map_eq_some_iff] at h
    obtain ⟨ws, hws, rfl⟩ := h
    simp [evalRtKws, evalRt, constKws_sound rest ws hws]

theorem constKwArgs_sound : ∀ (args : Args) (ks : List (String × V)), constKwArgs args = some ks →
    evalRtArgsKw P m ρ args = .ok (kwPieces ks)
  | .nil, ks, h => by simp [constKwArgs] at h; subst h; simp [evalRtArgsKw, kwPieces]
  | .pos _ rest, ks, h => by
    rw [constKwArgs] at h; rw [evalRtArgsKw]; exact constKwArgs_sound rest ks h
  | .posSplat _ rest, ks, h => by
    rw [constKwArgs] at h; rw [evalRtArgsKw]; exact constKwArgs_sound rest ks h
  | .kw n e rest, ks, h => by
    cases e <;> try (simp [constKwArgs] at h; done)
    simp only [constKwArgs, Option.map_eq_some_iff] at h
    obtain ⟨ws, hws, rfl⟩ := h
    simp [evalRtArgsKw, evalRt, constKwArgs_sound rest ws hws, kwPieces]
  | .kwSplat _ _, ks, h => by simp [constKwArgs] at h

/-! ### folded values are defined -/

theorem asConstChain_bool : ∀ (ops : Chain) (left v : V), asConstChain P left ops = some v →
    ∃ t, v = .bool t
  | .nil, left, v, h => by simp [asConstChain] at h; exact ⟨true, h.symm⟩
  | .cons op e rest, left, v, h => by
    rw [asConstChain] at h
    split at h
    · simp at h
    · split at h
      · simp at h
      · split at h
        · exact asConstChain_bool rest _ v h
        · simp at h; exact ⟨false, h.symm⟩

variable {P} in
theorem evalBinop_defined (hP : P.Lawful) (op : BinOp) {a b v : V} (ha : a ≠ .undef) (hb : b ≠ .undef)
    (h : evalBinop P op a b = some v) : v ≠ .undef := by
  cases op <;> simp only [evalBinop] at h
  case add => exact hP.add _ _ _ (toOpt_some h)
  case sub => exact hP.sub _ _ _ (toOpt_some h)
  case mul => exact hP.mul _ _ _ (toOpt_some h)
  case div => exact hP.div _ _ _ (toOpt_some h)
  case fdiv => exact hP.fdiv _ _ _ (toOpt_some h)
  case rem => exact hP.rem _ _ _ (toOpt_some h)
  case pow => exact hP.pow _ _ _ (toOpt_some h)
  case cat => simp at h; subst h; exact hP.concat _ _
  case in_ => exact hP.contains _ _ _ (toOpt_some h)
  case and => simp at h; subst h; split <;> assumption
  case or => simp at h; subst h; split <;> assumption
  all_goals (simp at h; subst h; simp)

variable {P} in
theorem asConst_defined (hP : P.Lawful) : ∀ (e : Expr) (v : V), e.WF → asConst P e = some v → v ≠ .undef
  | .const c, v, hw, h => by simp [asConst] at h; subst h; simpa [Expr.WF] using hw
  | .var _, v, _, h => by simp [asConst] at h
  | .list items, v, _, h => by
    rw [asConst] at h; replace h := gate_some h; simp only [Option.map_eq_some_iff] at h; obtain ⟨_, _, rfl⟩ := h; simp
  | .tuple items, v, _, h => by
    rw [asConst] at h; replace h := gate_some h; simp only [Option.map_eq_some_iff] at h; obtain ⟨_, _, rfl⟩ := h; simp
  | .map kvs, v, _, h => by
    rw [asConst] at h; replace h := gate_some h; simp only [Option.map_eq_some_iff] at h; obtain ⟨_, _, rfl⟩ := h; exact hP.mkMap _
  | .not e, v, _, h => by
    rw [asConst] at h; replace h := gate_some h; simp only [Option.map_eq_some_iff] at h; obtain ⟨_, _, rfl⟩ := h; simp
  | .neg e, v, _, h => by
    rw [asConst] at h; replace h := gate_some h; simp only [Option.bind_eq_some_iff] at h; obtain ⟨a, _, h⟩ := h
    exact hP.neg _ _ (toOpt_some h)
  | .bin op l r, v, hw, h => by
    simp only [Expr.WF] at hw
    rw [asConst] at h; replace h := gate_some h
    split at h
    · next a b hl hr =>
      exact evalBinop_defined hP op (asConst_defined hP l a hw.1 hl) (asConst_defined hP r b hw.2 hr) h
    · simp at h
  | .cmp e ops, v, _, h => by
    rw [asConst] at h; replace h := gate_some h
    split at h
    · obtain ⟨t, rfl⟩ := asConstChain_bool P ops _ v h; simp
    · simp at h
  | .getAttr .., v, _, h | .getItem .., v, _, h | .slice .., v, _, h | .ifExpr .., v, _, h
  | .filter .., v, _, h | .test .., v, _, h | .call .., v, _, h | .callx .., v, _, h => by simp [asConst] at h

/-! ### one comparison step: folder (`eval_compare`) versus the VM -/

variable {P} in
theorem evalCompare_cap (hP : P.Lawful) (op : CmpOp) {a b v : V} (ha : a ≠ .undef) (hb : b ≠ .undef)
    (h : evalCompare P op a b = some v) : compareAndPreserve P m op a b = .ok (P.isTrue v) := by
  cases op <;> simp only [evalCompare] at h
  case in_ =>
    simp [compareAndPreserve, assertDefined_ok m ha, assertDefined_ok m hb, toOpt_some h]
  case notIn =>
    simp only [Option.map_eq_some_iff] at h; obtain ⟨w, hw, rfl⟩ := h
    simp [compareAndPreserve, assertDefined_ok m ha, assertDefined_ok m hb, toOpt_some hw, hP.isTrue_bool]
  all_goals
    simp at h; subst h
    simp [compareAndPreserve, assertDefined_ok m ha, assertDefined_ok m hb, hP.isTrue_bool]

variable {P} in
theorem evalCompare_final (hP : P.Lawful) (op : CmpOp) {a b v : V} (ha : a ≠ .undef) (hb : b ≠ .undef)
    (h : evalCompare P op a b = some v) : finalCompare P m op a b = .ok (.bool (P.isTrue v)) := by
  cases op <;> simp only [evalCompare] at h
  case in_ =>
    have hc := toOpt_some h
    obtain ⟨t, rfl⟩ := hP.contains_bool _ _ _ hc
    simp [finalCompare, inInstr_ok P m ha hb, hc, hP.isTrue_bool]
  case notIn =>
    simp only [Option.map_eq_some_iff] at h; obtain ⟨w, hw, rfl⟩ := h
    have hc := toOpt_some hw
    have hd := hP.contains _ _ _ hc
    simp [finalCompare, inInstr_ok P m ha hb, hc, notInstr_ok P m hd, hP.isTrue_bool]
  all_goals
    simp at h; subst h
    simp [finalCompare, opBinop_ok m _ ha hb, hP.isTrue_bool]

variable {P} in
theorem evalBinop_instr (_hP : P.Lawful) (op : BinOp) (hand : op ≠ .and) (hor : op ≠ .or) {a b v : V}
    (ha : a ≠ .undef) (hb : b ≠ .undef) (h : evalBinop P op a b = some v) :
    binInstr P m op a b = .ok v := by
  cases op <;> simp only [evalBinop] at h <;> try contradiction
  case in_ => simp [binInstr, inInstr_ok P m ha hb, toOpt_some h]
  case cat => simp at h; subst h; simp [binInstr, assertDefined_ok m ha, assertDefined_ok m hb]
  case eq | ne | lt | le | gt | ge => simp at h; subst h; simp [binInstr, opBinop_ok m _ ha hb]
  all_goals simp [binInstr, toOpt_some h]

end

section
variable {P : Prims} (m : Mode) (ρ : Env)

/-! ### the folder is sound for the run-time semantics -/

mutual
  theorem asConst_sound' (hP : P.Lawful) : ∀ (e : Expr) (v : V), e.WF → asConst P e = some v →
      evalRt P m ρ e = .ok v
    | .const c, v, _, h => by simp [asConst] at h; subst h; simp [evalRt]
    | .var _, v, _, h => by simp [asConst] at h
    | .list items, v, _, h => by
      rw [asConst] at h; replace h := gate_some h; simp only [Option.map_eq_some_iff] at h; obtain ⟨vs, hvs, rfl⟩ := h
      simp [evalRt, constValues_sound P m ρ items vs hvs]
    | .tuple items, v, _, h => by
      rw [asConst] at h; replace h := gate_some h; simp only [Option.map_eq_some_iff] at h; obtain ⟨vs, hvs, rfl⟩ := h
      simp [evalRt, constValues_sound P m ρ items vs hvs]
    | .map kvs, v, _, h => by
      rw [asConst] at h; replace h := gate_some h; simp only [Option.map_eq_some_iff] at h; obtain ⟨vs, hvs, rfl⟩ := h
      simp [evalRt, constPairs_sound P m ρ kvs vs hvs]
    | .not e, v, hw, h => by
      simp only [Expr.WF] at hw
      rw [asConst] at h; replace h := gate_some h; simp only [Option.map_eq_some_iff] at h; obtain ⟨a, ha, rfl⟩ := h
      simp [evalRt, asConst_sound' hP e a hw ha, notInstr_ok P m (asConst_defined hP e a hw ha)]
    | .neg e, v, hw, h => by
      simp only [Expr.WF] at hw
      rw [asConst] at h; replace h := gate_some h; simp only [Option.bind_eq_some_iff] at h; obtain ⟨a, ha, h⟩ := h
      simp [evalRt, asConst_sound' hP e a hw ha, toOpt_some h]
    | .bin op l r, v, hw, h => by
      simp only [Expr.WF] at hw
      rw [asConst] at h; replace h := gate_some h
      split at h
      · next a b hl hr =>
        have ha := asConst_defined hP l a hw.1 hl
        have hb := asConst_defined hP r b hw.2 hr
        have el := asConst_sound' hP l a hw.1 hl
        have er := asConst_sound' hP r b hw.2 hr
        by_cases hand : op = .and
        · subst hand
          simp [evalBinop] at h; subst h
          simp only [evalRt, el, er, isTrueM_ok P m ha]
          split <;> simp_all
        · by_cases hor : op = .or
          · subst hor
            simp [evalBinop] at h; subst h
            simp only [evalRt, el, er, isTrueM_ok P m ha]
            split <;> simp_all
          · have := evalBinop_instr m hP op hand hor ha hb h
            cases op <;> first | contradiction | simp [evalRt, el, er, this]
      · simp at h
    | .cmp e ops, v, hw, h => by
      simp only [Expr.WF] at hw
      rw [asConst] at h; replace h := gate_some h
      split at h
      · next left hl =>
        simp only [evalRt, asConst_sound' hP e left hw.1 hl]
        exact asConstChain_sound' hP ops left v hw.2.2 hw.2.1 (asConst_defined hP e left hw.1 hl) h
      · simp at h
    | .getAttr .., v, _, h | .getItem .., v, _, h | .slice .., v, _, h | .ifExpr .., v, _, h
  | .filter .., v, _, h | .test .., v, _, h | .call .., v, _, h | .callx .., v, _, h => by simp [asConst] at h
  theorem asConstChain_sound' (hP : P.Lawful) : ∀ (ops : Chain) (left v : V), ops.WF → ops ≠ .nil →
      left ≠ .undef → asConstChain P left ops = some v → evalRtChain P m ρ left ops = .ok v
    | .nil, _, _, _, hne, _, _ => by simp at hne
    | .cons op e rest, left, v, hw, _, hleft, h => by
      simp only [Chain.WF] at hw
      rw [asConstChain] at h
      split at h
      · simp at h
      · next right hr =>
        have hb := asConst_defined hP e right hw.1 hr
        have er := asConst_sound' hP e right hw.1 hr
        split at h
        · simp at h
        · next w hcmp =>
          cases rest with
          | nil =>
            simp only [evalRtChain, er, evalCompare_final m hP op hleft hb hcmp]
            split at h <;> simp_all [asConstChain]
          | cons op2 e2 rest2 =>
            simp only [evalRtChain, er, evalCompare_cap m hP op hleft hb hcmp]
            split at h
            · next ht => simp only [ht, if_true]; exact asConstChain_sound' hP _ right v hw.2 (by simp) hb h
            · next ht => simp at h; subst h; simp [ht]
end

/-! ### compiled code (folding at every level) computes the run-time value -/

theorem folded_eq (hP : P.Lawful) (e : Expr) (hw : e.WF) (rt : Except Err V) (h : rt = evalRt P m ρ e) :
    folded P e rt = evalRt P m ρ e := by
  unfold folded
  split
  · next v hv => exact (asConst_sound' m ρ hP e v hw (gate_some hv)).symm
  · exact h

mutual
  theorem evalC_eq_evalRt' (hP : P.Lawful) : ∀ (e : Expr), e.WF → evalC P m ρ e = evalRt P m ρ e
    | .const c, _ => by simp [evalC, evalRt]
    | .var _, _ => by simp [evalC, evalRt]
    | .list items, hw => by
      rw [evalC]; apply folded_eq m ρ hP _ hw
      simp only [Expr.WF] at hw
      rw [evalRt, evalCList_eq' hP items hw]
    | .tuple items, hw => by
      rw [evalC]; apply folded_eq m ρ hP _ hw
      simp only [Expr.WF] at hw
      rw [evalRt, evalCList_eq' hP items hw]
    | .map kvs, hw => by
      rw [evalC]; apply folded_eq m ρ hP _ hw
      simp only [Expr.WF] at hw
      rw [evalRt, evalCPairs_eq' hP kvs hw]
    | .not e, hw => by
      rw [evalC]; apply folded_eq m ρ hP _ hw
      simp only [Expr.WF] at hw
      rw [evalRt, evalC_eq_evalRt' hP e hw]
    | .neg e, hw => by
      have hw' := hw
      simp only [Expr.WF] at hw'
      have ih := evalC_eq_evalRt' hP e hw'
      cases e
      case const c =>
        rw [evalC]; apply folded_eq m ρ hP _ hw
        cases hs : P.codegenSpecial "neg-const-shortcut" <;>
          cases h : P.neg c <;> simp [Except.toOpt, evalRt, evalC, h, gate]
      all_goals
        rw [evalC] <;> try (intro c h; cases h; done)
        apply folded_eq m ρ hP _ hw
        rw [evalRt, ih]
        cases hs : P.codegenSpecial "neg-const-shortcut" <;> simp [gate]
    | .bin op l r, hw => by
      have hw' := hw
      simp only [Expr.WF] at hw'
      have el := evalC_eq_evalRt' hP l hw'.1
      have er := evalC_eq_evalRt' hP r hw'.2
      cases op
      all_goals
        rw [evalC] <;> try (intro h; cases h; done)
        apply folded_eq m ρ hP _ hw
        rw [evalRt, el, er] <;> try (intro h; cases h; done)
    | .cmp e ops, hw => by
      rw [evalC]; apply folded_eq m ρ hP _ hw
      simp only [Expr.WF] at hw
      rw [evalRt, evalC_eq_evalRt' hP e hw.1]
      split
      · rfl
      · exact evalCChain_eq' hP ops _ hw.2.2
    | .getAttr e name, hw => by
      simp only [Expr.WF] at hw
      rw [evalC, evalRt, evalC_eq_evalRt' hP e hw]
    | .getItem e i, hw => by
      simp only [Expr.WF] at hw
      rw [evalC, evalRt, evalC_eq_evalRt' hP e hw.1, evalC_eq_evalRt' hP i hw.2]
    | .slice e a b c, hw => by
      simp only [Expr.WF] at hw
      rw [evalC, evalRt, evalC_eq_evalRt' hP e hw.1, evalCOpt_eq' hP a _ hw.2.1, evalCOpt_eq' hP b _ hw.2.2.1,
        evalCOpt_eq' hP c _ hw.2.2.2]
    | .ifExpr c t f, hw => by
      simp only [Expr.WF] at hw
      rw [evalC, evalRt, evalC_eq_evalRt' hP c hw.1, evalC_eq_evalRt' hP t hw.2.1, evalCOpt_eq' hP f _ hw.2.2]
    | .filter name e pos kws, hw => by
      simp only [Expr.WF] at hw
      rw [evalC, evalRt, evalC_eq_evalRt' hP e hw.1, evalCList_eq' hP pos hw.2.1]
      split
      · rfl
      · split
        · rfl
        · split
          · next ks hk => rw [constKws_sound P m ρ kws ks (gate_some hk)]
          · rw [evalCKws_eq' hP kws hw.2.2]
    | .test name e pos kws, hw => by
      simp only [Expr.WF] at hw
      rw [evalC, evalRt, evalC_eq_evalRt' hP e hw.1, evalCList_eq' hP pos hw.2.1]
      split
      · rfl
      · split
        · rfl
        · split
          · next ks hk => rw [constKws_sound P m ρ kws ks (gate_some hk)]
          · rw [evalCKws_eq' hP kws hw.2.2]
    | .call name pos kws, hw => by
      simp only [Expr.WF] at hw
      rw [evalC, evalRt, evalCList_eq' hP pos hw.1]
      split
      · rfl
      · split
        · next ks hk => rw [constKws_sound P m ρ kws ks (gate_some hk)]
        · rw [evalCKws_eq' hP kws hw.2]
    | .callx kind recv name args, hw => by
      simp only [Expr.WF] at hw
      rw [evalC, evalRt, evalCList_eq' hP recv hw.1, evalCArgsPos_eq' hP args hw.2]
      split
      · rfl
      · split
        · rfl
        · split
          · next ks hk => rw [constKwArgs_sound P m ρ args ks (gate_some hk)]
          · rw [evalCArgsKw_eq' hP args hw.2]
  theorem evalCOpt_eq' (hP : P.Lawful) : ∀ (o : OptExpr) (d : V), o.WF → evalCOpt P m ρ d o = evalRtOpt P m ρ d o
    | .none, _, _ => by simp [evalCOpt, evalRtOpt]
    | .some e, _, hw => by
      simp only [OptExpr.WF] at hw
      rw [evalCOpt, evalRtOpt, evalC_eq_evalRt' hP e hw]
  theorem evalCList_eq' (hP : P.Lawful) : ∀ (es : Exprs), es.WF → evalCList P m ρ es = evalRtList P m ρ es
    | .nil, _ => by simp [evalCList, evalRtList]
    | .cons e es, hw => by
      simp only [Exprs.WF] at hw
      rw [evalCList, evalRtList, evalC_eq_evalRt' hP e hw.1, evalCList_eq' hP es hw.2]
  theorem evalCPairs_eq' (hP : P.Lawful) : ∀ (ps : Pairs), ps.WF → evalCPairs P m ρ ps = evalRtPairs P m ρ ps
    | .nil, _ => by simp [evalCPairs, evalRtPairs]
    | .cons k v rest, hw => by
      simp only [Pairs.WF] at hw
      rw [evalCPairs, evalRtPairs, evalC_eq_evalRt' hP k hw.1, evalC_eq_evalRt' hP v hw.2.1,
        evalCPairs_eq' hP rest hw.2.2]
  theorem evalCChain_eq' (hP : P.Lawful) : ∀ (ops : Chain) (left : V), ops.WF →
      evalCChain P m ρ left ops = evalRtChain P m ρ left ops
    | .nil, _, _ => by simp [evalCChain, evalRtChain]
    | .cons op e .nil, left, hw => by
      simp only [Chain.WF] at hw
      rw [evalCChain, evalRtChain, evalC_eq_evalRt' hP e hw.1]
    | .cons op e (.cons op2 e2 rest), left, hw => by
      simp only [Chain.WF] at hw
      rw [evalCChain, evalRtChain, evalC_eq_evalRt' hP e hw.1] <;> try (intro h; cases h; done)
      cases evalRt P m ρ e with
      | error _ => rfl
      | ok right =>
        have := evalCChain_eq' hP (.cons op2 e2 rest) right (by simp only [Chain.WF]; exact hw.2)
        simp only [this]
  theorem evalCKws_eq' (hP : P.Lawful) : ∀ (ks : Kws), ks.WF → evalCKws P m ρ ks = evalRtKws P m ρ ks
    | .nil, _ => by simp [evalCKws, evalRtKws]
    | .cons n e rest, hw => by
      simp only [Kws.WF] at hw
      rw [evalCKws, evalRtKws, evalC_eq_evalRt' hP e hw.1, evalCKws_eq' hP rest hw.2]
  theorem evalCArgsPos_eq' (hP : P.Lawful) : ∀ (args : Args), args.WF → evalCArgsPos P m ρ args = evalRtArgsPos P m ρ args
    | .nil, _ => by simp [evalCArgsPos, evalRtArgsPos]
    | .pos e rest, hw => by
      simp only [Args.WF] at hw
      rw [evalCArgsPos, evalRtArgsPos, evalC_eq_evalRt' hP e hw.1, evalCArgsPos_eq' hP rest hw.2]
    | .posSplat e rest, hw => by
      simp only [Args.WF] at hw
      rw [evalCArgsPos, evalRtArgsPos, evalC_eq_evalRt' hP e hw.1, evalCArgsPos_eq' hP rest hw.2]
    | .kw _ e rest, hw => by
      simp only [Args.WF] at hw
      rw [evalCArgsPos, evalRtArgsPos, evalCArgsPos_eq' hP rest hw.2]
    | .kwSplat e rest, hw => by
      simp only [Args.WF] at hw
      rw [evalCArgsPos, evalRtArgsPos, evalCArgsPos_eq' hP rest hw.2]
  theorem evalCArgsKw_eq' (hP : P.Lawful) : ∀ (args : Args), args.WF → evalCArgsKw P m ρ args = evalRtArgsKw P m ρ args
    | .nil, _ => by simp [evalCArgsKw, evalRtArgsKw]
    | .pos e rest, hw => by
      simp only [Args.WF] at hw
      rw [evalCArgsKw, evalRtArgsKw, evalCArgsKw_eq' hP rest hw.2]
    | .posSplat e rest, hw => by
      simp only [Args.WF] at hw
      rw [evalCArgsKw, evalRtArgsKw, evalCArgsKw_eq' hP rest hw.2]
    | .kw _ e rest, hw => by
      simp only [Args.WF] at hw
      rw [evalCArgsKw, evalRtArgsKw, evalC_eq_evalRt' hP e hw.1, evalCArgsKw_eq' hP rest hw.2]
    | .kwSplat e rest, hw => by
      simp only [Args.WF] at hw
      rw [evalCArgsKw, evalRtArgsKw, evalC_eq_evalRt' hP e hw.1, evalCArgsKw_eq' hP rest hw.2]
end

/-! ### hoisting literals into variables keeps the run-time value -/

theorem hoistHere_rt (hP : P.Lawful) {e e' : Expr} (hw : e.WF) (h : HoistHere P ρ e e') :
    evalRt P m ρ e' = evalRt P m ρ e := by
  obtain ⟨x, v, rfl, hv, hx⟩ := h
  rw [asConst_sound' m ρ hP e v hw hv]
  simp [evalRt, lookup, hx]

theorem hoistHere_WF {e e' : Expr} (h : HoistHere P ρ e e') : e'.WF := by
  obtain ⟨x, v, rfl, _, _⟩ := h
  simp [Expr.WF]

mutual
  theorem hoist_rt' (hP : P.Lawful) : ∀ (e e' : Expr), e.WF → Hoist P ρ e e' →
      evalRt P m ρ e' = evalRt P m ρ e
    | .const c, e', hw, h => by
      rw [Hoist] at h
      rcases h with rfl | h
      · rfl
      · exact hoistHere_rt m ρ hP hw h
    | .var x, e', _, h => by rw [Hoist] at h; subst h; rfl
    | .list items, e', hw, h => by
      rw [Hoist] at h
      rcases h with ⟨items', rfl, hi⟩ | h
      · simp only [Expr.WF] at hw
        rw [evalRt, evalRt, hoistList_rt' hP items items' hw hi]
      · exact hoistHere_rt m ρ hP hw h
    | .tuple items, e', hw, h => by
      rw [Hoist] at h
      rcases h with ⟨items', rfl, hi⟩ | h
      · simp only [Expr.WF] at hw
        rw [evalRt, evalRt, hoistList_rt' hP items items' hw hi]
      · exact hoistHere_rt m ρ hP hw h
    | .map kvs, e', hw, h => by
      rw [Hoist] at h
      rcases h with ⟨kvs', rfl, hi⟩ | h
      · simp only [Expr.WF] at hw
        rw [evalRt, evalRt, hoistPairs_rt' hP kvs kvs' hw hi]
      · exact hoistHere_rt m ρ hP hw h
    | .not a, e', hw, h => by
      rw [Hoist] at h
      rcases h with ⟨a', rfl, hi⟩ | h
      · simp only [Expr.WF] at hw
        rw [evalRt, evalRt, hoist_rt' hP a a' hw hi]
      · exact hoistHere_rt m ρ hP hw h
    | .neg a, e', hw, h => by
      rw [Hoist] at h
      rcases h with ⟨a', rfl, hi⟩ | h
      · simp only [Expr.WF] at hw
        rw [evalRt, evalRt, hoist_rt' hP a a' hw hi]
      · exact hoistHere_rt m ρ hP hw h
    | .bin op l r, e', hw, h => by
      rw [Hoist] at h
      rcases h with ⟨l', r', rfl, hl, hr⟩ | h
      · simp only [Expr.WF] at hw
        have el := hoist_rt' hP l l' hw.1 hl
        have er := hoist_rt' hP r r' hw.2 hr
        cases op
        all_goals
          rw [evalRt, evalRt, el, er] <;> try (intro h; cases h; done)
      · exact hoistHere_rt m ρ hP hw h
    | .cmp a ops, e', hw, h => by
      rw [Hoist] at h
      rcases h with ⟨a', ops', rfl, ha, ho⟩ | h
      · simp only [Expr.WF] at hw
        rw [evalRt, evalRt, hoist_rt' hP a a' hw.1 ha]
        cases evalRt P m ρ a with
        | error _ => rfl
        | ok left => exact hoistChain_rt' hP ops ops' left hw.2.2 ho
      · exact hoistHere_rt m ρ hP hw h
    | .getAttr a n, e', hw, h => by
      rw [Hoist] at h
      obtain ⟨a', rfl, ha⟩ := h
      simp only [Expr.WF] at hw
      rw [evalRt, evalRt, hoist_rt' hP a a' hw ha]
    | .getItem a i, e', hw, h => by
      rw [Hoist] at h
      obtain ⟨a', i', rfl, ha, hi⟩ := h
      simp only [Expr.WF] at hw
      rw [evalRt, evalRt, hoist_rt' hP a a' hw.1 ha, hoist_rt' hP i i' hw.2 hi]
    | .slice a x y z, e', hw, h => by
      rw [Hoist] at h
      obtain ⟨a', x', y', z', rfl, ha, hx, hy, hz⟩ := h
      simp only [Expr.WF] at hw
      rw [evalRt, evalRt, hoist_rt' hP a a' hw.1 ha, hoistOpt_rt' hP x x' _ hw.2.1 hx,
        hoistOpt_rt' hP y y' _ hw.2.2.1 hy, hoistOpt_rt' hP z z' _ hw.2.2.2 hz]
    | .ifExpr c t f, e', hw, h => by
      rw [Hoist] at h
      obtain ⟨c', t', f', rfl, hc, ht, hf⟩ := h
      simp only [Expr.WF] at hw
      rw [evalRt, evalRt, hoist_rt' hP c c' hw.1 hc, hoist_rt' hP t t' hw.2.1 ht, hoistOpt_rt' hP f f' _ hw.2.2 hf]
    | .filter n a pos kws, e', hw, h => by
      rw [Hoist] at h
      obtain ⟨a', pos', kws', rfl, ha, hp, hk⟩ := h
      simp only [Expr.WF] at hw
      rw [evalRt, evalRt, hoist_rt' hP a a' hw.1 ha, hoistList_rt' hP pos pos' hw.2.1 hp,
        hoistKws_rt' hP kws kws' hw.2.2 hk]
    | .test n a pos kws, e', hw, h => by
      rw [Hoist] at h
      obtain ⟨a', pos', kws', rfl, ha, hp, hk⟩ := h
      simp only [Expr.WF] at hw
      rw [evalRt, evalRt, hoist_rt' hP a a' hw.1 ha, hoistList_rt' hP pos pos' hw.2.1 hp,
        hoistKws_rt' hP kws kws' hw.2.2 hk]
    | .call n pos kws, e', hw, h => by
      rw [Hoist] at h
      obtain ⟨pos', kws', rfl, hp, hk⟩ := h
      simp only [Expr.WF] at hw
      rw [evalRt, evalRt, hoistList_rt' hP pos pos' hw.1 hp, hoistKws_rt' hP kws kws' hw.2 hk]
    | .callx k recv n args, e', hw, h => by
      rw [Hoist] at h
      obtain ⟨recv', args', rfl, hr, ha⟩ := h
      simp only [Expr.WF] at hw
      rw [evalRt, evalRt, hoistList_rt' hP recv recv' hw.1 hr, hoistArgsPos_rt' hP args args' hw.2 ha,
        hoistArgsKw_rt' hP args args' hw.2 ha]
  theorem hoistOpt_rt' (hP : P.Lawful) : ∀ (o o' : OptExpr) (d : V), o.WF → HoistOpt P ρ o o' →
      evalRtOpt P m ρ d o' = evalRtOpt P m ρ d o
    | .none, o', _, _, h => by rw [HoistOpt] at h; subst h; rfl
    | .some e, o', _, hw, h => by
      rw [HoistOpt] at h
      obtain ⟨e', rfl, he⟩ := h
      simp only [OptExpr.WF] at hw
      rw [evalRtOpt, evalRtOpt, hoist_rt' hP e e' hw he]
  theorem hoistList_rt' (hP : P.Lawful) : ∀ (es es' : Exprs), es.WF → HoistList P ρ es es' →
      evalRtList P m ρ es' = evalRtList P m ρ es
    | .nil, es', _, h => by rw [HoistList] at h; subst h; rfl
    | .cons e es, es', hw, h => by
      rw [HoistList] at h
      obtain ⟨e', es'', rfl, he, hes⟩ := h
      simp only [Exprs.WF] at hw
      rw [evalRtList, evalRtList, hoist_rt' hP e e' hw.1 he, hoistList_rt' hP es es'' hw.2 hes]
  theorem hoistPairs_rt' (hP : P.Lawful) : ∀ (ps ps' : Pairs), ps.WF → HoistPairs P ρ ps ps' →
      evalRtPairs P m ρ ps' = evalRtPairs P m ρ ps
    | .nil, ps', _, h => by rw [HoistPairs] at h; subst h; rfl
    | .cons k v rest, ps', hw, h => by
      rw [HoistPairs] at h
      obtain ⟨k', v', rest', rfl, hk, hv, hr⟩ := h
      simp only [Pairs.WF] at hw
      rw [evalRtPairs, evalRtPairs, hoist_rt' hP k k' hw.1 hk, hoist_rt' hP v v' hw.2.1 hv,
        hoistPairs_rt' hP rest rest' hw.2.2 hr]
  theorem hoistChain_rt' (hP : P.Lawful) : ∀ (ops ops' : Chain) (left : V), ops.WF → HoistChain P ρ ops ops' →
      evalRtChain P m ρ left ops' = evalRtChain P m ρ left ops
    | .nil, ops', _, _, h => by rw [HoistChain] at h; subst h; rfl
    | .cons op e .nil, ops', left, hw, h => by
      rw [HoistChain] at h
      obtain ⟨e', rest', rfl, he, hr⟩ := h
      rw [HoistChain] at hr; subst hr
      simp only [Chain.WF] at hw
      rw [evalRtChain, evalRtChain, hoist_rt' hP e e' hw.1 he]
    | .cons op e (.cons op2 e2 rest), ops', left, hw, h => by
      rw [HoistChain] at h
      obtain ⟨e', rest', rfl, he, hr⟩ := h
      have hr' := hr
      rw [HoistChain] at hr'
      obtain ⟨e2', rest2', rfl, _, _⟩ := hr'
      simp only [Chain.WF] at hw
      rw [evalRtChain, evalRtChain, hoist_rt' hP e e' hw.1 he] <;> try (intro h; cases h; done)
      cases evalRt P m ρ e with
      | error _ => rfl
      | ok right =>
        have := hoistChain_rt' hP (.cons op2 e2 rest) _ right (by simp only [Chain.WF]; exact hw.2) hr
        simp only [this]
  theorem hoistKws_rt' (hP : P.Lawful) : ∀ (ks ks' : Kws), ks.WF → HoistKws P ρ ks ks' →
      evalRtKws P m ρ ks' = evalRtKws P m ρ ks
    | .nil, ks', _, h => by rw [HoistKws] at h; subst h; rfl
    | .cons n e rest, ks', hw, h => by
      rw [HoistKws] at h
      obtain ⟨e', rest', rfl, he, hr⟩ := h
      simp only [Kws.WF] at hw
      rw [evalRtKws, evalRtKws, hoist_rt' hP e e' hw.1 he, hoistKws_rt' hP rest rest' hw.2 hr]
  theorem hoistArgsPos_rt' (hP : P.Lawful) : ∀ (a a' : Args), a.WF → HoistArgs P ρ a a' →
      evalRtArgsPos P m ρ a' = evalRtArgsPos P m ρ a
    | .nil, a', _, h => by rw [HoistArgs] at h; subst h; rfl
    | .pos e rest, a', hw, h => by
      rw [HoistArgs] at h
      obtain ⟨e', rest', rfl, he, hr⟩ := h
      simp only [Args.WF] at hw
      rw [evalRtArgsPos, evalRtArgsPos, hoist_rt' hP e e' hw.1 he, hoistArgsPos_rt' hP rest rest' hw.2 hr]
    | .posSplat e rest, a', hw, h => by
      rw [HoistArgs] at h
      obtain ⟨e', rest', rfl, he, hr⟩ := h
      simp only [Args.WF] at hw
      rw [evalRtArgsPos, evalRtArgsPos, hoist_rt' hP e e' hw.1 he, hoistArgsPos_rt' hP rest rest' hw.2 hr]
    | .kw n e rest, a', hw, h => by
      rw [HoistArgs] at h
      obtain ⟨e', rest', rfl, _, hr⟩ := h
      simp only [Args.WF] at hw
      rw [evalRtArgsPos, evalRtArgsPos, hoistArgsPos_rt' hP rest rest' hw.2 hr]
    | .kwSplat e rest, a', hw, h => by
      rw [HoistArgs] at h
      obtain ⟨e', rest', rfl, _, hr⟩ := h
      simp only [Args.WF] at hw
      rw [evalRtArgsPos, evalRtArgsPos, hoistArgsPos_rt' hP rest rest' hw.2 hr]
  theorem hoistArgsKw_rt' (hP : P.Lawful) : ∀ (a a' : Args), a.WF → HoistArgs P ρ a a' →
      evalRtArgsKw P m ρ a' = evalRtArgsKw P m ρ a
    | .nil, a', _, h => by rw [HoistArgs] at h; subst h; rfl
    | .pos e rest, a', hw, h => by
      rw [HoistArgs] at h
      obtain ⟨e', rest', rfl, _, hr⟩ := h
      simp only [Args.WF] at hw
      rw [evalRtArgsKw, evalRtArgsKw, hoistArgsKw_rt' hP rest rest' hw.2 hr]
    | .posSplat e rest, a', hw, h => by
      rw [HoistArgs] at h
      obtain ⟨e', rest', rfl, _, hr⟩ := h
      simp only [Args.WF] at hw
      rw [evalRtArgsKw, evalRtArgsKw, hoistArgsKw_rt' hP rest rest' hw.2 hr]
    | .kw n e rest, a', hw, h => by
      rw [HoistArgs] at h
      obtain ⟨e', rest', rfl, he, hr⟩ := h
      simp only [Args.WF] at hw
      rw [evalRtArgsKw, evalRtArgsKw, hoist_rt' hP e e' hw.1 he, hoistArgsKw_rt' hP rest rest' hw.2 hr]
    | .kwSplat e rest, a', hw, h => by
      rw [HoistArgs] at h
      obtain ⟨e', rest', rfl, he, hr⟩ := h
      simp only [Args.WF] at hw
      rw [evalRtArgsKw, evalRtArgsKw, hoist_rt' hP e e' hw.1 he, hoistArgsKw_rt' hP rest rest' hw.2 hr]
end

mutual
  theorem hoist_WF' : ∀ (e e' : Expr), e.WF → Hoist P ρ e e' → e'.WF
    | .const c, e', hw, h => by
      rw [Hoist] at h
      rcases h with rfl | h
      · exact hw
      · exact hoistHere_WF ρ h
    | .var x, e', hw, h => by rw [Hoist] at h; subst h; exact hw
    | .list items, e', hw, h => by
      rw [Hoist] at h
      rcases h with ⟨items', rfl, hi⟩ | h
      · simp only [Expr.WF] at hw ⊢; exact hoistList_WF' items items' hw hi
      · exact hoistHere_WF ρ h
    | .tuple items, e', hw, h => by
      rw [Hoist] at h
      rcases h with ⟨items', rfl, hi⟩ | h
      · simp only [Expr.WF] at hw ⊢; exact hoistList_WF' items items' hw hi
      · exact hoistHere_WF ρ h
    | .map kvs, e', hw, h => by
      rw [Hoist] at h
      rcases h with ⟨kvs', rfl, hi⟩ | h
      · simp only [Expr.WF] at hw ⊢; exact hoistPairs_WF' kvs kvs' hw hi
      · exact hoistHere_WF ρ h
    | .not a, e', hw, h => by
      rw [Hoist] at h
      rcases h with ⟨a', rfl, hi⟩ | h
      · simp only [Expr.WF] at hw ⊢; exact hoist_WF' a a' hw hi
      · exact hoistHere_WF ρ h
    | .neg a, e', hw, h => by
      rw [Hoist] at h
      rcases h with ⟨a', rfl, hi⟩ | h
      · simp only [Expr.WF] at hw ⊢; exact hoist_WF' a a' hw hi
      · exact hoistHere_WF ρ h
    | .bin op l r, e', hw, h => by
      rw [Hoist] at h
      rcases h with ⟨l', r', rfl, hl, hr⟩ | h
      · simp only [Expr.WF] at hw ⊢; exact ⟨hoist_WF' l l' hw.1 hl, hoist_WF' r r' hw.2 hr⟩
      · exact hoistHere_WF ρ h
    | .cmp a ops, e', hw, h => by
      rw [Hoist] at h
      rcases h with ⟨a', ops', rfl, ha, ho⟩ | h
      · simp only [Expr.WF] at hw ⊢
        refine ⟨hoist_WF' a a' hw.1 ha, ?_, hoistChain_WF' ops ops' hw.2.2 ho⟩
        cases ops with
        | nil => exact absurd rfl hw.2.1
        | cons op e rest =>
          rw [HoistChain] at ho
          obtain ⟨_, _, rfl, _, _⟩ := ho
          simp
      · exact hoistHere_WF ρ h
    | .getAttr a n, e', hw, h => by
      rw [Hoist] at h
      obtain ⟨a', rfl, ha⟩ := h
      simp only [Expr.WF] at hw ⊢
      exact hoist_WF' a a' hw ha
    | .getItem a i, e', hw, h => by
      rw [Hoist] at h
      obtain ⟨a', i', rfl, ha, hi⟩ := h
      simp only [Expr.WF] at hw ⊢
      exact ⟨hoist_WF' a a' hw.1 ha, hoist_WF' i i' hw.2 hi⟩
    | .slice a x y z, e', hw, h => by
      rw [Hoist] at h
      obtain ⟨a', x', y', z', rfl, ha, hx, hy, hz⟩ := h
      simp only [Expr.WF] at hw ⊢
      exact ⟨hoist_WF' a a' hw.1 ha, hoistOpt_WF' x x' hw.2.1 hx, hoistOpt_WF' y y' hw.2.2.1 hy,
        hoistOpt_WF' z z' hw.2.2.2 hz⟩
    | .ifExpr c t f, e', hw, h => by
      rw [Hoist] at h
      obtain ⟨c', t', f', rfl, hc, ht, hf⟩ := h
      simp only [Expr.WF] at hw ⊢
      exact ⟨hoist_WF' c c' hw.1 hc, hoist_WF' t t' hw.2.1 ht, hoistOpt_WF' f f' hw.2.2 hf⟩
    | .filter n a pos kws, e', hw, h => by
      rw [Hoist] at h
      obtain ⟨a', pos', kws', rfl, ha, hp, hk⟩ := h
      simp only [Expr.WF] at hw ⊢
      exact ⟨hoist_WF' a a' hw.1 ha, hoistList_WF' pos pos' hw.2.1 hp, hoistKws_WF' kws kws' hw.2.2 hk⟩
    | .test n a pos kws, e', hw, h => by
      rw [Hoist] at h
      obtain ⟨a', pos', kws', rfl, ha, hp, hk⟩ := h
      simp only [Expr.WF] at hw ⊢
      exact ⟨hoist_WF' a a' hw.1 ha, hoistList_WF' pos pos' hw.2.1 hp, hoistKws_WF' kws kws' hw.2.2 hk⟩
    | .call n pos kws, e', hw, h => by
      rw [Hoist] at h
      obtain ⟨pos', kws', rfl, hp, hk⟩ := h
      simp only [Expr.WF] at hw ⊢
      exact ⟨hoistList_WF' pos pos' hw.1 hp, hoistKws_WF' kws kws' hw.2 hk⟩
    | .callx k recv n args, e', hw, h => by
      rw [Hoist] at h
      obtain ⟨recv', args', rfl, hr, ha⟩ := h
      simp only [Expr.WF] at hw ⊢
      exact ⟨hoistList_WF' recv recv' hw.1 hr, hoistArgs_WF' args args' hw.2 ha⟩
  theorem hoistOpt_WF' : ∀ (o o' : OptExpr), o.WF → HoistOpt P ρ o o' → o'.WF
    | .none, o', _, h => by rw [HoistOpt] at h; subst h; simp [OptExpr.WF]
    | .some e, o', hw, h => by
      rw [HoistOpt] at h
      obtain ⟨e', rfl, he⟩ := h
      simp only [OptExpr.WF] at hw ⊢
      exact hoist_WF' e e' hw he
  theorem hoistList_WF' : ∀ (es es' : Exprs), es.WF → HoistList P ρ es es' → es'.WF
    | .nil, es', _, h => by rw [HoistList] at h; subst h; simp [Exprs.WF]
    | .cons e es, es', hw, h => by
      rw [HoistList] at h
      obtain ⟨e', es'', rfl, he, hes⟩ := h
      simp only [Exprs.WF] at hw ⊢
      exact ⟨hoist_WF' e e' hw.1 he, hoistList_WF' es es'' hw.2 hes⟩
  theorem hoistPairs_WF' : ∀ (ps ps' : Pairs), ps.WF → HoistPairs P ρ ps ps' → ps'.WF
    | .nil, ps', _, h => by rw [HoistPairs] at h; subst h; simp [Pairs.WF]
    | .cons k v rest, ps', hw, h => by
      rw [HoistPairs] at h
      obtain ⟨k', v', rest', rfl, hk, hv, hr⟩ := h
      simp only [Pairs.WF] at hw ⊢
      exact ⟨hoist_WF' k k' hw.1 hk, hoist_WF' v v' hw.2.1 hv, hoistPairs_WF' rest rest' hw.2.2 hr⟩
  theorem hoistChain_WF' : ∀ (ops ops' : Chain), ops.WF → HoistChain P ρ ops ops' → ops'.WF
    | .nil, ops', _, h => by rw [HoistChain] at h; subst h; simp [Chain.WF]
    | .cons op e rest, ops', hw, h => by
      rw [HoistChain] at h
      obtain ⟨e', rest', rfl, he, hr⟩ := h
      simp only [Chain.WF] at hw ⊢
      exact ⟨hoist_WF' e e' hw.1 he, hoistChain_WF' rest rest' hw.2 hr⟩
  theorem hoistKws_WF' : ∀ (ks ks' : Kws), ks.WF → HoistKws P ρ ks ks' → ks'.WF
    | .nil, ks', _, h => by rw [HoistKws] at h; subst h; simp [Kws.WF]
    | .cons n e rest, ks', hw, h => by
      rw [HoistKws] at h
      obtain ⟨e', rest', rfl, he, hr⟩ := h
      simp only [Kws.WF] at hw ⊢
      exact ⟨hoist_WF' e e' hw.1 he, hoistKws_WF' rest rest' hw.2 hr⟩
  theorem hoistArgs_WF' : ∀ (a a' : Args), a.WF → HoistArgs P ρ a a' → a'.WF
    | .nil, a', _, h => by rw [HoistArgs] at h; subst h; simp [Args.WF]
    | .pos e rest, a', hw, h => by
      rw [HoistArgs] at h
      obtain ⟨e', rest', rfl, he, hr⟩ := h
      simp only [Args.WF] at hw ⊢
      exact ⟨hoist_WF' e e' hw.1 he, hoistArgs_WF' rest rest' hw.2 hr⟩
    | .posSplat e rest, a', hw, h => by
      rw [HoistArgs] at h
      obtain ⟨e', rest', rfl, he, hr⟩ := h
      simp only [Args.WF] at hw ⊢
      exact ⟨hoist_WF' e e' hw.1 he, hoistArgs_WF' rest rest' hw.2 hr⟩
    | .kw n e rest, a', hw, h => by
      rw [HoistArgs] at h
      obtain ⟨e', rest', rfl, he, hr⟩ := h
      simp only [Args.WF] at hw ⊢
      exact ⟨hoist_WF' e e' hw.1 he, hoistArgs_WF' rest rest' hw.2 hr⟩
    | .kwSplat e rest, a', hw, h => by
      rw [HoistArgs] at h
      obtain ⟨e', rest', rfl, he, hr⟩ := h
      simp only [Args.WF] at hw ⊢
      exact ⟨hoist_WF' e e' hw.1 he, hoistArgs_WF' rest rest' hw.2 hr⟩
end

/-! ### the call of a `{% call %}` block keeps its caller -/

theorem evalCallBlock_eq (hP : P.Lawful) (hs : P.codegenSpecial "static-kwargs-off-for-caller" = true)
    (name : String) (pos : Exprs) (kws : Kws) (caller : V) (hp : pos.WF) (hk : kws.WF) :
    evalCallBlockC P m ρ name pos kws caller = evalCallBlockRt P m ρ name pos kws caller := by
  unfold evalCallBlockC evalCallBlockRt
  rw [evalCList_eq' m ρ hP pos hp, evalCKws_eq' m ρ hP kws hk]
  simp [hs, gate]

theorem evalCallBlock_hoist (hP : P.Lawful) (name : String) (pos pos' : Exprs) (kws kws' : Kws) (caller : V)
    (hp : pos.WF) (hk : kws.WF) (h1 : HoistList P ρ pos pos') (h2 : HoistKws P ρ kws kws') :
    evalCallBlockRt P m ρ name pos' kws' caller = evalCallBlockRt P m ρ name pos kws caller := by
  unfold evalCallBlockRt
  rw [hoistList_rt' m ρ hP pos pos' hp h1, hoistKws_rt' m ρ hP kws kws' hk h2]

/-- the general call form under a `{% call %}` block -/
theorem evalCallBlockX_eq (hP : P.Lawful) (hs : P.codegenSpecial "static-kwargs-off-for-caller" = true)
    (kind : CallKind) (recv : Exprs) (name : String) (args : Args) (caller : V) (hr : recv.WF) (ha : args.WF) :
    evalCallBlockXC P m ρ kind recv name args caller = evalCallBlockXRt P m ρ kind recv name args caller := by
  unfold evalCallBlockXC evalCallBlockXRt
  rw [evalCList_eq' m ρ hP recv hr, evalCArgsPos_eq' m ρ hP args ha, evalCArgsKw_eq' m ρ hP args ha]
  simp [hs, gate]

theorem evalCallBlockX_hoist (hP : P.Lawful) (kind : CallKind) (recv recv' : Exprs) (name : String)
    (args args' : Args) (caller : V) (hr : recv.WF) (ha : args.WF)
    (h1 : HoistList P ρ recv recv') (h2 : HoistArgs P ρ args args') :
    evalCallBlockXRt P m ρ kind recv' name args' caller = evalCallBlockXRt P m ρ kind recv name args caller := by
  unfold evalCallBlockXRt
  rw [hoistList_rt' m ρ hP recv recv' hr h1, hoistArgsPos_rt' m ρ hP args args' ha h2,
    hoistArgsKw_rt' m ρ hP args args' ha h2]

end
end MJ.Fold
