import MJ.Model.FoldCode
import MJ.Proofs.Fold
/-! Running the instruction stream `codeC e` computes `evalC e` (C04, `compile_transparent`). -/
namespace MJ.Fold

mutual
  /-- the call-free expression language: everything except filters, tests and calls (their callee
      takes argument pieces, not a stack; their CODE is compared with the real one, their VALUE is
      `evalC`'s) -/
  def Expr.Core : Expr → Prop
    | .const _ => True
    | .var _ => True
    | .list items => items.Core
    | .tuple items => items.Core
    | .map kvs => kvs.Core
    | .not e => e.Core
    | .neg e => e.Core
    | .bin _ l r => l.Core ∧ r.Core
    | .cmp e ops => e.Core ∧ ops.Core
    | .getAttr e _ => e.Core
    | .getItem e i => e.Core ∧ i.Core
    | .slice e a b c => e.Core ∧ a.Core ∧ b.Core ∧ c.Core
    | .ifExpr c t f => c.Core ∧ t.Core ∧ f.Core
    | .filter _ _ _ _ => False
    | .test _ _ _ _ => False
    | .call _ _ _ => False
    | .callx _ _ _ _ => False
  def OptExpr.Core : OptExpr → Prop
    | .none => True
    | .some e => e.Core
  def Exprs.Core : Exprs → Prop
    | .nil => True
    | .cons e es => e.Core ∧ es.Core
  def Pairs.Core : Pairs → Prop
    | .nil => True
    | .cons k v rest => k.Core ∧ v.Core ∧ rest.Core
  def Chain.Core : Chain → Prop
    | .nil => True
    | .cons _ e rest => e.Core ∧ rest.Core
end

section
variable (P : Prims) (m : Mode) (ρ : Env)

/-- running `code` (followed by anything) pushes the value `res`, or fails with its error -/
def Pushes (code : List Instr) (res : Except Err V) : Prop :=
  ∀ rest st, run P m ρ (code ++ rest) 0 st =
    match res with
    | .ok v => run P m ρ rest 0 (v :: st)
    | .error e => .error e

/-- … pushes the values `res` in order (the last one on top) -/
def PushesList (code : List Instr) (res : Except Err (List V)) : Prop :=
  ∀ rest st, run P m ρ (code ++ rest) 0 st =
    match res with
    | .ok vs => run P m ρ rest 0 (vs.reverse ++ st)
    | .error e => .error e

def flatPairs : List (V × V) → List V
  | [] => []
  | (k, v) :: ps => k :: v :: flatPairs ps

def PushesPairs (code : List Instr) (res : Except Err (List (V × V))) : Prop :=
  ∀ rest st, run P m ρ (code ++ rest) 0 st =
    match res with
    | .ok ps => run P m ρ rest 0 ((flatPairs ps).reverse ++ st)
    | .error e => .error e

theorem run_skip (xs rest : List Instr) (k : Nat) (st : List V) :
    run P m ρ (xs ++ rest) (xs.length + k) st = run P m ρ rest k st := by
  induction xs with
  | nil => simp
  | cons x xs ih =>
    have : (x :: xs).length + k = (xs.length + k) + 1 := by simp; omega
    rw [List.cons_append, this, run]
    exact ih

theorem run_skip0 (xs rest : List Instr) (st : List V) :
    run P m ρ (xs ++ rest) xs.length st = run P m ρ rest 0 st := by
  have := run_skip P m ρ xs rest 0 st
  simpa using this

theorem popN_rev (vs st : List V) : popN vs.length (vs.reverse ++ st) = some (vs, st) := by
  unfold popN
  have h2 : (vs.reverse ++ st).take vs.length = vs.reverse := List.take_left' (by simp)
  have h3 : (vs.reverse ++ st).drop vs.length = st := List.drop_left' (by simp)
  simp [h2, h3]

theorem pairUp_flat : ∀ ps : List (V × V), pairUp (flatPairs ps) = ps
  | [] => rfl
  | (k, v) :: ps => by simp [flatPairs, pairUp, pairUp_flat ps]

theorem flat_length : ∀ ps : List (V × V), (flatPairs ps).length = 2 * ps.length
  | [] => rfl
  | (k, v) :: ps => by simp [flatPairs, flat_length ps]; omega

theorem pushes_folded {e : Expr} {rt : List Instr} {rv : Except Err V} (h : Pushes P m ρ rt rv) :
    Pushes P m ρ (foldedI P e rt) (folded P e rv) := by
  unfold foldedI folded
  cases hf : foldFirst P e with
  | some v => intro rest st; simp [run]
  | none => exact h

theorem final_link (op : CmpOp) (left right : V) (rest : List Instr) (st : List V) :
    run P m ρ (emitCompare op ++ rest) 0 (right :: left :: st) =
      match finalCompare P m op left right with
      | .ok v => run P m ρ rest 0 (v :: st)
      | .error e => .error e := by
  cases op
  case notIn =>
    simp only [emitCompare, finalCompare, List.cons_append, List.nil_append, run, binInstr]
    cases h : inInstr P m left right with
    | error e => rfl
    | ok v =>
      dsimp only
      cases h2 : notInstr P m v <;> rfl
  all_goals
    simp only [emitCompare, cmpBin, finalCompare, List.cons_append, List.nil_append, run, binInstr]
    split <;> simp_all

theorem evalCList_len : ∀ (items : Exprs) (vs : List V), evalCList P m ρ items = .ok vs → vs.length = items.len
  | .nil, vs, h => by simp [evalCList] at h; subst h; rfl
  | .cons e es, vs, h => by
    rw [evalCList] at h
    cases he : evalC P m ρ e with
    | error x => simp [he] at h
    | ok v =>
      cases hes : evalCList P m ρ es with
      | error x => simp [he, hes] at h
      | ok ws =>
        simp [he, hes] at h; subst h
        simp [Exprs.len, evalCList_len es ws hes]

theorem evalCPairs_len : ∀ (kvs : Pairs) (ps : List (V × V)), evalCPairs P m ρ kvs = .ok ps → ps.length = kvs.len
  | .nil, ps, h => by simp [evalCPairs] at h; subst h; rfl
  | .cons k v rest, ps, h => by
    rw [evalCPairs] at h
    cases hk : evalC P m ρ k with
    | error x => simp [hk] at h
    | ok kv =>
      cases hv : evalC P m ρ v with
      | error x => simp [hk, hv] at h
      | ok vv =>
        cases hr : evalCPairs P m ρ rest with
        | error x => simp [hk, hv, hr] at h
        | ok qs =>
          simp [hk, hv, hr] at h; subst h
          simp [Pairs.len, evalCPairs_len rest qs hr]

mutual
  theorem run_codeC (hT : ∀ b, P.isTrue (.bool b) = b) : ∀ (e : Expr), e.Core → Pushes P m ρ (codeC P e) (evalC P m ρ e)
    | .const c, _ => by intro rest st; simp [codeC, evalC, run]
    | .var x, _ => by intro rest st; simp [codeC, evalC, run]
    | .list items, hc => by
      rw [codeC, evalC]; apply pushes_folded
      simp only [Expr.Core] at hc
      intro rest st
      rw [List.append_assoc, run_codeCList hT items hc]
      cases h : evalCList P m ρ items with
      | error x => rfl
      | ok vs =>
        have hl := evalCList_len P m ρ items vs h
        simp only [List.cons_append, List.nil_append, run, ← hl, popN_rev]
    | .tuple items, hc => by
      rw [codeC, evalC]; apply pushes_folded
      simp only [Expr.Core] at hc
      intro rest st
      rw [List.append_assoc, run_codeCList hT items hc]
      cases h : evalCList P m ρ items with
      | error x => rfl
      | ok vs =>
        have hl := evalCList_len P m ρ items vs h
        simp only [List.cons_append, List.nil_append, run, ← hl, popN_rev]
    | .map kvs, hc => by
      rw [codeC, evalC]; apply pushes_folded
      simp only [Expr.Core] at hc
      intro rest st
      rw [List.append_assoc, run_codeCPairs hT kvs hc]
      cases h : evalCPairs P m ρ kvs with
      | error x => rfl
      | ok ps =>
        have hl := evalCPairs_len P m ρ kvs ps h
        have h2 : 2 * kvs.len = (flatPairs ps).length := by rw [flat_length, hl]
        simp only [List.cons_append, List.nil_append, run, h2, popN_rev, pairUp_flat]
    | .not e, hc => by
      rw [codeC, evalC]; apply pushes_folded
      simp only [Expr.Core] at hc
      intro rest st
      rw [List.append_assoc, run_codeC hT e hc]
      cases evalC P m ρ e with
      | error x => rfl
      | ok v =>
        simp only [List.cons_append, List.nil_append, run]
        cases notInstr P m v <;> rfl
    | .neg e, hc => by
      have hc' := hc
      simp only [Expr.Core] at hc'
      have ih := run_codeC hT e hc'
      have gen : Pushes P m ρ (codeC P e ++ [.neg])
          (match evalC P m ρ e with | .error x => .error x | .ok v => P.neg v) := by
        intro rest st
        rw [List.append_assoc, ih]
        cases evalC P m ρ e with
        | error x => rfl
        | ok v =>
          simp only [List.cons_append, List.nil_append, run]
          cases P.neg v <;> rfl
      cases e
      case const c =>
        rw [codeC, evalC]; apply pushes_folded
        cases hs : P.codegenSpecial "neg-const-shortcut" <;> cases hn : P.neg c
        all_goals simp only [gate, Except.toOpt, if_true, if_false, Bool.false_eq_true]
        all_goals first
          | (intro rest st; simp [run]; done)
          | (have := gen; simp only [evalC] at this ⊢; exact this)
      all_goals
        rw [codeC, evalC] <;> try (intro c h; cases h; done)
        apply pushes_folded
        cases hs : P.codegenSpecial "neg-const-shortcut" <;> simp only [gate, if_true, if_false, Bool.false_eq_true] <;> exact gen
    | .bin op l r, hc => by
      simp only [Expr.Core] at hc
      have il := run_codeC hT l hc.1
      have ir := run_codeC hT r hc.2
      cases op
      case and =>
        rw [codeC, evalC]; apply pushes_folded
        intro rest st
        rw [List.append_assoc, il]
        cases hl : evalC P m ρ l with
        | error x => rfl
        | ok a =>
          simp only [List.cons_append, run]
          cases ht : isTrueM P m a with
          | error x => rfl
          | ok t =>
            cases t
            · simp only [Bool.false_eq_true, if_false, run_skip0]
            · simp only [if_true]; exact ir rest st
      case or =>
        rw [codeC, evalC]; apply pushes_folded
        intro rest st
        rw [List.append_assoc, il]
        cases hl : evalC P m ρ l with
        | error x => rfl
        | ok a =>
          simp only [List.cons_append, run]
          cases ht : isTrueM P m a with
          | error x => rfl
          | ok t =>
            cases t
            · simp only [Bool.false_eq_true, if_false]; exact ir rest st
            · simp only [if_true, run_skip0]
      all_goals
        rw [codeC, evalC] <;> try (intro h; cases h; done)
        apply pushes_folded
        intro rest st
        rw [List.append_assoc, List.append_assoc, il]
        cases hl : evalC P m ρ l with
        | error x => rfl
        | ok a =>
          simp only []
          rw [ir]
          cases hr : evalC P m ρ r with
          | error x => rfl
          | ok b =>
            simp only [List.cons_append, List.nil_append, run]
            split <;> simp_all
    | .cmp e ops, hc => by
      rw [codeC, evalC]; apply pushes_folded
      simp only [Expr.Core] at hc
      intro rest st
      rw [List.append_assoc, List.append_assoc, run_codeC hT e hc.1]
      cases he : evalC P m ρ e with
      | error x => rfl
      | ok left =>
        simp only []
        cases ops with
        | nil => simp [codeCChain, chainTail, evalCChain]
        | cons op e1 rest1 =>
          cases rest1 with
          | nil =>
            simp only [codeCChain, chainTail, evalCChain, List.nil_append, List.append_assoc]
            simp only [Chain.Core] at hc
            rw [run_codeC hT e1 hc.2.1]
            cases he1 : evalC P m ρ e1 with
            | error x => rfl
            | ok right => exact final_link P m ρ op left right rest st
          | cons op2 e2 rest2 =>
            simp only [chainTail, List.cons_append, List.nil_append]
            exact run_codeCChain hT (.cons op e1 (.cons op2 e2 rest2)) hc.2 (by simp) left rest st
    | .getAttr e name, hc => by
      rw [codeC, evalC]
      simp only [Expr.Core] at hc
      intro rest st
      rw [List.append_assoc, run_codeC hT e hc]
      cases evalC P m ρ e with
      | error x => rfl
      | ok v =>
        simp only [List.cons_append, List.nil_append, run]
        cases getAttrInstr P m v name <;> rfl
    | .getItem e idx, hc => by
      rw [codeC, evalC]
      simp only [Expr.Core] at hc
      intro rest st
      rw [List.append_assoc, List.append_assoc, run_codeC hT e hc.1]
      cases he : evalC P m ρ e with
      | error x => rfl
      | ok v =>
        simp only []
        rw [run_codeC hT idx hc.2]
        cases hi : evalC P m ρ idx with
        | error x => rfl
        | ok i =>
          simp only [List.cons_append, List.nil_append, run]
          cases getItemInstr P m v i <;> rfl
    | .slice e a b c, hc => by
      rw [codeC, evalC]
      simp only [Expr.Core] at hc
      intro rest st
      simp only [List.append_assoc]
      rw [run_codeC hT e hc.1]
      cases he : evalC P m ρ e with
      | error x => rfl
      | ok v =>
        simp only []
        rw [run_codeCOpt hT .none a hc.2.1]
        cases ha : evalCOpt P m ρ .none a with
        | error x => rfl
        | ok av =>
          simp only []
          rw [run_codeCOpt hT .none b hc.2.2.1]
          cases hb : evalCOpt P m ρ .none b with
          | error x => rfl
          | ok bv =>
            simp only []
            rw [run_codeCOpt hT .none c hc.2.2.2]
            cases hcv : evalCOpt P m ρ .none c with
            | error x => rfl
            | ok cv =>
              simp only [List.cons_append, List.nil_append, run]
              cases sliceInstr P m v av bv cv <;> rfl
    | .ifExpr c t f, hc => by
      rw [codeC, evalC]
      simp only [Expr.Core] at hc
      intro rest st
      simp only [List.append_assoc, List.cons_append]
      rw [run_codeC hT c hc.1]
      cases hcv : evalC P m ρ c with
      | error x => rfl
      | ok cv =>
        simp only [run]
        cases ht : isTrueM P m cv with
        | error x => rfl
        | ok tv =>
          cases tv
          · simp only [Bool.false_eq_true, if_false]
            have := run_skip P m ρ (codeC P t) (.jump (codeCOpt P .silent f).length :: (codeCOpt P .silent f ++ rest)) 1 st
            rw [this, run]
            exact run_codeCOpt hT .silent f hc.2.2 rest st
          · simp only [if_true]
            rw [run_codeC hT t hc.2.1]
            cases evalC P m ρ t with
            | error x => rfl
            | ok v => simp only [run, run_skip0]
    | .filter _ _ _ _, hc => by simp [Expr.Core] at hc
    | .test _ _ _ _, hc => by simp [Expr.Core] at hc
    | .call _ _ _, hc => by simp [Expr.Core] at hc
    | .callx _ _ _ _, hc => by simp [Expr.Core] at hc
  theorem run_codeCOpt (hT : ∀ b, P.isTrue (.bool b) = b) (d : V) : ∀ (o : OptExpr), o.Core →
      Pushes P m ρ (codeCOpt P d o) (evalCOpt P m ρ d o)
    | .none, _ => by intro rest st; simp [codeCOpt, evalCOpt, run]
    | .some e, hc => by
      rw [codeCOpt, evalCOpt]
      simp only [OptExpr.Core] at hc
      exact run_codeC hT e hc
  theorem run_codeCList (hT : ∀ b, P.isTrue (.bool b) = b) : ∀ (es : Exprs), es.Core →
      PushesList P m ρ (codeCList P es) (evalCList P m ρ es)
    | .nil, _ => by intro rest st; simp [codeCList, evalCList]
    | .cons e es, hc => by
      rw [codeCList, evalCList]
      simp only [Exprs.Core] at hc
      intro rest st
      rw [List.append_assoc, run_codeC hT e hc.1]
      cases he : evalC P m ρ e with
      | error x => rfl
      | ok v =>
        simp only []
        rw [run_codeCList hT es hc.2]
        cases hes : evalCList P m ρ es with
        | error x => rfl
        | ok vs => simp
  theorem run_codeCPairs (hT : ∀ b, P.isTrue (.bool b) = b) : ∀ (ps : Pairs), ps.Core →
      PushesPairs P m ρ (codeCPairs P ps) (evalCPairs P m ρ ps)
    | .nil, _ => by intro rest st; simp [codeCPairs, evalCPairs, flatPairs]
    | .cons k v r, hc => by
      rw [codeCPairs, evalCPairs]
      simp only [Pairs.Core] at hc
      intro rest st
      rw [List.append_assoc, List.append_assoc, run_codeC hT k hc.1]
      cases hk : evalC P m ρ k with
      | error x => rfl
      | ok kv =>
        simp only []
        rw [run_codeC hT v hc.2.1]
        cases hv : evalC P m ρ v with
        | error x => rfl
        | ok vv =>
          simp only []
          rw [run_codeCPairs hT r hc.2.2]
          cases hr : evalCPairs P m ρ r with
          | error x => rfl
          | ok qs => simp [flatPairs]
  /-- a chain of two or more links, followed by the cleanup tail: the preserved left operand is on the stack -/
  theorem run_codeCChain (hT : ∀ b, P.isTrue (.bool b) = b) : ∀ (ops : Chain), ops.Core → ops ≠ .nil →
      ∀ (left : V) (rest : List Instr) (st : List V),
      run P m ρ (codeCChain P ops ++ (.jump 2 :: .swap :: .discardTop :: rest)) 0 (left :: st) =
        match evalCChain P m ρ left ops with
        | .ok v => run P m ρ rest 0 (v :: st)
        | .error e => .error e
    | .nil, _, hn => by simp at hn
    | .cons op e .nil, hc, _ => by
      intro left rest st
      simp only [Chain.Core] at hc
      rw [codeCChain, evalCChain, List.append_assoc, run_codeC hT e hc.1]
      cases he : evalC P m ρ e with
      | error x => rfl
      | ok right =>
        simp only []
        rw [final_link]
        cases finalCompare P m op left right with
        | error x => rfl
        | ok v => simp [run]
    | .cons op e (.cons op2 e2 rest2), hc, _ => by
      intro left rest st
      simp only [Chain.Core] at hc
      have ih := run_codeCChain hT (.cons op2 e2 rest2) ⟨hc.2.1, hc.2.2⟩ (by simp)
      rw [codeCChain, evalCChain] <;> try (intro h; cases h; done)
      rw [List.append_assoc, run_codeC hT e hc.1]
      cases he : evalC P m ρ e with
      | error x => rfl
      | ok right =>
        simp only [List.cons_append, run]
        cases hcap : compareAndPreserve P m op left right with
        | error x => rfl
        | ok t =>
          have hb : isTrueM P m (.bool t) = .ok t := by
            cases m <;> simp [isTrueM, hT]
          simp only [hb]
          cases t
          · simp only [Bool.false_eq_true, if_false]
            have := run_skip P m ρ (codeCChain P (.cons op2 e2 rest2)) (.jump 2 :: .swap :: .discardTop :: rest) 1
              (.bool false :: right :: st)
            rw [this]
            simp [run]
          · simp only [if_true]
            exact ih right rest st
end

end

end MJ.Fold
