import MJ.Model.Slice
import MJ.Model.PySlice
/-! Helper lemmas for C09 (stepBy, picking elements by index lists, Chk.mapM). -/
namespace MJ.Slice
open MJ Chk

theorem stepBy_getElem? {α : Type} (k : Nat) (hk : 0 < k) (l : List α) (j : Nat) :
    (stepBy k l)[j]? = l[j * k]? := by
  fun_induction stepBy k l generalizing j with
  | case1 => simp
  | case2 x xs ih =>
    cases j with
    | zero => simp
    | succ j =>
      rw [List.getElem?_cons_succ, ih j, List.getElem?_drop]
      have : (j + 1) * k = (k - 1 + j * k) + 1 := by
        rw [Nat.succ_mul]; omega
      rw [this, List.getElem?_cons_succ]

/-- selecting the elements at the positions `is` -/
def pick {α : Type} (xs : List α) (is : List Nat) : List α := is.filterMap (xs[·]?)

theorem pick_getElem? {α : Type} (xs : List α) (is : List Nat) (h : ∀ i ∈ is, i < xs.length) (j : Nat) :
    (pick xs is)[j]? = (is[j]?).bind (xs[·]?) := by
  induction is generalizing j with
  | nil => simp [pick]
  | cons i is ih =>
    have hi : i < xs.length := h i (by simp)
    have : xs[i]? = some xs[i] := List.getElem?_eq_getElem hi
    unfold pick
    rw [List.filterMap_cons, this]
    cases j with
    | zero => simp [this]
    | succ j =>
      simp only [List.getElem?_cons_succ]
      exact ih (fun i hi' => h i (by simp [hi'])) j

theorem mapM_index_ok {α : Type} (xs : List α) (is : List Nat) (h : ∀ i ∈ is, i < xs.length) :
    is.mapM (index xs) = .ok (pick xs is) := by
  induction is with
  | nil => rfl
  | cons i is ih =>
    have hi : i < xs.length := h i (by simp)
    have e : xs[i]? = some xs[i] := List.getElem?_eq_getElem hi
    rw [List.mapM_cons, ih (fun i hi' => h i (by simp [hi']))]
    simp [index, e, pick]

/-- `mapM` of a total function over a list -/
theorem mapM_ok {β γ : Type} (f : β → Chk γ) (g : β → γ) (l : List β) (h : ∀ b ∈ l, f b = .ok (g b)) :
    l.mapM f = .ok (l.map g) := by
  induction l with
  | nil => rfl
  | cons b l ih =>
    rw [List.mapM_cons, h b (by simp), ih (fun b hb => h b (by simp [hb]))]
    rfl

end MJ.Slice
