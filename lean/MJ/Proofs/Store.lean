import MJ.Model.Store
/-!
Helper lemmas for C15: association lists, the refinement `Store → Spec → Flat`, copy-on-write cells.
-/
namespace MJ.Store

/-! ### association lists -/

theorem find_del_self {β : Type} (l : List (Name × β)) (n : Name) : find (del l n) n = none := by
  induction l with
  | nil => rfl
  | cons p t ih =>
    obtain ⟨k, v⟩ := p
    unfold del at ih ⊢
    rw [List.filter_cons]
    by_cases h : k = n
    · simp [h]; exact ih
    · have hb : (k != n) = true := by simp [h]
      simp only [hb, if_true, find, h, if_false]; exact ih

theorem find_del_ne {β : Type} (l : List (Name × β)) {n m : Name} (h : m ≠ n) :
    find (del l n) m = find l m := by
  induction l with
  | nil => rfl
  | cons p t ih =>
    obtain ⟨k, v⟩ := p
    unfold del at ih ⊢
    rw [List.filter_cons]
    by_cases hk : k = n
    · subst hk
      have : ¬ k = m := fun e => h e.symm
      simp [find, this]; exact ih
    · have hb : (k != n) = true := by simp [hk]
      simp only [hb, if_true, find]
      by_cases hm : k = m
      · simp [hm]
      · simp [hm]; exact ih

theorem find_ins_self {β : Type} (l : List (Name × β)) (n : Name) (v : β) :
    find (ins l n v) n = some v := by
  simp [ins, find]

theorem find_ins_ne {β : Type} (l : List (Name × β)) {n m : Name} (v : β) (h : m ≠ n) :
    find (ins l n v) m = find l m := by
  have : ¬ n = m := fun e => h e.symm
  simp [ins, find, this, find_del_ne l h]

theorem find_nil {β : Type} (n : Name) : find ([] : List (Name × β)) n = none := rfl

theorem upd_self {β : Type} (f : Name → Option β) (n : Name) (v : Option β) : upd f n v n = v := by
  simp [upd]

theorem upd_ne {β : Type} (f : Name → Option β) {n m : Name} (v : Option β) (h : m ≠ n) :
    upd f n v m = f m := by
  simp [upd, h]

theorem Spec.ext' {a b : Spec} (h1 : a.loader = b.loader) (h0 : a.cfg = b.cfg) (h2 : ∀ m, a.explicit m = b.explicit m)
    (h3 : ∀ m, a.cached m = b.cached m) : a = b := by
  cases a; cases b
  simp only [Spec.mk.injEq]
  exact ⟨h1, h0, funext h2, funext h3⟩

theorem Flat.ext' {a b : Flat} (h1 : a.loader = b.loader) (h0 : a.cfg = b.cfg) (h2 : ∀ m, a.contents m = b.contents m) :
    a = b := by
  cases a; cases b
  simp only [Flat.mk.injEq]
  exact ⟨h1, h0, funext h2⟩

/-! ### Store refines Spec -/

theorem abs_explicit (s : Store) (m : Name) :
    s.abs.explicit m =
      match find s.borrowed m with
      | some src => some src
      | none => match find s.owned m with
        | some (src, .explicit) => some src
        | _ => none := rfl

theorem abs_cached (s : Store) (m : Name) :
    s.abs.cached m =
      match find s.borrowed m with
      | some _ => none
      | none => match find s.owned m with
        | some (src, .loaded) => some src
        | _ => none := rfl

theorem get_refines (c : LtCfg → Source → Bool) (s : Store) (n : Name) :
    (s.get c n).2 = (s.abs.get c n).2 ∧ (s.get c n).1.abs = (s.abs.get c n).1 := by
  unfold Store.get Spec.get
  rw [abs_explicit, abs_cached]
  cases hb : find s.borrowed n with
  | some src => simp
  | none =>
    cases ho : find s.owned n with
    | some p =>
      obtain ⟨src, o⟩ := p
      cases o <;> simp
    | none =>
      simp only []
      have hl : s.abs.loader = s.loader := rfl
      rw [hl]
      cases s.loader with
      | none => simp
      | some l =>
        simp only []
        cases l n with
        | err => simp
        | panics => simp
        | missing => simp
        | src src =>
          simp only []
          simp only [show s.abs.cfg = s.cfg from rfl]
          by_cases hc : c s.cfg src = true
          · simp only [hc, if_true, true_and]
            apply Spec.ext'
            · rfl
            · rfl
            · intro m
              simp only [abs_explicit]
              by_cases hm : m = n
              · subst hm; simp [hb, ho, find_ins_self]
              · simp [find_ins_ne _ _ hm] <;> rfl
            · intro m
              simp only [abs_cached]
              by_cases hm : m = n
              · subst hm; simp [hb, find_ins_self, upd_self]
              · simp [find_ins_ne _ _ hm, upd_ne _ _ hm] <;> rfl
          · simp [hc]

theorem step_refines (c : LtCfg → Source → Bool) (s : Store) (op : Op) :
    (s.step c op).2 = (s.abs.step c op).2 ∧ (s.step c op).1.abs = (s.abs.step c op).1 := by
  cases op with
  | get n => exact get_refines c s n
  | addBorrowed n src =>
    simp only [Store.step, Spec.step]
    simp only [show s.abs.cfg = s.cfg from rfl]
    by_cases hc : c s.cfg src = true
    · simp only [hc, if_true, true_and]
      apply Spec.ext'
      · rfl
      · rfl
      · intro m
        simp only [abs_explicit]
        by_cases hm : m = n
        · subst hm; simp [find_ins_self, upd_self]
        · simp [find_ins_ne _ _ hm, find_del_ne _ hm, upd_ne _ _ hm] <;> rfl
      · intro m
        simp only [abs_cached]
        by_cases hm : m = n
        · subst hm; simp [find_ins_self, upd_self]
        · simp [find_ins_ne _ _ hm, find_del_ne _ hm, upd_ne _ _ hm] <;> rfl
    · simp [hc]
  | addOwned n src =>
    simp only [Store.step, Spec.step]
    simp only [show s.abs.cfg = s.cfg from rfl]
    by_cases hc : c s.cfg src = true
    · simp only [hc, if_true, true_and]
      apply Spec.ext'
      · rfl
      · rfl
      · intro m
        simp only [abs_explicit]
        by_cases hm : m = n
        · subst hm; simp [find_ins_self, find_del_self, upd_self]
        · simp [find_ins_ne _ _ hm, find_del_ne _ hm, upd_ne _ _ hm] <;> rfl
      · intro m
        simp only [abs_cached]
        by_cases hm : m = n
        · subst hm; simp [find_ins_self, find_del_self, upd_self]
        · simp [find_ins_ne _ _ hm, find_del_ne _ hm, upd_ne _ _ hm] <;> rfl
    · simp [hc]
  | remove n =>
    simp only [Store.step, Spec.step]
    refine ⟨by first | rfl | trivial, ?_⟩
    apply Spec.ext'
    · rfl
    · rfl
    · intro m
      simp only [abs_explicit]
      by_cases hm : m = n
      · subst hm; simp [find_del_self, upd_self]
      · simp [find_del_ne _ hm, upd_ne _ _ hm] <;> rfl
    · intro m
      simp only [abs_cached]
      by_cases hm : m = n
      · subst hm; simp [find_del_self, upd_self]
      · simp [find_del_ne _ hm, upd_ne _ _ hm] <;> rfl
  | clear =>
    simp only [Store.step, Spec.step]
    refine ⟨by first | rfl | trivial, ?_⟩
    apply Spec.ext'
    · rfl
    · rfl
    · intro m; simp [abs_explicit, find_nil]
    · intro m; simp [abs_cached, find_nil]
  | setLoader l =>
    simp only [Store.step, Spec.step]
    exact ⟨by first | rfl | trivial, by first | rfl | trivial⟩
  | setCfg l =>
    simp only [Store.step, Spec.step]
    exact ⟨by first | rfl | trivial, by first | rfl | trivial⟩

/-! ### Spec refines Flat -/

theorem flat_contents (sp : Spec) (m : Name) :
    sp.flat.contents m = match sp.explicit m with | some s => some s | none => sp.cached m := rfl

theorem spec_step_refines (c : LtCfg → Source → Bool) (sp : Spec) (op : Op) :
    (sp.step c op).2 = (sp.flat.step c op).2 ∧ (sp.step c op).1.flat = (sp.flat.step c op).1 := by
  cases op with
  | get n =>
    show (sp.get c n).2 = (sp.flat.get c n).2 ∧ (sp.get c n).1.flat = (sp.flat.get c n).1
    unfold Spec.get Flat.get
    rw [flat_contents]
    cases he : sp.explicit n with
    | some src => simp
    | none =>
      cases hc : sp.cached n with
      | some src => simp
      | none =>
        simp only []
        have hl : sp.flat.loader = sp.loader := rfl
        rw [hl]
        cases sp.loader with
        | none => simp
        | some l =>
          simp only []
          cases l n with
          | err => simp
          | panics => simp
          | missing => simp
          | src src =>
            simp only []
            simp only [show sp.flat.cfg = sp.cfg from rfl]
            by_cases hcs : c sp.cfg src = true
            · simp only [hcs, if_true, true_and]
              apply Flat.ext'
              · rfl
              · rfl
              · intro m
                simp only [flat_contents]
                by_cases hm : m = n
                · subst hm; simp [he, upd_self]
                · simp [upd_ne _ _ hm] <;> rfl
            · simp [hcs]
  | addBorrowed n src =>
    simp only [Spec.step, Flat.step]
    simp only [show sp.flat.cfg = sp.cfg from rfl]
    by_cases hc : c sp.cfg src = true
    · simp only [hc, if_true, true_and]
      apply Flat.ext'
      · rfl
      · rfl
      · intro m
        simp only [flat_contents]
        by_cases hm : m = n
        · subst hm; simp [upd_self]
        · simp [upd_ne _ _ hm] <;> rfl
    · simp [hc]
  | addOwned n src =>
    simp only [Spec.step, Flat.step]
    simp only [show sp.flat.cfg = sp.cfg from rfl]
    by_cases hc : c sp.cfg src = true
    · simp only [hc, if_true, true_and]
      apply Flat.ext'
      · rfl
      · rfl
      · intro m
        simp only [flat_contents]
        by_cases hm : m = n
        · subst hm; simp [upd_self]
        · simp [upd_ne _ _ hm] <;> rfl
    · simp [hc]
  | remove n =>
    simp only [Spec.step, Flat.step]
    refine ⟨by first | rfl | trivial, ?_⟩
    apply Flat.ext'
    · rfl
    · rfl
    · intro m
      simp only [flat_contents]
      by_cases hm : m = n
      · subst hm; simp [upd_self]
      · simp [upd_ne _ _ hm] <;> rfl
  | clear =>
    simp only [Spec.step, Flat.step]
    refine ⟨by first | rfl | trivial, ?_⟩
    apply Flat.ext'
    · rfl
    · rfl
    · intro m; simp [flat_contents]
  | setLoader l =>
    simp only [Spec.step, Flat.step]
    exact ⟨by first | rfl | trivial, by first | rfl | trivial⟩
  | setCfg l =>
    simp only [Spec.step, Flat.step]
    exact ⟨by first | rfl | trivial, by first | rfl | trivial⟩

/-- the flat view of a store -/
def Store.flat (s : Store) : Flat := s.abs.flat

theorem store_step_flat (c : LtCfg → Source → Bool) (s : Store) (op : Op) :
    (s.step c op).2 = (s.flat.step c op).2 ∧ (s.step c op).1.flat = (s.flat.step c op).1 := by
  obtain ⟨h1, h2⟩ := step_refines c s op
  obtain ⟨h3, h4⟩ := spec_step_refines c s.abs op
  exact ⟨h1.trans h3, by unfold Store.flat; rw [h2, h4]⟩

theorem results_flat (c : LtCfg → Source → Bool) (ops : List Op) :
    ∀ s : Store, s.results c ops = s.flat.results c ops := by
  induction ops with
  | nil => intro s; rfl
  | cons op ops ih =>
    intro s
    obtain ⟨h1, h2⟩ := store_step_flat c s op
    simp only [Store.results, Flat.results]
    rw [ih, h1, h2]

theorem run_flat (c : LtCfg → Source → Bool) (ops : List Op) :
    ∀ s : Store, (s.run c ops).flat = s.flat.run c ops := by
  induction ops with
  | nil => intro s; rfl
  | cons op ops ih =>
    intro s
    simp only [Store.run, Flat.run]
    rw [ih, (store_step_flat c s op).2]

/-! ### stickiness at the flat level -/

theorem flat_step_keeps (c : LtCfg → Source → Bool) (f : Flat) (op : Op) (n : Name) (src : Tmpl)
    (h : f.contents n = some src) (he : op.evicts n = false) :
    (f.step c op).1.contents n = some src := by
  cases op with
  | addBorrowed m s2 =>
    have hm : n ≠ m := by
      intro e; subst e; simp [Op.evicts] at he
    unfold Flat.step
    by_cases hc : c f.cfg s2 = true
    · simp [hc, upd_ne _ _ hm, h]
    · simp [hc, h]
  | addOwned m s2 =>
    have hm : n ≠ m := by
      intro e; subst e; simp [Op.evicts] at he
    unfold Flat.step
    by_cases hc : c f.cfg s2 = true
    · simp [hc, upd_ne _ _ hm, h]
    · simp [hc, h]
  | remove m =>
    have hm : n ≠ m := by
      intro e; subst e; simp [Op.evicts] at he
    unfold Flat.step
    simp [upd_ne _ _ hm, h]
  | clear => simp [Op.evicts] at he
  | setLoader l => unfold Flat.step; exact h
  | setCfg l => unfold Flat.step; exact h
  | get m =>
    show (f.get c m).1.contents n = some src
    unfold Flat.get
    cases hcm : f.contents m with
    | some s2 => simpa using h
    | none =>
      simp only []
      cases f.loader with
      | none => simpa using h
      | some l =>
        simp only []
        cases l m with
        | err => simpa using h
        | panics => simpa using h
        | missing => simpa using h
        | src s2 =>
          simp only []
          have hm : n ≠ m := by
            intro e; subst e; rw [h] at hcm; cases hcm
          by_cases hc : c f.cfg s2 = true
          · simp [hc, upd_ne _ _ hm, h]
          · simp [hc, h]

theorem flat_run_keeps (c : LtCfg → Source → Bool) (ops : List Op) (n : Name) (src : Tmpl) :
    ∀ f : Flat, f.contents n = some src → (∀ op ∈ ops, op.evicts n = false) →
      (f.run c ops).contents n = some src := by
  induction ops with
  | nil => intro f h _; exact h
  | cons op ops ih =>
    intro f h he
    simp only [Flat.run]
    apply ih
    · exact flat_step_keeps c f op n src h (he op (by simp))
    · intro o ho; exact he o (by simp [ho])

theorem flat_get_found (c : LtCfg → Source → Bool) (f : Flat) (n : Name) (src : Tmpl)
    (h : (f.step c (.get n)).2 = .found src) : (f.step c (.get n)).1.contents n = some src := by
  change (f.get c n).2 = .found src at h
  show (f.get c n).1.contents n = some src
  unfold Flat.get at h ⊢
  cases hcm : f.contents n with
  | some s2 =>
    simp only [hcm] at h ⊢
    cases h; rfl
  | none =>
    simp only [hcm] at h ⊢
    cases hl : f.loader with
    | none => simp [hl] at h
    | some l =>
      simp only [hl] at h ⊢
      cases hn : l n with
      | err => simp [hn] at h
      | panics => simp [hn] at h
      | missing => simp [hn] at h
      | src s2 =>
        simp only [hn] at h ⊢
        by_cases hc : c f.cfg s2 = true
        · simp only [hc, if_true] at h ⊢
          cases h
          simp [upd_self]
        · simp [hc] at h

theorem flat_get_of_contents (c : LtCfg → Source → Bool) (f : Flat) (n : Name) (src : Tmpl)
    (h : f.contents n = some src) : (f.step c (.get n)).2 = .found src := by
  show (f.get c n).2 = .found src
  unfold Flat.get
  simp [h]

/-! ### copy-on-write cells -/

theorem count_one_unique {l : List Nat} {a i j : Nat} (hc : l.count a = 1)
    (hi : l[i]? = some a) (hj : l[j]? = some a) : i = j := by
  induction l generalizing i j with
  | nil => simp at hi
  | cons x t ih =>
    by_cases hx : x = a
    · subst hx
      have ht : t.count x = 0 := by simpa [List.count_cons] using hc
      have hnot : x ∉ t := List.count_eq_zero.mp ht
      cases i with
      | zero =>
        cases j with
        | zero => rfl
        | succ j =>
          simp only [List.getElem?_cons_succ] at hj
          exact absurd (List.mem_of_getElem? hj) hnot
      | succ i =>
        simp only [List.getElem?_cons_succ] at hi
        exact absurd (List.mem_of_getElem? hi) hnot
    · have ht : t.count a = 1 := by simpa [List.count_cons, hx] using hc
      cases i with
      | zero => simp at hi; exact absurd hi hx
      | succ i =>
        cases j with
        | zero => simp at hj; exact absurd hj hx
        | succ j =>
          simp only [List.getElem?_cons_succ] at hi hj
          rw [ih ht hi hj]

theorem Cow.makeMut_WF {β : Type} (w : Cow β) (i : Nat) (f : β → β) (h : w.WF) : (w.makeMut i f).WF := by
  unfold Cow.makeMut
  cases hp : w.ptr[i]? with
  | none => exact h
  | some a =>
    simp only []
    cases hv : w.cells[a]? with
    | none => exact h
    | some v =>
      simp only []
      by_cases hc : w.ptr.count a = 1
      · simp only [hc, if_true]
        intro b hb
        simp only [List.length_set]
        exact h b hb
      · simp only [hc, if_false]
        intro b hb
        simp only [List.length_append, List.length_cons, List.length_nil]
        rcases List.mem_or_eq_of_mem_set hb with hb | hb
        · have := h b hb; omega
        · omega

theorem Cow.makeMut_ptr_length {β : Type} (w : Cow β) (i : Nat) (f : β → β) :
    (w.makeMut i f).ptr.length = w.ptr.length := by
  unfold Cow.makeMut
  cases w.ptr[i]? with
  | none => rfl
  | some a =>
    simp only []
    cases w.cells[a]? with
    | none => rfl
    | some v =>
      simp only []
      by_cases hc : w.ptr.count a = 1
      · simp [hc]
      · simp [hc]

/-- `Arc::make_mut` changes what handle `i` sees and nothing any other handle sees -/
theorem Cow.makeMut_view {β : Type} (w : Cow β) (i j : Nat) (f : β → β) (h : w.WF) :
    (w.makeMut i f).view j = if j = i then (w.view i).map f else w.view j := by
  unfold Cow.makeMut
  cases hp : w.ptr[i]? with
  | none =>
    by_cases hji : j = i
    · subst hji; simp [Cow.view, hp]
    · simp [hji]
  | some a =>
    have ha : a < w.cells.length := h a (List.mem_of_getElem? hp)
    have hv : w.cells[a]? = some w.cells[a] := List.getElem?_eq_getElem ha
    simp only [hv]
    by_cases hc : w.ptr.count a = 1
    · simp only [hc, if_true]
      by_cases hji : j = i
      · subst hji
        simp [Cow.view, hp, ha]
      · simp only [hji, if_false, Cow.view]
        cases hq : w.ptr[j]? with
        | none => rfl
        | some b =>
          simp only []
          have hba : a ≠ b := by
            intro e; subst e
            exact hji (count_one_unique hc hq hp)
          simp [List.getElem?_set_ne hba]
    · simp only [hc, if_false]
      by_cases hji : j = i
      · subst hji
        obtain ⟨hi, hpj⟩ := List.getElem?_eq_some_iff.mp hp
        subst hpj
        simp [Cow.view, hv, hi]
      · simp only [hji, if_false, Cow.view]
        have hne : i ≠ j := fun e => hji e.symm
        rw [List.getElem?_set_ne hne]
        cases hq : w.ptr[j]? with
        | none => rfl
        | some b =>
          simp only []
          have hb : b < w.cells.length := h b (List.mem_of_getElem? hq)
          rw [List.getElem?_append_left hb]

theorem Cow.clone_WF {β : Type} (w : Cow β) (i : Nat) (h : w.WF) : (w.clone i).WF := by
  unfold Cow.clone
  cases hp : w.ptr[i]? with
  | none => exact h
  | some a =>
    intro b hb
    simp only [List.mem_append, List.mem_singleton] at hb
    rcases hb with hb | hb
    · exact h b hb
    · subst hb; exact h b (List.mem_of_getElem? hp)

theorem Cow.clone_ptr_length {β : Type} (w : Cow β) (i : Nat) (hi : i < w.ptr.length) :
    (w.clone i).ptr.length = w.ptr.length + 1 := by
  unfold Cow.clone
  simp [List.getElem?_eq_getElem hi]

/-- cloning adds a handle that sees what handle `i` sees and leaves every existing handle alone -/
theorem Cow.clone_view {β : Type} (w : Cow β) (i j : Nat) (hi : i < w.ptr.length) :
    (w.clone i).view j = if j = w.ptr.length then w.view i else w.view j := by
  unfold Cow.clone
  have hp : w.ptr[i]? = some w.ptr[i] := List.getElem?_eq_getElem hi
  simp only [hp]
  by_cases hj : j = w.ptr.length
  · subst hj
    simp [Cow.view, hp]
  · simp only [hj, if_false, Cow.view]
    by_cases hlt : j < w.ptr.length
    · rw [List.getElem?_append_left hlt]
    · have hgt : w.ptr.length < j := by omega
      have h1 : (w.ptr ++ [w.ptr[i]])[j]? = none := by
        apply List.getElem?_eq_none; simp; omega
      have h2 : w.ptr[j]? = none := by
        apply List.getElem?_eq_none; omega
      rw [h1, h2]

theorem Cow.view_isSome {β : Type} (w : Cow β) (h : w.WF) {i : Nat} (hi : i < w.ptr.length) :
    ∃ v, w.view i = some v := by
  have hp : w.ptr[i]? = some w.ptr[i] := List.getElem?_eq_getElem hi
  have ha : w.ptr[i] < w.cells.length := h _ (List.getElem_mem hi)
  exact ⟨w.cells[w.ptr[i]], by simp [Cow.view, hp, List.getElem?_eq_getElem ha]⟩

/-! ### registries as maps -/

theorem regView_makeMut (c : Cow Registry) (h : c.WF) (e j : Nat) (f : Registry → Registry) :
    regView (c.makeMut e f) j =
      if j = e then (match c.view e with | none => fun _ => none | some r => find (f r))
      else regView c j := by
  unfold regView
  rw [Cow.makeMut_view c e j f h]
  by_cases hje : j = e
  · subst hje
    simp only [if_true]
    cases c.view j <;> rfl
  · simp [hje]

theorem regView_add (c : Cow Registry) (h : c.WF) (e j : Nat) (he : e < c.ptr.length)
    (name : Name) (v : Nat) :
    regView (c.makeMut e (fun r => ins r name v)) j =
      if j = e then upd (regView c e) name (some v) else regView c j := by
  rw [regView_makeMut c h]
  by_cases hje : j = e
  · simp only [hje, if_true]
    obtain ⟨r, hr⟩ := Cow.view_isSome c h he
    unfold regView
    rw [hr]
    funext m
    by_cases hm : m = name
    · subst hm; simp [find_ins_self, upd_self]
    · simp [find_ins_ne _ _ hm, upd_ne _ _ hm]
  · simp [hje]

theorem regView_remove (c : Cow Registry) (h : c.WF) (e j : Nat) (he : e < c.ptr.length)
    (name : Name) :
    regView (c.makeMut e (fun r => del r name)) j =
      if j = e then upd (regView c e) name none else regView c j := by
  rw [regView_makeMut c h]
  by_cases hje : j = e
  · simp only [hje, if_true]
    obtain ⟨r, hr⟩ := Cow.view_isSome c h he
    unfold regView
    rw [hr]
    funext m
    by_cases hm : m = name
    · subst hm; simp [find_del_self, upd_self]
    · simp [find_del_ne _ hm, upd_ne _ _ hm]
  · simp [hje]

theorem regView_clone (c : Cow Registry) (e j : Nat) (he : e < c.ptr.length) :
    regView (c.clone e) j = if j = c.ptr.length then regView c e else regView c j := by
  unfold regView
  rw [Cow.clone_view c e j he]
  by_cases hj : j = c.ptr.length <;> simp [hj]

/-! ### several environments -/

theorem World.modReg_stores (w : World) (k : RegKind) (e : Nat) (f : Registry → Registry) :
    (w.modReg k e f).stores = w.stores := by
  cases k <;> rfl

theorem World.modReg_rts (w : World) (k : RegKind) (e : Nat) (f : Registry → Registry) :
    (w.modReg k e f).rts = w.rts := by
  cases k <;> rfl

theorem World.modReg_WF (w : World) (k : RegKind) (e : Nat) (f : Registry → Registry) (h : w.WF) :
    (w.modReg k e f).WF := by
  obtain ⟨h1, h2, h3, h4, h5, h6, h7⟩ := h
  cases k
  · exact ⟨Cow.makeMut_WF _ _ _ h1, h2, h3, by simpa [World.modReg, Cow.makeMut_ptr_length] using h4, h5, h6, h7⟩
  · exact ⟨h1, Cow.makeMut_WF _ _ _ h2, h3, h4, by simpa [World.modReg, Cow.makeMut_ptr_length] using h5, h6, h7⟩
  · exact ⟨h1, h2, Cow.makeMut_WF _ _ _ h3, h4, h5, by simpa [World.modReg, Cow.makeMut_ptr_length] using h6, h7⟩

theorem World.modReg_view_other (w : World) (k : RegKind) (e j : Nat) (f : Registry → Registry)
    (h : w.WF) (hje : j ≠ e) : (w.modReg k e f).view j = w.view j := by
  obtain ⟨h1, h2, h3, _, _, _, _⟩ := h
  cases k <;> simp only [World.modReg, World.view]
  · rw [regView_makeMut _ h1]; simp [hje]
  · rw [regView_makeMut _ h2]; simp [hje]
  · rw [regView_makeMut _ h3]; simp [hje]

theorem World.step_WF (c : LtCfg → Source → Bool) (w : World) (op : WOp) (h : w.WF) : (w.step c op).1.WF := by
  cases op with
  | store e op =>
    simp only [World.step]
    cases hs : w.stores[e]? with
    | none => exact h
    | some s =>
      obtain ⟨h1, h2, h3, h4, h5, h6, h7⟩ := h
      exact ⟨h1, h2, h3, by simpa using h4, by simpa using h5, by simpa using h6, by simpa using h7⟩
  | regAdd k e name v => exact World.modReg_WF w k e _ h
  | regRemove k e name => exact World.modReg_WF w k e _ h
  | setRt e r =>
    obtain ⟨h1, h2, h3, h4, h5, h6, h7⟩ := h
    exact ⟨h1, h2, h3, h4, h5, h6, by simpa [World.step] using h7⟩
  | clone e =>
    simp only [World.step]
    cases hs : w.stores[e]? with
    | none => exact h
    | some s =>
      obtain ⟨h1, h2, h3, h4, h5, h6, h7⟩ := h
      have he : e < w.stores.length := (List.getElem?_eq_some_iff.mp hs).1
      refine ⟨Cow.clone_WF _ _ h1, Cow.clone_WF _ _ h2, Cow.clone_WF _ _ h3, ?_, ?_, ?_, ?_⟩
      · simp [Cow.clone_ptr_length _ _ (h4 ▸ he), h4]
      · simp [Cow.clone_ptr_length _ _ (h5 ▸ he), h5]
      · simp [Cow.clone_ptr_length _ _ (h6 ▸ he), h6]
      · simp [h7]

theorem World.step_length_le (c : LtCfg → Source → Bool) (w : World) (op : WOp) :
    w.stores.length ≤ (w.step c op).1.stores.length := by
  cases op with
  | store e op =>
    simp only [World.step]
    cases w.stores[e]? <;> simp
  | regAdd k e name v => simp [World.step, World.modReg_stores]
  | regRemove k e name => simp [World.step, World.modReg_stores]
  | setRt e r => simp [World.step]
  | clone e =>
    simp only [World.step]
    cases w.stores[e]? <;> simp

/-- an operation on environment `e` leaves every other live environment exactly as it was -/
theorem World.step_view_other (c : LtCfg → Source → Bool) (w : World) (op : WOp) (h : w.WF) (j : Nat)
    (hj : j < w.stores.length) (hne : op.target ≠ j) : (w.step c op).1.view j = w.view j := by
  cases op with
  | store e op =>
    have hje : e ≠ j := hne
    simp only [World.step]
    cases hs : w.stores[e]? with
    | none => rfl
    | some s => simp [World.view, List.getElem?_set_ne hje]
  | regAdd k e name v => exact World.modReg_view_other w k e j _ h (fun x => hne x.symm)
  | regRemove k e name => exact World.modReg_view_other w k e j _ h (fun x => hne x.symm)
  | setRt e r =>
    have hje : e ≠ j := hne
    simp [World.step, World.view, List.getElem?_set_ne hje]
  | clone e =>
    simp only [World.step]
    cases hs : w.stores[e]? with
    | none => rfl
    | some s =>
      obtain ⟨h1, h2, h3, h4, h5, h6, h7⟩ := h
      have he : e < w.stores.length := (List.getElem?_eq_some_iff.mp hs).1
      have hjr : j < w.rts.length := by omega
      simp only [World.view, List.getElem?_append_left hj, List.getElem?_append_left hjr]
      rw [regView_clone _ _ _ (h4 ▸ he), regView_clone _ _ _ (h5 ▸ he), regView_clone _ _ _ (h6 ▸ he)]
      have n1 : j ≠ w.filters.ptr.length := by omega
      have n2 : j ≠ w.tests.ptr.length := by omega
      have n3 : j ≠ w.globals.ptr.length := by omega
      simp [n1, n2, n3]

/-- the clone is, at the moment of cloning, indistinguishable from the original -/
theorem World.clone_view_new (c : LtCfg → Source → Bool) (w : World) (e : Nat) (h : w.WF)
    (he : e < w.stores.length) : (w.step c (.clone e)).1.view w.stores.length = w.view e := by
  obtain ⟨h1, h2, h3, h4, h5, h6, h7⟩ := h
  have hs : w.stores[e]? = some w.stores[e] := List.getElem?_eq_getElem he
  have her : e < w.rts.length := by omega
  simp only [World.step, hs, World.view]
  rw [regView_clone _ _ _ (h4 ▸ he), regView_clone _ _ _ (h5 ▸ he), regView_clone _ _ _ (h6 ▸ he)]
  simp [h4, h5, h6, ← h7, List.getElem?_eq_getElem her]

/-! ### state identity -/

def IdSys.Inv (s : IdSys) : Prop := s.created.map (·.2) = List.range s.next

theorem IdSys.init_inv : IdSys.init.Inv := rfl

theorem IdSys.newState_inv (s : IdSys) (t : Nat) (h : s.Inv) : (s.newState t).Inv := by
  unfold IdSys.Inv at h ⊢
  simp [IdSys.newState, List.map_append, h, List.range_succ]

theorem IdSys.run_inv (ts : List Nat) : ∀ s : IdSys, s.Inv → (s.run ts).Inv := by
  induction ts with
  | nil => intro s h; exact h
  | cons t ts ih => intro s h; exact ih _ (IdSys.newState_inv s t h)

/-- the `p`-th state ever created has id `p`, whichever thread created it -/
theorem IdSys.id_eq_index (s : IdSys) (h : s.Inv) {p t i : Nat} (hp : s.created[p]? = some (t, i)) :
    i = p := by
  have h1 : (s.created.map (·.2))[p]? = some i := by simp [List.getElem?_map, hp]
  rw [h] at h1
  have h2 := List.getElem?_eq_some_iff.mp h1
  obtain ⟨_, h3⟩ := h2
  simpa using h3.symm



/-! ### failed lookups are not cached -/

theorem get_failure_not_cached (c : LtCfg → Source → Bool) (s : Store) (n : Name)
    (h : ∀ t, (s.get c n).2 ≠ .found t) : (s.get c n).1 = s := by
  unfold Store.get at h ⊢
  cases hb : find s.borrowed n with
  | some t => simp
  | none =>
    cases ho : find s.owned n with
    | some p => simp
    | none =>
      simp only []
      cases hl : s.loader with
      | none => simp
      | some l =>
        simp only []
        cases hn : l n with
        | err => simp
        | panics => simp
        | missing => simp
        | src src =>
          simp only []
          by_cases hc : c s.cfg src = true
          · exfalso
            simp only [hb, ho, hl, hn, hc, if_true] at h
            exact h _ rfl
          · simp [hc]

/-! ### `templates()` never lists a name twice -/

def keys {β : Type} (l : List (Name × β)) : List Name := l.map (·.1)

theorem keys_del {β : Type} (l : List (Name × β)) (n : Name) :
    keys (del l n) = (keys l).filter (fun m => m != n) := by
  unfold keys del
  rw [List.filter_map]
  rfl

theorem keys_ins {β : Type} (l : List (Name × β)) (n : Name) (v : β) :
    keys (ins l n v) = n :: (keys l).filter (fun m => m != n) := by
  unfold ins
  show n :: keys (del l n) = _
  rw [keys_del]

theorem not_mem_keys_of_find_none {β : Type} (l : List (Name × β)) (n : Name) (h : find l n = none) :
    n ∉ keys l := by
  induction l with
  | nil => simp [keys]
  | cons p t ih =>
    obtain ⟨k, v⟩ := p
    unfold find at h
    by_cases hk : k = n
    · simp [hk] at h
    · simp only [hk, if_false] at h
      have := ih h
      simp only [keys, List.map_cons, List.mem_cons, not_or] at this ⊢
      exact ⟨fun e => hk e.symm, this⟩

theorem nodup_filter_ne {l : List Name} (h : l.Nodup) (n : Name) : (l.filter (fun m => m != n)).Nodup :=
  h.filter _

theorem nodup_cons_filter {l : List Name} (h : l.Nodup) (n : Name) :
    (n :: l.filter (fun m => m != n)).Nodup := by
  rw [List.nodup_cons]
  refine ⟨?_, h.filter _⟩
  simp [List.mem_filter]

def Store.Inv (s : Store) : Prop :=
  (keys s.borrowed).Nodup ∧ (keys s.owned).Nodup ∧ ∀ n ∈ keys s.borrowed, n ∉ keys s.owned

theorem Store.empty_inv : Store.empty.Inv := by
  simp [Store.Inv, Store.empty, keys]

theorem Store.get_inv (c : LtCfg → Source → Bool) (s : Store) (n : Name) (h : s.Inv) :
    (s.get c n).1.Inv := by
  unfold Store.get
  cases hb : find s.borrowed n with
  | some t => exact h
  | none =>
    cases ho : find s.owned n with
    | some p => exact h
    | none =>
      simp only []
      cases s.loader with
      | none => exact h
      | some l =>
        simp only []
        cases l n with
        | err => exact h
        | panics => exact h
        | missing => exact h
        | src src =>
          simp only []
          by_cases hc : c s.cfg src = true
          · simp only [hc, if_true]
            obtain ⟨h1, h2, h3⟩ := h
            refine ⟨h1, ?_, ?_⟩
            · show (keys (ins s.owned n _)).Nodup
              rw [keys_ins]; exact nodup_cons_filter h2 n
            · intro m hm
              show m ∉ keys (ins s.owned n _)
              rw [keys_ins]
              have hnb := not_mem_keys_of_find_none _ _ hb
              have hmn : m ≠ n := fun e => hnb (e ▸ hm)
              simp only [List.mem_cons, List.mem_filter, not_or, not_and]
              exact ⟨hmn, fun hmo => absurd hmo (h3 m hm)⟩
          · simp only [hc]; exact h

theorem Store.step_inv (c : LtCfg → Source → Bool) (s : Store) (op : Op) (h : s.Inv) :
    (s.step c op).1.Inv := by
  obtain ⟨h1, h2, h3⟩ := h
  cases op with
  | get n => exact Store.get_inv c s n ⟨h1, h2, h3⟩
  | addBorrowed n src =>
    simp only [Store.step]
    by_cases hc : c s.cfg src = true
    · simp only [hc, if_true]
      refine ⟨?_, ?_, ?_⟩
      · show (keys (ins s.borrowed n _)).Nodup
        rw [keys_ins]; exact nodup_cons_filter h1 n
      · show (keys (del s.owned n)).Nodup
        rw [keys_del]; exact h2.filter _
      · intro m hm
        change m ∈ keys (ins s.borrowed n _) at hm
        show m ∉ keys (del s.owned n)
        rw [keys_ins] at hm
        rw [keys_del]
        simp only [List.mem_cons, List.mem_filter] at hm
        simp only [List.mem_filter, not_and]
        rcases hm with rfl | ⟨hm, _⟩
        · intro _; simp
        · intro hmo; exact absurd hmo (h3 m hm)
    · simp only [hc]; exact ⟨h1, h2, h3⟩
  | addOwned n src =>
    simp only [Store.step]
    by_cases hc : c s.cfg src = true
    · simp only [hc, if_true]
      refine ⟨?_, ?_, ?_⟩
      · show (keys (del s.borrowed n)).Nodup
        rw [keys_del]; exact h1.filter _
      · show (keys (ins s.owned n _)).Nodup
        rw [keys_ins]; exact nodup_cons_filter h2 n
      · intro m hm
        change m ∈ keys (del s.borrowed n) at hm
        show m ∉ keys (ins s.owned n _)
        rw [keys_del] at hm
        rw [keys_ins]
        simp only [List.mem_filter, bne_iff_ne, ne_eq] at hm
        simp only [List.mem_cons, List.mem_filter, not_or, not_and]
        exact ⟨hm.2, fun hmo => absurd hmo (h3 m hm.1)⟩
    · simp only [hc]; exact ⟨h1, h2, h3⟩
  | remove n =>
    simp only [Store.step]
    refine ⟨?_, ?_, ?_⟩
    · show (keys (del s.borrowed n)).Nodup
      rw [keys_del]; exact h1.filter _
    · show (keys (del s.owned n)).Nodup
      rw [keys_del]; exact h2.filter _
    · intro m hm
      change m ∈ keys (del s.borrowed n) at hm
      show m ∉ keys (del s.owned n)
      rw [keys_del] at hm ⊢
      simp only [List.mem_filter] at hm
      simp only [List.mem_filter, not_and]
      intro hmo; exact absurd hmo (h3 m hm.1)
  | clear => simp [Store.step, Store.Inv, keys]
  | setLoader l => exact ⟨h1, h2, h3⟩
  | setCfg l => exact ⟨h1, h2, h3⟩

theorem Store.run_inv (c : LtCfg → Source → Bool) (ops : List Op) : ∀ s : Store, s.Inv → (s.run c ops).Inv := by
  induction ops with
  | nil => intro s h; exact h
  | cons op ops ih => intro s h; exact ih _ (Store.step_inv c s op h)

theorem Store.iter_names_nodup (s : Store) (h : s.Inv) : (s.iter.map (·.1)).Nodup := by
  obtain ⟨h1, h2, h3⟩ := h
  unfold Store.iter
  rw [List.map_append, List.map_map]
  have e : (s.owned.map ((fun p : Name × Tmpl => p.1) ∘ fun p => (p.1, p.2.1))) = keys s.owned := by
    unfold keys; rfl
  rw [e]
  exact List.nodup_append.mpr ⟨h1, h2, fun a ha b hb e => h3 a ha (e ▸ hb)⟩



theorem World.flatView_some (w : World) (e : Nat) (he : e < w.stores.length) :
    w.flatView e = some { flat := (w.stores[e]).flat, rt := (w.rts[e]?).getD RtCfg.default,
                          filters := regView w.filters e, tests := regView w.tests e,
                          globals := regView w.globals e } := by
  simp [World.flatView, World.view, List.getElem?_eq_getElem he, Store.flat]

/-- one operation on environment `e` acts on `e`'s value exactly like `EnvSpec.step` -/
theorem World.step_local (c : LtCfg → Source → Bool) (w : World) (hw : w.WF) (e : Nat)
    (he : e < w.stores.length) (op : EOp) :
    ∃ v, w.flatView e = some v ∧
      (w.step c (op.at e)).1.flatView e = some (v.step c op).1 ∧
      (w.step c (op.at e)).2 = (v.step c op).2 := by
  refine ⟨_, World.flatView_some w e he, ?_⟩
  obtain ⟨h1, h2, h3, h4, h5, h6, h7⟩ := hw
  have hs : w.stores[e]? = some w.stores[e] := List.getElem?_eq_getElem he
  cases op with
  | store op =>
    obtain ⟨r1, r2⟩ := store_step_flat c w.stores[e] op
    have hlen : e < (w.stores.set e (w.stores[e].step c op).1).length := by simpa using he
    constructor
    · simp only [EOp.at, World.step, hs]
      rw [World.flatView_some _ _ hlen]
      simp [EnvSpec.step, r2]
    · simp [EOp.at, World.step, hs, EnvSpec.step, r1]
  | regAdd k name x =>
    constructor
    · simp only [EOp.at, World.step]
      rw [World.flatView_some _ _ (by rw [World.modReg_stores]; exact he)]
      cases k <;> simp only [World.modReg, EnvSpec.step, EnvSpec.modReg]
      · rw [regView_add _ h1 _ _ (h4 ▸ he)]; simp
      · rw [regView_add _ h2 _ _ (h5 ▸ he)]; simp
      · rw [regView_add _ h3 _ _ (h6 ▸ he)]; simp
    · simp [EOp.at, World.step, EnvSpec.step]
  | regRemove k name =>
    constructor
    · simp only [EOp.at, World.step]
      rw [World.flatView_some _ _ (by rw [World.modReg_stores]; exact he)]
      cases k <;> simp only [World.modReg, EnvSpec.step, EnvSpec.modReg]
      · rw [regView_remove _ h1 _ _ (h4 ▸ he)]; simp
      · rw [regView_remove _ h2 _ _ (h5 ▸ he)]; simp
      · rw [regView_remove _ h3 _ _ (h6 ▸ he)]; simp
    · simp [EOp.at, World.step, EnvSpec.step]
  | setRt r =>
    have her : e < w.rts.length := by omega
    constructor
    · simp only [EOp.at, World.step]
      rw [World.flatView_some { w with rts := w.rts.set e r } e he]
      simp [EnvSpec.step, her]
    · simp [EOp.at, World.step, EnvSpec.step]

theorem World.step_at_length (c : LtCfg → Source → Bool) (w : World) (e : Nat) (op : EOp) :
    (w.step c (op.at e)).1.stores.length = w.stores.length := by
  cases op with
  | store op =>
    simp only [EOp.at, World.step]
    cases w.stores[e]? <;> simp
  | regAdd k name x => simp [EOp.at, World.step, World.modReg_stores]
  | regRemove k name => simp [EOp.at, World.step, World.modReg_stores]
  | setRt r => simp [EOp.at, World.step]

/-- a whole sequence of operations on environment `e`: results and final value are those of the
    plain value `EnvSpec` -/
theorem World.run_local (c : LtCfg → Source → Bool) (ops : List EOp) :
    ∀ (w : World), w.WF → ∀ e, e < w.stores.length → ∀ v, w.flatView e = some v →
      (w.runAt c e ops).flatView e = some (v.run c ops) ∧ w.resultsAt c e ops = v.results c ops := by
  induction ops with
  | nil => intro w _ e _ v hv; exact ⟨hv, rfl⟩
  | cons op ops ih =>
    intro w hw e he v hv
    obtain ⟨v', hv', h1, h2⟩ := World.step_local c w hw e he op
    rw [hv] at hv'
    cases hv'
    have hlen : e < (w.step c (op.at e)).1.stores.length := by rw [World.step_at_length]; exact he
    obtain ⟨i1, i2⟩ := ih _ (World.step_WF c w _ hw) e hlen _ h1
    exact ⟨i1, by simp only [World.resultsAt, EnvSpec.results]; rw [i2, h2]⟩



/-! ### the serialisation flag is restored on every way out of a conversion -/

/-- invariant relating the flag and the live guards to the flag value `f₀` outside all conversions -/
def FlagInv (f₀ : Bool) (t : ThreadState) : Prop :=
  (t.guards = [] ∧ t.serializing = f₀) ∨
  (∃ k, t.guards = List.replicate k false ++ [!f₀] ∧ t.serializing = true)

theorem FlagInv.drop (f₀ : Bool) (t : ThreadState) (u : Bool) (h : FlagInv f₀ t) :
    FlagInv f₀ (dropGuard true u t) := by
  rcases h with ⟨hg, hs⟩ | ⟨k, hg, hs⟩
  · left; simp [dropGuard, hg, hs]
  · cases k with
    | zero =>
      left
      simp only [List.replicate, List.nil_append] at hg
      cases f₀ <;> simp [dropGuard, hg, hs]
    | succ k =>
      right
      refine ⟨k, ?_⟩
      simp [dropGuard, hg, hs, List.replicate_succ]

theorem FlagInv.step (f₀ : Bool) (t : ThreadState) (e : ConvEv) (h : FlagInv f₀ t) :
    FlagInv f₀ (t.step e) := by
  cases e with
  | leave => exact FlagInv.drop f₀ t false h
  | enter =>
    right
    rcases h with ⟨hg, hs⟩ | ⟨k, hg, hs⟩
    · exact ⟨0, by simp [ThreadState.step, hg, hs]⟩
    · exact ⟨k + 1, by simp [ThreadState.step, hg, hs, List.replicate_succ]⟩
  | park v =>
    rcases h with ⟨hg, hs'⟩ | ⟨k, hg, hs'⟩
    · left; simp only [ThreadState.step]; split <;> exact ⟨hg, hs'⟩
    · right; simp only [ThreadState.step]; split <;> exact ⟨k, hg, hs'⟩
  | take =>
    rcases h with ⟨hg, hs⟩ | ⟨k, hg, hs⟩
    · left; exact ⟨hg, hs⟩
    · right; exact ⟨k, hg, hs⟩

theorem FlagInv.run (f₀ : Bool) (es : List ConvEv) : ∀ t, FlagInv f₀ t → FlagInv f₀ (t.run es) := by
  induction es with
  | nil => intro t h; exact h
  | cons e es ih => intro t h; exact ih _ (FlagInv.step f₀ t e h)

theorem dropGuard_length (r u : Bool) (t : ThreadState) :
    (dropGuard r u t).guards.length = t.guards.length - 1 := by
  unfold dropGuard
  split <;> simp_all

theorem unwind_all (f₀ : Bool) : ∀ (n : Nat) (t : ThreadState), FlagInv f₀ t → t.guards.length = n →
    (unwind true t n).guards = [] ∧ (unwind true t n).serializing = f₀ := by
  intro n
  induction n with
  | zero =>
    intro t h hl
    have hg : t.guards = [] := List.length_eq_zero_iff.mp hl
    rcases h with ⟨_, hs⟩ | ⟨k, hg', _⟩
    · exact ⟨hg, hs⟩
    · rw [hg] at hg'; simp at hg'
  | succ n ih =>
    intro t h hl
    simp only [unwind]
    exact ih _ (FlagInv.drop f₀ t true h) (by rw [dropGuard_length]; omega)

/-! ### value handles are always fresh -/

def HandlesInv (t : ThreadState) : Prop := ∀ p ∈ t.handles, p.1 ≤ t.lastHandle

theorem HandlesInv.step (t : ThreadState) (e : ConvEv) (h : HandlesInv t) : HandlesInv (t.step e) := by
  cases e with
  | enter => exact h
  | leave =>
    intro p hp
    have : (dropGuard true false t).handles = t.handles ∧ (dropGuard true false t).lastHandle = t.lastHandle := by
      unfold dropGuard; cases t.guards <;> simp
    simp only [ThreadState.step, this.1, this.2] at hp ⊢
    exact h p hp
  | park v =>
    simp only [ThreadState.step]
    by_cases hs : t.serializing = true
    · simp only [hs, if_true]
      intro p hp
      simp only [List.mem_cons] at hp
      rcases hp with rfl | hp
      · simp
      · have := h p hp; simp only; omega
    · simp only [hs]; exact h
  | take =>
    intro p hp
    exact h p (List.mem_of_mem_drop hp)

theorem HandlesInv.run (es : List ConvEv) : ∀ t, HandlesInv t → HandlesInv (t.run es) := by
  induction es with
  | nil => intro t h; exact h
  | cons e es ih => intro t h; exact ih _ (HandlesInv.step t e h)

end MJ.Store
