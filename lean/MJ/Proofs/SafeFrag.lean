import MJ.Proofs.SafeFlag
/-! C02, stage "programs / syntactic fragment": the safe-marking-free fragment as a predicate on the
program text.  The predicate follows the auto-escape mode `m` (Html / None — Json is outside the
fragment) and the kind of the innermost output target `k` (`true` = opaque: discarded output, the
capture of an `import`, a capture that ends in mode `None`) through the statements:

* an expression may be written only under Html, or into an opaque target (`allows`);
* a capture begun in mode `m` is opaque iff `m` is not Html;
* `{% autoescape %}` switches the mode for its body: `true`/`"html"` to Html, `false`/`"none"` to None;
* bodies that run in a mode decided elsewhere — macros, call blocks, recursive loops — must be fine
  under both (Html, clean target) and (None, opaque target): `Poly`;
* a template whose name selects None may be imported anywhere (its top level writes into the module
  capture) and included only where the target is opaque; blocks and `super()` need Html. -/
namespace MJ.Safe

/-- the named filter is modelled and belongs to the fragment (not `safe`, not `tojson`) -/
def FilterOk (name : String) (ps : List Nat) : Prop :=
  ∀ m g ok, lookupF name m ps = some (g, ok) → ok = true

/-- may an expression be written?  Html escapes it; an opaque target never becomes a `Safe` string -/
def allows (m : Mode) (k : Bool) : Prop := m = .html ∨ (m = .none ∧ k = true)

/-- the mode an `autoescape` block of the fragment selects -/
def autoMode : AutoArg → Option Mode
  | .tru => some .html
  | .fals => some .none
  | .str s => if s = "html" then some .html else if s = "none" then some .none else Option.none

mutual
inductive OkE : Mode → Expr → Prop
  | var {m : Mode} (n : String) : OkE m (.var n)
  | lit {m : Mode} (s : String) : OkE m (.lit s)
  | int {m : Mode} (n : Int) : OkE m (.int n)
  | bool {m : Mode} (b : Bool) : OkE m (.bool b)
  | none {m : Mode} : OkE m .none
  | cat {m : Mode} {a b : Expr} : OkE m a → OkE m b → OkE m (.cat a b)
  | add {m : Mode} {a b : Expr} : OkE m a → OkE m b → OkE m (.add a b)
  | mul {m : Mode} {a : Expr} (n : Nat) : OkE m a → OkE m (.mul a n)
  | filt {m : Mode} {name : String} {ps : List Nat} {args : List Expr} :
      FilterOk name ps → OkEs m args → OkE m (.filt name ps args)
  | meth {m : Mode} {name : String} {ps : List Nat} {args : List Expr} :
      (∀ k ∈ ["str", "dict", "list"], FilterOk (k ++ "." ++ name) ps) → OkEs m args → OkE m (.meth name ps args)
  | index {m : Mode} {a : Expr} (k : Nat) : OkE m a → OkE m (.index a k)
  | slice {m : Mode} {a : Expr} (x y : Nat) : OkE m a → OkE m (.slice a x y)
  | attr {m : Mode} {a : Expr} (key : String) : OkE m a → OkE m (.attr a key)
  | list {m : Mode} {xs : List Expr} : OkEs m xs → OkE m (.list xs)
  | dict {m : Mode} {kvs : List (String × Expr)} : OkKs m kvs → OkE m (.dict kvs)
  | call {m : Mode} {args : List Expr} (g : String) : OkEs m args → OkE m (.call g args)
  | modCall {m : Mode} {args : List Expr} (a g : String) : OkEs m args → OkE m (.modCall a g args)
  | modVar {m : Mode} (a x : String) : OkE m (.modVar a x)
  | caller {m : Mode} : OkE m .caller
  /-- `super()` runs a block of the chain: Html only -/
  | super {m : Mode} : m = .html → OkE m .super
  | loopRec {m : Mode} {e : Expr} : OkE m e → OkE m (.loopRec e)
  | loopIndex {m : Mode} : OkE m .loopIndex
  | loopFirst {m : Mode} : OkE m .loopFirst
  | not {m : Mode} {e : Expr} : OkE m e → OkE m (.not e)
  | cond {m : Mode} {c a b : Expr} : OkE m c → OkE m a → OkE m b → OkE m (.cond c a b)
inductive OkEs : Mode → List Expr → Prop
  | nil {m : Mode} : OkEs m []
  | cons {m : Mode} {e : Expr} {es : List Expr} : OkE m e → OkEs m es → OkEs m (e :: es)
inductive OkKs : Mode → List (String × Expr) → Prop
  | nil {m : Mode} : OkKs m []
  | cons {m : Mode} {k : String} {e : Expr} {kvs : List (String × Expr)} :
      OkE m e → OkKs m kvs → OkKs m ((k, e) :: kvs)
end

mutual
inductive OkS (p : Prog) : Mode → Bool → Stmt → Prop
  | text {m : Mode} {k : Bool} (s : String) : OkS p m k (.text s)
  | emit {m : Mode} {k : Bool} {e : Expr} : allows m k → OkE m e → OkS p m k (.emit e)
  | set {m : Mode} {k : Bool} {e : Expr} (n : String) : OkE m e → OkS p m k (.set n e)
  | setBlock {m : Mode} {k : Bool} {body : List Stmt} (n : String) :
      OkSs p m (m != .html) body → OkS p m k (.setBlock n Option.none body)
  | setBlockF {m : Mode} {k : Bool} {body : List Stmt} {name : String} {ps : List Nat} (n : String) :
      FilterOk name ps → OkSs p m (m != .html) body → OkS p m k (.setBlock n (some (name, ps)) body)
  | filterBlock {m : Mode} {k : Bool} {body : List Stmt} {name : String} {ps : List Nat} :
      allows m k → FilterOk name ps → OkSs p m (m != .html) body → OkS p m k (.filterBlock name ps body)
  | forIn {m : Mode} {k : Bool} {it : Expr} {body els : List Stmt} (v : String) :
      OkE m it → OkSs p m k body → OkSs p m k els → OkS p m k (.forIn v it false body els)
  /-- the body of a recursive loop also runs inside the capture of `loop(…)`, in the mode found there -/
  | forRec {m : Mode} {k : Bool} {it : Expr} {body els : List Stmt} (v : String) :
      OkE m it → OkSs p m k body → OkSs p m k els → OkSs p .html false body → OkSs p .none true body →
      OkS p m k (.forIn v it true body els)
  | ifE {m : Mode} {k : Bool} {c : Expr} {a b : List Stmt} : OkE m c → OkSs p m k a → OkSs p m k b → OkS p m k (.ifE c a b)
  | withE {m : Mode} {k : Bool} {e : Expr} {body : List Stmt} (n : String) : OkE m e → OkSs p m k body → OkS p m k (.withE n e body)
  /-- the body of a call block runs where the macro calls `caller()` -/
  | callBlock {m : Mode} {k : Bool} {args : List Expr} {body : List Stmt} (g : String) :
      allows m k → OkEs m args → OkSs p .html false body → OkSs p .none true body → OkS p m k (.callBlock g args body)
  /-- the included template runs in the mode ITS name selects and writes into the current target -/
  | incl {m : Mode} {k : Bool} (name : String) : allows (modeOf p name) k → OkS p m k (.incl name)
  /-- a block (and whatever overrides it) runs under Html -/
  | block {m : Mode} {k : Bool} {body : List Stmt} (name : String) : m = .html → OkSs p .html false body → OkS p m k (.block name body)
  | auto {m m' : Mode} {k : Bool} {a : AutoArg} {body : List Stmt} : autoMode a = some m' → OkSs p m' k body → OkS p m k (.auto a body)
inductive OkSs (p : Prog) : Mode → Bool → List Stmt → Prop
  | nil {m : Mode} {k : Bool} : OkSs p m k []
  | cons {m : Mode} {k : Bool} {s : Stmt} {ss : List Stmt} : OkS p m k s → OkSs p m k ss → OkSs p m k (s :: ss)
end

/-- fine wherever it can run: under Html with a clean target and under None with an opaque one -/
def Poly (p : Prog) (ss : List Stmt) : Prop := OkSs p .html false ss ∧ OkSs p .none true ss

theorem allows_mono {m : Mode} {k : Bool} (h : allows m k) : allows m true := by
  rcases h with h | ⟨h, _⟩
  · exact Or.inl h
  · exact Or.inr ⟨h, rfl⟩

mutual
/-- what is fine with a clean target is fine with an opaque one -/
theorem OkS.mono {p : Prog} {m : Mode} : ∀ {k : Bool} {s : Stmt}, OkS p m k s → OkS p m true s
  | _, _, .text s => .text s
  | _, _, .emit ha he => .emit (allows_mono ha) he
  | _, _, .set n he => .set n he
  | _, _, .setBlock n hb => .setBlock n hb
  | _, _, .setBlockF n hf hb => .setBlockF n hf hb
  | _, _, .filterBlock ha hf hb => .filterBlock (allows_mono ha) hf hb
  | _, _, .forIn v hi hb he => .forIn v hi (OkSs.mono hb) (OkSs.mono he)
  | _, _, .forRec v hi hb he h1 h2 => .forRec v hi (OkSs.mono hb) (OkSs.mono he) h1 h2
  | _, _, .ifE hc ha hb => .ifE hc (OkSs.mono ha) (OkSs.mono hb)
  | _, _, .withE n he hb => .withE n he (OkSs.mono hb)
  | _, _, .callBlock g ha hargs h1 h2 => .callBlock g (allows_mono ha) hargs h1 h2
  | _, _, .incl name ha => .incl name (allows_mono ha)
  | _, _, .block name hm hb => .block name hm hb
  | _, _, .auto ha hb => .auto ha (OkSs.mono hb)
theorem OkSs.mono {p : Prog} {m : Mode} : ∀ {k : Bool} {ss : List Stmt}, OkSs p m k ss → OkSs p m true ss
  | _, _, .nil => .nil
  | _, _, .cons h hs => .cons (OkS.mono h) (OkSs.mono hs)
end

theorem OkSs.anySink {p : Prog} {m : Mode} {ss : List Stmt} (h : OkSs p m false ss) (k : Bool) : OkSs p m k ss := by
  cases k
  · exact h
  · exact h.mono

/-- a `Poly` body is fine inside any capture: begun in mode `m`, the capture is opaque iff `m` is not Html -/
theorem Poly.inCapture {p : Prog} {ss : List Stmt} (h : Poly p ss) {m : Mode} (hm : m ≠ .json) : OkSs p m (m != .html) ss := by
  cases m with
  | html => exact h.1
  | none => exact h.2
  | json => exact absurd rfl hm

/-- the top level of a template in the mode its name selects: a None template writes only into opaque targets -/
def TmplOk (p : Prog) (t : Tmpl) : Prop :=
  modeOf p t.name ≠ .json ∧
  OkSs p (modeOf p t.name) (modeOf p t.name != .html) t.pre ∧
  OkSs p (modeOf p t.name) (modeOf p t.name != .html) t.body ∧
  ∀ md ∈ t.macros, Poly p md.body

/-- **the fragment**: no template name selects Json; the top level of every template is fine in the
    mode its name selects (a template whose name selects None writes only into opaque targets: it can be
    imported anywhere, included only inside captures that end in None); macro bodies are `Poly`; the
    rendered template selects Html and every template of its inheritance chain is fine under Html
    (parents run in the mode of the rendered template, whatever their own name says) -/
structure ProgOk (p : Prog) : Prop where
  tmpls : ∀ t ∈ p.templates, TmplOk p t
  main : modeOf p p.main = .html
  chain : ∀ t ∈ inheritChain p (p.templates.length + 1) p.main, OkSs p .html false t.pre ∧ OkSs p .html false t.body

/-- facts about the environment the unguarded interpreter relies on -/
structure EnvFrag (env : Env) : Prop where
  prog : ∀ t ∈ env.prog.templates, TmplOk env.prog t
  caller : ∀ c, env.caller = some c → Poly env.prog c.body
  recLoop : ∀ v body, env.recLoop = some (v, body) → Poly env.prog body
  supers : ∀ b ∈ env.supers, OkSs env.prog .html false b
  chains : ∀ n bs, env.chains.lookup n = some bs → ∀ b ∈ bs, OkSs env.prog .html false b

/-- what the interpreter maintains in both modes of operation: never Json; an opaque target is an
    unflagged buffer; (unguarded only) the environment holds fragment code -/
structure EnvInv (strict : Bool) (env : Env) (fl : List Bool) : Prop where
  mode : env.mode ≠ .json
  init : env.initMode ≠ .json
  sink : env.opaq = true → ∃ r, fl = false :: r
  frag : strict = false → EnvFrag env

theorem derive_autoMode {a : AutoArg} {init m m' : Mode} (ha : autoMode a = some m') (hi : init ≠ .json)
    (h : deriveAutoEscape a init = some m) : m = m' := by
  cases a with
  | tru =>
    simp only [autoMode, Option.some.injEq] at ha
    simp only [deriveAutoEscape, Option.some.injEq] at h
    subst ha h
    cases init <;> simp at hi ⊢
  | fals =>
    simp only [autoMode, Option.some.injEq] at ha
    simp only [deriveAutoEscape, Option.some.injEq] at h
    subst ha h; rfl
  | str s =>
    simp only [autoMode] at ha
    split at ha
    · rename_i hs
      subst hs
      simp only [deriveAutoEscape, Option.some.injEq] at h ha
      subst ha h; rfl
    · split at ha
      · rename_i hs
        subst hs
        simp only [deriveAutoEscape, Option.some.injEq] at h ha
        subst ha h; rfl
      · cases ha

/-- `derive_auto_escape` never yields Json unless asked for it by name or already there -/
theorem derive_not_json {a : AutoArg} {init m : Mode} (hi : init ≠ .json) (h : deriveAutoEscape a init = some m)
    (hj : (m == .json) = false) : m ≠ .json := by
  intro hm; subst hm; simp at hj

theorem autoMode_not_json {a : AutoArg} {m : Mode} (h : autoMode a = some m) : m ≠ .json := by
  cases a with
  | tru => simp only [autoMode, Option.some.injEq] at h; subst h; simp
  | fals => simp only [autoMode, Option.some.injEq] at h; subst h; simp
  | str s =>
    simp only [autoMode] at h
    split at h
    · simp only [Option.some.injEq] at h; subst h; simp
    · split at h
      · simp only [Option.some.injEq] at h; subst h; simp
      · cases h

theorem methodKind_mem {v : V} {k : String} (h : methodKind v = some k) : k ∈ ["str", "dict", "list"] := by
  unfold methodKind at h
  split at h <;> simp_all

theorem find?_mem_pred {α : Type} {p : α → Bool} {l : List α} {a : α} (h : l.find? p = some a) : a ∈ l ∧ p a = true :=
  ⟨List.mem_of_find?_eq_some h, List.find?_some h⟩

theorem findTmpl_mem {p : Prog} {name : String} {t : Tmpl} (h : findTmpl p name = some t) : t ∈ p.templates ∧ t.name = name := by
  unfold findTmpl at h
  obtain ⟨hm, hn⟩ := find?_mem_pred h
  exact ⟨hm, by simpa using hn⟩

theorem findMacro_mem {p : Prog} {g : String} {home : Tmpl} {md : MacroDef} (h : findMacro p g = some (home, md)) :
    home ∈ p.templates ∧ md ∈ home.macros := by
  unfold findMacro at h
  obtain ⟨t, ht, hx⟩ := List.exists_of_findSome?_eq_some h
  simp only [Option.map_eq_some_iff, Prod.mk.injEq] at hx
  obtain ⟨md', hmd, rfl, rfl⟩ := hx
  exact ⟨ht, List.mem_of_find?_eq_some hmd⟩

end MJ.Safe
