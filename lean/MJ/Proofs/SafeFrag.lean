import MJ.Proofs.SafeProg
/-! C02, stage "programs / syntactic fragment": the safe-marking-free fragment as a predicate on the
program text (`HtmlOnlyP`), and the proof that the *unguarded* interpreter preserves the machine
invariant on such programs. -/
namespace MJ.Safe

/-- the named filter is modelled and belongs to the fragment (not `safe`, not `tojson`) -/
def FilterOk (name : String) (ps : List Nat) : Prop :=
  ∀ g ok, lookupF name .html ps = some (g, ok) → ok = true

/-- `{% autoescape true %}` / `{% autoescape "html" %}` -/
def AutoOk : AutoArg → Prop
  | .tru => True
  | .str s => s = "html"
  | .fals => False

mutual
inductive HtmlOnlyE : Expr → Prop
  | var (n : String) : HtmlOnlyE (.var n)
  | lit (s : String) : HtmlOnlyE (.lit s)
  | int (n : Int) : HtmlOnlyE (.int n)
  | bool (b : Bool) : HtmlOnlyE (.bool b)
  | none : HtmlOnlyE .none
  | cat {a b : Expr} : HtmlOnlyE a → HtmlOnlyE b → HtmlOnlyE (.cat a b)
  | add {a b : Expr} : HtmlOnlyE a → HtmlOnlyE b → HtmlOnlyE (.add a b)
  | mul {a : Expr} (n : Nat) : HtmlOnlyE a → HtmlOnlyE (.mul a n)
  | filt {name : String} {ps : List Nat} {args : List Expr} :
      FilterOk name ps → HtmlOnlyEs args → HtmlOnlyE (.filt name ps args)
  | meth {name : String} {ps : List Nat} {args : List Expr} :
      (∀ k, FilterOk (k ++ "." ++ name) ps) → HtmlOnlyEs args → HtmlOnlyE (.meth name ps args)
  | index {a : Expr} (k : Nat) : HtmlOnlyE a → HtmlOnlyE (.index a k)
  | slice {a : Expr} (x y : Nat) : HtmlOnlyE a → HtmlOnlyE (.slice a x y)
  | attr {a : Expr} (key : String) : HtmlOnlyE a → HtmlOnlyE (.attr a key)
  | list {xs : List Expr} : HtmlOnlyEs xs → HtmlOnlyE (.list xs)
  | dict {kvs : List (String × Expr)} : HtmlOnlyKs kvs → HtmlOnlyE (.dict kvs)
  | call {args : List Expr} (m : String) : HtmlOnlyEs args → HtmlOnlyE (.call m args)
  | caller : HtmlOnlyE .caller
  | super : HtmlOnlyE .super
  | loopRec {e : Expr} : HtmlOnlyE e → HtmlOnlyE (.loopRec e)
  | loopIndex : HtmlOnlyE .loopIndex
  | loopFirst : HtmlOnlyE .loopFirst
  | not {e : Expr} : HtmlOnlyE e → HtmlOnlyE (.not e)
  | cond {c a b : Expr} : HtmlOnlyE c → HtmlOnlyE a → HtmlOnlyE b → HtmlOnlyE (.cond c a b)
inductive HtmlOnlyEs : List Expr → Prop
  | nil : HtmlOnlyEs []
  | cons {e : Expr} {es : List Expr} : HtmlOnlyE e → HtmlOnlyEs es → HtmlOnlyEs (e :: es)
inductive HtmlOnlyKs : List (String × Expr) → Prop
  | nil : HtmlOnlyKs []
  | cons {k : String} {e : Expr} {kvs : List (String × Expr)} :
      HtmlOnlyE e → HtmlOnlyKs kvs → HtmlOnlyKs ((k, e) :: kvs)
end

mutual
inductive HtmlOnlyS : Stmt → Prop
  | text (s : String) : HtmlOnlyS (.text s)
  | emit {e : Expr} : HtmlOnlyE e → HtmlOnlyS (.emit e)
  | set {e : Expr} (n : String) : HtmlOnlyE e → HtmlOnlyS (.set n e)
  | setBlock {body : List Stmt} (n : String) : HtmlOnlySs body → HtmlOnlyS (.setBlock n Option.none body)
  | setBlockF {body : List Stmt} {name : String} {ps : List Nat} (n : String) :
      FilterOk name ps → HtmlOnlySs body → HtmlOnlyS (.setBlock n (some (name, ps)) body)
  | filterBlock {body : List Stmt} {name : String} {ps : List Nat} :
      FilterOk name ps → HtmlOnlySs body → HtmlOnlyS (.filterBlock name ps body)
  | forIn {it : Expr} {body els : List Stmt} (v : String) (r : Bool) :
      HtmlOnlyE it → HtmlOnlySs body → HtmlOnlySs els → HtmlOnlyS (.forIn v it r body els)
  | ifE {c : Expr} {a b : List Stmt} : HtmlOnlyE c → HtmlOnlySs a → HtmlOnlySs b → HtmlOnlyS (.ifE c a b)
  | withE {e : Expr} {body : List Stmt} (n : String) : HtmlOnlyE e → HtmlOnlySs body → HtmlOnlyS (.withE n e body)
  | callBlock {args : List Expr} {body : List Stmt} (m : String) :
      HtmlOnlyEs args → HtmlOnlySs body → HtmlOnlyS (.callBlock m args body)
  | incl (name : String) : HtmlOnlyS (.incl name)
  | block {body : List Stmt} (name : String) : HtmlOnlySs body → HtmlOnlyS (.block name body)
  | auto {a : AutoArg} {body : List Stmt} : AutoOk a → HtmlOnlySs body → HtmlOnlyS (.auto a body)
inductive HtmlOnlySs : List Stmt → Prop
  | nil : HtmlOnlySs []
  | cons {s : Stmt} {ss : List Stmt} : HtmlOnlyS s → HtmlOnlySs ss → HtmlOnlySs (s :: ss)
end

/-- the safe-marking-free fragment with HTML auto-escaping in effect: every template has an
    `*.html`/`*.htm`/`*.xml` name (by `default_auto_escape_callback`), every `autoescape` block is
    `true`/`"html"`, every filter is modelled and none is `safe`/`tojson` -/
def HtmlOnlyP (p : Prog) : Prop :=
  ∀ t ∈ p.templates, autoEscapeOfName t.name = .html ∧ HtmlOnlySs t.body ∧ ∀ md ∈ t.macros, HtmlOnlySs md.body

structure EnvOk (env : Env) : Prop where
  mode : env.mode = .html
  init : env.initMode = .html
  prog : HtmlOnlyP env.prog
  caller : ∀ body vars, env.caller = some (body, vars) → HtmlOnlySs body
  recLoop : ∀ v body, env.recLoop = some (v, body) → HtmlOnlySs body
  supers : ∀ b ∈ env.supers, HtmlOnlySs b
  chains : ∀ n bs, env.chains.lookup n = some bs → ∀ b ∈ bs, HtmlOnlySs b


/-! ### unguarded primitives in Html mode -/

theorem Pres.emitG_html {env : Env} (h : env.mode = .html) (r : Nat) : Pres (Safe.emitG false env r) := by
  simp only [Safe.emitG, Bool.false_and, Bool.false_eq_true, if_false]
  exact Pres.stepM (by simp only [StepOk, h])

theorem Pres.applyG_html {env : Env} {g : Fn} (ok : Bool) (rs : List Nat) (hg : InvPreserving g) :
    Pres (Safe.applyG false env g ok rs) := by
  simp only [Safe.applyG, Bool.false_and, Bool.false_eq_true, if_false]
  exact Pres.pushM hg

theorem Pres.applyNamed_html {env : Env} {name : String} {ps : List Nat} (h : env.mode = .html)
    (hf : FilterOk name ps) (rs : List Nat) : Pres (Safe.applyNamed false env name ps rs) := by
  unfold Safe.applyNamed
  split
  · exact Pres.fail
  · rename_i g ok hl
    rw [h] at hl
    have := hf g ok hl
    subst this
    exact Pres.applyG_html _ _ (named_models_preserve_inv_map name ps g hl)

/-! ### environments of the fragment -/

theorem EnvOk.withVars {env : Env} (h : EnvOk env) (vars : List (String × Nat)) :
    EnvOk { env with vars := vars } :=
  ⟨h.mode, h.init, h.prog, h.caller, h.recLoop, h.supers, h.chains⟩

theorem EnvOk.withLoop {env : Env} (h : EnvOk env) (vars : List (String × Nat)) (k : Option Nat) :
    EnvOk { env with vars := vars, loopIdx := k } :=
  ⟨h.mode, h.init, h.prog, h.caller, h.recLoop, h.supers, h.chains⟩

theorem EnvOk.withRec {env : Env} (h : EnvOk env) (r : Bool) (v : String) {body : List Stmt}
    (hb : HtmlOnlySs body) : EnvOk { env with recLoop := if r then some (v, body) else Option.none } := by
  refine ⟨h.mode, h.init, h.prog, h.caller, ?_, h.supers, h.chains⟩
  intro v' body' heq
  cases r
  · simp at heq
  · simp only [if_true, Option.some.injEq, Prod.mk.injEq] at heq
    obtain ⟨_, rfl⟩ := heq; exact hb

theorem EnvOk.forMacro {env : Env} (h : EnvOk env) (vars : List (String × Nat))
    (caller : Option (List Stmt × List (String × Nat)))
    (hc : ∀ body vs, caller = some (body, vs) → HtmlOnlySs body) : EnvOk (env.forMacro vars caller) := by
  refine ⟨h.mode, h.mode, h.prog, hc, ?_, ?_, h.chains⟩
  · intro v body heq; cases heq
  · intro b hb; cases hb

theorem EnvOk.forSuper {env : Env} (h : EnvOk env) {rest : List (List Stmt)} (hr : ∀ b ∈ rest, HtmlOnlySs b) :
    EnvOk { env with supers := rest, initMode := env.mode, loopIdx := Option.none, recLoop := Option.none } := by
  refine ⟨h.mode, h.mode, h.prog, h.caller, ?_, hr, h.chains⟩
  intro v body heq; cases heq

theorem EnvOk.forInclude {env : Env} (h : EnvOk env) {m : Mode} (hm : m = .html) :
    EnvOk { env with mode := m, initMode := m, loopIdx := Option.none, recLoop := Option.none, caller := Option.none, supers := [], chains := [] } := by
  refine ⟨hm, hm, h.prog, ?_, ?_, ?_, ?_⟩
  · intro body vars heq; cases heq
  · intro v body heq; cases heq
  · intro b hb; cases hb
  · intro n bs heq; simp [List.lookup] at heq

theorem EnvOk.withMode {env : Env} (h : EnvOk env) {m : Mode} (hm : m = .html) : EnvOk { env with mode := m } :=
  ⟨hm, h.init, h.prog, h.caller, h.recLoop, h.supers, h.chains⟩

theorem derive_html {a : AutoArg} {m : Mode} (ha : AutoOk a) (h : deriveAutoEscape a .html = some m) : m = .html := by
  cases a with
  | tru => simp [deriveAutoEscape] at h; exact h.symm
  | fals => exact absurd ha (by simp [AutoOk])
  | str s =>
    simp only [AutoOk] at ha
    subst ha
    simp [deriveAutoEscape] at h; exact h.symm

theorem find?_mem_pred {α : Type} {p : α → Bool} {l : List α} {a : α} (h : l.find? p = some a) : a ∈ l ∧ p a = true :=
  ⟨List.mem_of_find?_eq_some h, List.find?_some h⟩

theorem findMacro_ok {p : Prog} (hp : HtmlOnlyP p) {m : String} {md : MacroDef} (h : findMacro p m = some md) :
    HtmlOnlySs md.body := by
  unfold findMacro at h
  have hm := (find?_mem_pred h).1
  obtain ⟨t, ht, hmd⟩ := List.mem_flatMap.mp hm
  exact (hp t ht).2.2 md hmd

theorem findTmpl_ok {p : Prog} (hp : HtmlOnlyP p) {name : String} {t : Tmpl} (h : findTmpl p name = some t) :
    autoEscapeOfName name = .html ∧ HtmlOnlySs t.body := by
  unfold findTmpl at h
  obtain ⟨hm, hn⟩ := find?_mem_pred h
  have : t.name = name := by simpa using hn
  subst this
  exact ⟨(hp t hm).1, (hp t hm).2.1⟩


theorem blockBodies_ok {env : Env} (h : EnvOk env) {name : String} {dflt b : List Stmt} {rest : List (List Stmt)}
    (hd : HtmlOnlySs dflt) (heq : (env.chains.lookup name).getD [dflt] = b :: rest) :
    HtmlOnlySs b ∧ ∀ x ∈ rest, HtmlOnlySs x := by
  cases hl : env.chains.lookup name with
  | none =>
    rw [hl] at heq
    simp only [Option.getD_none, List.cons.injEq] at heq
    obtain ⟨rfl, rfl⟩ := heq
    exact ⟨hd, by intro x hx; cases hx⟩
  | some bs =>
    rw [hl] at heq
    simp only [Option.getD_some] at heq
    have := h.chains name bs hl
    subst heq
    exact ⟨this b List.mem_cons_self, fun x hx => this x (List.mem_cons_of_mem _ hx)⟩

theorem caller_none_ok : ∀ (b : List Stmt) (vs : List (String × Nat)),
    (Option.none : Option (List Stmt × List (String × Nat))) = some (b, vs) → HtmlOnlySs b := by
  intro b vs h; cases h

theorem caller_some_ok {body : List Stmt} {vars : List (String × Nat)} (hb : HtmlOnlySs body) :
    ∀ b vs, some (body, vars) = some (b, vs) → HtmlOnlySs b := by
  intro b vs h; cases h; exact hb

set_option hygiene false in
macro "envok" : tactic => `(tactic| first
  | exact hEnv
  | exact hEnv.withVars _
  | exact hEnv.withLoop _ _
  | exact hEnv.withRec _ _ ‹_›
  | exact (hEnv.withRec _ _ ‹_›).withLoop _ _
  | exact hEnv.forSuper ‹_›
  | exact hEnv.forInclude ‹_›
  | exact hEnv.withMode ‹_›
  | exact hEnv.forMacro _ _ caller_none_ok
  | exact hEnv.forMacro _ _ (caller_some_ok ‹_›))

set_option hygiene false in
macro "pres2" : tactic => `(tactic| repeat' (first
  | with_reducible exact Pres.pure _
  | with_reducible exact Pres.fail
  | with_reducible exact Pres.readM _
  | with_reducible exact Pres.emitG_html hEnv.mode _
  | with_reducible exact Pres.applyNamed_html hEnv.mode ‹_› _
  | with_reducible exact Pres.bindParams _ _
  | with_reducible exact Pres.applyG_html _ _ concatF_inv
  | with_reducible exact Pres.applyG_html _ _ addF_inv
  | with_reducible exact Pres.applyG_html _ _ (repeatF_inv _)
  | with_reducible exact Pres.applyG_html _ _ (elemF_inv _)
  | with_reducible exact Pres.applyG_html _ _ (sliceF_inv _ _)
  | with_reducible exact Pres.applyG_html _ _ (attrF_inv _)
  | with_reducible exact Pres.applyG_html _ _ charsF_inv
  | exact Pres.stepM (by simp only [StepOk])
  | exact Pres.pushM (by simp only [StepOk])
  | exact ihE _ _ (by envok) ‹_›
  | exact ihA _ _ (by envok) ‹_›
  | exact ihK _ _ (by envok) ‹_›
  | exact ihF _ _ _ _ _ _ (by envok) ‹_›
  | exact ihSS _ _ (by envok) ‹_›
  | exact ihS _ _ (by envok) ‹_›
  | with_reducible apply Pres.bind
  | with_reducible apply Pres.ite
  | intro _
  | split))

/-- the unguarded interpreter preserves the machine invariant on programs of the fragment -/
theorem exec_pres_frag : ∀ fuel : Nat,
    (∀ env e, EnvOk env → HtmlOnlyE e → Pres (evalExpr false fuel env e)) ∧
    (∀ env es, EnvOk env → HtmlOnlyEs es → Pres (evalArgs false fuel env es)) ∧
    (∀ env kvs, EnvOk env → HtmlOnlyKs kvs → Pres (evalKVs false fuel env kvs)) ∧
    (∀ env v body r k n, EnvOk env → HtmlOnlySs body → Pres (forLoop false fuel env v body r k n)) ∧
    (∀ env ss, EnvOk env → HtmlOnlySs ss → Pres (execStmts false fuel env ss)) ∧
    (∀ env s, EnvOk env → HtmlOnlyS s → Pres (execStmt false fuel env s)) := by
  intro fuel
  induction fuel with
  | zero =>
    refine ⟨?_, ?_, ?_, ?_, ?_, ?_⟩
    · intro env e _ _; simp only [evalExpr]; exact Pres.fail
    · intro env es _ _; simp only [evalArgs]; exact Pres.fail
    · intro env kvs _ _; simp only [evalKVs]; exact Pres.fail
    · intro env v body r k n _ _; simp only [forLoop]; exact Pres.fail
    · intro env ss _ _; simp only [execStmts]; exact Pres.fail
    · intro env s _ _; simp only [execStmt]; exact Pres.fail
  | succ fuel ih =>
    obtain ⟨ihE, ihA, ihK, ihF, ihSS, ihS⟩ := ih
    refine ⟨?_, ?_, ?_, ?_, ?_, ?_⟩
    · intro env e hEnv hE
      cases hE with
      | meth hf hargs =>
        simp only [evalExpr]
        refine Pres.bind (ihA _ _ hEnv hargs) fun rs => ?_
        split
        · exact Pres.fail
        · refine Pres.bind (Pres.readM _) fun v => ?_
          split
          · exact Pres.fail
          · exact Pres.applyNamed_html hEnv.mode (hf _) _
      | call m hargs =>
        simp only [evalExpr]
        split
        · exact Pres.fail
        · rename_i md hmd
          have hb := findMacro_ok hEnv.prog hmd
          pres2
      | caller =>
        simp only [evalExpr]
        split
        · exact Pres.fail
        · rename_i body vars hc
          have hb := hEnv.caller _ _ hc
          pres2
      | super =>
        simp only [evalExpr]
        split
        · exact Pres.fail
        · rename_i b rest hs
          have hb : HtmlOnlySs b := hEnv.supers b (by rw [hs]; exact List.mem_cons_self)
          have hr : ∀ x ∈ rest, HtmlOnlySs x := fun x hx => hEnv.supers x (by rw [hs]; exact List.mem_cons_of_mem _ hx)
          pres2
      | loopRec he =>
        simp only [evalExpr]
        split
        · exact Pres.fail
        · rename_i v body hrl
          have hb := hEnv.recLoop _ _ hrl
          pres2
      | _ => simp only [evalExpr] <;> pres2
    · intro env es hEnv hE
      cases hE <;> simp only [evalArgs] <;> pres2
    · intro env kvs hEnv hE
      cases hE <;> simp only [evalKVs] <;> pres2
    · intro env v body r k n hEnv hB
      simp only [forLoop]; pres2
    · intro env ss hEnv hS
      cases hS <;> simp only [execStmts] <;> pres2
    · intro env s hEnv hS
      cases hS with
      | callBlock m hargs hbody =>
        simp only [execStmt]
        split
        · exact Pres.fail
        · rename_i md hmd
          have hb := findMacro_ok hEnv.prog hmd
          pres2
      | incl name =>
        simp only [execStmt]
        split
        · exact Pres.fail
        · rename_i t ht
          obtain ⟨hm, hb⟩ := findTmpl_ok hEnv.prog ht
          pres2
      | block name hbody =>
        simp only [execStmt]
        split
        · exact Pres.pure _
        · rename_i b rest heq
          obtain ⟨hb, hr⟩ := blockBodies_ok hEnv hbody heq
          pres2
      | auto ha hbody =>
        simp only [execStmt]
        split
        · exact Pres.fail
        · rename_i m heq
          rw [hEnv.init] at heq
          have hm := derive_html ha heq
          pres2
      | _ => simp only [execStmt] <;> pres2


/-! ### whole programs -/

theorem lookup_some_mem {β : Type} {n : String} {l : List (String × β)} {v : β} (h : l.lookup n = some v) :
    ∃ k, (k, v) ∈ l := by
  induction l with
  | nil => simp [List.lookup] at h
  | cons p ps ih =>
    obtain ⟨a, b⟩ := p
    simp only [List.lookup] at h
    split at h
    · cases h; exact ⟨a, List.mem_cons_self⟩
    · obtain ⟨k, hk⟩ := ih h; exact ⟨k, List.mem_cons_of_mem _ hk⟩

def ChainsOk (chains : List (String × List (List Stmt))) : Prop := ∀ entry ∈ chains, ∀ b ∈ entry.2, HtmlOnlySs b

theorem topBlocks_ok : ∀ (ss : List Stmt), HtmlOnlySs ss → ∀ nb ∈ topBlocks ss, HtmlOnlySs nb.2 := by
  intro ss
  induction ss with
  | nil => intro _ nb h; simp [topBlocks] at h
  | cons s ss ih =>
    intro hs nb h
    cases hs with
    | cons hs1 hss =>
      cases hs1 with
      | block name hb =>
        simp only [topBlocks, List.mem_cons] at h
        rcases h with rfl | h
        · exact hb
        · exact ih hss nb h
      | _ => simp only [topBlocks] at h; exact ih hss nb h

theorem addBlocks_ok : ∀ (bs : List (String × List Stmt)) (chains : List (String × List (List Stmt))),
    ChainsOk chains → (∀ nb ∈ bs, HtmlOnlySs nb.2) → ChainsOk (addBlocks chains bs) := by
  intro bs
  induction bs with
  | nil => intro chains hc _; simpa [addBlocks] using hc
  | cons nb rest ih =>
    intro chains hc hb
    obtain ⟨n, b⟩ := nb
    simp only [addBlocks]
    apply ih _ _ (fun x hx => hb x (List.mem_cons_of_mem _ hx))
    have hbok : HtmlOnlySs b := hb (n, b) List.mem_cons_self
    split
    · rename_i bodies hl
      obtain ⟨k, hk⟩ := lookup_some_mem hl
      intro entry he x hx
      rcases List.mem_cons.mp he with rfl | he
      · rcases List.mem_append.mp hx with hx | hx
        · exact hc _ hk x hx
        · simp only [List.mem_singleton] at hx; subst hx; exact hbok
      · exact hc entry (List.mem_filter.mp he).1 x hx
    · intro entry he x hx
      rcases List.mem_cons.mp he with rfl | he
      · simp only [List.mem_singleton] at hx; subst hx; exact hbok
      · exact hc entry he x hx

theorem buildChains_ok {ts : List Tmpl} (h : ∀ t ∈ ts, HtmlOnlySs t.body) : ChainsOk (buildChains ts) := by
  unfold buildChains
  have : ∀ (ts : List Tmpl) (acc : List (String × List (List Stmt))), ChainsOk acc → (∀ t ∈ ts, HtmlOnlySs t.body) →
      ChainsOk (ts.foldl (fun acc t => addBlocks acc (topBlocks t.body)) acc) := by
    intro ts
    induction ts with
    | nil => intro acc ha _; simpa using ha
    | cons t ts ih =>
      intro acc ha ht
      simp only [List.foldl_cons]
      exact ih _ (addBlocks_ok _ _ ha (topBlocks_ok _ (ht t List.mem_cons_self))) (fun x hx => ht x (List.mem_cons_of_mem _ hx))
  exact this ts [] (by intro e he; cases he) h

theorem inheritChain_mem {p : Prog} : ∀ (fuel : Nat) (name : String), ∀ t ∈ inheritChain p fuel name, t ∈ p.templates := by
  intro fuel
  induction fuel with
  | zero => intro name t h; simp [inheritChain] at h
  | succ fuel ih =>
    intro name t h
    simp only [inheritChain] at h
    split at h
    · cases h
    · rename_i t0 h0
      have hm : t0 ∈ p.templates := (find?_mem_pred (by unfold findTmpl at h0; exact h0)).1
      split at h
      · simp only [List.mem_singleton] at h; subst h; exact hm
      · rcases List.mem_cons.mp h with rfl | h
        · exact hm
        · exact ih _ t h

theorem inheritChain_head {p : Prog} {fuel : Nat} {name : String} (h : inheritChain p fuel name ≠ []) :
    ∃ t, findTmpl p name = some t := by
  cases fuel with
  | zero => simp [inheritChain] at h
  | succ fuel =>
    simp only [inheritChain] at h
    split at h
    · exact absurd rfl h
    · rename_i t0 h0; exact ⟨t0, h0⟩

theorem Pres.execProgM_frag (fuel : Nat) {p : Prog} (hp : HtmlOnlyP p) (ctx : List (String × CV)) :
    Pres (Safe.execProgM false fuel p ctx) := by
  obtain ⟨ihE, ihA, ihK, ihF, ihSS, ihS⟩ := exec_pres_frag fuel
  unfold Safe.execProgM
  simp only
  split
  · exact Pres.fail
  · rename_i base hbase
    have hmem : base ∈ inheritChain p (p.templates.length + 1) p.main := List.mem_of_getLast? hbase
    have hbt := inheritChain_mem _ _ base hmem
    have hne : inheritChain p (p.templates.length + 1) p.main ≠ [] := by
      intro h; rw [h] at hmem; cases hmem
    obtain ⟨t0, ht0⟩ := inheritChain_head hne
    have hmode := (findTmpl_ok hp ht0).1
    refine Pres.bind (Pres.pushCtx _) fun globals => ?_
    refine Pres.bind ?_ fun _ => Pres.pure _
    refine ihSS _ _ ⟨hmode, hmode, hp, ?_, ?_, ?_, ?_⟩ (hp base hbt).2.1
    · intro body vars h; cases h
    · intro v body h; cases h
    · intro b hb; cases hb
    · intro n bs hl b hb
      obtain ⟨k, hk⟩ := lookup_some_mem hl
      exact buildChains_ok (fun t ht => (hp t (inheritChain_mem _ _ t ht)).2.1) _ hk b hb

/-- an unguarded run of a program of the fragment ends in a state satisfying the machine invariant -/
theorem execProg_frag_inv {p : Prog} (hp : HtmlOnlyP p) (ctx : List (String × CV)) (st : St)
    (h : execProg false p ctx = some st) : StInv st := by
  unfold execProg at h
  simp only [Option.map_eq_some_iff] at h
  obtain ⟨⟨u, st1⟩, h1, rfl⟩ := h
  exact (Pres.execProgM_frag defaultFuel hp ctx).apply stInv_init h1

end MJ.Safe
