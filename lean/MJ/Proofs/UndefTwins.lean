import MJ.Gen.Tables

/-!
# C12: the mode-blind twins of the undefined-behaviour helpers

`UndefinedBehavior::{try_iter, is_true, handle_undefined}` decide what an undefined value does at an iteration /
truth / look-up site *given the mode*.  Each has a twin on `Value` that takes the same decision without the mode
(`Value::try_iter` iterates an undefined as the empty sequence, `Value::is_true` says `false`, `get_attr` /
`get_item(_opt)` / `get_attr_fast` / `get_item_by_index` hand back an undefined, an `is_undefined()` guard is a
hand-rolled decision).  A site of the language that asks the twin instead of the helper is outside the documented
matrix although every helper row is untouched -- seeded C12-6 (the recursion arm of `push_loop` called
`Value::try_iter`) and C12-7 (`as_const` folded look-ups, so the folded `not` / `or` / `~` never reached the VM arm
that asks the helper).

`MJ.Gen.undefBlindTwins` is regenerated from the source on every run: every call `.twin(` in `minijinja/src` and
`minijinja-contrib/src` that does not go through the mode, per (file, fn, twin) with its count.  Below, every row
outside the value layer carries the reason why the twin is legitimate there; the theorem re-checks the two tables
against each other, so a NEW blind call (or one more in a function that had some) stops the build.
-/

namespace MJ.Undef

/-- why a call of a mode-blind twin is legitimate -/
inductive TwinWhy where
  /-- the body of the helper itself (`UndefinedBehavior::try_iter` = `assert_iterable` then `Value::try_iter`) -/
  | helperBody
  /-- the same function asks the mode helper about this operand (the twin only fetches / inspects the value):
      GetAttr / GetItem (`handle_undefined(parent.is_undefined())`), Slice (inline test), filters `attr`, `map`, `sum` -/
  | asksHelper
  /-- implements the row "`is defined`, `is undefined`, `default` never fail" -/
  | matrixNever
  /-- the operand is a boolean the engine just computed (result of `ops::contains`, of a test call) -/
  | engineBool
  /-- the operand is a compile-time constant; no constant is undefined (`as_const` has no look-up arm: it has
      no `get_attr` / `get_item` row in the table) -/
  | constOperand
  /-- `Object::try_iter` on `value.as_object()`: an undefined is not an object -/
  | objectOnly
  /-- the operand is built by the engine (argument spec of a macro, kwargs, the context root and its frames) -/
  | engineValue
  /-- the argument conversion layer (`Option<T>`: undefined and none are a missing argument; `Vec<T>`), modelled
      from the extracted ArgType table (arg_conversion_table) -/
  | conversionLayer
  /-- body of a builtin filter / test / function (or of pycompat / minijinja-contrib) that treats an undefined
      operand the same under every mode: not a row of the matrix, monotone, exercised by the call / sweep / pyx
      streams.  Never allowed inside the VM or the compiler. -/
  | builtinBody
  deriving DecidableEq, Repr

/-- the value layer defines the twins (they take no mode by construction); argtypes.rs is the conversion layer -/
def valueLayer (file : String) : Bool :=
  ["minijinja/src/value/mod.rs", "minijinja/src/value/ops.rs", "minijinja/src/value/object.rs",
   "minijinja/src/value/merge_object.rs", "minijinja/src/value/deserialize.rs", "minijinja/src/value/serialize.rs",
   "minijinja/src/value/tuple.rs", "minijinja/src/value/type_erase.rs", "minijinja/src/value/namespace_object.rs"].contains file

/-- (file, fn, twin, number of calls, why) for every twin call outside the value layer -/
def twinJustification : List (String × String × String × Nat × TwinWhy) := [
  ("minijinja-contrib/src/filters/mod.rs", "pluralize", "is_undefined", 1, .builtinBody),
  ("minijinja-contrib/src/filters/mod.rs", "random", "get_item_by_index", 1, .builtinBody),
  ("minijinja-contrib/src/pycompat.rs", "string_methods", "try_iter", 4, .builtinBody),
  ("minijinja-contrib/src/pycompat.rs", "map_methods", "try_iter", 1, .builtinBody),
  ("minijinja-contrib/src/pycompat.rs", "seq_methods", "try_iter", 1, .builtinBody),
  ("minijinja/src/compiler/ast.rs", "as_const", "is_true", 2, .constOperand),
  ("minijinja/src/compiler/ast.rs", "eval_binop", "is_true", 2, .constOperand),
  ("minijinja/src/compiler/ast.rs", "eval_compare", "is_true", 1, .constOperand),
  ("minijinja/src/filters.rs", "dictsort", "try_iter", 1, .builtinBody),
  ("minijinja/src/filters.rs", "dictsort", "get_item", 1, .builtinBody),
  ("minijinja/src/filters.rs", "join_safe", "try_iter", 1, .builtinBody),
  ("minijinja/src/filters.rs", "default", "is_undefined", 1, .matrixNever),
  ("minijinja/src/filters.rs", "default", "is_true", 1, .matrixNever),
  ("minijinja/src/filters.rs", "sum", "is_undefined", 1, .asksHelper),
  ("minijinja/src/filters.rs", "attr", "get_item_opt", 1, .asksHelper),
  ("minijinja/src/filters.rs", "attr", "is_undefined", 1, .asksHelper),
  ("minijinja/src/filters.rs", "first", "try_iter", 1, .builtinBody),
  ("minijinja/src/filters.rs", "last", "try_iter", 1, .builtinBody),
  ("minijinja/src/filters.rs", "urlencode", "try_iter", 1, .builtinBody),
  ("minijinja/src/filters.rs", "urlencode", "get_item", 1, .builtinBody),
  ("minijinja/src/filters.rs", "urlencode", "is_undefined", 1, .builtinBody),
  ("minijinja/src/filters.rs", "select_or_reject", "is_true", 2, .engineBool),
  ("minijinja/src/filters.rs", "map", "get_item", 1, .asksHelper),
  ("minijinja/src/filters.rs", "map", "is_undefined", 2, .asksHelper),
  ("minijinja/src/filters.rs", "groupby", "try_iter", 1, .builtinBody),
  ("minijinja/src/filters.rs", "zip", "try_iter", 2, .builtinBody),
  ("minijinja/src/formatting.rs", "missing_arg_err", "get_attr", 1, .builtinBody),
  ("minijinja/src/formatting.rs", "missing_arg_err", "is_undefined", 1, .builtinBody),
  ("minijinja/src/formatting.rs", "get_nested_val", "get_attr", 2, .builtinBody),
  ("minijinja/src/formatting.rs", "get_nested_val", "get_item_by_index", 1, .builtinBody),
  ("minijinja/src/formatting.rs", "get_nested_val", "is_undefined", 1, .builtinBody),
  ("minijinja/src/functions.rs", "dict", "is_true", 1, .engineValue),
  ("minijinja/src/tests.rs", "is_undefined", "is_undefined", 1, .matrixNever),
  ("minijinja/src/tests.rs", "is_defined", "is_undefined", 1, .matrixNever),
  ("minijinja/src/tests.rs", "is_iterable", "try_iter", 1, .builtinBody),
  ("minijinja/src/tests.rs", "is_in", "is_true", 1, .engineBool),
  ("minijinja/src/utils.rs", "is_true", "is_true", 1, .helperBody),
  ("minijinja/src/utils.rs", "try_iter", "try_iter", 1, .helperBody),
  ("minijinja/src/value/argtypes.rs", "from_value", "is_undefined", 1, .conversionLayer),
  ("minijinja/src/value/argtypes.rs", "from_value_owned", "is_undefined", 1, .conversionLayer),
  ("minijinja/src/value/argtypes.rs", "convert_vec", "try_iter", 1, .conversionLayer),
  ("minijinja/src/vm/context.rs", "fmt", "is_undefined", 1, .engineValue),
  ("minijinja/src/vm/context.rs", "load", "get_attr_fast", 1, .engineValue),
  ("minijinja/src/vm/context.rs", "known_variables", "try_iter", 1, .engineValue),
  ("minijinja/src/vm/context.rs", "known_variables", "get_item", 1, .engineValue),
  ("minijinja/src/vm/mod.rs", "eval_impl", "get_attr_fast", 1, .asksHelper),
  ("minijinja/src/vm/mod.rs", "eval_impl", "is_undefined", 4, .asksHelper),
  ("minijinja/src/vm/mod.rs", "eval_impl", "get_item_opt", 1, .asksHelper),
  ("minijinja/src/vm/mod.rs", "eval_impl", "is_true", 2, .engineBool),
  ("minijinja/src/vm/mod.rs", "perform_include", "try_iter", 1, .objectOnly),
  ("minijinja/src/vm/mod.rs", "unpack_list", "try_iter", 1, .objectOnly),
  ("minijinja/src/vm/mod.rs", "build_macro", "try_iter", 1, .engineValue),
  ("minijinja/src/vm/state.rs", "perform_test", "is_true", 1, .engineBool)]

/-- where builtin filters / tests / functions live: only there may a twin call be excused as a builtin body
    (never inside the VM, the compiler or utils.rs) -/
def builtinFile (file : String) : Bool :=
  ["minijinja/src/filters.rs", "minijinja/src/tests.rs", "minijinja/src/functions.rs", "minijinja/src/formatting.rs",
   "minijinja-contrib/src/filters/mod.rs", "minijinja-contrib/src/filters/datetime.rs", "minijinja-contrib/src/globals.rs",
   "minijinja-contrib/src/pycompat.rs"].contains file

/-- the functions in which some call of a mode helper was found (regenerated mention table) -/
def asksAHelper (file fn : String) : Bool :=
  MJ.Gen.undefModeMentions.any (fun r => r.1 == file && r.2.1 == fn &&
    ["helper:handle_undefined", "helper:is_true", "helper:try_iter", "helper:assert_iterable",
     "helper:assert_value_not_undefined"].contains r.2.2.1)

/-- every call of a mode-blind twin outside the value layer is justified, with its exact count; a justification
    "the function asks the helper" is backed by a helper call found in that very function; inside the VM, the
    compiler and utils.rs no call is excused as a builtin body; the constant folder has no look-up twin. -/
theorem blind_twin_sites_justified :
    (MJ.Gen.undefBlindTwins.filter (fun r => !valueLayer r.1)) = twinJustification.map (fun j => (j.1, j.2.1, j.2.2.1, j.2.2.2.1)) ∧
    (∀ j ∈ twinJustification, j.2.2.2.2 = TwinWhy.asksHelper → asksAHelper j.1 j.2.1 = true) ∧
    (∀ j ∈ twinJustification, j.2.2.2.2 = TwinWhy.builtinBody → builtinFile j.1 = true) ∧
    (∀ j ∈ twinJustification, j.2.2.2.2 = TwinWhy.helperBody → j.1 = "minijinja/src/utils.rs" ∧ j.2.1 = j.2.2.1) ∧
    (∀ r ∈ MJ.Gen.undefBlindTwins, r.1 = "minijinja/src/compiler/ast.rs" → r.2.2.1 = "is_true") := by decide

/-- not vacuous: the table has VM rows that are justified by a helper call, and the check rejects what the two
    seeded changes did (a `try_iter` row in push_loop, a `get_item` row in as_const) -/
example : ("minijinja/src/vm/mod.rs", "eval_impl", "get_item_opt", 1, TwinWhy.asksHelper) ∈ twinJustification ∧
    asksAHelper "minijinja/src/vm/mod.rs" "eval_impl" = true ∧ asksAHelper "minijinja/src/vm/mod.rs" "unpack_list" = false ∧
    (("minijinja/src/vm/mod.rs", "push_loop", "try_iter", 1) :: MJ.Gen.undefBlindTwins).filter (fun r => !valueLayer r.1)
      ≠ twinJustification.map (fun j => (j.1, j.2.1, j.2.2.1, j.2.2.2.1)) ∧
    ¬ (∀ r ∈ [("minijinja/src/compiler/ast.rs", "as_const", "get_item", 1)], r.1 = "minijinja/src/compiler/ast.rs" → r.2.2.1 = "is_true") := by
  decide

end MJ.Undef
