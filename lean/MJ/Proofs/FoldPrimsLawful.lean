import MJ.Proofs.Fold
import MJ.Model.FoldPrims
/-! The driver's concrete primitives (`MJ.Fold.Conc.prims`) are `Lawful`. -/
namespace MJ.Fold.Conc
open MJ.Fold

theorem chk_def {n : Int} {v : V} (h : chk n = .ok v) : v ≠ .undef := by
  unfold chk at h; split at h <;> simp at h; subst h; simp

/-- close a goal `v ≠ undef` from a hypothesis `h : <result> = ok v` after all matches are split -/
macro "fin_def" h:ident : tactic => `(tactic| first
  | exact chk_def $h
  | (simp [bad] at $h:ident; done)
  | (simp [bad] at $h:ident; subst $h; simp; done)
  | (simp [bad] at $h:ident; rw [← $h:ident]; simp; done))

theorem repeatSeq_def {mk : List V → V} (hmk : ∀ l, mk l ≠ .undef) {xs : List V} {n : V} {t : Bool} {v : V}
    (h : repeatSeq mk xs n t = .ok v) : v ≠ .undef := by
  unfold repeatSeq at h
  repeat' (split at h)
  all_goals first | (simp [bad] at h; done) | (simp at h; subst h; exact hmk _)

/-- the concrete value operations used by the driver satisfy the laws the C04 theorems assume -/
theorem prims_lawful : prims.Lawful where
  add := by
    intro a b v h; simp only [prims, add] at h
    repeat' (split at h)
    all_goals fin_def h
  sub := by
    intro a b v h; simp only [prims, sub] at h
    repeat' (split at h)
    all_goals fin_def h
  mul := by
    intro a b v h; simp only [prims, mul] at h
    repeat' (split at h)
    all_goals first
      | exact repeatSeq_def (by intro l; simp) h
      | fin_def h
  div := by
    intro a b v h; simp only [prims, div] at h
    repeat' (split at h)
    all_goals fin_def h
  fdiv := by
    intro a b v h; simp only [prims, fdiv] at h
    repeat' (split at h)
    all_goals fin_def h
  rem := by
    intro a b v h; simp only [prims, rem] at h
    repeat' (split at h)
    all_goals fin_def h
  pow := by
    intro a b v h; simp only [prims, pow] at h
    repeat' (split at h)
    all_goals fin_def h
  neg := by
    intro a v h; simp only [prims, neg] at h
    repeat' (split at h)
    all_goals fin_def h
  concat := by intro a b; simp [prims, concat]
  contains := by
    intro a b v h; simp only [prims, contains] at h
    split at h <;> (simp [bad] at h; try subst h; simp)
  mkMap := by intro ps; simp [prims, mkMap]
  isTrue_bool := by intro b; simp [prims, isTrue]
  contains_bool := by
    intro a b v h; simp only [prims, contains] at h
    split at h <;> simp [bad] at h <;> exact ⟨_, h.symm⟩
/-! ### facts about the concrete map construction: the last pair wins for its key -/

theorem cmpStr_refl (a : String) : cmpStr a a = .eq := by
  unfold cmpStr
  have : ¬ a < a := String.lt_irrefl a
  simp [this]

theorem cmpFl_refl (x : Fl) : (cmpFl x x).getD .eq = .eq := by
  cases x <;> simp [cmpFl]

mutual
  theorem cmpV_refl : ∀ v : V, cmpV v v = .eq
    | .undef => by simp [cmpV, flOf]
    | .silent => by simp [cmpV, flOf]
    | .none => by simp [cmpV, flOf]
    | .bool b => by simp [cmpV, flOf, cmpFl]
    | .int n => by simp [cmpV, flOf, cmpFl]
    | .float b => by simp [cmpV, flOf]; exact cmpFl_refl _
    | .str s => by simp [cmpV, cmpStr_refl]
    | .list xs => by rw [cmpV]; exact cmpL_refl xs
    | .tuple xs => by rw [cmpV]; exact cmpL_refl xs
    | .map xs => by rw [cmpV]; exact cmpP_refl xs
    | .other _ => by simp [cmpV, flOf]
  theorem cmpL_refl : ∀ xs : List V, cmpL xs xs = .eq
    | [] => by simp [cmpL]
    | x :: xs => by rw [cmpL, cmpV_refl x]; exact cmpL_refl xs
  theorem cmpP_refl : ∀ xs : List (V × V), cmpP xs xs = .eq
    | [] => by simp [cmpP]
    | (k, v) :: xs => by rw [cmpP, cmpV_refl k]; simp only []; rw [cmpV_refl v]; exact cmpP_refl xs
end

/-- looking a key up right after inserting it finds the inserted value (`BTreeMap::insert`
    overwrites the value of an equal key) -/
theorem mapGet_mapInsert_self (k v : V) : ∀ m : List (V × V), mapGet k (mapInsert k v m) = some v
  | [] => by simp [mapInsert, mapGet, cmpV_refl]
  | (k', v') :: rest => by
    rw [mapInsert]
    cases h : cmpV k k' with
    | lt => simp [mapGet, cmpV_refl]
    | eq => simp [mapGet, h]
    | gt => simp only [mapGet, h]; simpa using mapGet_mapInsert_self k v rest

/-- `{…, k: v}` (run time: `BuildMap`; compile time: `Map::as_const`; both insert in source order):
    the LAST pair of a map literal determines the value of its key, whatever came before -/
theorem mkMap_last_wins (ps : List (V × V)) (k v : V) :
    ∃ m, mkMap (ps ++ [(k, v)]) = .map m ∧ mapGet k m = some v := by
  refine ⟨_, rfl, ?_⟩
  simp only [List.foldl_append, List.foldl_cons, List.foldl_nil]
  exact mapGet_mapInsert_self k v _

/-- the same for keyword arguments (`f(a=1, a=2)` passes `a=2`) -/
theorem kwInsert_self (k : String) (v : V) : ∀ m : List (String × V), (kwInsert k v m).lookup k = some v
  | [] => by simp [kwInsert]
  | (k', v') :: rest => by
    rw [kwInsert]
    split
    · simp [List.lookup]
    · split
      · next h => subst h; simp [List.lookup]
      · next h1 h2 =>
        have : (k == k') = false := by simpa using h2
        simp only [List.lookup, this]
        exact kwInsert_self k v rest

end MJ.Fold.Conc
