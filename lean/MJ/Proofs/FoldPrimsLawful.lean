import MJ.Proofs.Fold
import MJ.Model.FoldPrims
/-! The driver's concrete primitives (`MJ.Fold.Conc.prims`) are `Lawful`. -/
namespace MJ.Fold.Conc
open MJ.Fold

theorem chk_def {n : Int} {v : V} (h : chk n = .ok v) : v ≠ .undef := by
  unfold chk at h; split at h <;> simp at h; subst h; simp

/-- close a goal `v ≠ undef` from a hypothesis `h : <result> = ok v` after all matches are split -/
macro "fin_def" h:ident : tactic => `(tactic| first
  | exact chk_def $h
  | (simp [bad] at $h:ident; done)
  | (simp [bad] at $h:ident; subst $h; simp; done)
  | (simp [bad] at $h:ident; rw [← $h:ident]; simp; done))

theorem repeatSeq_def {mk : List V → V} (hmk : ∀ l, mk l ≠ .undef) {xs : List V} {n : V} {t : Bool} {v : V}
    (h : repeatSeq mk xs n t = .ok v) : v ≠ .undef := by
  unfold repeatSeq at h
  repeat' (split at h)
  all_goals first | (simp [bad] at h; done) | (simp at h; subst h; exact hmk _)

/-- the concrete value operations used by the driver satisfy the laws the C04 theorems assume -/
theorem prims_lawful : prims.Lawful where
  add := by
    intro a b v h; simp only [prims, add] at h
    repeat' (split at h)
    all_goals fin_def h
  sub := by
    intro a b v h; simp only [prims, sub] at h
    repeat' (split at h)
    all_goals fin_def h
  mul := by
    intro a b v h; simp only [prims, mul] at h
    repeat' (split at h)
    all_goals first
      | exact repeatSeq_def (by intro l; simp) h
      | fin_def h
  div := by
    intro a b v h; simp only [prims, div] at h
    repeat' (split at h)
    all_goals fin_def h
  fdiv := by
    intro a b v h; simp only [prims, fdiv] at h
    repeat' (split at h)
    all_goals fin_def h
  rem := by
    intro a b v h; simp only [prims, rem] at h
    repeat' (split at h)
    all_goals fin_def h
  pow := by
    intro a b v h; simp only [prims, pow] at h
    repeat' (split at h)
    all_goals fin_def h
  neg := by
    intro a v h; simp only [prims, neg] at h
    repeat' (split at h)
    all_goals fin_def h
  concat := by intro a b; simp [prims, concat]
  contains := by
    intro a b v h; simp only [prims, contains] at h
    split at h <;> (simp [bad] at h; try subst h; simp)
  mkMap := by intro ps; simp [prims, mkMap]
  isTrue_bool := by intro b; simp [prims, isTrue]
  contains_bool := by
    intro a b v h; simp only [prims, contains] at h
    split at h <;> simp [bad] at h <;> exact ⟨_, h.symm⟩
end MJ.Fold.Conc
