import MJ.Proofs.Fold
import MJ.Model.FoldPrims
/-! The driver's concrete primitives (`MJ.Fold.Conc.prims`) are `Lawful`. -/
namespace MJ.Fold.Conc
open MJ.Fold

theorem chk_def {n : Int} {v : V} (h : chk n = .ok v) : v ≠ .undef := by
  unfold chk at h; split at h <;> simp at h; subst h; simp

/-- the concrete value operations used by the driver satisfy the laws the C04 theorems assume -/
theorem prims_lawful : prims.Lawful where
  add := by
    intro a b v h; simp only [prims, add] at h
    split at h <;> (try (simp [bad] at h; done)) <;> (try (simp at h; subst h; simp; done))
    split at h <;> first | exact chk_def h | (simp [bad, ofF] at h; try subst h; simp)
  sub := by
    intro a b v h; simp only [prims, sub] at h
    split at h <;> first | exact chk_def h | (simp [bad, ofF] at h; try subst h; simp)
  mul := by
    intro a b v h; simp only [prims, mul] at h
    repeat' (split at h)
    all_goals first | exact chk_def h | (simp [bad, ofF] at h; try subst h; simp)
  div := by
    intro a b v h; simp only [prims, div] at h
    split at h <;> (simp [bad, ofF] at h; try subst h; simp)
  fdiv := by
    intro a b v h; simp only [prims, fdiv] at h
    split at h
    · split at h
      · simp [bad] at h
      · exact chk_def h
    all_goals simp [bad] at h
  rem := by
    intro a b v h; simp only [prims, rem] at h
    split at h
    · split at h
      · simp [bad] at h
      · exact chk_def h
    all_goals simp [bad] at h
  pow := by
    intro a b v h; simp only [prims, pow] at h
    split at h
    · repeat' (split at h)
      all_goals first | exact chk_def h | (simp [bad] at h; try subst h; simp)
    all_goals simp [bad] at h
  neg := by
    intro a v h; simp only [prims, neg] at h
    split at h
    · simp at h; subst h; simp
    · split at h
      · exact chk_def h
      · simp [bad] at h
    · simp [bad] at h
  concat := by intro a b; simp [prims, concat]
  contains := by
    intro a b v h; simp only [prims, contains] at h
    split at h <;> (simp [bad] at h; try subst h; simp)
  mkMap := by intro ps; simp [prims, mkMap]
  isTrue_bool := by intro b; simp [prims, isTrue]
  contains_bool := by
    intro a b v h; simp only [prims, contains] at h
    split at h <;> simp [bad] at h <;> exact ⟨_, h.symm⟩
end MJ.Fold.Conc
