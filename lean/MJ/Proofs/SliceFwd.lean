import MJ.Proofs.SliceBack
/-! Forward slicing: `get_offset_and_len` + skip/take/step_by select exactly Python's positions. -/
namespace MJ.Slice
open MJ Chk

/-- start/stop before clamping to the length: what `get_offset_and_len` computes -/
def preClamp (L : Int) (b : Option Int) (d : Int) : Int :=
  match b with
  | none => d
  | some s => if s < 0 then max (s + L) 0 else s

theorem preClamp_nonneg (L : Int) (b : Option Int) (d : Int) (hd : 0 ≤ d) : 0 ≤ preClamp L b d := by
  unfold preClamp
  cases b with
  | none => exact hd
  | some s => simp only; split <;> omega

theorem preClamp_lt (L : Int) (b : Option Int) (d : Int) (hb : OptInI64 b) (hd : d < 9223372036854775808)
    (hL : L < 9223372036854775808) (hL0 : 0 ≤ L) : preClamp L b d < 9223372036854775808 := by
  unfold preClamp
  cases b with
  | none => exact hd
  | some s => simp only [OptInI64, InI64] at hb; simp only; split <;> omega

theorem relEnd_ok (L x : Int) (hx : x < 0) (hx2 : -9223372036854775808 ≤ x) (hL0 : 0 ≤ L)
    (hL : L < 9223372036854775808) : relEnd L x = .ok (max (x + L) 0).toNat := by
  unfold relEnd
  rw [i64_ok (L + x) (by omega) (by omega), ok_bind, asUsize_of_nonneg _ (by omega) (by omega)]
  simp only [pure_eq]
  congr 2; omega

theorem offsetLen_ok (start stop : Option Int) (len : Nat)
    (hs : OptInI64 start) (he : OptInI64 stop) (hl : len < 9223372036854775808) :
    offsetLen start stop len =
      .ok ((preClamp len start 0).toNat, (preClamp len stop len).toNat - (preClamp len start 0).toNat) := by
  have hL0 : (0 : Int) ≤ (len : Int) := Int.natCast_nonneg _
  have hL : (len : Int) < 9223372036854775808 := by omega
  unfold offsetLen preClamp
  rw [asI64_of_lt len hl]
  cases start with
  | none =>
    cases stop with
    | none =>
      simp only [Option.getD_none, or_true, if_true, Int.lt_irrefl, if_false]
      rw [asUsize_of_nonneg 0 (by omega) (by omega)]
      simp
    | some x =>
      simp only [OptInI64, InI64] at he
      by_cases hx : x < 0
      · simp only [Option.getD_none, hx, decide_true, or_true, if_true, Int.lt_irrefl, if_false]
        rw [relEnd_ok len x hx (by omega) hL0 hL, asUsize_of_nonneg 0 (by omega) (by omega)]
        simp
      · simp only [Option.getD_none, hx, decide_false, Int.lt_irrefl, Bool.false_eq_true, or_false, if_false]
        rw [asUsize_of_nonneg 0 (by omega) (by omega), asUsize_of_nonneg x (by omega) (by omega)]
        simp
  | some s =>
    simp only [OptInI64, InI64] at hs
    cases stop with
    | none =>
      by_cases h : s < 0
      · simp only [Option.getD_some, h, true_or, if_true]
        rw [relEnd_ok len s h (by omega) hL0 hL]
        simp
      · simp only [Option.getD_some, h, false_or, if_true, if_false]
        rw [asUsize_of_nonneg s (by omega) (by omega)]
        simp
    | some x =>
      simp only [OptInI64, InI64] at he
      by_cases h : s < 0 <;> by_cases hx : x < 0
      · simp only [Option.getD_some, h, hx, true_or, if_true]
        rw [relEnd_ok len s h (by omega) hL0 hL, relEnd_ok len x hx (by omega) hL0 hL]
        simp
      · simp only [Option.getD_some, h, hx, true_or, if_true, if_false]
        rw [relEnd_ok len s h (by omega) hL0 hL, asUsize_of_nonneg x (by omega) (by omega)]
        simp
      · simp only [Option.getD_some, h, hx, decide_true, or_true, if_true, if_false]
        rw [relEnd_ok len x hx (by omega) hL0 hL, asUsize_of_nonneg s (by omega) (by omega)]
        simp
      · simp only [Option.getD_some, h, hx, decide_false, Bool.false_eq_true, or_false, if_false]
        rw [asUsize_of_nonneg s (by omega) (by omega), asUsize_of_nonneg x (by omega) (by omega)]
        simp

theorem adjust_pos (len : Nat) (start stop : Option Int) (k : Nat) (hk : 0 < k) :
    PySlice.adjust len start stop (k : Int) =
      (min (preClamp len start 0) len,
        if min (preClamp len start 0) len < min (preClamp len stop len) len then
          ((min (preClamp len stop len) len - min (preClamp len start 0) len - 1) / (k : Int) + 1).toNat
        else 0) := by
  have hL0 : (0 : Int) ≤ (len : Int) := Int.natCast_nonneg _
  have e1 : PySlice.clampPos len start 0 = min (preClamp len start 0) len := by
    unfold preClamp PySlice.clampPos
    cases start with
    | none => simp only; omega
    | some s => simp only; split <;> omega
  have e2 : PySlice.clampPos len stop len = min (preClamp len stop len) len := by
    unfold preClamp PySlice.clampPos
    cases stop with
    | none => simp only; omega
    | some s => simp only; split <;> omega
  unfold PySlice.adjust
  have : ((k : Int) > 0) := by omega
  simp only [this, if_true]
  rw [e1, e2]

theorem slice_fwd {α : Type} (xs : List α) (start stop : Option Int) (k : Nat)
    (hs : OptInI64 start) (he : OptInI64 stop) (hk : 0 < k) (hl : xs.length < 9223372036854775808) :
    stepBy k ((xs.drop (preClamp xs.length start 0).toNat).take
        ((preClamp xs.length stop xs.length).toNat - (preClamp xs.length start 0).toNat)) =
      pick xs (PySlice.indices xs.length start stop (k : Int)) ∧
    ∀ i ∈ PySlice.indices xs.length start stop (k : Int), i < xs.length := by
  have hL0 : (0 : Int) ≤ (xs.length : Int) := Int.natCast_nonneg _
  have ha0 := preClamp_nonneg xs.length start 0 (by omega)
  have hb0 := preClamp_nonneg xs.length stop xs.length hL0
  obtain ⟨a, ha⟩ : ∃ a : Nat, preClamp xs.length start 0 = (a : Int) := ⟨_, (Int.toNat_of_nonneg ha0).symm⟩
  obtain ⟨b, hb⟩ : ∃ b : Nat, preClamp xs.length stop xs.length = (b : Int) := ⟨_, (Int.toNat_of_nonneg hb0).symm⟩
  unfold PySlice.indices
  rw [adjust_pos xs.length start stop k hk, ha, hb]
  simp only [Int.toNat_natCast]
  generalize hL : xs.length = L at *
  -- characterisation of the count
  have key : ∀ j : Nat,
      (j < (if min (a : Int) L < min (b : Int) L then ((min (b : Int) L - min (a : Int) L - 1) / (k : Int) + 1).toNat else 0))
        ↔ (min a L < min b L ∧ j * k < min b L - min a L) := by
    intro j
    by_cases h : min (a : Int) L < min (b : Int) L
    · have h' : min a L < min b L := by omega
      rw [if_pos h]
      obtain ⟨m, hm⟩ : ∃ m : Nat, min (b : Int) L - min (a : Int) L - 1 = (m : Int) := ⟨_, (Int.toNat_of_nonneg (by omega)).symm⟩
      rw [hm, div_int_nat]
      have : (((m / k : Nat) : Int) + 1).toNat = m / k + 1 := by generalize m / k = q; omega
      rw [this, lt_div_succ_iff j m k hk]
      have : m = min b L - min a L - 1 := by omega
      constructor
      · intro hj; exact ⟨h', by omega⟩
      · intro ⟨_, hj⟩; omega
    · have h' : ¬ min a L < min b L := by omega
      rw [if_neg h]
      constructor
      · intro hj; omega
      · intro ⟨hh, _⟩; exact absurd hh h'
  generalize hn : (if min (a : Int) L < min (b : Int) L then
      ((min (b : Int) L - min (a : Int) L - 1) / (k : Int) + 1).toNat else 0) = n at key
  have hmem : ∀ i ∈ List.map (fun (j : Nat) => (((min (a : Int) L) + (j : Int) * (k : Int))).toNat) (List.range n), i < L := by
    intro i hi
    rw [List.mem_map] at hi
    obtain ⟨j, hj, rfl⟩ := hi
    rw [List.mem_range] at hj
    obtain ⟨h1, h2⟩ := (key j).mp hj
    have hp : (j : Int) * (k : Int) = ((j * k : Nat) : Int) := (Int.natCast_mul j k).symm
    rw [hp]
    generalize j * k = p at h2 ⊢
    omega
  constructor
  · apply List.ext_getElem?
    intro j
    rw [stepBy_getElem? k hk, List.getElem?_take, List.getElem?_drop, pick_getElem? xs _ (by rw [hL]; exact hmem),
      List.getElem?_map]
    have hp : (j : Int) * (k : Int) = ((j * k : Nat) : Int) := (Int.natCast_mul j k).symm
    by_cases hj : j < n
    · obtain ⟨h1, h2⟩ := (key j).mp hj
      rw [List.getElem?_range hj]
      simp only [Option.map_some, Option.bind_some]
      rw [hp]
      generalize j * k = p at h2 ⊢
      rw [if_pos (by omega)]
      congr 1
      omega
    · have hr : (List.range n)[j]? = none := List.getElem?_eq_none (by simpa using hj)
      rw [hr]
      simp only [Option.map_none, Option.bind_none]
      have hk' : ¬ (min a L < min b L ∧ j * k < min b L - min a L) := fun h => hj ((key j).mpr h)
      generalize j * k = p at hk' ⊢
      split
      · apply List.getElem?_eq_none
        rw [hL]
        by_cases hh : min a L < min b L
        · have : ¬ p < min b L - min a L := fun h => hk' ⟨hh, h⟩
          omega
        · omega
      · rfl
  · exact hmem

end MJ.Slice
