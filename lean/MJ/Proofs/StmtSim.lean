import MJ.Proofs.StmtRel
/-!
# Statements compile correctly (C03 stage 3)

Simulation between the reference semantics (`exec`, scopes as heap cells) and the model VM (frames)
for the statements of `simpleStmt`: text, emit, `set`, set/filter blocks, `if`, `with`, `for`,
`break`, `continue`.  The relation `Rel`
pairs the visible cells with the frames (`FramesRel`: same answer for every variable, including
`loop`), the output with the innermost capture buffer.  By induction on the fuel of the reference
execution, for statements, blocks, `with` bindings and loop iterations together (`sim_stmt_all`);
`vm_refines_eval_partial` is the resulting theorem about whole templates.
-/
namespace MJ.Vm
open MJ.Eval MJ.Compile MJ.C03

/-- what one frame answers for a variable -/
def frameLookup (f : Frame) (x : String) : Option Val :=
  match assocGet x f.locals with
  | some v => some v
  | none =>
    match f.loop with
    | some l => if l.withLoopVar && x == "loop" then some (loopVal l.info) else none
    | none => none

theorem lookupFrames_cons (ctx : Scope) (x : String) (f : Frame) (rest : List Frame) :
    lookupFrames ctx x (f :: rest) = match frameLookup f x with
      | some v => v
      | none => lookupFrames ctx x rest := by
  simp only [lookupFrames, frameLookup]
  cases assocGet x f.locals with
  | some v => rfl
  | none =>
    cases f.loop with
    | none => rfl
    | some l => by_cases h : (l.withLoopVar && x == "loop") = true <;> simp [h]

/-- frame `i` of the VM and scope cell `stack[i]` of the reference semantics answer alike -/
def FramesRel (heap : Heap) : List Nat → List Frame → Prop
  | [], [] => True
  | id :: ids, f :: fs => (∃ cell, heap[id]? = some cell ∧ ∀ x, assocGet x cell = frameLookup f x) ∧ FramesRel heap ids fs
  | _, _ => False

theorem FramesRel.envRel {ctx heap} : ∀ {stack frames}, FramesRel heap stack frames → EnvRel ctx heap stack frames := by
  intro stack
  induction stack with
  | nil =>
    intro frames h x
    cases frames with
    | nil => simp [lookupFrames, lookup, lookupIn]
    | cons f fs => simp [FramesRel] at h
  | cons id ids ih =>
    intro frames h x
    cases frames with
    | nil => simp [FramesRel] at h
    | cons f fs =>
      obtain ⟨⟨cell, hc, hag⟩, hrest⟩ := h
      have := ih hrest x
      rw [lookupFrames_cons]
      simp only [lookup, lookupIn, hc, Option.bind_some, hag x] at this ⊢
      cases frameLookup f x with
      | some v => rfl
      | none => simpa [lookup] using this

theorem FramesRel.congr {heap heap' : Heap} : ∀ {ids fs}, (∀ id ∈ ids, heap'[id]? = heap[id]?) →
    FramesRel heap ids fs → FramesRel heap' ids fs := by
  intro ids
  induction ids with
  | nil => intro fs _ h; cases fs <;> simpa [FramesRel] using h
  | cons id rest ih =>
    intro fs hh h
    cases fs with
    | nil => simp [FramesRel] at h
    | cons f fs' =>
      obtain ⟨⟨cell, hc, hag⟩, hrest⟩ := h
      exact ⟨⟨cell, by rw [hh id (by simp)]; exact hc, hag⟩, ih (fun i hi => hh i (by simp [hi])) hrest⟩

/-- the relation between a state of the reference semantics (in scope `stack`) and a VM state -/
structure Rel (σ : State) (stack : List Nat) (s : VmState) : Prop where
  frames : FramesRel σ.heap stack s.frames
  out : ∃ rest, s.outs = σ.out :: rest
  bound : ∀ id ∈ stack, id < σ.heap.length
  nodup : stack.Nodup
  nonempty : ∃ cell rs, stack = cell :: rs

theorem Rel.env {ctx σ stack s} (h : Rel σ stack s) : EnvRel ctx σ.heap stack s.frames := h.frames.envRel


theorem relBinds_oof_mono : ∀ (binds : List (Target × Expr)) (b : Nat) (a : Aux), a.oof = true →
    (relBinds binds b a).2.oof = true
  | [], b, a, h => by simp [relBinds, h]
  | (t, e) :: rest, b, a, h => by
    simp only [relBinds]; exact relBinds_oof_mono rest _ _ (relExpr_oof_mono e b a h)

theorem relFilters_oof_mono : ∀ (fs : List FilterApp) (b : Nat) (a : Aux), a.oof = true →
    (relFilters fs b a).2.oof = true
  | [], b, a, h => by simp [relFilters, h]
  | (name, args) :: rest, b, a, h => by
    simp only [relFilters]
    exact relFilters_oof_mono rest _ _ (by simp [relArgs_oof_mono args b a h])

theorem relForIter_oof_mono (t : Target) (iter : Expr) (flt : Option Expr) (b : Nat) (a : Aux)
    (h : a.oof = true) : (relForIter t iter flt b a).2.oof = true := by
  cases flt with
  | none => exact relExpr_oof_mono iter b a h
  | some c => simp only [relForIter]; exact relExpr_oof_mono c _ _ (relExpr_oof_mono iter _ a h)

mutual
theorem relStmt_oof_mono : ∀ (st : Stmt) (b : Nat) (a : Aux) (lc : Option LoopCtx), a.oof = true →
    (relStmt st b a lc).1.2.oof = true
  | .text t, b, a, lc, h => by simp [relStmt, h]
  | .emit e, b, a, lc, h => by simp [relStmt, relExpr_oof_mono e b a h]
  | .set t e, b, a, lc, h => by simp [relStmt, relExpr_oof_mono e b a h]
  | .ifS c t [], b, a, lc, h => by
    simp only [relStmt]; exact relBlock_oof_mono t _ _ _ (relExpr_oof_mono c b a h)
  | .ifS c t (f :: fs), b, a, lc, h => by
    simp only [relStmt]
    exact relBlock_oof_mono (f :: fs) _ _ _ (relBlock_oof_mono t _ _ _ (relExpr_oof_mono c b a h))
  | .withS binds body, b, a, lc, h => by
    simp only [relStmt]; exact relBlock_oof_mono body _ _ _ (relBinds_oof_mono binds _ a h)
  | .forS t iter flt body [], b, a, lc, h => by
    simp only [relStmt]; exact relBlock_oof_mono body _ _ _ (relForIter_oof_mono t iter flt b a h)
  | .forS t iter flt body (e0 :: es), b, a, lc, h => by
    simp only [relStmt]
    exact relBlock_oof_mono (e0 :: es) _ _ _ (relBlock_oof_mono body _ _ _ (relForIter_oof_mono t iter flt b a h))
  | .setBlock x fs body, b, a, lc, h => by
    simp only [relStmt]; exact relFilters_oof_mono fs _ _ (relBlock_oof_mono body _ a _ h)
  | .filterBlock fs body, b, a, lc, h => by
    simp only [relStmt]; exact relFilters_oof_mono fs _ _ (relBlock_oof_mono body _ a _ h)
  | .macroS .., b, a, lc, h => by simp [relStmt]
  | .callBlock .., b, a, lc, h => by simp [relStmt]
  | .breakS, b, a, none, h => by simp [relStmt]
  | .breakS, b, a, some l, h => by simp [relStmt, h]
  | .continueS, b, a, none, h => by simp [relStmt]
  | .continueS, b, a, some l, h => by simp [relStmt, h]
theorem relBlock_oof_mono : ∀ (ss : List Stmt) (b : Nat) (a : Aux) (lc : Option LoopCtx), a.oof = true →
    (relBlock ss b a lc).1.2.oof = true
  | [], b, a, lc, h => by simp [relBlock, h]
  | s :: rest, b, a, lc, h => by
    simp only [relBlock]; exact relBlock_oof_mono rest _ _ _ (relStmt_oof_mono s b a lc h)
end

theorem oof_false_of_relBlock {ss b a lc} (h : (relBlock ss b a lc).1.2.oof = false) : a.oof = false := by
  cases ha : a.oof with
  | false => rfl
  | true => rw [relBlock_oof_mono ss b a lc ha] at h; cases h


theorem oof_false_of_relBinds {bs b a} (h : (relBinds bs b a).2.oof = false) : a.oof = false := by
  cases ha : a.oof with
  | false => rfl
  | true => rw [relBinds_oof_mono bs b a ha] at h; cases h

theorem oof_false_of_relFilters {fs b a} (h : (relFilters fs b a).2.oof = false) : a.oof = false := by
  cases ha : a.oof with
  | false => rfl
  | true => rw [relFilters_oof_mono fs b a ha] at h; cases h

theorem Rel.store {σ : State} {cell : Nat} {rs : List Nat} {s : VmState} (h : Rel σ (cell :: rs) s)
    (x : String) (v : Val) (s' : VmState) (hf : s'.frames = storeLocal x v s.frames) (ho : s'.outs = s.outs) :
    Rel { σ with heap := heapSet σ.heap cell x v } (cell :: rs) s' := by
  have hcell : cell < σ.heap.length := h.bound cell (by simp)
  cases hfr : s.frames with
  | nil => have := h.frames; rw [hfr] at this; simp [FramesRel] at this
  | cons f fs =>
    have hF := h.frames
    rw [hfr] at hF
    obtain ⟨⟨c, hc, hag⟩, hrest⟩ := hF
    refine ⟨?_, by rw [ho]; exact h.out, ?_, h.nodup, h.nonempty⟩
    · rw [hf, hfr]
      simp only [storeLocal]
      refine ⟨⟨assocSet x v c, ?_, ?_⟩, ?_⟩
      · have := heapSet_getElem?_same σ.heap cell x v hcell
        rw [List.getElem?_eq_getElem hcell] at hc
        simp at hc; subst hc; exact this
      · intro y
        by_cases hy : y = x
        · subst hy; simp [frameLookup, assocGet_assocSet_same]
        · have := hag y
          simp only [frameLookup, assocGet_assocSet_other x y v _ hy] at this ⊢
          exact this
      · refine FramesRel.congr (fun id hid => heapSet_getElem?_ne _ _ _ _ _ ?_) hrest
        intro e; subst e
        have := h.nodup; simp at this; exact this.1 hid
    · intro id hid; simpa [heapSet_length] using h.bound id hid

/-- pushing a fresh cell / frame -/
theorem Rel.push {σ : State} {stack : List Nat} {s : VmState} (h : Rel σ stack s) (cellv : Scope) (f : Frame)
    (hag : ∀ x, assocGet x cellv = frameLookup f x) (s' : VmState) (hf : s'.frames = f :: s.frames)
    (ho : s'.outs = s.outs) :
    Rel { σ with heap := σ.heap ++ [cellv] } (σ.heap.length :: stack) s' := by
  refine ⟨?_, by rw [ho]; exact h.out, ?_, ?_, ⟨_, _, rfl⟩⟩
  · rw [hf]
    refine ⟨⟨cellv, by simp, hag⟩, FramesRel.congr (fun id hid => ?_) h.frames⟩
    simp [List.getElem?_append_left (h.bound id hid)]
  · intro id hid
    simp at hid ⊢
    rcases hid with rfl | hid
    · omega
    · have := h.bound id hid; omega
  · simp only [List.nodup_cons]
    refine ⟨fun hmem => ?_, h.nodup⟩
    have := h.bound _ hmem; omega



theorem heapSetAll_append (h : Heap) (c : Nat) (b1 b2 : List (String × Val)) :
    heapSetAll h c (b1 ++ b2) = heapSetAll (heapSetAll h c b1) c b2 := by
  induction b1 generalizing h with
  | nil => rfl
  | cons p rest ih => obtain ⟨x, v⟩ := p; simp [heapSetAll, ih]

theorem bindTargets_length : ∀ (ts : List Target) (vs : List Val) (bs), bindTargets ts vs = .ok bs →
    vs.length = ts.length
  | [], [], _, _ => rfl
  | [], _ :: _, _, h => by simp [bindTargets] at h
  | _ :: _, [], _, h => by simp [bindTargets] at h
  | t :: ts, v :: vs, bs, h => by
    simp only [bindTargets] at h
    split at h
    · split at h
      · rename_i bs' hbs; simp [bindTargets_length ts vs bs' hbs]
      · simp at h
    · simp at h

/-- change only pc / operand stack of the VM state -/
theorem Rel.same {σ stack s} (h : Rel σ stack s) (s' : VmState) (hf : s'.frames = s.frames) (ho : s'.outs = s.outs) :
    Rel σ stack s' :=
  ⟨by rw [hf]; exact h.frames, by rw [ho]; exact h.out, h.bound, h.nodup, h.nonempty⟩

/-- what executing a piece of code achieves on the VM side, relative to the reference state `σ'` -/
def Done (ctx : Scope) (C : List Instr) (stack : List Nat) (σ' : State) (s : VmState) (endPc : Nat) : Prop :=
  ∃ s', Reach ctx C s s' ∧ s'.pc = endPc ∧ s'.stack = s.stack ∧ Rel σ' stack s' ∧
    s'.outs.tail = s.outs.tail ∧ s'.frames.tail = s.frames.tail ∧
    s'.frames.head?.map (·.loop) = s.frames.head?.map (·.loop)

/-- the same, when the code consumes the top of the operand stack (`v :: st` before, `st` after) -/
def Stored (ctx : Scope) (C : List Instr) (stack : List Nat) (σ' : State) (s : VmState) (st : List Val)
    (endPc : Nat) : Prop :=
  ∃ s', Reach ctx C s s' ∧ s'.pc = endPc ∧ s'.stack = st ∧ Rel σ' stack s' ∧
    s'.outs = s.outs ∧ s'.frames.tail = s.frames.tail ∧
    s'.frames.head?.map (·.loop) = s.frames.head?.map (·.loop)

theorem storeLocal_tail (x : String) (v : Val) (fs : List Frame) : (storeLocal x v fs).tail = fs.tail := by
  cases fs <;> rfl

theorem storeLocal_headLoop (x : String) (v : Val) (fs : List Frame) :
    (storeLocal x v fs).head?.map (·.loop) = fs.head?.map (·.loop) := by
  cases fs <;> rfl

mutual
/-- `compile_assignment` against `bindTarget`: the value on top of the operand stack is stored /
unpacked into the innermost frame exactly as the reference semantics writes the innermost cell -/
theorem sim_target : ∀ (t : Target) (v : Val) (bs : List (String × Val)), bindTarget t v = .ok bs →
    ∀ (ctx : Scope) (C : List Instr) (base : Nat) (s : VmState) (st : List Val) (σ : State) (cell : Nat) (rs : List Nat),
      At C base (relTarget t) → s.pc = base → s.stack = v :: st → Rel σ (cell :: rs) s →
      Stored ctx C (cell :: rs) { σ with heap := heapSetAll σ.heap cell bs } s st (base + (relTarget t).length)
  | .var x, v, bs, hb, ctx, C, base, s, st, σ, cell, rs, hAt, hpc, hst, hrel => by
    simp [bindTarget] at hb; subst hb
    simp only [relTarget] at hAt ⊢
    refine ⟨{ s with pc := base + 1, stack := st, frames := storeLocal x v s.frames },
      Reach.one (i := .storeLocal x) (by rw [hpc]; exact hAt.head) (by simp [MJ.Vm.step, hst, hpc]),
      rfl, rfl, ?_, rfl, storeLocal_tail _ _ _, storeLocal_headLoop _ _ _⟩
    simpa [heapSetAll] using hrel.store x v { s with pc := base + 1, stack := st, frames := storeLocal x v s.frames } rfl rfl
  | .tuple ts, v, bs, hb, ctx, C, base, s, st, σ, cell, rs, hAt, hpc, hst, hrel => by
    simp only [relTarget] at hAt ⊢
    -- the items that are unpacked
    have hitems : ∃ xs, bindTargets ts xs = .ok bs ∧
        MJ.Vm.step ctx (.unpackList ts.length) s = .ok { s with pc := s.pc + 1, stack := xs ++ st } := by
      cases v
      case list xs =>
        simp only [bindTarget] at hb
        refine ⟨xs, hb, ?_⟩
        simp [MJ.Vm.step, hst, bindTargets_length ts xs bs hb]
      case map kvs =>
        simp only [bindTarget] at hb
        refine ⟨_, hb, ?_⟩
        have := bindTargets_length ts _ bs hb
        simp [MJ.Vm.step, hst] at this ⊢
        simp [this]
      all_goals simp [bindTarget] at hb
    obtain ⟨xs, hbs, hstep⟩ := hitems
    have r1 : Reach ctx C s { s with pc := s.pc + 1, stack := xs ++ st } :=
      Reach.one (i := .unpackList ts.length) (by rw [hpc]; exact hAt.head) hstep
    obtain ⟨s2, r2, hpc2, hst2, hrel2, hout2, htl2, hhd2⟩ :=
      sim_targets ts xs bs hbs ctx C (base + 1) { s with pc := s.pc + 1, stack := xs ++ st } st σ cell rs
        hAt.tail (by simp [hpc]) rfl (hrel.same _ rfl rfl)
    exact ⟨s2, r1.trans r2, by simp [hpc2, Nat.add_assoc, Nat.add_comm], hst2, hrel2, hout2, htl2, hhd2⟩
theorem sim_targets : ∀ (ts : List Target) (vs : List Val) (bs : List (String × Val)), bindTargets ts vs = .ok bs →
    ∀ (ctx : Scope) (C : List Instr) (base : Nat) (s : VmState) (st : List Val) (σ : State) (cell : Nat) (rs : List Nat),
      At C base (relTargets ts) → s.pc = base → s.stack = vs ++ st → Rel σ (cell :: rs) s →
      Stored ctx C (cell :: rs) { σ with heap := heapSetAll σ.heap cell bs } s st (base + (relTargets ts).length)
  | [], [], bs, hb, ctx, C, base, s, st, σ, cell, rs, hAt, hpc, hst, hrel => by
    simp [bindTargets] at hb; subst hb
    exact ⟨s, Reach.refl _, by simp [relTargets, hpc], by simpa using hst, by simpa [heapSetAll] using hrel, rfl, rfl, rfl⟩
  | [], _ :: _, bs, hb, _, _, _, _, _, _, _, _, _, _, _, _ => by simp [bindTargets] at hb
  | _ :: _, [], bs, hb, _, _, _, _, _, _, _, _, _, _, _, _ => by simp [bindTargets] at hb
  | t :: ts, v :: vs, bs, hb, ctx, C, base, s, st, σ, cell, rs, hAt, hpc, hst, hrel => by
    simp only [bindTargets] at hb
    split at hb
    · rename_i b1 hb1
      split at hb
      · rename_i b2 hb2
        simp at hb; subst hb
        simp only [relTargets] at hAt ⊢
        obtain ⟨s1, r1, hpc1, hst1, hrel1, hout1, htl1, hhd1⟩ :=
          sim_target t v b1 hb1 ctx C base s (vs ++ st) σ cell rs hAt.left hpc (by simpa using hst) hrel
        obtain ⟨s2, r2, hpc2, hst2, hrel2, hout2, htl2, hhd2⟩ :=
          sim_targets ts vs b2 hb2 ctx C (base + (relTarget t).length) s1 st _ cell rs hAt.right hpc1 hst1 hrel1
        refine ⟨s2, r1.trans r2, by simp [hpc2, Nat.add_assoc], hst2, ?_, hout2.trans hout1, htl2.trans htl1, hhd2.trans hhd1⟩
        simpa [heapSetAll_append] using hrel2
      · simp at hb
    · simp at hb
end



/-! ## `break` / `continue`: what a statement that leaves the loop body early achieves -/

def nWith : List ScopeKind → Nat
  | [] => 0
  | .with_ :: r => nWith r + 1
  | .capture :: r => nWith r

def nCap : List ScopeKind → Nat
  | [] => 0
  | .with_ :: r => nCap r
  | .capture :: r => nCap r + 1

/-- the VM jumped to `tgt` after leaving the scopes `sc` (opened inside the loop body): their
frames and capture buffers are gone, the operand stack is as before -/
def Unw (ctx : Scope) (C : List Instr) (σ' : State) (s : VmState) (tgt : Nat) (sc : List ScopeKind) : Prop :=
  ∃ s', Reach ctx C s s' ∧ s'.pc = tgt ∧ s'.stack = s.stack ∧
    s'.frames.tail = (s.frames.drop (nWith sc)).tail ∧
    s'.frames.head?.map (·.loop) = (s.frames.drop (nWith sc)).head?.map (·.loop) ∧
    s'.outs = (σ'.out :: s.outs.tail).drop (nCap sc)

def jumpTarget : Flow → LoopCtx → Nat
  | .brk, l => l.exit
  | _, l => l.iter

/-- the postcondition of a statement: it ends normally behind its code (`Done`), or it jumps to the
`Iterate` / behind the innermost loop -/
def Post (ctx : Scope) (C : List Instr) (stack : List Nat) (σ' : State) (fl : Flow) (s : VmState) (endPc : Nat)
    (lc : Option LoopCtx) : Prop :=
  if fl = .normal then Done ctx C stack σ' s endPc
  else ∃ l, lc = some l ∧ Unw ctx C σ' s (jumpTarget fl l) l.scopes

theorem drop_frames_eq {fs1 fs : List Frame} (ht : fs1.tail = fs.tail)
    (hh : fs1.head?.map (·.loop) = fs.head?.map (·.loop)) (k : Nat) :
    (fs1.drop k).tail = (fs.drop k).tail ∧ (fs1.drop k).head?.map (·.loop) = (fs.drop k).head?.map (·.loop) := by
  cases k with
  | zero => exact ⟨ht, hh⟩
  | succ k =>
    have e1 : fs1.drop (k + 1) = fs1.tail.drop k := by cases fs1 <;> simp
    have e2 : fs.drop (k + 1) = fs.tail.drop k := by cases fs <;> simp
    rw [e1, e2, ht]; exact ⟨rfl, rfl⟩

/-- prefix a run that keeps operand stack, frame structure and the outer capture buffers -/
theorem Unw.prefix {ctx C σ' s s1 tgt sc} (r : Reach ctx C s s1) (hst : s1.stack = s.stack)
    (ht : s1.frames.tail = s.frames.tail) (hh : s1.frames.head?.map (·.loop) = s.frames.head?.map (·.loop))
    (ho : s1.outs.tail = s.outs.tail) (h : Unw ctx C σ' s1 tgt sc) : Unw ctx C σ' s tgt sc := by
  obtain ⟨s', r', hpc, hst', htl, hhd, hout⟩ := h
  have := drop_frames_eq ht hh (nWith sc)
  exact ⟨s', r.trans r', hpc, hst'.trans hst, htl.trans this.1, hhd.trans this.2, by rw [hout, ho]⟩

def SimStmt (n : Nat) : Prop :=
  ∀ st ctx stack σ σ' fl, exec n ctx stack σ st = .ok (σ', fl) →
    ∀ lc, simpleStmt lc.isSome st = true →
    ∀ C base a s, At C base (relStmt st base a lc).1.1 → (relStmt st base a lc).1.2.oof = false → s.pc = base →
      Rel σ stack s → (∀ l, lc = some l → nCap l.scopes < s.outs.length) →
      Post ctx C stack σ' fl s (base + (relStmt st base a lc).1.1.length) lc

def SimBlock (n : Nat) : Prop :=
  ∀ ss ctx stack σ σ' fl, execBlock n ctx stack σ ss = .ok (σ', fl) →
    ∀ lc, simpleBlock lc.isSome ss = true →
    ∀ C base a s, At C base (relBlock ss base a lc).1.1 → (relBlock ss base a lc).1.2.oof = false → s.pc = base →
      Rel σ stack s → (∀ l, lc = some l → nCap l.scopes < s.outs.length) →
      Post ctx C stack σ' fl s (base + (relBlock ss base a lc).1.1.length) lc

def SimBinds (n : Nat) : Prop :=
  ∀ binds ctx stack heap heap' out, bindWith n ctx heap stack binds = .ok heap' → simpleBinds binds = true →
    ∀ C base a s, At C base (relBinds binds base a).1 → (relBinds binds base a).2.oof = false → s.pc = base →
      Rel { heap := heap, out := out } stack s →
      Done ctx C stack { heap := heap', out := out } s (base + (relBinds binds base a).1.length)

theorem Done.refl {ctx C stack σ s} (h : Rel σ stack s) : Done ctx C stack σ s s.pc :=
  ⟨s, Reach.refl _, rfl, rfl, h, rfl, rfl, rfl⟩

/-- evaluate `e`, then assign to the target: `set t = e` and one `with` binding -/
theorem sim_assign {n ctx cell rs σ e v t bs} (hv : evalExpr n ctx σ.heap (cell :: rs) e = .ok v)
    (hb : bindTarget t v = .ok bs) (hse : simpleExpr e = true) {C base a s}
    (hAt : At C base ((relExpr e base a).1 ++ relTarget t)) (hoof : (relExpr e base a).2.oof = false)
    (hpc : s.pc = base) (hrel : Rel σ (cell :: rs) s) :
    Done ctx C (cell :: rs) { σ with heap := heapSetAll σ.heap cell bs } s
      (base + (relExpr e base a).1.length + (relTarget t).length) := by
  have r1 := relExpr_correct hv hse hAt.left hoof hpc hrel.env
  obtain ⟨s2, r2, hpc2, hst2, hrel2, hout2, htl2, hhd2⟩ :=
    sim_target t v bs hb ctx C (base + (relExpr e base a).1.length)
      { s with pc := base + (relExpr e base a).1.length, stack := v :: s.stack } s.stack σ cell rs
      hAt.right rfl rfl (hrel.same _ rfl rfl)
  exact ⟨s2, r1.trans r2, hpc2, hst2, hrel2, by rw [hout2], htl2, hhd2⟩

theorem sim_binds_step {n} (ihW : SimBinds n) : SimBinds (n + 1) := by
  intro binds ctx stack heap heap' out hev hs C base a s hAt hoof hpc hrel
  cases binds with
  | nil =>
    simp [bindWith] at hev; subst hev
    simp only [relBinds, List.length_nil, Nat.add_zero]
    rw [← hpc]; exact Done.refl hrel
  | cons b rest =>
    obtain ⟨t, e⟩ := b
    have hs' : simpleExpr e = true ∧ simpleBinds rest = true := by simpa [simpleBinds] using hs
    obtain ⟨cell, rs, hstack⟩ := hrel.nonempty
    subst hstack
    simp only [bindWith, topCell] at hev
    split at hev
    · simp at hev
    · rename_i v hv
      split at hev
      · simp at hev
      · rename_i bs hbs
        simp only [relBinds] at hAt hoof ⊢
        have ho1 := oof_false_of_relBinds hoof
        obtain ⟨s1, r1, hpc1, hst1, hrel1, hout1, htl1, hhd1⟩ :=
          sim_assign (σ := { heap := heap, out := out }) hv hbs hs'.1 hAt.left ho1 hpc hrel
        obtain ⟨s2, r2, hpc2, hst2, hrel2, hout2, htl2, hhd2⟩ :=
          ihW rest ctx (cell :: rs) _ heap' out hev hs'.2 C
            (base + (relExpr e base a).1.length + (relTarget t).length) (relExpr e base a).2 s1
            (At.cast hAt.right (by simp [Nat.add_assoc])) hoof hpc1 hrel1
        exact ⟨s2, r1.trans r2,
          by rw [hpc2]; simp only [List.length_append]; omega, hst2.trans hst1, hrel2,
          hout2.trans hout1, htl2.trans htl1, hhd2.trans hhd1⟩

theorem outs_length_of_tail {s1 s : VmState} {σ1 σ : State} {st1 st : List Nat} (h1 : Rel σ1 st1 s1) (h : Rel σ st s)
    (ht : s1.outs.tail = s.outs.tail) : s1.outs.length = s.outs.length := by
  obtain ⟨r1, e1⟩ := h1.out
  obtain ⟨r, e⟩ := h.out
  rw [e1, e] at ht
  simp at ht
  rw [e1, e, ht]; rfl

theorem sim_block_step {n} (ihS : SimStmt n) (ihB : SimBlock n) : SimBlock (n + 1) := by
  intro ss ctx stack σ σ' fl hev lc hs C base a s hAt hoof hpc hrel hcap
  cases ss with
  | nil =>
    simp [execBlock] at hev
    obtain ⟨rfl, rfl⟩ := hev
    simp only [Post, if_true, relBlock, List.length_nil, Nat.add_zero]
    rw [← hpc]; exact Done.refl hrel
  | cons st rest =>
    have hs' : simpleStmt lc.isSome st = true ∧ simpleBlock lc.isSome rest = true := by simpa [simpleBlock] using hs
    simp only [relBlock] at hAt hoof ⊢
    have ho1 := oof_false_of_relBlock hoof
    simp only [execBlock] at hev
    split at hev
    · simp at hev
    · rename_i σ1 h1
      have p1 := ihS st ctx stack σ σ1 .normal h1 lc hs'.1 C base a s hAt.left ho1 hpc hrel hcap
      simp only [Post, if_true] at p1
      obtain ⟨s1, r1, hpc1, hst1, hrel1, hout1, htl1, hhd1⟩ := p1
      have hlen1 := outs_length_of_tail hrel1 hrel hout1
      have p2 := ihB rest ctx stack σ1 σ' fl hev lc hs'.2 C (base + (relStmt st base a lc).1.1.length)
          (relStmt st base a lc).1.2 s1 hAt.right hoof hpc1 hrel1 (by intro l hl; rw [hlen1]; exact hcap l hl)
      by_cases hfl : fl = .normal
      · subst hfl
        simp only [Post, if_true] at p2 ⊢
        obtain ⟨s2, r2, hpc2, hst2, hrel2, hout2, htl2, hhd2⟩ := p2
        exact ⟨s2, r1.trans r2, by rw [hpc2]; simp [Nat.add_assoc], hst2.trans hst1, hrel2,
          hout2.trans hout1, htl2.trans htl1, hhd2.trans hhd1⟩
      · simp only [Post, hfl, if_false] at p2 ⊢
        obtain ⟨l, hl, hu⟩ := p2
        exact ⟨l, hl, hu.prefix r1 hst1 htl1 hhd1 hout1⟩
    · rename_i σ1 fl1 hne h1
      simp at hev
      obtain ⟨rfl, rfl⟩ := hev
      have p1 := ihS st ctx stack σ σ1 fl1 h1 lc hs'.1 C base a s hAt.left ho1 hpc hrel hcap
      have hfl : ¬ fl1 = .normal := fun h => hne (by rw [h])
      simp only [Post, hfl, if_false] at p1 ⊢
      exact p1

theorem Rel.appendOut {σ stack s} (h : Rel σ stack s) (t : String) (s' : VmState)
    (hf : s'.frames = s.frames) (ho : s'.outs = MJ.Vm.appendOut t s.outs) :
    Rel { σ with out := σ.out ++ t } stack s' ∧ s'.outs.tail = s.outs.tail := by
  obtain ⟨rest, hr⟩ := h.out
  refine ⟨⟨by rw [hf]; exact h.frames, ⟨rest, by rw [ho, hr]; rfl⟩, h.bound, h.nodup, h.nonempty⟩, ?_⟩
  rw [ho, hr]; rfl

/-- a chain of block filters applied to the value on top of the operand stack -/
def SimFilters (n : Nat) : Prop :=
  ∀ fs ctx heap stack v v', applyFilters n ctx heap stack v fs = .ok v' → simpleFilters fs = true →
    ∀ C base a (s : VmState) (st : List Val), At C base (relFilters fs base a).1 → (relFilters fs base a).2.oof = false →
      s.pc = base → s.stack = v :: st → EnvRel ctx heap stack s.frames →
      Reach ctx C s { s with pc := base + (relFilters fs base a).1.length, stack := v' :: st }

theorem sim_filters_step {n} (ihF : SimFilters n) : SimFilters (n + 1) := by
  intro fs ctx heap stack v v' hev hs C base a s st hAt hoof hpc hst henv
  cases fs with
  | nil =>
    simp [applyFilters] at hev; subst hev
    simp only [relFilters, List.length_nil, Nat.add_zero]
    exact (Reach.refl s).cast rfl (by cases s; simp_all)
  | cons f rest =>
    obtain ⟨name, args⟩ := f
    have hs' : simpleArgs args = true ∧ simpleFilters rest = true := by simpa [simpleFilters] using hs
    simp only [applyFilters, bind, Except.bind] at hev
    split at hev
    · simp at hev
    · rename_i as has
      have hkeys := evalArgs_keys args as has hs'.1
      have hsplit := splitArgs_none as hkeys
      rw [hsplit.2, hsplit.1] at hev
      simp only at hev
      split at hev
      · simp at hev
      · rename_i v1 hv1
        simp only [relFilters] at hAt hoof ⊢
        have hoA : (relArgs args base a).2.oof = false := by
          have := oof_false_of_relFilters hoof; simpa using this
        have r1 := (sim_all n).2.2.1 args ctx heap stack as has hs'.1 C base a s hAt.left.left hoA hpc henv
        have hlen : 1 + args.length = (v :: as.map (·.2)).length := by
          simp [evalArgs_length args as has]; omega
        have hpop : popN (1 + args.length) ((as.map (·.2)).reverse ++ v :: st) = some (v :: as.map (·.2), st) := by
          rw [hlen]
          have := popN_append (v :: as.map (·.2)) st
          simpa using this
        have r2 : Reach ctx C { s with pc := base + (relArgs args base a).1.length, stack := (as.map (·.2)).reverse ++ s.stack }
            { s with pc := base + (relArgs args base a).1.length + 1, stack := v1 :: st } :=
          Reach.one' (i := .applyFilter _ _ _) _ hAt.left.right.head rfl
            (by simp [MJ.Vm.step, hst, hpop, hv1, Except.map])
        have r3 := ihF rest ctx heap stack v1 v' hev hs'.2 C (base + (relArgs args base a).1.length + 1)
          ((relArgs args base a).2.filterId name).2
          { s with pc := base + (relArgs args base a).1.length + 1, stack := v1 :: st } st
          (At.cast hAt.right (by simp [Nat.add_assoc])) hoof rfl rfl henv
        refine (r1.trans (r2.trans r3)).cast rfl ?_
        simp only [List.length_append, List.length_cons, List.length_nil]
        congr 1; omega


/-- the iterations of a `for` loop: the VM is at the `Iterate` instruction -/
def SimIters (n : Nat) : Prop :=
  ∀ ctx stack σ σ' t body xs len idx prev,
    execIters n ctx stack σ t body (xs.zip (loopInfosFrom len idx prev xs)) = .ok σ' →
    simpleBlock true body = true →
    ∀ C iterPc endPc a (s : VmState) (l : LoopSt) (loc : Scope) (fs : List Frame),
      C[iterPc]? = some (.iterate endPc) → At C (iterPc + 1) (relTarget t) →
      At C (iterPc + 1 + (relTarget t).length)
        (relBlock body (iterPc + 1 + (relTarget t).length) a (some ⟨iterPc, endPc, []⟩)).1.1 →
      (relBlock body (iterPc + 1 + (relTarget t).length) a (some ⟨iterPc, endPc, []⟩)).1.2.oof = false →
      C[iterPc + 1 + (relTarget t).length +
        (relBlock body (iterPc + 1 + (relTarget t).length) a (some ⟨iterPc, endPc, []⟩)).1.1.length]? = some (.jump iterPc) →
      s.pc = iterPc → s.frames = { locals := loc, loop := some l } :: fs →
      l.withLoopVar = true → l.len = len → l.calls = idx → l.cur = prev → l.rest = xs →
      FramesRel σ.heap stack fs → (∃ rest, s.outs = σ.out :: rest) →
      (∀ id ∈ stack, id < σ.heap.length) → stack.Nodup → (∃ c rs, stack = c :: rs) →
      ∃ s', Reach ctx C s s' ∧ s'.pc = endPc ∧ s'.stack = s.stack ∧ s'.frames.tail = fs ∧
        (∃ rest, s'.outs = σ'.out :: rest) ∧ s'.outs.tail = s.outs.tail ∧
        (∃ lf locf, s'.frames.head? = some { locals := locf, loop := some lf } ∧
          lf.iterated = (l.iterated || !xs.isEmpty))

theorem loop_cell0_agrees (l' : LoopSt) (info : LoopInfo) (hw : l'.withLoopVar = true) (hi : l'.info = info) :
    ∀ z, assocGet z [("loop", loopVal info)] = frameLookup { locals := [], loop := some l' } z := by
  intro z
  by_cases hz : z = "loop"
  · subst hz; simp [assocGet, frameLookup, hw, hi]
  · have h1 : ¬ ("loop" = z) := fun h => hz h.symm
    simp [assocGet, frameLookup, h1, hw, hz]

theorem heapSetAll_last (h : Heap) (c : Scope) (bs : List (String × Val)) :
    heapSetAll (h ++ [c]) h.length bs = h ++ [setAll c bs] := by
  induction bs generalizing c with
  | nil => rfl
  | cons p rest ih =>
    obtain ⟨x, v⟩ := p
    simp only [heapSetAll, setAll]
    have : heapSet (h ++ [c]) h.length x v = h ++ [assocSet x v c] := by
      simp [heapSet]
    rw [this, ih]

theorem sim_iters_step {n} (ihB : SimBlock n) (ihI : SimIters n) : SimIters (n + 1) := by
  intro ctx stack σ σ' t body xs len idx prev hev hsb C iterPc endPc a s l loc fs hIt hTg hAt hoof hJ
    hpc hfr hwl hlen hcalls hcur hrest hFR hout hbound hnodup hne
  cases xs with
  | nil =>
    simp [loopInfosFrom, execIters] at hev; subst hev
    refine ⟨{ s with pc := endPc }, Reach.one (i := .iterate endPc) (by rw [hpc]; exact hIt) ?_, rfl, rfl,
      by simp [hfr], hout, rfl, ⟨l, loc, by simp [hfr], by simp⟩⟩
    simp [MJ.Vm.step, hfr, nextLoopItem, hrest]
  | cons y ys =>
    simp only [loopInfosFrom, List.zip_cons_cons, execIters] at hev
    split at hev
    · simp at hev
    · rename_i bs hbs
      split at hev
      · simp at hev
      · rename_i σ2 fl hbody
        let l' : LoopSt := { l with calls := l.calls + 1, iterated := true, prev := l.cur, cur := some y, rest := ys }
        let info : LoopInfo := { index0 := idx, length := len, prev := prev, next := ys.head? }
        -- Iterate: the item is pushed, the frame's locals are cleared
        let s1 : VmState := { s with pc := iterPc + 1, stack := y :: s.stack, frames := { locals := [], loop := some l' } :: fs }
        have hreach1 : Reach ctx C s s1 :=
          Reach.one (i := .iterate endPc) (by rw [hpc]; exact hIt) (by simp [MJ.Vm.step, hfr, nextLoopItem, hrest, hpc, s1, l'])
        have hinfo : l'.info = info := by simp [LoopSt.info, l', info, hcalls, hlen, hcur]
        obtain ⟨c0, rs0, hstack⟩ := hne
        have hrel0 : Rel σ stack { s with frames := fs } := ⟨hFR, hout, hbound, hnodup, ⟨c0, rs0, hstack⟩⟩
        have hrel1 : Rel { σ with heap := σ.heap ++ [[("loop", loopVal info)]] } (σ.heap.length :: stack) s1 :=
          hrel0.push _ { locals := [], loop := some l' } (loop_cell0_agrees l' info hwl hinfo) s1 rfl rfl
        -- the target(s)
        obtain ⟨s2, r2, hpc2, hst2, hrel2, hout2, htl2, hhd2⟩ :=
          sim_target t y bs hbs ctx C (iterPc + 1) s1 s.stack _ σ.heap.length stack hTg rfl rfl hrel1
        have hheap2 : heapSetAll (σ.heap ++ [[("loop", loopVal info)]]) σ.heap.length bs =
            σ.heap ++ [setAll [("loop", loopVal info)] bs] := heapSetAll_last _ _ _
        simp only [hheap2] at hrel2
        -- the body
        have hcap2 : ∀ l0, (some ⟨iterPc, endPc, []⟩ : Option LoopCtx) = some l0 → nCap l0.scopes < s2.outs.length := by
          intro l0 hl0
          cases hl0
          obtain ⟨r, hr⟩ := hrel2.out
          simp [nCap, hr]
        have pb := ihB body ctx (σ.heap.length :: stack) _ σ2 fl hbody (some ⟨iterPc, endPc, []⟩) hsb C
          (iterPc + 1 + (relTarget t).length) a s2 hAt hoof hpc2 hrel2 hcap2
        have htake : σ2.heap.take σ.heap.length = σ.heap := take_of_frame _ _ _ _ (execBlock_frame hbody)
        -- the state of the VM after the body: at the `Iterate` again, or behind the loop
        have hafter : ∃ s3, Reach ctx C s2 s3 ∧ s3.pc = (if fl = .brk then endPc else iterPc) ∧ s3.stack = s2.stack ∧
            s3.frames.tail = s2.frames.tail ∧ s3.frames.head?.map (·.loop) = s2.frames.head?.map (·.loop) ∧
            s3.outs = σ2.out :: s2.outs.tail := by
          by_cases hfl : fl = .normal
          · subst hfl
            simp only [Post, if_true] at pb
            obtain ⟨s3, r3, hpc3, hst3, hrel3, hout3, htl3, hhd3⟩ := pb
            obtain ⟨r3out, hr3⟩ := hrel3.out
            refine ⟨{ s3 with pc := iterPc }, r3.trans (Reach.one' (i := .jump iterPc) _ hJ hpc3 (by simp [MJ.Vm.step])),
              by simp, hst3, htl3, hhd3, ?_⟩
            simp only [← hout3, hr3]; rfl
          · simp only [Post, hfl, if_false] at pb
            obtain ⟨l0, hl0, s3, r3, hpc3, hst3, htl3, hhd3, hout3⟩ := pb
            cases hl0
            refine ⟨s3, r3, ?_, hst3, by simpa [nWith] using htl3, by simpa [nWith] using hhd3, by simpa [nCap] using hout3⟩
            rw [hpc3]
            cases fl <;> simp [jumpTarget] at hfl ⊢
        obtain ⟨s3, r3, hpc3, hst3, htl3, hhd3, hout3⟩ := hafter
        have hf3 : ∃ loc3, s3.frames = { locals := loc3, loop := some l' } :: fs := by
          have ht : s3.frames.tail = fs := by rw [htl3, htl2]; rfl
          have hh : s3.frames.head?.map (·.loop) = some (some l') := by rw [hhd3, hhd2]; rfl
          cases hf : s3.frames with
          | nil => rw [hf] at hh; simp at hh
          | cons f3 fs3 =>
            rw [hf] at ht hh
            simp at ht hh
            exact ⟨f3.locals, by cases f3; simp_all⟩
        obtain ⟨loc3, hf3⟩ := hf3
        by_cases hbrk : fl = .brk
        · -- `break`: the walk ends here
          subst hbrk
          simp only [htake] at hev
          simp at hev
          subst hev
          simp only [if_true] at hpc3
          refine ⟨s3, hreach1.trans (r2.trans r3), hpc3, ?_, by rw [hf3]; rfl, ⟨_, hout3⟩, ?_, ⟨l', loc3, by rw [hf3]; rfl, by simp [l']⟩⟩
          · rw [hst3, hst2]
          · rw [hout3]; simp only [List.tail_cons]; rw [hout2]
        · have hev' : execIters n ctx stack { heap := σ.heap, out := σ2.out } t body
              (ys.zip (loopInfosFrom len (idx + 1) (some y) ys)) = .ok σ' := by
            rw [← htake]
            cases fl <;> first | exact hev | exact absurd rfl hbrk
          simp only [hbrk, if_false] at hpc3
          obtain ⟨s', r5, hpc5, hst5, htl5, hout5, houtt5, lf, locf, hlf, hit⟩ :=
            ihI ctx stack { heap := σ.heap, out := σ2.out } σ' t body ys len (idx + 1) (some y) hev' hsb
              C iterPc endPc a s3 l' loc3 fs hIt hTg hAt hoof hJ hpc3 hf3 hwl (by simp [l', hlen]) (by simp [l', hcalls])
              (by simp [l']) (by simp [l']) hFR ⟨_, hout3⟩ hbound hnodup ⟨c0, rs0, hstack⟩
          refine ⟨s', hreach1.trans (r2.trans (r3.trans r5)), hpc5, ?_, htl5, hout5, ?_, ⟨lf, locf, hlf, ?_⟩⟩
          · rw [hst5, hst3, hst2]
          · rw [houtt5, hout3]; simp only [List.tail_cons]; rw [hout2]
          · simp [hit, l']

theorem i128Min_nonpos : i128Min ≤ 0 := by decide

theorem chkInt_succ (k : Nat) (h : (k : Int) + 1 ≤ i128Max) : chkInt ((k : Int) + 1) = .ok (.int ((k : Int) + 1)) := by
  have h1 : i128Min ≤ (k : Int) + 1 := by
    have : (0 : Int) ≤ (k : Int) := Int.natCast_nonneg _
    have := i128Min_nonpos
    omega
  simp [chkInt, h1, h]

/-- the filter pre-pass of `for … if cond`: the VM is at the `Iterate` of the first loop, the
operand stack holds the number of the items kept so far on top of these items -/
theorem sim_filter_iters : ∀ (xs : List Val) (n : Nat) (ctx : Scope) (σ : State) (stack : List Nat) (t : Target)
    (c : Expr) (kept : List Val),
    filterItems n ctx σ.heap stack t c xs = .ok kept → simpleExpr c = true →
    ∀ (C : List Instr) (iterPc cb p : Nat) (a : Aux) (s : VmState) (l : LoopSt) (loc : Scope) (fs : List Frame)
      (acc st : List Val),
      cb = iterPc + 2 + (relTarget t).length → p = cb + (relExpr c cb a).1.length →
      C[iterPc]? = some (.iterate (p + 7)) → C[iterPc + 1]? = some .dupTop → At C (iterPc + 2) (relTarget t) →
      At C cb (relExpr c cb a).1 → (relExpr c cb a).2.oof = false →
      At C p [.jumpIfFalse (p + 5), .swap, .loadConst (.int 1), .add, .jump (p + 6), .discardTop, .jump iterPc] →
      s.pc = iterPc → s.frames = { locals := loc, loop := some l } :: fs → l.withLoopVar = false → l.rest = xs →
      s.stack = .int acc.length :: (acc.reverse ++ st) → ((acc ++ kept).length : Int) ≤ i128Max →
      FramesRel σ.heap stack fs → (∃ rest, s.outs = σ.out :: rest) →
      (∀ id ∈ stack, id < σ.heap.length) → stack.Nodup → (∃ c rs, stack = c :: rs) →
      ∃ s', Reach ctx C s s' ∧ s'.pc = p + 7 ∧
        s'.stack = .int (acc ++ kept).length :: ((acc ++ kept).reverse ++ st) ∧ s'.frames.tail = fs ∧
        s'.outs = s.outs
  | [], n, ctx, σ, stack, t, c, kept, hev, hsc, C, iterPc, cb, p, a, s, l, loc, fs, acc, st, hcb, hp, hIt, hDup, hTg, hAtc,
      hoofc, hAtP, hpc, hfr, hwl, hrest, hstk, h128, hFR, hout, hbound, hnodup, hne => by
    cases n with
    | zero => simp [filterItems] at hev
    | succ m =>
      simp [filterItems] at hev; subst hev
      refine ⟨{ s with pc := p + 7 }, Reach.one (i := .iterate (p + 7)) (by rw [hpc]; exact hIt) ?_, rfl,
        by simpa using hstk, by simp [hfr], rfl⟩
      simp [MJ.Vm.step, hfr, nextLoopItem, hrest]
  | x :: xs, n, ctx, σ, stack, t, c, kept, hev, hsc, C, iterPc, cb, p, a, s, l, loc, fs, acc, st, hcb, hp, hIt, hDup, hTg, hAtc,
      hoofc, hAtP, hpc, hfr, hwl, hrest, hstk, h128, hFR, hout, hbound, hnodup, hne => by
    cases n with
    | zero => simp [filterItems] at hev
    | succ m =>
      simp only [filterItems] at hev
      split at hev
      · simp at hev
      · rename_i bs hbs
        split at hev
        · simp at hev
        · rename_i cv hcv
          split at hev
          · simp at hev
          · rename_i rest hrec
            simp at hev
            let l' : LoopSt := { l with calls := l.calls + 1, iterated := true, prev := l.cur, cur := some x, rest := xs }
            let s1 : VmState := { s with pc := iterPc + 1, stack := x :: s.stack, frames := { locals := [], loop := some l' } :: fs }
            have hreach1 : Reach ctx C s s1 :=
              Reach.one (i := .iterate (p + 7)) (by rw [hpc]; exact hIt)
                (by simp [MJ.Vm.step, hfr, nextLoopItem, hrest, hpc, s1, l'])
            let s1' : VmState := { s1 with pc := iterPc + 2, stack := x :: x :: s.stack }
            have hreach1' : Reach ctx C s1 s1' :=
              Reach.one' (i := .dupTop) _ hDup rfl (by simp [MJ.Vm.step, s1, s1'])
            obtain ⟨c0, rs0, hstack⟩ := hne
            have hrel0 : Rel σ stack { s with frames := fs } := ⟨hFR, hout, hbound, hnodup, ⟨c0, rs0, hstack⟩⟩
            have hrel1 : Rel { σ with heap := σ.heap ++ [[]] } (σ.heap.length :: stack) s1' :=
              hrel0.push [] { locals := [], loop := some l' }
                (by intro z; simp [assocGet, frameLookup, l', hwl]) s1' rfl rfl
            obtain ⟨s2, r2, hpc2, hst2, hrel2, hout2, htl2, hhd2⟩ :=
              sim_target t x bs hbs ctx C (iterPc + 2) s1' (x :: s.stack) _ σ.heap.length stack hTg rfl rfl hrel1
            have hheap2 : heapSetAll (σ.heap ++ [[]]) σ.heap.length bs = σ.heap ++ [setAll [] bs] :=
              heapSetAll_last _ _ _
            simp only [hheap2] at hrel2
            have hpc2' : s2.pc = cb := by rw [hpc2, hcb]
            have r3 := relExpr_correct hcv hsc hAtc hoofc hpc2' hrel2.env
            have hf2 : ∃ loc2, s2.frames = { locals := loc2, loop := some l' } :: fs := by
              have ht : s2.frames.tail = fs := by rw [htl2]; rfl
              have hh : s2.frames.head?.map (·.loop) = some (some l') := by rw [hhd2]; rfl
              cases hf : s2.frames with
              | nil => rw [hf] at hh; simp at hh
              | cons f3 fs3 =>
                rw [hf] at ht hh
                simp at ht hh
                exact ⟨f3.locals, by cases f3; simp_all⟩
            obtain ⟨loc2, hf2⟩ := hf2
            have hs2st : s2.stack = x :: .int acc.length :: (acc.reverse ++ st) := by rw [hst2, hstk]
            by_cases htr : truthy cv = true
            · -- the item is kept
              simp only [htr, if_true] at hev
              subst hev
              have hlen : ((acc.length : Int) + 1) = ((acc ++ [x]).length : Int) := by simp
              have hle : ((acc ++ [x]).length : Int) ≤ i128Max := by
                have : ((acc ++ [x]).length : Int) ≤ ((acc ++ x :: rest).length : Int) := by
                  simp only [List.length_append, List.length_cons, List.length_nil]; omega
                exact Int.le_trans this h128
              let s4 : VmState := { s2 with pc := p + 1 }
              have r4 : Reach ctx C { s2 with pc := cb + (relExpr c cb a).1.length, stack := cv :: s2.stack } s4 :=
                Reach.one' (i := .jumpIfFalse (p + 5)) _ hAtP.head (by simp [hp])
                  (by simp [MJ.Vm.step, htr, s4, hp])
              let s5 : VmState := { s2 with pc := p + 2, stack := .int acc.length :: x :: (acc.reverse ++ st) }
              have r5 : Reach ctx C s4 s5 :=
                Reach.one' (i := .swap) _ hAtP.tail.head rfl (by simp [MJ.Vm.step, s4, s5, hs2st])
              let s6 : VmState := { s2 with pc := p + 3, stack := .int 1 :: .int acc.length :: x :: (acc.reverse ++ st) }
              have r6 : Reach ctx C s5 s6 :=
                Reach.one' (i := .loadConst (.int 1)) _ hAtP.tail.tail.head rfl (by simp [MJ.Vm.step, s5, s6])
              let s7 : VmState := { s2 with pc := p + 4, stack := .int (acc ++ [x]).length :: x :: (acc.reverse ++ st) }
              have r7 : Reach ctx C s6 s7 :=
                Reach.one' (i := .add) _ hAtP.tail.tail.tail.head rfl
                  (by
                    have h2 : (acc.length : Int) + 1 ≤ i128Max := by rw [hlen]; exact hle
                    have h3 := chkInt_succ acc.length h2
                    simp only [MJ.Vm.step, binArith, arith, intOp, asInt?, s6]
                    rw [h3]
                    simp [s7, Except.map])
              let s8 : VmState := { s7 with pc := p + 6 }
              have r8 : Reach ctx C s7 s8 :=
                Reach.one' (i := .jump (p + 6)) _ hAtP.tail.tail.tail.tail.head rfl (by simp [MJ.Vm.step, s7, s8])
              let s9 : VmState := { s7 with pc := iterPc }
              have r9 : Reach ctx C s8 s9 :=
                Reach.one' (i := .jump iterPc) _ hAtP.tail.tail.tail.tail.tail.tail.head rfl (by simp [MJ.Vm.step, s8, s9])
              obtain ⟨s', r10, hpc10, hst10, htl10, hout10⟩ :=
                sim_filter_iters xs m ctx σ stack t c rest hrec hsc C iterPc cb p a s9 l' loc2 fs (acc ++ [x]) st hcb hp
                  hIt hDup hTg hAtc hoofc hAtP rfl (by simpa [s9, s7] using hf2) hwl rfl
                  (by simp [s9, s7]) (by simpa using h128) hFR (by simpa [s9, s7, hout2, s1', s1] using hout)
                  hbound hnodup ⟨c0, rs0, hstack⟩
              refine ⟨s', hreach1.trans (hreach1'.trans (r2.trans (r3.trans (r4.trans (r5.trans (r6.trans (r7.trans (r8.trans (r9.trans r10))))))))),
                hpc10, by simpa using hst10, htl10, ?_⟩
              rw [hout10]; simp [s9, s7, hout2, s1', s1]
            · -- the item is dropped
              simp only [htr] at hev
              simp at hev
              subst hev
              let s4 : VmState := { s2 with pc := p + 5 }
              have r4 : Reach ctx C { s2 with pc := cb + (relExpr c cb a).1.length, stack := cv :: s2.stack } s4 :=
                Reach.one' (i := .jumpIfFalse (p + 5)) _ hAtP.head (by simp [hp])
                  (by simp [MJ.Vm.step, htr, s4])
              let s5 : VmState := { s2 with pc := p + 6, stack := .int acc.length :: (acc.reverse ++ st) }
              have r5 : Reach ctx C s4 s5 :=
                Reach.one' (i := .discardTop) _ hAtP.tail.tail.tail.tail.tail.head rfl (by simp [MJ.Vm.step, s4, s5, hs2st])
              let s9 : VmState := { s5 with pc := iterPc }
              have r9 : Reach ctx C s5 s9 :=
                Reach.one' (i := .jump iterPc) _ hAtP.tail.tail.tail.tail.tail.tail.head rfl (by simp [MJ.Vm.step, s5, s9])
              obtain ⟨s', r10, hpc10, hst10, htl10, hout10⟩ :=
                sim_filter_iters xs m ctx σ stack t c rest hrec hsc C iterPc cb p a s9 l' loc2 fs acc st hcb hp
                  hIt hDup hTg hAtc hoofc hAtP rfl (by simpa [s9, s5] using hf2) hwl rfl
                  (by simp [s9, s5]) h128 hFR (by simpa [s9, s5, hout2, s1', s1] using hout)
                  hbound hnodup ⟨c0, rs0, hstack⟩
              refine ⟨s', hreach1.trans (hreach1'.trans (r2.trans (r3.trans (r4.trans (r5.trans (r9.trans r10)))))),
                hpc10, hst10, htl10, ?_⟩
              rw [hout10]; simp [s9, s5, hout2, s1', s1]

/-- the code in front of the main loop of a `for` leaves a value on the operand stack that iterates
to the items the reference semantics walks: the iterable, or the list of the items that pass the filter -/
theorem sim_for_iter {n : Nat} {ctx : Scope} {stack : List Nat} {σ : State} {target : Target} {iter : Expr}
    {flt : Option Expr} {v : Val} {xs0 xs : List Val} {sized : Bool}
    (hv : evalExpr n ctx σ.heap stack iter = .ok v) (hxs : iterate v = .ok xs0)
    (hflt : (flt = none ∧ xs = xs0 ∧ sized = isSized v) ∨
      (∃ c, flt = some c ∧ filterItems n ctx σ.heap stack target c xs0 = .ok xs ∧
        ((xs.length : Int) ≤ i128Max) ∧ sized = true))
    (hsi : simpleExpr iter = true) (hsc : ∀ c, flt = some c → simpleExpr c = true)
    {C : List Instr} {base : Nat} {a : Aux} {s : VmState}
    (hAt : At C base (relForIter target iter flt base a).1) (hoof : (relForIter target iter flt base a).2.oof = false)
    (hpc : s.pc = base) (hrel : Rel σ stack s) :
    ∃ w, Reach ctx C s { s with pc := base + (relForIter target iter flt base a).1.length, stack := w :: s.stack } ∧
      iterate w = .ok xs ∧ isSized w = sized := by
  rcases hflt with ⟨rfl, rfl, rfl⟩ | ⟨c, rfl, hfi, h128, rfl⟩
  · exact ⟨v, relExpr_correct hv hsi hAt hoof hpc hrel.env, hxs, rfl⟩
  · have hscc := hsc c rfl
    simp only [relForIter] at hAt hoof ⊢
    have ho1 : (relExpr iter (base + 1) a).2.oof = false := by
      cases ha : (relExpr iter (base + 1) a).2.oof with
      | false => rfl
      | true => rw [relExpr_oof_mono c _ _ ha] at hoof; cases hoof
    obtain ⟨P, hP⟩ : ∃ P, P = base + 1 + (relExpr iter (base + 1) a).1.length + 3 + (relTarget target).length +
          (relExpr c (base + 1 + (relExpr iter (base + 1) a).1.length + 3 + (relTarget target).length)
            (relExpr iter (base + 1) a).2).1.length := ⟨_, rfl⟩
    rw [← hP] at hAt
    -- LoadConst 0
    let s0 : VmState := { s with pc := base + 1, stack := .int 0 :: s.stack }
    have r0 : Reach ctx C s s0 :=
      Reach.one (i := .loadConst (.int 0)) (by rw [hpc]; exact hAt.left.left.left.left.left.head)
        (by simp [MJ.Vm.step, s0, hpc])
    have r1 : Reach ctx C s0 { s0 with pc := base + 1 + (relExpr iter (base + 1) a).1.length, stack := v :: s0.stack } :=
      relExpr_correct (s := s0) hv hsi (At.cast hAt.left.left.left.left.right (by simp)) ho1 rfl
        (by simpa [s0] using hrel.env)
    -- PushLoop 0
    let l0 : LoopSt := { withLoopVar := false, len := if isSized v then some xs0.length else none,
                         calls := 0, iterated := false, prev := none, cur := none, rest := xs0 }
    let s2 : VmState := { s with pc := base + 1 + (relExpr iter (base + 1) a).1.length + 1, stack := .int 0 :: s.stack,
                                 frames := { locals := [], loop := some l0 } :: s.frames }
    have hAt3 := hAt.left.left.left.right
    have r2 : Reach ctx C { s0 with pc := base + 1 + (relExpr iter (base + 1) a).1.length, stack := v :: s0.stack } s2 :=
      Reach.one' (i := .pushLoop 0) _ hAt3.head (by simp; omega)
        (by simp [MJ.Vm.step, hxs, Except.map, s2, l0, s0])
    obtain ⟨c0, rs0, hstack⟩ := hrel.nonempty
    have hAtP : At C P [.jumpIfFalse (P + 5), .swap, .loadConst (.int 1), .add, .jump (P + 6), .discardTop,
        .jump (base + 1 + (relExpr iter (base + 1) a).1.length + 1), .popLoopFrame, .buildList none] :=
      At.cast hAt.right (by rw [hP]; simp only [List.length_append, List.length_cons, List.length_nil]; omega)
    obtain ⟨s', r3, hpc3, hst3, htl3, hout3⟩ :=
      sim_filter_iters xs0 n ctx σ stack target c xs hfi hscc C
        (base + 1 + (relExpr iter (base + 1) a).1.length + 1)
        (base + 1 + (relExpr iter (base + 1) a).1.length + 3 + (relTarget target).length)
        P (relExpr iter (base + 1) a).2 s2 l0 [] s.frames [] s.stack (by omega) hP
        (by have := hAt3.tail.head
            refine Eq.trans (congrArg (fun k => C[k]?) ?_) this
            simp only [List.length_append, List.length_cons, List.length_nil]; omega)
        (by have := hAt3.tail.tail.head
            refine Eq.trans (congrArg (fun k => C[k]?) ?_) this
            simp only [List.length_append, List.length_cons, List.length_nil]; omega)
        (At.cast hAt.left.left.right (by simp only [List.length_append, List.length_cons, List.length_nil]; omega))
        (At.cast hAt.left.right (by simp only [List.length_append, List.length_cons, List.length_nil]; omega))
        hoof
        (At.left (L2 := [Instr.popLoopFrame, Instr.buildList none]) (by simpa using hAtP))
        rfl rfl rfl rfl (by simp [s2]) (by simpa using h128) hrel.frames hrel.out hrel.bound hrel.nodup ⟨c0, rs0, hstack⟩
    -- PopLoopFrame, BuildList
    let s4 : VmState := { s' with pc := P + 8, frames := s.frames }
    have r4 : Reach ctx C s' s4 :=
      Reach.one' (i := .popLoopFrame) _ hAtP.tail.tail.tail.tail.tail.tail.tail.head hpc3
        (by simp [MJ.Vm.step, s4, hpc3, htl3])
    let s5 : VmState := { s with pc := P + 9, stack := .list xs :: s.stack }
    have r5 : Reach ctx C s4 s5 :=
      Reach.one' (i := .buildList none) _ hAtP.tail.tail.tail.tail.tail.tail.tail.tail.head rfl
        (by
          have hst4 : s4.stack = .int xs.length :: (xs.reverse ++ s.stack) := by simpa [s4] using hst3
          simp only [MJ.Vm.step, hst4, Int.toNat_natCast, popN_append]
          simp [s4, s5, hout3, s2])
    refine ⟨.list xs, Reach.cast (r0.trans (r1.trans (r2.trans (r3.trans (r4.trans r5))))) rfl ?_, by simp [iterate],
      by simp [isSized]⟩
    simp only [s5, hP, List.length_append, List.length_cons, List.length_nil]
    congr 1; omega

/-- a non-normal flow through a prefix that keeps operand stack, frames and outer buffers -/
theorem Post.prefix_nn {ctx C stack stack1 σ' fl s s1 e e' lc} (hfl : ¬ fl = Flow.normal) (r : Reach ctx C s s1)
    (hst : s1.stack = s.stack) (ht : s1.frames.tail = s.frames.tail)
    (hh : s1.frames.head?.map (·.loop) = s.frames.head?.map (·.loop)) (ho : s1.outs.tail = s.outs.tail)
    (h : Post ctx C stack1 σ' fl s1 e lc) : Post ctx C stack σ' fl s e' lc := by
  simp only [Post, hfl, if_false] at h ⊢
  obtain ⟨l, hl, hu⟩ := h
  exact ⟨l, hl, hu.prefix r hst ht hh ho⟩

theorem nCap_le_of {lc : Option LoopCtx} {s s1 : VmState} (hcap : ∀ l, lc = some l → nCap l.scopes < s.outs.length)
    (h : s1.outs.length = s.outs.length) : ∀ l, lc = some l → nCap l.scopes < s1.outs.length := by
  intro l hl; rw [h]; exact hcap l hl

/-- the code `break` / `continue` emit to leave the scopes opened inside the loop body -/
theorem leave_reach (ctx : Scope) (C : List Instr) : ∀ (sc : List ScopeKind) (s : VmState),
    At C s.pc (leaveCode sc) → nCap sc < s.outs.length →
    Reach ctx C s { s with pc := s.pc + (leaveCode sc).length, frames := s.frames.drop (nWith sc),
                           outs := s.outs.drop (nCap sc) }
  | [], s, _, _ => by
    simp only [leaveCode, nWith, nCap, List.length_nil, Nat.add_zero, List.drop_zero]
    exact Reach.refl s
  | .with_ :: rest, s, hAt, hc => by
    simp only [leaveCode] at hAt
    let s1 : VmState := { s with pc := s.pc + 1, frames := s.frames.tail }
    have r1 : Reach ctx C s s1 := Reach.one (i := .popFrame) hAt.head (by simp [MJ.Vm.step, s1])
    have r2 := leave_reach ctx C rest s1 (by simpa [s1] using hAt.tail) (by simpa [s1, nCap] using hc)
    refine (r1.trans r2).cast rfl ?_
    simp only [s1, leaveCode, nWith, nCap, List.length_cons]
    have : s.frames.tail.drop (nWith rest) = s.frames.drop (nWith rest + 1) := by cases s.frames <;> simp
    rw [this]
    congr 1; omega
  | .capture :: rest, s, hAt, hc => by
    simp only [leaveCode] at hAt
    simp only [nCap] at hc
    cases ho : s.outs with
    | nil => rw [ho] at hc; simp at hc
    | cons o os =>
      let s1 : VmState := { s with pc := s.pc + 1, outs := os, stack := .str o :: s.stack }
      have hos : ∃ o2 os2, os = o2 :: os2 := by
        cases os with
        | nil => rw [ho] at hc; simp at hc
        | cons o2 os2 => exact ⟨o2, os2, rfl⟩
      obtain ⟨o2, os2, hos⟩ := hos
      have r1 : Reach ctx C s s1 := Reach.one (i := .endCapture) hAt.head (by simp [MJ.Vm.step, s1, ho, hos])
      let s2 : VmState := { s with pc := s.pc + 2, outs := os }
      have r2 : Reach ctx C s1 s2 :=
        Reach.one' (i := .discardTop) _ hAt.tail.head (by simp [s1]) (by simp [MJ.Vm.step, s1, s2])
      have r3 := leave_reach ctx C rest s2 (by simpa [s2, Nat.add_assoc] using hAt.tail.tail)
        (by rw [ho] at hc; simp at hc; simpa [s2] using hc)
      refine (r1.trans (r2.trans r3)).cast rfl ?_
      simp only [s2, leaveCode, nWith, nCap, List.length_cons, List.drop_succ_cons]
      congr 1; omega

theorem sim_stmt_step {n} (ihB : SimBlock n) (ihW : SimBinds n) (ihI : SimIters n) (ihF : SimFilters n) :
    SimStmt (n + 1) := by
  intro st ctx stack σ σ' fl hev lc hs C base a s hAt hoof hpc hrel hcap
  cases st with
  | text t =>
    simp [exec] at hev
    obtain ⟨rfl, rfl⟩ := hev
    simp only [relStmt, Post, if_true] at hAt ⊢
    have hr := hrel.appendOut t { s with pc := s.pc + 1, outs := MJ.Vm.appendOut t s.outs } rfl rfl
    exact ⟨{ s with pc := s.pc + 1, outs := MJ.Vm.appendOut t s.outs },
      Reach.one (i := .emitRaw t) (by rw [hpc]; exact hAt.head) (by simp [MJ.Vm.step]),
      by simp [hpc], rfl, hr.1, hr.2, rfl, rfl⟩
  | emit e =>
    have hse : simpleExpr e = true := by simpa [simpleStmt] using hs
    simp only [exec, bind, Except.bind] at hev
    split at hev
    · simp at hev
    · rename_i v hv
      simp at hev
      obtain ⟨rfl, rfl⟩ := hev
      simp only [relStmt, Post, if_true] at hAt hoof ⊢
      have r1 := relExpr_correct hv hse hAt.left hoof hpc hrel.env
      have hr := hrel.appendOut (render v)
        { s with pc := base + (relExpr e base a).1.length + 1, outs := MJ.Vm.appendOut (render v) s.outs } rfl rfl
      exact ⟨{ s with pc := base + (relExpr e base a).1.length + 1, outs := MJ.Vm.appendOut (render v) s.outs },
        r1.trans (Reach.one' (i := .emit) _ hAt.right.head rfl (by simp [MJ.Vm.step])),
        by simp [Nat.add_assoc], rfl, hr.1, hr.2, rfl, rfl⟩
  | set target e =>
    have hse : simpleExpr e = true := by simpa [simpleStmt] using hs
    obtain ⟨cell, rs, hstack⟩ := hrel.nonempty
    subst hstack
    simp only [exec, bind, Except.bind] at hev
    split at hev
    · simp at hev
    · rename_i v hv
      split at hev
      · simp at hev
      · rename_i bs hbs
        simp [topCell] at hev
        obtain ⟨rfl, rfl⟩ := hev
        simp only [relStmt, Post, if_true] at hAt hoof ⊢
        have := sim_assign hv hbs hse hAt hoof hpc hrel
        simpa [Nat.add_assoc] using this
  | ifS c t f =>
    simp only [exec, bind, Except.bind] at hev
    split at hev
    · simp at hev
    · rename_i cv hcv
      cases f with
      | nil =>
        have hs' : simpleExpr c = true ∧ simpleBlock lc.isSome t = true := by simpa [simpleStmt, simpleBlock] using hs
        simp only [relStmt] at hAt hoof ⊢
        have ho1 := oof_false_of_relBlock hoof
        have r1 := relExpr_correct hcv hs'.1 hAt.left.left ho1 hpc hrel.env
        have hj := hAt.left.right.head
        by_cases ht : truthy cv = true
        · simp [ht] at hev
          have rj : Reach ctx C s { s with pc := base + (relExpr c base a).1.length + 1, stack := s.stack } :=
            r1.trans (Reach.one' (i := .jumpIfFalse _) _ hj rfl (by simp [MJ.Vm.step, ht]))
          have p2 := ihB t ctx stack σ σ' fl hev lc hs'.2 C (base + (relExpr c base a).1.length + 1) (relExpr c base a).2
              { s with pc := base + (relExpr c base a).1.length + 1, stack := s.stack }
              (At.cast hAt.right (by simp [Nat.add_assoc])) hoof rfl (hrel.same _ rfl rfl) hcap
          by_cases hfl : fl = .normal
          · subst hfl
            simp only [Post, if_true] at p2 ⊢
            obtain ⟨s2, r2, hpc2, hst2, hrel2, hout2, htl2, hhd2⟩ := p2
            refine ⟨s2, rj.trans r2, ?_, hst2, hrel2, hout2, htl2, hhd2⟩
            simp only [hpc2, List.length_append, List.length_cons, List.length_nil]; omega
          · exact Post.prefix_nn hfl rj rfl rfl rfl rfl p2
        · simp [ht] at hev
          obtain ⟨rfl, rfl⟩ := execBlock_nil hev
          simp only [Post, if_true]
          refine ⟨{ s with pc := base + (relExpr c base a).1.length + 1 +
              (relBlock t (base + (relExpr c base a).1.length + 1) (relExpr c base a).2 lc).1.1.length },
            r1.trans (Reach.one (i := .jumpIfFalse _) hj (by simp [MJ.Vm.step, ht])), ?_, rfl,
            hrel.same _ rfl rfl, rfl, rfl, rfl⟩
          simp only [List.length_append, List.length_cons, List.length_nil]; omega
      | cons f0 fs =>
        have hs' : (simpleExpr c = true ∧ simpleBlock lc.isSome t = true) ∧ simpleBlock lc.isSome (f0 :: fs) = true := by
          simpa [simpleStmt] using hs
        simp only [relStmt] at hAt hoof ⊢
        have ho2 := oof_false_of_relBlock hoof
        have ho1 := oof_false_of_relBlock ho2
        have r1 := relExpr_correct hcv hs'.1.1 hAt.left.left.left.left ho1 hpc hrel.env
        have hj := hAt.left.left.left.right.head
        by_cases ht : truthy cv = true
        · simp [ht] at hev
          have rj : Reach ctx C s { s with pc := base + (relExpr c base a).1.length + 1, stack := s.stack } :=
            r1.trans (Reach.one' (i := .jumpIfFalse _) _ hj rfl (by simp [MJ.Vm.step, ht]))
          have p2 := ihB t ctx stack σ σ' fl hev lc hs'.1.2 C (base + (relExpr c base a).1.length + 1) (relExpr c base a).2
              { s with pc := base + (relExpr c base a).1.length + 1, stack := s.stack }
              (At.cast hAt.left.left.right (by simp [Nat.add_assoc])) ho2 rfl (hrel.same _ rfl rfl) hcap
          by_cases hfl : fl = .normal
          · subst hfl
            simp only [Post, if_true] at p2 ⊢
            obtain ⟨s2, r2, hpc2, hst2, hrel2, hout2, htl2, hhd2⟩ := p2
            have hj2 := hAt.left.right.head
            refine ⟨{ s2 with pc := base + (relExpr c base a).1.length + 1 +
                  (relBlock t (base + (relExpr c base a).1.length + 1) (relExpr c base a).2 lc).1.1.length + 1 +
                  (relBlock (f0 :: fs) (base + (relExpr c base a).1.length + 1 +
                    (relBlock t (base + (relExpr c base a).1.length + 1) (relExpr c base a).2 lc).1.1.length + 1)
                    (relBlock t (base + (relExpr c base a).1.length + 1) (relExpr c base a).2 lc).1.2 lc).1.1.length },
              rj.trans (r2.trans (Reach.one' (i := .jump _) _ hj2
                  (by simp only [hpc2, List.length_append, List.length_cons, List.length_nil]; omega)
                  (by simp [MJ.Vm.step]))),
              ?_, hst2, hrel2.same _ rfl rfl, hout2, htl2, hhd2⟩
            simp only [List.length_append, List.length_cons, List.length_nil]; omega
          · exact Post.prefix_nn hfl rj rfl rfl rfl rfl p2
        · simp [ht] at hev
          have rj : Reach ctx C s { s with pc := base + (relExpr c base a).1.length + 1 +
              (relBlock t (base + (relExpr c base a).1.length + 1) (relExpr c base a).2 lc).1.1.length + 1, stack := s.stack } :=
            r1.trans (Reach.one' (i := .jumpIfFalse _) _ hj rfl (by simp [MJ.Vm.step, ht]))
          have p2 := ihB (f0 :: fs) ctx stack σ σ' fl hev lc hs'.2 C
              (base + (relExpr c base a).1.length + 1 + (relBlock t (base + (relExpr c base a).1.length + 1) (relExpr c base a).2 lc).1.1.length + 1)
              (relBlock t (base + (relExpr c base a).1.length + 1) (relExpr c base a).2 lc).1.2
              { s with pc := base + (relExpr c base a).1.length + 1 + (relBlock t (base + (relExpr c base a).1.length + 1) (relExpr c base a).2 lc).1.1.length + 1, stack := s.stack }
              (At.cast hAt.right (by simp [Nat.add_assoc]; try omega)) hoof rfl (hrel.same _ rfl rfl) hcap
          by_cases hfl : fl = .normal
          · subst hfl
            simp only [Post, if_true] at p2 ⊢
            obtain ⟨s2, r2, hpc2, hst2, hrel2, hout2, htl2, hhd2⟩ := p2
            refine ⟨s2, rj.trans r2, ?_, hst2, hrel2, hout2, htl2, hhd2⟩
            simp only [hpc2, List.length_append, List.length_cons, List.length_nil]; omega
          · exact Post.prefix_nn hfl rj rfl rfl rfl rfl p2
  | withS binds body =>
    have hs' : simpleBinds binds = true ∧ simpleBlock (pushScope .with_ lc).isSome body = true := by
      simpa [simpleStmt] using hs
    simp only [exec, bind, Except.bind] at hev
    split at hev
    · simp at hev
    · rename_i heap1 hw
      split at hev
      · simp at hev
      · rename_i r hr
        obtain ⟨σ2, fl2⟩ := r
        simp at hev
        obtain ⟨rfl, rfl⟩ := hev
        simp only [relStmt] at hAt hoof ⊢
        have ho1 := oof_false_of_relBlock hoof
        -- PushWith
        let s1 : VmState := { s with pc := base + 1, frames := {} :: s.frames }
        have hreach1 : Reach ctx C s s1 :=
          Reach.one (i := .pushWith) (by rw [hpc]; exact hAt.left.left.head) (by simp [MJ.Vm.step, s1, hpc])
        have hrel1 : Rel { heap := σ.heap ++ [[]], out := σ.out } (σ.heap.length :: stack) s1 :=
          hrel.push [] {} (by intro x; simp [assocGet, frameLookup]) s1 rfl rfl
        -- the bindings
        obtain ⟨s2, r2, hpc2, hst2, hrel2, hout2, htl2, hhd2⟩ :=
          ihW binds ctx (σ.heap.length :: stack) _ heap1 σ.out hw hs'.1 C (base + 1) a s1
            (At.cast hAt.left.left.right (by simp only [List.length_cons, List.length_nil])) ho1 rfl hrel1
        have hlen2 : s2.outs.length = s.outs.length := by
          have := outs_length_of_tail hrel2 hrel1 hout2; simpa [s1] using this
        -- the body
        have p3 := ihB body ctx (σ.heap.length :: stack) _ σ2 fl2 hr (pushScope .with_ lc) hs'.2 C
            (base + 1 + (relBinds binds (base + 1) a).1.length)
            (relBinds binds (base + 1) a).2 s2
            (At.cast hAt.left.right (by simp only [List.length_append, List.length_cons, List.length_nil]; omega)) hoof hpc2 hrel2
            (by intro l' hl'
                cases lc with
                | none => simp [pushScope] at hl'
                | some l =>
                  simp only [pushScope, Option.some.injEq] at hl'
                  subst hl'
                  rw [hlen2]; simpa [nCap] using hcap l rfl)
        by_cases hfl : fl2 = .normal
        · subst hfl
          simp only [Post, if_true] at p3 ⊢
          obtain ⟨s3, r3, hpc3, hst3, hrel3, hout3, htl3, hhd3⟩ := p3
          -- PopFrame: the scope is dropped on both sides
          have htake : σ2.heap.take σ.heap.length = σ.heap :=
            take_of_frame σ.heap [] stack σ2.heap ((bindWith_frame _ _ _ _ _ _ hw).trans (execBlock_frame hr))
          have hfr3 : s3.frames.tail = s.frames := by rw [htl3, htl2]; rfl
          obtain ⟨r3out, hr3⟩ := hrel3.out
          let s4 : VmState := { s3 with pc := s3.pc + 1, frames := s3.frames.tail }
          have hreach4 : Reach ctx C s3 s4 :=
            Reach.one' (i := .popFrame) _ hAt.right.head
              (by simp only [hpc3, List.length_append, List.length_cons, List.length_nil]; omega)
              (by simp [MJ.Vm.step, s4])
          refine ⟨s4, hreach1.trans (r2.trans (r3.trans hreach4)), ?_, ?_, ?_, ?_, ?_, ?_⟩
          · simp only [s4, hpc3, List.length_append, List.length_cons, List.length_nil]; omega
          · simp [s4, hst3, hst2, s1]
          · refine ⟨?_, ⟨r3out, by simp [s4, hr3]⟩, ?_, hrel.nodup, hrel.nonempty⟩
            · simp only [s4, hfr3, htake]; exact hrel.frames
            · simp only [htake]; exact hrel.bound
          · simp [s4, hout3, hout2, s1]
          · simp [s4, hfr3]
          · simp [s4, hfr3]
        · -- `break` / `continue` inside the block: the frame was popped on the way out
          simp only [Post, hfl, if_false] at p3 ⊢
          obtain ⟨l', hl', s3, r3, hpc3, hst3, htl3, hhd3, hout3⟩ := p3
          cases lc with
          | none => simp [pushScope] at hl'
          | some l =>
            simp only [pushScope, Option.some.injEq] at hl'
            subst hl'
            have hdrop : s2.frames.drop (nWith l.scopes + 1) = s.frames.drop (nWith l.scopes) := by
              have e1 : s2.frames.drop (nWith l.scopes + 1) = s2.frames.tail.drop (nWith l.scopes) := by
                cases s2.frames <;> simp
              rw [e1, htl2]; rfl
            refine ⟨l, rfl, s3, hreach1.trans (r2.trans r3), ?_, ?_, ?_, ?_, ?_⟩
            · rw [hpc3]; cases fl2 <;> rfl
            · rw [hst3, hst2]
            · simpa [nWith, hdrop] using htl3
            · simpa [nWith, hdrop] using hhd3
            · rw [hout3, hout2]; rfl
  | breakS =>
    simp [exec] at hev
    obtain ⟨rfl, rfl⟩ := hev
    cases lc with
    | none => simp [simpleStmt] at hs
    | some l =>
      simp only [relStmt] at hAt ⊢
      have r1 := leave_reach ctx C l.scopes s (by rw [hpc]; exact hAt.left) (hcap l rfl)
      have hj := hAt.right.head
      simp only [Post, if_false, reduceCtorEq]
      refine ⟨l, rfl, { s with pc := l.exit, frames := s.frames.drop (nWith l.scopes), outs := s.outs.drop (nCap l.scopes) },
        r1.trans (Reach.one' (i := .jump l.exit) _ hj (by simp [hpc]) (by simp [MJ.Vm.step])), rfl, rfl, rfl, rfl, ?_⟩
      obtain ⟨rest, hr⟩ := hrel.out
      simp [hr]
  | continueS =>
    simp [exec] at hev
    obtain ⟨rfl, rfl⟩ := hev
    cases lc with
    | none => simp [simpleStmt] at hs
    | some l =>
      simp only [relStmt] at hAt ⊢
      have r1 := leave_reach ctx C l.scopes s (by rw [hpc]; exact hAt.left) (hcap l rfl)
      have hj := hAt.right.head
      simp only [Post, if_false, reduceCtorEq]
      refine ⟨l, rfl, { s with pc := l.iter, frames := s.frames.drop (nWith l.scopes), outs := s.outs.drop (nCap l.scopes) },
        r1.trans (Reach.one' (i := .jump l.iter) _ hj (by simp [hpc]) (by simp [MJ.Vm.step])), rfl, rfl, rfl, rfl, ?_⟩
      obtain ⟨rest, hr⟩ := hrel.out
      simp [hr]
  | macroS _ _ _ _ _ => simp [simpleStmt] at hs
  | callBlock _ _ _ _ _ _ => simp [simpleStmt] at hs
  | forS target iter flt body els =>
    have hs' : (simpleExpr iter = true ∧ simpleBlock true body = true) ∧ simpleBlock lc.isSome els = true := by
      cases flt with
      | none => simpa [simpleStmt] using hs
      | some c =>
        have : ((simpleExpr iter = true ∧ simpleExpr c = true) ∧ simpleBlock true body = true) ∧
            simpleBlock lc.isSome els = true := by
          simpa [simpleStmt] using hs
        exact ⟨⟨this.1.1.1, this.1.2⟩, this.2⟩
    have hsc : ∀ c, flt = some c → simpleExpr c = true := by
      intro c hc; subst hc
      have : ((simpleExpr iter = true ∧ simpleExpr c = true) ∧ simpleBlock true body = true) ∧
          simpleBlock lc.isSome els = true := by
        simpa [simpleStmt] using hs
      exact this.1.1.2
    simp only [exec, bind, Except.bind] at hev
    split at hev
    · simp at hev
    · rename_i v hv
      split at hev
      · simp at hev
      · rename_i xs0 hxs
        have hphase : ∃ xs sized, ((flt = none ∧ xs = xs0 ∧ sized = isSized v) ∨
              (∃ c, flt = some c ∧ filterItems n ctx σ.heap stack target c xs0 = .ok xs ∧
                ((xs.length : Int) ≤ i128Max) ∧ sized = true)) ∧
            ∃ σi, execIters n ctx stack σ target body (xs.zip (loopInfos sized xs)) = .ok σi ∧
              ((xs = [] ∧ execBlock n ctx stack σ els = .ok (σ', fl)) ∨ (xs ≠ [] ∧ σ' = σi ∧ fl = .normal)) := by
          cases flt with
          | none =>
            simp only at hev
            refine ⟨xs0, isSized v, Or.inl ⟨rfl, rfl, rfl⟩, ?_⟩
            cases xs0 with
            | nil =>
              cases n with
              | zero => simp [execBlock] at hev
              | succ m => exact ⟨σ, by simp [execIters, loopInfos, loopInfosFrom], Or.inl ⟨rfl, hev⟩⟩
            | cons y ys =>
              simp only at hev
              split at hev
              · simp at hev
              · rename_i σi hi
                simp at hev
                exact ⟨σi, hi, Or.inr ⟨by simp, hev.1.symm, hev.2.symm⟩⟩
          | some c =>
            simp only at hev
            split at hev
            · simp at hev
            · rename_i ks hks
              split at hev
              · rename_i hle
                refine ⟨ks, true, Or.inr ⟨c, rfl, hks, hle, rfl⟩, ?_⟩
                cases ks with
                | nil =>
                  cases n with
                  | zero => simp [execBlock] at hev
                  | succ m => exact ⟨σ, by simp [execIters, loopInfos, loopInfosFrom], Or.inl ⟨rfl, hev⟩⟩
                | cons y ys =>
                  simp only at hev
                  split at hev
                  · simp at hev
                  · rename_i σi hi
                    simp at hev
                    exact ⟨σi, hi, Or.inr ⟨by simp, hev.1.symm, hev.2.symm⟩⟩
              · simp at hev
        clear hev
        obtain ⟨xs, sized, hflt, σi, hit, hcase⟩ := hphase
        -- the address behind the loop and the body as it is compiled
        obtain ⟨E, hEdef⟩ : ∃ E, E = forExit target iter flt body base a := ⟨_, rfl⟩
        obtain ⟨RB, hRB⟩ : ∃ RB, RB = forBody target iter flt body base a := ⟨_, rfl⟩
        have hend : E = base + (relForIter target iter flt base a).1.length + 2 + (relTarget target).length + RB.1.1.length + 1 := by
          rw [hEdef, hRB]; exact forExit_eq _ _ _ _ _ _
        have hRBeq : RB = relBlock body (base + (relForIter target iter flt base a).1.length + 2 + (relTarget target).length) (relForIter target iter flt base a).2
            (some ⟨base + (relForIter target iter flt base a).1.length + 1, E, []⟩) := by
          rw [hRB, hEdef]; rfl
        -- common prefix of the code: iterable, PushLoop, Iterate, target, body, Jump
        have hcode : ∃ (rest : List Instr),
            (relStmt (.forS target iter flt body els) base a lc).1.1 =
              (relForIter target iter flt base a).1 ++ [.pushLoop 1, .iterate E] ++ relTarget target ++ RB.1.1 ++
                [.jump (base + (relForIter target iter flt base a).1.length + 1)] ++ rest ∧ RB.1.2.oof = false := by
          cases els with
          | nil =>
            refine ⟨[.popLoopFrame], ?_, ?_⟩
            · rw [relStmt_for_nil, ← hEdef, ← hRB]; simp
            · have := hoof; rw [relStmt_for_nil, ← hRB] at this; exact this
          | cons e0 es =>
            refine ⟨[.pushDidNotIterate, .popLoopFrame,
                .jumpIfFalse (E + 3 + (relBlock (e0 :: es) (E + 3) RB.1.2 lc).1.1.length)] ++
                (relBlock (e0 :: es) (E + 3) RB.1.2 lc).1.1, ?_, ?_⟩
            · rw [relStmt_for_cons, ← hEdef, ← hRB]; simp
            · have := hoof; rw [relStmt_for_cons, ← hEdef, ← hRB] at this
              exact oof_false_of_relBlock this
        obtain ⟨rest, hcodeEq, hoofb⟩ := hcode
        have hAt' := hAt
        rw [hcodeEq] at hAt'
        have ho1 : (relForIter target iter flt base a).2.oof = false := by
          rw [hRBeq] at hoofb; exact oof_false_of_relBlock hoofb
        obtain ⟨w, r1, hwit, hwsz⟩ := sim_for_iter hv hxs hflt hs'.1.1 hsc hAt'.left.left.left.left.left ho1 hpc hrel
        let l0 : LoopSt := { withLoopVar := true, len := if sized then some xs.length else none,
                             calls := 0, iterated := false, prev := none, cur := none, rest := xs }
        let s2 : VmState := { s with pc := base + (relForIter target iter flt base a).1.length + 1,
                                     frames := { locals := [], loop := some l0 } :: s.frames }
        have hreach2 : Reach ctx C { s with pc := base + (relForIter target iter flt base a).1.length, stack := w :: s.stack } s2 :=
          Reach.one' (i := .pushLoop 1) _ hAt'.left.left.left.left.right.head rfl
            (by simp [MJ.Vm.step, hwit, hwsz, Except.map, s2, l0])
        obtain ⟨c0, rs0, hstack⟩ := hrel.nonempty
        have e1 : base + (relForIter target iter flt base a).1.length + 1 + 1 = base + (relForIter target iter flt base a).1.length + 2 := by omega
        obtain ⟨s5, r5, hpc5, hst5, htl5, hout5, houtt5, lf, locf, hlf, hitd⟩ :=
          ihI ctx stack σ σi target body xs (if sized then some xs.length else none) 0 none
            (by simpa [loopInfos] using hit) hs'.1.2 C
            (base + (relForIter target iter flt base a).1.length + 1) E (relForIter target iter flt base a).2 s2 l0 [] s.frames
            (by have := hAt'.left.left.left.left.right.tail.head; simpa [Nat.add_assoc] using this)
            (by rw [e1]; exact At.cast hAt'.left.left.left.right (by simp [Nat.add_assoc]))
            (by rw [e1, ← hRBeq]; exact At.cast hAt'.left.left.right (by simp only [List.length_append, List.length_cons, List.length_nil]; omega))
            (by rw [e1, ← hRBeq]; exact hoofb)
            (by rw [e1, ← hRBeq]; have := hAt'.left.right.head
                refine Eq.trans (congrArg (fun k => C[k]?) ?_) this
                simp only [List.length_append, List.length_cons, List.length_nil]; omega)
            rfl rfl rfl rfl rfl rfl rfl hrel.frames hrel.out hrel.bound hrel.nodup ⟨c0, rs0, hstack⟩
        have hheap : σi.heap = σ.heap := execIters_heap hit
        have hfr5 : s5.frames = { locals := locf, loop := some lf } :: s.frames := by
          cases hf : s5.frames with
          | nil => rw [hf] at hlf; simp at hlf
          | cons f5 fs5 => rw [hf] at hlf htl5; simp at hlf htl5; rw [hlf, htl5]
        cases els with
        | nil =>
          -- no else branch: PopLoopFrame
          have hσ : σ' = σi ∧ fl = .normal := by
            rcases hcase with ⟨hx, hb⟩ | ⟨_, h1, h2⟩
            · subst hx
              obtain ⟨rfl, rfl⟩ := execBlock_nil hb
              cases n with
              | zero => simp [execBlock] at hb
              | succ m => simp [execIters, loopInfos, loopInfosFrom] at hit; exact ⟨hit, rfl⟩
            · exact ⟨h1, h2⟩
          obtain ⟨rfl, rfl⟩ := hσ
          have hrest : rest = [.popLoopFrame] := by
            have := hcodeEq; rw [relStmt_for_nil, ← hEdef, ← hRB] at this
            simp at this
            exact this.symm
          subst hrest
          let s6 : VmState := { s5 with pc := s5.pc + 1, frames := s5.frames.tail }
          have hreach6 : Reach ctx C s5 s6 :=
            Reach.one' (i := .popLoopFrame) _ hAt'.right.head
              (by simp only [hpc5, hend, List.length_append, List.length_cons, List.length_nil]; omega)
              (by simp [MJ.Vm.step, s6])
          simp only [Post, if_true]
          refine ⟨s6, r1.trans (hreach2.trans (r5.trans hreach6)), ?_, ?_, ?_, ?_, ?_, ?_⟩
          · rw [hcodeEq]; simp only [s6, hpc5, hend, List.length_append, List.length_cons, List.length_nil]; omega
          · simp [s6, hst5, s2]
          · refine ⟨?_, by simpa [s6] using hout5, ?_, hrel.nodup, hrel.nonempty⟩
            · simp only [s6, htl5, hheap]; exact hrel.frames
            · simp only [hheap]; exact hrel.bound
          · simp [s6, houtt5, s2]
          · simp [s6, htl5]
          · simp [s6, htl5]
        | cons e0 es =>
          -- the shape of the code behind the loop
          have hrest : rest = [.pushDidNotIterate, .popLoopFrame,
                .jumpIfFalse (E + 3 + (relBlock (e0 :: es) (E + 3) RB.1.2 lc).1.1.length)] ++
                (relBlock (e0 :: es) (E + 3) RB.1.2 lc).1.1 := by
            have := hcodeEq; rw [relStmt_for_cons, ← hEdef, ← hRB] at this
            simp at this
            exact this.symm
          have hpre : base + ((relForIter target iter flt base a).1 ++ [Instr.pushLoop 1, Instr.iterate E] ++ relTarget target ++
              RB.1.1 ++ [Instr.jump (base + (relForIter target iter flt base a).1.length + 1)]).length = E := by
            simp only [hend, List.length_append, List.length_cons, List.length_nil]; omega
          have hAtR : At C E (Instr.pushDidNotIterate :: Instr.popLoopFrame ::
              Instr.jumpIfFalse (E + 3 + (relBlock (e0 :: es) (E + 3) RB.1.2 lc).1.1.length) ::
              (relBlock (e0 :: es) (E + 3) RB.1.2 lc).1.1) := by
            have h := At.cast hAt'.right hpre
            rw [hrest] at h
            exact h
          have hrestLen : rest.length = 3 + (relBlock (e0 :: es) (E + 3) RB.1.2 lc).1.1.length := by
            rw [hrest]; simp; omega
          have hoofE : (relBlock (e0 :: es) (E + 3) RB.1.2 lc).1.2.oof = false := by
            have := hoof; rw [relStmt_for_cons, ← hEdef, ← hRB] at this; exact this
          -- PushDidNotIterate, PopLoopFrame
          let s6 : VmState := { s5 with pc := E + 1, stack := .bool (!lf.iterated) :: s5.stack }
          have hreach6 : Reach ctx C s5 s6 :=
            Reach.one' (i := .pushDidNotIterate) _ hAtR.head hpc5
              (by simp [MJ.Vm.step, hfr5, currentLoop, s6, hpc5])
          let s7 : VmState := { s6 with pc := E + 2, frames := s.frames }
          have hreach7 : Reach ctx C s6 s7 :=
            Reach.one' (i := .popLoopFrame) _ hAtR.tail.head (by simp [s6])
              (by simp [MJ.Vm.step, s7, s6, hfr5])
          have hj := hAtR.tail.tail.head
          have hst7 : s7.stack = .bool (!lf.iterated) :: s.stack := by simp [s7, s6, hst5, s2]
          rcases hcase with ⟨hx, hb⟩ | ⟨hx, h1, h2⟩
          · -- empty sequence: the else branch runs
            subst hx
            have hσi : σi = σ := by
              cases n with
              | zero => simp [execBlock] at hb
              | succ m => simp [execIters, loopInfos, loopInfosFrom] at hit; exact hit.symm
            subst hσi
            have hitf : lf.iterated = false := by simpa [l0] using hitd
            let s8 : VmState := { s7 with pc := E + 3, stack := s.stack }
            have hreach8 : Reach ctx C s7 s8 :=
              Reach.one' (i := .jumpIfFalse _) _ hj (by simp [s7]) (by simp only [MJ.Vm.step, hst7]; simp [hitf, truthy, s8, s7])
            have hrel8 : Rel σi stack s8 :=
              ⟨by simpa [s8, s7] using hrel.frames, by simpa [s8, s7, s6] using hout5, hrel.bound, hrel.nodup, hrel.nonempty⟩
            have hlen8 : s8.outs.length = s.outs.length := by
              have : s8.outs.tail = s.outs.tail := by simp [s8, s7, s6, houtt5, s2]
              exact outs_length_of_tail hrel8 hrel this
            have rpre : Reach ctx C s s8 := r1.trans (hreach2.trans (r5.trans (hreach6.trans (hreach7.trans hreach8))))
            have p9 := ihB (e0 :: es) ctx stack σi σ' fl hb lc hs'.2 C (E + 3) _ s8
                (At.cast hAtR.tail.tail.tail (by omega)) hoofE rfl hrel8 (nCap_le_of hcap hlen8)
            by_cases hfl : fl = .normal
            · subst hfl
              simp only [Post, if_true] at p9 ⊢
              obtain ⟨s9, r9, hpc9, hst9, hrel9, hout9, htl9, hhd9⟩ := p9
              refine ⟨s9, rpre.trans r9, ?_, ?_, hrel9, ?_, ?_, ?_⟩
              · rw [hpc9, hcodeEq, List.length_append, hrestLen]; omega
              · simp [hst9, s8]
              · rw [hout9]; simp [s8, s7, s6, houtt5, s2]
              · rw [htl9]
              · rw [hhd9]
            · exact Post.prefix_nn hfl rpre (by simp [s8]) (by simp [s8, s7]) (by simp [s8, s7])
                (by simp [s8, s7, s6, houtt5, s2]) p9
          · -- at least one iteration: jump over the else branch
            subst h1; subst h2
            have hitt : lf.iterated = true := by
              cases xs with
              | nil => exact absurd rfl hx
              | cons y ys => simpa [l0] using hitd
            let s8 : VmState := { s7 with pc := E + 3 + (relBlock (e0 :: es) (E + 3) RB.1.2 lc).1.1.length, stack := s.stack }
            have hreach8 : Reach ctx C s7 s8 :=
              Reach.one' (i := .jumpIfFalse _) _ hj (by simp [s7])
                (by simp only [MJ.Vm.step, hst7]; simp [hitt, truthy, s8, s7])
            simp only [Post, if_true]
            refine ⟨s8, r1.trans (hreach2.trans (r5.trans (hreach6.trans (hreach7.trans hreach8)))), ?_, ?_, ?_, ?_, ?_, ?_⟩
            · rw [hcodeEq, List.length_append, hrestLen]; simp only [s8]; omega
            · simp [s8]
            · refine ⟨?_, by simpa [s8, s7, s6] using hout5, ?_, hrel.nodup, hrel.nonempty⟩
              · simp only [s8, s7, hheap]; exact hrel.frames
              · simp only [hheap]; exact hrel.bound
            · simp [s8, s7, s6, houtt5, s2]
            · simp [s8, s7]
            · simp [s8, s7]
  | setBlock x filters body =>
    have hs' : simpleFilters filters = true ∧ simpleBlock (pushScope .capture lc).isSome body = true := by
      simpa [simpleStmt] using hs
    simp only [exec, bind, Except.bind] at hev
    split at hev
    · simp at hev
    · rename_i r hr
      obtain ⟨σ1, fl1⟩ := r
      simp only [relStmt] at hAt hoof ⊢
      have hoB := oof_false_of_relFilters hoof
      -- BeginCapture
      let s1 : VmState := { s with pc := base + 1, outs := "" :: s.outs }
      have hreach1 : Reach ctx C s s1 :=
        Reach.one (i := .beginCapture) (by rw [hpc]; exact hAt.left.left.left.left.head) (by simp [MJ.Vm.step, s1, hpc])
      have hrel1 : Rel { σ with out := "" } stack s1 :=
        ⟨hrel.frames, ⟨s.outs, rfl⟩, hrel.bound, hrel.nodup, hrel.nonempty⟩
      have p2 := ihB body ctx stack _ σ1 fl1 hr (pushScope .capture lc) hs'.2 C (base + 1) a s1
          (At.cast hAt.left.left.left.right (by simp)) hoB rfl hrel1
          (by intro l' hl'
              cases lc with
              | none => simp [pushScope] at hl'
              | some l =>
                simp only [pushScope, Option.some.injEq] at hl'
                subst hl'
                have := hcap l rfl
                simp only [nCap, s1, List.length_cons]; omega)
      by_cases hfl1 : fl1 = .normal
      · subst hfl1
        simp only [Post, if_true] at p2
        obtain ⟨s2, r2, hpc2, hst2, hrel2, hout2, htl2, hhd2⟩ := p2
        simp only at hev
        obtain ⟨r2out, hr2⟩ := hrel2.out
        have hr2' : r2out = s.outs := by have := hout2; rw [hr2] at this; simpa [s1] using this
        subst hr2'
        -- EndCapture
        let pB : Nat := base + 1 + (relBlock body (base + 1) a (pushScope .capture lc)).1.1.length + 1
        let pF : Nat := pB + (relFilters filters pB (relBlock body (base + 1) a (pushScope .capture lc)).1.2).1.length
        let s3 : VmState := { s2 with pc := pB, stack := .str σ1.out :: s.stack, outs := s.outs }
        have hreach3 : Reach ctx C s2 s3 :=
          Reach.one' (i := .endCapture) _ hAt.left.left.right.head
            (by simp only [hpc2, List.length_append, List.length_cons, List.length_nil]; omega)
            (by obtain ⟨rest0, hr0⟩ := hrel.out
                simp [MJ.Vm.step, hr2, hr0, s3, pB, hpc2, hst2, s1])
        split at hev
        · simp at hev
        · rename_i v hv
          have r4 := ihF filters ctx σ1.heap stack (.str σ1.out) v hv hs'.1 C pB
            (relBlock body (base + 1) a (pushScope .capture lc)).1.2 s3 s.stack
            (At.cast hAt.left.right (by simp only [pB, List.length_append, List.length_cons, List.length_nil]; omega))
            hoof rfl rfl (by simpa [s3] using hrel2.env)
          obtain ⟨cell, rs, hstack⟩ := hrel.nonempty
          subst hstack
          simp [topCell] at hev
          obtain ⟨rfl, rfl⟩ := hev
          have hrel4 : Rel { heap := σ1.heap, out := σ.out } (cell :: rs) { s3 with pc := pF, stack := v :: s.stack } :=
            ⟨by simpa [s3] using hrel2.frames, by simpa [s3] using hrel.out, hrel2.bound, hrel.nodup, ⟨cell, rs, rfl⟩⟩
          let s5 : VmState := { s3 with pc := pF + 1, stack := s.stack, frames := storeLocal x v s2.frames }
          have hreach5 : Reach ctx C { s3 with pc := pF, stack := v :: s.stack } s5 :=
            Reach.one' (i := .storeLocal x) _ hAt.right.head
              (by simp only [pF, pB, List.length_append, List.length_cons, List.length_nil]; omega)
              (by simp [MJ.Vm.step, s5, s3])
          simp only [Post, if_true]
          refine ⟨s5, hreach1.trans (r2.trans (hreach3.trans (r4.trans hreach5))), ?_, rfl, ?_, ?_, ?_, ?_⟩
          · simp only [s5, pF, pB, List.length_append, List.length_cons, List.length_nil]; omega
          · exact hrel4.store x v s5 rfl rfl
          · simp [s5, s3]
          · simp only [s5, storeLocal_tail, htl2]; rfl
          · simp only [s5, storeLocal_headLoop, hhd2]; rfl
      · -- `break` / `continue` inside the block: the capture buffer was dropped on the way out
        have hev' : σ' = { heap := σ1.heap, out := σ.out } ∧ fl = fl1 := by
          cases fl1
          · exact absurd rfl hfl1
          · simp at hev; exact ⟨hev.1.symm, hev.2.symm⟩
          · simp at hev; exact ⟨hev.1.symm, hev.2.symm⟩
        obtain ⟨rfl, rfl⟩ := hev'
        simp only [Post, hfl1, if_false] at p2 ⊢
        obtain ⟨l', hl', s3, r3, hpc3, hst3, htl3, hhd3, hout3⟩ := p2
        cases lc with
        | none => simp [pushScope] at hl'
        | some l =>
          simp only [pushScope, Option.some.injEq] at hl'
          subst hl'
          refine ⟨l, rfl, s3, hreach1.trans r3, ?_, ?_, ?_, ?_, ?_⟩
          · rw [hpc3]; cases fl <;> rfl
          · rw [hst3]
          · simpa [nWith, s1] using htl3
          · simpa [nWith, s1] using hhd3
          · obtain ⟨rest, hr⟩ := hrel.out
            rw [hout3]; simp [nCap, s1, hr]
  | filterBlock filters body =>
    have hs' : simpleFilters filters = true ∧ simpleBlock (pushScope .capture lc).isSome body = true := by
      simpa [simpleStmt] using hs
    simp only [exec, bind, Except.bind] at hev
    split at hev
    · simp at hev
    · rename_i r hr
      obtain ⟨σ1, fl1⟩ := r
      simp only [relStmt] at hAt hoof ⊢
      have hoB := oof_false_of_relFilters hoof
      -- BeginCapture
      let s1 : VmState := { s with pc := base + 1, outs := "" :: s.outs }
      have hreach1 : Reach ctx C s s1 :=
        Reach.one (i := .beginCapture) (by rw [hpc]; exact hAt.left.left.left.left.head) (by simp [MJ.Vm.step, s1, hpc])
      have hrel1 : Rel { σ with out := "" } stack s1 :=
        ⟨hrel.frames, ⟨s.outs, rfl⟩, hrel.bound, hrel.nodup, hrel.nonempty⟩
      have p2 := ihB body ctx stack _ σ1 fl1 hr (pushScope .capture lc) hs'.2 C (base + 1) a s1
          (At.cast hAt.left.left.left.right (by simp)) hoB rfl hrel1
          (by intro l' hl'
              cases lc with
              | none => simp [pushScope] at hl'
              | some l =>
                simp only [pushScope, Option.some.injEq] at hl'
                subst hl'
                have := hcap l rfl
                simp only [nCap, s1, List.length_cons]; omega)
      by_cases hfl1 : fl1 = .normal
      · subst hfl1
        simp only [Post, if_true] at p2
        obtain ⟨s2, r2, hpc2, hst2, hrel2, hout2, htl2, hhd2⟩ := p2
        simp only at hev
        obtain ⟨r2out, hr2⟩ := hrel2.out
        have hr2' : r2out = s.outs := by have := hout2; rw [hr2] at this; simpa [s1] using this
        subst hr2'
        -- EndCapture
        let pB : Nat := base + 1 + (relBlock body (base + 1) a (pushScope .capture lc)).1.1.length + 1
        let pF : Nat := pB + (relFilters filters pB (relBlock body (base + 1) a (pushScope .capture lc)).1.2).1.length
        let s3 : VmState := { s2 with pc := pB, stack := .str σ1.out :: s.stack, outs := s.outs }
        have hreach3 : Reach ctx C s2 s3 :=
          Reach.one' (i := .endCapture) _ hAt.left.left.right.head
            (by simp only [hpc2, List.length_append, List.length_cons, List.length_nil]; omega)
            (by obtain ⟨rest0, hr0⟩ := hrel.out
                simp [MJ.Vm.step, hr2, hr0, s3, pB, hpc2, hst2, s1])
        split at hev
        · simp at hev
        · rename_i v hv
          have r4 := ihF filters ctx σ1.heap stack (.str σ1.out) v hv hs'.1 C pB
            (relBlock body (base + 1) a (pushScope .capture lc)).1.2 s3 s.stack
            (At.cast hAt.left.right (by simp only [pB, List.length_append, List.length_cons, List.length_nil]; omega))
            hoof rfl rfl (by simpa [s3] using hrel2.env)
          simp at hev
          obtain ⟨rfl, rfl⟩ := hev
          let s5 : VmState := { s3 with pc := pF + 1, stack := s.stack, outs := MJ.Vm.appendOut (render v) s.outs }
          have hreach5 : Reach ctx C { s3 with pc := pF, stack := v :: s.stack } s5 :=
            Reach.one' (i := .emit) _ hAt.right.head
              (by simp only [pF, pB, List.length_append, List.length_cons, List.length_nil]; omega)
              (by simp [MJ.Vm.step, s5, s3])
          obtain ⟨rest0, hr0⟩ := hrel.out
          simp only [Post, if_true]
          refine ⟨s5, hreach1.trans (r2.trans (hreach3.trans (r4.trans hreach5))), ?_, rfl, ?_, ?_, ?_, ?_⟩
          · simp only [s5, pF, pB, List.length_append, List.length_cons, List.length_nil]; omega
          · exact ⟨by simpa [s5, s3] using hrel2.frames, ⟨rest0, by simp [s5, hr0, MJ.Vm.appendOut]⟩, hrel2.bound, hrel.nodup, hrel.nonempty⟩
          · simp [s5, hr0, MJ.Vm.appendOut]
          · simp only [s5, s3, htl2]; rfl
          · simp only [s5, s3, hhd2]; rfl
      · have hev' : σ' = { heap := σ1.heap, out := σ.out } ∧ fl = fl1 := by
          cases fl1
          · exact absurd rfl hfl1
          · simp at hev; exact ⟨hev.1.symm, hev.2.symm⟩
          · simp at hev; exact ⟨hev.1.symm, hev.2.symm⟩
        obtain ⟨rfl, rfl⟩ := hev'
        simp only [Post, hfl1, if_false] at p2 ⊢
        obtain ⟨l', hl', s3, r3, hpc3, hst3, htl3, hhd3, hout3⟩ := p2
        cases lc with
        | none => simp [pushScope] at hl'
        | some l =>
          simp only [pushScope, Option.some.injEq] at hl'
          subst hl'
          refine ⟨l, rfl, s3, hreach1.trans r3, ?_, ?_, ?_, ?_, ?_⟩
          · rw [hpc3]; cases fl <;> rfl
          · rw [hst3]
          · simpa [nWith, s1] using htl3
          · simpa [nWith, s1] using hhd3
          · obtain ⟨rest, hr⟩ := hrel.out
            rw [hout3]; simp [nCap, s1, hr]

theorem sim_stmt_all : ∀ n, SimStmt n ∧ SimBlock n ∧ SimBinds n ∧ SimIters n ∧ SimFilters n := by
  intro n
  induction n with
  | zero =>
    refine ⟨fun st ctx stack σ σ' fl h => by simp [exec] at h,
      fun ss ctx stack σ σ' fl h => by simp [execBlock] at h,
      fun binds ctx stack heap heap' out h => by simp [bindWith] at h,
      fun ctx stack σ σ' x body xs len idx prev h => by simp [execIters] at h,
      fun fs ctx heap stack v v' h => by simp [applyFilters] at h⟩
  | succ n ih =>
    obtain ⟨hS, hB, hW, hI, hF⟩ := ih
    exact ⟨sim_stmt_step hB hW hI hF, sim_block_step hS hB, sim_binds_step hW, sim_iters_step hB hI, sim_filters_step hF⟩

/-- the fragment of stage 3: text, `{{ e }}`, `set` (incl. unpacking), set-blocks and filter-blocks
with filter chains, `if`/`elif`/`else`, `with`, `for … if … else` with unpacking targets and loop
filter, `break` and `continue` (inside loops) over every expression form except calls and keyword
arguments -/
def Fragment (prog : List Stmt) : Prop := simpleBlock false prog = true

/-- **`vm_refines_eval_partial`**: for every template of the fragment and every context, if the
reference semantics renders it to `out`, then the model VM, run on the code the model code
generator emits for it, renders `out` as well (for every sufficiently large step budget). -/
theorem vm_refines_eval_partial (prog : List Stmt) (hfrag : Fragment prog) (ctx : Scope) (code : List Instr)
    (hcode : compileTemplate prog = some code) (fuel : Nat) (out : String)
    (hev : renderTemplate fuel ctx prog = .ok out) :
    ∃ k, ∀ j, renderCode (k + j) ctx code = .ok out := by
  have heq : cBlock prog {} = ({} : CG).extend (relBlock prog 0 {} none).1 := by
    have h := cBlock_eq_rel prog {} none hfrag trivial
    rw [h, CG.withBreaks_eq]
    simp [foldl_addBreakJump_nil, CG.extend, CG.next, setExit]
  simp only [compileTemplate] at hcode
  split at hcode
  · simp at hcode
  · rename_i hcond
    simp at hcode
    have hoof : (relBlock prog 0 {} none).1.2.oof = false := by
      have : (cBlock prog {}).oof = false := by
        simp only [Bool.or_eq_true, not_or] at hcond
        simpa using hcond.1
      rw [heq] at this
      simpa [CG.oof, CG.extend, CG.next] using this
    have hc : code = (relBlock prog 0 {} none).1.1 := by
      rw [← hcode, heq]; simp [CG.extend, CG.next]
    simp only [renderTemplate] at hev
    split at hev
    · rename_i σ fl hexec
      simp at hev; subst hev
      have hAt : At code 0 (relBlock prog 0 {} none).1.1 := by
        rw [hc]; intro k _; simp
      have hrel0 : Rel { heap := [[]], out := "" } [0] ({} : VmState) := by
        refine ⟨?_, ⟨[], rfl⟩, by simp, by simp, ⟨0, [], rfl⟩⟩
        exact ⟨⟨[], by simp, by intro x; simp [assocGet, frameLookup]⟩, trivial⟩
      have p := (sim_stmt_all fuel).2.1 prog ctx [0] _ σ fl hexec none hfrag code 0 {} {} hAt hoof rfl hrel0
        (by intro l hl; cases hl)
      have hfl : fl = .normal := by
        cases fl with
        | normal => rfl
        | brk => simp [Post] at p
        | cont => simp [Post] at p
      subst hfl
      simp only [Post, if_true] at p
      obtain ⟨s', hreach, hpc, _, hrel', hout, _, _⟩ := p
      have hend : code[s'.pc]? = none := by
        rw [hpc, hc]; simp
      obtain ⟨k, hk⟩ := hreach.toRun hend
      refine ⟨k, fun j => ?_⟩
      obtain ⟨rest, hr⟩ := hrel'.out
      have : rest = [] := by
        have := hout; rw [hr] at this; simpa using this
      subst this
      simp [renderCode, hk j, hr]
    · simp at hev

end MJ.Vm
