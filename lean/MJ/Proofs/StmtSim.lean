import MJ.Proofs.ExprSim
import MJ.Proofs.EvalKeys
import MJ.Proofs.EvalCoinc
/-!
# Statements compile correctly (C03)

Simulation between the reference semantics (`exec`, scopes as heap cells, macros close over cells by
reference) and the model VM (frames, macro objects with copied closures) for the statements of the
core fragment `wfStmt`: text, emit, `set`, set/filter blocks, `if`, `with`, `for`, `break`,
`continue`, macro declarations; macro calls (`SimCall`).  The relation `Rel` is `HRel`
(`MJ/Proofs/SimRel.lean`) plus "the output is the innermost capture buffer".  By induction on the
fuel of the reference execution, for expressions, statements, blocks, `with` bindings, loop
iterations and calls together (`sim_everything`); `vm_refines_eval` is the resulting theorem about
whole templates.
-/
namespace MJ.Vm
open MJ.Eval MJ.Compile MJ.C03

/-- the relation between a state of the reference semantics (cells `loc` of the current context on top
of the lexical rest `env`) and a VM state -/
def Rel (K : Cfg) (G : Ghost) (P : Option (List String)) (clo : Option Nat) (σ : State) (loc env : List Nat)
    (s : VmState) : Prop :=
  HRel K G P clo σ.heap loc env s ∧ ∃ rest, s.outs = σ.out :: rest

theorem Rel.same {K G P clo σ loc env s} (h : Rel K G P clo σ loc env s) (s' : VmState) (hf : s'.frames = s.frames)
    (hc : s'.closures = s.closures) (ho : s'.outs = s.outs) : Rel K G P clo σ loc env s' :=
  ⟨h.1.same s' hf hc, by rw [ho]; exact h.2⟩

theorem Rel.ext {K G P clo σ loc env s} (h : Rel K G P clo σ loc env s) (s' : VmState) (hf : s'.frames = s.frames)
    {cls' : List Scope} (hx : Ext s.closures cls') (hc : s'.closures = cls') (ho : s'.outs = s.outs) :
    Rel K G P clo σ loc env s' := by
  obtain ⟨extra, rfl⟩ := hx
  exact ⟨h.1.ext s' hf extra hc, by rw [ho]; exact h.2⟩

/-- what a run does to the closures that existed before: only the closure the innermost frame owns may
change (stores are duplicated into it), no key is lost, closures are only added -/
def ClPres (s s' : VmState) : Prop :=
  s.closures.length ≤ s'.closures.length ∧ KeysMono s.closures s'.closures ∧
    ∀ c, c < s.closures.length → topClosure s.frames ≠ some c → s'.closures[c]? = s.closures[c]?

/-- the closure the innermost frame owns stays, or is created -/
def HeadClos (s s' : VmState) : Prop :=
  topClosure s'.frames = topClosure s.frames ∨
    (topClosure s.frames = none ∧ ∃ c, topClosure s'.frames = some c ∧ s.closures.length ≤ c)

theorem ClPres.refl (s : VmState) : ClPres s s := ⟨Nat.le_refl _, KeysMono.refl _, fun _ _ _ => rfl⟩
theorem HeadClos.refl (s : VmState) : HeadClos s s := Or.inl rfl

theorem ClPres.of_eq {s s' : VmState} (hc : s'.closures = s.closures) : ClPres s s' := by
  rw [ClPres, hc]; exact ⟨Nat.le_refl _, KeysMono.refl _, fun _ _ _ => rfl⟩

theorem HeadClos.of_eq {s s' : VmState} (hf : topClosure s'.frames = topClosure s.frames) : HeadClos s s' := Or.inl hf

theorem ClPres.trans {s1 s2 s3 : VmState} (h1 : ClPres s1 s2) (hh : HeadClos s1 s2) (h2 : ClPres s2 s3) : ClPres s1 s3 := by
  refine ⟨Nat.le_trans h1.1 h2.1, h1.2.1.trans h2.2.1, fun c hc hne => ?_⟩
  have hc2 : c < s2.closures.length := Nat.lt_of_lt_of_le hc h1.1
  have hne2 : topClosure s2.frames ≠ some c := by
    rcases hh with hh | ⟨_, c', hc', hle⟩
    · rw [hh]; exact hne
    · rw [hc']; intro e; cases e; omega
  rw [h2.2.2 c hc2 hne2, h1.2.2 c hc hne]

theorem HeadClos.trans {s1 s2 s3 : VmState} (h1 : HeadClos s1 s2) (hl : s1.closures.length ≤ s2.closures.length)
    (h2 : HeadClos s2 s3) : HeadClos s1 s3 := by
  rcases h1 with h1 | ⟨hn, c, hc, hle⟩
  · rcases h2 with h2 | ⟨hn2, c, hc, hle⟩
    · exact Or.inl (h2.trans h1)
    · exact Or.inr ⟨by rw [← h1]; exact hn2, c, hc, Nat.le_trans hl hle⟩
  · rcases h2 with h2 | ⟨hn2, _, _, _⟩
    · exact Or.inr ⟨hn, c, by rw [h2]; exact hc, hle⟩
    · rw [hc] at hn2; cases hn2

/-- appended closures -/
theorem ClPres.of_ext {s s' : VmState} (hx : Ext s.closures s'.closures) : ClPres s s' := by
  obtain ⟨extra, he⟩ := hx
  refine ⟨by rw [he]; simp, by rw [he]; exact KeysMono.append _ _, fun c hc _ => ?_⟩
  rw [he, List.getElem?_append_left hc]

/-- if the innermost frame owned no closure, the old closures are a prefix of the new ones -/
theorem ClPres.ext_of_none {s s' : VmState} (h : ClPres s s') (hn : topClosure s.frames = none) :
    Ext s.closures s'.closures := by
  refine ⟨s'.closures.drop s.closures.length, ?_⟩
  apply List.ext_getElem?
  intro i
  by_cases hi : i < s.closures.length
  · rw [List.getElem?_append_left hi]
    exact h.2.2 i hi (by rw [hn]; simp)
  · have hle : s.closures.length ≤ i := Nat.le_of_not_lt hi
    rw [List.getElem?_append_right hle, List.getElem?_drop]
    congr 1; omega

/-- what never changes in a frame while statements run in it: its loop state changes only at
`Iterate`, the closure it reads never -/
def Frame.sig (f : Frame) : Option LoopSt × Option Nat := (f.loop, f.closureCtx)

/-- the static part of the context a statement runs in -/
structure SC where
  K : Cfg
  P : Option (List String)
  clo : Option Nat
  env : List Nat

theorem Rel.store {K G P clo σ T locR env s} (h : Rel K G P clo σ (T :: locR) env s) (x : String) (w u : Val)
    (hv : ValAgree K G s.closures σ.heap.length x w u) (hpw : x ∉ K.M → plain w = true) (s' : VmState)
    (hf : s'.frames = storeLocal x u s.frames)
    (hc : s'.closures = storeClosure x u s.frames s.closures) (ho : s'.outs = s.outs) :
    Rel K G P clo { σ with heap := heapSet σ.heap T x w } (T :: locR) env s' :=
  ⟨h.1.store x w u hv hpw s' hf hc, by rw [ho]; exact h.2⟩

theorem storeClosure_length (x : String) (u : Val) (frames : List Frame) (cls : List Scope) :
    (storeClosure x u frames cls).length = cls.length := by
  unfold storeClosure
  split
  · split <;> simp
  · rfl

theorem topClosure_storeLocal (x : String) (u : Val) (frames : List Frame) :
    topClosure (storeLocal x u frames) = topClosure frames := by
  cases frames <;> rfl

theorem ClPres.store {s s' : VmState} (x : String) (u : Val) (hc : s'.closures = storeClosure x u s.frames s.closures) :
    ClPres s s' := by
  refine ⟨by rw [hc, storeClosure_length]; exact Nat.le_refl _, by rw [hc]; exact storeClosure_keys _ _ _ _, fun c _ hne => ?_⟩
  rw [hc]; exact storeClosure_other _ _ _ _ c hne

theorem heapSetAll_append (h : Heap) (c : Nat) (b1 b2 : List (String × Val)) :
    heapSetAll h c (b1 ++ b2) = heapSetAll (heapSetAll h c b1) c b2 := by
  induction b1 generalizing h with
  | nil => rfl
  | cons p rest ih => obtain ⟨x, v⟩ := p; simp [heapSetAll, ih]

theorem bindTargets_length : ∀ (ts : List Target) (vs : List Val) (bs), bindTargets ts vs = .ok bs →
    vs.length = ts.length
  | [], [], _, _ => rfl
  | [], _ :: _, _, h => by simp [bindTargets] at h
  | _ :: _, [], _, h => by simp [bindTargets] at h
  | t :: ts, v :: vs, bs, h => by
    simp only [bindTargets] at h
    split at h
    · split at h
      · rename_i bs' hbs; simp [bindTargets_length ts vs bs' hbs]
      · simp at h
    · simp at h

/-- what executing a piece of code achieves on the VM side, relative to the reference state `σ'` -/
def Done (X : SC) (loc : List Nat) (σ' : State) (s : VmState) (endPc : Nat) : Prop :=
  ∃ s' G', Reach X.K.ctx X.K.C s s' ∧ s'.pc = endPc ∧ s'.stack = s.stack ∧ Rel X.K G' X.P X.clo σ' loc X.env s' ∧
    s'.outs.tail = s.outs.tail ∧ s'.frames.tail = s.frames.tail ∧
    s'.frames.head?.map Frame.sig = s.frames.head?.map Frame.sig ∧ ClPres s s' ∧ HeadClos s s'

/-- the same, when the code consumes the top of the operand stack (`v :: st` before, `st` after) -/
def Stored (X : SC) (loc : List Nat) (σ' : State) (s : VmState) (st : List Val) (endPc : Nat) : Prop :=
  ∃ s' G', Reach X.K.ctx X.K.C s s' ∧ s'.pc = endPc ∧ s'.stack = st ∧ Rel X.K G' X.P X.clo σ' loc X.env s' ∧
    s'.outs = s.outs ∧ s'.frames.tail = s.frames.tail ∧
    s'.frames.head?.map Frame.sig = s.frames.head?.map Frame.sig ∧ ClPres s s' ∧ HeadClos s s'

theorem storeLocal_tail (x : String) (v : Val) (fs : List Frame) : (storeLocal x v fs).tail = fs.tail := by
  cases fs <;> rfl

theorem storeLocal_headLoop (x : String) (v : Val) (fs : List Frame) :
    (storeLocal x v fs).head?.map Frame.sig = fs.head?.map Frame.sig := by
  cases fs <;> rfl

mutual
/-- `compile_assignment` against `bindTarget`: the value on top of the operand stack is stored /
unpacked into the innermost frame exactly as the reference semantics writes the innermost cell -/
theorem sim_target (X : SC) : ∀ (t : Target) (v : Val) (bs : List (String × Val)), bindTarget t v = .ok bs →
    targetOk X.K.M t = true → plain v = true →
    ∀ (G : Ghost) (base : Nat) (s : VmState) (st : List Val) (σ : State) (cell : Nat) (rs : List Nat),
      At X.K.C base (relTarget t) → s.pc = base → s.stack = v :: st → Rel X.K G X.P X.clo σ (cell :: rs) X.env s →
      Stored X (cell :: rs) { σ with heap := heapSetAll σ.heap cell bs } s st (base + (relTarget t).length)
  | .var x, v, bs, hb, hok, hpv, G, base, s, st, σ, cell, rs, hAt, hpc, hst, hrel => by
    simp [bindTarget] at hb; subst hb
    have hxM : ¬ x ∈ X.K.M := by simpa [targetOk, targetNames] using hok
    simp only [relTarget] at hAt ⊢
    let s1 : VmState := { s with pc := base + 1, stack := st, frames := storeLocal x v s.frames,
                                 closures := storeClosure x v s.frames s.closures }
    refine ⟨s1, G, Reach.one (i := .storeLocal x) (by rw [hpc]; exact hAt.head) (by simp [MJ.Vm.step, hst, hpc, s1]),
      rfl, rfl, ?_, rfl, storeLocal_tail _ _ _, storeLocal_headLoop _ _ _, ClPres.store x v rfl,
      HeadClos.of_eq (topClosure_storeLocal _ _ _)⟩
    have := hrel.store x v v (by simp [ValAgree, hxM]) (fun _ => hpv) s1 rfl rfl rfl
    simpa [heapSetAll] using this
  | .tuple ts, v, bs, hb, hok, hpv, G, base, s, st, σ, cell, rs, hAt, hpc, hst, hrel => by
    simp only [relTarget] at hAt ⊢
    have hok' : ∀ t ∈ ts, targetOk X.K.M t = true := by
      intro t ht
      simp only [targetOk, targetNames, List.all_eq_true] at hok ⊢
      intro y hy
      refine hok y ?_
      clear hok hb hAt
      induction ts with
      | nil => simp at ht
      | cons t0 rest ih =>
        simp only [targetsNames, List.mem_append]
        rcases List.mem_cons.1 ht with rfl | h
        · exact Or.inl hy
        · exact Or.inr (ih h)
    -- the items that are unpacked
    have hitems : ∃ xs, bindTargets ts xs = .ok bs ∧ (∀ x, x ∈ xs → plain x = true) ∧
        MJ.Vm.step X.K.ctx (.unpackList ts.length) s = .ok { s with pc := s.pc + 1, stack := xs ++ st } := by
      cases v
      case list xs =>
        simp only [bindTarget] at hb
        refine ⟨xs, hb, (plainL_iff xs).1 (by simpa [plain] using hpv), ?_⟩
        simp [MJ.Vm.step, hst, bindTargets_length ts xs bs hb]
      case map kvs =>
        simp only [bindTarget] at hb
        refine ⟨_, hb, (plainL_iff _).1 (plain_str_map (fun kv : String × Val => kv.1) kvs), ?_⟩
        have := bindTargets_length ts _ bs hb
        simp [MJ.Vm.step, hst] at this ⊢
        simp [this]
      all_goals simp [bindTarget] at hb
    obtain ⟨xs, hbs, hpxs, hstep⟩ := hitems
    have r1 : Reach X.K.ctx X.K.C s { s with pc := s.pc + 1, stack := xs ++ st } :=
      Reach.one (i := .unpackList ts.length) (by rw [hpc]; exact hAt.head) hstep
    obtain ⟨s2, G2, r2, hpc2, hst2, hrel2, hout2, htl2, hhd2, hcp2, hhc2⟩ :=
      sim_targets X ts xs bs hbs hok' hpxs G (base + 1) { s with pc := s.pc + 1, stack := xs ++ st } st σ cell rs
        hAt.tail (by simp [hpc]) rfl (hrel.same _ rfl rfl rfl)
    exact ⟨s2, G2, r1.trans r2, by simp [hpc2, Nat.add_assoc, Nat.add_comm], hst2, hrel2, hout2, htl2, hhd2, hcp2, hhc2⟩
theorem sim_targets (X : SC) : ∀ (ts : List Target) (vs : List Val) (bs : List (String × Val)), bindTargets ts vs = .ok bs →
    (∀ t ∈ ts, targetOk X.K.M t = true) → (∀ v, v ∈ vs → plain v = true) →
    ∀ (G : Ghost) (base : Nat) (s : VmState) (st : List Val) (σ : State) (cell : Nat) (rs : List Nat),
      At X.K.C base (relTargets ts) → s.pc = base → s.stack = vs ++ st → Rel X.K G X.P X.clo σ (cell :: rs) X.env s →
      Stored X (cell :: rs) { σ with heap := heapSetAll σ.heap cell bs } s st (base + (relTargets ts).length)
  | [], [], bs, hb, hok, _, G, base, s, st, σ, cell, rs, hAt, hpc, hst, hrel => by
    simp [bindTargets] at hb; subst hb
    exact ⟨s, G, Reach.refl _, by simp [relTargets, hpc], by simpa using hst, by simpa [heapSetAll] using hrel, rfl, rfl, rfl,
      ClPres.refl _, HeadClos.refl _⟩
  | [], _ :: _, bs, hb, _, _, _, _, _, _, _, _, _, _, _, _, _ => by simp [bindTargets] at hb
  | _ :: _, [], bs, hb, _, _, _, _, _, _, _, _, _, _, _, _, _ => by simp [bindTargets] at hb
  | t :: ts, v :: vs, bs, hb, hok, hpvs, G, base, s, st, σ, cell, rs, hAt, hpc, hst, hrel => by
    simp only [bindTargets] at hb
    split at hb
    · rename_i b1 hb1
      split at hb
      · rename_i b2 hb2
        simp at hb; subst hb
        simp only [relTargets] at hAt ⊢
        obtain ⟨s1, G1, r1, hpc1, hst1, hrel1, hout1, htl1, hhd1, hcp1, hhc1⟩ :=
          sim_target X t v b1 hb1 (hok t (by simp)) (hpvs v (by simp)) G base s (vs ++ st) σ cell rs hAt.left hpc (by simpa using hst) hrel
        obtain ⟨s2, G2, r2, hpc2, hst2, hrel2, hout2, htl2, hhd2, hcp2, hhc2⟩ :=
          sim_targets X ts vs b2 hb2 (fun t' ht' => hok t' (by simp [ht'])) (fun x hx => hpvs x (by simp [hx])) G1 (base + (relTarget t).length) s1 st _ cell rs
            hAt.right hpc1 hst1 hrel1
        refine ⟨s2, G2, r1.trans r2, by simp [hpc2, Nat.add_assoc], hst2, ?_, hout2.trans hout1, htl2.trans htl1,
          hhd2.trans hhd1, hcp1.trans hhc1 hcp2, hhc1.trans hcp1.1 hhc2⟩
        simpa [heapSetAll_append] using hrel2
      · simp at hb
    · simp at hb
end

/-! ## `break` / `continue`: what a statement that leaves the loop body early achieves -/

def nWith : List ScopeKind → Nat
  | [] => 0
  | .with_ :: r => nWith r + 1
  | .capture :: r => nWith r

def nCap : List ScopeKind → Nat
  | [] => 0
  | .with_ :: r => nCap r
  | .capture :: r => nCap r + 1

/-- the VM jumped to `tgt` after leaving the scopes `sc` (opened inside the loop body): their
frames and capture buffers are gone, the operand stack is as before -/
def Unw (X : SC) (σ' : State) (s : VmState) (tgt : Nat) (sc : List ScopeKind) : Prop :=
  ∃ s', Reach X.K.ctx X.K.C s s' ∧ s'.pc = tgt ∧ s'.stack = s.stack ∧
    s'.frames.tail = (s.frames.drop (nWith sc)).tail ∧
    s'.frames.head?.map Frame.sig = (s.frames.drop (nWith sc)).head?.map Frame.sig ∧
    s'.outs = (σ'.out :: s.outs.tail).drop (nCap sc) ∧ s.closures.length ≤ s'.closures.length ∧
    (∀ c, c < s.closures.length → (∀ f ∈ s.frames.take (nWith sc + 1), f.closure ≠ some c) →
      s'.closures[c]? = s.closures[c]?)

def jumpTarget : Flow → LoopCtx → Nat
  | .brk, l => l.exit
  | _, l => l.iter

/-- the postcondition of a statement: it ends normally behind its code (`Done`), or it jumps to the
`Iterate` / behind the innermost loop -/
def Post (X : SC) (loc : List Nat) (σ' : State) (fl : Flow) (s : VmState) (endPc : Nat)
    (lc : Option LoopCtx) : Prop :=
  if fl = .normal then Done X loc σ' s endPc
  else ∃ l, lc = some l ∧ Unw X σ' s (jumpTarget fl l) l.scopes

theorem drop_frames_eq {fs1 fs : List Frame} (ht : fs1.tail = fs.tail)
    (hh : fs1.head?.map Frame.sig = fs.head?.map Frame.sig) (k : Nat) :
    (fs1.drop k).tail = (fs.drop k).tail ∧ (fs1.drop k).head?.map Frame.sig = (fs.drop k).head?.map Frame.sig := by
  cases k with
  | zero => exact ⟨ht, hh⟩
  | succ k =>
    have e1 : fs1.drop (k + 1) = fs1.tail.drop k := by cases fs1 <;> simp
    have e2 : fs.drop (k + 1) = fs.tail.drop k := by cases fs <;> simp
    rw [e1, e2, ht]; exact ⟨rfl, rfl⟩

theorem topClosure_ne_of_take {fs : List Frame} {c k : Nat} (h : ∀ f ∈ fs.take (k + 1), f.closure ≠ some c) :
    topClosure fs ≠ some c := by
  cases fs with
  | nil => simp [topClosure]
  | cons f rest => simp only [topClosure]; exact h f (by simp)

/-- prefix a run that keeps operand stack, frame structure and the outer capture buffers -/
theorem Unw.prefix {X σ' s s1 tgt sc} (r : Reach X.K.ctx X.K.C s s1) (hst : s1.stack = s.stack)
    (ht : s1.frames.tail = s.frames.tail) (hh : s1.frames.head?.map Frame.sig = s.frames.head?.map Frame.sig)
    (ho : s1.outs.tail = s.outs.tail) (hcp : ClPres s s1) (hhc : HeadClos s s1)
    (h : Unw X σ' s1 tgt sc) : Unw X σ' s tgt sc := by
  obtain ⟨s', r', hpc, hst', htl, hhd, hout, hlen, hun⟩ := h
  have := drop_frames_eq ht hh (nWith sc)
  refine ⟨s', r.trans r', hpc, hst'.trans hst, htl.trans this.1, hhd.trans this.2, by rw [hout, ho],
    Nat.le_trans hcp.1 hlen, fun c hc hu => ?_⟩
  have hc1 : c < s1.closures.length := Nat.lt_of_lt_of_le hc hcp.1
  have hu1 : ∀ f ∈ s1.frames.take (nWith sc + 1), f.closure ≠ some c := by
    intro f hf
    cases hf1 : s1.frames with
    | nil => rw [hf1] at hf; simp at hf
    | cons g rest =>
      rw [hf1] at hf
      simp only [List.take_succ_cons] at hf
      rcases List.mem_cons.1 hf with rfl | hmem
      · -- the head frame: its closure is the old one or a new one
        have htop : topClosure s1.frames = f.closure := by rw [hf1]; rfl
        rcases hhc with hh' | ⟨_, c', hc', hle⟩
        · rw [← htop, hh']; exact topClosure_ne_of_take hu
        · rw [← htop, hc']; intro e; cases e; omega
      · have hrest : rest = s.frames.tail := by rw [← ht, hf1]; rfl
        refine hu f ?_
        cases hs : s.frames with
        | nil => rw [hs] at hrest; rw [hrest] at hmem; simp at hmem
        | cons g0 rest0 =>
          rw [hs] at hrest; simp at hrest; subst hrest
          simp only [List.take_succ_cons]
          exact List.mem_cons_of_mem _ hmem
  rw [hun c hc1 hu1, hcp.2.2 c hc (topClosure_ne_of_take hu)]

/-- the simulation statement for one statement `st` at fuel `n` -/
def StmtGoal (n : Nat) (X : SC) (st : Stmt) : Prop :=
  ∀ G σ loc σ' fl, exec n X.K.ctx (loc ++ X.env) σ st = .ok (σ', fl) →
    ∀ A lc, wfStmt X.K.M X.P A lc.isSome st = true → ABound σ.heap loc A → loc ≠ [] →
    ∀ base a s, At X.K.C base (relStmt st base a lc).1.1 → (relStmt st base a lc).1.2.oof = false → s.pc = base →
      Rel X.K G X.P X.clo σ loc X.env s → (∀ l, lc = some l → nCap l.scopes < s.outs.length) →
      Post X loc σ' fl s (base + (relStmt st base a lc).1.1.length) lc

def SimStmt (n : Nat) : Prop := ∀ (X : SC) st, StmtGoal n X st

def SimBlock (n : Nat) : Prop :=
  ∀ (X : SC) ss G σ loc σ' fl, execBlock n X.K.ctx (loc ++ X.env) σ ss = .ok (σ', fl) →
    ∀ A lc, wfBlock X.K.M X.P A lc.isSome ss = true → ABound σ.heap loc A → loc ≠ [] →
    ∀ base a s, At X.K.C base (relBlock ss base a lc).1.1 → (relBlock ss base a lc).1.2.oof = false → s.pc = base →
      Rel X.K G X.P X.clo σ loc X.env s → (∀ l, lc = some l → nCap l.scopes < s.outs.length) →
      Post X loc σ' fl s (base + (relBlock ss base a lc).1.1.length) lc

def SimBinds (n : Nat) : Prop :=
  ∀ (X : SC) binds G heap loc heap' out, bindWith n X.K.ctx heap (loc ++ X.env) binds = .ok heap' →
    ∀ A, wfBinds X.K.M X.P A binds = true → ABound heap loc A → loc ≠ [] →
    ∀ base a s, At X.K.C base (relBinds binds base a).1 → (relBinds binds base a).2.oof = false → s.pc = base →
      Rel X.K G X.P X.clo { heap := heap, out := out } loc X.env s →
      Done X loc { heap := heap', out := out } s (base + (relBinds binds base a).1.length)

theorem Done.refl {X : SC} {G loc σ s} (h : Rel X.K G X.P X.clo σ loc X.env s) : Done X loc σ s s.pc :=
  ⟨s, G, Reach.refl _, rfl, rfl, h, rfl, rfl, rfl, ClPres.refl _, HeadClos.refl _⟩

/-- the expression context of a statement -/
def SC.ectx (X : SC) (G : Ghost) (heap : Heap) (loc : List Nat) (A : List String) : ECtx :=
  { K := X.K, G := G, P := X.P, clo := X.clo, heap := heap, loc := loc, env := X.env, A := A }

theorem Rel.eok {X : SC} {G σ loc s A} (h : Rel X.K G X.P X.clo σ loc X.env s) (hA : ABound σ.heap loc A)
    (hne : loc ≠ []) : (X.ectx G σ.heap loc A).ok s := ⟨h.1, hA, hne⟩

theorem ABound.mono {heap heap' : Heap} {loc : List Nat} {A : List String} (h : ABound heap loc A) (hle : HeapLe heap heap') :
    ABound heap' loc A := by
  intro x hx
  obtain ⟨id, hid, cell, hc, hb⟩ := h x hx
  obtain ⟨cell', hc', hb'⟩ := hle id x ⟨cell, hc, hb⟩
  exact ⟨id, hid, cell', hc', hb'⟩

theorem ABound.append {heap : Heap} {loc : List Nat} {A B : List String} (h1 : ABound heap loc A) (h2 : ABound heap loc B) :
    ABound heap loc (A ++ B) := by
  intro x hx
  rcases List.mem_append.1 hx with h | h
  · exact h1 x h
  · exact h2 x h

theorem ABound.push {heap : Heap} {loc : List Nat} {A : List String} (h : ABound heap loc A) (cell : Scope)
    (hb : ∀ id ∈ loc, id < heap.length) : ABound (heap ++ [cell]) (heap.length :: loc) A := by
  intro x hx
  obtain ⟨id, hid, c, hc, hx'⟩ := h x hx
  exact ⟨id, by simp [hid], c, by rw [List.getElem?_append_left (hb id hid)]; exact hc, hx'⟩

/-- evaluate `e`, then assign to the target: `set t = e` and one `with` binding -/
theorem sim_assign {n} (ihE : SimExpr n) {X : SC} {G cell rs σ e v t bs A}
    (hv : evalExpr n X.K.ctx σ.heap ((cell :: rs) ++ X.env) e = .ok v)
    (hb : bindTarget t v = .ok bs) (hse : wfExpr X.K.M X.P A e = true) (hto : targetOk X.K.M t = true)
    (hA : ABound σ.heap (cell :: rs) A) {base a s}
    (hAt : At X.K.C base ((relExpr e base a).1 ++ relTarget t)) (hoof : (relExpr e base a).2.oof = false)
    (hpc : s.pc = base) (hrel : Rel X.K G X.P X.clo σ (cell :: rs) X.env s) :
    Done X (cell :: rs) { σ with heap := heapSetAll σ.heap cell bs } s
      (base + (relExpr e base a).1.length + (relTarget t).length) := by
  obtain ⟨c1, x1, r1⟩ := ihE (X.ectx G σ.heap (cell :: rs) A) e v hv hse base a s hAt.left hoof hpc (hrel.eok hA (by simp))
  have hrel1 : Rel X.K G X.P X.clo σ (cell :: rs) X.env
      { s with pc := base + (relExpr e base a).1.length, stack := v :: s.stack, closures := c1 } :=
    hrel.ext _ rfl x1 rfl rfl
  obtain ⟨s2, G2, r2, hpc2, hst2, hrel2, hout2, htl2, hhd2, hcp2, hhc2⟩ :=
    sim_target X t v bs hb hto (evalExpr_plain hrel.1.plain n e v hse hv) G (base + (relExpr e base a).1.length)
      { s with pc := base + (relExpr e base a).1.length, stack := v :: s.stack, closures := c1 } s.stack σ cell rs
      hAt.right rfl rfl hrel1
  have hcp1 : ClPres s { s with pc := base + (relExpr e base a).1.length, stack := v :: s.stack, closures := c1 } :=
    ClPres.of_ext x1
  have hhc1 : HeadClos s { s with pc := base + (relExpr e base a).1.length, stack := v :: s.stack, closures := c1 } :=
    HeadClos.of_eq rfl
  exact ⟨s2, G2, r1.trans r2, hpc2, hst2, hrel2, by rw [hout2], htl2, hhd2, hcp1.trans hhc1 hcp2, hhc1.trans hcp1.1 hhc2⟩

theorem relBinds_oof_mono : ∀ (binds : List (Target × Expr)) (b : Nat) (a : Aux), a.oof = true →
    (relBinds binds b a).2.oof = true
  | [], b, a, h => by simp [relBinds, h]
  | (t, e) :: rest, b, a, h => by
    simp only [relBinds]; exact relBinds_oof_mono rest _ _ (relExpr_oof_mono e b a h)

theorem relFilters_oof_mono : ∀ (fs : List FilterApp) (b : Nat) (a : Aux), a.oof = true →
    (relFilters fs b a).2.oof = true
  | [], b, a, h => by simp [relFilters, h]
  | (name, args) :: rest, b, a, h => by
    simp only [relFilters]
    exact relFilters_oof_mono rest _ _ (by simp [relArgs_oof_mono args b a h])

theorem relForIter_oof_mono (t : Target) (iter : Expr) (flt : Option Expr) (b : Nat) (a : Aux)
    (h : a.oof = true) : (relForIter t iter flt b a).2.oof = true := by
  cases flt with
  | none => exact relExpr_oof_mono iter b a h
  | some c => simp only [relForIter]; exact relExpr_oof_mono c _ _ (relExpr_oof_mono iter _ a h)

theorem relPrologue_oof_mono : ∀ (pds : List (String × Option Expr)) (b : Nat) (a : Aux), a.oof = true →
    (relPrologue pds b a).2.oof = true
  | [], b, a, h => by simp [relPrologue, h]
  | (p, none) :: rest, b, a, h => by simp only [relPrologue]; exact relPrologue_oof_mono rest _ a h
  | (p, some d) :: rest, b, a, h => by
    simp only [relPrologue]; exact relPrologue_oof_mono rest _ _ (relExpr_oof_mono d _ a h)

mutual
theorem relStmt_oof_mono : ∀ (st : Stmt) (b : Nat) (a : Aux) (lc : Option LoopCtx), a.oof = true →
    (relStmt st b a lc).1.2.oof = true
  | .text t, b, a, lc, h => by simp [relStmt, h]
  | .emit e, b, a, lc, h => by simp [relStmt, relExpr_oof_mono e b a h]
  | .set t e, b, a, lc, h => by simp [relStmt, relExpr_oof_mono e b a h]
  | .ifS c t [], b, a, lc, h => by
    simp only [relStmt]; exact relBlock_oof_mono t _ _ _ (relExpr_oof_mono c b a h)
  | .ifS c t (f :: fs), b, a, lc, h => by
    simp only [relStmt]
    exact relBlock_oof_mono (f :: fs) _ _ _ (relBlock_oof_mono t _ _ _ (relExpr_oof_mono c b a h))
  | .withS binds body, b, a, lc, h => by
    simp only [relStmt]; exact relBlock_oof_mono body _ _ _ (relBinds_oof_mono binds _ a h)
  | .forS t iter flt body [], b, a, lc, h => by
    simp only [relStmt]; exact relBlock_oof_mono body _ _ _ (relForIter_oof_mono t iter flt b a h)
  | .forS t iter flt body (e0 :: es), b, a, lc, h => by
    simp only [relStmt]
    exact relBlock_oof_mono (e0 :: es) _ _ _ (relBlock_oof_mono body _ _ _ (relForIter_oof_mono t iter flt b a h))
  | .setBlock x fs body, b, a, lc, h => by
    simp only [relStmt]; exact relFilters_oof_mono fs _ _ (relBlock_oof_mono body _ a _ h)
  | .filterBlock fs body, b, a, lc, h => by
    simp only [relStmt]; exact relFilters_oof_mono fs _ _ (relBlock_oof_mono body _ a _ h)
  | .macroS name params defaults body uc, b, a, lc, h => by
    simp only [relStmt]; exact relBlock_oof_mono body _ _ _ (relPrologue_oof_mono _ _ a h)
  | .callBlock f args params defaults body uc, b, a, lc, h => by
    cases f with
    | var x =>
      simp only [relStmt]
      exact relBlock_oof_mono body _ _ _ (relPrologue_oof_mono _ _ _
        (relKwArgs_oof_mono args _ _ (relPosArgs_oof_mono args b a h)))
    | _ => simp [relStmt]
  | .breakS, b, a, none, h => by simp [relStmt]
  | .breakS, b, a, some l, h => by simp [relStmt, h]
  | .continueS, b, a, none, h => by simp [relStmt]
  | .continueS, b, a, some l, h => by simp [relStmt, h]
theorem relBlock_oof_mono : ∀ (ss : List Stmt) (b : Nat) (a : Aux) (lc : Option LoopCtx), a.oof = true →
    (relBlock ss b a lc).1.2.oof = true
  | [], b, a, lc, h => by simp [relBlock, h]
  | s :: rest, b, a, lc, h => by
    simp only [relBlock]; exact relBlock_oof_mono rest _ _ _ (relStmt_oof_mono s b a lc h)
end

theorem oof_false_of_relBinds {bs b a} (h : (relBinds bs b a).2.oof = false) : a.oof = false := by
  cases ha : a.oof with
  | false => rfl
  | true => rw [relBinds_oof_mono bs b a ha] at h; cases h

theorem oof_false_of_relFilters {fs b a} (h : (relFilters fs b a).2.oof = false) : a.oof = false := by
  cases ha : a.oof with
  | false => rfl
  | true => rw [relFilters_oof_mono fs b a ha] at h; cases h

theorem oof_false_of_relBlock {ss b a lc} (h : (relBlock ss b a lc).1.2.oof = false) : a.oof = false := by
  cases ha : a.oof with
  | false => rfl
  | true => rw [relBlock_oof_mono ss b a lc ha] at h; cases h

theorem Rel.bound0 {K G P clo σ T locR env s} (h : Rel K G P clo σ (T :: locR) env s) : T < σ.heap.length :=
  h.1.bound T (by simp)

theorem ABound.of_cell {heap : Heap} {T : Nat} {locR : List Nat} {B : List String}
    (h : ∀ x, x ∈ B → BoundCell heap T x) : ABound heap (T :: locR) B := by
  intro x hx
  obtain ⟨c, hc, hb⟩ := h x hx
  exact ⟨T, by simp, c, hc, hb⟩

theorem sim_binds_step {n} (ihE : SimExpr n) (ihW : SimBinds n) : SimBinds (n + 1) := by
  intro X binds G heap loc heap' out hev A hs hA hne base a s hAt hoof hpc hrel
  cases binds with
  | nil =>
    simp [bindWith] at hev; subst hev
    simp only [relBinds, List.length_nil, Nat.add_zero]
    rw [← hpc]; exact Done.refl hrel
  | cons b rest =>
    obtain ⟨t, e⟩ := b
    have hs' : (targetOk X.K.M t = true ∧ wfExpr X.K.M X.P A e = true) ∧ wfBinds X.K.M X.P (A ++ targetNames t) rest = true := by
      simpa [wfBinds] using hs
    cases loc with
    | nil => exact absurd rfl hne
    | cons cell rs =>
      simp only [bindWith, List.cons_append, topCell] at hev
      split at hev
      · simp at hev
      · rename_i v hv
        split at hev
        · simp at hev
        · rename_i bs hbs
          simp only [relBinds] at hAt hoof ⊢
          have ho1 := oof_false_of_relBinds hoof
          obtain ⟨s1, G1, r1, hpc1, hst1, hrel1, hout1, htl1, hhd1, hcp1, hhc1⟩ :=
            sim_assign ihE (X := X) (G := G) (σ := { heap := heap, out := out }) (A := A) hv hbs hs'.1.2 hs'.1.1 hA hAt.left ho1 hpc hrel
          have hT : cell < heap.length := hrel.bound0
          have hA1 : ABound (heapSetAll heap cell bs) (cell :: rs) (A ++ targetNames t) :=
            (hA.mono (HeapLe.heapSetAll _ _ _)).append (ABound.of_cell (fun x hx =>
              heapSetAll_bound bs heap cell hT x (by rw [bindTarget_names t v bs hbs]; exact hx)))
          obtain ⟨s2, G2, r2, hpc2, hst2, hrel2, hout2, htl2, hhd2, hcp2, hhc2⟩ :=
            ihW X rest G1 _ (cell :: rs) heap' out hev (A ++ targetNames t) hs'.2 hA1 (by simp)
              (base + (relExpr e base a).1.length + (relTarget t).length) (relExpr e base a).2 s1
              (At.cast hAt.right (by simp [Nat.add_assoc])) hoof hpc1 hrel1
          exact ⟨s2, G2, r1.trans r2,
            by rw [hpc2]; simp only [List.length_append]; omega, hst2.trans hst1, hrel2,
            hout2.trans hout1, htl2.trans htl1, hhd2.trans hhd1, hcp1.trans hhc1 hcp2, hhc1.trans hcp1.1 hhc2⟩

theorem outs_length_of_tail {K G1 G P clo clo1 P1 env env1} {s1 s : VmState} {σ1 σ : State} {st1 st : List Nat}
    (h1 : Rel K G1 P1 clo1 σ1 st1 env1 s1) (h : Rel K G P clo σ st env s)
    (ht : s1.outs.tail = s.outs.tail) : s1.outs.length = s.outs.length := by
  obtain ⟨r1, e1⟩ := h1.2
  obtain ⟨r, e⟩ := h.2
  rw [e1, e] at ht
  simp at ht
  rw [e1, e, ht]; rfl

theorem sim_block_step {n} (ihS : SimStmt n) (ihB : SimBlock n) : SimBlock (n + 1) := by
  intro X ss G σ loc σ' fl hev A lc hs hA hne base a s hAt hoof hpc hrel hcap
  cases ss with
  | nil =>
    simp [execBlock] at hev
    obtain ⟨rfl, rfl⟩ := hev
    simp only [Post, if_true, relBlock, List.length_nil, Nat.add_zero]
    rw [← hpc]; exact Done.refl hrel
  | cons st rest =>
    have hs' : wfStmt X.K.M X.P A lc.isSome st = true ∧ wfBlock X.K.M X.P (A ++ assignedBy st) lc.isSome rest = true := by
      simpa [wfBlock] using hs
    simp only [relBlock] at hAt hoof ⊢
    have ho1 := oof_false_of_relBlock hoof
    simp only [execBlock] at hev
    split at hev
    · simp at hev
    · rename_i σ1 h1
      have p1 := ihS X st G σ loc σ1 .normal h1 A lc hs'.1 hA hne base a s hAt.left ho1 hpc hrel hcap
      simp only [Post, if_true] at p1
      obtain ⟨s1, G1, r1, hpc1, hst1, hrel1, hout1, htl1, hhd1, hcp1, hhc1⟩ := p1
      have hlen1 := outs_length_of_tail hrel1 hrel hout1
      have hA1 : ABound σ1.heap loc (A ++ assignedBy st) := by
        cases loc with
        | nil => exact absurd rfl hne
        | cons T r =>
          exact (hA.mono (exec_keys h1)).append (ABound.of_cell (exec_assigned_bound h1 hrel.bound0))
      have p2 := ihB X rest G1 σ1 loc σ' fl hev (A ++ assignedBy st) lc hs'.2 hA1 hne (base + (relStmt st base a lc).1.1.length)
          (relStmt st base a lc).1.2 s1 hAt.right hoof hpc1 hrel1 (by intro l hl; rw [hlen1]; exact hcap l hl)
      by_cases hfl : fl = .normal
      · subst hfl
        simp only [Post, if_true] at p2 ⊢
        obtain ⟨s2, G2, r2, hpc2, hst2, hrel2, hout2, htl2, hhd2, hcp2, hhc2⟩ := p2
        exact ⟨s2, G2, r1.trans r2, by rw [hpc2]; simp [Nat.add_assoc], hst2.trans hst1, hrel2,
          hout2.trans hout1, htl2.trans htl1, hhd2.trans hhd1, hcp1.trans hhc1 hcp2, hhc1.trans hcp1.1 hhc2⟩
      · simp only [Post, hfl, if_false] at p2 ⊢
        obtain ⟨l, hl, hu⟩ := p2
        exact ⟨l, hl, hu.prefix r1 hst1 htl1 hhd1 hout1 hcp1 hhc1⟩
    · rename_i σ1 fl1 hne' h1
      simp at hev
      obtain ⟨rfl, rfl⟩ := hev
      have p1 := ihS X st G σ loc σ1 fl1 h1 A lc hs'.1 hA hne base a s hAt.left ho1 hpc hrel hcap
      have hfl : ¬ fl1 = .normal := fun h => hne' (by rw [h])
      simp only [Post, hfl, if_false] at p1 ⊢
      exact p1

theorem Rel.appendOut {K G P clo σ loc env s} (h : Rel K G P clo σ loc env s) (t : String) (s' : VmState)
    (hf : s'.frames = s.frames) (hc : s'.closures = s.closures) (ho : s'.outs = MJ.Vm.appendOut t s.outs) :
    Rel K G P clo { σ with out := σ.out ++ t } loc env s' ∧ s'.outs.tail = s.outs.tail := by
  obtain ⟨rest, hr⟩ := h.2
  refine ⟨⟨h.1.same s' hf hc, ⟨rest, by rw [ho, hr]; rfl⟩⟩, ?_⟩
  rw [ho, hr]; rfl

/-- a chain of block filters applied to the value on top of the operand stack -/
def SimFilters (n : Nat) : Prop :=
  ∀ (E : ECtx) fs v v', applyFilters n E.K.ctx E.heap (E.loc ++ E.env) v fs = .ok v' → wfFilters E.K.M E.P E.A fs = true →
    ∀ base a (s : VmState) (st : List Val), At E.K.C base (relFilters fs base a).1 → (relFilters fs base a).2.oof = false →
      s.pc = base → s.stack = v :: st → E.ok s →
      Pushed E s (base + (relFilters fs base a).1.length) (v' :: st)

theorem sim_filters_step {n} (ihA : SimArgs n) (ihF : SimFilters n) : SimFilters (n + 1) := by
  intro E fs v v' hev hs base a s st hAt hoof hpc hst hok
  cases fs with
  | nil =>
    simp [applyFilters] at hev; subst hev
    simp only [relFilters, List.length_nil, Nat.add_zero]
    exact (Pushed.refl E s).cast hpc hst
  | cons f rest =>
    obtain ⟨name, args⟩ := f
    have hs' : wfArgs E.K.M E.P E.A args = true ∧ wfFilters E.K.M E.P E.A rest = true := by simpa [wfFilters] using hs
    simp only [applyFilters, bind, Except.bind] at hev
    split at hev
    · simp at hev
    · rename_i as has
      have hkeys := evalArgs_keys args as has hs'.1
      have hsplit := splitArgs_none as hkeys
      rw [hsplit.2, hsplit.1] at hev
      simp only at hev
      split at hev
      · simp at hev
      · rename_i v1 hv1
        simp only [relFilters] at hAt hoof ⊢
        have hoA : (relArgs args base a).2.oof = false := by
          have := oof_false_of_relFilters hoof; simpa using this
        have r1 := ihA E args as has hs'.1 base a s hAt.left.left hoA hpc hok
        have hlen : 1 + args.length = (v :: as.map (·.2)).length := by
          simp [evalArgs_length args as has]; omega
        have hpop : popN (1 + args.length) ((as.map (·.2)).reverse ++ v :: st) = some (v :: as.map (·.2), st) := by
          rw [hlen]
          have := popN_append (v :: as.map (·.2)) st
          simpa using this
        have r2 := r1.step (i := .applyFilter _ _ _) (p2 := base + (relArgs args base a).1.length + 1) (st2 := v1 :: st)
          hAt.left.right.head (fun cls1 => by simp [MJ.Vm.step, hst, hpop, hv1, Except.map])
        refine r2.trans (fun c2 x2 => ?_)
        have r3 := ihF E rest v1 v' hev hs'.2 (base + (relArgs args base a).1.length + 1)
          ((relArgs args base a).2.filterId name).2
          { s with pc := base + (relArgs args base a).1.length + 1, stack := v1 :: st, closures := c2 } st
          (At.cast hAt.right (by simp [Nat.add_assoc])) hoof rfl rfl (hok.next x2 _ _)
        refine r3.cast ?_ rfl
        simp only [List.length_append, List.length_cons, List.length_nil]
        omega

theorem MacroRel_of_data {K G cls hl} {w : Val} (h : ∀ n p d b u e, w ≠ Val.macro n p d b u e) : MacroRel K G cls hl w w := by
  cases w <;> first | trivial | exact absurd rfl (h _ _ _ _ _ _)

/-- equal data on both sides -/
theorem OptAgree_same {K G cls hl x} {e : Option Val} (h : ∀ w, e = Option.some w → ∀ n p d b u env, w ≠ Val.macro n p d b u env) :
    OptAgree K G cls hl x e e := by
  unfold OptAgree
  split
  · exact ⟨rfl, fun w u hw hu => by rw [hw] at hu; cases hu; exact MacroRel_of_data (h w hw)⟩
  · rfl

theorem loopVal_not_macro (info : LoopInfo) : ∀ n p d b u env, loopVal info ≠ .macro n p d b u env := by
  intro n p d b u env h; simp [loopVal] at h

/-- the cell of a fresh iteration against the loop frame after `Iterate` -/
theorem loop_cell0_agrees (K : Cfg) (G : Ghost) (cls : List Scope) (hb : Nat) (f : Frame) (l' : LoopSt) (info : LoopInfo)
    (hloc : f.locals = []) (hl : f.loop = some l') (hw : l'.withLoopVar = true) (hi : l'.info = info) :
    ∀ z, OptAgree K G cls hb z (assocGet z [("loop", loopVal info)]) (frameLocal f z) := by
  intro z
  have : frameLocal f z = assocGet z [("loop", loopVal info)] := by
    by_cases hz : z = "loop"
    · subst hz; simp [assocGet, frameLocal, hloc, hl, hw, hi]
    · have h1 : ¬ ("loop" = z) := fun h => hz h.symm
      simp [assocGet, frameLocal, hloc, hl, h1, hw, hz]
  rw [this]
  refine OptAgree_same (fun w hw' => ?_)
  by_cases hz : "loop" = z
  · simp [assocGet, hz] at hw'; subst hw'; exact loopVal_not_macro info
  · simp [assocGet, hz] at hw'

theorem heapSetAll_last (h : Heap) (c : Scope) (bs : List (String × Val)) :
    heapSetAll (h ++ [c]) h.length bs = h ++ [setAll c bs] := by
  induction bs generalizing c with
  | nil => rfl
  | cons p rest ih =>
    obtain ⟨x, v⟩ := p
    simp only [heapSetAll, setAll]
    have : heapSet (h ++ [c]) h.length x v = h ++ [assocSet x v c] := by
      simp [heapSet]
    rw [this, ih]

theorem Rel.push {K G P clo σ loc env s} (h : Rel K G P clo σ loc env s) (hne : loc ≠ []) (cell : Scope) (f : Frame)
    (hcl : f.closure = none) (hcc : f.closureCtx = none)
    (hag : ∀ x, OptAgree K G s.closures (σ.heap.length + 1) x (assocGet x cell) (frameLocal f x))
    (hpl : ∀ x v, x ∉ K.M → assocGet x cell = some v → plain v = true) (s' : VmState)
    (hf : s'.frames = f :: s.frames) (hc : s'.closures = s.closures) (ho : s'.outs = s.outs) :
    Rel K G P clo { σ with heap := σ.heap ++ [cell] } (σ.heap.length :: loc) env s' :=
  ⟨h.1.push hne cell f hcl hcc hag hpl s' hf hc, by rw [ho]; exact h.2⟩

/-- the bound names of `setAll` -/
theorem setAll_bound : ∀ (bs : List (String × Val)) (c : Scope) (x : String),
    ((assocGet x c).isSome = true ∨ x ∈ bs.map (·.1)) → (assocGet x (setAll c bs)).isSome = true
  | [], c, x, h => by
    rcases h with h | h
    · exact h
    · simp at h
  | (y, v) :: rest, c, x, h => by
    simp only [setAll]
    refine setAll_bound rest _ x ?_
    rcases h with h | h
    · exact Or.inl (isSome_assocSet y x v c h)
    · simp only [List.map_cons, List.mem_cons] at h
      rcases h with rfl | h
      · exact Or.inl (by simp [assocGet_assocSet_same])
      · exact Or.inr h

/-- the iterations of a `for` loop: the VM is at the `Iterate` instruction; `σ` / `G` describe the
scopes *outside* the loop (the frames below the loop frame) -/
def SimIters (n : Nat) : Prop :=
  ∀ (X : SC) G σ loc σ' t body xs len idx prev,
    execIters n X.K.ctx (loc ++ X.env) σ t body (xs.zip (loopInfosFrom len idx prev xs)) = .ok σ' →
    ∀ A, wfBlock X.K.M X.P (A ++ targetNames t ++ ["loop"]) true body = true → targetOk X.K.M t = true →
    ABound σ.heap loc A → loc ≠ [] → (∀ x, x ∈ xs → plain x = true) → (∀ v, prev = some v → plain v = true) →
    ∀ iterPc endPc a (s : VmState) (l : LoopSt) (f0 : Frame) (fs : List Frame),
      X.K.C[iterPc]? = some (.iterate endPc) → At X.K.C (iterPc + 1) (relTarget t) →
      At X.K.C (iterPc + 1 + (relTarget t).length)
        (relBlock body (iterPc + 1 + (relTarget t).length) a (some ⟨iterPc, endPc, []⟩)).1.1 →
      (relBlock body (iterPc + 1 + (relTarget t).length) a (some ⟨iterPc, endPc, []⟩)).1.2.oof = false →
      X.K.C[iterPc + 1 + (relTarget t).length +
        (relBlock body (iterPc + 1 + (relTarget t).length) a (some ⟨iterPc, endPc, []⟩)).1.1.length]? = some (.jump iterPc) →
      s.pc = iterPc → s.frames = f0 :: fs → f0.loop = some l → f0.closureCtx = none →
      l.withLoopVar = true → l.len = len → l.calls = idx → l.cur = prev → l.rest = xs →
      Rel X.K G X.P X.clo σ loc X.env { s with frames := fs } →
      ∃ s', Reach X.K.ctx X.K.C s s' ∧ s'.pc = endPc ∧ s'.stack = s.stack ∧ s'.frames.tail = fs ∧
        (∃ rest, s'.outs = σ'.out :: rest) ∧ s'.outs.tail = s.outs.tail ∧
        (∃ lf f', s'.frames.head? = some f' ∧ f'.loop = some lf ∧
          lf.iterated = (l.iterated || !xs.isEmpty)) ∧ Ext s.closures s'.closures

theorem sim_iters_step {n} (ihB : SimBlock n) (ihI : SimIters n) : SimIters (n + 1) := by
  intro X G σ loc σ' t body xs len idx prev hev A hsb hto hA hne hpx hpp iterPc endPc a s l f0 fs hIt hTg hAt hoof hJ
    hpc hfr hl0 hcc0 hwl hlen hcalls hcur hrest hrel
  cases xs with
  | nil =>
    simp [loopInfosFrom, execIters] at hev; subst hev
    refine ⟨{ s with pc := endPc }, Reach.one (i := .iterate endPc) (by rw [hpc]; exact hIt) ?_, rfl, rfl,
      by simp [hfr], hrel.2, rfl, ⟨l, f0, by simp [hfr], hl0, by simp⟩, Ext.refl _⟩
    simp [MJ.Vm.step, hfr, nextLoopItem, hl0, hrest]
  | cons y ys =>
    simp only [loopInfosFrom, List.zip_cons_cons, execIters] at hev
    split at hev
    · simp at hev
    · rename_i bs hbs
      split at hev
      · simp at hev
      · rename_i σ2 fl hbody
        let l' : LoopSt := { l with calls := l.calls + 1, iterated := true, prev := l.cur, cur := some y, rest := ys }
        let info : LoopInfo := { index0 := idx, length := len, prev := prev, next := ys.head? }
        let f1 : Frame := { f0 with locals := [], loop := some l', closure := none }
        -- Iterate: the item is pushed, the frame's locals are cleared, its closure is dropped
        let s1 : VmState := { s with pc := iterPc + 1, stack := y :: s.stack, frames := f1 :: fs }
        have hreach1 : Reach X.K.ctx X.K.C s s1 :=
          Reach.one (i := .iterate endPc) (by rw [hpc]; exact hIt)
            (by simp [MJ.Vm.step, hfr, nextLoopItem, hl0, hrest, hpc, s1, l', f1])
        have hinfo : l'.info = info := by simp [LoopSt.info, l', info, hcalls, hlen, hcur]
        have hrel1 : Rel X.K G X.P X.clo { σ with heap := σ.heap ++ [[("loop", loopVal info)]] } (σ.heap.length :: loc) X.env s1 :=
          hrel.push hne _ f1 rfl hcc0
            (loop_cell0_agrees X.K G _ _ f1 l' info rfl rfl hwl hinfo)
            (by intro z v _ hz
                simp only [assocGet] at hz
                split at hz
                · cases hz
                  exact loopVal_plain info hpp (fun v hv => hpx v (List.mem_cons_of_mem _ (List.mem_of_mem_head? hv)))
                · cases hz) s1 rfl rfl rfl
        -- the target(s)
        obtain ⟨s2, G2, r2, hpc2, hst2, hrel2, hout2, htl2, hhd2, hcp2, hhc2⟩ :=
          sim_target X t y bs hbs hto (hpx y (by simp)) G (iterPc + 1) s1 s.stack _ σ.heap.length loc hTg rfl rfl hrel1
        have hheap2 : heapSetAll (σ.heap ++ [[("loop", loopVal info)]]) σ.heap.length bs =
            σ.heap ++ [setAll [("loop", loopVal info)] bs] := heapSetAll_last _ _ _
        simp only [hheap2] at hrel2
        -- the names of the body's scope are bound
        have hA2 : ABound (σ.heap ++ [setAll [("loop", loopVal info)] bs]) (σ.heap.length :: loc) (A ++ targetNames t ++ ["loop"]) := by
          refine ((hA.push _ (fun id hid => hrel.1.bound id (by simp [hid]))).append ?_).append ?_
          · refine ABound.of_cell (fun x hx => ⟨setAll [("loop", loopVal info)] bs, by simp, setAll_bound bs _ x (Or.inr ?_)⟩)
            rw [bindTarget_names t y bs hbs]; exact hx
          · refine ABound.of_cell (fun x hx => ⟨setAll [("loop", loopVal info)] bs, by simp, setAll_bound bs _ x (Or.inl ?_)⟩)
            simp at hx; subst hx; simp [assocGet]
        -- the body
        have hcap2 : ∀ l0, (some ⟨iterPc, endPc, []⟩ : Option LoopCtx) = some l0 → nCap l0.scopes < s2.outs.length := by
          intro l0 hl0'
          cases hl0'
          obtain ⟨r, hr⟩ := hrel2.2
          simp [nCap, hr]
        have pb := ihB X body G2 _ (σ.heap.length :: loc) σ2 fl hbody (A ++ targetNames t ++ ["loop"])
          (some ⟨iterPc, endPc, []⟩) hsb hA2 (by simp) (iterPc + 1 + (relTarget t).length) a s2 hAt hoof hpc2 hrel2 hcap2
        have htake : σ2.heap.take σ.heap.length = σ.heap := take_of_frame _ _ _ _ (execBlock_frame hbody)
        -- the state of the VM after the body: at the `Iterate` again, or behind the loop
        have hafter : ∃ s3, Reach X.K.ctx X.K.C s2 s3 ∧ s3.pc = (if fl = .brk then endPc else iterPc) ∧ s3.stack = s2.stack ∧
            s3.frames.tail = s2.frames.tail ∧ s3.frames.head?.map Frame.sig = s2.frames.head?.map Frame.sig ∧
            s3.outs = σ2.out :: s2.outs.tail ∧ s2.closures.length ≤ s3.closures.length ∧
            (∀ c, c < s2.closures.length → topClosure s2.frames ≠ some c → s3.closures[c]? = s2.closures[c]?) := by
          by_cases hfl : fl = .normal
          · subst hfl
            simp only [Post, if_true] at pb
            obtain ⟨s3, G3, r3, hpc3, hst3, hrel3, hout3, htl3, hhd3, hcp3, hhc3⟩ := pb
            obtain ⟨r3out, hr3⟩ := hrel3.2
            refine ⟨{ s3 with pc := iterPc }, r3.trans (Reach.one' (i := .jump iterPc) _ hJ hpc3 (by simp [MJ.Vm.step])),
              by simp, hst3, htl3, hhd3, ?_, hcp3.1, hcp3.2.2⟩
            simp only [← hout3, hr3]; rfl
          · simp only [Post, hfl, if_false] at pb
            obtain ⟨l0, hl0', s3, r3, hpc3, hst3, htl3, hhd3, hout3, hlen3, hun3⟩ := pb
            cases hl0'
            refine ⟨s3, r3, ?_, hst3, by simpa [nWith] using htl3, by simpa [nWith] using hhd3, by simpa [nCap] using hout3,
              hlen3, fun c hc hne' => hun3 c hc ?_⟩
            · rw [hpc3]
              cases fl <;> simp [jumpTarget] at hfl ⊢
            · intro f hf
              simp only [nWith, Nat.zero_add] at hf
              cases hs2 : s2.frames with
              | nil => rw [hs2] at hf; simp at hf
              | cons g rest =>
                rw [hs2] at hf hne'
                simp at hf; subst hf
                simpa [topClosure] using hne'
        obtain ⟨s3, r3, hpc3, hst3, htl3, hhd3, hout3, hlen3, hun3⟩ := hafter
        -- the old closures are untouched: the loop frame owned none when the iteration started
        have hx12 : Ext s.closures s2.closures := by
          have : Ext s1.closures s2.closures := hcp2.ext_of_none (by simp [s1, topClosure, f1])
          simpa [s1] using this
        have htop2 : topClosure s2.frames = none ∨ ∃ c, topClosure s2.frames = some c ∧ s.closures.length ≤ c := by
          rcases hhc2 with h | ⟨_, c, hc, hle⟩
          · left; rw [h]; simp [s1, topClosure, f1]
          · right; exact ⟨c, hc, by simpa [s1] using hle⟩
        have hx13 : Ext s.closures s3.closures := by
          obtain ⟨e12, he12⟩ := hx12
          refine ⟨s3.closures.drop s.closures.length, ?_⟩
          apply List.ext_getElem?
          intro i
          by_cases hi : i < s.closures.length
          · rw [List.getElem?_append_left hi]
            have hi2 : i < s2.closures.length := by rw [he12]; simp; omega
            have hne2 : topClosure s2.frames ≠ some i := by
              rcases htop2 with h | ⟨c, hc, hle⟩
              · rw [h]; simp
              · rw [hc]; intro e; cases e; omega
            rw [hun3 i hi2 hne2, he12, List.getElem?_append_left hi]
          · have hle : s.closures.length ≤ i := Nat.le_of_not_lt hi
            rw [List.getElem?_append_right hle, List.getElem?_drop]
            congr 1; omega
        have hf3 : ∃ f3, s3.frames = f3 :: fs ∧ f3.loop = some l' ∧ f3.closureCtx = none := by
          have ht : s3.frames.tail = fs := by rw [htl3, htl2]; rfl
          have hh : s3.frames.head?.map Frame.sig = some (some l', none) := by
            rw [hhd3, hhd2]; simp [s1, f1, Frame.sig, hcc0]
          cases hf : s3.frames with
          | nil => rw [hf] at hh; simp at hh
          | cons f3 fs3 =>
            rw [hf] at ht hh
            simp [Frame.sig] at ht hh
            exact ⟨f3, by rw [ht], hh.1, hh.2⟩
        obtain ⟨f3, hf3, hl3, hcc3⟩ := hf3
        by_cases hbrk : fl = .brk
        · -- `break`: the walk ends here
          subst hbrk
          simp only [htake] at hev
          simp at hev
          subst hev
          simp only [if_true] at hpc3
          refine ⟨s3, hreach1.trans (r2.trans r3), hpc3, ?_, by rw [hf3]; rfl, ⟨_, hout3⟩, ?_,
            ⟨l', f3, by rw [hf3]; rfl, hl3, by simp [l']⟩, hx13⟩
          · rw [hst3, hst2]
          · rw [hout3]; simp only [List.tail_cons]; rw [hout2]
        · have hev' : execIters n X.K.ctx (loc ++ X.env) { heap := σ.heap, out := σ2.out } t body
              (ys.zip (loopInfosFrom len (idx + 1) (some y) ys)) = .ok σ' := by
            rw [← htake]
            cases fl <;> first | exact hev | exact absurd rfl hbrk
          simp only [hbrk, if_false] at hpc3
          have hrel3 : Rel X.K G X.P X.clo { heap := σ.heap, out := σ2.out } loc X.env { s3 with frames := fs } :=
            ⟨(hrel.1.ext { s3 with frames := fs } rfl _ hx13.choose_spec), ⟨_, hout3⟩⟩
          obtain ⟨s', r5, hpc5, hst5, htl5, hout5, houtt5, ⟨lf, f', hlf, hlf', hit⟩, hx5⟩ :=
            ihI X G { heap := σ.heap, out := σ2.out } loc σ' t body ys len (idx + 1) (some y) hev' A hsb hto hA hne
              (fun x hx => hpx x (by simp [hx])) (fun v hv => by cases hv; exact hpx _ (by simp))
              iterPc endPc a s3 l' f3 fs hIt hTg hAt hoof hJ hpc3 hf3 hl3 hcc3 hwl (by simp [l', hlen]) (by simp [l', hcalls])
              (by simp [l']) (by simp [l']) hrel3
          refine ⟨s', hreach1.trans (r2.trans (r3.trans r5)), hpc5, ?_, htl5, hout5, ?_, ⟨lf, f', hlf, hlf', ?_⟩, hx13.trans hx5⟩
          · rw [hst5, hst3, hst2]
          · rw [houtt5, hout3]; simp only [List.tail_cons]; rw [hout2]
          · simp [hit, l']

theorem i128Min_nonpos : i128Min ≤ 0 := by decide

theorem chkInt_succ (k : Nat) (h : (k : Int) + 1 ≤ i128Max) : chkInt ((k : Int) + 1) = .ok (.int ((k : Int) + 1)) := by
  have h1 : i128Min ≤ (k : Int) + 1 := by
    have : (0 : Int) ≤ (k : Int) := Int.natCast_nonneg _
    have := i128Min_nonpos
    omega
  simp [chkInt, h1, h]

theorem setAll_nil_bound (bs : List (String × Val)) (x : String) (hx : x ∈ bs.map (·.1)) :
    (assocGet x (setAll [] bs)).isSome = true := setAll_bound bs [] x (Or.inr hx)

/-- the filter pre-pass of `for … if cond`: the VM is at the `Iterate` of the first loop, the
operand stack holds the number of the items kept so far on top of these items -/
theorem filterItems_sub : ∀ (n : Nat) (ctx : Scope) (heap : Heap) (st : List Nat) (t : Target) (c : Expr) (xs kept : List Val),
    filterItems n ctx heap st t c xs = .ok kept → ∀ x, x ∈ kept → x ∈ xs
  | 0, _, _, _, _, _, _, _, h => by simp [filterItems] at h
  | _ + 1, _, _, _, _, _, [], kept, h => by simp [filterItems] at h; subst h; simp
  | n + 1, ctx, heap, st, t, c, y :: ys, kept, h => by
    simp only [filterItems] at h
    split at h
    · cases h
    · split at h
      · cases h
      · split at h
        · cases h
        · rename_i rest hrest
          cases h
          intro x hx
          have ih := filterItems_sub n ctx heap st t c ys rest hrest
          split at hx
          · rcases List.mem_cons.1 hx with rfl | hx
            · simp
            · exact List.mem_cons_of_mem _ (ih x hx)
          · exact List.mem_cons_of_mem _ (ih x hx)

theorem sim_filter_iters (X : SC) : ∀ (xs : List Val) (n : Nat), (∀ m, m < n → SimExpr m) →
    ∀ (G : Ghost) (σ : State) (loc : List Nat) (t : Target) (c : Expr) (kept : List Val) (A : List String),
    filterItems n X.K.ctx σ.heap (loc ++ X.env) t c xs = .ok kept → wfExpr X.K.M X.P (A ++ targetNames t) c = true →
    targetOk X.K.M t = true → ABound σ.heap loc A → loc ≠ [] → (∀ x, x ∈ xs → plain x = true) →
    ∀ (iterPc cb p : Nat) (a : Aux) (s : VmState) (l : LoopSt) (f0 : Frame) (fs : List Frame)
      (acc st : List Val),
      cb = iterPc + 2 + (relTarget t).length → p = cb + (relExpr c cb a).1.length →
      X.K.C[iterPc]? = some (.iterate (p + 7)) → X.K.C[iterPc + 1]? = some .dupTop → At X.K.C (iterPc + 2) (relTarget t) →
      At X.K.C cb (relExpr c cb a).1 → (relExpr c cb a).2.oof = false →
      At X.K.C p [.jumpIfFalse (p + 5), .swap, .loadConst (.int 1), .add, .jump (p + 6), .discardTop, .jump iterPc] →
      s.pc = iterPc → s.frames = f0 :: fs → f0.loop = some l → f0.closureCtx = none →
      l.withLoopVar = false → l.rest = xs →
      s.stack = .int acc.length :: (acc.reverse ++ st) → ((acc ++ kept).length : Int) ≤ i128Max →
      Rel X.K G X.P X.clo σ loc X.env { s with frames := fs } →
      ∃ s', Reach X.K.ctx X.K.C s s' ∧ s'.pc = p + 7 ∧
        s'.stack = .int (acc ++ kept).length :: ((acc ++ kept).reverse ++ st) ∧ s'.frames.tail = fs ∧
        s'.outs = s.outs ∧ Ext s.closures s'.closures
  | [], n, hE, G, σ, loc, t, c, kept, A, hev, hsc, hto, hA, hne, _, iterPc, cb, p, a, s, l, f0, fs, acc, st, hcb, hp, hIt, hDup, hTg, hAtc,
      hoofc, hAtP, hpc, hfr, hl0, hcc0, hwl, hrest, hstk, h128, hrel => by
    cases n with
    | zero => simp [filterItems] at hev
    | succ m =>
      simp [filterItems] at hev; subst hev
      refine ⟨{ s with pc := p + 7 }, Reach.one (i := .iterate (p + 7)) (by rw [hpc]; exact hIt) ?_, rfl,
        by simpa using hstk, by simp [hfr], rfl, Ext.refl _⟩
      simp [MJ.Vm.step, hfr, nextLoopItem, hl0, hrest]
  | x :: xs, n, hE, G, σ, loc, t, c, kept, A, hev, hsc, hto, hA, hne, hpx, iterPc, cb, p, a, s, l, f0, fs, acc, st, hcb, hp, hIt, hDup, hTg, hAtc,
      hoofc, hAtP, hpc, hfr, hl0, hcc0, hwl, hrest, hstk, h128, hrel => by
    cases n with
    | zero => simp [filterItems] at hev
    | succ m =>
      simp only [filterItems] at hev
      split at hev
      · simp at hev
      · rename_i bs hbs
        split at hev
        · simp at hev
        · rename_i cv hcv
          split at hev
          · simp at hev
          · rename_i rest hrec
            simp at hev
            let l' : LoopSt := { l with calls := l.calls + 1, iterated := true, prev := l.cur, cur := some x, rest := xs }
            let f1 : Frame := { f0 with locals := [], loop := some l', closure := none }
            let s1 : VmState := { s with pc := iterPc + 1, stack := x :: s.stack, frames := f1 :: fs }
            have hreach1 : Reach X.K.ctx X.K.C s s1 :=
              Reach.one (i := .iterate (p + 7)) (by rw [hpc]; exact hIt)
                (by simp [MJ.Vm.step, hfr, nextLoopItem, hl0, hrest, hpc, s1, l', f1])
            let s1' : VmState := { s1 with pc := iterPc + 2, stack := x :: x :: s.stack }
            have hreach1' : Reach X.K.ctx X.K.C s1 s1' :=
              Reach.one' (i := .dupTop) _ hDup rfl (by simp [MJ.Vm.step, s1, s1'])
            have hrel1 : Rel X.K G X.P X.clo { σ with heap := σ.heap ++ [[]] } (σ.heap.length :: loc) X.env s1' :=
              hrel.push hne [] f1 rfl hcc0
                (by intro z
                    have : frameLocal f1 z = none := by simp [frameLocal, f1, l', hwl, assocGet]
                    rw [this]; simp only [assocGet]; exact OptAgree.none _ _ _ _ _)
                (by intro z v _ hz; simp [assocGet] at hz) s1' rfl rfl rfl
            obtain ⟨s2, G2, r2, hpc2, hst2, hrel2, hout2, htl2, hhd2, hcp2, hhc2⟩ :=
              sim_target X t x bs hbs hto (hpx x (by simp)) G (iterPc + 2) s1' (x :: s.stack) _ σ.heap.length loc hTg rfl rfl hrel1
            have hheap2 : heapSetAll (σ.heap ++ [[]]) σ.heap.length bs = σ.heap ++ [setAll [] bs] :=
              heapSetAll_last _ _ _
            simp only [hheap2] at hrel2
            have hpc2' : s2.pc = cb := by rw [hpc2, hcb]
            have hA2 : ABound (σ.heap ++ [setAll [] bs]) (σ.heap.length :: loc) (A ++ targetNames t) := by
              refine (hA.push _ (fun id hid => hrel.1.bound id (by simp [hid]))).append ?_
              refine ABound.of_cell (fun y hy => ⟨setAll [] bs, by simp, setAll_nil_bound bs y ?_⟩)
              rw [bindTarget_names t x bs hbs]; exact hy
            -- the stores went into a frame without closure: the closures are as before
            have hx12 : Ext s.closures s2.closures := by
              have : Ext s1'.closures s2.closures := hcp2.ext_of_none (by simp [s1', s1, topClosure, f1])
              simpa [s1', s1] using this
            have hok2 : (X.ectx G2 (σ.heap ++ [setAll [] bs]) (σ.heap.length :: loc) (A ++ targetNames t)).ok s2 :=
              hrel2.eok hA2 (by simp)
            obtain ⟨c3, x3, r3⟩ := hE m (Nat.lt_succ_self m) (X.ectx G2 (σ.heap ++ [setAll [] bs]) (σ.heap.length :: loc) (A ++ targetNames t))
              c cv hcv hsc cb a s2 hAtc hoofc hpc2' hok2
            have hf2 : ∃ f2, s2.frames = f2 :: fs ∧ f2.loop = some l' ∧ f2.closureCtx = none := by
              have ht : s2.frames.tail = fs := by rw [htl2]; rfl
              have hh : s2.frames.head?.map Frame.sig = some (some l', none) := by
                rw [hhd2]; simp [s1', s1, f1, Frame.sig, hcc0]
              cases hf : s2.frames with
              | nil => rw [hf] at hh; simp at hh
              | cons f3 fs3 =>
                rw [hf] at ht hh
                simp [Frame.sig] at ht hh
                exact ⟨f3, by rw [ht], hh.1, hh.2⟩
            obtain ⟨f2, hf2, hl2, hcc2⟩ := hf2
            have hs2st : s2.stack = x :: .int acc.length :: (acc.reverse ++ st) := by rw [hst2, hstk]
            have hx13 : Ext s.closures c3 := hx12.trans x3
            -- the relation of the scopes outside the loop, for the next round
            have hrelN : ∀ (pc' : Nat) (st' : List Val), Rel X.K G X.P X.clo σ loc X.env
                { s2 with pc := pc', stack := st', closures := c3, frames := fs } := by
              intro pc' st'
              obtain ⟨e13, he13⟩ := hx13
              exact ⟨hrel.1.ext _ rfl e13 he13, by
                have := hrel.2; simpa [hout2, s1', s1] using this⟩
            by_cases htr : truthy cv = true
            · -- the item is kept
              simp only [htr, if_true] at hev
              subst hev
              have hlen : ((acc.length : Int) + 1) = ((acc ++ [x]).length : Int) := by simp
              have hle : ((acc ++ [x]).length : Int) ≤ i128Max := by
                have : ((acc ++ [x]).length : Int) ≤ ((acc ++ x :: rest).length : Int) := by
                  simp only [List.length_append, List.length_cons, List.length_nil]; omega
                exact Int.le_trans this h128
              let s3 : VmState := { s2 with pc := cb + (relExpr c cb a).1.length, stack := cv :: s2.stack, closures := c3 }
              let s4 : VmState := { s3 with pc := p + 1, stack := s2.stack }
              have r4 : Reach X.K.ctx X.K.C s3 s4 :=
                Reach.one' (i := .jumpIfFalse (p + 5)) _ hAtP.head (by simp [s3, hp])
                  (by simp [MJ.Vm.step, htr, s4, s3, hp])
              let s5 : VmState := { s3 with pc := p + 2, stack := .int acc.length :: x :: (acc.reverse ++ st) }
              have r5 : Reach X.K.ctx X.K.C s4 s5 :=
                Reach.one' (i := .swap) _ hAtP.tail.head rfl (by simp [MJ.Vm.step, s4, s5, s3, hs2st])
              let s6 : VmState := { s3 with pc := p + 3, stack := .int 1 :: .int acc.length :: x :: (acc.reverse ++ st) }
              have r6 : Reach X.K.ctx X.K.C s5 s6 :=
                Reach.one' (i := .loadConst (.int 1)) _ hAtP.tail.tail.head rfl (by simp [MJ.Vm.step, s5, s6])
              let s7 : VmState := { s3 with pc := p + 4, stack := .int (acc ++ [x]).length :: x :: (acc.reverse ++ st) }
              have r7 : Reach X.K.ctx X.K.C s6 s7 :=
                Reach.one' (i := .add) _ hAtP.tail.tail.tail.head rfl
                  (by
                    have h2 : (acc.length : Int) + 1 ≤ i128Max := by rw [hlen]; exact hle
                    have h3 := chkInt_succ acc.length h2
                    simp only [MJ.Vm.step, binArith, arith, intOp, asInt?, s6]
                    rw [h3]
                    simp [s7, Except.map])
              let s8 : VmState := { s7 with pc := p + 6 }
              have r8 : Reach X.K.ctx X.K.C s7 s8 :=
                Reach.one' (i := .jump (p + 6)) _ hAtP.tail.tail.tail.tail.head rfl (by simp [MJ.Vm.step, s7, s8])
              let s9 : VmState := { s7 with pc := iterPc }
              have r9 : Reach X.K.ctx X.K.C s8 s9 :=
                Reach.one' (i := .jump iterPc) _ hAtP.tail.tail.tail.tail.tail.tail.head rfl (by simp [MJ.Vm.step, s8, s9])
              obtain ⟨s', r10, hpc10, hst10, htl10, hout10, hx10⟩ :=
                sim_filter_iters X xs m (fun k hk => hE k (Nat.lt_succ_of_lt hk)) G σ loc t c rest A hrec hsc hto hA hne
                  (fun z hz => hpx z (by simp [hz]))
                  iterPc cb p a s9 l' f2 fs (acc ++ [x]) st hcb hp
                  hIt hDup hTg hAtc hoofc hAtP rfl (by simpa [s9, s7, s3] using hf2) hl2 hcc2 hwl rfl
                  (by simp [s9, s7]) (by simpa using h128)
                  (by have := hrelN iterPc (.int (acc ++ [x]).length :: x :: (acc.reverse ++ st)); simpa [s9, s7, s3] using this)
              refine ⟨s', hreach1.trans (hreach1'.trans (r2.trans (r3.trans (r4.trans (r5.trans (r6.trans (r7.trans (r8.trans (r9.trans r10))))))))),
                hpc10, by simpa using hst10, htl10, ?_, ?_⟩
              · rw [hout10]; simp [s9, s7, s3, hout2, s1', s1]
              · exact hx13.trans (by simpa [s9, s7, s3] using hx10)
            · -- the item is dropped
              simp only [htr] at hev
              simp at hev
              subst hev
              let s3 : VmState := { s2 with pc := cb + (relExpr c cb a).1.length, stack := cv :: s2.stack, closures := c3 }
              let s4 : VmState := { s3 with pc := p + 5, stack := s2.stack }
              have r4 : Reach X.K.ctx X.K.C s3 s4 :=
                Reach.one' (i := .jumpIfFalse (p + 5)) _ hAtP.head (by simp [s3, hp])
                  (by simp [MJ.Vm.step, htr, s4, s3])
              let s5 : VmState := { s3 with pc := p + 6, stack := .int acc.length :: (acc.reverse ++ st) }
              have r5 : Reach X.K.ctx X.K.C s4 s5 :=
                Reach.one' (i := .discardTop) _ hAtP.tail.tail.tail.tail.tail.head rfl (by simp [MJ.Vm.step, s4, s5, s3, hs2st])
              let s9 : VmState := { s5 with pc := iterPc }
              have r9 : Reach X.K.ctx X.K.C s5 s9 :=
                Reach.one' (i := .jump iterPc) _ hAtP.tail.tail.tail.tail.tail.tail.head rfl (by simp [MJ.Vm.step, s5, s9])
              obtain ⟨s', r10, hpc10, hst10, htl10, hout10, hx10⟩ :=
                sim_filter_iters X xs m (fun k hk => hE k (Nat.lt_succ_of_lt hk)) G σ loc t c rest A hrec hsc hto hA hne
                  (fun z hz => hpx z (by simp [hz]))
                  iterPc cb p a s9 l' f2 fs acc st hcb hp
                  hIt hDup hTg hAtc hoofc hAtP rfl (by simpa [s9, s5, s3] using hf2) hl2 hcc2 hwl rfl
                  (by simp [s9, s5]) h128
                  (by have := hrelN iterPc (.int acc.length :: (acc.reverse ++ st)); simpa [s9, s5, s3] using this)
              refine ⟨s', hreach1.trans (hreach1'.trans (r2.trans (r3.trans (r4.trans (r5.trans (r9.trans r10)))))),
                hpc10, hst10, htl10, ?_, ?_⟩
              · rw [hout10]; simp [s9, s5, s3, hout2, s1', s1]
              · exact hx13.trans (by simpa [s9, s5, s3] using hx10)

/-- the code in front of the main loop of a `for` leaves a value on the operand stack that iterates
to the items the reference semantics walks: the iterable, or the list of the items that pass the filter -/
theorem sim_for_iter {n : Nat} (hE : ∀ m, m ≤ n → SimExpr m) {X : SC} {G : Ghost} {loc : List Nat} {σ : State} {target : Target}
    {iter : Expr} {flt : Option Expr} {v : Val} {xs0 xs : List Val} {sized : Bool} {A : List String}
    (hv : evalExpr n X.K.ctx σ.heap (loc ++ X.env) iter = .ok v) (hxs : iterate v = .ok xs0)
    (hflt : (flt = none ∧ xs = xs0 ∧ sized = isSized v) ∨
      (∃ c, flt = some c ∧ filterItems n X.K.ctx σ.heap (loc ++ X.env) target c xs0 = .ok xs ∧
        ((xs.length : Int) ≤ i128Max) ∧ sized = true))
    (hsi : wfExpr X.K.M X.P A iter = true) (hsc : ∀ c, flt = some c → wfExpr X.K.M X.P (A ++ targetNames target) c = true)
    (hto : targetOk X.K.M target = true) (hA : ABound σ.heap loc A) (hne : loc ≠ [])
    {base : Nat} {a : Aux} {s : VmState}
    (hAt : At X.K.C base (relForIter target iter flt base a).1) (hoof : (relForIter target iter flt base a).2.oof = false)
    (hpc : s.pc = base) (hrel : Rel X.K G X.P X.clo σ loc X.env s) :
    ∃ w cls', Ext s.closures cls' ∧
      Reach X.K.ctx X.K.C s { s with pc := base + (relForIter target iter flt base a).1.length, stack := w :: s.stack, closures := cls' } ∧
      iterate w = .ok xs ∧ isSized w = sized := by
  rcases hflt with ⟨rfl, rfl, rfl⟩ | ⟨c, rfl, hfi, h128, rfl⟩
  · obtain ⟨c1, x1, r1⟩ := hE n (Nat.le_refl n) (X.ectx G σ.heap loc A) iter v hv hsi base a s hAt hoof hpc (hrel.eok hA hne)
    exact ⟨v, c1, x1, r1, hxs, rfl⟩
  · have hscc := hsc c rfl
    simp only [relForIter] at hAt hoof ⊢
    have ho1 : (relExpr iter (base + 1) a).2.oof = false := by
      cases ha : (relExpr iter (base + 1) a).2.oof with
      | false => rfl
      | true => rw [relExpr_oof_mono c _ _ ha] at hoof; cases hoof
    obtain ⟨Pp, hP⟩ : ∃ Pp, Pp = base + 1 + (relExpr iter (base + 1) a).1.length + 3 + (relTarget target).length +
          (relExpr c (base + 1 + (relExpr iter (base + 1) a).1.length + 3 + (relTarget target).length)
            (relExpr iter (base + 1) a).2).1.length := ⟨_, rfl⟩
    rw [← hP] at hAt
    -- LoadConst 0
    let s0 : VmState := { s with pc := base + 1, stack := .int 0 :: s.stack }
    have r0 : Reach X.K.ctx X.K.C s s0 :=
      Reach.one (i := .loadConst (.int 0)) (by rw [hpc]; exact hAt.left.left.left.left.left.head)
        (by simp [MJ.Vm.step, s0, hpc])
    obtain ⟨c1, x1, r1⟩ := hE n (Nat.le_refl n) (X.ectx G σ.heap loc A) iter v hv hsi (base + 1) a s0
      (At.cast hAt.left.left.left.left.right (by simp)) ho1 rfl ((hrel.same s0 rfl rfl rfl).eok hA hne)
    -- PushLoop 0
    let l0 : LoopSt := { withLoopVar := false, len := if isSized v then some xs0.length else none,
                         calls := 0, iterated := false, prev := none, cur := none, rest := xs0 }
    let s2 : VmState := { s with pc := base + 1 + (relExpr iter (base + 1) a).1.length + 1, stack := .int 0 :: s.stack,
                                 frames := { locals := [], loop := some l0 } :: s.frames, closures := c1 }
    have hAt3 := hAt.left.left.left.right
    have r2 : Reach X.K.ctx X.K.C { s0 with pc := base + 1 + (relExpr iter (base + 1) a).1.length, stack := v :: s0.stack, closures := c1 } s2 :=
      Reach.one' (i := .pushLoop 0) _ hAt3.head (by simp; omega)
        (by simp [MJ.Vm.step, hxs, Except.map, s2, l0, s0])
    have hAtP : At X.K.C Pp [.jumpIfFalse (Pp + 5), .swap, .loadConst (.int 1), .add, .jump (Pp + 6), .discardTop,
        .jump (base + 1 + (relExpr iter (base + 1) a).1.length + 1), .popLoopFrame, .buildList none] :=
      At.cast hAt.right (by rw [hP]; simp only [List.length_append, List.length_cons, List.length_nil]; omega)
    have hrel2 : Rel X.K G X.P X.clo σ loc X.env { s2 with frames := s.frames } :=
      hrel.ext _ rfl x1 rfl rfl
    obtain ⟨s', r3, hpc3, hst3, htl3, hout3, hx3⟩ :=
      sim_filter_iters X xs0 n (fun m hm => hE m (Nat.le_of_lt hm)) G σ loc target c xs A hfi hscc hto hA hne
        ((plainL_iff xs0).1 (iterate_plain (evalExpr_plain hrel.1.plain n iter v hsi hv) hxs))
        (base + 1 + (relExpr iter (base + 1) a).1.length + 1)
        (base + 1 + (relExpr iter (base + 1) a).1.length + 3 + (relTarget target).length)
        Pp (relExpr iter (base + 1) a).2 s2 l0 { locals := [], loop := some l0 } s.frames [] s.stack (by omega) hP
        (by have := hAt3.tail.head
            refine Eq.trans (congrArg (fun k => X.K.C[k]?) ?_) this
            simp only [List.length_append, List.length_cons, List.length_nil]; omega)
        (by have := hAt3.tail.tail.head
            refine Eq.trans (congrArg (fun k => X.K.C[k]?) ?_) this
            simp only [List.length_append, List.length_cons, List.length_nil]; omega)
        (At.cast hAt.left.left.right (by simp only [List.length_append, List.length_cons, List.length_nil]; omega))
        (At.cast hAt.left.right (by simp only [List.length_append, List.length_cons, List.length_nil]; omega))
        hoof
        (At.left (L2 := [Instr.popLoopFrame, Instr.buildList none]) (by simpa using hAtP))
        rfl rfl rfl rfl rfl rfl (by simp [s2]) (by simpa using h128) hrel2
    -- PopLoopFrame, BuildList
    let s4 : VmState := { s' with pc := Pp + 8, frames := s.frames }
    have r4 : Reach X.K.ctx X.K.C s' s4 :=
      Reach.one' (i := .popLoopFrame) _ hAtP.tail.tail.tail.tail.tail.tail.tail.head hpc3
        (by simp [MJ.Vm.step, s4, hpc3, htl3])
    let s5 : VmState := { s with pc := Pp + 9, stack := .list xs :: s.stack, closures := s'.closures }
    have r5 : Reach X.K.ctx X.K.C s4 s5 :=
      Reach.one' (i := .buildList none) _ hAtP.tail.tail.tail.tail.tail.tail.tail.tail.head rfl
        (by
          have hst4 : s4.stack = .int xs.length :: (xs.reverse ++ s.stack) := by simpa [s4] using hst3
          simp only [MJ.Vm.step, hst4, Int.toNat_natCast, popN_append]
          simp [s4, s5, hout3, s2])
    refine ⟨.list xs, s'.closures, x1.trans (by simpa [s2] using hx3),
      Reach.cast (r0.trans (r1.trans (r2.trans (r3.trans (r4.trans r5))))) rfl ?_, by simp [iterate], by simp [isSized]⟩
    simp only [s5, hP, List.length_append, List.length_cons, List.length_nil]
    congr 1; omega

/-- a non-normal flow through a prefix that keeps operand stack, frames and outer buffers -/
theorem Post.prefix_nn {X loc loc1 σ' fl s s1 e e' lc} (hfl : ¬ fl = Flow.normal) (r : Reach X.K.ctx X.K.C s s1)
    (hst : s1.stack = s.stack) (ht : s1.frames.tail = s.frames.tail)
    (hh : s1.frames.head?.map Frame.sig = s.frames.head?.map Frame.sig) (ho : s1.outs.tail = s.outs.tail)
    (hcp : ClPres s s1) (hhc : HeadClos s s1)
    (h : Post X loc1 σ' fl s1 e lc) : Post X loc σ' fl s e' lc := by
  simp only [Post, hfl, if_false] at h ⊢
  obtain ⟨l, hl, hu⟩ := h
  exact ⟨l, hl, hu.prefix r hst ht hh ho hcp hhc⟩

theorem nCap_le_of {lc : Option LoopCtx} {s s1 : VmState} (hcap : ∀ l, lc = some l → nCap l.scopes < s.outs.length)
    (h : s1.outs.length = s.outs.length) : ∀ l, lc = some l → nCap l.scopes < s1.outs.length := by
  intro l hl; rw [h]; exact hcap l hl

/-- the code `break` / `continue` emit to leave the scopes opened inside the loop body -/
theorem leave_reach (ctx : Scope) (C : List Instr) : ∀ (sc : List ScopeKind) (s : VmState),
    At C s.pc (leaveCode sc) → nCap sc < s.outs.length →
    Reach ctx C s { s with pc := s.pc + (leaveCode sc).length, frames := s.frames.drop (nWith sc),
                           outs := s.outs.drop (nCap sc) }
  | [], s, _, _ => by
    simp only [leaveCode, nWith, nCap, List.length_nil, Nat.add_zero, List.drop_zero]
    exact Reach.refl s
  | .with_ :: rest, s, hAt, hc => by
    simp only [leaveCode] at hAt
    let s1 : VmState := { s with pc := s.pc + 1, frames := s.frames.tail }
    have r1 : Reach ctx C s s1 := Reach.one (i := .popFrame) hAt.head (by simp [MJ.Vm.step, s1])
    have r2 := leave_reach ctx C rest s1 (by simpa [s1] using hAt.tail) (by simpa [s1, nCap] using hc)
    refine (r1.trans r2).cast rfl ?_
    simp only [s1, leaveCode, nWith, nCap, List.length_cons]
    have : s.frames.tail.drop (nWith rest) = s.frames.drop (nWith rest + 1) := by cases s.frames <;> simp
    rw [this]
    congr 1; omega
  | .capture :: rest, s, hAt, hc => by
    simp only [leaveCode] at hAt
    simp only [nCap] at hc
    cases ho : s.outs with
    | nil => rw [ho] at hc; simp at hc
    | cons o os =>
      let s1 : VmState := { s with pc := s.pc + 1, outs := os, stack := .str o :: s.stack }
      have hos : ∃ o2 os2, os = o2 :: os2 := by
        cases os with
        | nil => rw [ho] at hc; simp at hc
        | cons o2 os2 => exact ⟨o2, os2, rfl⟩
      obtain ⟨o2, os2, hos⟩ := hos
      have r1 : Reach ctx C s s1 := Reach.one (i := .endCapture) hAt.head (by simp [MJ.Vm.step, s1, ho, hos])
      let s2 : VmState := { s with pc := s.pc + 2, outs := os }
      have r2 : Reach ctx C s1 s2 :=
        Reach.one' (i := .discardTop) _ hAt.tail.head (by simp [s1]) (by simp [MJ.Vm.step, s1, s2])
      have r3 := leave_reach ctx C rest s2 (by simpa [s2, Nat.add_assoc] using hAt.tail.tail)
        (by rw [ho] at hc; simp at hc; simpa [s2] using hc)
      refine (r1.trans (r2.trans r3)).cast rfl ?_
      simp only [s2, leaveCode, nWith, nCap, List.length_cons, List.drop_succ_cons]
      congr 1; omega

/-- evaluate an expression in the middle of a statement: the value is pushed, the closures may grow -/
theorem sim_expr_in {n} (ihE : SimExpr n) {X : SC} {G : Ghost} {σ : State} {loc : List Nat} {A : List String} {e : Expr} {v : Val}
    (hv : evalExpr n X.K.ctx σ.heap (loc ++ X.env) e = .ok v) (hs : wfExpr X.K.M X.P A e = true)
    (hA : ABound σ.heap loc A) (hne : loc ≠ []) {base : Nat} {a : Aux} {s : VmState}
    (hAt : At X.K.C base (relExpr e base a).1) (hoof : (relExpr e base a).2.oof = false) (hpc : s.pc = base)
    (hrel : Rel X.K G X.P X.clo σ loc X.env s) :
    ∃ cls', Ext s.closures cls' ∧
      Reach X.K.ctx X.K.C s { s with pc := base + (relExpr e base a).1.length, stack := v :: s.stack, closures := cls' } ∧
      Rel X.K G X.P X.clo σ loc X.env { s with pc := base + (relExpr e base a).1.length, stack := v :: s.stack, closures := cls' } := by
  obtain ⟨c1, x1, r1⟩ := ihE (X.ectx G σ.heap loc A) e v hv hs base a s hAt hoof hpc (hrel.eok hA hne)
  exact ⟨c1, x1, r1, hrel.ext _ rfl x1 rfl rfl⟩

theorem Done.of_pure {X : SC} {G loc σ' s s'} (r : Reach X.K.ctx X.K.C s s') (hst : s'.stack = s.stack)
    (hrel : Rel X.K G X.P X.clo σ' loc X.env s') (hout : s'.outs.tail = s.outs.tail) (hf : s'.frames = s.frames)
    (hx : Ext s.closures s'.closures) : Done X loc σ' s s'.pc :=
  ⟨s', G, r, rfl, hst, hrel, hout, by rw [hf], by rw [hf], ClPres.of_ext hx, HeadClos.of_eq (by rw [hf])⟩

theorem sim_text {n} (X : SC) (t : String) : StmtGoal (n + 1) X (.text t) := by
  intro G σ loc σ' fl hev A lc hs hA hne base a s hAt hoof hpc hrel hcap
  simp [exec] at hev
  obtain ⟨rfl, rfl⟩ := hev
  simp only [relStmt, Post, if_true] at hAt ⊢
  have hr := hrel.appendOut t { s with pc := s.pc + 1, outs := MJ.Vm.appendOut t s.outs } rfl rfl rfl
  have := Done.of_pure (X := X) (s := s) (s' := { s with pc := s.pc + 1, outs := MJ.Vm.appendOut t s.outs })
    (Reach.one (i := .emitRaw t) (by rw [hpc]; exact hAt.head) (by simp [MJ.Vm.step])) rfl hr.1 hr.2 rfl (Ext.refl _)
  simpa [hpc] using this

theorem sim_emit {n} (ihE : SimExpr n) (X : SC) (e : Expr) : StmtGoal (n + 1) X (.emit e) := by
  intro G σ loc σ' fl hev A lc hs hA hne base a s hAt hoof hpc hrel hcap
  have hse : wfExpr X.K.M X.P A e = true := by simpa [wfStmt] using hs
  simp only [exec, bind, Except.bind] at hev
  split at hev
  · simp at hev
  · rename_i v hv
    simp at hev
    obtain ⟨rfl, rfl⟩ := hev
    simp only [relStmt, Post, if_true] at hAt hoof ⊢
    obtain ⟨c1, x1, r1, hrel1⟩ := sim_expr_in ihE hv hse hA hne hAt.left hoof hpc hrel
    have hr := hrel1.appendOut (render v)
      { s with pc := base + (relExpr e base a).1.length + 1, outs := MJ.Vm.appendOut (render v) s.outs, closures := c1 } rfl rfl rfl
    have := Done.of_pure (X := X) (s := s)
      (s' := { s with pc := base + (relExpr e base a).1.length + 1, outs := MJ.Vm.appendOut (render v) s.outs, closures := c1 })
      (r1.trans (Reach.one' (i := .emit) _ hAt.right.head rfl (by simp [MJ.Vm.step]))) rfl hr.1 hr.2 rfl x1
    simpa [Nat.add_assoc] using this

theorem sim_set {n} (ihE : SimExpr n) (X : SC) (target : Target) (e : Expr) : StmtGoal (n + 1) X (.set target e) := by
  intro G σ loc σ' fl hev A lc hs hA hne base a s hAt hoof hpc hrel hcap
  have hse : targetOk X.K.M target = true ∧ wfExpr X.K.M X.P A e = true := by simpa [wfStmt] using hs
  cases loc with
  | nil => exact absurd rfl hne
  | cons cell rs =>
    simp only [exec, bind, Except.bind, List.cons_append] at hev
    split at hev
    · simp at hev
    · rename_i v hv
      split at hev
      · simp at hev
      · rename_i bs hbs
        simp [topCell] at hev
        obtain ⟨rfl, rfl⟩ := hev
        simp only [relStmt, Post, if_true] at hAt hoof ⊢
        have := sim_assign ihE (X := X) (G := G) (A := A) hv hbs hse.2 hse.1 hA hAt hoof hpc hrel
        simpa [Nat.add_assoc] using this

theorem sim_if {n} (ihE : SimExpr n) (ihB : SimBlock n) (X : SC) (c : Expr) (t f : List Stmt) :
    StmtGoal (n + 1) X (.ifS c t f) := by
  intro G σ loc σ' fl hev A lc hs hA hne base a s hAt hoof hpc hrel hcap
  simp only [exec, bind, Except.bind] at hev
  split at hev
  · simp at hev
  · rename_i cv hcv
    cases f with
    | nil =>
      have hs' : wfExpr X.K.M X.P A c = true ∧ wfBlock X.K.M X.P A lc.isSome t = true := by simpa [wfStmt, wfBlock] using hs
      simp only [relStmt] at hAt hoof ⊢
      have ho1 := oof_false_of_relBlock hoof
      obtain ⟨c1, x1, r1, hrel1⟩ := sim_expr_in ihE hcv hs'.1 hA hne hAt.left.left ho1 hpc hrel
      have hj := hAt.left.right.head
      by_cases ht : truthy cv = true
      · simp [ht] at hev
        let s1 : VmState := { s with pc := base + (relExpr c base a).1.length + 1, stack := s.stack, closures := c1 }
        have rj : Reach X.K.ctx X.K.C s s1 :=
          r1.trans (Reach.one' (i := .jumpIfFalse _) _ hj rfl (by simp [MJ.Vm.step, ht, s1]))
        have p2 := ihB X t G σ loc σ' fl hev A lc hs'.2 hA hne (base + (relExpr c base a).1.length + 1) (relExpr c base a).2
            s1 (At.cast hAt.right (by simp [Nat.add_assoc])) hoof rfl (hrel1.same _ rfl rfl rfl) hcap
        have hcp1 : ClPres s s1 := ClPres.of_ext x1
        have hhc1 : HeadClos s s1 := HeadClos.of_eq rfl
        by_cases hfl : fl = .normal
        · subst hfl
          simp only [Post, if_true] at p2 ⊢
          obtain ⟨s2, G2, r2, hpc2, hst2, hrel2, hout2, htl2, hhd2, hcp2, hhc2⟩ := p2
          refine ⟨s2, G2, rj.trans r2, ?_, hst2, hrel2, hout2, htl2, hhd2, hcp1.trans hhc1 hcp2, hhc1.trans hcp1.1 hhc2⟩
          simp only [hpc2, List.length_append, List.length_cons, List.length_nil]; omega
        · exact Post.prefix_nn hfl rj rfl rfl rfl rfl hcp1 hhc1 p2
      · simp [ht] at hev
        obtain ⟨rfl, rfl⟩ := execBlock_nil hev
        simp only [Post, if_true]
        have := Done.of_pure (X := X) (s := s)
          (s' := { s with pc := base + (relExpr c base a).1.length + 1 +
            (relBlock t (base + (relExpr c base a).1.length + 1) (relExpr c base a).2 lc).1.1.length, closures := c1 })
          (r1.trans (Reach.one (i := .jumpIfFalse _) hj (by simp [MJ.Vm.step, ht]))) rfl (hrel1.same _ rfl rfl rfl) rfl rfl x1
        refine Eq.mp ?_ this
        congr 1
        simp only [List.length_append, List.length_cons, List.length_nil]; omega
    | cons f0 fs =>
      have hs' : (wfExpr X.K.M X.P A c = true ∧ wfBlock X.K.M X.P A lc.isSome t = true) ∧ wfBlock X.K.M X.P A lc.isSome (f0 :: fs) = true := by
        simpa [wfStmt] using hs
      simp only [relStmt] at hAt hoof ⊢
      have ho2 := oof_false_of_relBlock hoof
      have ho1 := oof_false_of_relBlock ho2
      obtain ⟨c1, x1, r1, hrel1⟩ := sim_expr_in ihE hcv hs'.1.1 hA hne hAt.left.left.left.left ho1 hpc hrel
      have hj := hAt.left.left.left.right.head
      by_cases ht : truthy cv = true
      · simp [ht] at hev
        let s1 : VmState := { s with pc := base + (relExpr c base a).1.length + 1, stack := s.stack, closures := c1 }
        have rj : Reach X.K.ctx X.K.C s s1 :=
          r1.trans (Reach.one' (i := .jumpIfFalse _) _ hj rfl (by simp [MJ.Vm.step, ht, s1]))
        have hcp1 : ClPres s s1 := ClPres.of_ext x1
        have hhc1 : HeadClos s s1 := HeadClos.of_eq rfl
        have p2 := ihB X t G σ loc σ' fl hev A lc hs'.1.2 hA hne (base + (relExpr c base a).1.length + 1) (relExpr c base a).2
            s1 (At.cast hAt.left.left.right (by simp [Nat.add_assoc])) ho2 rfl (hrel1.same _ rfl rfl rfl) hcap
        by_cases hfl : fl = .normal
        · subst hfl
          simp only [Post, if_true] at p2 ⊢
          obtain ⟨s2, G2, r2, hpc2, hst2, hrel2, hout2, htl2, hhd2, hcp2, hhc2⟩ := p2
          have hj2 := hAt.left.right.head
          refine ⟨{ s2 with pc := base + (relExpr c base a).1.length + 1 +
                (relBlock t (base + (relExpr c base a).1.length + 1) (relExpr c base a).2 lc).1.1.length + 1 +
                (relBlock (f0 :: fs) (base + (relExpr c base a).1.length + 1 +
                  (relBlock t (base + (relExpr c base a).1.length + 1) (relExpr c base a).2 lc).1.1.length + 1)
                  (relBlock t (base + (relExpr c base a).1.length + 1) (relExpr c base a).2 lc).1.2 lc).1.1.length }, G2,
            rj.trans (r2.trans (Reach.one' (i := .jump _) _ hj2
                (by simp only [hpc2, List.length_append, List.length_cons, List.length_nil]; omega)
                (by simp [MJ.Vm.step]))),
            ?_, hst2, hrel2.same _ rfl rfl rfl, hout2, htl2, hhd2, hcp1.trans hhc1 hcp2, hhc1.trans hcp1.1 hhc2⟩
          simp only [List.length_append, List.length_cons, List.length_nil]; omega
        · exact Post.prefix_nn hfl rj rfl rfl rfl rfl hcp1 hhc1 p2
      · simp [ht] at hev
        let s1 : VmState := { s with pc := base + (relExpr c base a).1.length + 1 +
            (relBlock t (base + (relExpr c base a).1.length + 1) (relExpr c base a).2 lc).1.1.length + 1, stack := s.stack, closures := c1 }
        have rj : Reach X.K.ctx X.K.C s s1 :=
          r1.trans (Reach.one' (i := .jumpIfFalse _) _ hj rfl (by simp [MJ.Vm.step, ht, s1]))
        have hcp1 : ClPres s s1 := ClPres.of_ext x1
        have hhc1 : HeadClos s s1 := HeadClos.of_eq rfl
        have p2 := ihB X (f0 :: fs) G σ loc σ' fl hev A lc hs'.2 hA hne
            (base + (relExpr c base a).1.length + 1 + (relBlock t (base + (relExpr c base a).1.length + 1) (relExpr c base a).2 lc).1.1.length + 1)
            (relBlock t (base + (relExpr c base a).1.length + 1) (relExpr c base a).2 lc).1.2 s1
            (At.cast hAt.right (by simp [Nat.add_assoc]; try omega)) hoof rfl (hrel1.same _ rfl rfl rfl) hcap
        by_cases hfl : fl = .normal
        · subst hfl
          simp only [Post, if_true] at p2 ⊢
          obtain ⟨s2, G2, r2, hpc2, hst2, hrel2, hout2, htl2, hhd2, hcp2, hhc2⟩ := p2
          refine ⟨s2, G2, rj.trans r2, ?_, hst2, hrel2, hout2, htl2, hhd2, hcp1.trans hhc1 hcp2, hhc1.trans hcp1.1 hhc2⟩
          simp only [hpc2, List.length_append, List.length_cons, List.length_nil]; omega
        · exact Post.prefix_nn hfl rj rfl rfl rfl rfl hcp1 hhc1 p2

theorem sim_break {n} (X : SC) : StmtGoal (n + 1) X .breakS := by
  intro G σ loc σ' fl hev A lc hs hA hne base a s hAt hoof hpc hrel hcap
  simp [exec] at hev
  obtain ⟨rfl, rfl⟩ := hev
  cases lc with
  | none => simp [wfStmt] at hs
  | some l =>
    simp only [relStmt] at hAt ⊢
    have r1 := leave_reach X.K.ctx X.K.C l.scopes s (by rw [hpc]; exact hAt.left) (hcap l rfl)
    have hj := hAt.right.head
    simp only [Post, if_false, reduceCtorEq]
    refine ⟨l, rfl, { s with pc := l.exit, frames := s.frames.drop (nWith l.scopes), outs := s.outs.drop (nCap l.scopes) },
      r1.trans (Reach.one' (i := .jump l.exit) _ hj (by simp [hpc]) (by simp [MJ.Vm.step])), rfl, rfl, rfl, rfl, ?_,
      Nat.le_refl _, fun _ _ _ => rfl⟩
    obtain ⟨rest, hr⟩ := hrel.2
    simp [hr]

theorem sim_continue {n} (X : SC) : StmtGoal (n + 1) X .continueS := by
  intro G σ loc σ' fl hev A lc hs hA hne base a s hAt hoof hpc hrel hcap
  simp [exec] at hev
  obtain ⟨rfl, rfl⟩ := hev
  cases lc with
  | none => simp [wfStmt] at hs
  | some l =>
    simp only [relStmt] at hAt ⊢
    have r1 := leave_reach X.K.ctx X.K.C l.scopes s (by rw [hpc]; exact hAt.left) (hcap l rfl)
    have hj := hAt.right.head
    simp only [Post, if_false, reduceCtorEq]
    refine ⟨l, rfl, { s with pc := l.iter, frames := s.frames.drop (nWith l.scopes), outs := s.outs.drop (nCap l.scopes) },
      r1.trans (Reach.one' (i := .jump l.iter) _ hj (by simp [hpc]) (by simp [MJ.Vm.step])), rfl, rfl, rfl, rfl, ?_,
      Nat.le_refl _, fun _ _ _ => rfl⟩
    obtain ⟨rest, hr⟩ := hrel.2
    simp [hr]

/-- the frames above the innermost `k + 1` ones are as before, after pushing one frame on top -/
theorem take_succ_of_tail {fs2 fs : List Frame} (ht : fs2.tail = fs) (hne : fs2 ≠ []) (k : Nat) :
    ∃ g, fs2 = g :: fs ∧ fs2.take (k + 2) = g :: fs.take (k + 1) := by
  cases fs2 with
  | nil => exact absurd rfl hne
  | cons g rest => simp at ht; subst ht; exact ⟨g, rfl, by simp⟩

theorem sim_with {n} (ihB : SimBlock n) (ihW : SimBinds n) (X : SC) (binds : List (Target × Expr)) (body : List Stmt) :
    StmtGoal (n + 1) X (.withS binds body) := by
  intro G σ loc σ' fl hev A lc hs hA hne base a s hAt hoof hpc hrel hcap
  have hs' : wfBinds X.K.M X.P A binds = true ∧ wfBlock X.K.M X.P (A ++ bindsNames binds) (pushScope .with_ lc).isSome body = true := by
    simpa [wfStmt] using hs
  simp only [exec, bind, Except.bind] at hev
  split at hev
  · simp at hev
  · rename_i heap1 hw
    split at hev
    · simp at hev
    · rename_i r hr
      obtain ⟨σ2, fl2⟩ := r
      simp at hev
      obtain ⟨rfl, rfl⟩ := hev
      simp only [relStmt] at hAt hoof ⊢
      have ho1 := oof_false_of_relBlock hoof
      -- PushWith
      let s1 : VmState := { s with pc := base + 1, frames := {} :: s.frames }
      have hreach1 : Reach X.K.ctx X.K.C s s1 :=
        Reach.one (i := .pushWith) (by rw [hpc]; exact hAt.left.left.head) (by simp [MJ.Vm.step, s1, hpc])
      have hrel1 : Rel X.K G X.P X.clo { heap := σ.heap ++ [[]], out := σ.out } (σ.heap.length :: loc) X.env s1 :=
        hrel.push hne [] {} rfl rfl (by intro x; simp only [assocGet, frameLocal]; exact OptAgree.none _ _ _ _ _)
          (by intro z v _ hz; simp [assocGet] at hz) s1 rfl rfl rfl
      have hA1 : ABound (σ.heap ++ [[]]) (σ.heap.length :: loc) A :=
        hA.push _ (fun id hid => hrel.1.bound id (by simp [hid]))
      -- the bindings
      obtain ⟨s2, G2, r2, hpc2, hst2, hrel2, hout2, htl2, hhd2, hcp2, hhc2⟩ :=
        ihW X binds G _ (σ.heap.length :: loc) heap1 σ.out hw A hs'.1 hA1 (by simp) (base + 1) a s1
          (At.cast hAt.left.left.right (by simp only [List.length_cons, List.length_nil])) ho1 rfl hrel1
      have hlen2 : s2.outs.length = s.outs.length := by
        have := outs_length_of_tail hrel2 hrel1 hout2; simpa [s1] using this
      -- the body
      have hT1 : σ.heap.length < (σ.heap ++ [[]]).length := by simp
      have hA2 : ABound heap1 (σ.heap.length :: loc) (A ++ bindsNames binds) :=
        (hA1.mono (bindWith_keys _ _ _ _ _ _ hw)).append
          (ABound.of_cell (bindWith_bound _ _ _ _ _ _ _ hw hT1))
      have p3 := ihB X body G2 { heap := heap1, out := σ.out } (σ.heap.length :: loc) σ2 fl2 hr (A ++ bindsNames binds)
          (pushScope .with_ lc) hs'.2 hA2 (by simp)
          (base + 1 + (relBinds binds (base + 1) a).1.length)
          (relBinds binds (base + 1) a).2 s2
          (At.cast hAt.left.right (by simp only [List.length_append, List.length_cons, List.length_nil]; omega)) hoof hpc2 hrel2
          (by intro l' hl'
              cases lc with
              | none => simp [pushScope] at hl'
              | some l =>
                simp only [pushScope, Option.some.injEq] at hl'
                subst hl'
                rw [hlen2]; simpa [nCap] using hcap l rfl)
      by_cases hfl : fl2 = .normal
      · subst hfl
        simp only [Post, if_true] at p3 ⊢
        obtain ⟨s3, G3, r3, hpc3, hst3, hrel3, hout3, htl3, hhd3, hcp3, hhc3⟩ := p3
        -- PopFrame: the scope is dropped on both sides
        have htake : σ2.heap.take σ.heap.length = σ.heap :=
          take_of_frame σ.heap [] (loc ++ X.env) σ2.heap ((bindWith_frame _ _ _ _ _ _ hw).trans (execBlock_frame hr))
        have hfr3 : s3.frames.tail = s.frames := by rw [htl3, htl2]; rfl
        obtain ⟨r3out, hr3⟩ := hrel3.2
        let s4 : VmState := { s3 with pc := s3.pc + 1, frames := s3.frames.tail }
        have hreach4 : Reach X.K.ctx X.K.C s3 s4 :=
          Reach.one' (i := .popFrame) _ hAt.right.head
            (by simp only [hpc3, List.length_append, List.length_cons, List.length_nil]; omega)
            (by simp [MJ.Vm.step, s4])
        -- the closures of the scopes outside are untouched: the new frame owned none
        have hx13 : Ext s.closures s3.closures := by
          have hcp13 := hcp2.trans hhc2 hcp3
          have : Ext s1.closures s3.closures := hcp13.ext_of_none (by simp [s1, topClosure])
          simpa [s1] using this
        have hrel4 : Rel X.K G X.P X.clo { heap := σ2.heap.take σ.heap.length, out := σ2.out } loc X.env s4 := by
          rw [htake]
          obtain ⟨e13, he13⟩ := hx13
          exact ⟨hrel.1.ext s4 (by simp [s4, hfr3]) e13 (by simp [s4, he13]), ⟨r3out, by simp [s4, hr3]⟩⟩
        refine ⟨s4, G, hreach1.trans (r2.trans (r3.trans hreach4)), ?_, ?_, hrel4, ?_, ?_, ?_, ?_, ?_⟩
        · simp only [s4, hpc3, List.length_append, List.length_cons, List.length_nil]; omega
        · simp [s4, hst3, hst2, s1]
        · simp [s4, hout3, hout2, s1]
        · simp [s4, hfr3]
        · simp [s4, hfr3]
        · exact ClPres.of_ext (by simpa [s4] using hx13)
        · exact HeadClos.of_eq (by simp [s4, hfr3])
      · -- `break` / `continue` inside the block: the frame was popped on the way out
        simp only [Post, hfl, if_false] at p3 ⊢
        obtain ⟨l', hl', s3, r3, hpc3, hst3, htl3, hhd3, hout3, hlen3, hun3⟩ := p3
        cases lc with
        | none => simp [pushScope] at hl'
        | some l =>
          simp only [pushScope, Option.some.injEq] at hl'
          subst hl'
          have hdrop : s2.frames.drop (nWith l.scopes + 1) = s.frames.drop (nWith l.scopes) := by
            have e1 : s2.frames.drop (nWith l.scopes + 1) = s2.frames.tail.drop (nWith l.scopes) := by
              cases s2.frames <;> simp
            rw [e1, htl2]; rfl
          have hx12 : Ext s.closures s2.closures := by
            have : Ext s1.closures s2.closures := hcp2.ext_of_none (by simp [s1, topClosure])
            simpa [s1] using this
          have hne2 : s2.frames ≠ [] := by
            intro h0
            have := hhd2; rw [h0] at this; simp [s1] at this
          obtain ⟨g2, hg2, htk2⟩ := take_succ_of_tail (fs2 := s2.frames) (fs := s.frames) (by rw [htl2]; rfl) hne2 (nWith l.scopes)
          have hg2c : g2.closure = none ∨ ∃ c, g2.closure = some c ∧ s.closures.length ≤ c := by
            have htop : topClosure s2.frames = g2.closure := by rw [hg2]; rfl
            rcases hhc2 with h | ⟨_, c, hc, hle⟩
            · left; rw [← htop, h]; simp [s1, topClosure]
            · right; exact ⟨c, by rw [← htop]; exact hc, by simpa [s1] using hle⟩
          refine ⟨l, rfl, s3, hreach1.trans (r2.trans r3), ?_, ?_, ?_, ?_, ?_, ?_, ?_⟩
          · rw [hpc3]; cases fl2 <;> rfl
          · rw [hst3, hst2]
          · simpa [nWith, hdrop] using htl3
          · simpa [nWith, hdrop] using hhd3
          · rw [hout3, hout2]; rfl
          · obtain ⟨e12, he12⟩ := hx12
            have : s.closures.length ≤ s2.closures.length := by rw [he12]; simp
            exact Nat.le_trans this hlen3
          · intro c hc hu
            obtain ⟨e12, he12⟩ := hx12
            have hc2 : c < s2.closures.length := by rw [he12]; simp; omega
            rw [hun3 c hc2 ?_, he12, List.getElem?_append_left hc]
            intro f hf
            simp only [nWith] at hf
            rw [htk2] at hf
            rcases List.mem_cons.1 hf with rfl | hmem
            · rcases hg2c with h | ⟨c', hc', hle⟩
              · rw [h]; simp
              · rw [hc']; intro e; cases e; omega
            · exact hu f hmem

theorem sim_for {n} (hE : ∀ m, m ≤ n → SimExpr m) (ihB : SimBlock n) (ihI : SimIters n) (X : SC) (target : Target) (iter : Expr)
    (flt : Option Expr) (body els : List Stmt) : StmtGoal (n + 1) X (.forS target iter flt body els) := by
  intro G σ loc σ' fl hev A lc hs hA hne base a s hAt hoof hpc hrel hcap
  have hs' : ((targetOk X.K.M target = true ∧ wfExpr X.K.M X.P A iter = true) ∧
      wfBlock X.K.M X.P (A ++ targetNames target ++ ["loop"]) true body = true) ∧ wfBlock X.K.M X.P A lc.isSome els = true := by
    cases flt with
    | none => simpa [wfStmt] using hs
    | some c =>
      have : (((targetOk X.K.M target = true ∧ wfExpr X.K.M X.P A iter = true) ∧ wfExpr X.K.M X.P (A ++ targetNames target) c = true) ∧
          wfBlock X.K.M X.P (A ++ targetNames target ++ ["loop"]) true body = true) ∧ wfBlock X.K.M X.P A lc.isSome els = true := by
        simpa [wfStmt] using hs
      exact ⟨⟨this.1.1.1, this.1.2⟩, this.2⟩
  have hsc : ∀ c, flt = some c → wfExpr X.K.M X.P (A ++ targetNames target) c = true := by
    intro c hc; subst hc
    have : (((targetOk X.K.M target = true ∧ wfExpr X.K.M X.P A iter = true) ∧ wfExpr X.K.M X.P (A ++ targetNames target) c = true) ∧
        wfBlock X.K.M X.P (A ++ targetNames target ++ ["loop"]) true body = true) ∧ wfBlock X.K.M X.P A lc.isSome els = true := by
      simpa [wfStmt] using hs
    exact this.1.1.2
  simp only [exec, bind, Except.bind] at hev
  split at hev
  · simp at hev
  · rename_i v hv
    split at hev
    · simp at hev
    · rename_i xs0 hxs
      have hphase : ∃ xs sized, ((flt = none ∧ xs = xs0 ∧ sized = isSized v) ∨
            (∃ c, flt = some c ∧ filterItems n X.K.ctx σ.heap (loc ++ X.env) target c xs0 = .ok xs ∧
              ((xs.length : Int) ≤ i128Max) ∧ sized = true)) ∧
          ∃ σi, execIters n X.K.ctx (loc ++ X.env) σ target body (xs.zip (loopInfos sized xs)) = .ok σi ∧
            ((xs = [] ∧ execBlock n X.K.ctx (loc ++ X.env) σ els = .ok (σ', fl)) ∨ (xs ≠ [] ∧ σ' = σi ∧ fl = .normal)) := by
        cases flt with
        | none =>
          simp only at hev
          refine ⟨xs0, isSized v, Or.inl ⟨rfl, rfl, rfl⟩, ?_⟩
          cases xs0 with
          | nil =>
            cases n with
            | zero => simp [execBlock] at hev
            | succ m => exact ⟨σ, by simp [execIters, loopInfos, loopInfosFrom], Or.inl ⟨rfl, hev⟩⟩
          | cons y ys =>
            simp only at hev
            split at hev
            · simp at hev
            · rename_i σi hi
              simp at hev
              exact ⟨σi, hi, Or.inr ⟨by simp, hev.1.symm, hev.2.symm⟩⟩
        | some c =>
          simp only at hev
          split at hev
          · simp at hev
          · rename_i ks hks
            split at hev
            · rename_i hle
              refine ⟨ks, true, Or.inr ⟨c, rfl, hks, hle, rfl⟩, ?_⟩
              cases ks with
              | nil =>
                cases n with
                | zero => simp [execBlock] at hev
                | succ m => exact ⟨σ, by simp [execIters, loopInfos, loopInfosFrom], Or.inl ⟨rfl, hev⟩⟩
              | cons y ys =>
                simp only at hev
                split at hev
                · simp at hev
                · rename_i σi hi
                  simp at hev
                  exact ⟨σi, hi, Or.inr ⟨by simp, hev.1.symm, hev.2.symm⟩⟩
            · simp at hev
      clear hev
      obtain ⟨xs, sized, hflt, σi, hit, hcase⟩ := hphase
      -- the address behind the loop and the body as it is compiled
      obtain ⟨E, hEdef⟩ : ∃ E, E = forExit target iter flt body base a := ⟨_, rfl⟩
      obtain ⟨RB, hRB⟩ : ∃ RB, RB = forBody target iter flt body base a := ⟨_, rfl⟩
      have hend : E = base + (relForIter target iter flt base a).1.length + 2 + (relTarget target).length + RB.1.1.length + 1 := by
        rw [hEdef, hRB]; exact forExit_eq _ _ _ _ _ _
      have hRBeq : RB = relBlock body (base + (relForIter target iter flt base a).1.length + 2 + (relTarget target).length) (relForIter target iter flt base a).2
          (some ⟨base + (relForIter target iter flt base a).1.length + 1, E, []⟩) := by
        rw [hRB, hEdef]; rfl
      -- common prefix of the code: iterable, PushLoop, Iterate, target, body, Jump
      have hcode : ∃ (rest : List Instr),
          (relStmt (.forS target iter flt body els) base a lc).1.1 =
            (relForIter target iter flt base a).1 ++ [.pushLoop 1, .iterate E] ++ relTarget target ++ RB.1.1 ++
              [.jump (base + (relForIter target iter flt base a).1.length + 1)] ++ rest ∧ RB.1.2.oof = false := by
        cases els with
        | nil =>
          refine ⟨[.popLoopFrame], ?_, ?_⟩
          · rw [relStmt_for_nil, ← hEdef, ← hRB]; simp
          · have := hoof; rw [relStmt_for_nil, ← hRB] at this; exact this
        | cons e0 es =>
          refine ⟨[.pushDidNotIterate, .popLoopFrame,
              .jumpIfFalse (E + 3 + (relBlock (e0 :: es) (E + 3) RB.1.2 lc).1.1.length)] ++
              (relBlock (e0 :: es) (E + 3) RB.1.2 lc).1.1, ?_, ?_⟩
          · rw [relStmt_for_cons, ← hEdef, ← hRB]; simp
          · have := hoof; rw [relStmt_for_cons, ← hEdef, ← hRB] at this
            exact oof_false_of_relBlock this
      obtain ⟨rest, hcodeEq, hoofb⟩ := hcode
      have hAt' := hAt
      rw [hcodeEq] at hAt'
      have ho1 : (relForIter target iter flt base a).2.oof = false := by
        rw [hRBeq] at hoofb; exact oof_false_of_relBlock hoofb
      have hpxs0 : ∀ x, x ∈ xs0 → plain x = true :=
        (plainL_iff xs0).1 (iterate_plain (evalExpr_plain hrel.1.plain n iter v hs'.1.1.2 hv) hxs)
      have hpxs : ∀ x, x ∈ xs → plain x = true := by
        rcases hflt with ⟨_, rfl, _⟩ | ⟨c, _, hfi, _, _⟩
        · exact hpxs0
        · exact fun x hx => hpxs0 x (filterItems_sub _ _ _ _ _ _ _ _ hfi x hx)
      obtain ⟨w, c1, x1, r1, hwit, hwsz⟩ := sim_for_iter hE (X := X) (G := G) (A := A) hv hxs hflt hs'.1.1.2 hsc hs'.1.1.1 hA hne
        hAt'.left.left.left.left.left ho1 hpc hrel
      let l0 : LoopSt := { withLoopVar := true, len := if sized then some xs.length else none,
                           calls := 0, iterated := false, prev := none, cur := none, rest := xs }
      let f0 : Frame := { locals := [], loop := some l0 }
      let s2 : VmState := { s with pc := base + (relForIter target iter flt base a).1.length + 1,
                                   frames := f0 :: s.frames, closures := c1 }
      have hreach2 : Reach X.K.ctx X.K.C { s with pc := base + (relForIter target iter flt base a).1.length, stack := w :: s.stack, closures := c1 } s2 :=
        Reach.one' (i := .pushLoop 1) _ hAt'.left.left.left.left.right.head rfl
          (by simp [MJ.Vm.step, hwit, hwsz, Except.map, s2, l0, f0])
      have e1 : base + (relForIter target iter flt base a).1.length + 1 + 1 = base + (relForIter target iter flt base a).1.length + 2 := by omega
      have hrelO : Rel X.K G X.P X.clo σ loc X.env { s2 with frames := s.frames } := hrel.ext _ rfl x1 rfl rfl
      obtain ⟨s5, r5, hpc5, hst5, htl5, hout5, houtt5, ⟨lf, f5, hlf, hlf5, hitd⟩, hx5⟩ :=
        ihI X G σ loc σi target body xs (if sized then some xs.length else none) 0 none
          (by simpa [loopInfos] using hit) A hs'.1.2 hs'.1.1.1 hA hne hpxs (fun v hv => by cases hv)
          (base + (relForIter target iter flt base a).1.length + 1) E (relForIter target iter flt base a).2 s2 l0 f0 s.frames
          (by have := hAt'.left.left.left.left.right.tail.head; simpa [Nat.add_assoc] using this)
          (by rw [e1]; exact At.cast hAt'.left.left.left.right (by simp [Nat.add_assoc]))
          (by rw [e1, ← hRBeq]; exact At.cast hAt'.left.left.right (by simp only [List.length_append, List.length_cons, List.length_nil]; omega))
          (by rw [e1, ← hRBeq]; exact hoofb)
          (by rw [e1, ← hRBeq]; have := hAt'.left.right.head
              refine Eq.trans (congrArg (fun k => X.K.C[k]?) ?_) this
              simp only [List.length_append, List.length_cons, List.length_nil]; omega)
          rfl rfl rfl rfl rfl rfl rfl rfl rfl hrelO
      have hheap : σi.heap = σ.heap := execIters_heap hit
      have hx15 : Ext s.closures s5.closures := x1.trans (by simpa [s2] using hx5)
      have hfr5 : s5.frames = f5 :: s.frames := by
        cases hf : s5.frames with
        | nil => rw [hf] at hlf; simp at hlf
        | cons g5 fs5 => rw [hf] at hlf htl5; simp at hlf htl5; rw [hlf, htl5]
      -- the relation of the scopes around the loop, for every state with these frames
      have hrelA : ∀ (s6 : VmState), s6.frames = s.frames → s6.closures = s5.closures → s6.outs = s5.outs →
          Rel X.K G X.P X.clo σi loc X.env s6 := by
        intro s6 hf6 hc6 ho6
        obtain ⟨e15, he15⟩ := hx15
        refine ⟨?_, by rw [ho6]; exact hout5⟩
        rw [hheap]
        exact hrel.1.ext s6 hf6 e15 (by rw [hc6, he15])
      cases els with
      | nil =>
        -- no else branch: PopLoopFrame
        have hσ : σ' = σi ∧ fl = .normal := by
          rcases hcase with ⟨hx, hb⟩ | ⟨_, h1, h2⟩
          · subst hx
            obtain ⟨rfl, rfl⟩ := execBlock_nil hb
            cases n with
            | zero => simp [execBlock] at hb
            | succ m => simp [execIters, loopInfos, loopInfosFrom] at hit; exact ⟨hit, rfl⟩
          · exact ⟨h1, h2⟩
        obtain ⟨rfl, rfl⟩ := hσ
        have hrest : rest = [.popLoopFrame] := by
          have := hcodeEq; rw [relStmt_for_nil, ← hEdef, ← hRB] at this
          simp at this
          exact this.symm
        subst hrest
        let s6 : VmState := { s5 with pc := s5.pc + 1, frames := s5.frames.tail }
        have hreach6 : Reach X.K.ctx X.K.C s5 s6 :=
          Reach.one' (i := .popLoopFrame) _ hAt'.right.head
            (by simp only [hpc5, hend, List.length_append, List.length_cons, List.length_nil]; omega)
            (by simp [MJ.Vm.step, s6])
        simp only [Post, if_true]
        refine ⟨s6, G, r1.trans (hreach2.trans (r5.trans hreach6)), ?_, ?_, hrelA s6 (by simp [s6, htl5]) rfl rfl, ?_, ?_, ?_,
          ClPres.of_ext (by simpa [s6] using hx15), HeadClos.of_eq (by simp [s6, htl5])⟩
        · rw [hcodeEq]; simp only [s6, hpc5, hend, List.length_append, List.length_cons, List.length_nil]; omega
        · simp [s6, hst5, s2]
        · simp [s6, houtt5, s2]
        · simp [s6, htl5]
        · simp [s6, htl5]
      | cons e0 es =>
        -- the shape of the code behind the loop
        have hrest : rest = [.pushDidNotIterate, .popLoopFrame,
              .jumpIfFalse (E + 3 + (relBlock (e0 :: es) (E + 3) RB.1.2 lc).1.1.length)] ++
              (relBlock (e0 :: es) (E + 3) RB.1.2 lc).1.1 := by
          have := hcodeEq; rw [relStmt_for_cons, ← hEdef, ← hRB] at this
          simp at this
          exact this.symm
        have hpre : base + ((relForIter target iter flt base a).1 ++ [Instr.pushLoop 1, Instr.iterate E] ++ relTarget target ++
            RB.1.1 ++ [Instr.jump (base + (relForIter target iter flt base a).1.length + 1)]).length = E := by
          simp only [hend, List.length_append, List.length_cons, List.length_nil]; omega
        have hAtR : At X.K.C E (Instr.pushDidNotIterate :: Instr.popLoopFrame ::
            Instr.jumpIfFalse (E + 3 + (relBlock (e0 :: es) (E + 3) RB.1.2 lc).1.1.length) ::
            (relBlock (e0 :: es) (E + 3) RB.1.2 lc).1.1) := by
          have h := At.cast hAt'.right hpre
          rw [hrest] at h
          exact h
        have hrestLen : rest.length = 3 + (relBlock (e0 :: es) (E + 3) RB.1.2 lc).1.1.length := by
          rw [hrest]; simp; omega
        have hoofE : (relBlock (e0 :: es) (E + 3) RB.1.2 lc).1.2.oof = false := by
          have := hoof; rw [relStmt_for_cons, ← hEdef, ← hRB] at this; exact this
        -- PushDidNotIterate, PopLoopFrame
        let s6 : VmState := { s5 with pc := E + 1, stack := .bool (!lf.iterated) :: s5.stack }
        have hreach6 : Reach X.K.ctx X.K.C s5 s6 :=
          Reach.one' (i := .pushDidNotIterate) _ hAtR.head hpc5
            (by simp [MJ.Vm.step, hfr5, currentLoop, hlf5, s6, hpc5])
        let s7 : VmState := { s6 with pc := E + 2, frames := s.frames }
        have hreach7 : Reach X.K.ctx X.K.C s6 s7 :=
          Reach.one' (i := .popLoopFrame) _ hAtR.tail.head (by simp [s6])
            (by simp [MJ.Vm.step, s7, s6, hfr5])
        have hj := hAtR.tail.tail.head
        have hst7 : s7.stack = .bool (!lf.iterated) :: s.stack := by simp [s7, s6, hst5, s2]
        rcases hcase with ⟨hx, hb⟩ | ⟨hx, h1, h2⟩
        · -- empty sequence: the else branch runs
          subst hx
          have hσi : σi = σ := by
            cases n with
            | zero => simp [execBlock] at hb
            | succ m => simp [execIters, loopInfos, loopInfosFrom] at hit; exact hit.symm
          subst hσi
          have hitf : lf.iterated = false := by simpa [l0] using hitd
          let s8 : VmState := { s7 with pc := E + 3, stack := s.stack }
          have hreach8 : Reach X.K.ctx X.K.C s7 s8 :=
            Reach.one' (i := .jumpIfFalse _) _ hj (by simp [s7]) (by simp only [MJ.Vm.step, hst7]; simp [hitf, truthy, s8, s7])
          have hrel8 : Rel X.K G X.P X.clo σi loc X.env s8 := hrelA s8 (by simp [s8, s7]) (by simp [s8, s7, s6]) (by simp [s8, s7, s6])
          have hlen8 : s8.outs.length = s.outs.length := by
            have : s8.outs.tail = s.outs.tail := by simp [s8, s7, s6, houtt5, s2]
            exact outs_length_of_tail hrel8 hrel this
          have rpre : Reach X.K.ctx X.K.C s s8 := r1.trans (hreach2.trans (r5.trans (hreach6.trans (hreach7.trans hreach8))))
          have hcp8 : ClPres s s8 := ClPres.of_ext (by simpa [s8, s7, s6] using hx15)
          have hhc8 : HeadClos s s8 := HeadClos.of_eq (by simp [s8, s7])
          have p9 := ihB X (e0 :: es) G σi loc σ' fl hb A lc hs'.2 hA hne (E + 3) _ s8
              (At.cast hAtR.tail.tail.tail (by omega)) hoofE rfl hrel8 (nCap_le_of hcap hlen8)
          by_cases hfl : fl = .normal
          · subst hfl
            simp only [Post, if_true] at p9 ⊢
            obtain ⟨s9, G9, r9, hpc9, hst9, hrel9, hout9, htl9, hhd9, hcp9, hhc9⟩ := p9
            refine ⟨s9, G9, rpre.trans r9, ?_, ?_, hrel9, ?_, ?_, ?_, hcp8.trans hhc8 hcp9, hhc8.trans hcp8.1 hhc9⟩
            · rw [hpc9, hcodeEq, List.length_append, hrestLen]; omega
            · simp [hst9, s8]
            · rw [hout9]; simp [s8, s7, s6, houtt5, s2]
            · rw [htl9]
            · rw [hhd9]
          · exact Post.prefix_nn hfl rpre (by simp [s8]) (by simp [s8, s7]) (by simp [s8, s7])
              (by simp [s8, s7, s6, houtt5, s2]) hcp8 hhc8 p9
        · -- at least one iteration: jump over the else branch
          subst h1; subst h2
          have hitt : lf.iterated = true := by
            cases xs with
            | nil => exact absurd rfl hx
            | cons y ys => simpa [l0] using hitd
          let s8 : VmState := { s7 with pc := E + 3 + (relBlock (e0 :: es) (E + 3) RB.1.2 lc).1.1.length, stack := s.stack }
          have hreach8 : Reach X.K.ctx X.K.C s7 s8 :=
            Reach.one' (i := .jumpIfFalse _) _ hj (by simp [s7])
              (by simp only [MJ.Vm.step, hst7]; simp [hitt, truthy, s8, s7])
          simp only [Post, if_true]
          refine ⟨s8, G, r1.trans (hreach2.trans (r5.trans (hreach6.trans (hreach7.trans hreach8)))), ?_, ?_,
            hrelA s8 (by simp [s8, s7]) (by simp [s8, s7, s6]) (by simp [s8, s7, s6]), ?_, ?_, ?_,
            ClPres.of_ext (by simpa [s8, s7, s6] using hx15), HeadClos.of_eq (by simp [s8, s7])⟩
          · rw [hcodeEq, List.length_append, hrestLen]; simp only [s8]; omega
          · simp [s8]
          · simp [s8, s7, s6, houtt5, s2]
          · simp [s8, s7]
          · simp [s8, s7]

/-- the common part of set-blocks and filter-blocks: capture the body, apply the filter chain; the
result is on the operand stack, the capture buffer is gone -/
theorem sim_capture {n} (ihB : SimBlock n) (ihF : SimFilters n) (X : SC) (filters : List FilterApp) (body : List Stmt)
    {G σ loc σ1 fl1 A lc base a s} (hr : execBlock n X.K.ctx (loc ++ X.env) { σ with out := "" } body = .ok (σ1, fl1))
    (hsf : wfFilters X.K.M X.P A filters = true) (hsb : wfBlock X.K.M X.P A (pushScope .capture lc).isSome body = true)
    (hA : ABound σ.heap loc A) (hne : loc ≠ [])
    (hAt : At X.K.C base ([Instr.beginCapture] ++ (relBlock body (base + 1) a (pushScope .capture lc)).1.1 ++ [Instr.endCapture] ++
      (relFilters filters (base + 1 + (relBlock body (base + 1) a (pushScope .capture lc)).1.1.length + 1)
        (relBlock body (base + 1) a (pushScope .capture lc)).1.2).1))
    (hoof : (relFilters filters (base + 1 + (relBlock body (base + 1) a (pushScope .capture lc)).1.1.length + 1)
        (relBlock body (base + 1) a (pushScope .capture lc)).1.2).2.oof = false)
    (hpc : s.pc = base) (hrel : Rel X.K G X.P X.clo σ loc X.env s)
    (hcap : ∀ l, lc = some l → nCap l.scopes < s.outs.length) :
    (fl1 = .normal → ∀ v, applyFilters n X.K.ctx σ1.heap (loc ++ X.env) (.str σ1.out) filters = .ok v →
      ∃ s4 G4, Reach X.K.ctx X.K.C s s4 ∧
        s4.pc = base + 1 + (relBlock body (base + 1) a (pushScope .capture lc)).1.1.length + 1 +
          (relFilters filters (base + 1 + (relBlock body (base + 1) a (pushScope .capture lc)).1.1.length + 1)
            (relBlock body (base + 1) a (pushScope .capture lc)).1.2).1.length ∧
        s4.stack = v :: s.stack ∧ Rel X.K G4 X.P X.clo { heap := σ1.heap, out := σ.out } loc X.env s4 ∧ s4.outs = s.outs ∧
        s4.frames.tail = s.frames.tail ∧ s4.frames.head?.map Frame.sig = s.frames.head?.map Frame.sig ∧
        ClPres s s4 ∧ HeadClos s s4) ∧
    (fl1 ≠ .normal → ∃ l, lc = some l ∧ Unw X { heap := σ1.heap, out := σ.out } s (jumpTarget fl1 l) l.scopes) := by
  have hoB := oof_false_of_relFilters hoof
  -- BeginCapture
  let s1 : VmState := { s with pc := base + 1, outs := "" :: s.outs }
  have hreach1 : Reach X.K.ctx X.K.C s s1 :=
    Reach.one (i := .beginCapture) (by rw [hpc]; exact hAt.left.left.left.head) (by simp [MJ.Vm.step, s1, hpc])
  have hrel1 : Rel X.K G X.P X.clo { σ with out := "" } loc X.env s1 := ⟨hrel.1.same s1 rfl rfl, ⟨s.outs, rfl⟩⟩
  have p2 := ihB X body G _ loc σ1 fl1 hr A (pushScope .capture lc) hsb hA hne (base + 1) a s1
      (At.cast hAt.left.left.right (by simp)) hoB rfl hrel1
      (by intro l' hl'
          cases lc with
          | none => simp [pushScope] at hl'
          | some l =>
            simp only [pushScope, Option.some.injEq] at hl'
            subst hl'
            have := hcap l rfl
            simp only [nCap, s1, List.length_cons]; omega)
  constructor
  · intro hfl1 v hv
    subst hfl1
    simp only [Post, if_true] at p2
    obtain ⟨s2, G2, r2, hpc2, hst2, hrel2, hout2, htl2, hhd2, hcp2, hhc2⟩ := p2
    obtain ⟨r2out, hr2⟩ := hrel2.2
    have hr2' : r2out = s.outs := by have := hout2; rw [hr2] at this; simpa [s1] using this
    subst hr2'
    -- EndCapture
    let pB : Nat := base + 1 + (relBlock body (base + 1) a (pushScope .capture lc)).1.1.length + 1
    let s3 : VmState := { s2 with pc := pB, stack := .str σ1.out :: s.stack, outs := s.outs }
    have hreach3 : Reach X.K.ctx X.K.C s2 s3 :=
      Reach.one' (i := .endCapture) _ hAt.left.right.head
        (by simp only [hpc2, List.length_append, List.length_cons, List.length_nil]; omega)
        (by obtain ⟨rest0, hr0⟩ := hrel.2
            simp [MJ.Vm.step, hr2, hr0, s3, pB, hpc2, hst2, s1])
    have hrel3 : Rel X.K G2 X.P X.clo { heap := σ1.heap, out := σ.out } loc X.env s3 :=
      ⟨hrel2.1.same s3 rfl rfl, hrel.2⟩
    have hA3 : ABound σ1.heap loc A := by
      have := execBlock_keys hr
      exact hA.mono this
    obtain ⟨c4, x4, r4⟩ := ihF (X.ectx G2 σ1.heap loc A) filters (.str σ1.out) v hv hsf pB
      (relBlock body (base + 1) a (pushScope .capture lc)).1.2 s3 s.stack
      (At.cast hAt.right (by simp only [pB, List.length_append, List.length_cons, List.length_nil]; omega))
      hoof rfl rfl (hrel3.eok hA3 hne)
    have hcp12 : ClPres s s2 := (ClPres.of_eq (s := s) (s' := s1) rfl).trans (HeadClos.of_eq rfl) hcp2
    have hhc12 : HeadClos s s2 := (HeadClos.of_eq (s := s) (s' := s1) rfl).trans (Nat.le_refl _) hhc2
    refine ⟨{ s3 with pc := pB + (relFilters filters pB (relBlock body (base + 1) a (pushScope .capture lc)).1.2).1.length,
                       stack := v :: s.stack, closures := c4 }, G2,
      hreach1.trans (r2.trans (hreach3.trans r4)), rfl, rfl, hrel3.ext _ rfl x4 rfl rfl, rfl, ?_, ?_, ?_, ?_⟩
    · simpa [s3] using htl2
    · simpa [s3] using hhd2
    · exact hcp12.trans hhc12 (ClPres.of_ext (s := s2) (by simpa [s3] using x4))
    · exact hhc12.trans hcp12.1 (HeadClos.of_eq (by simp [s3]))
  · intro hfl1
    simp only [Post, hfl1, if_false] at p2
    obtain ⟨l', hl', s3, r3, hpc3, hst3, htl3, hhd3, hout3, hlen3, hun3⟩ := p2
    cases lc with
    | none => simp [pushScope] at hl'
    | some l =>
      simp only [pushScope, Option.some.injEq] at hl'
      subst hl'
      refine ⟨l, rfl, s3, hreach1.trans r3, ?_, ?_, ?_, ?_, ?_, hlen3, ?_⟩
      · rw [hpc3]; cases fl1 <;> rfl
      · rw [hst3]
      · simpa [nWith, s1] using htl3
      · simpa [nWith, s1] using hhd3
      · obtain ⟨rest, hrr⟩ := hrel.2
        rw [hout3]; simp [nCap, s1, hrr]
      · intro c hc hu
        exact hun3 c hc (by simpa [nWith, s1] using hu)

theorem sim_setBlock {n} (ihB : SimBlock n) (ihF : SimFilters n) (X : SC) (x : String) (filters : List FilterApp) (body : List Stmt) :
    StmtGoal (n + 1) X (.setBlock x filters body) := by
  intro G σ loc σ' fl hev A lc hs hA hne base a s hAt hoof hpc hrel hcap
  have hs' : (¬ x ∈ X.K.M ∧ wfFilters X.K.M X.P A filters = true) ∧ wfBlock X.K.M X.P A (pushScope .capture lc).isSome body = true := by
    simpa [wfStmt] using hs
  simp only [exec, bind, Except.bind] at hev
  split at hev
  · simp at hev
  · rename_i r hr
    obtain ⟨σ1, fl1⟩ := r
    simp only [relStmt] at hAt hoof ⊢
    obtain ⟨hnorm, hjump⟩ := sim_capture ihB ihF X filters body hr hs'.1.2 hs'.2 hA hne hAt.left hoof hpc hrel hcap
    by_cases hfl1 : fl1 = .normal
    · subst hfl1
      simp only at hev
      split at hev
      · simp at hev
      · rename_i v hv
        obtain ⟨s4, G4, r4, hpc4, hst4, hrel4, hout4, htl4, hhd4, hcp4, hhc4⟩ := hnorm rfl v hv
        cases loc with
        | nil => exact absurd rfl hne
        | cons cell rs =>
          simp [topCell] at hev
          obtain ⟨rfl, rfl⟩ := hev
          let s5 : VmState := { s4 with pc := s4.pc + 1, stack := s.stack, frames := storeLocal x v s4.frames,
                                        closures := storeClosure x v s4.frames s4.closures }
          have hreach5 : Reach X.K.ctx X.K.C s4 s5 :=
            Reach.one' (i := .storeLocal x) _ hAt.right.head
              (by simp only [hpc4, List.length_append, List.length_cons, List.length_nil]; omega)
              (by simp [MJ.Vm.step, s5, hst4])
          simp only [Post, if_true]
          have hcp5 : ClPres s4 s5 := ClPres.store x v rfl
          have hhc5 : HeadClos s4 s5 := HeadClos.of_eq (topClosure_storeLocal _ _ _)
          refine ⟨s5, G4, r4.trans hreach5, ?_, rfl, ?_, ?_, ?_, ?_, hcp4.trans hhc4 hcp5, hhc4.trans hcp4.1 hhc5⟩
          · simp only [s5, hpc4, List.length_append, List.length_cons, List.length_nil]; omega
          · exact hrel4.store x v v (by simp [ValAgree, hs'.1.1])
              (fun _ => applyFilters_plain hrel4.1.plain n _ filters v rfl hs'.1.2 hv) s5 rfl rfl rfl
          · simp [s5, hout4]
          · simp only [s5, storeLocal_tail, htl4]
          · simp only [s5, storeLocal_headLoop, hhd4]
    · -- `break` / `continue` inside the block: the capture buffer was dropped on the way out
      have hev' : σ' = { heap := σ1.heap, out := σ.out } ∧ fl = fl1 := by
        cases fl1
        · exact absurd rfl hfl1
        · simp at hev; exact ⟨hev.1.symm, hev.2.symm⟩
        · simp at hev; exact ⟨hev.1.symm, hev.2.symm⟩
      obtain ⟨rfl, rfl⟩ := hev'
      simp only [Post, hfl1, if_false]
      exact hjump hfl1

theorem sim_filterBlock {n} (ihB : SimBlock n) (ihF : SimFilters n) (X : SC) (filters : List FilterApp) (body : List Stmt) :
    StmtGoal (n + 1) X (.filterBlock filters body) := by
  intro G σ loc σ' fl hev A lc hs hA hne base a s hAt hoof hpc hrel hcap
  have hs' : wfFilters X.K.M X.P A filters = true ∧ wfBlock X.K.M X.P A (pushScope .capture lc).isSome body = true := by
    simpa [wfStmt] using hs
  simp only [exec, bind, Except.bind] at hev
  split at hev
  · simp at hev
  · rename_i r hr
    obtain ⟨σ1, fl1⟩ := r
    simp only [relStmt] at hAt hoof ⊢
    obtain ⟨hnorm, hjump⟩ := sim_capture ihB ihF X filters body hr hs'.1 hs'.2 hA hne hAt.left hoof hpc hrel hcap
    by_cases hfl1 : fl1 = .normal
    · subst hfl1
      simp only at hev
      split at hev
      · simp at hev
      · rename_i v hv
        obtain ⟨s4, G4, r4, hpc4, hst4, hrel4, hout4, htl4, hhd4, hcp4, hhc4⟩ := hnorm rfl v hv
        simp at hev
        obtain ⟨rfl, rfl⟩ := hev
        let s5 : VmState := { s4 with pc := s4.pc + 1, stack := s.stack, outs := MJ.Vm.appendOut (render v) s4.outs }
        have hreach5 : Reach X.K.ctx X.K.C s4 s5 :=
          Reach.one' (i := .emit) _ hAt.right.head
            (by simp only [hpc4, List.length_append, List.length_cons, List.length_nil]; omega)
            (by simp [MJ.Vm.step, s5, hst4])
        have hr5 := hrel4.appendOut (render v) s5 rfl rfl rfl
        simp only [Post, if_true]
        refine ⟨s5, G4, r4.trans hreach5, ?_, rfl, hr5.1, ?_, ?_, ?_, hcp4.trans hhc4 (ClPres.of_eq rfl),
          hhc4.trans hcp4.1 (HeadClos.of_eq rfl)⟩
        · simp only [s5, hpc4, List.length_append, List.length_cons, List.length_nil]; omega
        · rw [hr5.2, hout4]
        · simpa [s5] using htl4
        · simpa [s5] using hhd4
    · have hev' : σ' = { heap := σ1.heap, out := σ.out } ∧ fl = fl1 := by
        cases fl1
        · exact absurd rfl hfl1
        · simp at hev; exact ⟨hev.1.symm, hev.2.symm⟩
        · simp at hev; exact ⟨hev.1.symm, hev.2.symm⟩
      obtain ⟨rfl, rfl⟩ := hev'
      simp only [Post, hfl1, if_false]
      exact hjump hfl1

/-! ## Macro declarations -/

theorem Rel.lookup {X : SC} {G σ loc s A} (h : Rel X.K G X.P X.clo σ loc X.env s) (hA : ABound σ.heap loc A) (hne : loc ≠ [])
    {x : String} (hx : allowed X.P A x = true) :
    ValAgree X.K G s.closures σ.heap.length x ((MJ.Eval.lookup X.K.ctx σ.heap (loc ++ X.env) x).getD .undef)
      (lookupFrames X.K.ctx s.closures x s.frames) :=
  (h.eok hA hne).lookup hx

/-- `Enclose` when the closure of the innermost frame is `cls1[c]` (`cls1` = the closures, with a fresh
empty one appended if the frame had none) -/
theorem step_enclose {ctx : Scope} {x : String} {s : VmState} {f : Frame} {rest : List Frame} {c : Nat} {cls1 : List Scope}
    {m : Scope} (hfr : s.frames = f :: rest)
    (hc : (f.closure = some c ∧ cls1 = s.closures) ∨ (f.closure = none ∧ c = s.closures.length ∧ cls1 = s.closures ++ [[]]))
    (hm : cls1[c]? = some m) :
    MJ.Vm.step ctx (.enclose x) s = .ok (if (assocGet x m).isSome = true
      then { s with pc := s.pc + 1, frames := { f with closure := some c } :: rest, closures := cls1 }
      else { s with pc := s.pc + 1, frames := { f with closure := some c } :: rest,
                    closures := cls1.set c (assocSet x (lookupFrames ctx cls1 x ({ f with closure := some c } :: rest)) m) }) := by
  rcases hc with ⟨hcl, rfl⟩ | ⟨hcl, rfl, rfl⟩
  · simp only [MJ.Vm.step, encloseStep, hfr, hcl, Option.getD_some, hm]
    split <;> rfl
  · simp only [MJ.Vm.step, encloseStep, hfr, hcl, Option.getD_none, hm]
    split <;> rfl

/-- one `Enclose`: the closure of the innermost frame exists afterwards and holds the name -/
theorem sim_enclose (X : SC) (x : String) {G σ T locR A s} (hrel : Rel X.K G X.P X.clo σ (T :: locR) X.env s)
    (hA : ABound σ.heap (T :: locR) A) (hx : allowed X.P A x = true) (hi : X.K.C[s.pc]? = some (.enclose x)) :
    ∃ s' G', Reach X.K.ctx X.K.C s s' ∧ s'.pc = s.pc + 1 ∧ s'.stack = s.stack ∧ Rel X.K G' X.P X.clo σ (T :: locR) X.env s' ∧
      s'.outs = s.outs ∧ s'.frames.tail = s.frames.tail ∧ s'.frames.head?.map Frame.sig = s.frames.head?.map Frame.sig ∧
      ClPres s s' ∧ HeadClos s s' ∧
      (∃ c m, topClosure s'.frames = some c ∧ s'.closures[c]? = some m ∧ (assocGet x m).isSome = true) := by
  obtain ⟨locF, tailF, hfr0, hfrel, _, hown1, _⟩ := hrel.1.frames
  cases locF with
  | nil => simp [FramesRel] at hfrel
  | cons f fsR =>
    have hfr : s.frames = f :: (fsR ++ tailF) := by rw [hfr0]; rfl
    -- (i) the closure of the frame
    have hstage : ∃ sa Ga c m, sa.pc = s.pc ∧ sa.stack = s.stack ∧ sa.outs = s.outs ∧
        sa.frames = { f with closure := some c } :: (fsR ++ tailF) ∧ sa.closures[c]? = some m ∧
        Rel X.K Ga X.P X.clo σ (T :: locR) X.env sa ∧ ClPres s sa ∧ HeadClos s sa ∧
        ((f.closure = some c ∧ sa.closures = s.closures) ∨
          (f.closure = none ∧ c = s.closures.length ∧ sa.closures = s.closures ++ [[]])) := by
      cases hcl : f.closure with
      | some c =>
        have hGc := hown1 0 f c (by simp) hcl
        obtain ⟨m, hm, _⟩ := hrel.1.closOK c _ hGc
        refine ⟨s, G, c, m, rfl, rfl, rfl, ?_, hm, hrel, ClPres.refl _, HeadClos.refl _, Or.inl ⟨rfl, rfl⟩⟩
        rw [hfr]; congr 1; cases f; simp_all
      | none =>
        let sa : VmState := { s with frames := { f with closure := some s.closures.length } :: (fsR ++ tailF),
                                     closures := s.closures ++ [[]] }
        obtain ⟨hnew, _⟩ := hrel.1.newClosure hfr hcl sa rfl rfl
        refine ⟨sa, _, s.closures.length, [], rfl, rfl, rfl, rfl, by simp [sa], ⟨hnew, hrel.2⟩, ?_, ?_, Or.inr ⟨rfl, rfl, rfl⟩⟩
        · exact ClPres.of_ext ⟨[[]], rfl⟩
        · exact Or.inr ⟨by rw [hfr]; simpa [topClosure] using hcl, s.closures.length, by simp [sa, topClosure], Nat.le_refl _⟩
    obtain ⟨sa, Ga, c, m, hpca, hsta, houta, hfra, hma, hrela, hcpa, hhca, hcases⟩ := hstage
    have hstep0 := step_enclose (ctx := X.K.ctx) (x := x) (s := s) (f := f) (rest := fsR ++ tailF) (c := c)
      (cls1 := sa.closures) (m := m) hfr
      (by rcases hcases with ⟨h1, h2⟩ | ⟨h1, h2, h3⟩
          · exact Or.inl ⟨h1, h2⟩
          · exact Or.inr ⟨h1, h2, h3⟩) hma
    -- (ii) the entry
    have hval := hrela.lookup (X := X) hA (by simp) hx
    have hsaeq : sa = { s with frames := { f with closure := some c } :: (fsR ++ tailF), closures := sa.closures } := by
      cases sa; simp_all
    by_cases hin : (assocGet x m).isSome = true
    · -- already enclosed
      let s' : VmState := { sa with pc := s.pc + 1 }
      have hstep : MJ.Vm.step X.K.ctx (.enclose x) s = .ok s' := by
        rw [hstep0, if_pos hin]; congr 1; simp only [s']; rw [hsaeq]
      refine ⟨s', Ga, Reach.one hi hstep, rfl, by simp [s', hsta], hrela.same s' rfl rfl rfl, by simp [s', houta],
        by simp [s', hfra, hfr], by simp [s', hfra, hfr, Frame.sig], hcpa.trans hhca (ClPres.of_eq rfl),
        hhca.trans hcpa.1 (HeadClos.of_eq rfl), ⟨c, m, by simp [s', hfra, topClosure], by simpa [s'] using hma, hin⟩⟩
    · let u := lookupFrames X.K.ctx sa.closures x sa.frames
      let s' : VmState := { sa with pc := s.pc + 1, closures := sa.closures.set c (assocSet x u m) }
      have hstep : MJ.Vm.step X.K.ctx (.enclose x) s = .ok s' := by
        rw [hstep0, if_neg hin]; congr 1; simp only [s', u, hfra]; rw [hsaeq]
      have hrel' : Rel X.K Ga X.P X.clo σ (T :: locR) X.env s' :=
        ⟨hrela.1.addEntry hfra rfl hma x u hval s' rfl rfl, by simpa [s'] using hrela.2⟩
      have hlt := lt_of_getElem?_some hma
      have hcp' : ClPres sa s' := by
        refine ⟨by simp [s'], ?_, fun i hi hne => ?_⟩
        · intro i mi hmi
          by_cases hic : i = c
          · subst hic
            rw [hma] at hmi; cases hmi
            exact ⟨assocSet x u m, by simp [s', hlt], fun y hy => isSome_assocSet x y u m hy⟩
          · exact ⟨mi, by simp only [s']; rw [List.getElem?_set_ne (Ne.symm hic)]; exact hmi, fun _ h => h⟩
        · have hic : i ≠ c := by
            intro e; subst e
            exact hne (by rw [hfra]; rfl)
          simp only [s']; rw [List.getElem?_set_ne (Ne.symm hic)]
      refine ⟨s', Ga, Reach.one hi hstep, rfl, by simp [s', hsta], hrel', by simp [s', houta],
        by simp [s', hfra, hfr], by simp [s', hfra, hfr, Frame.sig], hcpa.trans hhca hcp',
        hhca.trans hcpa.1 (HeadClos.of_eq rfl),
        ⟨c, assocSet x u m, by simp [s', hfra, topClosure], by simp [s', hlt], by simp [assocGet_assocSet_same]⟩⟩

theorem HeadClos.some_stays {s s' : VmState} (h : HeadClos s s') {c : Nat} (hc : topClosure s.frames = some c) :
    topClosure s'.frames = some c := by
  rcases h with h | ⟨hn, _⟩
  · rw [h]; exact hc
  · rw [hc] at hn; cases hn

/-- the `Enclose` instructions of a declaration -/
theorem sim_encloses (X : SC) {σ : State} {T : Nat} {locR : List Nat} {A : List String}
    (hA : ABound σ.heap (T :: locR) A) : ∀ (names : List String) (G : Ghost) (s : VmState),
    At X.K.C s.pc (names.map Instr.enclose) → Rel X.K G X.P X.clo σ (T :: locR) X.env s →
    (∀ x ∈ names, allowed X.P A x = true) →
    ∃ s' G', Reach X.K.ctx X.K.C s s' ∧ s'.pc = s.pc + names.length ∧ s'.stack = s.stack ∧
      Rel X.K G' X.P X.clo σ (T :: locR) X.env s' ∧
      s'.outs = s.outs ∧ s'.frames.tail = s.frames.tail ∧ s'.frames.head?.map Frame.sig = s.frames.head?.map Frame.sig ∧
      ClPres s s' ∧ HeadClos s s' ∧
      (∀ x ∈ names, ∃ c m, topClosure s'.frames = some c ∧ s'.closures[c]? = some m ∧ (assocGet x m).isSome = true)
  | [], G, s, _, hrel, _ =>
    ⟨s, G, Reach.refl _, by simp, rfl, hrel, rfl, rfl, rfl, ClPres.refl _, HeadClos.refl _, fun x hx => by simp at hx⟩
  | x :: rest, G, s, hAt, hrel, hall => by
    simp only [List.map_cons] at hAt
    obtain ⟨s1, G1, r1, hpc1, hst1, hrel1, hout1, htl1, hhd1, hcp1, hhc1, c1, m1, htop1, hm1, hx1⟩ :=
      sim_enclose X x hrel hA (hall x (by simp)) hAt.head
    obtain ⟨s2, G2, r2, hpc2, hst2, hrel2, hout2, htl2, hhd2, hcp2, hhc2, hk2⟩ :=
      sim_encloses X hA rest G1 s1 (by rw [hpc1]; exact hAt.tail) hrel1 (fun y hy => hall y (by simp [hy]))
    refine ⟨s2, G2, r1.trans r2, by rw [hpc2, hpc1]; simp; omega, hst2.trans hst1, hrel2, hout2.trans hout1, htl2.trans htl1,
      hhd2.trans hhd1, hcp1.trans hhc1 hcp2, hhc1.trans hcp1.1 hhc2, fun y hy => ?_⟩
    rcases List.mem_cons.1 hy with rfl | hy'
    · obtain ⟨m2, hm2, hkeys⟩ := hcp2.2.1 c1 m1 hm1
      exact ⟨c1, m2, hhc2.some_stays htop1, hm2, hkeys y hx1⟩
    · exact hk2 y hy'

theorem mem_insertSorted (x y : String) : ∀ (l : List String), y ∈ insertSorted x l ↔ y = x ∨ y ∈ l
  | [] => by simp [insertSorted]
  | z :: rest => by
    simp only [insertSorted]
    split
    · simp
    · simp only [List.mem_cons, mem_insertSorted x y rest]
      constructor
      · rintro (h | h | h)
        · exact Or.inr (Or.inl h)
        · exact Or.inl h
        · exact Or.inr (Or.inr h)
      · rintro (h | h | h)
        · exact Or.inr (Or.inl h)
        · exact Or.inl h
        · exact Or.inr (Or.inr h)

theorem mem_sortNames (y : String) : ∀ (l : List String), y ∈ sortNames l ↔ y ∈ l
  | [] => by simp [sortNames]
  | x :: rest => by
    have ih := mem_sortNames y rest
    simp only [sortNames, List.foldr_cons] at ih ⊢
    rw [mem_insertSorted]; simp [ih]

theorem specNames_str (ps : List String) : specNames (ps.map Val.str) = ps := by
  unfold specNames
  induction ps with
  | nil => rfl
  | cons p rest ih => simp [ih]

theorem macroFlags_flag (fv : List String) : (macroFlags fv / 2 % 2 == 1) = fv.contains "caller" := by
  unfold macroFlags macroCallerFlag
  cases fv.contains "caller" <;> simp

/-- a macro declaration expression (`compile_macro_expression`): the jump over the macro's code, the
`Enclose`s, `GetClosure`, `LoadConst`, `BuildMacro` — the macro object is on the operand stack -/
theorem sim_macro_expr (X : SC) (name : String) (params : List String) (defaults : List Expr) (body : List Stmt) (uc : Bool)
    {G : Ghost} {σ : State} {T : Nat} {locR : List Nat} {A : List String} {s : VmState} {base : Nat} {a : Aux}
    (hfvall : (fvOf params defaults body).all (allowed X.P A) = true)
    (hwfb : wfMacroBody X.K.M params defaults body uc = true) (hA : ABound σ.heap (T :: locR) A)
    (Rp : List Instr × Aux) (hRp : Rp = relPrologue (paramDefaults params defaults).reverse (base + 1) a)
    (Rb : (List Instr × Aux) × List Nat) (hRb : Rb = relBlock body (base + 1 + Rp.1.length) Rp.2 none)
    (hAt : At X.K.C base (macroDeclCode name params (findMacroClosure params defaults body) base Rp.1 Rb.1.1))
    (hoof : Rb.1.2.oof = false) (hpc : s.pc = base) (hrel : Rel X.K G X.P X.clo σ (T :: locR) X.env s) :
    ∃ s5 G2 vm, Reach X.K.ctx X.K.C s s5 ∧
      s5.pc = base + (macroDeclCode name params (findMacroClosure params defaults body) base Rp.1 Rb.1.1).length ∧
      s5.stack = vm :: s.stack ∧ Rel X.K G2 X.P X.clo σ (T :: locR) X.env s5 ∧
      MacroRel X.K G2 s5.closures σ.heap.length vm (.macro name params defaults body uc (T :: (locR ++ X.env))) ∧
      s5.outs = s.outs ∧ s5.frames.tail = s.frames.tail ∧
      s5.frames.head?.map Frame.sig = s.frames.head?.map Frame.sig ∧ ClPres s s5 ∧ HeadClos s s5 := by
  simp only [macroDeclCode] at hAt ⊢
  -- Jump over the macro
  let mi : Nat := base + 1 + Rp.1.length + Rb.1.1.length + 1
  let s1 : VmState := { s with pc := mi }
  have hreach1 : Reach X.K.ctx X.K.C s s1 :=
    Reach.one (i := .jump mi) (by rw [hpc]; exact hAt.left.left.left.left.left.head) (by simp [MJ.Vm.step, s1])
  have hrel1 : Rel X.K G X.P X.clo σ (T :: locR) X.env s1 := hrel.same s1 rfl rfl rfl
  -- the `Enclose`s
  have hAtE : At X.K.C s1.pc ((sortNames (fvOf params defaults body)).map Instr.enclose) := by
    have := hAt.left.right
    refine At.cast this ?_
    simp only [s1, mi, List.length_append, List.length_cons, List.length_nil]; omega
  obtain ⟨s2, G2, r2, hpc2, hst2, hrel2, hout2, htl2, hhd2, hcp2, hhc2, hk2⟩ :=
    sim_encloses X hA (sortNames (fvOf params defaults body)) G s1 hAtE hrel1
      (fun x hx => by
        have hx' : x ∈ fvOf params defaults body := (mem_sortNames x _).1 hx
        exact (List.all_eq_true.1 hfvall) x hx')
  have hElen : (relEnclose (findMacroClosure params defaults body)).length = (sortNames (fvOf params defaults body)).length := by
    simp [relEnclose, fvOf]
  -- GetClosure, LoadConst, BuildMacro
  let pE : Nat := mi + (relEnclose (findMacroClosure params defaults body)).length
  have hpc2' : s2.pc = pE := by rw [hpc2]; simp only [s1, pE, hElen]
  have hAtT : At X.K.C pE [Instr.getClosure, Instr.loadConst (Val.list (params.map Val.str)),
      Instr.buildMacro name (base + 1) (macroFlags (findMacroClosure params defaults body))] := by
    refine At.cast hAt.right ?_
    simp only [pE, mi, List.length_append, List.length_cons, List.length_nil]; omega
  let cv : Val := match topClosure s2.frames with | some c => .int c | none => .undef
  let clo' : Option Nat := topClosure s2.frames
  have hcv : closureOf cv = clo' := by
    simp only [cv, clo', closureOf]; cases topClosure s2.frames <;> simp
  have hst2' : s2.stack = s.stack := by rw [hst2]
  let s3 : VmState := { s2 with pc := s2.pc + 1, stack := cv :: s2.stack }
  have r3 : Reach X.K.ctx X.K.C s2 s3 :=
    Reach.one' (i := .getClosure) _ hAtT.head hpc2' (by simp only [MJ.Vm.step]; rfl)
  let s4 : VmState := { s2 with pc := s2.pc + 2, stack := .list (params.map Val.str) :: cv :: s2.stack }
  have r4 : Reach X.K.ctx X.K.C s3 s4 :=
    Reach.one' (i := .loadConst _) _ hAtT.tail.head (by simp [s3, hpc2']) (by simp [MJ.Vm.step, s3, s4])
  let vm : Val := .vmMacro name params (base + 1) clo' uc
  let s5 : VmState := { s2 with pc := s2.pc + 3, stack := vm :: s2.stack }
  have huc : uc = (findMacroClosure params defaults body).contains "caller" := by
    have := hwfb; simp only [wfMacroBody, Bool.and_eq_true, beq_iff_eq] at this; exact this.1.1.2
  have r5 : Reach X.K.ctx X.K.C s4 s5 :=
    Reach.one' (i := .buildMacro _ _ _) _ hAtT.tail.tail.head (by simp [s4, hpc2'])
      (by
        simp only [MJ.Vm.step, s4, specNames_str, macroFlags_flag, ← huc, hcv]
        rfl)
  have hrel5 : Rel X.K G2 X.P X.clo σ (T :: locR) X.env s5 := hrel2.same s5 rfl rfl rfl
  -- the two macro values correspond
  have hmrel : MacroRel X.K G2 s5.closures σ.heap.length vm (.macro name params defaults body uc (T :: (locR ++ X.env))) := by
    refine ⟨base + 1, clo', rfl, ⟨a, ?_, ?_⟩, hwfb, fun id hid => hrel.1.bound id (by simpa using hid), ?_, ?_⟩
    · rw [← hRp, ← hRb]
      have h4 : At X.K.C base ([Instr.jump mi] ++ (Rp.1 ++ Rb.1.1 ++ [Instr.return_])) := by
        have := hAt.left.left
        simpa [List.append_assoc, mi] using this
      simpa using h4.right
    · rw [← hRp, ← hRb]; exact hoof
    · intro c hc
      obtain ⟨locF, tailF, hfr0, hfrel, _, hown1, _⟩ := hrel2.1.frames
      cases locF with
      | nil => simp [FramesRel] at hfrel
      | cons f0 fsR =>
        have htop : topClosure s2.frames = f0.closure := by rw [hfr0]; rfl
        have := hown1 0 f0 c (by simp) (by rw [← htop]; exact hc)
        simpa using this
    · intro x hx
      obtain ⟨c, m, htop, hm, hxs⟩ := hk2 x ((mem_sortNames x _).2 hx)
      exact ⟨c, m, htop, hm, hxs⟩
  have hcp12 : ClPres s s2 := (ClPres.of_eq (s := s) (s' := s1) rfl).trans (HeadClos.of_eq rfl) hcp2
  have hhc12 : HeadClos s s2 := (HeadClos.of_eq (s := s) (s' := s1) rfl).trans (Nat.le_refl _) hhc2
  have hcp25 : ClPres s2 s5 := ClPres.of_eq rfl
  have hhc25 : HeadClos s2 s5 := HeadClos.of_eq rfl
  refine ⟨s5, G2, vm, hreach1.trans (r2.trans (r3.trans (r4.trans r5))), ?_, by simp [s5, hst2'], hrel5, hmrel, ?_, ?_, ?_,
    hcp12.trans hhc12 hcp25, hhc12.trans hcp12.1 hhc25⟩
  · simp only [s5, hpc2', pE, mi, List.length_append, List.length_cons, List.length_nil]; omega
  · simp [s5, hout2, s1]
  · simp only [s5, htl2]; rfl
  · simp only [s5, hhd2]; rfl

theorem sim_macro {n} (X : SC) (name : String) (params : List String) (defaults : List Expr) (body : List Stmt) (uc : Bool) :
    StmtGoal (n + 1) X (.macroS name params defaults body uc) := by
  intro G σ loc σ' fl hev A lc hs hA hne base a s hAt hoof hpc hrel hcap
  obtain ⟨hnameM, hfvall, hwfb⟩ := wfStmt_macro hs
  cases loc with
  | nil => exact absurd rfl hne
  | cons T locR =>
    simp only [exec, bind, Except.bind, List.cons_append, topCell] at hev
    simp at hev
    obtain ⟨rfl, rfl⟩ := hev
    simp only [relStmt] at hAt hoof ⊢
    obtain ⟨Rp, hRp⟩ : ∃ Rp, Rp = relPrologue (paramDefaults params defaults).reverse (base + 1) a := ⟨_, rfl⟩
    obtain ⟨Rb, hRb⟩ : ∃ Rb, Rb = relBlock body (base + 1 + Rp.1.length) Rp.2 none := ⟨_, rfl⟩
    rw [← hRp] at hAt hoof ⊢
    rw [← hRb] at hAt hoof ⊢
    obtain ⟨s5, G2, vm, r5, hpc5, hst5, hrel5, hmrel, hout5, htl5, hhd5, hcp5, hhc5⟩ :=
      sim_macro_expr X name params defaults body uc hfvall hwfb hA Rp hRp Rb hRb hAt.left hoof hpc hrel
    -- StoreLocal
    let s6 : VmState := { s5 with pc := s5.pc + 1, stack := s.stack, frames := storeLocal name vm s5.frames,
                                  closures := storeClosure name vm s5.frames s5.closures }
    have r6 : Reach X.K.ctx X.K.C s5 s6 :=
      Reach.one' (i := .storeLocal name) _ hAt.right.head hpc5 (by simp [MJ.Vm.step, hst5, s6])
    have hnM : name ∈ X.K.M := by simpa using hnameM
    have hrel6 : Rel X.K G2 X.P X.clo { σ with heap := heapSet σ.heap T name (.macro name params defaults body uc (T :: (locR ++ X.env))) }
        (T :: locR) X.env s6 :=
      hrel5.store name _ vm (by simp only [ValAgree, if_pos hnM]; exact hmrel) (fun h => absurd hnM h) s6 rfl rfl rfl
    have hcp56 : ClPres s5 s6 := ClPres.store name vm rfl
    have hhc56 : HeadClos s5 s6 := HeadClos.of_eq (topClosure_storeLocal _ _ _)
    simp only [Post, if_true]
    refine ⟨s6, G2, r5.trans r6, ?_, rfl, hrel6, ?_, ?_, ?_, hcp5.trans hhc5 hcp56, hhc5.trans hcp5.1 hhc56⟩
    · simp only [s6, hpc5, List.length_append, List.length_cons, List.length_nil]; omega
    · simp [s6, hout5]
    · simp only [s6, storeLocal_tail, htl5]
    · simp only [s6, storeLocal_headLoop, hhd5]

/-! ## Macro calls -/

theorem any_key_congr {m kw : List (String × Val)} (h : ∀ k, assocGet k m = assocGet k kw) (g : String → Bool) :
    m.any (fun p => g p.1) = kw.any (fun p => g p.1) := by
  have key : ∀ (a b : List (String × Val)), (∀ k, assocGet k a = assocGet k b) → a.any (fun p => g p.1) = true →
      b.any (fun p => g p.1) = true := by
    intro a b hab ha
    obtain ⟨⟨k, v⟩, hmem, hg⟩ := List.any_eq_true.1 ha
    obtain ⟨w, hw⟩ := MJ.ArgBind.assocGet_some_of_mem hmem
    rw [hab k] at hw
    exact List.any_eq_true.2 ⟨(k, w), MJ.ArgBind.assocGet_mem hw, hg⟩
  cases h1 : m.any (fun p => g p.1) with
  | true => exact (key m kw h h1).symm
  | false =>
    cases h2 : kw.any (fun p => g p.1) with
    | false => rfl
    | true => rw [key kw m (fun k => (h k).symm) h2] at h1; cases h1

theorem bindArgs_congr (params : List String) (uc : Bool) (pos : List Val) {m kw : List (String × Val)}
    (h : ∀ k, assocGet k m = assocGet k kw) : bindArgs params uc pos m = bindArgs params uc pos kw := by
  simp only [bindArgs]
  rw [MJ.ArgBind.bindParams_congr params pos m kw (fun p _ => h p),
    any_key_congr h (fun k => !(params.contains k) && !(uc && k == "caller")), h "caller"]

theorem eq_dropLast_append {α : Type} : ∀ (l : List α) (a : α), l.getLast? = some a → l = l.dropLast ++ [a]
  | [], a, h => by simp at h
  | [x], a, h => by simp at h; subst h; rfl
  | x :: y :: rest, a, h => by
    have ih := eq_dropLast_append (y :: rest) a (by simpa [List.getLast?_cons_cons] using h)
    simp only [List.dropLast_cons₂, List.cons_append]
    rw [← ih]

theorem any_key_congr' {m kw : List (String × Val)} (h : ∀ k, (assocGet k m).isSome = (assocGet k kw).isSome) (g : String → Bool) :
    m.any (fun p => g p.1) = kw.any (fun p => g p.1) := by
  have key : ∀ (a b : List (String × Val)), (∀ k, (assocGet k a).isSome = (assocGet k b).isSome) → a.any (fun p => g p.1) = true →
      b.any (fun p => g p.1) = true := by
    intro a b hab ha
    obtain ⟨⟨k, v⟩, hmem, hg⟩ := List.any_eq_true.1 ha
    obtain ⟨w, hw⟩ := MJ.ArgBind.assocGet_some_of_mem hmem
    have hb : (assocGet k b).isSome = true := by rw [← hab k, hw]; rfl
    cases hb' : assocGet k b with
    | none => rw [hb'] at hb; cases hb
    | some w' => exact List.any_eq_true.2 ⟨(k, w'), MJ.ArgBind.assocGet_mem hb', hg⟩
  cases h1 : m.any (fun p => g p.1) with
  | true => exact (key m kw h h1).symm
  | false =>
    cases h2 : kw.any (fun p => g p.1) with
    | false => rfl
    | true => rw [key kw m (fun k => (h k).symm) h2] at h1; cases h1

/-- keyword bundles with the same keys that agree on the parameters bind alike -/
theorem bindArgs_rel (params : List String) (uc : Bool) (pos : List Val) {m kw : List (String × Val)}
    (hk : ∀ k, k ≠ "caller" → assocGet k m = assocGet k kw)
    (hc : (assocGet "caller" m).isSome = (assocGet "caller" kw).isSome) (hpc : "caller" ∉ params)
    {bound : List (String × Val)} {caller : Option Val} (h : bindArgs params uc pos kw = .ok (bound, caller)) :
    bindArgs params uc pos m = .ok (bound, if uc then some ((assocGet "caller" m).getD .undef) else none) ∧
      caller = (if uc then some ((assocGet "caller" kw).getD .undef) else none) := by
  have hsome : ∀ k, (assocGet k m).isSome = (assocGet k kw).isSome := by
    intro k
    by_cases e : k = "caller"
    · subst e; exact hc
    · rw [hk k e]
  simp only [bindArgs] at h ⊢
  rw [MJ.ArgBind.bindParams_congr params pos m kw (fun p hp => hk p (fun e => hpc (e ▸ hp))),
    any_key_congr' hsome (fun k => !(params.contains k) && !(uc && k == "caller"))]
  split at h
  · cases h
  · split at h
    · cases h
    · simp only [Except.ok.injEq, Prod.mk.injEq] at h
      obtain ⟨rfl, rfl⟩ := h
      rename_i hany
      rw [if_neg hany]
      exact ⟨rfl, rfl⟩

theorem bindParams_plain : ∀ (params : List String) (pos : List Val) (kw : List (String × Val)) (bound : List (String × Val)),
    bindParams params pos kw = .ok bound → (∀ v, v ∈ pos → plain v = true) →
    (∀ k v, k ∈ params → assocGet k kw = some v → plain v = true) → ∀ b, b ∈ bound → plain b.2 = true
  | [], [], _, bound, h, _, _ => by simp [bindParams] at h; subst h; simp
  | [], _ :: _, _, _, h, _, _ => by simp [bindParams] at h
  | p :: ps, [], kw, bound, h, hp, hkw => by
    simp only [bindParams] at h
    split at h
    · rename_i r hr
      cases h
      intro b hb
      rcases List.mem_cons.1 hb with rfl | hb
      · simp only
        cases hg : assocGet p kw with
        | none => rfl
        | some v => exact hkw p v (by simp) hg
      · exact bindParams_plain ps [] kw r hr hp (fun k v hk => hkw k v (by simp [hk])) b hb
    · cases h
  | p :: ps, a :: as, kw, bound, h, hp, hkw => by
    simp only [bindParams] at h
    split at h
    · cases h
    · split at h
      · rename_i r hr
        cases h
        intro b hb
        rcases List.mem_cons.1 hb with rfl | hb
        · exact hp a (by simp)
        · exact bindParams_plain ps as kw r hr (fun v hv => hp v (by simp [hv])) (fun k v hk => hkw k v (by simp [hk])) b hb
      · cases h

/-- the VM's `prepare_args` on the popped values against the binder of the reference semantics on the
evaluated arguments: the same values for the parameters (plain data), corresponding `caller`s -/
theorem prepareArgs_rel {K : Cfg} {G : Ghost} {cls : List Scope} {hl : Nat} (spec : List String) (cref : Bool)
    (hpc : "caller" ∉ spec) {as : List (Option String × Val)} {args : List Val} (h : ArgsRel K G cls hl as args)
    {bound : List (String × Val)} {caller : Option Val}
    (hb : bindArgs spec cref (callArgs as).1 (callArgs as).2 = .ok (bound, caller)) :
    ∃ callerV, prepareArgs spec cref args = .ok (bound.map (·.2), callerV) ∧
      ((caller = none ∧ callerV = none) ∨
       (∃ cw cu, caller = some cw ∧ callerV = some cu ∧ MacroRel K G cls hl cu cw)) ∧
      (∀ b, b ∈ bound → plain b.2 = true) := by
  rw [callArgs_plain h.1] at hb
  simp only at hb
  have hplain : ∀ b, b ∈ bound → plain b.2 = true := by
    have hb' := hb
    simp only [bindArgs] at hb'
    split at hb'
    · cases hb'
    · rename_i r hr
      split at hb'
      · cases hb'
      · simp only [Except.ok.injEq, Prod.mk.injEq] at hb'
        rw [← hb'.1]
        refine bindParams_plain spec _ _ r hr h.1 (fun k v hk hg => ?_)
        rcases h.2 with ⟨hkw, _⟩ | ⟨_, m, hrel, _⟩
        · rw [hkw] at hg; simp [assocGet] at hg
        · exact (hrel.1 k (fun e => hpc (e ▸ hk))).2 v hg
  rcases h.2 with ⟨hkw, rfl⟩ | ⟨hkw, m, hrel, rfl⟩
  · rw [hkw] at hb
    have hlast : ∀ kvs, (splitArgs as).1.getLast? ≠ some (.kwargs kvs) := by
      intro kvs hl'
      have := h.1 _ (List.mem_of_getLast? hl')
      simp [plain] at this
    rw [MJ.ArgBind.prepareArgs_positional spec cref _ hlast, hb]
    refine ⟨caller, rfl, ?_, hplain⟩
    simp only [bindArgs] at hb
    split at hb
    · cases hb
    · split at hb
      · cases hb
      · simp only [Except.ok.injEq, Prod.mk.injEq] at hb
        cases cref with
        | false => left; simpa using hb.2.symm
        | true =>
          right
          refine ⟨.undef, .undef, by simpa [assocGet] using hb.2.symm, by simpa [assocGet] using hb.2.symm, rfl⟩
  · have hcs : (assocGet "caller" m).isSome = (assocGet "caller" (splitArgs as).2).isSome := by
      rcases hrel.2 with ⟨h1, h2⟩ | ⟨w, u, h1, h2, _⟩
      · rw [h1, h2]
      · rw [h1, h2]; rfl
    obtain ⟨hbm, hcal⟩ := bindArgs_rel spec cref (splitArgs as).1 (fun k hk => (hrel.1 k hk).1) hcs hpc hb
    rw [MJ.ArgBind.prepareArgs_kwargs, hbm]
    refine ⟨_, rfl, ?_, hplain⟩
    cases cref with
    | false => left; exact ⟨by simpa using hcal, rfl⟩
    | true =>
      right
      simp only [if_true] at hcal ⊢
      rcases hrel.2 with ⟨h1, h2⟩ | ⟨w, u, h1, h2, hm⟩
      · exact ⟨.undef, .undef, by rw [hcal, h1]; rfl, by rw [h2]; rfl, rfl⟩
      · exact ⟨w, u, by rw [hcal, h1]; rfl, by rw [h2]; rfl, hm⟩

theorem defaultOf_nil (params : List String) (i : Nat) : defaultOf params [] i = none := by
  simp [defaultOf]

theorem bindDefaults_nodefaults : ∀ (n : Nat) (ctx : Scope) (heap : Heap) (cell : Nat) (env : List Nat) (params : List String)
    (i : Nat) (bound : List (String × Val)) (heap2 : Heap),
    bindDefaults n ctx heap (cell :: env) params [] i bound = .ok heap2 → heap2 = heapSetAll heap cell bound := by
  intro n
  induction n with
  | zero => intro ctx heap cell env params i bound heap2 h; simp [bindDefaults] at h
  | succ m ih =>
    intro ctx heap cell env params i bound heap2 h
    cases bound with
    | nil => simp [bindDefaults] at h; subst h; rfl
    | cons b rest =>
      obtain ⟨p, v⟩ := b
      simp only [bindDefaults, topCell, defaultOf_nil, MJ.ArgBind.slotOf_no_default] at h
      simp only [heapSetAll]
      exact ih _ _ _ _ _ _ _ _ h

theorem zipIdx_map_none : ∀ (l : List String) (k n : Nat),
    (l.zipIdx k).map (fun (x : String × Nat) => (x.1, if n ≤ x.2 then ([] : List Expr)[x.2 - n]? else none)) =
      l.map fun p => (p, (none : Option Expr))
  | [], _, _ => rfl
  | p :: rest, k, n => by
    simp only [List.zipIdx_cons, List.map_cons]
    rw [zipIdx_map_none rest (k + 1) n]
    by_cases h : n ≤ k <;> simp [h]

theorem paramDefaults_nil (params : List String) : paramDefaults params [] = params.map fun p => (p, none) := by
  unfold paramDefaults
  exact zipIdx_map_none params 0 _

theorem relPrologue_nodefaults : ∀ (ps : List String) (base : Nat) (a : Aux),
    relPrologue (ps.map fun p => (p, (none : Option Expr))) base a = (ps.map Instr.storeLocal, a)
  | [], _, _ => rfl
  | p :: rest, base, a => by simp [relPrologue, relPrologue_nodefaults rest (base + 1) a]

theorem relTargets_vars : ∀ (ps : List String), relTargets (ps.map Target.var) = ps.map Instr.storeLocal
  | [] => rfl
  | p :: rest => by simp [relTargets, relTarget, relTargets_vars rest]

theorem bindTargets_vars : ∀ (bs : List (String × Val)), bindTargets (bs.map fun p => Target.var p.1) (bs.map (·.2)) = .ok bs
  | [] => rfl
  | (p, v) :: rest => by simp [bindTargets, bindTarget, bindTargets_vars rest]

/-- cells that answer every lookup alike -/
def HeapEq (h h' : Heap) : Prop :=
  h'.length = h.length ∧ ∀ (id : Nat) (c : Scope), h[id]? = some c → ∃ c', h'[id]? = some c' ∧ ∀ x, assocGet x c' = assocGet x c

theorem lookup_heapEq {ctx : Scope} {h h' : Heap} (he : HeapEq h h') (x : String) : ∀ (st : List Nat),
    (∀ id ∈ st, id < h.length) → MJ.Eval.lookup ctx h' st x = MJ.Eval.lookup ctx h st x
  | [], _ => rfl
  | id :: rest, hb => by
    have hid : id < h.length := hb id (by simp)
    obtain ⟨c', hc', hag⟩ := he.2 id h[id] (List.getElem?_eq_getElem hid)
    have ih := lookup_heapEq (ctx := ctx) he x rest (fun i hi => hb i (by simp [hi]))
    simp only [MJ.Eval.lookup, lookupIn, hc', List.getElem?_eq_getElem hid, Option.bind_some, hag x] at ih ⊢
    cases assocGet x h[id] with
    | some v => rfl
    | none => exact ih

theorem FramesRel.heapEq {K G cls heap heap' clo} (he : HeapEq heap heap') : ∀ {loc : List Nat} {locF : List Frame},
    FramesRel K G cls heap clo loc locF → FramesRel K G cls heap' clo loc locF
  | [], [], _ => trivial
  | [], _ :: _, h => by simp [FramesRel] at h
  | _ :: _, [], h => by simp [FramesRel] at h
  | id :: ids, f :: fs, h => by
    obtain ⟨⟨cell, hc, hag⟩, hctx, hrest⟩ := h
    obtain ⟨c', hc', hag'⟩ := he.2 id cell hc
    exact ⟨⟨c', hc', fun x => by rw [hag' x, he.1]; exact hag x⟩, hctx, FramesRel.heapEq he hrest⟩

theorem HRel.heapEq {K G P clo heap heap' loc env s} (h : HRel K G P clo heap loc env s) (he : HeapEq heap heap') :
    HRel K G P clo heap' loc env s := by
  obtain ⟨locF, tailF, hfr, hrel, htl, hown1, hown2⟩ := h.frames
  refine ⟨⟨locF, tailF, hfr, FramesRel.heapEq he hrel, htl, hown1, hown2⟩, ?_, ?_, ?_, ?_, h.nodup, h.below, h.cloG, ?_⟩
  rotate_right
  · refine ⟨h.plain.1, fun id c' x v hc' hx hg => ?_⟩
    have hlt : id < heap.length := by rw [← he.1]; exact lt_of_getElem?_some hc'
    obtain ⟨c'', hc'', hag⟩ := he.2 id heap[id] (List.getElem?_eq_getElem hlt)
    rw [hc'] at hc''; cases hc''
    exact h.plain.2 id heap[id] x v (List.getElem?_eq_getElem hlt) hx (by rw [← hag x]; exact hg)
  · intro x hx
    rw [lookup_heapEq he x env (fun id hid => h.bound id (by simp [hid])), he.1]
    exact h.tail x hx
  · intro c env' hg
    obtain ⟨m, hm, hag⟩ := h.closOK c env' hg
    refine ⟨m, hm, fun x u hx => ?_⟩
    rw [lookup_heapEq he x env' (h.genv c env' hg), he.1]
    exact hag x u hx
  · intro c env' hg id hid; rw [he.1]; exact h.genv c env' hg id hid
  · intro id hid; rw [he.1]; exact h.bound id hid

theorem assocGet_setAll : ∀ (bs : List (String × Val)) (c : Scope) (x : String), (bs.map (·.1)).Nodup →
    assocGet x (setAll c bs) = match assocGet x bs with
      | some v => some v
      | none => assocGet x c
  | [], c, x, _ => by simp [setAll, assocGet]
  | (y, v) :: rest, c, x, hnd => by
    have hnd' : (rest.map (·.1)).Nodup := (List.nodup_cons.1 (by simpa using hnd)).2
    have hy : y ∉ rest.map (·.1) := (List.nodup_cons.1 (by simpa using hnd)).1
    simp only [setAll]
    rw [assocGet_setAll rest _ x hnd']
    by_cases hxy : y = x
    · subst hxy
      have : assocGet y rest = none := by
        cases hg : assocGet y rest with
        | none => rfl
        | some w => exact absurd (List.mem_map.2 ⟨(y, w), MJ.ArgBind.assocGet_mem hg, rfl⟩) hy
      simp [assocGet, this, assocGet_assocSet_same]
    · have hxy' : x ≠ y := fun e => hxy e.symm
      simp [assocGet, hxy, assocGet_assocSet_other y x v c hxy']

theorem heapSetAll_cell : ∀ (bs : List (String × Val)) (h : Heap) (cell : Nat) (c : Scope), h[cell]? = some c →
    (heapSetAll h cell bs)[cell]? = some (setAll c bs) ∧ (heapSetAll h cell bs).length = h.length ∧
      ∀ id, id ≠ cell → (heapSetAll h cell bs)[id]? = h[id]?
  | [], h, cell, c, hc => ⟨hc, rfl, fun _ _ => rfl⟩
  | (x, v) :: rest, h, cell, c, hc => by
    have hlt := lt_of_getElem?_some hc
    have h1 : (heapSet h cell x v)[cell]? = some (assocSet x v c) := by
      have := heapSet_getElem?_same h cell x v hlt
      rw [List.getElem?_eq_getElem hlt] at hc; cases hc; exact this
    obtain ⟨i1, i2, i3⟩ := heapSetAll_cell rest (heapSet h cell x v) cell _ h1
    refine ⟨by simpa [heapSetAll, setAll] using i1, by simp only [heapSetAll]; rw [i2, heapSet_length], fun id hid => ?_⟩
    simp only [heapSetAll]
    rw [i3 id hid, heapSet_getElem?_ne _ _ _ _ _ hid]

theorem assocGet_reverse_nodup : ∀ (bs : List (String × Val)) (x : String), (bs.map (·.1)).Nodup →
    assocGet x bs.reverse = assocGet x bs := by
  intro bs x hnd
  induction bs with
  | nil => rfl
  | cons b rest ih =>
    obtain ⟨y, v⟩ := b
    have hnd' : (rest.map (·.1)).Nodup := (List.nodup_cons.1 (by simpa using hnd)).2
    have hy : y ∉ rest.map (·.1) := (List.nodup_cons.1 (by simpa using hnd)).1
    simp only [List.reverse_cons]
    rw [MJ.ArgBind.assocGet_append, ih hnd']
    by_cases hxy : y = x
    · subst hxy
      have : assocGet y rest = none := by
        cases hg : assocGet y rest with
        | none => rfl
        | some w => exact absurd (List.mem_map.2 ⟨(y, w), MJ.ArgBind.assocGet_mem hg, rfl⟩) hy
      simp [assocGet, this]
    · cases h : assocGet x rest <;> simp [assocGet, hxy, h]

theorem nodup_reverse' {α : Type} {l : List α} (h : l.Nodup) : l.reverse.Nodup := by
  unfold List.Nodup at h ⊢
  exact List.pairwise_reverse.2 (h.imp (fun hab => fun e => hab e.symm))

/-- binding the parameters back to front (the VM) or front to back (the reference semantics) gives
cells that answer alike -/
theorem heapEq_setAll_reverse (h : Heap) (cell : Nat) (c : Scope) (hc : h[cell]? = some c) (bs : List (String × Val))
    (hnd : (bs.map (·.1)).Nodup) : HeapEq (heapSetAll h cell bs.reverse) (heapSetAll h cell bs) := by
  have hnd' : (bs.reverse.map (·.1)).Nodup := by
    rw [List.map_reverse]; exact nodup_reverse' hnd
  obtain ⟨a1, a2, a3⟩ := heapSetAll_cell bs.reverse h cell c hc
  obtain ⟨b1, b2, b3⟩ := heapSetAll_cell bs h cell c hc
  refine ⟨by rw [a2, b2], fun id c0 hc0 => ?_⟩
  by_cases hid : id = cell
  · subst hid
    rw [a1] at hc0; cases hc0
    refine ⟨_, b1, fun x => ?_⟩
    rw [assocGet_setAll bs c x hnd, assocGet_setAll bs.reverse c x hnd', assocGet_reverse_nodup bs x hnd]
  · exact ⟨c0, by rw [b3 id hid, ← a3 id hid]; exact hc0, fun _ => rfl⟩

theorem bindParams_names : ∀ (params : List String) (pos : List Val) (kw : List (String × Val)) (bound),
    bindParams params pos kw = .ok bound → bound.map (·.1) = params
  | [], [], _, bound, h => by simp [bindParams] at h; subst h; rfl
  | [], _ :: _, _, _, h => by simp [bindParams] at h
  | p :: ps, [], kw, bound, h => by
    simp only [bindParams] at h
    split at h
    · rename_i r hr; simp at h; subst h; simp [bindParams_names ps [] kw r hr]
    · simp at h
  | p :: ps, a :: as, kw, bound, h => by
    simp only [bindParams] at h
    split at h
    · simp at h
    · split at h
      · rename_i r hr; simp at h; subst h; simp [bindParams_names ps as kw r hr]
      · simp at h

/-! ### Parameter defaults

The engine binds the parameters back to front (a default is evaluated when the parameters behind it
are stored, the ones in front of it not yet), the reference semantics front to back.  A default that
contains no call and reads no parameter (`wfDefault`) cannot tell: `evalExpr_coinc`. -/

/-- `h` answers like `h1` for every name outside `N` -/
def PD (N : List String) (h1 h : Heap) : Prop :=
  ∀ (id : Nat) (x : String), x ∉ N → (h[id]?).bind (assocGet x) = (h1[id]?).bind (assocGet x)

theorem PD.refl (N : List String) (h : Heap) : PD N h h := fun _ _ _ => rfl

theorem heapSet_bind_other (h : Heap) (cell id : Nat) (p x : String) (v : Val) (hne : x ≠ p) :
    ((heapSet h cell p v)[id]?).bind (assocGet x) = (h[id]?).bind (assocGet x) := by
  by_cases hid : id = cell
  · subst hid
    cases hc : h[id]? with
    | none => simp [heapSet, hc]
    | some c => exact (heapSet_other h id p x v hne (lt_of_getElem?_some hc)).trans (by rw [hc])
  · rw [heapSet_getElem?_ne h cell id p v hid]

theorem PD.heapSet {N : List String} {h1 h : Heap} (hp : PD N h1 h) (cell : Nat) {p : String} (hpN : p ∈ N) (v : Val) :
    PD N h1 (heapSet h cell p v) := by
  intro id x hx
  rw [heapSet_bind_other h cell id p x v (fun e => hx (e ▸ hpN))]
  exact hp id x hx

theorem PD.lookup {N : List String} {h1 h : Heap} (hp : PD N h1 h) (ctx : Scope) (x : String) (hx : x ∉ N) :
    ∀ (st : List Nat), MJ.Eval.lookup ctx h st x = MJ.Eval.lookup ctx h1 st x
  | [] => rfl
  | id :: rest => by
    have ih := PD.lookup hp ctx x hx rest
    simp only [MJ.Eval.lookup, lookupIn, hp id x hx] at ih ⊢
    cases (h1[id]?).bind (assocGet x) with
    | some v => rfl
    | none => exact ih

/-- what a parameter holds when the body starts: the value that was passed, or the value of the default
(evaluated in `heap`) -/
def DefVal (n : Nat) (ctx : Scope) (heap : Heap) (st : List Nat) (od : Option Expr) (v u : Val) : Prop :=
  match slotOf v od with
  | .passed w => u = w
  | .dflt d => ∃ k, k < n ∧ evalExpr k ctx heap st d = .ok u

theorem DefVal.mono {m n : Nat} {ctx : Scope} {heap : Heap} {st : List Nat} {od : Option Expr} {v u : Val}
    (h : DefVal m ctx heap st od v u) (hle : m ≤ n) : DefVal n ctx heap st od v u := by
  unfold DefVal at h ⊢
  cases hs : slotOf v od with
  | passed w => rw [hs] at h; exact h
  | dflt d => rw [hs] at h; obtain ⟨k, hk, he⟩ := h; exact ⟨k, by omega, he⟩

/-- the defaults belong to the last parameters: the two ways to say it -/
theorem defaultOf_mem {params : List String} {defaults : List Expr} {i : Nat} {d : Expr}
    (h : defaultOf params defaults i = some d) : d ∈ defaults := by
  unfold defaultOf at h
  split at h
  · exact List.mem_of_getElem? h
  · cases h

theorem zipIdx_map_defaultOf (params0 : List String) (defaults : List Expr) (hle : defaults.length ≤ params0.length) :
    ∀ (l : List String) (k : Nat),
      (l.zipIdx k).map (fun (x : String × Nat) => (x.1, if params0.length - defaults.length ≤ x.2 then defaults[x.2 - (params0.length - defaults.length)]? else none)) =
      (l.zipIdx k).map (fun (x : String × Nat) => (x.1, defaultOf params0 defaults x.2))
  | [], _ => rfl
  | p :: rest, k => by
    simp only [List.zipIdx_cons, List.map_cons]
    rw [zipIdx_map_defaultOf params0 defaults hle rest (k + 1)]
    congr 1
    simp only [defaultOf]
    by_cases hk : params0.length - defaults.length ≤ k
    · have h2 : params0.length ≤ k + defaults.length := by omega
      have h3 : k - (params0.length - defaults.length) = k + defaults.length - params0.length := by omega
      simp [hk, h2, h3]
    · have h2 : ¬ params0.length ≤ k + defaults.length := by omega
      simp [hk, h2]

theorem paramDefaults_eq (params : List String) (defaults : List Expr) (hle : defaults.length ≤ params.length) :
    paramDefaults params defaults = (params.zipIdx 0).map fun x => (x.1, defaultOf params defaults x.2) := by
  unfold paramDefaults
  exact zipIdx_map_defaultOf params defaults hle params 0

/-- the reference semantics binds the parameters front to back: `items` = (parameter, default, passed
value, value it holds in the end) -/
theorem bindDefaults_spec {ctx : Scope} {cell : Nat} {env : List Nat} {params : List String} {defaults : List Expr}
    {F : List String} {h1 : Heap} (hF : ∀ x, x ∈ F → x ∉ params) (hwf : ∀ d, d ∈ defaults → readsIn F d = true) :
    ∀ (n : Nat) (h : Heap) (i : Nat) (bound : List (String × Val)) (heap2 : Heap), PD params h1 h →
      (∀ b, b ∈ bound → b.1 ∈ params) →
      bindDefaults n ctx h (cell :: env) params defaults i bound = .ok heap2 →
      ∃ items : List (String × Option Expr × Val × Val),
        items.map (fun it => (it.1, it.2.2.1)) = bound ∧
        items.map (fun it => (it.1, it.2.1)) =
          ((bound.map (·.1)).zipIdx i).map (fun x => (x.1, defaultOf params defaults x.2)) ∧
        heap2 = heapSetAll h cell (items.map fun it => (it.1, it.2.2.2)) ∧
        ∀ it, it ∈ items → DefVal n ctx h1 (cell :: env) it.2.1 it.2.2.1 it.2.2.2 := by
  intro n
  induction n with
  | zero => intro h i bound heap2 _ _ hb; simp [bindDefaults] at hb
  | succ m ih =>
    intro h i bound heap2 hpd hnames hb
    cases bound with
    | nil =>
      simp [bindDefaults] at hb; subst hb
      exact ⟨[], rfl, rfl, rfl, fun it hit => by simp at hit⟩
    | cons b rest =>
      obtain ⟨p, v⟩ := b
      have hpN : p ∈ params := hnames (p, v) (by simp)
      simp only [bindDefaults, topCell] at hb
      cases hs : slotOf v (defaultOf params defaults i) with
      | passed w =>
        rw [hs] at hb
        simp only at hb
        obtain ⟨items, hb1, hb2, hheap, hvals⟩ := ih _ (i + 1) rest heap2 (hpd.heapSet cell hpN w)
          (fun b hb => hnames b (by simp [hb])) hb
        refine ⟨(p, defaultOf params defaults i, v, w) :: items, by simp [hb1], by simp [hb2, List.zipIdx_cons],
          by simp [heapSetAll, hheap], fun it hit => ?_⟩
        rcases List.mem_cons.1 hit with rfl | hit
        · simp only [DefVal, hs]
        · exact (hvals it hit).mono (by omega)
      | dflt d =>
        rw [hs] at hb
        simp only at hb
        cases hd : evalExpr m ctx h (cell :: env) d with
        | error e => rw [hd] at hb; simp at hb
        | ok dv =>
          rw [hd] at hb
          simp only at hb
          obtain ⟨items, hb1, hb2, hheap, hvals⟩ := ih _ (i + 1) rest heap2 (hpd.heapSet cell hpN dv)
            (fun b hb => hnames b (by simp [hb])) hb
          have hdm : d ∈ defaults := defaultOf_mem ((MJ.ArgBind.slotOf_dflt_iff _ _ _).1 hs).2
          -- the default does not read a parameter: it has the same value in `h1`
          have hd1 : evalExpr m ctx h1 (cell :: env) d = .ok dv := by
            rw [← hd]
            exact (evalExpr_coinc (fun x hx => hpd.lookup ctx x (hF x hx) (cell :: env)) m d (hwf d hdm)).symm
          refine ⟨(p, defaultOf params defaults i, v, dv) :: items, by simp [hb1], by simp [hb2, List.zipIdx_cons],
            by simp [heapSetAll, hheap], fun it hit => ?_⟩
          rcases List.mem_cons.1 hit with rfl | hit
          · simp only [DefVal, hs]
            exact ⟨m, by omega, hd1⟩
          · exact (hvals it hit).mono (by omega)

theorem Stored.trans {X : SC} {loc : List Nat} {σ1 σ2 : State} {s : VmState} {st1 st2 : List Val} {pc1 pc2 : Nat}
    (h1 : Stored X loc σ1 s st1 pc1)
    (h2 : ∀ s1 G1, s1.pc = pc1 → s1.stack = st1 → Rel X.K G1 X.P X.clo σ1 loc X.env s1 → Stored X loc σ2 s1 st2 pc2) :
    Stored X loc σ2 s st2 pc2 := by
  obtain ⟨s1, G1, r1, hpc1, hst1, hrel1, hout1, htl1, hhd1, hcp1, hhc1⟩ := h1
  obtain ⟨s2, G2, r2, hpc2, hst2, hrel2, hout2, htl2, hhd2, hcp2, hhc2⟩ := h2 s1 G1 hpc1 hst1 hrel1
  exact ⟨s2, G2, r1.trans r2, hpc2, hst2, hrel2, hout2.trans hout1, htl2.trans htl1, hhd2.trans hhd1,
    hcp1.trans hhc1 hcp2, hhc1.trans hcp1.1 hhc2⟩

/-- code that only works on the operand stack (and calls macros), followed by a store -/
theorem Stored.of_pushed {X : SC} {G : Ghost} {loc : List Nat} {A : List String} {σ σ' : State} {s : VmState}
    {pc' : Nat} {st' st : List Val} {endPc : Nat} (hrel : Rel X.K G X.P X.clo σ loc X.env s)
    (hp : Pushed (X.ectx G σ.heap loc A) s pc' st')
    (h2 : ∀ s1, s1.pc = pc' → s1.stack = st' → Rel X.K G X.P X.clo σ loc X.env s1 → Stored X loc σ' s1 st endPc) :
    Stored X loc σ' s st endPc := by
  obtain ⟨c1, x1, r1⟩ := hp
  obtain ⟨s2, G2, r2, hpc2, hst2, hrel2, hout2, htl2, hhd2, hcp2, hhc2⟩ :=
    h2 { s with pc := pc', stack := st', closures := c1 } rfl rfl (hrel.ext _ rfl x1 rfl rfl)
  have hcp1 : ClPres s { s with pc := pc', stack := st', closures := c1 } := ClPres.of_ext x1
  have hhc1 : HeadClos s { s with pc := pc', stack := st', closures := c1 } := HeadClos.of_eq rfl
  exact ⟨s2, G2, r1.trans r2, hpc2, hst2, hrel2, by rw [hout2], htl2, hhd2, hcp1.trans hhc1 hcp2, hhc1.trans hcp1.1 hhc2⟩

theorem Stored.cast {X : SC} {loc : List Nat} {σ σ' : State} {s : VmState} {st : List Val} {p p' : Nat}
    (h : Stored X loc σ s st p) (hσ : σ = σ') (hp : p = p') : Stored X loc σ' s st p' := by
  subst hσ; subst hp; exact h

/-- the prologue of a macro, against the final values `u` of the parameters (`DefVal`): `items` are
(parameter, default, passed value, final value) in the order of the code — last parameter first -/
theorem sim_prologue {n} (hE : ∀ k, k < n → SimExpr k) (X : SC) (h1 : Heap) (cell : Nat) (N F : List String)
    (hFN : ∀ x, x ∈ F → x ∉ N) :
    ∀ (items : List (String × Option Expr × Val × Val)),
      (∀ it, it ∈ items → it.1 ∈ N ∧ ¬ it.1 ∈ X.K.M ∧ DefVal n X.K.ctx h1 (cell :: X.env) it.2.1 it.2.2.1 it.2.2.2 ∧ plain it.2.2.2 = true ∧
        ∀ d, it.2.1 = some d → readsIn F d = true ∧ wfExpr X.K.M X.P [] d = true) →
      ∀ (G : Ghost) (base : Nat) (a : Aux) (s : VmState) (st : List Val) (σ : State),
        At X.K.C base (relPrologue (items.map fun it => (it.1, it.2.1)) base a).1 →
        (relPrologue (items.map fun it => (it.1, it.2.1)) base a).2.oof = false → s.pc = base →
        s.stack = items.map (fun it => it.2.2.1) ++ st → Rel X.K G X.P X.clo σ [cell] X.env s → PD N h1 σ.heap →
        Stored X [cell] { σ with heap := heapSetAll σ.heap cell (items.map fun it => (it.1, it.2.2.2)) } s st
          (base + (relPrologue (items.map fun it => (it.1, it.2.1)) base a).1.length)
  | [], _, G, base, a, s, st, σ, _, _, hpc, hst, hrel, _ =>
    ⟨s, G, Reach.refl _, by simp [relPrologue, hpc], by simpa using hst, by simpa [heapSetAll] using hrel, rfl, rfl, rfl,
      ClPres.refl _, HeadClos.refl _⟩
  | (p, od, v, u) :: rest, hit, G, base, a, s, st, σ, hAt, hoof, hpc, hst, hrel, hpd => by
    obtain ⟨hpN, hpM, hdv, hpu, hdwf⟩ := hit (p, od, v, u) (by simp)
    have hit' : ∀ it, it ∈ rest → it.1 ∈ N ∧ ¬ it.1 ∈ X.K.M ∧ DefVal n X.K.ctx h1 (cell :: X.env) it.2.1 it.2.2.1 it.2.2.2 ∧ plain it.2.2.2 = true ∧
        ∀ d, it.2.1 = some d → readsIn F d = true ∧ wfExpr X.K.M X.P [] d = true := fun it h => hit it (by simp [h])
    have hok : targetOk X.K.M (.var p) = true := by simpa [targetOk, targetNames] using hpM
    simp only [List.map_cons, List.cons_append] at hst
    cases od with
    | none =>
      simp only [List.map_cons, relPrologue] at hAt hoof ⊢
      have hu : u = v := by simpa [DefVal, MJ.ArgBind.slotOf_no_default] using hdv
      subst hu
      have h1s := sim_target X (.var p) u [(p, u)] (by simp [bindTarget]) hok hpu G base s
        (rest.map (fun it => it.2.2.1) ++ st) σ cell [] (by simpa [relTarget] using hAt.left) hpc hst hrel
      have hrec : ∀ s1 G1, s1.pc = base + (relTarget (.var p)).length → s1.stack = rest.map (fun it => it.2.2.1) ++ st →
          Rel X.K G1 X.P X.clo { σ with heap := heapSetAll σ.heap cell [(p, u)] } [cell] X.env s1 →
          Stored X [cell] { heap := heapSetAll (heapSetAll σ.heap cell [(p, u)]) cell (rest.map fun it => (it.1, it.2.2.2)), out := σ.out } s1 st
            (base + 1 + (relPrologue (rest.map fun it => (it.1, it.2.1)) (base + 1) a).1.length) :=
        fun s1 G1 hpc1 hst1 hrel1 =>
          sim_prologue hE X h1 cell N F hFN rest hit' G1 (base + 1) a s1 st { σ with heap := heapSetAll σ.heap cell [(p, u)] }
            (by simpa [relTarget] using hAt.right) hoof (by simpa [relTarget] using hpc1) hst1 hrel1
            (by simpa [heapSetAll] using hpd.heapSet cell hpN u)
      exact (h1s.trans hrec).cast (by simp [heapSetAll]) (by simp; omega)
    | some d =>
      obtain ⟨hdr, hdw⟩ := hdwf d rfl
      simp only [List.map_cons, relPrologue] at hAt hoof ⊢
      obtain ⟨Rd, hRd⟩ : ∃ Rd, Rd = relExpr d (base + 4) a := ⟨_, rfl⟩
      rw [← hRd] at hAt hoof ⊢
      obtain ⟨Rr, hRr⟩ : ∃ Rr, Rr = relPrologue (rest.map fun it => (it.1, it.2.1)) (base + 4 + Rd.1.length + 1) Rd.2 := ⟨_, rfl⟩
      rw [← hRr] at hAt hoof ⊢
      have hoofd : Rd.2.oof = false := by
        cases ho : Rd.2.oof with
        | false => rfl
        | true => rw [hRr, relPrologue_oof_mono _ _ _ ho] at hoof; cases hoof
      have hA0 : ABound σ.heap [cell] [] := by intro x hx; simp at hx
      let E := X.ectx G σ.heap [cell] []
      have hAt1 : At X.K.C base ([.dupTop, .isUndefined, .jumpIfFalse (base + 4 + Rd.1.length), .discardTop] ++ Rd.1) :=
        hAt.left.left
      have hAtS : At X.K.C (base + 4 + Rd.1.length) (relTarget (.var p)) := by
        have := hAt.left.right
        refine At.cast this ?_
        simp; omega
      have i0 : X.K.C[base]? = some .dupTop := hAt1.left.head
      have i1 : X.K.C[base + 1]? = some .isUndefined := hAt1.left.tail.head
      have i2 : X.K.C[base + 2]? = some (.jumpIfFalse (base + 4 + Rd.1.length)) := by
        have := hAt1.left.tail.tail.head; simpa [Nat.add_assoc] using this
      have i3 : X.K.C[base + 3]? = some .discardTop := by
        have := hAt1.left.tail.tail.tail.head; simpa [Nat.add_assoc] using this
      have hAtR : At X.K.C (base + 4 + Rd.1.length + 1) Rr.1 := by
        have := hAt.right
        refine At.cast this ?_
        simp; omega
      -- the two paths to the store
      have hpush : Pushed E s (base + 4 + Rd.1.length) (u :: rest.map (fun it => it.2.2.1) ++ st) := by
        have p1 : Pushed E s (base + 1) (v :: v :: rest.map (fun it => it.2.2.1) ++ st) :=
          Pushed.first (i := .dupTop) (by rw [hpc]; exact i0) (by simp [MJ.Vm.step, hst, hpc])
        have p2 : Pushed E s (base + 2) (.bool (match v with | .undef => true | _ => false) :: v :: rest.map (fun it => it.2.2.1) ++ st) :=
          p1.step (i := .isUndefined) i1 (fun c => by simp [MJ.Vm.step]; cases v <;> rfl)
        by_cases hv : v = .undef
        · subst hv
          have hs : slotOf .undef (some d) = .dflt d := rfl
          obtain ⟨k, hk, hev⟩ : ∃ k, k < n ∧ evalExpr k X.K.ctx h1 (cell :: X.env) d = .ok u := by
            simpa [DefVal, hs] using hdv
          have hev' : evalExpr k E.K.ctx E.heap (E.loc ++ E.env) d = .ok u := by
            rw [← hev]
            exact evalExpr_coinc (fun x hx => hpd.lookup X.K.ctx x (hFN x hx) (cell :: X.env)) k d hdr
          have p3 : Pushed E s (base + 3) (.undef :: rest.map (fun it => it.2.2.1) ++ st) :=
            p2.step (i := .jumpIfFalse (base + 4 + Rd.1.length)) i2 (fun c => by simp [MJ.Vm.step, truthy])
          have p4 : Pushed E s (base + 4) (rest.map (fun it => it.2.2.1) ++ st) :=
            p3.step (i := .discardTop) i3 (fun c => by simp [MJ.Vm.step])
          refine p4.trans (fun c4 x4 => ?_)
          have hok4 : E.ok { s with pc := base + 4, stack := rest.map (fun it => it.2.2.1) ++ st, closures := c4 } :=
            (hrel.eok hA0 (by simp)).next x4 _ _
          have := hE k hk E d u hev' hdw (base + 4) a _ (by rw [← hRd]; exact hAt1.right) (by rw [← hRd]; exact hoofd) rfl hok4
          rw [← hRd] at this
          exact this
        · have hu : u = v := by simpa [DefVal, MJ.ArgBind.slotOf_passed_of_ne_undef v (some d) hv] using hdv
          subst hu
          cases u <;> first
            | exact absurd rfl hv
            | exact p2.step (i := .jumpIfFalse (base + 4 + Rd.1.length)) i2 (fun c => by simp [MJ.Vm.step, truthy])
      have hrec : ∀ s2 G2, s2.pc = base + 4 + Rd.1.length + (relTarget (.var p)).length → s2.stack = rest.map (fun it => it.2.2.1) ++ st →
          Rel X.K G2 X.P X.clo { σ with heap := heapSetAll σ.heap cell [(p, u)] } [cell] X.env s2 →
          Stored X [cell] { heap := heapSetAll (heapSetAll σ.heap cell [(p, u)]) cell (rest.map fun it => (it.1, it.2.2.2)), out := σ.out } s2 st
            (base + 4 + Rd.1.length + 1 + Rr.1.length) :=
        fun s2 G2 hpc2 hst2 hrel2 => by
          have := sim_prologue hE X h1 cell N F hFN rest hit' G2 (base + 4 + Rd.1.length + 1) Rd.2 s2 st
            { σ with heap := heapSetAll σ.heap cell [(p, u)] }
            (by rw [← hRr]; exact hAtR) (by rw [← hRr]; exact hoof) (by simpa [relTarget] using hpc2) hst2 hrel2
            (by simpa [heapSetAll] using hpd.heapSet cell hpN u)
          rw [← hRr] at this
          exact this
      have hst2 : Stored X [cell] { heap := heapSetAll (heapSetAll σ.heap cell [(p, u)]) cell (rest.map fun it => (it.1, it.2.2.2)), out := σ.out } s st
          (base + 4 + Rd.1.length + 1 + Rr.1.length) :=
        Stored.of_pushed hrel hpush (fun s1 hpc1 hst1 hrel1 =>
          (sim_target X (.var p) u [(p, u)] (by simp [bindTarget]) hok hpu G (base + 4 + Rd.1.length) s1
            (rest.map (fun it => it.2.2.1) ++ st) σ cell [] hAtS hpc1 (by simpa using hst1) hrel1).trans hrec)
      exact hst2.cast (by simp [heapSetAll]) (by simp; omega)

theorem slotOf_passed {v : Val} {od : Option Expr} {w : Val} (h : slotOf v od = .passed w) : w = v := by
  cases v <;> cases od <;> simp [slotOf] at h <;> exact h.symm

/-- the cell / the locals a macro call starts with: the `caller` it was given -/
def callerCell (c : Option Val) : Scope :=
  match c with
  | some c => [("caller", c)]
  | none => []

theorem sim_call_step {m} (hE : ∀ k, k < m → SimExpr k) (ihB : SimBlock m) : SimCall (m + 1) := by
  intro K G heap cls w u as args v hcall hmrel hargs hginv hplain
  cases w <;> try (simp [callValue] at hcall; done)
  · rename_i name params defaults body uc env
    obtain ⟨off, clo, hu, ⟨ac, hcodeAt, hcodeOof⟩, hwfb, henvb, hclo, hkeys⟩ := hmrel
    have hwf : ((((params.Nodup ∧ (∀ p ∈ params, ¬ p ∈ K.M ∧ ¬ p = "caller")) ∧ defaults.length ≤ params.length ∧
        (∀ d ∈ defaults, wfDefault K.M (fvOf params defaults body) params d = true)) ∧
        uc = (findMacroClosure params defaults body).contains "caller") ∧ (uc = false ∨ "caller" ∈ K.M)) ∧
        wfBlock K.M (some (fvOf params defaults body)) (macroBound params uc) false body = true := by
      simpa [wfMacroBody] using hwfb
    obtain ⟨⟨⟨⟨⟨hnd, hpM⟩, hdlen, hdwf⟩, _⟩, hucM⟩, hwfbody⟩ := hwf
    have hpcal : "caller" ∉ params := fun h => (hpM _ h).2 rfl
    simp only [callValue] at hcall
    split at hcall
    · simp at hcall
    · rename_i bound caller hbind
      have hcaller : caller = if uc then some ((assocGet "caller" (callArgs as).2).getD .undef) else none := by
        simp only [bindArgs] at hbind
        split at hbind
        · simp at hbind
        · split at hbind
          · simp at hbind
          · simp at hbind; exact hbind.2.symm
      split at hcall
      · simp at hcall
      · rename_i heap2 hdefs
        split at hcall
        · simp at hcall
        · rename_i σ2 hbody
          simp at hcall; subst hcall
          -- the VM binds the arguments alike
          obtain ⟨callerV, hprep, hcrel, hbplain⟩ := prepareArgs_rel params uc hpcal hargs hbind
          have hnames : bound.map (·.1) = params := by
            simp only [bindArgs] at hbind
            split at hbind
            · simp at hbind
            · rename_i b hb
              split at hbind
              · simp at hbind
              · simp at hbind; rw [← hbind.1]; exact bindParams_names _ _ _ _ hb
          -- the context of the call: one cell / frame, holding `caller`
          let X : SC := { K := K, P := some (fvOf params defaults body), clo := clo, env := env }
          let cellE : Scope := callerCell caller
          let fM : Frame := { closureCtx := clo, locals := callerCell callerV }
          let s0 : VmState := calleeState off clo callerV (bound.map (·.2)) cls
          have hdefs' : bindDefaults m K.ctx (heap ++ [cellE]) (heap.length :: env) params defaults 0 bound = .ok heap2 := by
            cases caller <;> exact hdefs
          have hs0f : s0.frames = [fM, {}] := by cases callerV <;> rfl
          have hcM : caller ≠ none → "caller" ∈ K.M := by
            intro hne
            rcases hucM with h | h
            · rw [hcaller, h] at hne; simp at hne
            · exact h
          have hcellAgree : ∀ x, OptAgree K G cls (heap.length + 1) x (assocGet x cellE) (frameLocal fM x) := by
            intro x
            rcases hcrel with ⟨h1, h2⟩ | ⟨cw, cu, h1, h2, hmr⟩
            · simp only [cellE, fM, h1, h2, callerCell, assocGet, frameLocal]; exact OptAgree.none _ _ _ _ _
            · have hM : "caller" ∈ K.M := hcM (by rw [h1]; simp)
              by_cases hx : x = "caller"
              · subst hx
                simp only [cellE, fM, h1, h2, callerCell, assocGet, frameLocal, if_true]
                unfold OptAgree
                rw [if_pos hM]
                exact ⟨rfl, fun w u hw hu => by
                  cases hw; cases hu
                  exact hmr.mono (GhostLe.refl G) (KeysMono.refl _) (Nat.le_succ _)⟩
              · have hx' : ¬ "caller" = x := fun e => hx e.symm
                simp only [cellE, fM, h1, h2, callerCell, assocGet, frameLocal, if_neg hx']; exact OptAgree.none _ _ _ _ _
          have hplE : PlainSt K.M K.ctx (heap ++ [cellE]) := by
            refine hplain.push cellE (fun x v hx hg => ?_)
            cases hc : caller with
            | none => simp [cellE, hc, callerCell, assocGet] at hg
            | some cw =>
              simp only [cellE, hc, callerCell, assocGet] at hg
              split at hg
              · rename_i e
                have hM : "caller" ∈ K.M := hcM (by rw [hc]; simp)
                rw [e] at hM; exact absurd hM hx
              · cases hg
          have hrel0 : Rel K G X.P clo { heap := heap ++ [cellE], out := "" } [heap.length] env s0 :=
            ⟨HRel.callee hginv.1 hginv.2 (fvOf params defaults body) env clo hclo hkeys henvb cellE fM hcellAgree rfl rfl hplE
              s0 hs0f rfl, ⟨[], rfl⟩⟩
          -- the reference semantics: what the parameters hold in the end
          let F : List String := (fvOf params defaults body).filter fun x => !params.contains x
          have hFN : ∀ x, x ∈ F → x ∉ params := by
            intro x hx; simp [F] at hx; exact hx.2
          obtain ⟨itemsF, hb1, hb2, hheap2, hvals⟩ :=
            bindDefaults_spec (F := F) (h1 := heap ++ [cellE]) hFN
              (fun d hd => by have := hdwf d hd; simp only [wfDefault, Bool.and_eq_true] at this; exact this.1)
              m (heap ++ [cellE]) 0 bound heap2 (PD.refl _ _)
              (fun b hb => by rw [← hnames]; exact List.mem_map.2 ⟨b, hb, rfl⟩) hdefs'
          -- the prologue, last parameter first
          have hpds : (paramDefaults params defaults).reverse = (itemsF.reverse).map fun it => (it.1, it.2.1) := by
            rw [List.map_reverse, hb2, hnames, paramDefaults_eq params defaults hdlen]
          rw [hpds] at hcodeAt hcodeOof
          have hitems : ∀ it, it ∈ itemsF.reverse → it.1 ∈ params ∧ ¬ it.1 ∈ X.K.M ∧
              DefVal m X.K.ctx (heap ++ [cellE]) (heap.length :: X.env) it.2.1 it.2.2.1 it.2.2.2 ∧ plain it.2.2.2 = true ∧
              ∀ d, it.2.1 = some d → readsIn F d = true ∧ wfExpr X.K.M X.P [] d = true := by
            intro it hit
            have hit' : it ∈ itemsF := List.mem_reverse.1 hit
            have hp : it.1 ∈ params := by
              rw [← hnames, ← hb1]
              simp only [List.map_map]
              exact List.mem_map.2 ⟨it, hit', rfl⟩
            have hdw : ∀ d, it.2.1 = some d → readsIn F d = true ∧ wfExpr X.K.M X.P [] d = true := by
              intro d hd
              have hmem : (it.1, it.2.1) ∈ ((bound.map (·.1)).zipIdx 0).map (fun x => (x.1, defaultOf params defaults x.2)) := by
                rw [← hb2]; exact List.mem_map.2 ⟨it, hit', rfl⟩
              obtain ⟨x, _, hx⟩ := List.mem_map.1 hmem
              have hdo : defaultOf params defaults x.2 = some d := by
                have := congrArg Prod.snd hx; simp only at this; rw [this, hd]
              have := hdwf d (defaultOf_mem hdo)
              simp only [wfDefault, Bool.and_eq_true] at this
              exact this
            refine ⟨hp, (hpM it.1 hp).1, hvals it hit', ?_, hdw⟩
            have hdv := hvals it hit'
            unfold DefVal at hdv
            cases hs : slotOf it.2.2.1 it.2.1 with
            | passed w =>
              rw [hs] at hdv
              rw [hdv, slotOf_passed hs]
              exact hbplain (it.1, it.2.2.1) (by rw [← hb1]; exact List.mem_map.2 ⟨it, hit', rfl⟩)
            | dflt d =>
              rw [hs] at hdv
              obtain ⟨k, _, hev⟩ := hdv
              exact evalExpr_plain hplE k d _ (hdw d ((MJ.ArgBind.slotOf_dflt_iff _ _ _).1 hs).2).2 hev
          have hstk : s0.stack = (itemsF.reverse).map (fun it => it.2.2.1) ++ [] := by
            simp only [s0, calleeState, List.append_nil, List.map_reverse]
            rw [← hb1]; simp [List.map_map]
          obtain ⟨s1, G1, r1, hpc1, hst1, hrel1, hout1, htl1, hhd1, hcp1, hhc1⟩ :=
            sim_prologue hE X (heap ++ [cellE]) heap.length params F hFN itemsF.reverse hitems G off ac s0 []
              { heap := heap ++ [cellE], out := "" } hcodeAt.left.left (by
                cases ho : (relPrologue (itemsF.reverse.map fun it => (it.1, it.2.1)) off ac).2.oof with
                | false => rfl
                | true => rw [relBlock_oof_mono body _ _ none ho] at hcodeOof; cases hcodeOof)
              rfl hstk hrel0 (PD.refl _ _)
          -- … which is the cell of the reference semantics, up to the order of the bindings
          have hnmU : (itemsF.map fun it => (it.1, it.2.2.2)).map (·.1) = params := by
            rw [← hnames, ← hb1]; simp [List.map_map]
          have hrel2 : Rel K G1 X.P clo { heap := heap2, out := "" } [heap.length] env s1 := by
            refine ⟨?_, hrel1.2⟩
            rw [hheap2]
            have he := heapEq_setAll_reverse (heap ++ [cellE]) heap.length cellE (by simp)
              (itemsF.map fun it => (it.1, it.2.2.2)) (by rw [hnmU]; exact hnd)
            rw [← List.map_reverse] at he
            exact hrel1.1.heapEq he
          -- the parameters (and `caller`) are bound
          have hA : ABound heap2 [heap.length] (macroBound params uc) := by
            rw [hheap2]
            refine ABound.of_cell (fun x hx => ?_)
            simp only [macroBound, List.mem_append] at hx
            rcases hx with hx | hx
            · have hx' : x ∈ (itemsF.map fun it => (it.1, it.2.2.2)).map (·.1) := by rw [hnmU]; exact hx
              exact heapSetAll_bound _ (heap ++ [cellE]) heap.length (by simp) x hx'
            · cases huc : uc with
              | false => rw [huc] at hx; simp at hx
              | true =>
                rw [huc] at hx; simp at hx; subst hx
                refine HeapLe.heapSetAll _ (heap ++ [cellE]) heap.length heap.length "caller" ⟨cellE, by simp, ?_⟩
                show (assocGet "caller" (callerCell caller)).isSome = true
                rw [hcaller, huc]; simp [callerCell, assocGet]
          -- the body
          obtain ⟨Rp, hRp⟩ : ∃ Rp, Rp = relPrologue (itemsF.reverse.map fun it => (it.1, it.2.1)) off ac := ⟨_, rfl⟩
          rw [← hRp] at hcodeAt hcodeOof hpc1
          have p2 := ihB X body G1 { heap := heap2, out := "" } [heap.length] σ2 .normal hbody (macroBound params uc) none
            hwfbody hA (by simp) (off + Rp.1.length) Rp.2 s1 hcodeAt.left.right hcodeOof hpc1 hrel2 (by intro l hl; cases hl)
          simp only [Post, if_true] at p2
          obtain ⟨s3, G3, r3, hpc3, hst3, hrel3, hout3, htl3, hhd3, hcp3, hhc3⟩ := p2
          have hret : K.C[s3.pc]? = some .return_ := by
            have := hcodeAt.right.head
            rw [hpc3]
            refine Eq.trans (congrArg (fun k => K.C[k]?) ?_) this
            simp only [List.length_append]; omega
          -- the output of the callee
          have houts : s3.outs = [σ2.out] := by
            obtain ⟨r3o, hr3o⟩ := hrel3.2
            have h1 : s3.outs.tail = [] := by rw [hout3, hout1]; simp [s0, calleeState]
            rw [hr3o] at h1 ⊢
            simp at h1; rw [h1]
          have hx03 : Ext s0.closures s3.closures :=
            (hcp1.trans hhc1 hcp3).ext_of_none (by simp [s0, calleeState, topClosure])
          exact ⟨name, params, off, clo, uc, bound.map (·.2), callerV, s3, hu, hprep, r1.trans r3, hret, by simp [houts],
            by simpa [s0, calleeState] using hx03⟩
        · simp at hcall

/-! ## Call blocks -/

theorem splitArgs_append_kw (as : List (Option String × Val)) (k : String) (v : Val) :
    splitArgs (as ++ [(some k, v)]) = ((splitArgs as).1, (splitArgs as).2 ++ [(k, v)]) := by
  simp [splitArgs, List.filterMap_append]

theorem flat_append (a b : List (Val × Val)) : flat (a ++ b) = flat a ++ flat b := by
  induction a with
  | nil => rfl
  | cons p rest ih => obtain ⟨k, v⟩ := p; simp [flat, ih]

theorem flatKw_snoc (kw : List (String × Val)) (k : String) (v : Val) :
    flatKw (kw ++ [(k, v)]) = flatKw kw ++ [.str k, v] := by
  unfold flatKw; rw [List.map_append, flat_append]; rfl

theorem assocGet_snoc_other {α : Type} (l : List (String × α)) (k k' : String) (v : α) (h : k' ≠ k) :
    assocGet k' (l ++ [(k, v)]) = assocGet k' l := by
  rw [MJ.ArgBind.assocGet_append]
  cases assocGet k' l with
  | some _ => rfl
  | none => simp [assocGet, Ne.symm h]

theorem assocGet_snoc_same {α : Type} (l : List (String × α)) (k : String) (v : α) (h : assocGet k l = none) :
    assocGet k (l ++ [(k, v)]) = some v := by
  rw [MJ.ArgBind.assocGet_append, h]; simp [assocGet]

/-- `{% call(params) x(args) %}body{% endcall %}`: the arguments of the call, the `caller` macro made of
the body, the keyword bundle with the hidden `caller` entry, the call, `Emit` -/
theorem sim_callBlock {n} (ihPA : SimPosArgs n) (ihKA : SimKwArgs n) (ihCall : SimCall n) (X : SC) (x : String)
    (args : Args) (params : List String) (defaults : List Expr) (body : List Stmt) (uc : Bool) :
    StmtGoal (n + 1) X (.callBlock (.var x) args params defaults body uc) := by
  intro G σ loc σ' fl hev A lc hs hA hne base a s hAt hoof hpc hrel hcap
  obtain ⟨⟨hxM, hxa, hnd, hnc, hwa⟩, hcM, hfvall, hwfb⟩ := wfStmt_callBlock hs
  have hxM' : x ∈ X.K.M := by simpa using hxM
  have hcM' : "caller" ∈ X.K.M := by simpa using hcM
  cases loc with
  | nil => exact absurd rfl hne
  | cons T locR =>
    simp only [exec, bind, Except.bind] at hev
    cases hw' : MJ.Eval.lookup X.K.ctx σ.heap (T :: locR ++ X.env) x with
    | none => rw [hw'] at hev; simp at hev
    | some w =>
      rw [hw'] at hev
      simp only at hev
      split at hev
      · simp at hev
      · rename_i as has
        split at hev
        · simp at hev
        · rename_i v hcall
          simp at hev
          obtain ⟨rfl, rfl⟩ := hev
          obtain ⟨hkeys, hplen, hklen⟩ := evalArgs_keysOf args as has
          -- the code
          simp only [relStmt] at hAt hoof ⊢
          obtain ⟨Ra, hRa⟩ : ∃ Ra, Ra = relPosArgs args base a := ⟨_, rfl⟩
          rw [← hRa] at hAt hoof ⊢
          obtain ⟨Rk, hRk⟩ : ∃ Rk, Rk = relKwArgs args (base + Ra.1.length) Ra.2 := ⟨_, rfl⟩
          rw [← hRk] at hAt hoof ⊢
          obtain ⟨Rp, hRp⟩ : ∃ Rp, Rp = relPrologue (paramDefaults params defaults).reverse
              (base + Ra.1.length + Rk.1.length + 1 + 1) Rk.2 := ⟨_, rfl⟩
          rw [← hRp] at hAt hoof ⊢
          obtain ⟨Rb, hRb⟩ : ∃ Rb, Rb = relBlock body (base + Ra.1.length + Rk.1.length + 1 + 1 + Rp.1.length) Rp.2 none := ⟨_, rfl⟩
          rw [← hRb] at hAt hoof ⊢
          have hoofP : Rp.2.oof = false := by
            cases ho : Rp.2.oof with
            | false => rfl
            | true => rw [hRb, relBlock_oof_mono body _ _ none ho] at hoof; cases hoof
          have hoofK : Rk.2.oof = false := by
            cases ho : Rk.2.oof with
            | false => rfl
            | true => rw [hRp, relPrologue_oof_mono _ _ _ ho] at hoofP; cases hoofP
          have hoofA : Ra.2.oof = false := by rw [hRk] at hoofK; exact oof_false_of_relKwArgs hoofK
          let j : Nat := base + Ra.1.length + Rk.1.length + 1
          obtain ⟨MD, hMD⟩ : ∃ MD, MD = macroDeclCode "caller" params (findMacroClosure params defaults body) j Rp.1 Rb.1.1 := ⟨_, rfl⟩
          have hAt' : At X.K.C base ((((Ra.1 ++ Rk.1) ++ [Instr.loadConst (.str "caller")]) ++ MD) ++
              [.buildKwargs ((kwArgs args).length + 1), .callFunction x ((posArgs args).length + 1), .emit]) := by
            rw [hMD]; exact hAt
          -- the arguments
          let E := X.ectx G σ.heap (T :: locR) A
          have hok : E.ok s := hrel.eok hA (by simp)
          have hplA : ∀ v, v ∈ as.map (·.2) → plain v = true := evalArgs_plain hrel.1.plain n args as hwa has
          have p1 := ihPA E args as has hwa base a s (by rw [← hRa]; exact hAt'.left.left.left.left) (by rw [← hRa]; exact hoofA) hpc hok
          rw [← hRa] at p1
          have p2 : Pushed E s (base + Ra.1.length + Rk.1.length)
              ((flatKw (splitArgs as).2).reverse ++ ((splitArgs as).1.reverse ++ s.stack)) := by
            refine p1.trans (fun c1 x1 => ?_)
            have := ihKA E args as has hwa (base + Ra.1.length) Ra.2
              { s with pc := base + Ra.1.length, stack := (splitArgs as).1.reverse ++ s.stack, closures := c1 }
              (by rw [← hRk]; exact hAt'.left.left.left.right) (by rw [← hRk]; exact hoofK) rfl (hok.next x1 _ _)
            rw [← hRk] at this
            exact this
          have hi3 : X.K.C[base + Ra.1.length + Rk.1.length]? = some (.loadConst (.str "caller")) := by
            have := hAt'.left.left.right.head; simpa [Nat.add_assoc] using this
          have p3 : Pushed E s j (.str "caller" :: ((flatKw (splitArgs as).2).reverse ++ ((splitArgs as).1.reverse ++ s.stack))) :=
            p2.step (i := .loadConst (.str "caller")) hi3 (fun cls1 => by simp [MJ.Vm.step, j])
          obtain ⟨c3, x3, r3⟩ := p3
          let s3 : VmState := { s with pc := j, stack := .str "caller" :: ((flatKw (splitArgs as).2).reverse ++ ((splitArgs as).1.reverse ++ s.stack)),
                                       closures := c3 }
          have hrel3 : Rel X.K G X.P X.clo σ (T :: locR) X.env s3 := hrel.ext _ rfl x3 rfl rfl
          -- the `caller` macro
          have hAtM : At X.K.C j MD := by
            refine At.cast hAt'.left.right ?_
            simp only [j, List.length_append, List.length_cons, List.length_nil]; omega
          obtain ⟨s5, G2, vm, r5, hpc5, hst5, hrel5, hmrel, hout5, htl5, hhd5, hcp5, hhc5⟩ :=
            sim_macro_expr X "caller" params defaults body uc hfvall hwfb hA Rp hRp Rb hRb (by rw [← hMD]; exact hAtM) hoof rfl hrel3
          rw [← hMD] at hpc5
          -- BuildKwargs
          let wc : Val := .macro "caller" params defaults body uc (T :: (locR ++ X.env))
          have hndk : (((splitArgs as).2 ++ [("caller", vm)]).map (·.1)).Nodup := by
            rw [List.map_append, hkeys]
            refine List.nodup_append.2 ⟨hnd, by simp, ?_⟩
            intro k hk k' hk' e
            simp at hk'; subst hk'; subst e; exact hnc hk
          obtain ⟨m', hm', hget⟩ := insertPairs_kw ((splitArgs as).2 ++ [("caller", vm)]) [] hndk (fun k _ => by simp [assocGet])
          have hcnone : assocGet "caller" (splitArgs as).2 = none :=
            assocGet_none_of_not_mem (by rw [hkeys]; exact hnc)
          let s6 : VmState := { s5 with pc := s5.pc + 1, stack := .kwargs m' :: ((splitArgs as).1.reverse ++ s.stack) }
          have hi6 : X.K.C[s5.pc]? = some (.buildKwargs ((kwArgs args).length + 1)) := by
            have := hAt'.right.head
            rw [hpc5]
            refine Eq.trans (congrArg (fun k => X.K.C[k]?) ?_) this
            simp only [j, List.length_append, List.length_cons, List.length_nil]; omega
          have r6 : Reach X.K.ctx X.K.C s5 s6 := by
            refine Reach.one (i := .buildKwargs ((kwArgs args).length + 1)) hi6 ?_
            have hpop : popN (2 * ((kwArgs args).length + 1)) s5.stack =
                some (flatKw ((splitArgs as).2 ++ [("caller", vm)]), (splitArgs as).1.reverse ++ s.stack) := by
              have hl : 2 * ((kwArgs args).length + 1) = (flatKw ((splitArgs as).2 ++ [("caller", vm)])).length := by
                rw [flatKw_length]; simp [hklen]
              rw [hl, hst5]
              have := popN_append (flatKw ((splitArgs as).2 ++ [("caller", vm)])) ((splitArgs as).1.reverse ++ s.stack)
              rw [flatKw_snoc] at this ⊢
              simpa [s3] using this
            simp only [MJ.Vm.step, hpop, pairUp_flatKw, hm', Except.map, s6]
          have hrel6 : Rel X.K G2 X.P X.clo σ (T :: locR) X.env s6 := hrel5.same s6 rfl rfl rfl
          -- the arguments as the callee sees them
          have hargsR : ArgsRel X.K G2 s6.closures σ.heap.length (as ++ [(some "caller", wc)])
              ((splitArgs as).1 ++ [.kwargs m']) := by
            rw [ArgsRel, splitArgs_append_kw]
            refine ⟨fun v hv => hplA v (mem_splitArgs_pos hv), Or.inr ⟨by simp, m', ⟨fun k hk => ?_, Or.inr ?_⟩, rfl⟩⟩
            · rw [hget k, assocGet_snoc_other _ _ _ _ hk, assocGet_snoc_other _ _ _ _ hk]
              refine ⟨by cases assocGet k (splitArgs as).2 <;> simp [assocGet], fun v hv => hplA v (mem_splitArgs_kw (assocGet_mem' hv))⟩
            · refine ⟨wc, vm, assocGet_snoc_same _ _ _ hcnone, ?_, hmrel⟩
              rw [hget "caller", assocGet_snoc_same _ _ _ hcnone]
          -- CallFunction
          have hok6 : (X.ectx G2 σ.heap (T :: locR) A).ok s6 := hrel6.eok hA (by simp)
          have hag : ValAgree X.K G2 s6.closures σ.heap.length x ((MJ.Eval.lookup X.K.ctx σ.heap (T :: locR ++ X.env) x).getD .undef)
              (lookupFrames X.K.ctx s6.closures x s6.frames) := hok6.lookup (x := x) hxa
          rw [hw'] at hag
          simp only [Option.getD_some, ValAgree, if_pos hxM'] at hag
          obtain ⟨nm, spec, off, clo, cref, vals, callerV, sR, hu, hprep, hreachC, hret, hv, hext⟩ :=
            ihCall X.K G2 σ.heap s6.closures w _ (as ++ [(some "caller", wc)]) ((splitArgs as).1 ++ [.kwargs m']) v hcall hag hargsR
              hok6.1.ginv hok6.1.plain
          let s7 : VmState := { s6 with pc := s6.pc + 1, stack := v :: s.stack, closures := sR.closures }
          have hi7 : X.K.C[s6.pc]? = some (.callFunction x ((splitArgs as).1 ++ [Val.kwargs m']).length) := by
            have := hAt'.right.tail.head
            simp only [s6, hpc5, List.length_append, List.length_cons, List.length_nil, hplen]
            refine Eq.trans (congrArg (fun k => X.K.C[k]?) ?_) this
            simp only [j, List.length_append, List.length_cons, List.length_nil]; omega
          have r7 : Reach X.K.ctx X.K.C s6 s7 := by
            refine Reach.call (name := x) (args := (splitArgs as).1 ++ [.kwargs m']) (rest := s.stack) hi7
              (by have := popN_append ((splitArgs as).1 ++ [.kwargs m']) s.stack; simpa [s6] using this) hu hprep hreachC hret ?_
            subst hv
            exact Reach.refl _
          have hrel7 : Rel X.K G2 X.P X.clo σ (T :: locR) X.env s7 := hrel6.ext s7 rfl hext rfl rfl
          -- Emit
          let s8 : VmState := { s7 with pc := s7.pc + 1, stack := s.stack, outs := MJ.Vm.appendOut (render v) s7.outs }
          have hi8 : X.K.C[s7.pc]? = some .emit := by
            have := hAt'.right.tail.tail.head
            simp only [s7, s6, hpc5]
            refine Eq.trans (congrArg (fun k => X.K.C[k]?) ?_) this
            simp only [j, List.length_append, List.length_cons, List.length_nil]; omega
          have r8 : Reach X.K.ctx X.K.C s7 s8 := Reach.one (i := .emit) hi8 (by simp [MJ.Vm.step, s7, s8])
          have hr8 := hrel7.appendOut (render v) s8 rfl rfl rfl
          -- together
          have hcp03 : ClPres s s3 := ClPres.of_ext x3
          have hhc03 : HeadClos s s3 := HeadClos.of_eq rfl
          have hcp56 : ClPres s5 s6 := ClPres.of_eq rfl
          have hhc56 : HeadClos s5 s6 := HeadClos.of_eq rfl
          have hcp67 : ClPres s6 s7 := ClPres.of_ext hext
          have hhc67 : HeadClos s6 s7 := HeadClos.of_eq rfl
          have hcp78 : ClPres s7 s8 := ClPres.of_eq rfl
          have hhc78 : HeadClos s7 s8 := HeadClos.of_eq rfl
          have hcp05 : ClPres s s5 := hcp03.trans hhc03 hcp5
          have hhc05 : HeadClos s s5 := hhc03.trans hcp03.1 hhc5
          have hcp58 : ClPres s5 s8 := hcp56.trans hhc56 (hcp67.trans hhc67 hcp78)
          have hhc58 : HeadClos s5 s8 := hhc56.trans hcp56.1 (hhc67.trans hcp67.1 hhc78)
          simp only [Post, if_true]
          refine ⟨s8, G2, (r3.trans r5).trans (r6.trans (r7.trans r8)), ?_, rfl, hr8.1, ?_, ?_, ?_,
            hcp05.trans hhc05 hcp58, hhc05.trans hcp05.1 hhc58⟩
          · simp only [s8, s7, s6, hpc5, ← hMD, j, List.length_append, List.length_cons, List.length_nil]; omega
          · rw [hr8.2]; simp [s7, s6, hout5, s3]
          · simp only [s8, s7, s6, htl5]; rfl
          · simp only [s8, s7, s6, hhd5]; rfl

/-! ## Putting the pieces together -/

theorem sim_stmt_step {n} (ihEs : SimExprs n) (ihC : SimCall n) (hE : ∀ m, m ≤ n → SimExpr m) (ihB : SimBlock n) (ihW : SimBinds n)
    (ihI : SimIters n) (ihF : SimFilters n) : SimStmt (n + 1) := by
  intro X st
  cases st with
  | text t => exact sim_text X t
  | emit e => exact sim_emit ihEs.1 X e
  | set t e => exact sim_set ihEs.1 X t e
  | ifS c t f => exact sim_if ihEs.1 ihB X c t f
  | withS binds body => exact sim_with ihB ihW X binds body
  | forS t iter flt body els => exact sim_for hE ihB ihI X t iter flt body els
  | setBlock x fs body => exact sim_setBlock ihB ihF X x fs body
  | filterBlock fs body => exact sim_filterBlock ihB ihF X fs body
  | macroS name params defaults body uc => exact sim_macro X name params defaults body uc
  | callBlock callee args params defaults body uc =>
    cases callee with
    | var x => exact sim_callBlock ihEs.2.2.2.2.2.1 ihEs.2.2.2.2.2.2 ihC X x args params defaults body uc
    | _ =>
      intro G σ loc σ' fl hev A lc hs
      simp [wfStmt] at hs
  | breakS => exact sim_break X
  | continueS => exact sim_continue X

/-- everything at fuel `n` -/
def AllSim (n : Nat) : Prop :=
  SimExprs n ∧ SimCall n ∧ SimStmt n ∧ SimBlock n ∧ SimBinds n ∧ SimIters n ∧ SimFilters n

theorem all_sim_zero : AllSim 0 := by
  refine ⟨sim_exprs_zero, ?_, ?_, ?_, ?_, ?_, ?_⟩
  · intro K G heap cls w u as args v h; simp [callValue] at h
  · intro X st G σ loc σ' fl h; simp [exec] at h
  · intro X ss G σ loc σ' fl h; simp [execBlock] at h
  · intro X binds G heap loc heap' out h; simp [bindWith] at h
  · intro X G σ loc σ' t body xs len idx prev h; simp [execIters] at h
  · intro E fs v v' h; simp [applyFilters] at h

theorem all_sim : ∀ n, ∀ m, m ≤ n → AllSim m := by
  intro n
  induction n with
  | zero => intro m hm; have : m = 0 := by omega
            subst this; exact all_sim_zero
  | succ n ih =>
    intro m hm
    by_cases hle : m ≤ n
    · exact ih m hle
    · have : m = n + 1 := by omega
      subst this
      obtain ⟨hEs, hC, hS, hB, hW, hI, hF⟩ := ih n (Nat.le_refl n)
      exact ⟨sim_exprs_step hEs hC, sim_call_step (fun k hk => (ih k (by omega)).1.1) hB,
        sim_stmt_step hEs hC (fun k hk => (ih k hk).1.1) hB hW hI hF, sim_block_step hS hB,
        sim_binds_step hEs.1 hW, sim_iters_step hB hI, sim_filters_step hEs.2.2.1 hF⟩

/-- the render context holds plain data: `undefined`, `none`, booleans, integers, strings, lists and maps
of these (no macro or other engine object: they cannot come from a template) -/
def CtxPlain (ctx : Scope) : Prop := ∀ x v, assocGet x ctx = some v → plain v = true

theorem plain_not_macro {v : Val} (h : plain v = true) : ∀ n p d b u e, v ≠ .macro n p d b u e := by
  intro n p d b u e hv; subst hv; simp [plain] at h

/-- the relation at the start of a render -/
theorem rel_init (K : Cfg) (hctx : CtxPlain K.ctx) :
    Rel K (fun _ => none) none none { heap := [[]], out := "" } [0] [] ({} : VmState) := by
  refine ⟨⟨⟨[{}], [], rfl, ⟨⟨[], by simp, fun x => by simp only [assocGet, frameLocal]; exact OptAgree.none _ _ _ _ _⟩, rfl, trivial⟩,
    by simp, ?_, ?_⟩, ?_, ?_, ?_, by simp, by simp, by simp, by simp, ?_⟩, ⟨[], rfl⟩⟩
  · intro k f c hk hcl
    cases k with
    | zero => simp at hk; subst hk; cases hcl
    | succ j => simp at hk
  · intro c env' h; cases h
  · intro x _
    have : tailLookup K.ctx ([] : List Scope) none x = (MJ.Eval.lookup K.ctx [[]] [] x).getD .undef := by
      simp [tailLookup, MJ.Eval.lookup, lookupIn]
    show ValAgree K _ _ _ x _ (tailLookup K.ctx ([] : List Scope) none x)
    rw [this]
    unfold ValAgree
    split
    · cases hl : MJ.Eval.lookup K.ctx [[]] [] x with
      | none => exact MacroRel_of_data (by intro n p d b u e h; cases h)
      | some w =>
        simp only [Option.getD_some]
        have hw : assocGet x K.ctx = some w := by simpa [MJ.Eval.lookup, lookupIn] using hl
        exact MacroRel_of_data (plain_not_macro (hctx x w hw))
    · rfl
  · intro c env' h; cases h
  · intro c env' h; cases h
  · refine ⟨hctx, fun id cell x v hc _ hg => ?_⟩
    cases id with
    | zero => simp at hc; subst hc; simp [assocGet] at hg
    | succ k => simp at hc

/-- **`vm_refines_eval`**: for every template of the core fragment (`CoreFragment`: expressions, `if`,
`for` with filter / else / unpacking / `loop`, `set`, set-blocks, `with`, filter-blocks, `break` /
`continue`, macro declarations with closures and parameter defaults, macro calls with positional and
keyword arguments, call blocks and `caller`) and every render context of plain data, if the reference
semantics renders it to `out`, then the model VM, run on the code the model code generator emits for it,
renders `out` as well (for every sufficiently large step budget). -/
theorem vm_refines_eval (prog : List Stmt) (hfrag : CoreFragment prog) (ctx : Scope) (hctx : CtxPlain ctx)
    (code : List Instr) (hcode : compileTemplate prog = some code) (fuel : Nat) (out : String)
    (hev : renderTemplate fuel ctx prog = .ok out) :
    ∃ k, ∀ j, renderCode (k + j) ctx code = .ok out := by
  have hcore : coreBlock false prog = true := wf_coreBlock _ _ _ _ _ hfrag
  have heq : cBlock prog {} = ({} : CG).extend (relBlock prog 0 {} none).1 := by
    have h := cBlock_eq_core prog {} none hcore trivial
    rw [h, CG.withBreaks_eq]
    simp [foldl_addBreakJump_nil, CG.extend, CG.next, setExit]
  simp only [compileTemplate] at hcode
  split at hcode
  · simp at hcode
  · rename_i hcond
    simp at hcode
    have hoof : (relBlock prog 0 {} none).1.2.oof = false := by
      have : (cBlock prog {}).oof = false := by
        simp only [Bool.or_eq_true, not_or] at hcond
        simpa using hcond.1
      rw [heq] at this
      simpa [CG.oof, CG.extend, CG.next] using this
    have hc : code = (relBlock prog 0 {} none).1.1 := by
      rw [← hcode, heq]; simp [CG.extend, CG.next]
    simp only [renderTemplate] at hev
    split at hev
    · rename_i σ fl hexec
      simp at hev; subst hev
      let K : Cfg := { ctx := ctx, M := macroNames prog, C := code }
      let X : SC := { K := K, P := none, clo := none, env := [] }
      have hAt : At K.C 0 (relBlock prog 0 {} none).1.1 := by
        show At code 0 _
        rw [hc]; intro k _; simp
      have hrel0 : Rel K (fun _ => none) none none { heap := [[]], out := "" } [0] [] ({} : VmState) := rel_init K hctx
      have p := (all_sim fuel fuel (Nat.le_refl _)).2.2.2.1 X prog (fun _ => none) _ [0] σ fl hexec [] none hfrag
        (by intro x hx; simp at hx) (by simp) 0 {} {} hAt hoof rfl hrel0 (by intro l hl; cases hl)
      have hfl : fl = .normal := by
        cases fl with
        | normal => rfl
        | brk => simp [Post] at p
        | cont => simp [Post] at p
      subst hfl
      simp only [Post, if_true] at p
      obtain ⟨s', G', hreach, hpc, _, hrel', hout, _, _, _, _⟩ := p
      have hend : Halted code s' := by
        left; rw [hpc, hc]; simp
      obtain ⟨k, hk⟩ := hreach.toRun hend
      refine ⟨k, fun j => ?_⟩
      obtain ⟨rest, hr⟩ := hrel'.2
      have : rest = [] := by
        have := hout; rw [hr] at this; simpa using this
      subst this
      have hrun : run ctx code (k + j) {} = .ok s' := hk j
      simp [renderCode, hrun, hr]
    · simp at hev

/-- expressions, for the back-patching generator `cExpr` of `MJ.Compile`: the code it appends for `e`
makes the VM push the value of `e` (constant folding, short-circuit `and` / `or`, `if` expressions,
filters, tests, macro calls with positional and keyword arguments, …) -/
theorem compileExpr_correct {n e v} (E : ECtx) (hev : evalExpr n E.K.ctx E.heap (E.loc ++ E.env) e = .ok v)
    (hwf : wfExpr E.K.M E.P E.A e = true) (g : CG) (post : List Instr) (hC : E.K.C = (cExpr e g).code ++ post)
    (hoof : (cExpr e g).oof = false) {s : VmState} (hpc : s.pc = g.next) (hok : E.ok s) :
    Pushed E s (cExpr e g).next (v :: s.stack) := by
  have hcore := wf_core _ _ _ e hwf
  rw [cExpr_eq_core e g hcore] at hoof hC ⊢
  have hAt : At E.K.C g.next (relExpr e g.next g.aux).1 := by
    rw [hC]
    exact At.of_append g.code _ post
  have := (all_sim n n (Nat.le_refl _)).1.1 E e v hev hwf g.next g.aux s hAt (by simpa [CG.oof, CG.extend] using hoof) hpc hok
  simpa [CG.extend, CG.next] using this

end MJ.Vm
