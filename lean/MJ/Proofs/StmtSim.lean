import MJ.Proofs.ExprSim
import MJ.Proofs.EvalFrame
/-!
# Statements compile correctly: text, emit, set, if (C03 stage 3)

`relStmt` / `relBlock` are the code of a statement without back-patching, `cStmt_eq_rel` shows the
back-patching generator produces it, `sim_stmt_all` is the simulation (by induction on the fuel of
the reference execution) and `vm_refines_eval_partial` the resulting refinement theorem for whole
templates of the fragment.
-/
namespace MJ.Compile
open MJ.Eval

mutual
  /-- the stage-3 statement fragment: text, `{{ e }}`, `set x = e`, `if` / `elif` / `else` -/
  def simpleStmt : Stmt → Bool
    | .text _ => true
    | .emit e => simpleExpr e
    | .set (.var _) e => simpleExpr e
    | .ifS c t f => simpleExpr c && simpleBlock t && simpleBlock f
    | _ => false
  def simpleBlock : List Stmt → Bool
    | [] => true
    | s :: rest => simpleStmt s && simpleBlock rest
end

mutual
  def relStmt : Stmt → Nat → Aux → List Instr × Aux
    | .text t, _, a => ([.emitRaw t], a)
    | .emit e, base, a => ((relExpr e base a).1 ++ [.emit], (relExpr e base a).2)
    | .set (.var x) e, base, a => ((relExpr e base a).1 ++ [.storeLocal x], (relExpr e base a).2)
    | .ifS c t [], base, a =>
      let rc := relExpr c base a
      let rt := relBlock t (base + rc.1.length + 1) rc.2
      (rc.1 ++ [.jumpIfFalse (base + rc.1.length + 1 + rt.1.length)] ++ rt.1, rt.2)
    | .ifS c t (f :: fs), base, a =>
      let rc := relExpr c base a
      let rt := relBlock t (base + rc.1.length + 1) rc.2
      let fb := base + rc.1.length + 1 + rt.1.length + 1
      let rf := relBlock (f :: fs) fb rt.2
      (rc.1 ++ [.jumpIfFalse fb] ++ rt.1 ++ [.jump (fb + rf.1.length)] ++ rf.1, rf.2)
    | _, _, a => ([], a.markOof)
  def relBlock : List Stmt → Nat → Aux → List Instr × Aux
    | [], _, a => ([], a)
    | s :: rest, base, a =>
      let rs := relStmt s base a
      let rr := relBlock rest (base + rs.1.length) rs.2
      (rs.1 ++ rr.1, rr.2)
end

theorem endIf_noelse (A : List Instr) (P : List Pending) (a : Aux) (C : List Instr × Aux) (n : Nat)
    (hn : n = A.length) :
    (({ code := A ++ Instr.jumpIfFalse unpatched :: [], pending := .branch n :: P, aux := a } : CG).extend C).endIf =
      { code := A ++ Instr.jumpIfFalse (A.length + 1 + C.1.length) :: C.1, pending := P, aux := C.2 } := by
  subst hn
  simp only [CG.endIf, CG.endCondition, CG.extend, CG.next]
  rw [patch_jif _ A C.1 _ unpatched _ (by simp) rfl]
  simp [Nat.add_assoc]; omega

theorem if_block_noelse (g : CG) (Cc Ct : List Instr × Aux) :
    ((g.extend Cc).startIf.extend Ct).endIf =
      g.extend (Cc.1 ++ [Instr.jumpIfFalse (g.next + Cc.1.length + 1 + Ct.1.length)] ++ Ct.1, Ct.2) := by
  rw [startIf_extend, endIf_noelse _ _ _ _ _ (by simp [CG.next])]
  simp [CG.extend, CG.next, Nat.add_assoc]

mutual
theorem cStmt_eq_rel : ∀ (st : Stmt) (g : CG), simpleStmt st = true →
    cStmt st g = g.extend (relStmt st g.next g.aux)
  | .text t, g, _ => by simp [cStmt, relStmt, CG.add_eq_extend]
  | .emit e, g, h => by
    have hs : simpleExpr e = true := by simpa [simpleStmt] using h
    simp [cStmt, relStmt, cExpr_eq_rel e g hs]
  | .set (.var x) e, g, h => by
    have hs : simpleExpr e = true := by simpa [simpleStmt] using h
    simp [cStmt, relStmt, cTarget, cExpr_eq_rel e g hs]
  | .set (.tuple _) _, _, h => by simp [simpleStmt] at h
  | .ifS c t [], g, h => by
    have hs : simpleExpr c = true ∧ simpleBlock t = true := by simpa [simpleStmt, simpleBlock] using h
    simp only [cStmt, relStmt]
    rw [cExpr_eq_rel c g hs.1, cBlock_eq_rel t _ hs.2, if_block_noelse]
    simp [Nat.add_assoc]
  | .ifS c t (f :: fs), g, h => by
    have hs : (simpleExpr c = true ∧ simpleBlock t = true) ∧ simpleBlock (f :: fs) = true := by
      simpa [simpleStmt] using h
    simp only [cStmt, relStmt]
    rw [cExpr_eq_rel c g hs.1.1, cBlock_eq_rel t _ hs.1.2, cBlock_eq_rel (f :: fs) _ hs.2, if_block]
    simp [Nat.add_assoc]
  | .forS .., _, h => by simp [simpleStmt] at h
  | .setBlock .., _, h => by simp [simpleStmt] at h
  | .withS .., _, h => by simp [simpleStmt] at h
  | .filterBlock .., _, h => by simp [simpleStmt] at h
  | .macroS .., _, h => by simp [simpleStmt] at h
  | .callBlock .., _, h => by simp [simpleStmt] at h
  | .breakS, _, h => by simp [simpleStmt] at h
  | .continueS, _, h => by simp [simpleStmt] at h
theorem cBlock_eq_rel : ∀ (ss : List Stmt) (g : CG), simpleBlock ss = true →
    cBlock ss g = g.extend (relBlock ss g.next g.aux)
  | [], g, _ => by simp [cBlock, relBlock, CG.extend]
  | s :: rest, g, h => by
    have hs : simpleStmt s = true ∧ simpleBlock rest = true := by simpa [simpleBlock] using h
    simp only [cBlock, relBlock]
    rw [cStmt_eq_rel s g hs.1, cBlock_eq_rel rest _ hs.2]
    simp [CG.extend_extend]
end

end MJ.Compile
namespace MJ.Vm
open MJ.Eval MJ.Compile MJ.C03

theorem lookupFrames_storeLocal (ctx : Scope) (x y : String) (v : Val) (f : Frame) (rest : List Frame) :
    lookupFrames ctx y (storeLocal x v (f :: rest)) =
      if y = x then v else lookupFrames ctx y (f :: rest) := by
  by_cases h : y = x
  · subst h; simp [storeLocal, lookupFrames, assocGet_assocSet_same]
  · simp [storeLocal, lookupFrames, assocGet_assocSet_other x y v _ h, h]

theorem lookupIn_heapSet_other (heap : Heap) (cell : Nat) (x y : String) (v : Val) (hne : y ≠ x) :
    ∀ ids : List Nat, lookupIn (heapSet heap cell x v) y ids = lookupIn heap y ids := by
  intro ids
  induction ids with
  | nil => rfl
  | cons id rest ih =>
    simp only [lookupIn]
    by_cases hid : id = cell
    · subst hid
      by_cases hlt : id < heap.length
      · rw [heapSet_other heap id x y v hne hlt, ih]
      · have : heapSet heap id x v = heap := by
          simp [heapSet, List.getElem?_eq_none (Nat.le_of_not_lt hlt)]
        rw [this]
    · rw [heapSet_getElem?_ne heap cell id x v hid, ih]

theorem lookup_heapSet (ctx : Scope) (heap : Heap) (cell : Nat) (rs : List Nat) (x y : String) (v : Val)
    (hcell : cell < heap.length) :
    (lookup ctx (heapSet heap cell x v) (cell :: rs) y).getD .undef =
      if y = x then v else (lookup ctx heap (cell :: rs) y).getD .undef := by
  by_cases h : y = x
  · subst h; simp [lookup_heapSet_same ctx heap cell rs y v hcell]
  · simp [lookup, lookupIn_heapSet_other heap cell x y v h, h]

/-- the relation between a state of the reference semantics (in scope `stack`) and a VM state:
same variables, same current output buffer -/
structure Rel (ctx : Scope) (σ : State) (stack : List Nat) (s : VmState) : Prop where
  env : EnvRel ctx σ.heap stack s.frames
  out : ∃ rest, s.outs = σ.out :: rest
  cell : ∃ cell rs, stack = cell :: rs ∧ cell < σ.heap.length
  frames : s.frames ≠ []


mutual
theorem relStmt_oof_mono : ∀ (st : Stmt) (b : Nat) (a : Aux), a.oof = true → (relStmt st b a).2.oof = true
  | .text t, b, a, h => by simp [relStmt, h]
  | .emit e, b, a, h => by simp [relStmt, relExpr_oof_mono e b a h]
  | .set (.var x) e, b, a, h => by simp [relStmt, relExpr_oof_mono e b a h]
  | .set (.tuple _) _, b, a, h => by simp [relStmt]
  | .ifS c t [], b, a, h => by
    simp only [relStmt]; exact relBlock_oof_mono t _ _ (relExpr_oof_mono c b a h)
  | .ifS c t (f :: fs), b, a, h => by
    simp only [relStmt]
    exact relBlock_oof_mono (f :: fs) _ _ (relBlock_oof_mono t _ _ (relExpr_oof_mono c b a h))
  | .forS .., b, a, h => by simp [relStmt]
  | .setBlock .., b, a, h => by simp [relStmt]
  | .withS .., b, a, h => by simp [relStmt]
  | .filterBlock .., b, a, h => by simp [relStmt]
  | .macroS .., b, a, h => by simp [relStmt]
  | .callBlock .., b, a, h => by simp [relStmt]
  | .breakS, b, a, h => by simp [relStmt]
  | .continueS, b, a, h => by simp [relStmt]
theorem relBlock_oof_mono : ∀ (ss : List Stmt) (b : Nat) (a : Aux), a.oof = true → (relBlock ss b a).2.oof = true
  | [], b, a, h => by simp [relBlock, h]
  | s :: rest, b, a, h => by
    simp only [relBlock]; exact relBlock_oof_mono rest _ _ (relStmt_oof_mono s b a h)
end

theorem oof_false_of_relBlock {ss b a} (h : (relBlock ss b a).2.oof = false) : a.oof = false := by
  cases ha : a.oof with
  | false => rfl
  | true => rw [relBlock_oof_mono ss b a ha] at h; cases h

theorem oof_false_of_relStmt {st b a} (h : (relStmt st b a).2.oof = false) : a.oof = false := by
  cases ha : a.oof with
  | false => rfl
  | true => rw [relStmt_oof_mono st b a ha] at h; cases h

/-- what executing the code of a statement (block) achieves -/
def Done (ctx : Scope) (C : List Instr) (stack : List Nat) (σ' : State) (s : VmState) (endPc : Nat) : Prop :=
  ∃ s', Reach ctx C s s' ∧ s'.pc = endPc ∧ s'.stack = s.stack ∧ Rel ctx σ' stack s' ∧ s'.outs.tail = s.outs.tail

def SimStmt (n : Nat) : Prop :=
  ∀ st ctx stack σ σ' fl, exec n ctx stack σ st = .ok (σ', fl) → simpleStmt st = true →
    ∀ C base a s, At C base (relStmt st base a).1 → (relStmt st base a).2.oof = false → s.pc = base →
      Rel ctx σ stack s → fl = .normal ∧ Done ctx C stack σ' s (base + (relStmt st base a).1.length)

def SimBlock (n : Nat) : Prop :=
  ∀ ss ctx stack σ σ' fl, execBlock n ctx stack σ ss = .ok (σ', fl) → simpleBlock ss = true →
    ∀ C base a s, At C base (relBlock ss base a).1 → (relBlock ss base a).2.oof = false → s.pc = base →
      Rel ctx σ stack s → fl = .normal ∧ Done ctx C stack σ' s (base + (relBlock ss base a).1.length)

theorem sim_block_step {n} (ihS : SimStmt n) (ihB : SimBlock n) : SimBlock (n + 1) := by
  intro ss ctx stack σ σ' fl hev hs C base a s hAt hoof hpc hrel
  cases ss with
  | nil =>
    simp [execBlock] at hev
    obtain ⟨rfl, rfl⟩ := hev
    refine ⟨rfl, s, Reach.refl _, ?_, rfl, hrel, rfl⟩
    simp [relBlock, hpc]
  | cons st rest =>
    have hs' : simpleStmt st = true ∧ simpleBlock rest = true := by simpa [simpleBlock] using hs
    simp only [relBlock] at hAt hoof ⊢
    have ho1 := oof_false_of_relBlock hoof
    simp only [execBlock] at hev
    split at hev
    · simp at hev
    · rename_i σ1 h1
      obtain ⟨_, s1, r1, hpc1, hst1, hrel1, hout1⟩ := ihS st ctx stack σ σ1 .normal h1 hs'.1 C base a s hAt.left ho1 hpc hrel
      obtain ⟨hfl, s2, r2, hpc2, hst2, hrel2, hout2⟩ :=
        ihB rest ctx stack σ1 σ' fl hev hs'.2 C (base + (relStmt st base a).1.length) (relStmt st base a).2 s1
          hAt.right hoof hpc1 hrel1
      exact ⟨hfl, s2, r1.trans r2, by rw [hpc2]; simp [Nat.add_assoc], hst2.trans hst1, hrel2, hout2.trans hout1⟩
    · rename_i σ1 fl1 hne h1
      have := (ihS st ctx stack σ σ1 fl1 h1 hs'.1 C base a s hAt.left ho1 hpc hrel).1
      exact absurd this (by intro h; exact hne h)


theorem Rel.appendOut {ctx σ stack s} (h : Rel ctx σ stack s) (t : String) (s' : VmState)
    (hf : s'.frames = s.frames) (ho : s'.outs = MJ.Vm.appendOut t s.outs) :
    Rel ctx { σ with out := σ.out ++ t } stack s' ∧ s'.outs.tail = s.outs.tail := by
  obtain ⟨rest, hr⟩ := h.out
  refine ⟨⟨by rw [hf]; exact h.env, ⟨rest, by rw [ho, hr]; rfl⟩, h.cell, by rw [hf]; exact h.frames⟩, ?_⟩
  rw [ho, hr]; rfl

theorem sim_stmt_step {n} (ihB : SimBlock n) : SimStmt (n + 1) := by
  intro st ctx stack σ σ' fl hev hs C base a s hAt hoof hpc hrel
  cases st with
  | text t =>
    simp [exec] at hev
    obtain ⟨rfl, rfl⟩ := hev
    simp only [relStmt] at hAt ⊢
    refine ⟨by simp, { s with pc := s.pc + 1, outs := MJ.Vm.appendOut t s.outs }, ?_, by simp [hpc], rfl, ?_⟩
    · exact Reach.one (i := .emitRaw t) (by rw [hpc]; exact hAt.head) (by simp [MJ.Vm.step])
    · exact hrel.appendOut t _ rfl rfl
  | emit e =>
    have hse : simpleExpr e = true := by simpa [simpleStmt] using hs
    simp only [exec, bind, Except.bind] at hev
    split at hev
    · simp at hev
    · rename_i v hv
      simp at hev
      obtain ⟨rfl, rfl⟩ := hev
      simp only [relStmt] at hAt hoof ⊢
      have r1 := relExpr_correct hv hse hAt.left hoof hpc hrel.env
      refine ⟨by simp, { s with pc := base + (relExpr e base a).1.length + 1, outs := MJ.Vm.appendOut (render v) s.outs },
        r1.trans (Reach.one' (i := .emit) _ hAt.right.head rfl (by simp [MJ.Vm.step])), by simp [Nat.add_assoc], rfl, ?_⟩
      exact hrel.appendOut (render v) _ rfl rfl
  | set target e =>
    cases target with
    | tuple ts => simp [simpleStmt] at hs
    | var x =>
      have hse : simpleExpr e = true := by simpa [simpleStmt] using hs
      obtain ⟨cell, rs, hstack, hcell⟩ := hrel.cell
      subst hstack
      simp only [exec, bind, Except.bind] at hev
      split at hev
      · simp at hev
      · rename_i v hv
        simp [bindTarget, topCell, heapSetAll] at hev
        obtain ⟨rfl, rfl⟩ := hev
        simp only [relStmt] at hAt hoof ⊢
        have r1 := relExpr_correct hv hse hAt.left hoof hpc hrel.env
        obtain ⟨f, frest, hfr⟩ : ∃ f frest, s.frames = f :: frest := by
          cases hf : s.frames with
          | nil => exact absurd hf hrel.frames
          | cons f frest => exact ⟨f, frest, rfl⟩
        refine ⟨by simp, { s with pc := base + (relExpr e base a).1.length + 1, frames := storeLocal x v s.frames },
          r1.trans (Reach.one' (i := .storeLocal x) _ hAt.right.head rfl (by simp [MJ.Vm.step])),
          by simp [Nat.add_assoc], rfl, ?_, rfl⟩
        refine ⟨?_, hrel.out, ⟨cell, rs, rfl, by simpa [heapSet_length] using hcell⟩, by simp [hfr, storeLocal]⟩
        intro y
        simp only
        rw [hfr, lookupFrames_storeLocal, lookup_heapSet ctx σ.heap cell rs x y v hcell, ← hfr, hrel.env y]
  | ifS c t f =>
    simp only [exec, bind, Except.bind] at hev
    split at hev
    · simp at hev
    · rename_i cv hcv
      cases f with
      | nil =>
        have hs' : simpleExpr c = true ∧ simpleBlock t = true := by simpa [simpleStmt, simpleBlock] using hs
        simp only [relStmt] at hAt hoof ⊢
        have ho1 := oof_false_of_relBlock hoof
        have r1 := relExpr_correct hcv hs'.1 hAt.left.left ho1 hpc hrel.env
        have hj := hAt.left.right.head
        by_cases ht : truthy cv = true
        · simp [ht] at hev
          obtain ⟨hfl, s2, r2, hpc2, hst2, hrel2, hout2⟩ :=
            ihB t ctx stack σ σ' fl hev hs'.2 C (base + (relExpr c base a).1.length + 1) (relExpr c base a).2
              { s with pc := base + (relExpr c base a).1.length + 1, stack := s.stack }
              (At.cast hAt.right (by simp [Nat.add_assoc])) hoof rfl
              ⟨hrel.env, hrel.out, hrel.cell, hrel.frames⟩
          refine ⟨hfl, s2, r1.trans (Reach.cons (i := .jumpIfFalse _) hj (by simp [MJ.Vm.step, ht] <;> rfl) r2), ?_, hst2, hrel2, hout2⟩
          simp [hpc2, Nat.add_assoc] <;> omega
        · simp [ht] at hev
          obtain ⟨rfl, rfl⟩ := execBlock_nil hev
          refine ⟨rfl, { s with pc := base + (relExpr c base a).1.length + 1 +
              (relBlock t (base + (relExpr c base a).1.length + 1) (relExpr c base a).2).1.length },
            r1.trans (Reach.one (i := .jumpIfFalse _) hj (by simp [MJ.Vm.step, ht])), ?_, rfl,
            ⟨hrel.env, hrel.out, hrel.cell, hrel.frames⟩, rfl⟩
          simp [Nat.add_assoc] <;> omega
      | cons f0 fs =>
        have hs' : (simpleExpr c = true ∧ simpleBlock t = true) ∧ simpleBlock (f0 :: fs) = true := by
          simpa [simpleStmt] using hs
        simp only [relStmt] at hAt hoof ⊢
        have ho2 := oof_false_of_relBlock hoof
        have ho1 := oof_false_of_relBlock ho2
        have r1 := relExpr_correct hcv hs'.1.1 hAt.left.left.left.left ho1 hpc hrel.env
        have hj := hAt.left.left.left.right.head
        by_cases ht : truthy cv = true
        · simp [ht] at hev
          obtain ⟨hfl, s2, r2, hpc2, hst2, hrel2, hout2⟩ :=
            ihB t ctx stack σ σ' fl hev hs'.1.2 C (base + (relExpr c base a).1.length + 1) (relExpr c base a).2
              { s with pc := base + (relExpr c base a).1.length + 1, stack := s.stack }
              (At.cast hAt.left.left.right (by simp [Nat.add_assoc])) ho2 rfl
              ⟨hrel.env, hrel.out, hrel.cell, hrel.frames⟩
          have hj2 := hAt.left.right.head
          refine ⟨hfl, { s2 with pc := base + (relExpr c base a).1.length + 1 +
                (relBlock t (base + (relExpr c base a).1.length + 1) (relExpr c base a).2).1.length + 1 +
                (relBlock (f0 :: fs) (base + (relExpr c base a).1.length + 1 +
                  (relBlock t (base + (relExpr c base a).1.length + 1) (relExpr c base a).2).1.length + 1)
                  (relBlock t (base + (relExpr c base a).1.length + 1) (relExpr c base a).2).2).1.length },
            r1.trans (Reach.cons (i := .jumpIfFalse _) hj (by simp [MJ.Vm.step, ht] <;> rfl)
              (r2.trans (Reach.one' (i := .jump _) _ hj2
                (by simp only [hpc2, List.length_append, List.length_cons, List.length_nil]; omega)
                (by simp [MJ.Vm.step])))),
            ?_, hst2, ⟨hrel2.env, hrel2.out, hrel2.cell, hrel2.frames⟩, hout2⟩
          simp only [List.length_append, List.length_cons, List.length_nil]; omega
        · simp [ht] at hev
          obtain ⟨hfl, s2, r2, hpc2, hst2, hrel2, hout2⟩ :=
            ihB (f0 :: fs) ctx stack σ σ' fl hev hs'.2 C
              (base + (relExpr c base a).1.length + 1 + (relBlock t (base + (relExpr c base a).1.length + 1) (relExpr c base a).2).1.length + 1)
              (relBlock t (base + (relExpr c base a).1.length + 1) (relExpr c base a).2).2
              { s with pc := base + (relExpr c base a).1.length + 1 + (relBlock t (base + (relExpr c base a).1.length + 1) (relExpr c base a).2).1.length + 1, stack := s.stack }
              (At.cast hAt.right (by simp [Nat.add_assoc]; try omega)) hoof rfl
              ⟨hrel.env, hrel.out, hrel.cell, hrel.frames⟩
          refine ⟨hfl, s2, r1.trans (Reach.cons (i := .jumpIfFalse _) hj (by simp [MJ.Vm.step, ht] <;> rfl) r2), ?_, hst2, hrel2, hout2⟩
          simp [hpc2, Nat.add_assoc] <;> omega
  | forS _ _ _ _ _ => simp [simpleStmt] at hs
  | setBlock _ _ _ => simp [simpleStmt] at hs
  | withS _ _ => simp [simpleStmt] at hs
  | filterBlock _ _ => simp [simpleStmt] at hs
  | macroS _ _ _ _ _ => simp [simpleStmt] at hs
  | callBlock _ _ _ _ _ _ => simp [simpleStmt] at hs
  | breakS => simp [simpleStmt] at hs
  | continueS => simp [simpleStmt] at hs


theorem sim_stmt_all : ∀ n, SimStmt n ∧ SimBlock n := by
  intro n
  induction n with
  | zero =>
    exact ⟨fun st ctx stack σ σ' fl h => by simp [exec] at h, fun ss ctx stack σ σ' fl h => by simp [execBlock] at h⟩
  | succ n ih => exact ⟨sim_stmt_step ih.2, sim_block_step ih.1 ih.2⟩

/-- the fragment of stage 3: text, `{{ e }}`, `set x = e`, `if`/`elif`/`else` over expressions
without chained comparisons, calls and keyword arguments -/
def Fragment (prog : List Stmt) : Prop := simpleBlock prog = true

/-- **`vm_refines_eval_partial`**: for every template of the fragment and every context, if the
reference semantics renders it to `out`, then the model VM, run on the code the model code
generator emits for it, renders `out` as well (for every sufficiently large step budget). -/
theorem vm_refines_eval_partial (prog : List Stmt) (hfrag : Fragment prog) (ctx : Scope) (code : List Instr)
    (hcode : compileTemplate prog = some code) (fuel : Nat) (out : String)
    (hev : renderTemplate fuel ctx prog = .ok out) :
    ∃ k, ∀ j, renderCode (k + j) ctx code = .ok out := by
  -- the generated code is the relative code of the block
  have heq := cBlock_eq_rel prog {} hfrag
  simp only [compileTemplate] at hcode
  split at hcode
  · simp at hcode
  · rename_i hcond
    simp at hcode
    have hoof : (relBlock prog 0 {}).2.oof = false := by
      have : (cBlock prog {}).oof = false := by
        simp only [Bool.or_eq_true, not_or] at hcond
        simpa using hcond.1
      rw [heq] at this
      simpa [CG.oof, CG.extend, CG.next] using this
    have hc : code = (relBlock prog 0 {}).1 := by
      rw [← hcode, heq]; simp [CG.extend, CG.next]
    -- run the reference semantics
    simp only [renderTemplate] at hev
    split at hev
    · rename_i σ fl hexec
      simp at hev; subst hev
      have hAt : At code 0 (relBlock prog 0 {}).1 := by
        rw [hc]; intro k _; simp
      have hrel0 : Rel ctx { heap := [[]], out := "" } [0] ({} : VmState) := by
        refine ⟨?_, ⟨[], rfl⟩, ⟨0, [], rfl, by simp⟩, by simp⟩
        intro x
        simp [lookupFrames, lookup, lookupIn, assocGet]
      obtain ⟨_, s', hreach, hpc, _, hrel', hout⟩ :=
        (sim_stmt_all fuel).2 prog ctx [0] _ σ fl hexec hfrag code 0 {} {} hAt hoof rfl hrel0
      have hend : code[s'.pc]? = none := by
        rw [hpc, hc]; simp
      obtain ⟨k, hk⟩ := hreach.toRun hend
      refine ⟨k, fun j => ?_⟩
      obtain ⟨rest, hr⟩ := hrel'.out
      have : rest = [] := by
        have := hout; rw [hr] at this; simpa using this
      subst this
      simp [renderCode, hk j, hr]
    · simp at hev

end MJ.Vm
