import MJ.Proofs.StmtRel
/-!
# Statements compile correctly (C03 stage 3)

Simulation between the reference semantics (`exec`, scopes as heap cells) and the model VM (frames)
for the statements of `simpleStmt`: text, emit, `set`, `if`, `with`, `for`.  The relation `Rel`
pairs the visible cells with the frames (`FramesRel`: same answer for every variable, including
`loop`), the output with the innermost capture buffer.  By induction on the fuel of the reference
execution, for statements, blocks, `with` bindings and loop iterations together (`sim_stmt_all`);
`vm_refines_eval_partial` is the resulting theorem about whole templates.
-/
namespace MJ.Vm
open MJ.Eval MJ.Compile MJ.C03

/-- what one frame answers for a variable -/
def frameLookup (f : Frame) (x : String) : Option Val :=
  match assocGet x f.locals with
  | some v => some v
  | none =>
    match f.loop with
    | some l => if l.withLoopVar && x == "loop" then some (loopVal l.info) else none
    | none => none

theorem lookupFrames_cons (ctx : Scope) (x : String) (f : Frame) (rest : List Frame) :
    lookupFrames ctx x (f :: rest) = match frameLookup f x with
      | some v => v
      | none => lookupFrames ctx x rest := by
  simp only [lookupFrames, frameLookup]
  cases assocGet x f.locals with
  | some v => rfl
  | none =>
    cases f.loop with
    | none => rfl
    | some l => by_cases h : (l.withLoopVar && x == "loop") = true <;> simp [h]

/-- frame `i` of the VM and scope cell `stack[i]` of the reference semantics answer alike -/
def FramesRel (heap : Heap) : List Nat → List Frame → Prop
  | [], [] => True
  | id :: ids, f :: fs => (∃ cell, heap[id]? = some cell ∧ ∀ x, assocGet x cell = frameLookup f x) ∧ FramesRel heap ids fs
  | _, _ => False

theorem FramesRel.envRel {ctx heap} : ∀ {stack frames}, FramesRel heap stack frames → EnvRel ctx heap stack frames := by
  intro stack
  induction stack with
  | nil =>
    intro frames h x
    cases frames with
    | nil => simp [lookupFrames, lookup, lookupIn]
    | cons f fs => simp [FramesRel] at h
  | cons id ids ih =>
    intro frames h x
    cases frames with
    | nil => simp [FramesRel] at h
    | cons f fs =>
      obtain ⟨⟨cell, hc, hag⟩, hrest⟩ := h
      have := ih hrest x
      rw [lookupFrames_cons]
      simp only [lookup, lookupIn, hc, Option.bind_some, hag x] at this ⊢
      cases frameLookup f x with
      | some v => rfl
      | none => simpa [lookup] using this

theorem FramesRel.congr {heap heap' : Heap} : ∀ {ids fs}, (∀ id ∈ ids, heap'[id]? = heap[id]?) →
    FramesRel heap ids fs → FramesRel heap' ids fs := by
  intro ids
  induction ids with
  | nil => intro fs _ h; cases fs <;> simpa [FramesRel] using h
  | cons id rest ih =>
    intro fs hh h
    cases fs with
    | nil => simp [FramesRel] at h
    | cons f fs' =>
      obtain ⟨⟨cell, hc, hag⟩, hrest⟩ := h
      exact ⟨⟨cell, by rw [hh id (by simp)]; exact hc, hag⟩, ih (fun i hi => hh i (by simp [hi])) hrest⟩

/-- the relation between a state of the reference semantics (in scope `stack`) and a VM state -/
structure Rel (σ : State) (stack : List Nat) (s : VmState) : Prop where
  frames : FramesRel σ.heap stack s.frames
  out : ∃ rest, s.outs = σ.out :: rest
  bound : ∀ id ∈ stack, id < σ.heap.length
  nodup : stack.Nodup
  nonempty : ∃ cell rs, stack = cell :: rs

theorem Rel.env {ctx σ stack s} (h : Rel σ stack s) : EnvRel ctx σ.heap stack s.frames := h.frames.envRel


theorem relBinds_oof_mono : ∀ (binds : List (Target × Expr)) (b : Nat) (a : Aux), a.oof = true →
    (relBinds binds b a).2.oof = true
  | [], b, a, h => by simp [relBinds, h]
  | (.var x, e) :: rest, b, a, h => by
    simp only [relBinds]; exact relBinds_oof_mono rest _ _ (relExpr_oof_mono e b a h)
  | (.tuple _, _) :: _, b, a, h => by simp [relBinds]

mutual
theorem relStmt_oof_mono : ∀ (st : Stmt) (b : Nat) (a : Aux), a.oof = true → (relStmt st b a).2.oof = true
  | .text t, b, a, h => by simp [relStmt, h]
  | .emit e, b, a, h => by simp [relStmt, relExpr_oof_mono e b a h]
  | .set (.var x) e, b, a, h => by simp [relStmt, relExpr_oof_mono e b a h]
  | .set (.tuple _) _, b, a, h => by simp [relStmt]
  | .ifS c t [], b, a, h => by
    simp only [relStmt]; exact relBlock_oof_mono t _ _ (relExpr_oof_mono c b a h)
  | .ifS c t (f :: fs), b, a, h => by
    simp only [relStmt]
    exact relBlock_oof_mono (f :: fs) _ _ (relBlock_oof_mono t _ _ (relExpr_oof_mono c b a h))
  | .withS binds body, b, a, h => by
    simp only [relStmt]; exact relBlock_oof_mono body _ _ (relBinds_oof_mono binds _ a h)
  | .forS (.var x) iter none body [], b, a, h => by
    simp only [relStmt]; exact relBlock_oof_mono body _ _ (relExpr_oof_mono iter b a h)
  | .forS (.tuple _) _ _ _ _, b, a, h => by simp [relStmt]
  | .forS (.var _) _ (some _) _ _, b, a, h => by simp [relStmt]
  | .forS (.var _) _ none _ (_ :: _), b, a, h => by simp [relStmt]
  | .setBlock .., b, a, h => by simp [relStmt]
  | .filterBlock .., b, a, h => by simp [relStmt]
  | .macroS .., b, a, h => by simp [relStmt]
  | .callBlock .., b, a, h => by simp [relStmt]
  | .breakS, b, a, h => by simp [relStmt]
  | .continueS, b, a, h => by simp [relStmt]
theorem relBlock_oof_mono : ∀ (ss : List Stmt) (b : Nat) (a : Aux), a.oof = true → (relBlock ss b a).2.oof = true
  | [], b, a, h => by simp [relBlock, h]
  | s :: rest, b, a, h => by
    simp only [relBlock]; exact relBlock_oof_mono rest _ _ (relStmt_oof_mono s b a h)
end

theorem oof_false_of_relBlock {ss b a} (h : (relBlock ss b a).2.oof = false) : a.oof = false := by
  cases ha : a.oof with
  | false => rfl
  | true => rw [relBlock_oof_mono ss b a ha] at h; cases h

theorem oof_false_of_relBinds {bs b a} (h : (relBinds bs b a).2.oof = false) : a.oof = false := by
  cases ha : a.oof with
  | false => rfl
  | true => rw [relBinds_oof_mono bs b a ha] at h; cases h

/-- the VM's `StoreLocal x` against `set x` into the innermost cell -/
theorem Rel.store {σ : State} {cell : Nat} {rs : List Nat} {s : VmState} (h : Rel σ (cell :: rs) s)
    (x : String) (v : Val) (s' : VmState) (hf : s'.frames = storeLocal x v s.frames) (ho : s'.outs = s.outs) :
    Rel { σ with heap := heapSet σ.heap cell x v } (cell :: rs) s' := by
  have hcell : cell < σ.heap.length := h.bound cell (by simp)
  cases hfr : s.frames with
  | nil => have := h.frames; rw [hfr] at this; simp [FramesRel] at this
  | cons f fs =>
    have hF := h.frames
    rw [hfr] at hF
    obtain ⟨⟨c, hc, hag⟩, hrest⟩ := hF
    refine ⟨?_, by rw [ho]; exact h.out, ?_, h.nodup, h.nonempty⟩
    · rw [hf, hfr]
      simp only [storeLocal]
      refine ⟨⟨assocSet x v c, ?_, ?_⟩, ?_⟩
      · have := heapSet_getElem?_same σ.heap cell x v hcell
        rw [List.getElem?_eq_getElem hcell] at hc
        simp at hc; subst hc; exact this
      · intro y
        by_cases hy : y = x
        · subst hy; simp [frameLookup, assocGet_assocSet_same]
        · have := hag y
          simp only [frameLookup, assocGet_assocSet_other x y v _ hy] at this ⊢
          exact this
      · refine FramesRel.congr (fun id hid => heapSet_getElem?_ne _ _ _ _ _ ?_) hrest
        intro e; subst e
        have := h.nodup; simp at this; exact this.1 hid
    · intro id hid; simpa [heapSet_length] using h.bound id hid

/-- pushing a fresh cell / frame -/
theorem Rel.push {σ : State} {stack : List Nat} {s : VmState} (h : Rel σ stack s) (cellv : Scope) (f : Frame)
    (hag : ∀ x, assocGet x cellv = frameLookup f x) (s' : VmState) (hf : s'.frames = f :: s.frames)
    (ho : s'.outs = s.outs) :
    Rel { σ with heap := σ.heap ++ [cellv] } (σ.heap.length :: stack) s' := by
  refine ⟨?_, by rw [ho]; exact h.out, ?_, ?_, ⟨_, _, rfl⟩⟩
  · rw [hf]
    refine ⟨⟨cellv, by simp, hag⟩, FramesRel.congr (fun id hid => ?_) h.frames⟩
    simp [List.getElem?_append_left (h.bound id hid)]
  · intro id hid
    simp at hid ⊢
    rcases hid with rfl | hid
    · omega
    · have := h.bound id hid; omega
  · simp only [List.nodup_cons]
    refine ⟨fun hmem => ?_, h.nodup⟩
    have := h.bound _ hmem; omega


/-- what executing the code of a statement (block) achieves: the VM arrives behind the code, the
operand stack is as before, the relation holds for the new state of the reference semantics, and
the frame stack has the same shape (only the locals of the innermost frame may differ) -/
def Done (ctx : Scope) (C : List Instr) (stack : List Nat) (σ' : State) (s : VmState) (endPc : Nat) : Prop :=
  ∃ s', Reach ctx C s s' ∧ s'.pc = endPc ∧ s'.stack = s.stack ∧ Rel σ' stack s' ∧
    s'.outs.tail = s.outs.tail ∧ s'.frames.tail = s.frames.tail ∧
    s'.frames.head?.map (·.loop) = s.frames.head?.map (·.loop)

def SimStmt (n : Nat) : Prop :=
  ∀ st ctx stack σ σ' fl, exec n ctx stack σ st = .ok (σ', fl) → simpleStmt st = true →
    ∀ C base a s, At C base (relStmt st base a).1 → (relStmt st base a).2.oof = false → s.pc = base →
      Rel σ stack s → fl = .normal ∧ Done ctx C stack σ' s (base + (relStmt st base a).1.length)

def SimBlock (n : Nat) : Prop :=
  ∀ ss ctx stack σ σ' fl, execBlock n ctx stack σ ss = .ok (σ', fl) → simpleBlock ss = true →
    ∀ C base a s, At C base (relBlock ss base a).1 → (relBlock ss base a).2.oof = false → s.pc = base →
      Rel σ stack s → fl = .normal ∧ Done ctx C stack σ' s (base + (relBlock ss base a).1.length)

def SimBinds (n : Nat) : Prop :=
  ∀ binds ctx stack heap heap' out, bindWith n ctx heap stack binds = .ok heap' → simpleBinds binds = true →
    ∀ C base a s, At C base (relBinds binds base a).1 → (relBinds binds base a).2.oof = false → s.pc = base →
      Rel { heap := heap, out := out } stack s →
      Done ctx C stack { heap := heap', out := out } s (base + (relBinds binds base a).1.length)

theorem storeLocal_tail (x : String) (v : Val) (fs : List Frame) : (storeLocal x v fs).tail = fs.tail := by
  cases fs <;> rfl

theorem storeLocal_headLoop (x : String) (v : Val) (fs : List Frame) :
    (storeLocal x v fs).head?.map (·.loop) = fs.head?.map (·.loop) := by
  cases fs <;> rfl

theorem Done.refl {ctx C stack σ s} (h : Rel σ stack s) : Done ctx C stack σ s s.pc :=
  ⟨s, Reach.refl _, rfl, rfl, h, rfl, rfl, rfl⟩

/-- evaluate `e`, then `StoreLocal x`: the code of `set x = e` and of one `with` binding -/
theorem sim_assign {n ctx cell rs σ e v x} (hv : evalExpr n ctx σ.heap (cell :: rs) e = .ok v)
    (hse : simpleExpr e = true) {C base a s}
    (hAt : At C base ((relExpr e base a).1 ++ [.storeLocal x])) (hoof : (relExpr e base a).2.oof = false)
    (hpc : s.pc = base) (hrel : Rel σ (cell :: rs) s) :
    Done ctx C (cell :: rs) { σ with heap := heapSet σ.heap cell x v } s (base + (relExpr e base a).1.length + 1) := by
  have r1 := relExpr_correct hv hse hAt.left hoof hpc hrel.env
  refine ⟨{ s with pc := base + (relExpr e base a).1.length + 1, frames := storeLocal x v s.frames },
    r1.trans (Reach.one' (i := .storeLocal x) _ hAt.right.head rfl (by simp [MJ.Vm.step])),
    rfl, rfl, hrel.store x v _ rfl rfl, rfl, storeLocal_tail _ _ _, storeLocal_headLoop _ _ _⟩

theorem sim_binds_step {n} (ihW : SimBinds n) : SimBinds (n + 1) := by
  intro binds ctx stack heap heap' out hev hs C base a s hAt hoof hpc hrel
  cases binds with
  | nil =>
    simp [bindWith] at hev; subst hev
    simp only [relBinds, List.length_nil, Nat.add_zero]
    rw [← hpc]; exact Done.refl hrel
  | cons b rest =>
    obtain ⟨t, e⟩ := b
    cases t with
    | tuple ts => simp [simpleBinds] at hs
    | var x =>
      have hs' : simpleExpr e = true ∧ simpleBinds rest = true := by simpa [simpleBinds] using hs
      obtain ⟨cell, rs, hstack⟩ := hrel.nonempty
      subst hstack
      simp only [bindWith, topCell] at hev
      split at hev
      · simp at hev
      · rename_i v hv
        simp only [bindTarget, heapSetAll] at hev
        simp only [relBinds] at hAt hoof ⊢
        have ho1 := oof_false_of_relBinds hoof
        obtain ⟨s1, r1, hpc1, hst1, hrel1, hout1, htl1, hhd1⟩ :=
          sim_assign (σ := { heap := heap, out := out }) hv hs'.1 hAt.left ho1 hpc hrel
        obtain ⟨s2, r2, hpc2, hst2, hrel2, hout2, htl2, hhd2⟩ :=
          ihW rest ctx (cell :: rs) _ heap' out hev hs'.2 C (base + (relExpr e base a).1.length + 1) (relExpr e base a).2 s1
            (At.cast hAt.right (by simp [Nat.add_assoc])) hoof hpc1 hrel1
        exact ⟨s2, r1.trans r2, by rw [hpc2]; simp only [List.length_append, List.length_cons, List.length_nil]; omega, hst2.trans hst1, hrel2,
          hout2.trans hout1, htl2.trans htl1, hhd2.trans hhd1⟩

theorem sim_block_step {n} (ihS : SimStmt n) (ihB : SimBlock n) : SimBlock (n + 1) := by
  intro ss ctx stack σ σ' fl hev hs C base a s hAt hoof hpc hrel
  cases ss with
  | nil =>
    simp [execBlock] at hev
    obtain ⟨rfl, rfl⟩ := hev
    refine ⟨rfl, ?_⟩
    simp only [relBlock, List.length_nil, Nat.add_zero]
    rw [← hpc]; exact Done.refl hrel
  | cons st rest =>
    have hs' : simpleStmt st = true ∧ simpleBlock rest = true := by simpa [simpleBlock] using hs
    simp only [relBlock] at hAt hoof ⊢
    have ho1 := oof_false_of_relBlock hoof
    simp only [execBlock] at hev
    split at hev
    · simp at hev
    · rename_i σ1 h1
      obtain ⟨_, s1, r1, hpc1, hst1, hrel1, hout1, htl1, hhd1⟩ := ihS st ctx stack σ σ1 .normal h1 hs'.1 C base a s hAt.left ho1 hpc hrel
      obtain ⟨hfl, s2, r2, hpc2, hst2, hrel2, hout2, htl2, hhd2⟩ :=
        ihB rest ctx stack σ1 σ' fl hev hs'.2 C (base + (relStmt st base a).1.length) (relStmt st base a).2 s1
          hAt.right hoof hpc1 hrel1
      exact ⟨hfl, s2, r1.trans r2, by rw [hpc2]; simp [Nat.add_assoc], hst2.trans hst1, hrel2,
        hout2.trans hout1, htl2.trans htl1, hhd2.trans hhd1⟩
    · rename_i σ1 fl1 hne h1
      have := (ihS st ctx stack σ σ1 fl1 h1 hs'.1 C base a s hAt.left ho1 hpc hrel).1
      exact absurd this (by intro h; exact hne h)


theorem Rel.appendOut {σ stack s} (h : Rel σ stack s) (t : String) (s' : VmState)
    (hf : s'.frames = s.frames) (ho : s'.outs = MJ.Vm.appendOut t s.outs) :
    Rel { σ with out := σ.out ++ t } stack s' ∧ s'.outs.tail = s.outs.tail := by
  obtain ⟨rest, hr⟩ := h.out
  refine ⟨⟨by rw [hf]; exact h.frames, ⟨rest, by rw [ho, hr]; rfl⟩, h.bound, h.nodup, h.nonempty⟩, ?_⟩
  rw [ho, hr]; rfl

/-- change only pc / operand stack of the VM state -/
theorem Rel.same {σ stack s} (h : Rel σ stack s) (s' : VmState) (hf : s'.frames = s.frames) (ho : s'.outs = s.outs) :
    Rel σ stack s' :=
  ⟨by rw [hf]; exact h.frames, by rw [ho]; exact h.out, h.bound, h.nodup, h.nonempty⟩

/-- the iterations of a `for x in …` loop: the VM is at the `Iterate` instruction -/
def SimIters (n : Nat) : Prop :=
  ∀ ctx stack σ σ' x body xs len idx prev,
    execIters n ctx stack σ (.var x) body (xs.zip (loopInfosFrom len idx prev xs)) = .ok σ' →
    x ≠ "loop" → simpleBlock body = true →
    ∀ C iterPc endPc a (s : VmState) (l : LoopSt) (loc : Scope) (fs : List Frame),
      C[iterPc]? = some (.iterate endPc) → C[iterPc + 1]? = some (.storeLocal x) →
      At C (iterPc + 2) (relBlock body (iterPc + 2) a).1 → (relBlock body (iterPc + 2) a).2.oof = false →
      C[iterPc + 2 + (relBlock body (iterPc + 2) a).1.length]? = some (.jump iterPc) →
      s.pc = iterPc → s.frames = { locals := loc, loop := some l } :: fs →
      l.withLoopVar = true → l.len = len → l.calls = idx → l.cur = prev → l.rest = xs →
      FramesRel σ.heap stack fs → (∃ rest, s.outs = σ.out :: rest) →
      (∀ id ∈ stack, id < σ.heap.length) → stack.Nodup → (∃ c rs, stack = c :: rs) →
      ∃ s', Reach ctx C s s' ∧ s'.pc = endPc ∧ s'.stack = s.stack ∧ s'.frames.tail = fs ∧
        (∃ rest, s'.outs = σ'.out :: rest) ∧ s'.outs.tail = s.outs.tail


theorem loop_cell_agrees (x : String) (y : Val) (l' : LoopSt) (info : LoopInfo) (hx : x ≠ "loop")
    (hw : l'.withLoopVar = true) (hi : l'.info = info) :
    ∀ z, assocGet z (("loop", loopVal info) :: [(x, y)]) =
      frameLookup { locals := [(x, y)], loop := some l' } z := by
  intro z
  by_cases hz : z = "loop"
  · subst hz
    have : ¬ (x = "loop") := hx
    simp [assocGet, frameLookup, this, hw, hi]
  · by_cases hzx : x = z
    · subst hzx; simp [assocGet, frameLookup, Ne.symm hz]
    · have h1 : ¬ ("loop" = z) := fun h => hz h.symm
      simp [assocGet, frameLookup, hzx, h1, hw, hz]

theorem sim_iters_step {n} (ihB : SimBlock n) (ihI : SimIters n) : SimIters (n + 1) := by
  intro ctx stack σ σ' x body xs len idx prev hev hx hsb C iterPc endPc a s l loc fs hIt hSt hAt hoof hJ
    hpc hfr hwl hlen hcalls hcur hrest hFR hout hbound hnodup hne
  cases xs with
  | nil =>
    simp [loopInfosFrom, execIters] at hev; subst hev
    refine ⟨{ s with pc := endPc }, Reach.one (i := .iterate endPc) (by rw [hpc]; exact hIt) ?_, rfl, rfl,
      by simp [hfr], hout, rfl⟩
    simp [MJ.Vm.step, hfr, nextLoopItem, hrest]
  | cons y ys =>
    simp only [loopInfosFrom, List.zip_cons_cons, execIters, bindTarget] at hev
    split at hev
    · simp at hev
    · rename_i σ2 fl hbody
      -- the two instructions before the body
      let l' : LoopSt := { l with calls := l.calls + 1, iterated := true, prev := l.cur, cur := some y, rest := ys }
      let s2 : VmState := { s with pc := iterPc + 2, frames := { locals := [(x, y)], loop := some l' } :: fs }
      have hreach2 : Reach ctx C s s2 := by
        refine Reach.cons (i := .iterate endPc) (by rw [hpc]; exact hIt)
          (s' := { s with pc := iterPc + 1, stack := y :: s.stack, frames := { locals := [], loop := some l' } :: fs }) ?_ ?_
        · simp [MJ.Vm.step, hfr, nextLoopItem, hrest, hpc, l']
        · refine Reach.one (i := .storeLocal x) hSt ?_
          simp [MJ.Vm.step, storeLocal, assocSet, s2]
      have hinfo : l'.info = { index0 := idx, length := len, prev := prev, next := ys.head? } := by
        simp [LoopSt.info, l', hcalls, hlen, hcur]
      obtain ⟨c0, rs0, hstack⟩ := hne
      have hrel0 : Rel σ stack { s with frames := fs } := ⟨hFR, hout, hbound, hnodup, ⟨c0, rs0, hstack⟩⟩
      have hrel2 : Rel { σ with heap := σ.heap ++ [("loop", loopVal { index0 := idx, length := len, prev := prev, next := ys.head? }) :: [(x, y)]] }
          (σ.heap.length :: stack) s2 :=
        hrel0.push _ { locals := [(x, y)], loop := some l' } (loop_cell_agrees x y l' _ hx hwl hinfo) s2 rfl rfl
      obtain ⟨hfl, s3, r3, hpc3, hst3, hrel3, hout3, htl3, hhd3⟩ :=
        ihB body ctx (σ.heap.length :: stack) _ σ2 fl hbody hsb C (iterPc + 2) a s2 hAt hoof rfl hrel2
      subst hfl
      simp only at hev
      -- the cell of the iteration is dropped: the heap is the one before the loop
      have htake : σ2.heap.take σ.heap.length = σ.heap := take_of_frame _ _ _ _ (execBlock_frame hbody)
      rw [htake] at hev
      -- back to the `Iterate`
      have hf3 : ∃ loc3, s3.frames = { locals := loc3, loop := some l' } :: fs := by
        cases hf : s3.frames with
        | nil => rw [hf] at hhd3; simp [s2] at hhd3
        | cons f3 fs3 =>
          rw [hf] at htl3 hhd3
          simp [s2] at htl3 hhd3
          exact ⟨f3.locals, by cases f3; simp_all⟩
      obtain ⟨loc3, hf3⟩ := hf3
      let s4 : VmState := { s3 with pc := iterPc }
      have hreach4 : Reach ctx C s3 s4 :=
        Reach.one' (i := .jump iterPc) _ hJ hpc3 (by simp [MJ.Vm.step, s4])
      obtain ⟨r3out, hr3⟩ := hrel3.out
      obtain ⟨s', r5, hpc5, hst5, htl5, hout5, houtt5⟩ :=
        ihI ctx stack { heap := σ.heap, out := σ2.out } σ' x body ys len (idx + 1) (some y) hev hx hsb
          C iterPc endPc a s4 l' loc3 fs hIt hSt hAt hoof hJ rfl hf3 hwl (by simp [l', hlen]) (by simp [l', hcalls])
          (by simp [l']) (by simp [l']) hFR ⟨r3out, hr3⟩ hbound hnodup ⟨c0, rs0, hstack⟩
      exact ⟨s', hreach2.trans (r3.trans (hreach4.trans r5)), hpc5, by rw [hst5]; exact hst3, htl5, hout5,
        by rw [houtt5]; exact hout3⟩


theorem sim_stmt_step {n} (ihB : SimBlock n) (ihW : SimBinds n) (ihI : SimIters n) : SimStmt (n + 1) := by
  intro st ctx stack σ σ' fl hev hs C base a s hAt hoof hpc hrel
  cases st with
  | text t =>
    simp [exec] at hev
    obtain ⟨rfl, rfl⟩ := hev
    simp only [relStmt] at hAt ⊢
    have hr := hrel.appendOut t { s with pc := s.pc + 1, outs := MJ.Vm.appendOut t s.outs } rfl rfl
    exact ⟨by simp, { s with pc := s.pc + 1, outs := MJ.Vm.appendOut t s.outs },
      Reach.one (i := .emitRaw t) (by rw [hpc]; exact hAt.head) (by simp [MJ.Vm.step]),
      by simp [hpc], rfl, hr.1, hr.2, rfl, rfl⟩
  | emit e =>
    have hse : simpleExpr e = true := by simpa [simpleStmt] using hs
    simp only [exec, bind, Except.bind] at hev
    split at hev
    · simp at hev
    · rename_i v hv
      simp at hev
      obtain ⟨rfl, rfl⟩ := hev
      simp only [relStmt] at hAt hoof ⊢
      have r1 := relExpr_correct hv hse hAt.left hoof hpc hrel.env
      have hr := hrel.appendOut (render v)
        { s with pc := base + (relExpr e base a).1.length + 1, outs := MJ.Vm.appendOut (render v) s.outs } rfl rfl
      exact ⟨by simp, { s with pc := base + (relExpr e base a).1.length + 1, outs := MJ.Vm.appendOut (render v) s.outs },
        r1.trans (Reach.one' (i := .emit) _ hAt.right.head rfl (by simp [MJ.Vm.step])),
        by simp [Nat.add_assoc], rfl, hr.1, hr.2, rfl, rfl⟩
  | set target e =>
    cases target with
    | tuple ts => simp [simpleStmt] at hs
    | var x =>
      have hse : simpleExpr e = true := by simpa [simpleStmt] using hs
      obtain ⟨cell, rs, hstack⟩ := hrel.nonempty
      subst hstack
      simp only [exec, bind, Except.bind] at hev
      split at hev
      · simp at hev
      · rename_i v hv
        simp [bindTarget, topCell, heapSetAll] at hev
        obtain ⟨rfl, rfl⟩ := hev
        simp only [relStmt] at hAt hoof ⊢
        refine ⟨by simp, ?_⟩
        have := sim_assign hv hse hAt hoof hpc hrel
        simpa [Nat.add_assoc] using this
  | ifS c t f =>
    simp only [exec, bind, Except.bind] at hev
    split at hev
    · simp at hev
    · rename_i cv hcv
      cases f with
      | nil =>
        have hs' : simpleExpr c = true ∧ simpleBlock t = true := by simpa [simpleStmt, simpleBlock] using hs
        simp only [relStmt] at hAt hoof ⊢
        have ho1 := oof_false_of_relBlock hoof
        have r1 := relExpr_correct hcv hs'.1 hAt.left.left ho1 hpc hrel.env
        have hj := hAt.left.right.head
        by_cases ht : truthy cv = true
        · simp [ht] at hev
          obtain ⟨hfl, s2, r2, hpc2, hst2, hrel2, hout2, htl2, hhd2⟩ :=
            ihB t ctx stack σ σ' fl hev hs'.2 C (base + (relExpr c base a).1.length + 1) (relExpr c base a).2
              { s with pc := base + (relExpr c base a).1.length + 1, stack := s.stack }
              (At.cast hAt.right (by simp [Nat.add_assoc])) hoof rfl (hrel.same _ rfl rfl)
          refine ⟨hfl, s2, r1.trans (Reach.cons (i := .jumpIfFalse _) hj (by simp [MJ.Vm.step, ht] <;> rfl) r2), ?_,
            hst2, hrel2, hout2, htl2, hhd2⟩
          simp only [hpc2, List.length_append, List.length_cons, List.length_nil]; omega
        · simp [ht] at hev
          obtain ⟨rfl, rfl⟩ := execBlock_nil hev
          refine ⟨rfl, { s with pc := base + (relExpr c base a).1.length + 1 +
              (relBlock t (base + (relExpr c base a).1.length + 1) (relExpr c base a).2).1.length },
            r1.trans (Reach.one (i := .jumpIfFalse _) hj (by simp [MJ.Vm.step, ht])), ?_, rfl,
            hrel.same _ rfl rfl, rfl, rfl, rfl⟩
          simp only [List.length_append, List.length_cons, List.length_nil]; omega
      | cons f0 fs =>
        have hs' : (simpleExpr c = true ∧ simpleBlock t = true) ∧ simpleBlock (f0 :: fs) = true := by
          simpa [simpleStmt] using hs
        simp only [relStmt] at hAt hoof ⊢
        have ho2 := oof_false_of_relBlock hoof
        have ho1 := oof_false_of_relBlock ho2
        have r1 := relExpr_correct hcv hs'.1.1 hAt.left.left.left.left ho1 hpc hrel.env
        have hj := hAt.left.left.left.right.head
        by_cases ht : truthy cv = true
        · simp [ht] at hev
          obtain ⟨hfl, s2, r2, hpc2, hst2, hrel2, hout2, htl2, hhd2⟩ :=
            ihB t ctx stack σ σ' fl hev hs'.1.2 C (base + (relExpr c base a).1.length + 1) (relExpr c base a).2
              { s with pc := base + (relExpr c base a).1.length + 1, stack := s.stack }
              (At.cast hAt.left.left.right (by simp [Nat.add_assoc])) ho2 rfl (hrel.same _ rfl rfl)
          have hj2 := hAt.left.right.head
          refine ⟨hfl, { s2 with pc := base + (relExpr c base a).1.length + 1 +
                (relBlock t (base + (relExpr c base a).1.length + 1) (relExpr c base a).2).1.length + 1 +
                (relBlock (f0 :: fs) (base + (relExpr c base a).1.length + 1 +
                  (relBlock t (base + (relExpr c base a).1.length + 1) (relExpr c base a).2).1.length + 1)
                  (relBlock t (base + (relExpr c base a).1.length + 1) (relExpr c base a).2).2).1.length },
            r1.trans (Reach.cons (i := .jumpIfFalse _) hj (by simp [MJ.Vm.step, ht] <;> rfl)
              (r2.trans (Reach.one' (i := .jump _) _ hj2
                (by simp only [hpc2, List.length_append, List.length_cons, List.length_nil]; omega)
                (by simp [MJ.Vm.step])))),
            ?_, hst2, hrel2.same _ rfl rfl, hout2, htl2, hhd2⟩
          simp only [List.length_append, List.length_cons, List.length_nil]; omega
        · simp [ht] at hev
          obtain ⟨hfl, s2, r2, hpc2, hst2, hrel2, hout2, htl2, hhd2⟩ :=
            ihB (f0 :: fs) ctx stack σ σ' fl hev hs'.2 C
              (base + (relExpr c base a).1.length + 1 + (relBlock t (base + (relExpr c base a).1.length + 1) (relExpr c base a).2).1.length + 1)
              (relBlock t (base + (relExpr c base a).1.length + 1) (relExpr c base a).2).2
              { s with pc := base + (relExpr c base a).1.length + 1 + (relBlock t (base + (relExpr c base a).1.length + 1) (relExpr c base a).2).1.length + 1, stack := s.stack }
              (At.cast hAt.right (by simp [Nat.add_assoc]; try omega)) hoof rfl (hrel.same _ rfl rfl)
          refine ⟨hfl, s2, r1.trans (Reach.cons (i := .jumpIfFalse _) hj (by simp [MJ.Vm.step, ht] <;> rfl) r2), ?_,
            hst2, hrel2, hout2, htl2, hhd2⟩
          simp only [hpc2, List.length_append, List.length_cons, List.length_nil]; omega
  | withS binds body =>
    have hs' : simpleBinds binds = true ∧ simpleBlock body = true := by simpa [simpleStmt] using hs
    simp only [exec, bind, Except.bind] at hev
    split at hev
    · simp at hev
    · rename_i heap1 hw
      split at hev
      · simp at hev
      · rename_i r hr
        obtain ⟨σ2, fl2⟩ := r
        simp at hev
        obtain ⟨rfl, rfl⟩ := hev
        simp only [relStmt] at hAt hoof ⊢
        have ho1 := oof_false_of_relBlock hoof
        -- PushWith
        let s1 : VmState := { s with pc := base + 1, frames := {} :: s.frames }
        have hreach1 : Reach ctx C s s1 :=
          Reach.one (i := .pushWith) (by rw [hpc]; exact hAt.left.left.head) (by simp [MJ.Vm.step, s1, hpc])
        have hrel1 : Rel { heap := σ.heap ++ [[]], out := σ.out } (σ.heap.length :: stack) s1 :=
          hrel.push [] {} (by intro x; simp [assocGet, frameLookup]) s1 rfl rfl
        -- the bindings
        obtain ⟨s2, r2, hpc2, hst2, hrel2, hout2, htl2, hhd2⟩ :=
          ihW binds ctx (σ.heap.length :: stack) _ heap1 σ.out hw hs'.1 C (base + 1) a s1
            (At.cast hAt.left.left.right (by simp only [List.length_cons, List.length_nil])) ho1 rfl hrel1
        -- the body
        obtain ⟨hfl, s3, r3, hpc3, hst3, hrel3, hout3, htl3, hhd3⟩ :=
          ihB body ctx (σ.heap.length :: stack) _ σ2 fl2 hr hs'.2 C (base + 1 + (relBinds binds (base + 1) a).1.length)
            (relBinds binds (base + 1) a).2 s2
            (At.cast hAt.left.right (by simp only [List.length_append, List.length_cons, List.length_nil]; omega)) hoof hpc2 hrel2
        -- PopFrame: the scope is dropped on both sides
        have htake : σ2.heap.take σ.heap.length = σ.heap :=
          take_of_frame σ.heap [] stack σ2.heap ((bindWith_frame _ _ _ _ _ _ hw).trans (execBlock_frame hr))
        have hfr3 : s3.frames.tail = s.frames := by rw [htl3, htl2]; rfl
        obtain ⟨r3out, hr3⟩ := hrel3.out
        let s4 : VmState := { s3 with pc := s3.pc + 1, frames := s3.frames.tail }
        have hreach4 : Reach ctx C s3 s4 :=
          Reach.one' (i := .popFrame) _ hAt.right.head
            (by simp only [hpc3, List.length_append, List.length_cons, List.length_nil]; omega)
            (by simp [MJ.Vm.step, s4])
        refine ⟨hfl, s4, hreach1.trans (r2.trans (r3.trans hreach4)), ?_, ?_, ?_, ?_, ?_, ?_⟩
        · simp only [s4, hpc3, List.length_append, List.length_cons, List.length_nil]; omega
        · simp [s4, hst3, hst2, s1]
        · refine ⟨?_, ⟨r3out, by simp [s4, hr3]⟩, ?_, hrel.nodup, hrel.nonempty⟩
          · simp only [s4, hfr3, htake]; exact hrel.frames
          · simp only [htake]; exact hrel.bound
        · simp [s4, hout3, hout2, s1]
        · simp [s4, hfr3]
        · simp [s4, hfr3]
  | forS target iter flt body els =>
    cases target with
    | tuple ts => simp [simpleStmt] at hs
    | var x =>
      cases flt with
      | some c => simp [simpleStmt] at hs
      | none =>
        cases els with
        | cons e0 es => simp [simpleStmt] at hs
        | nil =>
          have hs' : (¬ x = "loop" ∧ simpleExpr iter = true) ∧ simpleBlock body = true := by
            simpa [simpleStmt] using hs
          simp only [exec, bind, Except.bind] at hev
          split at hev
          · simp at hev
          · rename_i v hv
            split at hev
            · simp at hev
            · rename_i xs hxs
              -- the reference semantics in terms of `execIters`
              have hiters : ∃ σi, execIters n ctx stack σ (.var x) body (xs.zip (loopInfos (isSized v) xs)) = .ok σi ∧
                  σ' = σi ∧ fl = .normal := by
                cases xs with
                | nil =>
                  obtain ⟨rfl, rfl⟩ := execBlock_nil hev
                  cases n with
                  | zero => simp [execBlock] at hev
                  | succ m => exact ⟨σ', by simp [execIters, loopInfos, loopInfosFrom], rfl, rfl⟩
                | cons y ys =>
                  simp only at hev
                  split at hev
                  · simp at hev
                  · rename_i σi hi
                    simp at hev
                    exact ⟨σi, hi, hev.1.symm, hev.2.symm⟩
              obtain ⟨σi, hit, rfl, rfl⟩ := hiters
              simp only [relStmt] at hAt hoof ⊢
              have ho1 := oof_false_of_relBlock hoof
              have r1 := relExpr_correct hv hs'.1.2 hAt.left.left.left ho1 hpc hrel.env
              -- PushLoop
              let l0 : LoopSt := { withLoopVar := true, len := if isSized v then some xs.length else none,
                                   calls := 0, iterated := false, prev := none, cur := none, rest := xs }
              let s2 : VmState := { s with pc := base + (relExpr iter base a).1.length + 1,
                                           frames := { locals := [], loop := some l0 } :: s.frames }
              have hreach2 : Reach ctx C { s with pc := base + (relExpr iter base a).1.length, stack := v :: s.stack } s2 :=
                Reach.one' (i := .pushLoop 1) _ (hAt.left.left.right.head) rfl
                  (by simp [MJ.Vm.step, hxs, Except.map, s2, l0])
              have e3 : base + (relExpr iter base a).1.length + 1 + 2 = base + (relExpr iter base a).1.length + 3 := by omega
              obtain ⟨c0, rs0, hstack⟩ := hrel.nonempty
              obtain ⟨s5, r5, hpc5, hst5, htl5, hout5, houtt5⟩ :=
                ihI ctx stack σ σ' x body xs (if isSized v then some xs.length else none) 0 none
                  (by simpa [loopInfos] using hit) hs'.1.1 hs'.2 C
                  (base + (relExpr iter base a).1.length + 1)
                  (base + (relExpr iter base a).1.length + 3 +
                    (relBlock body (base + (relExpr iter base a).1.length + 3) (relExpr iter base a).2).1.length + 1)
                  (relExpr iter base a).2 s2 l0 [] s.frames
                  (by have := hAt.left.left.right.tail.head; simpa [Nat.add_assoc] using this)
                  (by have := hAt.left.left.right.tail.tail.head; simpa [Nat.add_assoc] using this)
                  (by rw [e3]; exact At.cast hAt.left.right (by simp [Nat.add_assoc]))
                  (by rw [e3]; exact hoof)
                  (by rw [e3]; have := hAt.right.head
                      refine Eq.trans (congrArg (fun k => C[k]?) ?_) this
                      simp only [List.length_append, List.length_cons, List.length_nil]; omega)
                  rfl rfl rfl rfl rfl rfl rfl hrel.frames hrel.out hrel.bound hrel.nodup ⟨c0, rs0, hstack⟩
              -- PopLoopFrame
              have hheap : σ'.heap = σ.heap := execIters_heap hit
              let s6 : VmState := { s5 with pc := s5.pc + 1, frames := s5.frames.tail }
              have hreach6 : Reach ctx C s5 s6 :=
                Reach.one' (i := .popLoopFrame) _ hAt.right.tail.head
                  (by simp only [hpc5, List.length_append, List.length_cons, List.length_nil]; omega)
                  (by simp [MJ.Vm.step, s6])
              refine ⟨by simp, s6, r1.trans (hreach2.trans (r5.trans hreach6)), ?_, ?_, ?_, ?_, ?_, ?_⟩
              · simp only [s6, hpc5, List.length_append, List.length_cons, List.length_nil]; omega
              · simp [s6, hst5, s2]
              · refine ⟨?_, by simpa [s6] using hout5, ?_, hrel.nodup, hrel.nonempty⟩
                · simp only [s6, htl5, hheap]; exact hrel.frames
                · simp only [hheap]; exact hrel.bound
              · simp [s6, houtt5, s2]
              · simp [s6, htl5]
              · simp [s6, htl5]
  | setBlock _ _ _ => simp [simpleStmt] at hs
  | filterBlock _ _ => simp [simpleStmt] at hs
  | macroS _ _ _ _ _ => simp [simpleStmt] at hs
  | callBlock _ _ _ _ _ _ => simp [simpleStmt] at hs
  | breakS => simp [simpleStmt] at hs
  | continueS => simp [simpleStmt] at hs


theorem sim_stmt_all : ∀ n, SimStmt n ∧ SimBlock n ∧ SimBinds n ∧ SimIters n := by
  intro n
  induction n with
  | zero =>
    refine ⟨fun st ctx stack σ σ' fl h => by simp [exec] at h,
      fun ss ctx stack σ σ' fl h => by simp [execBlock] at h,
      fun binds ctx stack heap heap' out h => by simp [bindWith] at h,
      fun ctx stack σ σ' x body xs len idx prev h => by simp [execIters] at h⟩
  | succ n ih =>
    obtain ⟨hS, hB, hW, hI⟩ := ih
    exact ⟨sim_stmt_step hB hW hI, sim_block_step hS hB, sim_binds_step hW, sim_iters_step hB hI⟩

/-- the fragment of stage 3: text, `{{ e }}`, `set x = e`, `if`/`elif`/`else`, `with x = e, …`,
`for x in e` (no filter / else / loop controls) over expressions without chained comparisons,
calls and keyword arguments -/
def Fragment (prog : List Stmt) : Prop := simpleBlock prog = true

/-- **`vm_refines_eval_partial`**: for every template of the fragment and every context, if the
reference semantics renders it to `out`, then the model VM, run on the code the model code
generator emits for it, renders `out` as well (for every sufficiently large step budget). -/
theorem vm_refines_eval_partial (prog : List Stmt) (hfrag : Fragment prog) (ctx : Scope) (code : List Instr)
    (hcode : compileTemplate prog = some code) (fuel : Nat) (out : String)
    (hev : renderTemplate fuel ctx prog = .ok out) :
    ∃ k, ∀ j, renderCode (k + j) ctx code = .ok out := by
  have heq := cBlock_eq_rel prog {} hfrag
  simp only [compileTemplate] at hcode
  split at hcode
  · simp at hcode
  · rename_i hcond
    simp at hcode
    have hoof : (relBlock prog 0 {}).2.oof = false := by
      have : (cBlock prog {}).oof = false := by
        simp only [Bool.or_eq_true, not_or] at hcond
        simpa using hcond.1
      rw [heq] at this
      simpa [CG.oof, CG.extend, CG.next] using this
    have hc : code = (relBlock prog 0 {}).1 := by
      rw [← hcode, heq]; simp [CG.extend, CG.next]
    simp only [renderTemplate] at hev
    split at hev
    · rename_i σ fl hexec
      simp at hev; subst hev
      have hAt : At code 0 (relBlock prog 0 {}).1 := by
        rw [hc]; intro k _; simp
      have hrel0 : Rel { heap := [[]], out := "" } [0] ({} : VmState) := by
        refine ⟨?_, ⟨[], rfl⟩, by simp, by simp, ⟨0, [], rfl⟩⟩
        exact ⟨⟨[], by simp, by intro x; simp [assocGet, frameLookup]⟩, trivial⟩
      obtain ⟨_, s', hreach, hpc, _, hrel', hout, _, _⟩ :=
        (sim_stmt_all fuel).2.1 prog ctx [0] _ σ fl hexec hfrag code 0 {} {} hAt hoof rfl hrel0
      have hend : code[s'.pc]? = none := by
        rw [hpc, hc]; simp
      obtain ⟨k, hk⟩ := hreach.toRun hend
      refine ⟨k, fun j => ?_⟩
      obtain ⟨rest, hr⟩ := hrel'.out
      have : rest = [] := by
        have := hout; rw [hr] at this; simpa using this
      subst this
      simp [renderCode, hk j, hr]
    · simp at hev

end MJ.Vm
